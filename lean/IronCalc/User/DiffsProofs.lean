import IronCalc.User.Diffs
import IronCalc.User.HistoryProofs
/-
  Per-diff-kind local laws for the concrete model (`User/Diffs.lean`), i.e. the hypotheses of the
  generic theorems of `User/HistoryProofs.lean`.  `obs` is the identity: the model state already
  is the observable view.
-/
namespace IronCalc.User

variable (env : Env)

/-! ### folding a chain of single diffs -/

theorem foldDiffs_append_ok (f : Book → Diff → Except Err Book) :
    ∀ (xs ys : List Diff) (b w : Book), foldDiffs f b xs = ⟨w, true⟩ →
      foldDiffs f b (xs ++ ys) = foldDiffs f w ys
  | [], _, b, w, h => by
    simp only [foldDiffs, Applied.mk.injEq, and_true] at h
    subst h; rfl
  | d :: xs, ys, b, w, h => by
    simp only [List.cons_append, foldDiffs] at h ⊢
    cases hf : f b d with
    | ok b' => rw [hf] at h; simp only at h ⊢; exact foldDiffs_append_ok f xs ys b' w h
    | error e => rw [hf] at h; simp at h

/-- the single diff `d` takes `a` to `b` when replayed forwards and `b` to `a` backwards -/
def Linked1 (d : Diff) (a b : Book) : Prop :=
  back1 env b d = .ok a ∧ fwd1 env a d = .ok b

/-- a list of diffs recorded along a sequence of states -/
inductive Chain : Book → List Diff → Book → Prop
  | nil (b : Book) : Chain b [] b
  | snoc {a b c : Book} {ds : List Diff} {d : Diff} :
      Chain a ds b → Linked1 env d b c → Chain a (ds ++ [d]) c

theorem Chain.single {d : Diff} {a b : Book} (h : Linked1 env d a b) : Chain env a [d] b :=
  Chain.snoc (Chain.nil a) h

theorem chain_fwd {a b : Book} {ds : List Diff} (h : Chain env a ds b) :
    applyFwd env a ds = ⟨b, true⟩ := by
  induction h with
  | nil => rfl
  | snoc _ hl ih =>
    unfold applyFwd at ih ⊢
    rw [foldDiffs_append_ok _ _ _ _ _ ih]
    simp [foldDiffs, hl.2]

theorem chain_back {a b : Book} {ds : List Diff} (h : Chain env a ds b) :
    applyBack env b ds = ⟨a, true⟩ := by
  induction h with
  | nil => rfl
  | snoc _ hl ih =>
    unfold applyBack at ih ⊢
    rw [List.reverse_append]
    simp only [List.reverse_cons, List.reverse_nil, List.nil_append, List.cons_append, foldDiffs,
      hl.1]
    exact ih

theorem chain_linked {a b : Book} {ds : List Diff} (h : Chain env a ds b) :
    Linked (sys env) (fun w => w) ds a b := by
  constructor
  · intro v hv; subst hv; simp [sys, chain_back env h]
  · intro v hv; subst hv; simp [sys, chain_fwd env h]

/-! ### list facts -/

theorem getSheet_ok {b : Book} {i : Nat} {s : Sheet} (h : getSheet b i = .ok s) :
    b.sheets[i]? = some s := by
  unfold getSheet at h
  cases hs : b.sheets[i]? with
  | none => rw [hs] at h; cases h
  | some t => rw [hs] at h; cases h; rfl

theorem getSheet_setSheet {b : Book} {i : Nat} {s t : Sheet} (h : getSheet b i = .ok s) :
    getSheet (setSheet b i t) i = .ok t := by
  have hi : i < b.sheets.length := by
    have := getSheet_ok h
    exact (List.getElem?_eq_some_iff.mp this).1
  simp [getSheet, setSheet, List.getElem?_set, hi]

theorem setSheet_setSheet (b : Book) (i : Nat) (s t : Sheet) :
    setSheet (setSheet b i s) i t = setSheet b i t := by
  simp [setSheet, List.set_set]

theorem set_self {α} : ∀ (l : List α) (i : Nat) (a : α), l[i]? = some a → l.set i a = l
  | [], _, _, h => by simp at h
  | x :: l, 0, a, h => by simp at h; simp [h]
  | x :: l, i + 1, a, h => by simp at h; simp [set_self l i a h]

theorem eraseIdx_snoc {α} : ∀ (l : List α) (x : α), (l ++ [x]).eraseIdx l.length = l
  | [], _ => rfl
  | y :: l, x => by simp [eraseIdx_snoc l x]

theorem insertIdx_eraseIdx {α} : ∀ (l : List α) (i : Nat) (a : α), l[i]? = some a →
    (l.eraseIdx i).insertIdx i a = l
  | [], _, _, h => by simp at h
  | x :: l, 0, a, h => by simp at h; simp [h]
  | x :: l, i + 1, a, h => by simp at h; simp [insertIdx_eraseIdx l i a h]

theorem eraseIdx_insertIdx' {α} : ∀ (l : List α) (i : Nat) (a : α), i ≤ l.length →
    (l.insertIdx i a).eraseIdx i = l
  | _, 0, _, _ => by simp
  | [], i + 1, _, h => by simp at h
  | x :: l, i + 1, a, h => by simp at h; simp [eraseIdx_insertIdx' l i a h]

theorem getElem?_insertIdx_self' {α} : ∀ (l : List α) (i : Nat) (a : α), i ≤ l.length →
    (l.insertIdx i a)[i]? = some a
  | _, 0, _, _ => by simp
  | [], i + 1, _, h => by simp at h
  | x :: l, i + 1, a, h => by simp at h; simp [getElem?_insertIdx_self' l i a h]

theorem set_insertIdx {α} : ∀ (l : List α) (i : Nat) (a b : α), i ≤ l.length →
    (l.insertIdx i a).set i b = l.insertIdx i b
  | _, 0, _, _, _ => by simp
  | [], i + 1, _, _, h => by simp at h
  | x :: l, i + 1, a, b, h => by simp at h; simp [set_insertIdx l i a b h]

theorem insertIdx_length' {α} : ∀ (l : List α) (a : α), l.insertIdx l.length a = l ++ [a]
  | [], _ => rfl
  | x :: l, a => by simp [insertIdx_length' l a]

theorem length_eraseIdx' {α} : ∀ (l : List α) (i : Nat), i < l.length →
    (l.eraseIdx i).length + 1 = l.length
  | [], _, h => by simp at h
  | x :: l, 0, _ => by simp
  | x :: l, i + 1, h => by simp at h; simp [length_eraseIdx' l i h]

theorem setSheet_same {b : Book} {i : Nat} {s : Sheet} (h : getSheet b i = .ok s) :
    setSheet b i s = b := by
  have := getSheet_ok h
  cases b
  simp only [setSheet] at this ⊢
  congr
  exact set_self _ _ _ this

theorem upd_upd {α : Type} (f : Int → α) (k : Int) (v w : α) : upd (upd f k v) k w = upd f k w := by
  funext x; simp only [upd]; split <;> rfl

theorem upd_same {α : Type} (f : Int → α) (k : Int) : upd f k (f k) = f := by
  funext x; simp only [upd]; split
  · next h => rw [h]
  · rfl

theorem upd_at {α : Type} (f : Int → α) (k : Int) (v : α) : upd f k v k = v := by simp [upd]


/-! ### the domain on which undo/redo are exact (decidable) -/

/-- `p` holds for the `n` integers starting at `c` -/
def allFrom (p : Int → Bool) : Nat → Int → Bool
  | 0, _ => true
  | n + 1, c => p c && allFrom p n (c + 1)

/-- `D01`: the (state, operation) pairs on which the recorded diff list is proved to undo and
    redo the operation exactly.  Outside it: `delete_sheet` of a sheet with local defined names (undo
    re-creates them at the end of the name list — F01o), states
    whose stored timezone/locale/frozen counts would themselves be rejected by the setters, and —
    for the three sheet-list operations, books whose names are not valid and unique. -/
def dom (b : Book) : Op → Bool
  | .setName _ => true
  | .setTimezone _ => env.validTz b.tz
  | .setLocale _ => env.validLocale b.locale
  | .setFrozenRows s _ =>
    match b.sheets[s]? with
    | some sh => decide (0 ≤ sh.frozenRows) && decide (sh.frozenRows < LAST_ROW)
    | none => true
  | .setFrozenCols s _ =>
    match b.sheets[s]? with
    | some sh => decide (0 ≤ sh.frozenCols) && decide (sh.frozenCols < LAST_COLUMN)
    | none => true
  | .setShowGridLines _ _ => true
  | .setSheetColor _ _ => true
  | .hideSheet _ => true
  | .unhideSheet _ => true
  | .renameSheet i n =>
    -- after the rename the old name is still valid and not the name of ANOTHER sheet
    -- (true of well-formed books: names are valid and unique; checked here, not proved)
    match b.sheets[i]?, mRenameSheet env b i n with
    | some sh, .ok b' => isValidSheetName sh.name &&
        (match sheetIndexByName env b' sh.name with
          | some j => decide (j = i)
          | none => true)
    | _, _ => true
  | .newSheet =>
    -- the generated name is valid and free (always true of `new_sheet`'s search; checked, not proved)
    -- and no defined name is scoped to the id the new sheet gets (it is larger than every id in use)
    !b.sheets.isEmpty && isValidSheetName (mNewSheet env b).2.1 &&
      !nameTaken env b (mNewSheet env b).2.1 &&
      !(b.names.any fun d => d.sheetId == some (newSheetId b))
  | .deleteSheet i =>
    -- the deleted sheet's name is valid and no other sheet has it (true of well-formed books)
    -- and it has no local defined names: undo re-creates those at the END of the name list
    -- (`new_defined_name` appends), so the list order is not restored exactly (F01o)
    match b.sheets[i]? with
    | some sh => isValidSheetName sh.name &&
        !nameTaken env { b with sheets := b.sheets.eraseIdx i } sh.name &&
        !(b.names.any fun d => d.sheetId == some sh.id)
    | none => true
  | .setColumnsWidth s c1 c2 _ =>
    match b.sheets[s]? with
    | some sh => allFrom (fun c => decide (0 ≤ (sh.colAt c).width))
        (rangeCount c1 c2) c1
    | none => true
  | .setRowsHeight s r1 r2 _ =>
    match b.sheets[s]? with
    | some sh => allFrom (fun r => decide (0 ≤ (sh.rowAt r).height))
        (rangeCount r1 r2) r1
    | none => true
  | .setColumnsHidden _ _ _ _ => true
  | .setRowsHidden _ _ _ _ => true
  | .moveRows _ _ _ _ => true
  | .moveColumns _ _ _ _ => true
  | .setPlainInput s r _ _ =>
    match b.sheets[s]? with
    | some sh => decide (0 ≤ (sh.rowAt r).height)
    | none => true
  | .rangeClearContents s _ _ _ _ =>
    -- the `SetCellLink` diffs of links inside the area are not modelled
    match b.sheets[s]? with
    | some sh => sh.links.isEmpty
    | none => true

/-- the three ways `move_rows_action` can end -/
theorem moveRows_cases (b : Book) (s : Nat) (r n d : Int) :
    moveRows b s r n d = ⟨b, none, none⟩ ∨ (∃ e, moveRows b s r n d = fail b e) ∨
      (∃ b' nd, mMoveRows b s r n nd = .ok b' ∧
        moveRows b s r n d = done b' [.moveRows s r n nd]) := by
  unfold moveRows
  split
  · left; rfl
  · split
    · right; left; exact ⟨_, rfl⟩
    · split
      · right; left; exact ⟨_, rfl⟩
      · split
        · right; left; exact ⟨_, rfl⟩
        · next b' hm => right; right; exact ⟨_, _, hm, rfl⟩

/-- the three ways `move_columns_action` can end -/
theorem moveColumns_cases (b : Book) (s : Nat) (r n d : Int) :
    moveColumns b s r n d = ⟨b, none, none⟩ ∨ (∃ e, moveColumns b s r n d = fail b e) ∨
      (∃ b' nd, mMoveColumns b s r n nd = .ok b' ∧
        moveColumns b s r n d = done b' [.moveColumns s r n nd]) := by
  unfold moveColumns
  split
  · left; rfl
  · split
    · right; left; exact ⟨_, rfl⟩
    · split
      · right; left; exact ⟨_, rfl⟩
      · split
        · right; left; exact ⟨_, rfl⟩
        · next b' hm => right; right; exact ⟨_, _, hm, rfl⟩

/-- the ways `set_user_input` (plain text) can end -/
theorem setPlainInput_cases (b : Book) (sheet : Nat) (r c : Int) (text : String) :
    (∃ e, setPlainInput b sheet r c text = fail b e) ∨
    (∃ s, getSheet b sheet = .ok s ∧ validRow r = true ∧ validCol c = true ∧
      ((¬ (s.rowAt r).height < ONE_LINE_HEIGHT ∧
        setPlainInput b sheet r c text =
          done (setSheet b sheet { s with cellAt := upd2 s.cellAt r c (some text) })
            [.setCellValue sheet r c (s.cellAt r c) text]) ∨
       ((s.rowAt r).height < ONE_LINE_HEIGHT ∧
        setPlainInput b sheet r c text =
          done (setSheet (setSheet b sheet { s with cellAt := upd2 s.cellAt r c (some text) }) sheet
              { ({ s with cellAt := upd2 s.cellAt r c (some text) } : Sheet) with
                rowAt := upd s.rowAt r { s.rowAt r with height := ONE_LINE_HEIGHT } })
            [.setCellValue sheet r c (s.cellAt r c) text,
             .setRowHeight sheet r (s.rowAt r).height ONE_LINE_HEIGHT]))) := by
  unfold setPlainInput
  by_cases hc : validCol c = true
  · by_cases hr : validRow r = true
    · cases hs : getSheet b sheet with
      | error e => left; exact ⟨e, by simp [hc, hr]⟩
      | ok s =>
        right
        refine ⟨s, rfl, hr, hc, ?_⟩
        have hcell : mSetCell b sheet r c (some text)
            = .ok (setSheet b sheet { s with cellAt := upd2 s.cellAt r c (some text) }) := by
          simp [mSetCell, hs, hr, hc]
        by_cases hh : (s.rowAt r).height < ONE_LINE_HEIGHT
        · right
          refine ⟨hh, ?_⟩
          have h20 : ¬ ONE_LINE_HEIGHT < 0 := by decide
          simp only [hc, hr, Bool.not_true, Bool.false_eq_true, if_false, hcell, hh, if_true,
            mSetRowHeight, getSheet_setSheet hs, h20]
        · left
          refine ⟨hh, ?_⟩
          simp only [hc, hr, Bool.not_true, Bool.false_eq_true, if_false, hcell, hh]
    · left; exact ⟨.invalidRow, by simp [hc, hr]⟩
  · left; exact ⟨.invalidColumn, by simp [hc]⟩

/-- the ways `range_clear_contents` can end -/
theorem rangeClear_cases (b : Book) (sheet : Nat) (row column width height : Int) :
    (∃ e, rangeClearContents b sheet row column width height = fail b e) ∨
    (∃ s, getSheet b sheet = .ok s ∧
      rangeClearContents b sheet row column width height =
        done (setSheet b sheet
          { s with cellAt := fun r c => if inArea row column width height r c then none else s.cellAt r c })
          [.rangeClearContents sheet row column width height s.cellAt]) := by
  unfold rangeClearContents
  split
  · left; exact ⟨_, rfl⟩
  · cases hs : getSheet b sheet with
    | error e => left; exact ⟨e, rfl⟩
    | ok s => right; exact ⟨s, rfl, by simp [mClearArea, hs]⟩

/-! ### atomicity of every operation (C04) -/

theorem colsWidthLoop_ok (sheet : Nat) (w : Int) (hw : ¬ w < 0) : ∀ (n : Nat) (c : Int) (b : Book)
    (acc : List Diff) (s : Sheet), getSheet b sheet = .ok s → 1 ≤ c → c + n - 1 ≤ LAST_COLUMN →
    (colsWidthLoop sheet w n c b acc).err = none
  | 0, _, _, _, _, _, _, _ => rfl
  | n + 1, c, b, acc, s, hs, h1, h2 => by
    have hv : validCol c = true := by simp [validCol]; omega
    simp only [colsWidthLoop, mGetColumnWidth, mSetColumnWidth, hs, hv, hw, Bool.not_true,
      Bool.false_eq_true, if_false]
    exact colsWidthLoop_ok sheet w hw n (c + 1) _ _ _ (getSheet_setSheet hs) (by omega)
      (by omega)

theorem rowsHeightLoop_ok (sheet : Nat) (h : Int) (hh : ¬ h < 0) : ∀ (n : Nat) (r : Int) (b : Book)
    (acc : List Diff) (s : Sheet), getSheet b sheet = .ok s → 1 ≤ r → r + n - 1 ≤ LAST_ROW →
    (rowsHeightLoop sheet h n r b acc).err = none
  | 0, _, _, _, _, _, _, _ => rfl
  | n + 1, r, b, acc, s, hs, h1, h2 => by
    have hv : validRow r = true := by simp [validRow]; omega
    simp only [rowsHeightLoop, mGetRowHeight, mSetRowHeight, hs, hv, hh, Bool.not_true,
      Bool.false_eq_true, if_false]
    exact rowsHeightLoop_ok sheet h hh n (r + 1) _ _ _ (getSheet_setSheet hs) (by omega)
      (by omega)

theorem colsHiddenLoop_ok (sheet : Nat) (h : Bool) : ∀ (n : Nat) (c : Int) (b : Book)
    (acc : List Diff) (s : Sheet), getSheet b sheet = .ok s → 1 ≤ c → c + n - 1 ≤ LAST_COLUMN →
    (colsHiddenLoop sheet h n c b acc).err = none
  | 0, _, _, _, _, _, _, _ => rfl
  | n + 1, c, b, acc, s, hs, h1, h2 => by
    have hv : validCol c = true := by simp [validCol]; omega
    simp only [colsHiddenLoop, mIsColumnHidden, mSetColumnHidden, hs, hv, Bool.not_true,
      Bool.false_eq_true, if_false]
    exact colsHiddenLoop_ok sheet h n (c + 1) _ _ _ (getSheet_setSheet hs) (by omega) (by omega)

theorem rowsHiddenLoop_ok (sheet : Nat) (h : Bool) : ∀ (n : Nat) (r : Int) (b : Book)
    (acc : List Diff) (s : Sheet), getSheet b sheet = .ok s → 1 ≤ r → r + n - 1 ≤ LAST_ROW →
    (rowsHiddenLoop sheet h n r b acc).err = none
  | 0, _, _, _, _, _, _, _ => rfl
  | n + 1, r, b, acc, s, hs, h1, h2 => by
    have hv : validRow r = true := by simp [validRow]; omega
    simp only [rowsHiddenLoop, mIsRowHidden, mSetRowHidden, hs, hv, Bool.not_true,
      Bool.false_eq_true, if_false]
    exact rowsHiddenLoop_ok sheet h n (r + 1) _ _ _ (getSheet_setSheet hs) (by omega) (by omega)

/-- the range check of the repaired code is enough for the loop bounds -/
theorem checkCols_bounds {b : Book} {sheet : Nat} {c1 c2 : Int}
    (h : checkColsRange b sheet c1 c2 = none) :
    (∃ s, getSheet b sheet = .ok s) ∧ (rangeCount c1 c2 = 0 ∨
      (1 ≤ c1 ∧ c1 + (rangeCount c1 c2 : Nat) - 1 ≤ LAST_COLUMN)) := by
  unfold checkColsRange at h
  cases hs : getSheet b sheet with
  | error e => rw [hs] at h; simp at h
  | ok s =>
    rw [hs] at h
    refine ⟨⟨s, rfl⟩, ?_⟩
    by_cases hle : c1 ≤ c2
    · right
      simp only [hle, decide_true, Bool.true_and] at h
      simp only [validCol, LAST_COLUMN] at h ⊢
      simp only [rangeCount]
      simp at h
      obtain ⟨⟨ha, hb⟩, hc, hd⟩ := h
      have hb' := of_decide_eq_true hb
      have hd' := of_decide_eq_true hd
      omega
    · left; simp only [rangeCount]; omega

theorem checkRows_bounds {b : Book} {sheet : Nat} {r1 r2 : Int}
    (h : checkRowsRange b sheet r1 r2 = none) :
    (∃ s, getSheet b sheet = .ok s) ∧ (rangeCount r1 r2 = 0 ∨
      (1 ≤ r1 ∧ r1 + (rangeCount r1 r2 : Nat) - 1 ≤ LAST_ROW)) := by
  unfold checkRowsRange at h
  cases hs : getSheet b sheet with
  | error e => rw [hs] at h; simp at h
  | ok s =>
    rw [hs] at h
    refine ⟨⟨s, rfl⟩, ?_⟩
    by_cases hle : r1 ≤ r2
    · right
      simp only [hle, decide_true, Bool.true_and] at h
      simp only [validRow, LAST_ROW] at h ⊢
      simp only [rangeCount]
      simp at h
      obtain ⟨⟨ha, hb⟩, hc, hd⟩ := h
      have hb' := of_decide_eq_true hb
      have hd' := of_decide_eq_true hd
      omega
    · left; simp only [rangeCount]; omega


theorem ofLoop_err_none {l : LoopOut} (h : l.err = none) : (ofLoop l).err = none := by
  simp [ofLoop, h]

set_option hygiene false in
local macro "two_split" : tactic =>
  `(tactic| (split at h
             · simp_all [done, fail]
             · (split at h <;> simp_all [done, fail])))

/-- C04, per operation: a failing call neither mutates nor records — every modelled operation -/
theorem doOp_atomic (b : Book) (o : Op) (e : Err) (h : (doOp env b o).err = some e) :
    (doOp env b o).w = b ∧ (doOp env b o).pushed = none := by
  cases o with
  | setName n => simp only [doOp, setName] at h ⊢; split at h <;> simp_all [done]
  | setTimezone tz => simp only [doOp, setTimezone] at h ⊢; split at h <;> simp_all [done, fail]
  | setLocale l => simp only [doOp, setLocale] at h ⊢; split at h <;> simp_all [done, fail]
  | setFrozenRows s n =>
    simp only [doOp, setFrozenRows] at h ⊢
    two_split
  | setFrozenCols s n =>
    simp only [doOp, setFrozenCols] at h ⊢
    two_split
  | setShowGridLines s v =>
    simp only [doOp, setShowGridLines] at h ⊢
    two_split
  | setSheetColor s c =>
    simp only [doOp, setSheetColor] at h ⊢
    two_split
  | hideSheet s =>
    simp only [doOp, hideSheet] at h ⊢
    two_split
  | unhideSheet s =>
    simp only [doOp, unhideSheet] at h ⊢
    two_split
  | renameSheet s n =>
    simp only [doOp, renameSheet] at h ⊢
    split at h
    · simp_all [fail]
    · split at h
      · simp_all
      · split at h <;> simp_all [done, fail]
  | newSheet => simp [doOp, newSheet, done] at h
  | deleteSheet s =>
    simp only [doOp, deleteSheet] at h ⊢
    two_split
  | setColumnsWidth s c1 c2 w =>
    simp only [doOp, setColumnsWidth] at h ⊢
    cases hc : checkColsRange b s c1 c2 with
    | some e' => simp_all [fail]
    | none =>
      rw [hc] at h
      simp only at h ⊢
      by_cases hw : w < 0
      · simp_all [fail]
      · simp only [hw, if_false] at h ⊢
        obtain ⟨⟨sh, hsh⟩, hb⟩ := checkCols_bounds hc
        have : (colsWidthLoop s w (rangeCount c1 c2) c1 b []).err = none := by
          rcases hb with h0 | ⟨h1, h2⟩
          · rw [h0]; rfl
          · exact colsWidthLoop_ok s w hw _ _ _ _ sh hsh h1 h2
        rw [ofLoop_err_none this] at h; cases h
  | setRowsHeight s r1 r2 hgt =>
    simp only [doOp, setRowsHeight] at h ⊢
    cases hc : checkRowsRange b s r1 r2 with
    | some e' => simp_all [fail]
    | none =>
      rw [hc] at h
      simp only at h ⊢
      by_cases hw : hgt < 0
      · simp_all [fail]
      · simp only [hw, if_false] at h ⊢
        obtain ⟨⟨sh, hsh⟩, hb⟩ := checkRows_bounds hc
        have : (rowsHeightLoop s hgt (rangeCount r1 r2) r1 b []).err = none := by
          rcases hb with h0 | ⟨h1, h2⟩
          · rw [h0]; rfl
          · exact rowsHeightLoop_ok s hgt hw _ _ _ _ sh hsh h1 h2
        rw [ofLoop_err_none this] at h; cases h
  | setColumnsHidden s c1 c2 hd =>
    simp only [doOp, setColumnsHidden] at h ⊢
    cases hc : checkColsRange b s c1 c2 with
    | some e' => simp_all [fail]
    | none =>
      rw [hc] at h
      simp only at h ⊢
      obtain ⟨⟨sh, hsh⟩, hb⟩ := checkCols_bounds hc
      have : (colsHiddenLoop s hd (rangeCount c1 c2) c1 b []).err = none := by
        rcases hb with h0 | ⟨h1, h2⟩
        · rw [h0]; rfl
        · exact colsHiddenLoop_ok s hd _ _ _ _ sh hsh h1 h2
      rw [ofLoop_err_none this] at h; cases h
  | setRowsHidden s r1 r2 hd =>
    simp only [doOp, setRowsHidden] at h ⊢
    cases hc : checkRowsRange b s r1 r2 with
    | some e' => simp_all [fail]
    | none =>
      rw [hc] at h
      simp only at h ⊢
      obtain ⟨⟨sh, hsh⟩, hb⟩ := checkRows_bounds hc
      have : (rowsHiddenLoop s hd (rangeCount r1 r2) r1 b []).err = none := by
        rcases hb with h0 | ⟨h1, h2⟩
        · rw [h0]; rfl
        · exact rowsHiddenLoop_ok s hd _ _ _ _ sh hsh h1 h2
      rw [ofLoop_err_none this] at h; cases h
  | moveRows s r n d =>
    simp only [doOp] at h ⊢
    rcases moveRows_cases b s r n d with h1 | ⟨e', h1⟩ | ⟨b', nd, _, h1⟩ <;>
      rw [h1] at h ⊢ <;> simp_all [fail, done]

  | moveColumns s r n d =>
    simp only [doOp] at h ⊢
    rcases moveColumns_cases b s r n d with h1 | ⟨e', h1⟩ | ⟨b', nd, _, h1⟩ <;>
      rw [h1] at h ⊢ <;> simp_all [fail, done]
  | setPlainInput s r c t =>
    simp only [doOp] at h ⊢
    rcases setPlainInput_cases b s r c t with ⟨e', h1⟩ | ⟨sh, _, _, _, ⟨_, h1⟩ | ⟨_, h1⟩⟩ <;>
      rw [h1] at h ⊢ <;> simp_all [fail, done]
  | rangeClearContents s r c w ht =>
    simp only [doOp] at h ⊢
    rcases rangeClear_cases b s r c w ht with ⟨e', h1⟩ | ⟨sh, _, h1⟩ <;>
      rw [h1] at h ⊢ <;> simp_all [fail, done]

/-! ### a successful call that records nothing changed nothing -/

theorem doOp_quiet (b : Book) (o : Op) (herr : (doOp env b o).err = none)
    (hp : (doOp env b o).pushed = none) : (doOp env b o).w = b := by
  cases o with
  | setName n => simp only [doOp, setName] at *; split at hp <;> simp_all [done]
  | setTimezone tz => simp only [doOp, setTimezone] at *; split at hp <;> simp_all [done, fail]
  | setLocale l => simp only [doOp, setLocale] at *; split at hp <;> simp_all [done, fail]
  | setFrozenRows s n =>
    simp only [doOp, setFrozenRows] at *
    split at hp
    · simp_all [fail]
    · split at hp <;> simp_all [done, fail]
  | setFrozenCols s n =>
    simp only [doOp, setFrozenCols] at *
    split at hp
    · simp_all [fail]
    · split at hp <;> simp_all [done, fail]
  | setShowGridLines s v =>
    simp only [doOp, setShowGridLines] at *
    split at hp
    · simp_all [fail]
    · split at hp <;> simp_all [done, fail]
  | setSheetColor s c =>
    simp only [doOp, setSheetColor] at *
    split at hp
    · simp_all [fail]
    · split at hp <;> simp_all [done, fail]
  | hideSheet s =>
    simp only [doOp, hideSheet] at *
    split at hp
    · simp_all [fail]
    · split at hp <;> simp_all [done, fail]
  | unhideSheet s =>
    simp only [doOp, unhideSheet] at *
    split at hp
    · simp_all [fail]
    · split at hp <;> simp_all [done, fail]
  | renameSheet s n =>
    simp only [doOp, renameSheet] at *
    split at hp
    · simp_all [fail]
    · split at hp
      · simp_all
      · split at hp <;> simp_all [done, fail]
  | newSheet => simp [doOp, newSheet, done] at hp
  | deleteSheet s =>
    simp only [doOp, deleteSheet] at *
    split at hp
    · simp_all [fail]
    · split at hp <;> simp_all [done, fail]
  | setColumnsWidth s c1 c2 w =>
    simp only [doOp, setColumnsWidth] at *
    split at hp
    · simp_all [fail]
    · split at hp
      · simp_all [fail]
      · simp only [ofLoop] at hp herr ⊢; split at hp <;> simp_all
  | setRowsHeight s r1 r2 hgt =>
    simp only [doOp, setRowsHeight] at *
    split at hp
    · simp_all [fail]
    · split at hp
      · simp_all [fail]
      · simp only [ofLoop] at hp herr ⊢; split at hp <;> simp_all
  | setColumnsHidden s c1 c2 hd =>
    simp only [doOp, setColumnsHidden] at *
    split at hp
    · simp_all [fail]
    · simp only [ofLoop] at hp herr ⊢; split at hp <;> simp_all
  | setRowsHidden s r1 r2 hd =>
    simp only [doOp, setRowsHidden] at *
    split at hp
    · simp_all [fail]
    · simp only [ofLoop] at hp herr ⊢; split at hp <;> simp_all
  | moveRows s r n d =>
    simp only [doOp] at herr hp ⊢
    rcases moveRows_cases b s r n d with h1 | ⟨e', h1⟩ | ⟨b', nd, _, h1⟩ <;>
      rw [h1] at herr hp ⊢ <;> simp_all [fail, done]

  | moveColumns s r n d =>
    simp only [doOp] at herr hp ⊢
    rcases moveColumns_cases b s r n d with h1 | ⟨e', h1⟩ | ⟨b', nd, _, h1⟩ <;>
      rw [h1] at herr hp ⊢ <;> simp_all [fail, done]
  | setPlainInput s r c t =>
    simp only [doOp] at herr hp ⊢
    rcases setPlainInput_cases b s r c t with ⟨e', h1⟩ | ⟨sh, _, _, _, ⟨_, h1⟩ | ⟨_, h1⟩⟩ <;>
      rw [h1] at herr hp ⊢ <;> simp_all [fail, done]
  | rangeClearContents s r c w ht =>
    simp only [doOp] at herr hp ⊢
    rcases rangeClear_cases b s r c w ht with ⟨e', h1⟩ | ⟨sh, _, h1⟩ <;>
      rw [h1] at herr hp ⊢ <;> simp_all [fail, done]

/-! ### single-diff operations: the recorded diff links the states before and after -/

theorem book_eta_name (b : Book) (n : String) :
    ({ ({ b with name := n } : Book) with name := b.name } : Book) = b := by cases b; rfl
theorem book_eta_tz (b : Book) (n : String) :
    ({ ({ b with tz := n } : Book) with tz := b.tz } : Book) = b := by cases b; rfl
theorem book_eta_locale (b : Book) (n : String) :
    ({ ({ b with locale := n } : Book) with locale := b.locale } : Book) = b := by cases b; rfl

/-- writing a modified copy of sheet `i` and then the original again is the identity -/
theorem setSheet_roundtrip {b : Book} {i : Nat} {s : Sheet} (hs : getSheet b i = .ok s)
    (t : Sheet) : setSheet (setSheet b i t) i s = b := by
  rw [setSheet_setSheet, setSheet_same hs]

theorem linked1_setFrozenRows {b : Book} {sheet : Nat} {s : Sheet} {n : Int}
    (hs : getSheet b sheet = .ok s) (h0 : 0 ≤ s.frozenRows) (h1 : s.frozenRows < LAST_ROW)
    (hn0 : ¬ n < 0) (hn1 : ¬ n ≥ LAST_ROW) :
    Linked1 env (.setFrozenRows sheet s.frozenRows n) b
      (setSheet b sheet { s with frozenRows := n }) := by
  have h0' : ¬ s.frozenRows < 0 := by omega
  have h1' : ¬ s.frozenRows ≥ LAST_ROW := by omega
  constructor
  · simp only [back1, mSetFrozenRows, getSheet_setSheet hs, h0', h1', if_false]
    rw [setSheet_setSheet]
    exact congrArg _ (setSheet_same hs)
  · simp only [fwd1, mSetFrozenRows, hs, hn0, hn1, if_false]

theorem linked1_setFrozenCols {b : Book} {sheet : Nat} {s : Sheet} {n : Int}
    (hs : getSheet b sheet = .ok s) (h0 : 0 ≤ s.frozenCols) (h1 : s.frozenCols < LAST_COLUMN)
    (hn0 : ¬ n < 0) (hn1 : ¬ n ≥ LAST_COLUMN) :
    Linked1 env (.setFrozenCols sheet s.frozenCols n) b
      (setSheet b sheet { s with frozenCols := n }) := by
  have h0' : ¬ s.frozenCols < 0 := by omega
  have h1' : ¬ s.frozenCols ≥ LAST_COLUMN := by omega
  constructor
  · simp only [back1, mSetFrozenCols, getSheet_setSheet hs, h0', h1', if_false]
    rw [setSheet_setSheet]
    exact congrArg _ (setSheet_same hs)
  · simp only [fwd1, mSetFrozenCols, hs, hn0, hn1, if_false]

theorem linked1_setShowGridLines {b : Book} {sheet : Nat} {s : Sheet} {v : Bool}
    (hs : getSheet b sheet = .ok s) :
    Linked1 env (.setShowGridLines sheet s.grid v) b (setSheet b sheet { s with grid := v }) := by
  constructor
  · simp only [back1, mSetShowGridLines, getSheet_setSheet hs]
    rw [setSheet_setSheet]
    exact congrArg _ (setSheet_same hs)
  · simp only [fwd1, mSetShowGridLines, hs]

theorem linked1_setSheetColor {b : Book} {sheet : Nat} {s : Sheet} {c : String}
    (hs : getSheet b sheet = .ok s) :
    Linked1 env (.setSheetColor sheet s.color c) b (setSheet b sheet { s with color := c }) := by
  constructor
  · simp only [back1, mSetSheetColor, getSheet_setSheet hs]
    rw [setSheet_setSheet]
    exact congrArg _ (setSheet_same hs)
  · simp only [fwd1, mSetSheetColor, hs]

theorem linked1_setSheetState {b : Book} {sheet : Nat} {s : Sheet} {st : SheetState}
    (hs : getSheet b sheet = .ok s) :
    Linked1 env (.setSheetState sheet s.state st) b (setSheet b sheet { s with state := st }) := by
  constructor
  · simp only [back1, mSetSheetState, getSheet_setSheet hs]
    rw [setSheet_setSheet]
    exact congrArg _ (setSheet_same hs)
  · simp only [fwd1, mSetSheetState, hs]


/-! ### the loops: one diff per column / row, chained -/

theorem allFrom_congr {p q : Int → Bool} : ∀ (n : Nat) (c : Int), (∀ x, c ≤ x → p x = q x) →
    allFrom p n c = allFrom q n c
  | 0, _, _ => rfl
  | n + 1, c, h => by
    simp only [allFrom, h c (Int.le_refl c)]
    rw [allFrom_congr n (c + 1) (fun x hx => h x (by omega))]

theorem colview_eta_width (v : ColView) (w : Int) :
    ({ ({ v with width := w } : ColView) with width := v.width } : ColView) = v := by cases v; rfl
theorem colview_eta_hidden (v : ColView) (h : Bool) :
    ({ ({ v with hidden := h } : ColView) with hidden := v.hidden } : ColView) = v := by
  cases v; rfl
theorem rowview_eta_height (v : RowView) (w : Int) :
    ({ ({ v with height := w } : RowView) with height := v.height } : RowView) = v := by
  cases v; rfl
theorem rowview_eta_hidden (v : RowView) (h : Bool) :
    ({ ({ v with hidden := h } : RowView) with hidden := v.hidden } : RowView) = v := by
  cases v; rfl

theorem sheet_col_roundtrip (s : Sheet) (c : Int) (v : ColView) :
    ({ ({ s with colAt := upd s.colAt c v } : Sheet) with
        colAt := upd (upd s.colAt c v) c (s.colAt c) } : Sheet) = s := by
  cases s; simp [upd_upd, upd_same]

theorem sheet_row_roundtrip (s : Sheet) (r : Int) (v : RowView) :
    ({ ({ s with rowAt := upd s.rowAt r v } : Sheet) with
        rowAt := upd (upd s.rowAt r v) r (s.rowAt r) } : Sheet) = s := by
  cases s; simp [upd_upd, upd_same]

theorem linked1_setColumnWidth {b : Book} {sheet : Nat} {s : Sheet} {c w : Int}
    (hs : getSheet b sheet = .ok s) (hv : validCol c = true) (hw : ¬ w < 0)
    (hold : ¬ (s.colAt c).width < 0) :
    Linked1 env (.setColumnWidth sheet c (s.colAt c).width w) b
      (setSheet b sheet { s with colAt := upd s.colAt c { s.colAt c with width := w } }) := by
  constructor
  · simp only [back1, mSetColumnWidth, getSheet_setSheet hs, hv, hold, Bool.not_true,
      Bool.false_eq_true, if_false, upd_at, colview_eta_width]
    rw [setSheet_setSheet, sheet_col_roundtrip]
    exact congrArg _ (setSheet_same hs)
  · simp only [fwd1, mSetColumnWidth, hs, hv, hw, Bool.not_true, Bool.false_eq_true, if_false]

theorem linked1_setRowHeight {b : Book} {sheet : Nat} {s : Sheet} {r h : Int}
    (hs : getSheet b sheet = .ok s) (hv : validRow r = true) (hw : ¬ h < 0)
    (hold : ¬ (s.rowAt r).height < 0) :
    Linked1 env (.setRowHeight sheet r (s.rowAt r).height h) b
      (setSheet b sheet { s with rowAt := upd s.rowAt r { s.rowAt r with height := h } }) := by
  constructor
  · simp only [back1, mSetRowHeight, getSheet_setSheet hs, hv, hold, Bool.not_true,
      Bool.false_eq_true, if_false, upd_at, rowview_eta_height]
    rw [setSheet_setSheet, sheet_row_roundtrip]
    exact congrArg _ (setSheet_same hs)
  · simp only [fwd1, mSetRowHeight, hs, hv, hw, Bool.not_true, Bool.false_eq_true, if_false]

theorem linked1_setColumnHidden {b : Book} {sheet : Nat} {s : Sheet} {c : Int} {h : Bool}
    (hs : getSheet b sheet = .ok s) (hv : validCol c = true) :
    Linked1 env (.setColumnHidden sheet c (s.colAt c).hidden h) b
      (setSheet b sheet { s with colAt := upd s.colAt c { s.colAt c with hidden := h } }) := by
  constructor
  · simp only [back1, mSetColumnHidden, getSheet_setSheet hs, hv, Bool.not_true,
      Bool.false_eq_true, if_false, upd_at, colview_eta_hidden]
    rw [setSheet_setSheet, sheet_col_roundtrip]
    exact congrArg _ (setSheet_same hs)
  · simp only [fwd1, mSetColumnHidden, hs, hv, Bool.not_true, Bool.false_eq_true, if_false]

theorem linked1_setRowHidden {b : Book} {sheet : Nat} {s : Sheet} {r : Int} {h : Bool}
    (hs : getSheet b sheet = .ok s) (hv : validRow r = true) :
    Linked1 env (.setRowHidden sheet r (s.rowAt r).hidden h) b
      (setSheet b sheet { s with rowAt := upd s.rowAt r { s.rowAt r with hidden := h } }) := by
  constructor
  · simp only [back1, mSetRowHidden, getSheet_setSheet hs, hv, Bool.not_true,
      Bool.false_eq_true, if_false, upd_at, rowview_eta_hidden]
    rw [setSheet_setSheet, sheet_row_roundtrip]
    exact congrArg _ (setSheet_same hs)
  · simp only [fwd1, mSetRowHidden, hs, hv, Bool.not_true, Bool.false_eq_true, if_false]

theorem colsWidthLoop_chain (sheet : Nat) (w : Int) (hw : ¬ w < 0) (b0 : Book) :
    ∀ (n : Nat) (c : Int) (b : Book) (acc : List Diff) (s : Sheet),
      getSheet b sheet = .ok s → 1 ≤ c → c + n - 1 ≤ LAST_COLUMN →
      allFrom (fun x => decide (0 ≤ (s.colAt x).width)) n c = true →
      Chain env b0 acc b →
      Chain env b0 (colsWidthLoop sheet w n c b acc).ds (colsWidthLoop sheet w n c b acc).b
  | 0, _, _, _, _, _, _, _, _, hc => hc
  | n + 1, c, b, acc, s, hs, h1, h2, hall, hc => by
    have hv : validCol c = true := by simp [validCol]; omega
    simp only [allFrom, Bool.and_eq_true, decide_eq_true_eq] at hall
    obtain ⟨hpos, hrest⟩ := hall
    have hg : mGetColumnWidth b sheet c = .ok (s.colAt c).width := by
      simp [mGetColumnWidth, hs, hv]
    simp only [colsWidthLoop, hg, mSetColumnWidth, hs, hv, hw, Bool.not_true,
      Bool.false_eq_true, if_false]
    refine colsWidthLoop_chain sheet w hw b0 n (c + 1) _ _ _ (getSheet_setSheet hs) (by omega)
      (by omega) ?_ (Chain.snoc hc (linked1_setColumnWidth env hs hv hw (by omega)))
    rw [← hrest]
    apply allFrom_congr
    intro x hx
    have : x ≠ c := by omega
    simp [upd, this]

theorem rowsHeightLoop_chain (sheet : Nat) (w : Int) (hw : ¬ w < 0) (b0 : Book) :
    ∀ (n : Nat) (c : Int) (b : Book) (acc : List Diff) (s : Sheet),
      getSheet b sheet = .ok s → 1 ≤ c → c + n - 1 ≤ LAST_ROW →
      allFrom (fun x => decide (0 ≤ (s.rowAt x).height)) n c = true →
      Chain env b0 acc b →
      Chain env b0 (rowsHeightLoop sheet w n c b acc).ds (rowsHeightLoop sheet w n c b acc).b
  | 0, _, _, _, _, _, _, _, _, hc => hc
  | n + 1, c, b, acc, s, hs, h1, h2, hall, hc => by
    have hv : validRow c = true := by simp [validRow]; omega
    simp only [allFrom, Bool.and_eq_true, decide_eq_true_eq] at hall
    obtain ⟨hpos, hrest⟩ := hall
    have hg : mGetRowHeight b sheet c = .ok (s.rowAt c).height := by
      simp [mGetRowHeight, hs, hv]
    simp only [rowsHeightLoop, hg, mSetRowHeight, hs, hv, hw, Bool.not_true,
      Bool.false_eq_true, if_false]
    refine rowsHeightLoop_chain sheet w hw b0 n (c + 1) _ _ _ (getSheet_setSheet hs) (by omega)
      (by omega) ?_ (Chain.snoc hc (linked1_setRowHeight env hs hv hw (by omega)))
    rw [← hrest]
    apply allFrom_congr
    intro x hx
    have : x ≠ c := by omega
    simp [upd, this]

theorem colsHiddenLoop_chain (sheet : Nat) (h : Bool) (b0 : Book) :
    ∀ (n : Nat) (c : Int) (b : Book) (acc : List Diff) (s : Sheet),
      getSheet b sheet = .ok s → 1 ≤ c → c + n - 1 ≤ LAST_COLUMN →
      Chain env b0 acc b →
      Chain env b0 (colsHiddenLoop sheet h n c b acc).ds (colsHiddenLoop sheet h n c b acc).b
  | 0, _, _, _, _, _, _, _, hc => hc
  | n + 1, c, b, acc, s, hs, h1, h2, hc => by
    have hv : validCol c = true := by simp [validCol]; omega
    simp only [colsHiddenLoop, mIsColumnHidden, mSetColumnHidden, hs, hv, Bool.not_true,
      Bool.false_eq_true, if_false]
    exact colsHiddenLoop_chain sheet h b0 n (c + 1) _ _ _ (getSheet_setSheet hs) (by omega)
      (by omega) (Chain.snoc hc (linked1_setColumnHidden env hs hv))

theorem rowsHiddenLoop_chain (sheet : Nat) (h : Bool) (b0 : Book) :
    ∀ (n : Nat) (c : Int) (b : Book) (acc : List Diff) (s : Sheet),
      getSheet b sheet = .ok s → 1 ≤ c → c + n - 1 ≤ LAST_ROW →
      Chain env b0 acc b →
      Chain env b0 (rowsHiddenLoop sheet h n c b acc).ds (rowsHiddenLoop sheet h n c b acc).b
  | 0, _, _, _, _, _, _, _, hc => hc
  | n + 1, c, b, acc, s, hs, h1, h2, hc => by
    have hv : validRow c = true := by simp [validRow]; omega
    simp only [rowsHiddenLoop, mIsRowHidden, mSetRowHidden, hs, hv, Bool.not_true,
      Bool.false_eq_true, if_false]
    exact rowsHiddenLoop_chain sheet h b0 n (c + 1) _ _ _ (getSheet_setSheet hs) (by omega)
      (by omega) (Chain.snoc hc (linked1_setRowHidden env hs hv))


/-! ### row moves as permutations of the per-row view -/

theorem rowSrc_inv (r d x : Int) : rowSrc r d (rowSrc (r + d) (-d) x) = x := by
  unfold rowSrc
  repeat' split
  all_goals omega

theorem moveRow1_inv {α : Type} (f : Int → α) (r d : Int) :
    moveRow1 (moveRow1 f r d) (r + d) (-d) = f := by
  funext x
  simp only [moveRow1, rowSrc_inv]

/-- moving down: the last single move is the one of the first row -/
theorem loop_down_last {α : Type} (d : Int) (hd : 0 < d) : ∀ (n : Nat) (row : Int) (f : Int → α),
    moveRowsLoop d (n + 1) row f = moveRow1 (moveRowsLoop d n (row + 1) f) row d
  | 0, row, f => by simp [moveRowsLoop, hd]
  | n + 1, row, f => by
    have ih := loop_down_last d hd n row (moveRow1 f (row + (n + 1 : Nat)) d)
    have e : moveRowsLoop d (n + 2) row f
        = moveRowsLoop d (n + 1) row (moveRow1 f (row + (n + 1 : Nat)) d) := by
      simp [moveRowsLoop, hd]
    rw [e, ih]
    have e2 : moveRowsLoop d (n + 1) (row + 1) f
        = moveRowsLoop d n (row + 1) (moveRow1 f (row + 1 + (n : Nat)) d) := by
      simp [moveRowsLoop, hd]
    rw [e2]
    have : row + ((n + 1 : Nat) : Int) = row + 1 + (n : Nat) := by omega
    rw [this]

/-- moving up: the last single move is the one of the last row -/
theorem loop_up_last {α : Type} (d : Int) (hd : ¬ 0 < d) : ∀ (n : Nat) (row : Int) (f : Int → α),
    moveRowsLoop d (n + 1) row f = moveRow1 (moveRowsLoop d n row f) (row + n) d
  | 0, row, f => by simp [moveRowsLoop, hd]
  | n + 1, row, f => by
    have ih := loop_up_last d hd n (row + 1) (moveRow1 f row d)
    have e : moveRowsLoop d (n + 2) row f = moveRowsLoop d (n + 1) (row + 1) (moveRow1 f row d) := by
      simp [moveRowsLoop, hd]
    rw [e, ih]
    have e2 : moveRowsLoop d (n + 1) row f = moveRowsLoop d n (row + 1) (moveRow1 f row d) := by
      simp [moveRowsLoop, hd]
    rw [e2]
    have : row + 1 + (n : Nat) = row + ((n + 1 : Nat) : Int) := by omega
    rw [this]

/-- a block moved by `d` and then, from its new place, by `-d` is back where it was -/
theorem moveRowsLoop_inv {α : Type} (d : Int) (hd0 : d ≠ 0) : ∀ (n : Nat) (row : Int) (f : Int → α),
    moveRowsLoop (-d) n (row + d) (moveRowsLoop d n row f) = f
  | 0, _, _ => rfl
  | n + 1, row, f => by
    by_cases hd : 0 < d
    · -- forward: down (last move = first row); backward: up, first move = row + d
      have hneg : ¬ 0 < -d := by omega
      rw [loop_down_last d hd n row f]
      have e : moveRowsLoop (-d) (n + 1) (row + d) (moveRow1 (moveRowsLoop d n (row + 1) f) row d)
          = moveRowsLoop (-d) n (row + d + 1)
              (moveRow1 (moveRow1 (moveRowsLoop d n (row + 1) f) row d) (row + d) (-d)) := by
        rw [moveRowsLoop]; simp only [hneg, if_false]
      rw [e, moveRow1_inv]
      have : row + d + 1 = (row + 1) + d := by omega
      rw [this]
      exact moveRowsLoop_inv d hd0 n (row + 1) f
    · -- forward: up (last move = last row); backward: down, first move = row + d + n
      have hpos : 0 < -d := by omega
      rw [loop_up_last d hd n row f]
      have e : moveRowsLoop (-d) (n + 1) (row + d) (moveRow1 (moveRowsLoop d n row f) (row + n) d)
          = moveRowsLoop (-d) n (row + d)
              (moveRow1 (moveRow1 (moveRowsLoop d n row f) (row + n) d) (row + d + n) (-d)) := by
        rw [moveRowsLoop]; simp only [hpos, if_true]
      rw [e]
      have : row + d + (n : Int) = (row + n) + d := by omega
      rw [this, moveRow1_inv]
      exact moveRowsLoop_inv d hd0 n row f

theorem sheet_rows_roundtrip (s : Sheet) (g : Int → RowView) (k : Int → Int → Option String) :
    ({ ({ s with rowAt := g, cellAt := k } : Sheet) with rowAt := s.rowAt, cellAt := s.cellAt } : Sheet) = s := by
  cases s; rfl

/-- the recorded `MoveRows` diff links the states before and after the model-level move -/
theorem linked1_moveRows {b b' : Book} {sheet : Nat} {row count nd : Int}
    (h : mMoveRows b sheet row count nd = .ok b') :
    Linked1 env (.moveRows sheet row count nd) b b' := by
  refine ⟨?_, h⟩
  simp only [back1]
  unfold mMoveRows at h ⊢
  by_cases h0 : count ≤ 0 ∨ nd = 0
  · have h0' : count ≤ 0 ∨ -nd = 0 := by omega
    simp only [h0, if_true] at h
    injection h with h; subst h
    simp only [h0', if_true]
  · have h0' : ¬ (count ≤ 0 ∨ -nd = 0) := by omega
    simp only [h0, if_false] at h
    simp only [h0', if_false]
    by_cases h1 : (!validRow (row + nd) || !validRow (row + count - 1 + nd)) = true
    · simp [h1] at h
    · simp only [h1] at h
      by_cases h2 : (!validRow row || !validRow (row + count - 1)) = true
      · simp [h2] at h
      · simp only [h2] at h
        have e1 : row + nd + -nd = row := by omega
        have e2 : row + nd + count - 1 + -nd = row + count - 1 := by omega
        have e3 : row + nd + count - 1 = row + count - 1 + nd := by omega
        have e4 : row + count - 1 + nd + -nd = row + count - 1 := by omega
        simp only [e1, e2, e3, e4, h2, h1]
        cases hs : getSheet b sheet with
        | error e => simp [hs] at h
        | ok s =>
          simp only [hs, Bool.false_eq_true, if_false] at h
          injection h with h; subst h
          simp only [getSheet_setSheet hs, Bool.false_eq_true, if_false]
          have hnd : nd ≠ 0 := by omega
          rw [setSheet_setSheet]
          simp only [moveRowsLoop_inv nd hnd]
          rw [sheet_rows_roundtrip]
          exact congrArg _ (setSheet_same hs)


theorem sheet_cols_roundtrip (s : Sheet) (g : Int → ColView) (k : Int → Int → Option String) :
    ({ ({ s with colAt := g, cellAt := k } : Sheet) with colAt := s.colAt, cellAt := s.cellAt } : Sheet) = s := by
  cases s; rfl

/-- the recorded `MoveColumns` diff links the states before and after the model-level move -/
theorem linked1_moveColumns {b b' : Book} {sheet : Nat} {row count nd : Int}
    (h : mMoveColumns b sheet row count nd = .ok b') :
    Linked1 env (.moveColumns sheet row count nd) b b' := by
  refine ⟨?_, h⟩
  simp only [back1]
  unfold mMoveColumns at h ⊢
  by_cases h0 : count ≤ 0 ∨ nd = 0
  · have h0' : count ≤ 0 ∨ -nd = 0 := by omega
    simp only [h0, if_true] at h
    injection h with h; subst h
    simp only [h0', if_true]
  · have h0' : ¬ (count ≤ 0 ∨ -nd = 0) := by omega
    simp only [h0, if_false] at h
    simp only [h0', if_false]
    by_cases h1 : (!validCol (row + nd) || !validCol (row + count - 1 + nd)) = true
    · simp [h1] at h
    · simp only [h1] at h
      by_cases h2 : (!validCol row || !validCol (row + count - 1)) = true
      · simp [h2] at h
      · simp only [h2] at h
        have e1 : row + nd + -nd = row := by omega
        have e2 : row + nd + count - 1 + -nd = row + count - 1 := by omega
        have e3 : row + nd + count - 1 = row + count - 1 + nd := by omega
        have e4 : row + count - 1 + nd + -nd = row + count - 1 := by omega
        simp only [e1, e2, e3, e4, h2, h1]
        cases hs : getSheet b sheet with
        | error e => simp [hs] at h
        | ok s =>
          simp only [hs, Bool.false_eq_true, if_false] at h
          injection h with h; subst h
          simp only [getSheet_setSheet hs, Bool.false_eq_true, if_false]
          have hnd : nd ≠ 0 := by omega
          rw [setSheet_setSheet]
          simp only [moveRowsLoop_inv nd hnd]
          rw [sheet_cols_roundtrip]
          exact congrArg _ (setSheet_same hs)


/-! ### plain cells: typed input and range clear -/

theorem upd2_roundtrip (f : Int → Int → Option String) (r c : Int) (v : Option String) :
    upd2 (upd2 f r c v) r c (f r c) = f := by
  funext x y
  simp only [upd2]
  by_cases h : x = r ∧ y = c
  · rcases h with ⟨rfl, rfl⟩; simp
  · simp [h]

theorem sheet_cells_roundtrip (s : Sheet) (k : Int → Int → Option String) :
    ({ ({ s with cellAt := k } : Sheet) with cellAt := s.cellAt } : Sheet) = s := by cases s; rfl

theorem linked1_setCellValue {b : Book} {sheet : Nat} {s : Sheet} {r c : Int} {text : String}
    (hs : getSheet b sheet = .ok s) (hr : validRow r = true) (hc : validCol c = true) :
    Linked1 env (.setCellValue sheet r c (s.cellAt r c) text) b
      (setSheet b sheet { s with cellAt := upd2 s.cellAt r c (some text) }) := by
  constructor
  · simp only [back1, mSetCell, getSheet_setSheet hs, hr, hc, Bool.not_true, Bool.false_eq_true,
      if_false]
    rw [setSheet_setSheet, upd2_roundtrip, sheet_cells_roundtrip]
    exact congrArg _ (setSheet_same hs)
  · simp only [fwd1, mSetCell, hs, hr, hc, Bool.not_true, Bool.false_eq_true, if_false]

theorem restore_clear (f : Int → Int → Option String) (row column width height : Int) :
    (fun r c => if (inArea row column width height r c && (f r c).isSome) = true then f r c
      else (if inArea row column width height r c = true then none else f r c)) = f := by
  funext r c
  cases hA : inArea row column width height r c <;> cases hf : f r c <;> simp

theorem linked1_rangeClear {b : Book} {sheet : Nat} {s : Sheet} {row column width height : Int}
    (hs : getSheet b sheet = .ok s) :
    Linked1 env (.rangeClearContents sheet row column width height s.cellAt) b
      (setSheet b sheet
        { s with cellAt := fun r c => if inArea row column width height r c then none else s.cellAt r c }) := by
  constructor
  · simp only [back1, mRestoreArea, getSheet_setSheet hs]
    rw [setSheet_setSheet]
    simp only [restore_clear]
    rw [sheet_cells_roundtrip]
    exact congrArg _ (setSheet_same hs)
  · simp only [fwd1, mClearArea, hs]

/-! ### every operation of the domain records a chain from the state before to the state after -/

theorem dom_sheet {b : Book} {i : Nat} {s : Sheet} (hs : getSheet b i = .ok s) :
    b.sheets[i]? = some s := getSheet_ok hs

theorem op_chain (b : Book) (o : Op) (ds : List Diff) (hd : dom env b o = true)
    (herr : (doOp env b o).err = none) (hp : (doOp env b o).pushed = some ds) :
    Chain env b ds (doOp env b o).w := by
  cases o with
  | setName n =>
    simp only [doOp, setName] at herr hp ⊢
    by_cases hn : b.name = n
    · simp [hn] at hp
    · simp only [hn, if_false, done, Option.some.injEq] at hp ⊢
      subst hp
      exact Chain.single env ⟨by simp [back1, book_eta_name], rfl⟩
  | setTimezone tz =>
    simp only [doOp, setTimezone, mSetTimezone] at herr hp ⊢
    simp only [dom] at hd
    by_cases hv : env.validTz tz = true
    · simp only [hv, if_true, done, Option.some.injEq] at hp ⊢
      subst hp
      exact Chain.single env ⟨by simp [back1, mSetTimezone, hd, book_eta_tz],
        by simp [fwd1, mSetTimezone, hv]⟩
    · simp [hv, fail] at herr
  | setLocale l =>
    simp only [doOp, setLocale, mSetLocale] at herr hp ⊢
    simp only [dom] at hd
    by_cases hv : env.validLocale l = true
    · simp only [hv, if_true, done, Option.some.injEq] at hp ⊢
      subst hp
      exact Chain.single env ⟨by simp [back1, mSetLocale, hd, book_eta_locale],
        by simp [fwd1, mSetLocale, hv]⟩
    · simp [hv, fail] at herr
  | setFrozenRows s n =>
    simp only [doOp, setFrozenRows] at herr hp ⊢
    cases hs : getSheet b s with
    | error e => simp [hs, fail] at herr
    | ok sh =>
      simp only [dom, dom_sheet hs, Bool.and_eq_true, decide_eq_true_eq] at hd
      simp only [hs, mSetFrozenRows] at herr hp ⊢
      by_cases hn0 : n < 0
      · simp [hn0, fail] at herr
      · by_cases hn1 : n ≥ LAST_ROW
        · simp [hn0, hn1, fail] at herr
        · simp only [hn0, hn1, if_false, done, Option.some.injEq] at hp ⊢
          subst hp
          exact Chain.single env (linked1_setFrozenRows env hs hd.1 hd.2 hn0 hn1)
  | setFrozenCols s n =>
    simp only [doOp, setFrozenCols] at herr hp ⊢
    cases hs : getSheet b s with
    | error e => simp [hs, fail] at herr
    | ok sh =>
      simp only [dom, dom_sheet hs, Bool.and_eq_true, decide_eq_true_eq] at hd
      simp only [hs, mSetFrozenCols] at herr hp ⊢
      by_cases hn0 : n < 0
      · simp [hn0, fail] at herr
      · by_cases hn1 : n ≥ LAST_COLUMN
        · simp [hn0, hn1, fail] at herr
        · simp only [hn0, hn1, if_false, done, Option.some.injEq] at hp ⊢
          subst hp
          exact Chain.single env (linked1_setFrozenCols env hs hd.1 hd.2 hn0 hn1)
  | setShowGridLines s v =>
    simp only [doOp, setShowGridLines] at herr hp ⊢
    cases hs : getSheet b s with
    | error e => simp [hs, fail] at herr
    | ok sh =>
      simp only [hs, mSetShowGridLines, done, Option.some.injEq] at hp ⊢
      subst hp
      exact Chain.single env (linked1_setShowGridLines env hs)
  | setSheetColor s c =>
    simp only [doOp, setSheetColor] at herr hp ⊢
    cases hs : getSheet b s with
    | error e => simp [hs, fail] at herr
    | ok sh =>
      simp only [hs, mSetSheetColor, done, Option.some.injEq] at hp ⊢
      subst hp
      exact Chain.single env (linked1_setSheetColor env hs)
  | hideSheet s =>
    simp only [doOp, hideSheet] at herr hp ⊢
    cases hs : getSheet b s with
    | error e => simp [hs, fail] at herr
    | ok sh =>
      simp only [hs, mSetSheetState, done, Option.some.injEq] at hp ⊢
      subst hp
      exact Chain.single env (linked1_setSheetState env hs)
  | unhideSheet s =>
    simp only [doOp, unhideSheet] at herr hp ⊢
    cases hs : getSheet b s with
    | error e => simp [hs, fail] at herr
    | ok sh =>
      simp only [hs, mSetSheetState, done, Option.some.injEq] at hp ⊢
      subst hp
      exact Chain.single env (linked1_setSheetState env hs)
  | renameSheet i n =>
    simp only [doOp, renameSheet] at herr hp ⊢
    cases hs : getSheet b i with
    | error e => simp [hs, fail] at herr
    | ok sh =>
      have hsome := getSheet_ok hs
      simp only [hs] at herr hp ⊢
      by_cases hsame : sh.name = n
      · simp [hsame] at hp
      · simp only [hsame, if_false] at herr hp ⊢
        cases hr : mRenameSheet env b i n with
        | error e => simp [hr, fail] at herr
        | ok b' =>
          simp only [dom, hsome, hr, Bool.and_eq_true] at hd
          obtain ⟨hvalid, hdup⟩ := hd
          simp only [hr, done, Option.some.injEq] at hp ⊢
          subst hp
          -- the successful rename wrote `{ sh with name := n }` at index `i`
          have hb' : b' = setSheet b i { sh with name := n } := by
            unfold mRenameSheet at hr
            split at hr
            · cases hr
            · split at hr
              · split at hr
                · cases hr
                · simp only [hs] at hr; injection hr with hr; exact hr.symm
              · simp only [hs] at hr; injection hr with hr; exact hr.symm
          refine Chain.single env ⟨?_, by simp only [fwd1, hr]⟩
          have hget : getSheet b' i = .ok { sh with name := n } := by
            rw [hb']; exact getSheet_setSheet hs
          have hfin : setSheet b' i { ({ sh with name := n } : Sheet) with name := sh.name } = b := by
            rw [hb', setSheet_setSheet]
            have : ({ ({ sh with name := n } : Sheet) with name := sh.name } : Sheet) = sh := by
              cases sh; rfl
            rw [this]; exact setSheet_same hs
          simp only [back1, mRenameSheet, hvalid, Bool.not_true, Bool.false_eq_true, if_false]
          cases hj : sheetIndexByName env b' sh.name with
          | none => simp only [hget]; exact congrArg _ hfin
          | some j =>
            rw [hj] at hdup
            simp only [decide_eq_true_eq] at hdup
            simp only [hdup, ne_eq, not_true_eq_false, if_false, hget]
            exact congrArg _ hfin
  | newSheet =>
    simp only [dom, Bool.and_eq_true, Bool.not_eq_true'] at hd
    obtain ⟨⟨⟨hne, hvalid⟩, hfree⟩, hnoloc⟩ := hd
    have hnames : namesNotOf b.names (some (newSheetId b)) = b.names := by
      unfold namesNotOf
      apply List.filter_eq_self.mpr
      intro d hd
      cases hq : d.sheetId == some (newSheetId b) with
      | false => simp [bne, hq]
      | true =>
        have : (b.names.any fun d => d.sheetId == some (newSheetId b)) = true :=
          List.any_eq_true.mpr ⟨d, hd, hq⟩
        rw [this] at hnoloc; cases hnoloc
    simp only [doOp, newSheet, done, Option.some.injEq] at hp ⊢
    subst hp
    refine Chain.single env ⟨?_, ?_⟩
    · have hlen : b.sheets.length ≠ 0 := by
        intro h0; cases hb : b.sheets <;> simp_all
      simp only [back1, mDeleteSheet, mNewSheet, List.length_append, List.length_cons,
        List.length_nil]
      have h1 : ¬ (b.sheets.length + (0 + 1) = 1) := by omega
      have h2 : ¬ (b.sheets.length ≥ b.sheets.length + (0 + 1)) := by omega
      have hget : ∀ (x : Sheet), (b.sheets ++ [x])[b.sheets.length]? = some x := by intro x; simp
      simp only [h1, h2, if_false, eraseIdx_snoc, hget, Option.map_some, emptySheet, hnames]
    · simp only [fwd1, mInsertSheet, mNewSheet] at hvalid hfree ⊢
      simp only [hvalid, hfree, Bool.not_true, Bool.false_eq_true, if_false,
        Nat.lt_irrefl, gt_iff_lt, insertIdx_length']
  | deleteSheet i =>
    simp only [doOp, deleteSheet] at herr hp ⊢
    cases hs : getSheet b i with
    | error e => simp [hs, fail] at herr
    | ok sh =>
      have hsome := getSheet_ok hs
      have hi : i < b.sheets.length := (List.getElem?_eq_some_iff.mp hsome).1
      simp only [dom, hsome, Bool.and_eq_true, Bool.not_eq_true'] at hd
      obtain ⟨⟨hvalid, hfree⟩, hnoloc⟩ := hd
      have hno : ∀ d ∈ b.names, (d.sheetId == some sh.id) = false := by
        intro d hd
        cases hq : d.sheetId == some sh.id with
        | false => rfl
        | true =>
          have : (b.names.any fun d => d.sheetId == some sh.id) = true :=
            List.any_eq_true.mpr ⟨d, hd, hq⟩
          rw [this] at hnoloc; cases hnoloc
      have hdiffs : localNameDiffs b i sh.id = [] := by
        unfold localNameDiffs
        have : (b.names.filter fun d => d.sheetId == some sh.id) = [] := by
          rw [List.filter_eq_nil_iff]; intro d hd; simp [hno d hd]
        rw [this]; rfl
      have hnames : namesNotOf b.names ((b.sheets[i]?).map (·.id)) = b.names := by
        unfold namesNotOf
        rw [hsome]
        apply List.filter_eq_self.mpr
        intro d hd
        have := hno d hd
        simp only [Option.map_some, bne, this, Bool.not_false]
      simp only [hs, mDeleteSheet, hdiffs, hnames, List.nil_append] at herr hp ⊢
      by_cases h1 : b.sheets.length = 1
      · simp [h1, fail] at herr
      · have h2 : ¬ i ≥ b.sheets.length := by omega
        simp only [h1, h2, if_false, done, Option.some.injEq] at hp ⊢
        subst hp
        refine Chain.single env ⟨?_, ?_⟩
        · have hlen := length_eraseIdx' b.sheets i hi
          have hle : ¬ i > (b.sheets.eraseIdx i).length := by omega
          have hle' : i ≤ (b.sheets.eraseIdx i).length := by omega
          simp only [back1, mInsertSheet, hvalid, hfree, Bool.not_true, Bool.false_eq_true,
            if_false, hle]
          simp only [getSheet, getElem?_insertIdx_self' _ _ _ hle', setSheet,
            set_insertIdx _ _ _ _ hle']
          have hsh : ({ emptySheet sh.name sh.id with
              rowAt := sh.rowAt, colAt := sh.colAt, grid := sh.grid, frozenCols := sh.frozenCols,
              frozenRows := sh.frozenRows, state := sh.state, color := sh.color,
              links := sh.links, cellAt := sh.cellAt } : Sheet) = sh := by
            cases sh; rfl
          rw [hsh, insertIdx_eraseIdx _ _ _ hsome]
        · simp only [fwd1, mDeleteSheet, h1, h2, if_false, hnames]
  | setColumnsWidth s c1 c2 w =>
    simp only [doOp, setColumnsWidth] at herr hp ⊢
    cases hc : checkColsRange b s c1 c2 with
    | some e' => simp [hc, fail] at herr
    | none =>
      simp only [hc] at herr hp ⊢
      by_cases hw : w < 0
      · simp [hw, fail] at herr
      · simp only [hw, if_false] at herr hp ⊢
        obtain ⟨⟨sh, hsh⟩, hb⟩ := checkCols_bounds hc
        simp only [dom, dom_sheet hsh] at hd
        have hch : Chain env b (colsWidthLoop s w (rangeCount c1 c2) c1 b []).ds
            (colsWidthLoop s w (rangeCount c1 c2) c1 b []).b := by
          rcases hb with h0 | ⟨h1, h2⟩
          · rw [h0]; exact Chain.nil b
          · exact colsWidthLoop_chain env s w hw b _ _ _ _ sh hsh h1 h2 hd (Chain.nil b)
        simp only [ofLoop] at herr hp ⊢
        split at hp
        · simp at hp
        · simp only [Option.some.injEq] at hp; subst hp; exact hch
  | setRowsHeight s r1 r2 w =>
    simp only [doOp, setRowsHeight] at herr hp ⊢
    cases hc : checkRowsRange b s r1 r2 with
    | some e' => simp [hc, fail] at herr
    | none =>
      simp only [hc] at herr hp ⊢
      by_cases hw : w < 0
      · simp [hw, fail] at herr
      · simp only [hw, if_false] at herr hp ⊢
        obtain ⟨⟨sh, hsh⟩, hb⟩ := checkRows_bounds hc
        simp only [dom, dom_sheet hsh] at hd
        have hch : Chain env b (rowsHeightLoop s w (rangeCount r1 r2) r1 b []).ds
            (rowsHeightLoop s w (rangeCount r1 r2) r1 b []).b := by
          rcases hb with h0 | ⟨h1, h2⟩
          · rw [h0]; exact Chain.nil b
          · exact rowsHeightLoop_chain env s w hw b _ _ _ _ sh hsh h1 h2 hd (Chain.nil b)
        simp only [ofLoop] at herr hp ⊢
        split at hp
        · simp at hp
        · simp only [Option.some.injEq] at hp; subst hp; exact hch
  | setColumnsHidden s c1 c2 h =>
    simp only [doOp, setColumnsHidden] at herr hp ⊢
    cases hc : checkColsRange b s c1 c2 with
    | some e' => simp [hc, fail] at herr
    | none =>
      simp only [hc] at herr hp ⊢
      obtain ⟨⟨sh, hsh⟩, hb⟩ := checkCols_bounds hc
      have hch : Chain env b (colsHiddenLoop s h (rangeCount c1 c2) c1 b []).ds
          (colsHiddenLoop s h (rangeCount c1 c2) c1 b []).b := by
        rcases hb with h0 | ⟨h1, h2⟩
        · rw [h0]; exact Chain.nil b
        · exact colsHiddenLoop_chain env s h b _ _ _ _ sh hsh h1 h2 (Chain.nil b)
      simp only [ofLoop] at herr hp ⊢
      split at hp
      · simp at hp
      · simp only [Option.some.injEq] at hp; subst hp; exact hch
  | setRowsHidden s r1 r2 h =>
    simp only [doOp, setRowsHidden] at herr hp ⊢
    cases hc : checkRowsRange b s r1 r2 with
    | some e' => simp [hc, fail] at herr
    | none =>
      simp only [hc] at herr hp ⊢
      obtain ⟨⟨sh, hsh⟩, hb⟩ := checkRows_bounds hc
      have hch : Chain env b (rowsHiddenLoop s h (rangeCount r1 r2) r1 b []).ds
          (rowsHiddenLoop s h (rangeCount r1 r2) r1 b []).b := by
        rcases hb with h0 | ⟨h1, h2⟩
        · rw [h0]; exact Chain.nil b
        · exact rowsHiddenLoop_chain env s h b _ _ _ _ sh hsh h1 h2 (Chain.nil b)
      simp only [ofLoop] at herr hp ⊢
      split at hp
      · simp at hp
      · simp only [Option.some.injEq] at hp; subst hp; exact hch
  | moveRows s r n d =>
    simp only [doOp] at herr hp ⊢
    rcases moveRows_cases b s r n d with h1 | ⟨e', h1⟩ | ⟨b', nd, hm, h1⟩
    · rw [h1] at hp; simp at hp
    · rw [h1] at herr; simp [fail] at herr
    · rw [h1] at hp ⊢
      simp only [done, Option.some.injEq] at hp ⊢
      subst hp
      exact Chain.single env (linked1_moveRows env hm)

  | moveColumns s r n d =>
    simp only [doOp] at herr hp ⊢
    rcases moveColumns_cases b s r n d with h1 | ⟨e', h1⟩ | ⟨b', nd, hm, h1⟩
    · rw [h1] at hp; simp at hp
    · rw [h1] at herr; simp [fail] at herr
    · rw [h1] at hp ⊢
      simp only [done, Option.some.injEq] at hp ⊢
      subst hp
      exact Chain.single env (linked1_moveColumns env hm)
  | setPlainInput s r c t =>
    simp only [doOp] at herr hp ⊢
    rcases setPlainInput_cases b s r c t with ⟨e', h1⟩ | ⟨sh, hsh, hr, hc, ⟨_, h1⟩ | ⟨hlt, h1⟩⟩
    · rw [h1] at herr; simp [fail] at herr
    · rw [h1] at hp ⊢
      simp only [done, Option.some.injEq] at hp ⊢
      subst hp
      exact Chain.single env (linked1_setCellValue env hsh hr hc)
    · rw [h1] at hp ⊢
      simp only [done, Option.some.injEq] at hp ⊢
      subst hp
      simp only [dom, dom_sheet hsh, decide_eq_true_eq] at hd
      have h20 : ¬ ONE_LINE_HEIGHT < 0 := by decide
      have hs1 := getSheet_setSheet (t := ({ sh with cellAt := upd2 sh.cellAt r c (some t) } : Sheet)) hsh
      exact Chain.snoc (Chain.single env (linked1_setCellValue env hsh hr hc))
        (linked1_setRowHeight env hs1 hr h20 (by show ¬ (sh.rowAt r).height < 0; omega))
  | rangeClearContents s r c w ht =>
    simp only [doOp] at herr hp ⊢
    rcases rangeClear_cases b s r c w ht with ⟨e', h1⟩ | ⟨sh, hsh, h1⟩
    · rw [h1] at herr; simp [fail] at herr
    · rw [h1] at hp ⊢
      simp only [done, Option.some.injEq] at hp ⊢
      subst hp
      exact Chain.single env (linked1_rangeClear env hsh)

/-- the concrete model satisfies the laws of the generic machine on `dom` (`obs` = identity) -/
theorem laws : Laws (sys env) (fun w => w) (fun b o => dom env b o = true) where
  inv := by
    intro w o ds hd herr hp v hv
    have hv' : v = ((sys env).doOp w o).w := hv
    have := chain_back env (op_chain env w o ds hd herr hp)
    rw [hv']
    show (applyBack env (doOp env w o).w ds).ok = true ∧ (applyBack env (doOp env w o).w ds).w = w
    rw [this]; exact ⟨rfl, rfl⟩
  fwd := by
    intro w o ds hd herr hp v hv
    have hv' : v = w := hv
    have := chain_fwd env (op_chain env w o ds hd herr hp)
    rw [hv']
    show (applyFwd env w ds).ok = true ∧ (applyFwd env w ds).w = (doOp env w o).w
    rw [this]; exact ⟨rfl, rfl⟩
  quiet := by
    intro w o _ herr hp
    exact doOp_quiet env w o herr hp
  atomic := by
    intro w o e _ herr
    exact doOp_atomic env w o e herr


/-- executable form of `AllDom` for the concrete model (used by the driver and the examples) -/
def allDomB : St Book Diff → List (Cmd Op) → Bool
  | _, [] => true
  | s, cmd :: cs =>
    (match cmd with
      | .op o => dom env s.w o
      | _ => true) && allDomB (step (sys env) s cmd).1 cs

theorem allDomB_spec : ∀ (cs : List (Cmd Op)) (s : St Book Diff), allDomB env s cs = true →
    AllDom (sys env) (fun b o => dom env b o = true) s cs
  | [], _, _ => trivial
  | cmd :: cs, s, h => by
    simp only [allDomB, Bool.and_eq_true] at h
    refine ⟨?_, allDomB_spec cs _ h.2⟩
    cases cmd <;> simp_all [CmdDom]

end IronCalc.User
