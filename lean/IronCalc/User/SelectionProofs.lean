import IronCalc.User.Selection
/-
  C28 — helper lemmas for `Props/C28.lean`.
-/
namespace IronCalc.Selection

/-! ### list surgery -/

theorem length_removeAt (l : List Sheet) (i : Nat) (h : i < l.length) :
    (removeAt l i).length = l.length - 1 := by
  unfold removeAt
  simp only [List.length_append, List.length_take, List.length_drop]
  omega

theorem length_insertAt (l : List Sheet) (i : Nat) (s : Sheet) :
    (insertAt l i s).length = l.length + 1 := by
  unfold insertAt
  simp only [List.length_append, List.length_take, List.length_cons, List.length_drop]
  omega

theorem length_modifyAt (l : List Sheet) (i : Nat) (f : Sheet → Sheet) :
    (modifyAt l i f).length = l.length := by
  induction l generalizing i with
  | nil => rfl
  | cons a as ih =>
    cases i with
    | zero => rfl
    | succ j => simp [modifyAt, ih]

theorem length_moveList (l : List Sheet) (frm to : Nat) (hf : frm < l.length) :
    (moveList l frm to).length = l.length := by
  unfold moveList
  rw [List.getElem?_eq_getElem hf]
  simp only
  rw [length_insertAt, length_removeAt l frm hf]
  omega

theorem mem_removeAt {l : List Sheet} {i : Nat} {x : Sheet} (h : x ∈ removeAt l i) : x ∈ l := by
  unfold removeAt at h
  rcases List.mem_append.mp h with h | h
  · exact List.mem_of_mem_take h
  · exact List.mem_of_mem_drop h

theorem mem_insertAt {l : List Sheet} {i : Nat} {s x : Sheet} (h : x ∈ insertAt l i s) :
    x = s ∨ x ∈ l := by
  unfold insertAt at h
  rcases List.mem_append.mp h with h | h
  · right; exact List.mem_of_mem_take h
  · rcases List.mem_cons.mp h with h | h
    · left; exact h
    · right; exact List.mem_of_mem_drop h

theorem mem_modifyAt {l : List Sheet} {i : Nat} {f : Sheet → Sheet} {x : Sheet}
    (h : x ∈ modifyAt l i f) : x ∈ l ∨ ∃ y ∈ l, x = f y := by
  induction l generalizing i with
  | nil => simp [modifyAt] at h
  | cons a as ih =>
    cases i with
    | zero =>
      simp only [modifyAt, List.mem_cons] at h
      rcases h with h | h
      · right; exact ⟨a, List.mem_cons_self .., h⟩
      · left; exact List.mem_cons_of_mem _ h
    | succ j =>
      simp only [modifyAt, List.mem_cons] at h
      rcases h with h | h
      · left; rw [h]; exact List.mem_cons_self ..
      · rcases ih h with h' | ⟨y, hy, e⟩
        · left; exact List.mem_cons_of_mem _ h'
        · right; exact ⟨y, List.mem_cons_of_mem _ hy, e⟩

theorem mem_moveList {l : List Sheet} {frm to : Nat} {x : Sheet} (h : x ∈ moveList l frm to) :
    x ∈ l := by
  unfold moveList at h
  split at h
  · rename_i sh hsh
    rcases mem_insertAt h with h | h
    · rw [h]; exact List.mem_of_getElem? hsh
    · exact mem_removeAt h
  · exact h

/-! ### index arithmetic -/

theorem afterMove_lt {sel frm to n : Nat} (hs : sel < n) (hf : frm < n) (ht : to < n) :
    afterMove sel frm to < n := by
  unfold afterMove
  split
  · exact ht
  · simp only
    split <;> split <;> omega

theorem afterDelete_lt {sel del n : Nat} (hs : sel < n) (hd : del < n) (hn : 1 < n) :
    afterDelete sel del n < n - 1 := by
  unfold afterDelete
  split
  · rename_i h; omega
  · rename_i h; omega

/-- the pinned `delete_sheet` leaves a dangling selection (F28a): 3 sheets, sheet 2 selected,
    sheet 0 deleted -/
theorem afterDeletePinned_dangles : ¬ (afterDeletePinned 2 0 3 < 3 - 1) := by decide

/-! ### getElem? through the surgery (identity is followed) -/

theorem getElem?_removeAt (l : List Sheet) (i k : Nat) :
    (removeAt l i)[k]? = if k < i then l[k]? else l[k + 1]? := by
  unfold removeAt
  by_cases hk : k < i
  · rw [if_pos hk]
    by_cases hkl : k < l.length
    · rw [List.getElem?_append_left (by simp [List.length_take]; omega), List.getElem?_take_of_lt hk]
    · have : l[k]? = none := List.getElem?_eq_none (by omega)
      rw [this]
      apply List.getElem?_eq_none
      simp [List.length_take, List.length_drop]; omega
  · rw [if_neg hk]
    by_cases hil : i ≤ l.length
    · rw [List.getElem?_append_right (by simp [List.length_take]; omega)]
      simp only [List.length_take, List.getElem?_drop]
      congr 1; omega
    · have h1 : l[k + 1]? = none := List.getElem?_eq_none (by omega)
      rw [h1]
      apply List.getElem?_eq_none
      simp [List.length_take, List.length_drop]; omega

theorem getElem?_insertAt (l : List Sheet) (i k : Nat) (s : Sheet) (hi : i ≤ l.length) :
    (insertAt l i s)[k]? = if k < i then l[k]? else if k = i then some s else l[k - 1]? := by
  unfold insertAt
  by_cases hk : k < i
  · rw [if_pos hk, List.getElem?_append_left (by simp [List.length_take]; omega),
      List.getElem?_take_of_lt hk]
  · rw [if_neg hk, List.getElem?_append_right (by simp [List.length_take]; omega)]
    simp only [List.length_take]
    have hmin : min i l.length = i := by omega
    rw [hmin]
    by_cases hki : k = i
    · rw [if_pos hki, hki]; simp
    · rw [if_neg hki]
      have : k - i = (k - i - 1) + 1 := by omega
      rw [this, List.getElem?_cons_succ, List.getElem?_drop]
      congr 1; omega

/-! ### the validated setter -/

theorem selSheet_sheets (s : State) (i : Nat) : (selSheet s i).sheets = s.sheets := by
  unfold selSheet; split <;> rfl
theorem selSheet_undo (s : State) (i : Nat) : (selSheet s i).undo = s.undo := by
  unfold selSheet; split <;> rfl
theorem selSheet_redo (s : State) (i : Nat) : (selSheet s i).redo = s.redo := by
  unfold selSheet; split <;> rfl
theorem selSheet_lt (s : State) (i : Nat) (h : s.selected < s.sheets.length) :
    (selSheet s i).selected < s.sheets.length := by
  unfold selSheet; split
  · assumption
  · exact h
theorem selSheet_eq (s : State) (i : Nat) (h : i < s.sheets.length) : (selSheet s i).selected = i := by
  unfold selSheet; rw [if_pos h]

theorem setView_sheets_length (s : State) (v : View) : (setView s v).sheets.length = s.sheets.length := by
  unfold setView; exact length_modifyAt _ _ _

end IronCalc.Selection
