import IronCalc.User.WF
import IronCalc.User.DiffsProofs
/-
  Helper lemmas for C27 on the attribute model: operations that rewrite one sheet without touching
  its name and id preserve `WFBook`.
-/
namespace IronCalc.User

theorem WFBook_congr (env : Env) {b b' : Book} (hk : sheetKeys b' = sheetKeys b)
    (hn : b'.names = b.names) : WFBook env b' = WFBook env b := by
  have hlen : b'.sheets.isEmpty = b.sheets.isEmpty := by
    have := congrArg List.length hk
    simp only [sheetKeys, List.length_map] at this
    cases h1 : b'.sheets <;> cases h2 : b.sheets <;> simp_all
  have hnames : b'.sheets.map (fun s => s.name) = b.sheets.map (fun s => s.name) := by
    have := congrArg (List.map Prod.fst) hk
    simpa [sheetKeys, List.map_map, Function.comp_def] using this
  have hids : b'.sheets.map (fun s => s.id) = b.sheets.map (fun s => s.id) := by
    have := congrArg (List.map Prod.snd) hk
    simpa [sheetKeys, List.map_map, Function.comp_def] using this
  have h1 : namesValid b' = namesValid b := by
    have := congrArg (fun l => l.all isValidSheetName) hnames
    simpa [namesValid, List.all_map, Function.comp_def] using this
  have h2 : namesUnique env b' = namesUnique env b := by
    have := congrArg (fun l => distinct (l.map env.upper)) hnames
    simpa [namesUnique, List.map_map, Function.comp_def] using this
  have h3 : idsUnique b' = idsUnique b := by simp [idsUnique, hids]
  have h4 : namesScoped b' = namesScoped b := by simp [namesScoped, hids, hn]
  simp [WFBook, hlen, h1, h2, h3, h4]

theorem keys_setSheet {b : Book} {i : Nat} {s s' : Sheet} (hs : getSheet b i = .ok s)
    (hname : s'.name = s.name) (hid : s'.id = s.id) :
    sheetKeys (setSheet b i s') = sheetKeys b ∧ (setSheet b i s').names = b.names := by
  refine ⟨?_, rfl⟩
  have h := getSheet_ok hs
  simp only [sheetKeys, setSheet, List.map_set, hname, hid]
  apply set_self
  simp [h]

/-- the operations that do not touch the list of sheets -/
def keepsSheets : Op → Bool
  | .renameSheet _ _ => false
  | .newSheet => false
  | .deleteSheet _ => false
  | _ => true


/-- `b'` has the same sheet names/ids and defined names as `b` -/
def KS (b b' : Book) : Prop := sheetKeys b' = sheetKeys b ∧ b'.names = b.names

theorem KS.refl (b : Book) : KS b b := ⟨rfl, rfl⟩
theorem KS.trans {a b c : Book} (h1 : KS a b) (h2 : KS b c) : KS a c :=
  ⟨h2.1.trans h1.1, h2.2.trans h1.2⟩

theorem ks_setSheet {b : Book} {i : Nat} {s s' : Sheet} (hs : getSheet b i = .ok s)
    (hname : s'.name = s.name) (hid : s'.id = s.id) : KS b (setSheet b i s') :=
  keys_setSheet hs hname hid

set_option hygiene false in
local macro "prim_ks" f:ident : tactic =>
  `(tactic| (
    unfold $f at h
    cases hs : getSheet b sheet with
    | error e => simp [hs] at h
    | ok s =>
      simp only [hs] at h
      repeat' split at h
      all_goals first
        | (cases h; done)
        | (injection h with h; subst h; exact ks_setSheet hs rfl rfl)))

theorem ks_mSetFrozenRows {b b' : Book} {sheet : Nat} {n : Int}
    (h : mSetFrozenRows b sheet n = .ok b') : KS b b' := by prim_ks mSetFrozenRows
theorem ks_mSetFrozenCols {b b' : Book} {sheet : Nat} {n : Int}
    (h : mSetFrozenCols b sheet n = .ok b') : KS b b' := by prim_ks mSetFrozenCols
theorem ks_mSetShowGridLines {b b' : Book} {sheet : Nat} {v : Bool}
    (h : mSetShowGridLines b sheet v = .ok b') : KS b b' := by prim_ks mSetShowGridLines
theorem ks_mSetSheetColor {b b' : Book} {sheet : Nat} {v : String}
    (h : mSetSheetColor b sheet v = .ok b') : KS b b' := by prim_ks mSetSheetColor
theorem ks_mSetSheetState {b b' : Book} {sheet : Nat} {v : SheetState}
    (h : mSetSheetState b sheet v = .ok b') : KS b b' := by prim_ks mSetSheetState
theorem ks_mSetColumnWidth {b b' : Book} {sheet : Nat} {c w : Int}
    (h : mSetColumnWidth b sheet c w = .ok b') : KS b b' := by prim_ks mSetColumnWidth
theorem ks_mSetRowHeight {b b' : Book} {sheet : Nat} {c w : Int}
    (h : mSetRowHeight b sheet c w = .ok b') : KS b b' := by prim_ks mSetRowHeight
theorem ks_mSetColumnHidden {b b' : Book} {sheet : Nat} {c : Int} {v : Bool}
    (h : mSetColumnHidden b sheet c v = .ok b') : KS b b' := by prim_ks mSetColumnHidden
theorem ks_mSetRowHidden {b b' : Book} {sheet : Nat} {c : Int} {v : Bool}
    (h : mSetRowHidden b sheet c v = .ok b') : KS b b' := by prim_ks mSetRowHidden

theorem ks_colsWidthLoop (sheet : Nat) (w : Int) : ∀ (n : Nat) (c : Int) (b : Book)
    (acc : List Diff), KS b (colsWidthLoop sheet w n c b acc).b
  | 0, _, b, _ => KS.refl b
  | n + 1, c, b, acc => by
    simp only [colsWidthLoop]
    split
    · exact KS.refl b
    · split
      · exact KS.refl b
      · next b' hb => exact (ks_mSetColumnWidth hb).trans (ks_colsWidthLoop sheet w n _ _ _)

theorem ks_rowsHeightLoop (sheet : Nat) (w : Int) : ∀ (n : Nat) (c : Int) (b : Book)
    (acc : List Diff), KS b (rowsHeightLoop sheet w n c b acc).b
  | 0, _, b, _ => KS.refl b
  | n + 1, c, b, acc => by
    simp only [rowsHeightLoop]
    split
    · exact KS.refl b
    · split
      · exact KS.refl b
      · next b' hb => exact (ks_mSetRowHeight hb).trans (ks_rowsHeightLoop sheet w n _ _ _)

theorem ks_colsHiddenLoop (sheet : Nat) (w : Bool) : ∀ (n : Nat) (c : Int) (b : Book)
    (acc : List Diff), KS b (colsHiddenLoop sheet w n c b acc).b
  | 0, _, b, _ => KS.refl b
  | n + 1, c, b, acc => by
    simp only [colsHiddenLoop]
    split
    · exact KS.refl b
    · split
      · exact KS.refl b
      · next b' hb => exact (ks_mSetColumnHidden hb).trans (ks_colsHiddenLoop sheet w n _ _ _)

theorem ks_rowsHiddenLoop (sheet : Nat) (w : Bool) : ∀ (n : Nat) (c : Int) (b : Book)
    (acc : List Diff), KS b (rowsHiddenLoop sheet w n c b acc).b
  | 0, _, b, _ => KS.refl b
  | n + 1, c, b, acc => by
    simp only [rowsHiddenLoop]
    split
    · exact KS.refl b
    · split
      · exact KS.refl b
      · next b' hb => exact (ks_mSetRowHidden hb).trans (ks_rowsHiddenLoop sheet w n _ _ _)

theorem ks_mMoveRows {b b' : Book} {sheet : Nat} {row count delta : Int}
    (h : mMoveRows b sheet row count delta = .ok b') : KS b b' := by
  unfold mMoveRows at h
  repeat' split at h
  all_goals first
    | (cases h; done)
    | (injection h with h; subst h; exact KS.refl _)
    | (injection h with h; subst h; rename_i hs; exact ks_setSheet hs rfl rfl)

theorem ks_mMoveColumns {b b' : Book} {sheet : Nat} {row count delta : Int}
    (h : mMoveColumns b sheet row count delta = .ok b') : KS b b' := by
  unfold mMoveColumns at h
  repeat' split at h
  all_goals first
    | (cases h; done)
    | (injection h with h; subst h; exact KS.refl _)
    | (injection h with h; subst h; rename_i hs; exact ks_setSheet hs rfl rfl)

theorem ks_ofLoop {b : Book} {l : LoopOut} (h : KS b l.b) : KS b (ofLoop l).w := by
  unfold ofLoop; split <;> exact h

/-- every operation that does not touch the sheet list keeps names, ids and defined names —
    whether it succeeds or fails -/
theorem ks_doOp (env : Env) (b : Book) (o : Op) (hk : keepsSheets o = true) :
    KS b (doOp env b o).w := by
  cases o with
  | setName n => simp only [doOp, setName]; split <;> exact ⟨rfl, rfl⟩
  | setTimezone tz =>
    simp only [doOp, setTimezone, mSetTimezone]
    by_cases hv : env.validTz tz = true <;> simp [hv, fail, done] <;> exact ⟨rfl, rfl⟩
  | setLocale l =>
    simp only [doOp, setLocale, mSetLocale]
    by_cases hv : env.validLocale l = true <;> simp [hv, fail, done] <;> exact ⟨rfl, rfl⟩
  | setFrozenRows s n =>
    simp only [doOp, setFrozenRows]
    split
    · exact KS.refl b
    · split
      · exact KS.refl b
      · next b' hb => exact ks_mSetFrozenRows hb
  | setFrozenCols s n =>
    simp only [doOp, setFrozenCols]
    split
    · exact KS.refl b
    · split
      · exact KS.refl b
      · next b' hb => exact ks_mSetFrozenCols hb
  | setShowGridLines s v =>
    simp only [doOp, setShowGridLines]
    split
    · exact KS.refl b
    · split
      · exact KS.refl b
      · next b' hb => exact ks_mSetShowGridLines hb
  | setSheetColor s v =>
    simp only [doOp, setSheetColor]
    split
    · exact KS.refl b
    · split
      · exact KS.refl b
      · next b' hb => exact ks_mSetSheetColor hb
  | hideSheet s =>
    simp only [doOp, hideSheet]
    split
    · exact KS.refl b
    · split
      · exact KS.refl b
      · next b' hb => exact ks_mSetSheetState hb
  | unhideSheet s =>
    simp only [doOp, unhideSheet]
    split
    · exact KS.refl b
    · split
      · exact KS.refl b
      · next b' hb => exact ks_mSetSheetState hb
  | renameSheet s n => simp [keepsSheets] at hk
  | newSheet => simp [keepsSheets] at hk
  | deleteSheet s => simp [keepsSheets] at hk
  | setColumnsWidth s c1 c2 w =>
    simp only [doOp, setColumnsWidth]
    split
    · exact KS.refl b
    · split
      · exact KS.refl b
      · exact ks_ofLoop (ks_colsWidthLoop s w _ _ _ _)
  | setRowsHeight s c1 c2 w =>
    simp only [doOp, setRowsHeight]
    split
    · exact KS.refl b
    · split
      · exact KS.refl b
      · exact ks_ofLoop (ks_rowsHeightLoop s w _ _ _ _)
  | setColumnsHidden s c1 c2 w =>
    simp only [doOp, setColumnsHidden]
    split
    · exact KS.refl b
    · exact ks_ofLoop (ks_colsHiddenLoop s w _ _ _ _)
  | setRowsHidden s c1 c2 w =>
    simp only [doOp, setRowsHidden]
    split
    · exact KS.refl b
    · exact ks_ofLoop (ks_rowsHiddenLoop s w _ _ _ _)
  | moveRows s r n d =>
    simp only [doOp]
    rcases moveRows_cases b s r n d with h1 | ⟨e', h1⟩ | ⟨b', nd, hm, h1⟩
    · rw [h1]; exact KS.refl b
    · rw [h1]; exact KS.refl b
    · rw [h1]; exact ks_mMoveRows hm
  | moveColumns s r n d =>
    simp only [doOp]
    rcases moveColumns_cases b s r n d with h1 | ⟨e', h1⟩ | ⟨b', nd, hm, h1⟩
    · rw [h1]; exact KS.refl b
    · rw [h1]; exact KS.refl b
    · rw [h1]; exact ks_mMoveColumns hm
  | setPlainInput s r c t =>
    simp only [doOp]
    rcases setPlainInput_cases b s r c t with ⟨e', h1⟩ | ⟨sh, hsh, _, _, ⟨_, h1⟩ | ⟨_, h1⟩⟩
    · rw [h1]; exact KS.refl b
    · rw [h1]; exact ks_setSheet hsh rfl rfl
    · rw [h1]
      have k1 : KS b (setSheet b s ({ sh with cellAt := upd2 sh.cellAt r c (some t) } : Sheet)) :=
        ks_setSheet hsh rfl rfl
      exact k1.trans (ks_setSheet
        (getSheet_setSheet (t := ({ sh with cellAt := upd2 sh.cellAt r c (some t) } : Sheet)) hsh) rfl rfl)
  | rangeClearContents s r c w ht =>
    simp only [doOp]
    rcases rangeClear_cases b s r c w ht with ⟨e', h1⟩ | ⟨sh, hsh, h1⟩
    · rw [h1]; exact KS.refl b
    · rw [h1]; exact ks_setSheet hsh rfl rfl

end IronCalc.User

/-! ### `delete_sheet` (repaired: the names local to the sheet go with it) preserves `WFBook` -/
namespace IronCalc.User

theorem distinct_map_eraseIdx {α β : Type} [DecidableEq β] (f : α → β) :
    ∀ (l : List α) (i : Nat), distinct (l.map f) = true → distinct ((l.eraseIdx i).map f) = true := by
  intro l
  induction l with
  | nil => intro i h; simpa using h
  | cons x xs ih =>
    intro i h
    simp only [List.map_cons, distinct, Bool.and_eq_true, Bool.not_eq_true'] at h
    cases i with
    | zero => simpa using h.2
    | succ i =>
      simp only [List.eraseIdx_cons_succ, List.map_cons, distinct, Bool.and_eq_true, Bool.not_eq_true']
      refine ⟨?_, ih i h.2⟩
      cases hc : ((xs.eraseIdx i).map f).contains (f x) with
      | false => rfl
      | true =>
        have hm : f x ∈ (xs.eraseIdx i).map f := by simpa using hc
        obtain ⟨y, hy, hxy⟩ := List.mem_map.mp hm
        have : f x ∈ xs.map f := List.mem_map.mpr ⟨y, List.mem_of_mem_eraseIdx hy, hxy⟩
        have : (xs.map f).contains (f x) = true := by simpa using this
        rw [this] at h; cases h.1

/-- an id other than the erased sheet's is still the id of a sheet -/
theorem mem_ids_eraseIdx (l : List Sheet) (i : Nat) (sh : Sheet) (h : l[i]? = some sh) (j : Nat)
    (hj : j ∈ l.map (fun s => s.id)) (hne : j ≠ sh.id) : j ∈ (l.eraseIdx i).map (fun s => s.id) := by
  obtain ⟨t, ht, rfl⟩ := List.mem_map.mp hj
  obtain ⟨k, hk⟩ := List.mem_iff_getElem?.mp ht
  have hki : k ≠ i := by
    intro e; subst e; rw [h] at hk; cases hk; exact hne rfl
  apply List.mem_map.mpr
  refine ⟨t, ?_, rfl⟩
  apply List.mem_iff_getElem?.mpr
  by_cases hlt : k < i
  · exact ⟨k, by rw [List.getElem?_eraseIdx]; simp [hlt, hk]⟩
  · have hgt : i < k := by omega
    refine ⟨k - 1, ?_⟩
    rw [List.getElem?_eraseIdx]
    have h1 : ¬ (k - 1 < i) := by omega
    have h2 : k - 1 + 1 = k := by omega
    simp [h1, h2, hk]

theorem wf_mDeleteSheet (env : Env) (b b' : Book) (i : Nat) (hb : WFBook env b = true)
    (h : mDeleteSheet b i = .ok b') : WFBook env b' = true := by
  unfold mDeleteSheet at h
  by_cases h1 : b.sheets.length = 1
  · simp [h1] at h
  · by_cases h2 : i ≥ b.sheets.length
    · simp [h1, h2] at h
    · simp only [h1, h2, if_false, Except.ok.injEq] at h
      subst h
      have hi : i < b.sheets.length := by omega
      obtain ⟨sh, hsh⟩ : ∃ sh, b.sheets[i]? = some sh := ⟨b.sheets[i], by simp [hi]⟩
      simp only [WFBook, Bool.and_eq_true, Bool.not_eq_true'] at hb ⊢
      obtain ⟨⟨⟨⟨hne, hv⟩, hu⟩, hid⟩, hsc⟩ := hb
      refine ⟨⟨⟨⟨?_, ?_⟩, ?_⟩, ?_⟩, ?_⟩
      · have : (b.sheets.eraseIdx i).length = b.sheets.length - 1 := by
          rw [List.length_eraseIdx]; simp [hi]
        cases hl : b.sheets.eraseIdx i with
        | nil => rw [hl] at this; simp at this; omega
        | cons _ _ => rfl
      · simp only [namesValid, List.all_eq_true] at hv ⊢
        intro s hs; exact hv s (List.mem_of_mem_eraseIdx hs)
      · simp only [namesUnique] at hu ⊢
        exact distinct_map_eraseIdx _ _ _ hu
      · simp only [idsUnique] at hid ⊢
        exact distinct_map_eraseIdx _ _ _ hid
      · simp only [namesScoped, List.all_eq_true, namesNotOf, List.mem_filter, hsh, Option.map_some] at hsc ⊢
        intro d hd
        have hdsc := hsc d hd.1
        cases hs : d.sheetId with
        | none => rfl
        | some j =>
          rw [hs] at hdsc
          simp only at hdsc ⊢
          have hne' : j ≠ sh.id := by
            intro e; have := hd.2; rw [hs, e] at this; simp at this
          have hj : j ∈ b.sheets.map (fun s => s.id) := by simpa using hdsc
          have := mem_ids_eraseIdx b.sheets i sh hsh j hj hne'
          simpa using this

/-- the operation itself, failing or not -/
theorem wf_deleteSheet (env : Env) (b : Book) (i : Nat) (hb : WFBook env b = true) :
    WFBook env (deleteSheet b i).w = true := by
  unfold deleteSheet
  cases hs : getSheet b i with
  | error e => simpa [fail] using hb
  | ok s =>
    cases hd : mDeleteSheet b i with
    | error e => simpa [fail] using hb
    | ok b' => simpa [done] using wf_mDeleteSheet env b b' i hb hd

end IronCalc.User
