import IronCalc.User.WF
import IronCalc.User.DiffsProofs
/-
  Helper lemmas for C27 on the attribute model: operations that rewrite one sheet without touching
  its name and id preserve `WFBook`.
-/
namespace IronCalc.User

theorem WFBook_congr (env : Env) {b b' : Book} (hk : sheetKeys b' = sheetKeys b)
    (hn : b'.names = b.names) : WFBook env b' = WFBook env b := by
  have hlen : b'.sheets.isEmpty = b.sheets.isEmpty := by
    have := congrArg List.length hk
    simp only [sheetKeys, List.length_map] at this
    cases h1 : b'.sheets <;> cases h2 : b.sheets <;> simp_all
  have hnames : b'.sheets.map (fun s => s.name) = b.sheets.map (fun s => s.name) := by
    have := congrArg (List.map Prod.fst) hk
    simpa [sheetKeys, List.map_map, Function.comp_def] using this
  have hids : b'.sheets.map (fun s => s.id) = b.sheets.map (fun s => s.id) := by
    have := congrArg (List.map Prod.snd) hk
    simpa [sheetKeys, List.map_map, Function.comp_def] using this
  have h1 : namesValid b' = namesValid b := by
    have := congrArg (fun l => l.all isValidSheetName) hnames
    simpa [namesValid, List.all_map, Function.comp_def] using this
  have h2 : namesUnique env b' = namesUnique env b := by
    have := congrArg (fun l => distinct (l.map env.upper)) hnames
    simpa [namesUnique, List.map_map, Function.comp_def] using this
  have h3 : idsUnique b' = idsUnique b := by simp [idsUnique, hids]
  have h4 : namesScoped b' = namesScoped b := by simp [namesScoped, hids, hn]
  simp [WFBook, hlen, h1, h2, h3, h4]

theorem keys_setSheet {b : Book} {i : Nat} {s s' : Sheet} (hs : getSheet b i = .ok s)
    (hname : s'.name = s.name) (hid : s'.id = s.id) :
    sheetKeys (setSheet b i s') = sheetKeys b ∧ (setSheet b i s').names = b.names := by
  refine ⟨?_, rfl⟩
  have h := getSheet_ok hs
  simp only [sheetKeys, setSheet, List.map_set, hname, hid]
  apply set_self
  simp [h]

/-- the operations that do not touch the list of sheets -/
def keepsSheets : Op → Bool
  | .renameSheet _ _ => false
  | .newSheet => false
  | .deleteSheet _ => false
  | _ => true


/-- `b'` has the same sheet names/ids and defined names as `b` -/
def KS (b b' : Book) : Prop := sheetKeys b' = sheetKeys b ∧ b'.names = b.names

theorem KS.refl (b : Book) : KS b b := ⟨rfl, rfl⟩
theorem KS.trans {a b c : Book} (h1 : KS a b) (h2 : KS b c) : KS a c :=
  ⟨h2.1.trans h1.1, h2.2.trans h1.2⟩

theorem ks_setSheet {b : Book} {i : Nat} {s s' : Sheet} (hs : getSheet b i = .ok s)
    (hname : s'.name = s.name) (hid : s'.id = s.id) : KS b (setSheet b i s') :=
  keys_setSheet hs hname hid

set_option hygiene false in
local macro "prim_ks" f:ident : tactic =>
  `(tactic| (
    unfold $f at h
    cases hs : getSheet b sheet with
    | error e => simp [hs] at h
    | ok s =>
      simp only [hs] at h
      repeat' split at h
      all_goals first
        | (cases h; done)
        | (injection h with h; subst h; exact ks_setSheet hs rfl rfl)))

theorem ks_mSetFrozenRows {b b' : Book} {sheet : Nat} {n : Int}
    (h : mSetFrozenRows b sheet n = .ok b') : KS b b' := by prim_ks mSetFrozenRows
theorem ks_mSetFrozenCols {b b' : Book} {sheet : Nat} {n : Int}
    (h : mSetFrozenCols b sheet n = .ok b') : KS b b' := by prim_ks mSetFrozenCols
theorem ks_mSetShowGridLines {b b' : Book} {sheet : Nat} {v : Bool}
    (h : mSetShowGridLines b sheet v = .ok b') : KS b b' := by prim_ks mSetShowGridLines
theorem ks_mSetSheetColor {b b' : Book} {sheet : Nat} {v : String}
    (h : mSetSheetColor b sheet v = .ok b') : KS b b' := by prim_ks mSetSheetColor
theorem ks_mSetSheetState {b b' : Book} {sheet : Nat} {v : SheetState}
    (h : mSetSheetState b sheet v = .ok b') : KS b b' := by prim_ks mSetSheetState
theorem ks_mSetColumnWidth {b b' : Book} {sheet : Nat} {c w : Int}
    (h : mSetColumnWidth b sheet c w = .ok b') : KS b b' := by prim_ks mSetColumnWidth
theorem ks_mSetRowHeight {b b' : Book} {sheet : Nat} {c w : Int}
    (h : mSetRowHeight b sheet c w = .ok b') : KS b b' := by prim_ks mSetRowHeight
theorem ks_mSetColumnHidden {b b' : Book} {sheet : Nat} {c : Int} {v : Bool}
    (h : mSetColumnHidden b sheet c v = .ok b') : KS b b' := by prim_ks mSetColumnHidden
theorem ks_mSetRowHidden {b b' : Book} {sheet : Nat} {c : Int} {v : Bool}
    (h : mSetRowHidden b sheet c v = .ok b') : KS b b' := by prim_ks mSetRowHidden

theorem ks_colsWidthLoop (sheet : Nat) (w : Int) : ∀ (n : Nat) (c : Int) (b : Book)
    (acc : List Diff), KS b (colsWidthLoop sheet w n c b acc).b
  | 0, _, b, _ => KS.refl b
  | n + 1, c, b, acc => by
    simp only [colsWidthLoop]
    split
    · exact KS.refl b
    · split
      · exact KS.refl b
      · next b' hb => exact (ks_mSetColumnWidth hb).trans (ks_colsWidthLoop sheet w n _ _ _)

theorem ks_rowsHeightLoop (sheet : Nat) (w : Int) : ∀ (n : Nat) (c : Int) (b : Book)
    (acc : List Diff), KS b (rowsHeightLoop sheet w n c b acc).b
  | 0, _, b, _ => KS.refl b
  | n + 1, c, b, acc => by
    simp only [rowsHeightLoop]
    split
    · exact KS.refl b
    · split
      · exact KS.refl b
      · next b' hb => exact (ks_mSetRowHeight hb).trans (ks_rowsHeightLoop sheet w n _ _ _)

theorem ks_colsHiddenLoop (sheet : Nat) (w : Bool) : ∀ (n : Nat) (c : Int) (b : Book)
    (acc : List Diff), KS b (colsHiddenLoop sheet w n c b acc).b
  | 0, _, b, _ => KS.refl b
  | n + 1, c, b, acc => by
    simp only [colsHiddenLoop]
    split
    · exact KS.refl b
    · split
      · exact KS.refl b
      · next b' hb => exact (ks_mSetColumnHidden hb).trans (ks_colsHiddenLoop sheet w n _ _ _)

theorem ks_rowsHiddenLoop (sheet : Nat) (w : Bool) : ∀ (n : Nat) (c : Int) (b : Book)
    (acc : List Diff), KS b (rowsHiddenLoop sheet w n c b acc).b
  | 0, _, b, _ => KS.refl b
  | n + 1, c, b, acc => by
    simp only [rowsHiddenLoop]
    split
    · exact KS.refl b
    · split
      · exact KS.refl b
      · next b' hb => exact (ks_mSetRowHidden hb).trans (ks_rowsHiddenLoop sheet w n _ _ _)

theorem ks_mMoveRows {b b' : Book} {sheet : Nat} {row count delta : Int}
    (h : mMoveRows b sheet row count delta = .ok b') : KS b b' := by
  unfold mMoveRows at h
  repeat' split at h
  all_goals first
    | (cases h; done)
    | (injection h with h; subst h; exact KS.refl _)
    | (injection h with h; subst h; rename_i hs; exact ks_setSheet hs rfl rfl)

theorem ks_ofLoop {b : Book} {l : LoopOut} (h : KS b l.b) : KS b (ofLoop l).w := by
  unfold ofLoop; split <;> exact h

/-- every operation that does not touch the sheet list keeps names, ids and defined names —
    whether it succeeds or fails -/
theorem ks_doOp (env : Env) (b : Book) (o : Op) (hk : keepsSheets o = true) :
    KS b (doOp env b o).w := by
  cases o with
  | setName n => simp only [doOp, setName]; split <;> exact ⟨rfl, rfl⟩
  | setTimezone tz =>
    simp only [doOp, setTimezone, mSetTimezone]
    by_cases hv : env.validTz tz = true <;> simp [hv, fail, done] <;> exact ⟨rfl, rfl⟩
  | setLocale l =>
    simp only [doOp, setLocale, mSetLocale]
    by_cases hv : env.validLocale l = true <;> simp [hv, fail, done] <;> exact ⟨rfl, rfl⟩
  | setFrozenRows s n =>
    simp only [doOp, setFrozenRows]
    split
    · exact KS.refl b
    · split
      · exact KS.refl b
      · next b' hb => exact ks_mSetFrozenRows hb
  | setFrozenCols s n =>
    simp only [doOp, setFrozenCols]
    split
    · exact KS.refl b
    · split
      · exact KS.refl b
      · next b' hb => exact ks_mSetFrozenCols hb
  | setShowGridLines s v =>
    simp only [doOp, setShowGridLines]
    split
    · exact KS.refl b
    · split
      · exact KS.refl b
      · next b' hb => exact ks_mSetShowGridLines hb
  | setSheetColor s v =>
    simp only [doOp, setSheetColor]
    split
    · exact KS.refl b
    · split
      · exact KS.refl b
      · next b' hb => exact ks_mSetSheetColor hb
  | hideSheet s =>
    simp only [doOp, hideSheet]
    split
    · exact KS.refl b
    · split
      · exact KS.refl b
      · next b' hb => exact ks_mSetSheetState hb
  | unhideSheet s =>
    simp only [doOp, unhideSheet]
    split
    · exact KS.refl b
    · split
      · exact KS.refl b
      · next b' hb => exact ks_mSetSheetState hb
  | renameSheet s n => simp [keepsSheets] at hk
  | newSheet => simp [keepsSheets] at hk
  | deleteSheet s => simp [keepsSheets] at hk
  | setColumnsWidth s c1 c2 w =>
    simp only [doOp, setColumnsWidth]
    split
    · exact KS.refl b
    · split
      · exact KS.refl b
      · exact ks_ofLoop (ks_colsWidthLoop s w _ _ _ _)
  | setRowsHeight s c1 c2 w =>
    simp only [doOp, setRowsHeight]
    split
    · exact KS.refl b
    · split
      · exact KS.refl b
      · exact ks_ofLoop (ks_rowsHeightLoop s w _ _ _ _)
  | setColumnsHidden s c1 c2 w =>
    simp only [doOp, setColumnsHidden]
    split
    · exact KS.refl b
    · exact ks_ofLoop (ks_colsHiddenLoop s w _ _ _ _)
  | setRowsHidden s c1 c2 w =>
    simp only [doOp, setRowsHidden]
    split
    · exact KS.refl b
    · exact ks_ofLoop (ks_rowsHiddenLoop s w _ _ _ _)
  | moveRows s r n d =>
    simp only [doOp]
    rcases moveRows_cases b s r n d with h1 | ⟨e', h1⟩ | ⟨b', nd, hm, h1⟩
    · rw [h1]; exact KS.refl b
    · rw [h1]; exact KS.refl b
    · rw [h1]; exact ks_mMoveRows hm

end IronCalc.User
