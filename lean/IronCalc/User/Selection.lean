/-
  C28 — model of the selection: base/src/user_model/ui.rs (setters, arrow keys, area selecting) and the
  selection side effects of the sheet operations in base/src/user_model/common.rs (`new_sheet`,
  `duplicate_sheet`, `delete_sheet`, `hide_sheet`, `unhide_sheet`, `move_sheet`) and of their undo /
  redo arms in base/src/user_model/undo_redo.rs (`NewSheet`, `DeleteSheet`, `DuplicateSheet`,
  `MoveSheet`, `SetSheetState`), including the history stacks of base/src/user_model/history.rs.

  The model is of the code *after* the `fix:` commits for F28a (`selected_sheet_after_delete`) and
  F28d/F28e (page up / page down clamp the row to the grid); the pinned behaviours are kept as
  `afterDeletePinned`, `pageRowPinned` for the negation theorems.

  Also modelled (second round): scrolling (`top_row`, `left_column`, `set_top_left_visible_cell`, window
  width / height) with the pixel geometry of *default-sized* rows and columns (a hidden row / column
  has size 0), page up / page down, `on_navigate_to_edge_in_direction` (over the set of non-empty
  cells), `on_expand_selected_range`, the scrolling and failure behaviour of `on_area_selecting`,
  `set_rows_hidden` / `set_columns_hidden` (which move the selection) and `set_user_input` of a plain
  value, with their undo / redo arms.  Every `?` of the Rust code is an `Option` here: a failing inner
  call aborts the command at that point (what was written before stays written).
  Not modelled: custom row heights / column widths, frozen panes (ui.rs does not read them), several
  views.
-/
namespace IronCalc.Selection

def LAST_ROW : Int := 1048576
def LAST_COLUMN : Int := 16384

/-- models base/src/expressions/utils/mod.rs::is_valid_row -/
def validRow (r : Int) : Bool := decide (1 ≤ r) && decide (r ≤ LAST_ROW)
/-- models base/src/expressions/utils/mod.rs::is_valid_column_number -/
def validCol (c : Int) : Bool := decide (1 ≤ c) && decide (c ≤ LAST_COLUMN)

/-- `WorksheetView`: selected cell and range `[r1, c1, r2, c2]` -/
structure View where
  row : Int
  col : Int
  r1 : Int
  c1 : Int
  r2 : Int
  c2 : Int
  /-- `top_row`, `left_column`: the first visible cell -/
  top : Int
  left : Int
deriving DecidableEq, Repr

/-- the view of a fresh worksheet (base/src/new_empty.rs::new_empty_worksheet) -/
def View.default : View := ⟨1, 1, 1, 1, 1, 1, 1, 1⟩

structure Sheet where
  /-- identity (stands for the sheet name / id; never compared with the implementation) -/
  sid : Nat
  visible : Bool
  view : View
  hidRows : List Int
  hidCols : List Int
  /-- the non-empty cells (row, column) -/
  filled : List (Int × Int)
deriving DecidableEq, Repr

/-- a worksheet as `new_empty_worksheet` makes it -/
def Sheet.fresh (sid : Nat) : Sheet := ⟨sid, true, View.default, [], [], []⟩

/-- the sheet-structure diffs of base/src/user_model/history.rs::Diff -/
inductive Diff where
  | newSheet (index : Nat) (sid : Nat)
  | deleteSheet (index : Nat) (old : Sheet)
  | duplicateSheet (src new : Nat)
  | moveSheet (frm to : Nat)
  | setState (index : Nat) (old new : Bool)
  /-- the `SetRowHidden` diffs of one `set_rows_hidden` call: (row, old value) and the new value -/
  | setRowsHidden (sheet : Nat) (olds : List (Int × Bool)) (new : Bool)
  | setColsHidden (sheet : Nat) (olds : List (Int × Bool)) (new : Bool)
  /-- `SetCellValue` of a plain value: was the cell non-empty before -/
  | setCell (sheet : Nat) (r c : Int) (old : Bool)
deriving DecidableEq, Repr

structure State where
  selected : Nat
  sheets : List Sheet
  undo : List Diff
  redo : List Diff
  nextId : Nat
  /-- `WorkbookView.window_width / window_height` -/
  winW : Int
  winH : Int
deriving Repr

def State.init : State := ⟨0, [Sheet.fresh 0], [], [], 1, 800, 600⟩

inductive Dir where | left | right | up | down
deriving DecidableEq, Repr

inductive Cmd where
  | selSheet (i : Nat)
  | selCell (r c : Int)
  | selRange (r1 c1 r2 c2 : Int)
  | arrow (d : Dir)
  | area (r c : Int)
  | newSheet
  | dupSheet (i : Nat)
  | delSheet (i : Nat)
  | hideSheet (i : Nat)
  | unhideSheet (i : Nat)
  | moveSheet (frm to : Nat)
  | undo
  | redo
  | setTopLeft (r c : Int)
  | setWinW (w : Int)
  | setWinH (h : Int)
  | pageDown
  | pageUp
  | edge (d : Dir)
  | expand (d : Dir)
  | hideRows (sheet : Nat) (a b : Int) (hidden : Bool)
  | hideCols (sheet : Nat) (a b : Int) (hidden : Bool)
  | input (sheet : Nat) (r c : Int)
deriving DecidableEq, Repr

/-! ### index arithmetic -/

/-- models base/src/user_model/common.rs::selected_sheet_after_move -/
def afterMove (selected frm to : Nat) : Nat :=
  if selected = frm then to
  else
    let afterRemove := if selected > frm then selected - 1 else selected
    if afterRemove ≥ to then afterRemove + 1 else afterRemove

/-- models base/src/user_model/common.rs::selected_sheet_after_delete (the F28a repair) -/
def afterDelete (selected deleted count : Nat) : Nat :=
  if selected > deleted ∨ (selected = deleted ∧ selected + 1 ≥ count) then selected - 1 else selected

/-- the pinned tree's `delete_sheet`: the selection moves only when the *last* sheet is deleted -/
def afterDeletePinned (selected deleted count : Nat) : Nat :=
  if deleted = count - 1 ∧ count > 1 then count - 2 else selected

/-! ### list surgery (Vec::remove / Vec::insert) -/

def removeAt (l : List Sheet) (i : Nat) : List Sheet := l.take i ++ l.drop (i + 1)
def insertAt (l : List Sheet) (i : Nat) (s : Sheet) : List Sheet := l.take i ++ s :: l.drop i

def modifyAt (l : List Sheet) (i : Nat) (f : Sheet → Sheet) : List Sheet :=
  match l, i with
  | [], _ => []
  | s :: t, 0 => f s :: t
  | s :: t, i + 1 => s :: modifyAt t i f

/-! ### setters of ui.rs -/

/-- models ui.rs::set_selected_sheet (validated; an invalid index changes nothing) -/
def selSheet (s : State) (i : Nat) : State :=
  if i < s.sheets.length then { s with selected := i } else s

/-- apply `f` to the sheet at index `i` (nothing happens when there is none) -/
def modSheet (s : State) (i : Nat) (f : Sheet → Sheet) : State :=
  { s with sheets := modifyAt s.sheets i f }

def setView (s : State) (v : View) : State :=
  { s with sheets := modifyAt s.sheets s.selected (fun sh => { sh with view := v }) }

/-- the common shape of the ui.rs commands: look up the selected sheet (nothing happens when it
    does not exist), compute the new view from it (`none` = the command returns early or fails
    before writing), write the view -/
def viewOp (s : State) (f : Sheet → Option View) : State :=
  match s.sheets[s.selected]? with
  | none => s
  | some sh =>
    match f sh with
    | none => s
    | some v => setView s v

/-- loop fuels: more than the number of rows / columns, so that the bounded loops below run exactly
    as long as the `while` loops they model (which stop, at the latest, on an index off the grid) -/
@[irreducible] def rowFuel : Nat := 1048578
@[irreducible] def colFuel : Nat := 16386

/-- models ui.rs::set_selected_cell -/
def cellView (v : View) (r c : Int) : Option View :=
  if validCol c && validRow r then some { v with row := r, col := c, r1 := r, c1 := c, r2 := r, c2 := c }
  else none

def selCell (s : State) (r c : Int) : State := viewOp s fun sh => cellView sh.view r c

/-- models ui.rs::set_selected_range: the four coordinates are validated; the selected cell must
    be on a corner (on one edge for full-row / full-column ranges) -/
def rangeView (v : View) (r1 c1 r2 c2 : Int) : Option View :=
  if validCol c1 && validRow r1 && validCol c2 && validRow r2 then
    let ok :=
      if r1 = 1 ∧ r2 = LAST_ROW then decide (v.col = c1 ∨ v.col = c2)
      else if c1 = 1 ∧ c2 = LAST_COLUMN then decide (v.row = r1 ∨ v.row = r2)
      else decide (v.row = r1 ∨ v.row = r2) && decide (v.col = c1 ∨ v.col = c2)
    if ok then some { v with r1 := r1, c1 := c1, r2 := r2, c2 := c2 } else none
  else none

def selRange (s : State) (r1 c1 r2 c2 : Int) : State := viewOp s fun sh => rangeView sh.view r1 c1 r2 c2

/-- models ui.rs::set_top_left_visible_cell -/
def topLeftView (v : View) (r c : Int) : Option View :=
  if validCol c && validRow r then some { v with top := r, left := c } else none

def setTopLeft (s : State) (r c : Int) : State := viewOp s fun sh => topLeftView sh.view r c

/-! ### geometry and hidden rows / columns -/

/-- default row height / column width in pixels (constants.rs; `ui_row_height` rounds) -/
def ROW_H : Int := 25
def COL_W : Int := 90

/-- models worksheet.rs::is_row_hidden / is_column_hidden (`none` = `Err`: index off the grid) -/
def rowHidden? (sh : Sheet) (r : Int) : Option Bool :=
  if validRow r then some (sh.hidRows.contains r) else none
def colHidden? (sh : Sheet) (c : Int) : Option Bool :=
  if validCol c then some (sh.hidCols.contains c) else none

/-- models ui.rs::ui_row_height / ui_column_width for default-sized rows and columns -/
def rowH? (sh : Sheet) (r : Int) : Option Int :=
  if validRow r then some (if sh.hidRows.contains r then 0 else ROW_H) else none
def colW? (sh : Sheet) (c : Int) : Option Int :=
  if validCol c then some (if sh.hidCols.contains c then 0 else COL_W) else none

/-- `acc + Σ f x … f (x + n - 1)`; `none` as soon as one term fails -/
def sumFrom (f : Int → Option Int) : Nat → Int → Int → Option Int
  | 0, _, acc => some acc
  | n + 1, x, acc =>
    match f x with
    | none => none
    | some a => sumFrom f n (x + 1) (acc + a)

/-- `Σ_{x = lo}^{hi} f x` (0 when `hi < lo`) -/
def sumRange (f : Int → Option Int) (lo hi : Int) : Option Int := sumFrom f (hi - lo + 1).toNat lo 0

/-- the `while` loops of the arrow keys: step over hidden rows / columns, at most `fuel` times,
    while `start` stays inside `1 ..= last` -/
def skipHidden (hid : List Int) (last step : Int) : Nat → Int → Int
  | 0, x => x
  | fuel + 1, x =>
    if 1 ≤ x ∧ x ≤ last ∧ hid.contains x then skipHidden hid last step fuel (x + step) else x

/-- the row / column an arrow key lands on (before the validity check) -/
def arrowTarget (sh : Sheet) (d : Dir) : Int :=
  match d with
  | .right => skipHidden sh.hidCols LAST_COLUMN 1 colFuel (sh.view.col + 1)
  | .left => skipHidden sh.hidCols LAST_COLUMN (-1) colFuel (sh.view.col - 1)
  | .down => skipHidden sh.hidRows LAST_ROW 1 rowFuel (sh.view.row + 1)
  | .up => skipHidden sh.hidRows LAST_ROW (-1) rowFuel (sh.view.row - 1)

def Dir.horizontal : Dir → Bool
  | .left | .right => true
  | _ => false

/-- the scroll position after an arrow key.  right: if the columns `left_column ..= new` are wider
    than the window, `left_column += 1` (a failing width lookup aborts the key press); left / up: the
    new cell becomes the first visible one when it is before it; down: rows
    `top_row ..= min (new + 1) LAST_ROW` against the window height -/
def arrowScroll (winW winH : Int) (sh : Sheet) (d : Dir) (x : Int) : Option Int :=
  let v := sh.view
  match d with
  | .right => (sumRange (colW? sh) v.left x).map fun w => if w > winW then v.left + 1 else v.left
  | .left => some (if x < v.left then x else v.left)
  | .down =>
    (sumRange (rowH? sh) v.top (min (x + 1) LAST_ROW)).map fun h => if h > winH then v.top + 1 else v.top
  | .up => some (if x < v.top then x else v.top)

/-- models ui.rs::on_arrow_right / on_arrow_left / on_arrow_up / on_arrow_down -/
def arrowView (winW winH : Int) (sh : Sheet) (d : Dir) : Option View :=
  let v := sh.view
  let x := arrowTarget sh d
  if d.horizontal then
    if validCol x then
      (arrowScroll winW winH sh d x).map fun l =>
        { v with col := x, r1 := v.row, c1 := x, r2 := v.row, c2 := x, left := l }
    else none
  else
    if validRow x then
      (arrowScroll winW winH sh d x).map fun t =>
        { v with row := x, r1 := x, c1 := v.col, r2 := x, c2 := v.col, top := t }
    else none

def arrow (s : State) (d : Dir) : State := viewOp s fun sh => arrowView s.winW s.winH sh d

/-- the second loop of `on_area_selecting`: `while size > window { size -= f first; first += 1 }` -/
def shrinkFrom (f : Int → Option Int) (win : Int) : Nat → Int → Int → Option Int
  | 0, _, _ => none
  | fuel + 1, size, first =>
    if size > win then
      match f first with
      | none => none
      | some a => shrinkFrom f win fuel (size - a) (first + 1)
    else some first

/-- the scroll computation of `on_area_selecting` along one axis -/
def areaScroll (f : Int → Option Int) (win first cell target : Int) (fuel : Nat) : Option Int :=
  if target ≥ cell then
    match sumRange f first target with
    | none => none
    | some size => shrinkFrom f win fuel size first
  else if target < first then some target
  else some first

/-- models ui.rs::on_area_selecting: the range keeps its *start* and ends at the target; neither the
    target nor the position of the selected cell is checked; the scroll position follows the target
    (a size lookup off the grid aborts the call before anything is written) -/
def areaView (winW winH : Int) (sh : Sheet) (r c : Int) : Option View :=
  let v := sh.view
  (areaScroll (colW? sh) winW v.left v.col c colFuel).bind fun newLeft =>
    (areaScroll (rowH? sh) winH v.top v.row r rowFuel).map fun newTop =>
      { v with r2 := r, c2 := c, top := newTop, left := newLeft }

def area (s : State) (r c : Int) : State := viewOp s fun sh => areaView s.winW s.winH sh r c

/-! ### page up / page down -/

/-- `while height <= window { last += 1; height += h last? }` of on_page_down -/
def pageDownLoop (f : Int → Option Int) (win : Int) : Nat → Int → Int → Option Int
  | 0, _, _ => none
  | fuel + 1, last, height =>
    if height ≤ win then
      match f (last + 1) with
      | none => none
      | some a => pageDownLoop f win fuel (last + 1) (height + a)
    else some last

/-- `while height <= window && first > 1 { first -= 1; height += h first? }` of on_page_up -/
def pageUpLoop (f : Int → Option Int) (win : Int) : Nat → Int → Int → Option Int
  | 0, _, _ => none
  | fuel + 1, first, height =>
    if height ≤ win ∧ first > 1 then
      match f (first - 1) with
      | none => none
      | some a => pageUpLoop f win fuel (first - 1) (height + a)
    else some first

/-- the selected row after a page move to `newTop`: the offset to the top row is kept and
    (repair of F28d / F28e) the result is clamped to the grid -/
def pageRow (v : View) (newTop : Int) : Int := max 1 (min LAST_ROW (newTop + (v.row - v.top)))

/-- the pinned tree's rule: no clamping -/
def pageRowPinned (v : View) (newTop : Int) : Int := newTop + (v.row - v.top)

def pageView (v : View) (rowOf : View → Int → Int) (newTop : Int) : View :=
  { v with top := newTop, row := rowOf v newTop, r1 := rowOf v newTop, c1 := v.col,
           r2 := rowOf v newTop, c2 := v.col }

/-- models ui.rs::on_page_down (parametric in the row rule, to state the pinned behaviour too) -/
def pageDownView (rowOf : View → Int → Int) (winH : Int) (sh : Sheet) : Option View :=
  (rowH? sh sh.view.top).bind fun h0 =>
    (pageDownLoop (rowH? sh) winH rowFuel sh.view.top h0).bind fun last =>
      if validRow last then some (pageView sh.view rowOf last) else none

/-- models ui.rs::on_page_up -/
def pageUpView (rowOf : View → Int → Int) (winH : Int) (sh : Sheet) : Option View :=
  (rowH? sh sh.view.top).bind fun h0 =>
    (pageUpLoop (rowH? sh) winH rowFuel sh.view.top h0).map fun first => pageView sh.view rowOf first

def pageDownWith (rowOf : View → Int → Int) (s : State) : State := viewOp s (pageDownView rowOf s.winH)
def pageUpWith (rowOf : View → Int → Int) (s : State) : State := viewOp s (pageUpView rowOf s.winH)
def pageDown : State → State := pageDownWith pageRow
def pageUp : State → State := pageUpWith pageRow

/-! ### navigate to edge -/

def stepDir (d : Dir) (p : Int × Int) : Option (Int × Int) :=
  if (p.1 = 1 ∧ d = .up) ∨ (p.1 = LAST_ROW ∧ d = .down) ∨ (p.2 = 1 ∧ d = .left)
      ∨ (p.2 = LAST_COLUMN ∧ d = .right) then none
  else some (match d with
    | .left => (p.1, p.2 - 1)
    | .right => (p.1, p.2 + 1)
    | .up => (p.1 - 1, p.2)
    | .down => (p.1 + 1, p.2))

/-- models worksheet.rs::walk_in_direction: (found cell, previous cell) -/
def walk (pred : Int × Int → Bool) (d : Dir) : Nat → Int × Int → Option (Int × Int) → Option (Int × Int) × (Int × Int)
  | 0, prev, cur => (cur, prev)
  | fuel + 1, prev, cur =>
    match cur with
    | none => (none, prev)
    | some cell => if pred cell then (some cell, prev) else walk pred d fuel cell (stepDir d cell)

/-- models worksheet.rs::navigate_to_edge_in_direction for a start cell inside the grid -/
def edgeTarget (sh : Sheet) (d : Dir) (start : Int × Int) : Int × Int :=
  let nonEmpty := fun p => sh.filled.contains p
  match stepDir d start with
  | none => start
  | some nb =>
    if !(nonEmpty start) || !(nonEmpty nb) then
      match walk nonEmpty d rowFuel start (stepDir d start) with
      | (some c, _) => c
      | (none, prev) => prev
    else (walk (fun p => !(nonEmpty p)) d rowFuel start (stepDir d start)).2

/-- `c = new; size = f c?; while c > 1 && size <= window { c -= 1; size += f c? }` of the edge scroll -/
def backLoop (f : Int → Option Int) (win : Int) : Nat → Int → Int → Option Int
  | 0, _, _ => none
  | fuel + 1, c, size =>
    if c > 1 ∧ size ≤ win then
      match f (c - 1) with
      | none => none
      | some a => backLoop f win fuel (c - 1) (size + a)
    else some c

def edgeScroll (f : Int → Option Int) (win first new : Int) (fuel : Nat) : Option Int :=
  if new < first then some new
  else
    (f new).bind fun a =>
      (backLoop f win fuel new a).map fun c => if c > first then c else first

/-- models ui.rs::on_navigate_to_edge_in_direction -/
def edgeView (winW winH : Int) (sh : Sheet) (d : Dir) : Option View :=
  let v := sh.view
  if validRow v.row && validCol v.col then
    let p := edgeTarget sh d (v.row, v.col)
    if validRow p.1 && validCol p.2 then
      if p.1 = v.row ∧ p.2 = v.col then none
      else
        let scrolled : Option (Int × Int) :=
          if d.horizontal then (edgeScroll (colW? sh) winW v.left p.2 colFuel).map fun l => (v.top, l)
          else (edgeScroll (rowH? sh) winH v.top p.1 rowFuel).map fun t => (t, v.left)
        scrolled.map fun tl =>
          { v with row := p.1, col := p.2, r1 := p.1, c1 := p.2, r2 := p.1, c2 := p.2,
                   top := tl.1, left := tl.2 }
    else none
  else none

def edge (s : State) (d : Dir) : State := viewOp s fun sh => edgeView s.winW s.winH sh d

/-! ### keyboard range expansion -/

/-- `while x < last && hidden x? { x += 1 }` / `while x > 1 && hidden x? { x -= 1 }` -/
def skipUp (hid : Int → Option Bool) (last : Int) : Nat → Int → Option Int
  | 0, _ => none
  | fuel + 1, x =>
    if x < last then
      match hid x with
      | none => none
      | some true => skipUp hid last fuel (x + 1)
      | some false => some x
    else some x

def skipDown (hid : Int → Option Bool) : Nat → Int → Option Int
  | 0, _ => none
  | fuel + 1, x =>
    if x > 1 then
      match hid x with
      | none => none
      | some true => skipDown hid fuel (x - 1)
      | some false => some x
    else some x

/-- `set_top_left_visible_cell(t, l)?` followed by `set_selected_range(…)?`: the scroll position is
    written first and stays when the range is refused -/
def scrolledRange (v : View) (t l : Int) (r1 c1 r2 c2 : Int) : Option View :=
  (topLeftView v t l).map fun v' => (rangeView v' r1 c1 r2 c2).getD v'

/-- models ui.rs::on_expand_selected_range (shift + arrow).  The selection goes through
    `set_selected_range`, so it is validated -/
def expandView (winW winH : Int) (sh : Sheet) (d : Dir) : Option View :=
  let v := sh.view
  if (!d.horizontal) && v.r1 = 1 && v.r2 = LAST_ROW then none
  else if d.horizontal && v.c1 = 1 && v.c2 = LAST_COLUMN then none
  else
    match d with
    | .right =>
      if v.col > v.c1 then
        (skipUp (colHidden? sh) LAST_COLUMN colFuel (v.c1 + 1)).bind fun n =>
          if validCol n then rangeView v v.r1 n v.r2 v.c2 else none
      else
        (skipUp (colHidden? sh) LAST_COLUMN colFuel (v.c2 + 1)).bind fun n =>
          if validCol n then
            (sumRange (colW? sh) v.left n).bind fun w =>
              if w > winW then scrolledRange v v.top (v.left + 1) v.r1 v.c1 v.r2 n
              else rangeView v v.r1 v.c1 v.r2 n
          else none
    | .left =>
      if v.col < v.c2 then
        (skipDown (colHidden? sh) colFuel (v.c2 - 1)).bind fun n =>
          if validCol n then
            if n < v.left then scrolledRange v v.top n v.r1 v.c1 v.r2 n
            else rangeView v v.r1 v.c1 v.r2 n
          else none
      else
        (skipDown (colHidden? sh) colFuel (v.c1 - 1)).bind fun n =>
          if validCol n then
            if n < v.left then scrolledRange v v.top n v.r1 n v.r2 v.c2
            else rangeView v v.r1 n v.r2 v.c2
          else none
    | .up =>
      if v.row < v.r2 then
        (skipDown (rowHidden? sh) rowFuel (v.r2 - 1)).bind fun n =>
          if validRow n then rangeView v v.r1 v.c1 n v.c2 else none
      else
        (skipDown (rowHidden? sh) rowFuel (v.r1 - 1)).bind fun n =>
          if validRow n then
            if n < v.top then scrolledRange v n v.left n v.c1 v.r2 v.c2
            else rangeView v n v.c1 v.r2 v.c2
          else none
    | .down =>
      if v.row > v.r1 then
        (skipUp (rowHidden? sh) LAST_ROW rowFuel (v.r1 + 1)).bind fun n =>
          if validRow n then rangeView v n v.c1 v.r2 v.c2 else none
      else
        (skipUp (rowHidden? sh) LAST_ROW rowFuel (v.r2 + 1)).bind fun n =>
          if validRow n then
            (sumRange (rowH? sh) v.top (n + 1)).bind fun h =>
              if h ≥ winH then scrolledRange v (v.top + 1) v.left v.r1 v.c1 n v.c2
              else rangeView v v.r1 v.c1 n v.c2
          else none

def expand (s : State) (d : Dir) : State := viewOp s fun sh => expandView s.winW s.winH sh d

/-! ### sheet operations of common.rs -/

def push (s : State) (d : Diff) : State := { s with undo := d :: s.undo, redo := [] }

/-- models common.rs::new_sheet -/
def newSheet (s : State) : State :=
  let n := s.sheets.length
  let s1 := { s with sheets := s.sheets ++ [Sheet.fresh s.nextId], nextId := s.nextId + 1 }
  push (selSheet s1 n) (.newSheet n s.nextId)

/-- models common.rs::duplicate_sheet (the copy is a clone: same view and state) -/
def dupSheet (s : State) (i : Nat) : State :=
  match s.sheets[i]? with
  | none => s
  | some sh =>
    let s1 := { s with sheets := insertAt s.sheets (i + 1) { sh with sid := s.nextId }, nextId := s.nextId + 1 }
    push (selSheet s1 (i + 1)) (.duplicateSheet i (i + 1))

/-- models common.rs::delete_sheet.  The diff is pushed before `Model::delete_sheet` can refuse to
    delete the only sheet (that push is F04's business, kept here for faithfulness). -/
def delSheet (s : State) (i : Nat) : State :=
  match s.sheets[i]? with
  | none => s
  | some sh =>
    let n := s.sheets.length
    let s1 := push s (.deleteSheet i sh)
    -- after fix F04a–h the only sheet cannot be deleted and the failing call records nothing
    if n > 1 then
      { s1 with selected := afterDelete s.selected i n, sheets := removeAt s.sheets i }
    else s

/-- the scan of common.rs::hide_sheet for the next visible sheet: `(i + k) % n` for `k = 1 .. n-1` -/
def nextVisible (sheets : List Sheet) (i n : Nat) : Nat → Nat → Option Nat
  | 0, _ => none
  | fuel + 1, k =>
    if k < n then
      match sheets[(i + k) % n]? with
      | some sh => if sh.visible then some ((i + k) % n) else nextVisible sheets i n fuel (k + 1)
      | none => nextVisible sheets i n fuel (k + 1)
    else none

/-- the selection part of common.rs::hide_sheet -/
def hideSel (s : State) (i : Nat) : State :=
  match nextVisible s.sheets i s.sheets.length s.sheets.length 1 with
  | some j => { s with selected := j }
  | none => s

/-- models common.rs::hide_sheet (after fix F04a–h: the index is validated first, a failing
    call changes nothing; then the selection moves to the next visible sheet) -/
def hideSheet (s : State) (i : Nat) : State :=
  let s1 := hideSel s i
  match s.sheets[i]? with
  | none => s
  | some sh =>
    { push s1 (.setState i sh.visible false) with
      sheets := modifyAt s1.sheets i (fun x => { x with visible := false }) }

/-- models common.rs::unhide_sheet -/
def unhideSheet (s : State) (i : Nat) : State :=
  match s.sheets[i]? with
  | none => s
  | some sh =>
    { push s (.setState i sh.visible true) with
      sheets := modifyAt s.sheets i (fun x => { x with visible := true }) }

/-- `Model::move_sheet` on the list -/
def moveList (l : List Sheet) (frm to : Nat) : List Sheet :=
  match l[frm]? with
  | some sh => insertAt (removeAt l frm) to sh
  | none => l

/-- models common.rs::move_sheet -/
def moveSheet (s : State) (frm to : Nat) : State :=
  let n := s.sheets.length
  if frm ≥ n ∨ to ≥ n ∨ frm = to then s
  else
    let s1 := { s with sheets := moveList s.sheets frm to }
    push (selSheet s1 (afterMove s.selected frm to)) (.moveSheet frm to)

/-! ### hiding rows / columns, typing a value -/

/-- set membership update of a hidden-set -/
def setHid (l : List Int) (x : Int) (b : Bool) : List Int :=
  if b then (if l.contains x then l else x :: l) else l.filter (· != x)

/-- the `for x in a..=b` loop of set_rows_hidden / set_columns_hidden on a hidden-set: new set and
    the recorded (index, old value) pairs, in order -/
def hideLoop (hidden : Bool) : Nat → Int → List Int → List (Int × Bool) → List Int × List (Int × Bool)
  | 0, _, l, olds => (l, olds.reverse)
  | n + 1, x, l, olds => hideLoop hidden n (x + 1) (setHid l x hidden) ((x, l.contains x) :: olds)

/-- `while x <= last && hidden x? { x += 1 }` -/
def skipUpLe (hid : Int → Option Bool) (last : Int) : Nat → Int → Option Int
  | 0, _ => none
  | fuel + 1, x =>
    if x ≤ last then
      match hid x with
      | none => none
      | some true => skipUpLe hid last fuel (x + 1)
      | some false => some x
    else some x

/-- `while x >= 1 && hidden x? { x -= 1 }` -/
def skipDownGe (hid : Int → Option Bool) : Nat → Int → Option Int
  | 0, _ => none
  | fuel + 1, x =>
    if x ≥ 1 then
      match hid x with
      | none => none
      | some true => skipDownGe hid fuel (x - 1)
      | some false => some x
    else some x

/-- the visible row / column selected after hiding `a ..= b`: the next visible one, else the previous
    visible one, else 1 -/
def afterHide (hid : Int → Option Bool) (last : Int) (fuel : Nat) (a b : Int) : Option Int :=
  match skipUpLe hid last fuel (b + 1) with
  | none => none
  | some x =>
    if x > last then
      match skipDownGe hid fuel (a - 1) with
      | none => none
      | some y => some (if y < 1 then 1 else y)
    else some x

/-- models common.rs::validate_row_range / validate_column_range -/
def rangeValid (valid : Int → Bool) (a b : Int) : Bool := if a ≤ b then valid a && valid b else true

/-- models common.rs::set_rows_hidden: validate, hide row by row, then (when hiding rows of the
    selected sheet) select the whole next visible row; the diff list is pushed last, so a failure of
    the selection part leaves the rows hidden without a history entry -/
def hideRows (s : State) (sheet : Nat) (a b : Int) (hidden : Bool) : State :=
  match s.sheets[sheet]? with
  | none => s
  | some sh =>
    if rangeValid validRow a b then
      let (hid, olds) := hideLoop hidden (b - a + 1).toNat a sh.hidRows []
      let sh1 := { sh with hidRows := hid }
      let s1 := modSheet s sheet (fun x => { x with hidRows := hid })
      if hidden && s.selected == sheet then
        match afterHide (rowHidden? sh1) LAST_ROW rowFuel a b with
        | none => s1
        | some r => push (selRange (selCell s1 r 1) r 1 r LAST_COLUMN) (.setRowsHidden sheet olds hidden)
      else push s1 (.setRowsHidden sheet olds hidden)
    else s

/-- models common.rs::set_columns_hidden -/
def hideCols (s : State) (sheet : Nat) (a b : Int) (hidden : Bool) : State :=
  match s.sheets[sheet]? with
  | none => s
  | some sh =>
    if rangeValid validCol a b then
      let (hid, olds) := hideLoop hidden (b - a + 1).toNat a sh.hidCols []
      let sh1 := { sh with hidCols := hid }
      let s1 := modSheet s sheet (fun x => { x with hidCols := hid })
      if hidden && s.selected == sheet then
        match afterHide (colHidden? sh1) LAST_COLUMN colFuel a b with
        | none => s1
        | some c => push (selRange (selCell s1 1 c) 1 c LAST_ROW c) (.setColsHidden sheet olds hidden)
      else push s1 (.setColsHidden sheet olds hidden)
    else s

/-- models common.rs::set_user_input of a plain one-line value into a *visible* row (typing into a
    hidden row also resizes it, which is outside the model: there the command is skipped, in the
    harness as well) -/
def input (s : State) (sheet : Nat) (r c : Int) : State :=
  if validCol c && validRow r then
    match s.sheets[sheet]? with
    | none => s
    | some sh =>
      if sh.hidRows.contains r then s
      else
        let old := sh.filled.contains (r, c)
        push (modSheet s sheet (fun x => { x with filled := if old then x.filled else (r, c) :: x.filled }))
          (.setCell sheet r c old)
  else s

/-! ### undo / redo arms of undo_redo.rs -/

/-- models the sheet arms of undo_redo.rs::apply_undo_diff_list; an `Err` of a model call (`?`) leaves
    the rest of the arm undone -/
def applyUndo (s : State) : Diff → State
  | .newSheet idx _ =>
    let n := s.sheets.length
    if n = 1 ∨ idx ≥ n then s
    else
      let s1 := { s with sheets := removeAt s.sheets idx }
      if idx > 0 then selSheet s1 (idx - 1) else s1
  | .duplicateSheet src new =>
    let n := s.sheets.length
    if new ≥ n ∨ n = 1 then s
    else selSheet { s with sheets := removeAt s.sheets new } src
  | .moveSheet frm to =>
    let n := s.sheets.length
    if to ≥ n ∨ frm ≥ n then s
    else if to = frm then selSheet s (afterMove s.selected to frm)
    else selSheet { s with sheets := moveList s.sheets to frm } (afterMove s.selected to frm)
  | .setState idx old _ =>
    { s with sheets := modifyAt s.sheets idx (fun x => { x with visible := old }) }
  | .deleteSheet idx old =>
    -- insert_sheet fails when the name is taken or the index is out of range
    if s.sheets.any (fun x => x.sid == old.sid) ∨ idx > s.sheets.length then s
    else
      selSheet { s with sheets := insertAt s.sheets idx { old with view := View.default } } idx
  | .setRowsHidden sheet olds _ =>
    modSheet s sheet (fun x => { x with hidRows := olds.foldl (fun l p => setHid l p.1 p.2) x.hidRows })
  | .setColsHidden sheet olds _ =>
    modSheet s sheet (fun x => { x with hidCols := olds.foldl (fun l p => setHid l p.1 p.2) x.hidCols })
  | .setCell sheet r c old =>
    modSheet s sheet (fun x => { x with filled := if old then x.filled else x.filled.filter (· != (r, c)) })

/-- models the sheet arms of undo_redo.rs::apply_diff_list (redo, and remote diffs) -/
def applyRedo (s : State) : Diff → State
  | .deleteSheet idx _ =>
    let n := s.sheets.length
    if n = 1 ∨ idx ≥ n then s
    else selSheet { s with sheets := removeAt s.sheets idx } (afterDelete s.selected idx n)
  | .newSheet idx sid =>
    if s.sheets.any (fun x => x.sid == sid) ∨ idx > s.sheets.length then s
    else selSheet { s with sheets := insertAt s.sheets idx (Sheet.fresh sid) } idx
  | .duplicateSheet src new =>
    match s.sheets[src]? with
    | none => s
    | some sh =>
      selSheet { s with sheets := insertAt s.sheets (src + 1) { sh with sid := s.nextId },
                        nextId := s.nextId + 1 } new
  | .moveSheet frm to =>
    let n := s.sheets.length
    if frm ≥ n ∨ to ≥ n then s
    else if frm = to then selSheet s (afterMove s.selected frm to)
    else selSheet { s with sheets := moveList s.sheets frm to } (afterMove s.selected frm to)
  | .setState idx _ new =>
    { s with sheets := modifyAt s.sheets idx (fun x => { x with visible := new }) }
  | .setRowsHidden sheet olds new =>
    modSheet s sheet (fun x => { x with hidRows := olds.foldl (fun l p => setHid l p.1 new) x.hidRows })
  | .setColsHidden sheet olds new =>
    modSheet s sheet (fun x => { x with hidCols := olds.foldl (fun l p => setHid l p.1 new) x.hidCols })
  | .setCell sheet r c _ =>
    modSheet s sheet (fun x => { x with filled := if x.filled.contains (r, c) then x.filled else (r, c) :: x.filled })

/-- models common.rs::undo + history.rs::History::undo -/
def undo (s : State) : State :=
  match s.undo with
  | [] => s
  | d :: rest => applyUndo { s with undo := rest, redo := d :: s.redo } d

/-- models common.rs::redo + history.rs::History::redo -/
def redo (s : State) : State :=
  match s.redo with
  | [] => s
  | d :: rest => applyRedo { s with redo := rest, undo := d :: s.undo } d

def step (s : State) : Cmd → State
  | .selSheet i => selSheet s i
  | .selCell r c => selCell s r c
  | .selRange r1 c1 r2 c2 => selRange s r1 c1 r2 c2
  | .arrow d => arrow s d
  | .area r c => area s r c
  | .newSheet => newSheet s
  | .dupSheet i => dupSheet s i
  | .delSheet i => delSheet s i
  | .hideSheet i => hideSheet s i
  | .unhideSheet i => unhideSheet s i
  | .moveSheet f t => moveSheet s f t
  | .undo => undo s
  | .redo => redo s
  | .setTopLeft r c => setTopLeft s r c
  | .setWinW w => { s with winW := w }
  | .setWinH h => { s with winH := h }
  | .pageDown => pageDown s
  | .pageUp => pageUp s
  | .edge d => edge s d
  | .expand d => expand s d
  | .hideRows sheet a b h => hideRows s sheet a b h
  | .hideCols sheet a b h => hideCols s sheet a b h
  | .input sheet r c => input s sheet r c

def run (s : State) (cmds : List Cmd) : State := cmds.foldl step s

/-! ### the invariant -/

/-- the selected cell and range of one sheet: inside the grid, cell inside the rectangle spanned
    by the range corners -/
def viewOK (v : View) : Bool :=
  validRow v.row && validCol v.col && validRow v.r1 && validCol v.c1 && validRow v.r2 && validCol v.c2
  && decide (min v.r1 v.r2 ≤ v.row) && decide (v.row ≤ max v.r1 v.r2)
  && decide (min v.c1 v.c2 ≤ v.col) && decide (v.col ≤ max v.c1 v.c2)

/-- what keeps the undo / redo arms safe: a recorded new sheet is never at index 0 and a recorded
    copy sits right after its source (true of every diff the user operations push) -/
def diffOK : Diff → Bool
  | .newSheet idx _ => decide (idx ≥ 1)
  | .duplicateSheet src new => decide (new = src + 1)
  | _ => true

/-- **the C28 invariant** (as a check): the selected sheet exists, and in every sheet the selected
    cell lies in the selected range and both lie in the grid; plus the shape of recorded diffs -/
def selInvB (s : State) : Bool :=
  decide (s.selected < s.sheets.length) && s.sheets.all (fun sh => viewOK sh.view)
  && s.undo.all diffOK && s.redo.all diffOK

def SelInv (s : State) : Prop := selInvB s = true

/-- the part of the property about the selected sheet index alone -/
def sheetInvB (s : State) : Bool :=
  decide (s.selected < s.sheets.length) && s.undo.all diffOK && s.redo.all diffOK

def SheetInv (s : State) : Prop := sheetInvB s = true

/-- the commands outside which `on_area_selecting` breaks the cell-in-range clause: the target must
    be in the grid and the selected cell must lie between the range start and the target -/
def cmdOK (s : State) : Cmd → Bool
  | .area r c =>
    match s.sheets[s.selected]? with
    | none => true
    | some sh => viewOK { sh.view with r2 := r, c2 := c }
  | _ => true

end IronCalc.Selection
