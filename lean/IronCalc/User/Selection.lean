/-
  C28 — model of the selection: base/src/user_model/ui.rs (setters, arrow keys, area selecting) and the
  selection side effects of the sheet operations in base/src/user_model/common.rs (`new_sheet`,
  `duplicate_sheet`, `delete_sheet`, `hide_sheet`, `unhide_sheet`, `move_sheet`) and of their undo /
  redo arms in base/src/user_model/undo_redo.rs (`NewSheet`, `DeleteSheet`, `DuplicateSheet`,
  `MoveSheet`, `SetSheetState`), including the history stacks of base/src/user_model/history.rs.

  The model is of the code *after* the `fix:` commit for F28a (`selected_sheet_after_delete`); the
  pinned behaviour is kept as `afterDeletePinned` for the negation theorem.  Not modelled: scrolling
  (`top_row`, `left_column`, pixel geometry), page up/down, navigate-to-edge, keyboard range expansion
  (they are covered by the oracle-only suite `c28-nav`), cell contents.
-/
namespace IronCalc.Selection

def LAST_ROW : Int := 1048576
def LAST_COLUMN : Int := 16384

/-- models base/src/expressions/utils/mod.rs::is_valid_row -/
def validRow (r : Int) : Bool := decide (1 ≤ r) && decide (r ≤ LAST_ROW)
/-- models base/src/expressions/utils/mod.rs::is_valid_column_number -/
def validCol (c : Int) : Bool := decide (1 ≤ c) && decide (c ≤ LAST_COLUMN)

/-- `WorksheetView`: selected cell and range `[r1, c1, r2, c2]` -/
structure View where
  row : Int
  col : Int
  r1 : Int
  c1 : Int
  r2 : Int
  c2 : Int
deriving DecidableEq, Repr

/-- the view of a fresh worksheet (base/src/new_empty.rs::new_empty_worksheet) -/
def View.default : View := ⟨1, 1, 1, 1, 1, 1⟩

structure Sheet where
  /-- identity (stands for the sheet name / id; never compared with the implementation) -/
  sid : Nat
  visible : Bool
  view : View
  hidRows : List Int
  hidCols : List Int
deriving DecidableEq, Repr

/-- the sheet-structure diffs of base/src/user_model/history.rs::Diff -/
inductive Diff where
  | newSheet (index : Nat) (sid : Nat)
  | deleteSheet (index : Nat) (old : Sheet)
  | duplicateSheet (src new : Nat)
  | moveSheet (frm to : Nat)
  | setState (index : Nat) (old new : Bool)
deriving DecidableEq, Repr

structure State where
  selected : Nat
  sheets : List Sheet
  undo : List Diff
  redo : List Diff
  nextId : Nat
deriving Repr

def State.init : State := ⟨0, [⟨0, true, View.default, [], []⟩], [], [], 1⟩

inductive Dir where | left | right | up | down
deriving DecidableEq, Repr

inductive Cmd where
  | selSheet (i : Nat)
  | selCell (r c : Int)
  | selRange (r1 c1 r2 c2 : Int)
  | arrow (d : Dir)
  | area (r c : Int)
  | newSheet
  | dupSheet (i : Nat)
  | delSheet (i : Nat)
  | hideSheet (i : Nat)
  | unhideSheet (i : Nat)
  | moveSheet (frm to : Nat)
  | undo
  | redo
deriving DecidableEq, Repr

/-! ### index arithmetic -/

/-- models base/src/user_model/common.rs::selected_sheet_after_move -/
def afterMove (selected frm to : Nat) : Nat :=
  if selected = frm then to
  else
    let afterRemove := if selected > frm then selected - 1 else selected
    if afterRemove ≥ to then afterRemove + 1 else afterRemove

/-- models base/src/user_model/common.rs::selected_sheet_after_delete (the F28a repair) -/
def afterDelete (selected deleted count : Nat) : Nat :=
  if selected > deleted ∨ (selected = deleted ∧ selected + 1 ≥ count) then selected - 1 else selected

/-- the pinned tree's `delete_sheet`: the selection moves only when the *last* sheet is deleted -/
def afterDeletePinned (selected deleted count : Nat) : Nat :=
  if deleted = count - 1 ∧ count > 1 then count - 2 else selected

/-! ### list surgery (Vec::remove / Vec::insert) -/

def removeAt (l : List Sheet) (i : Nat) : List Sheet := l.take i ++ l.drop (i + 1)
def insertAt (l : List Sheet) (i : Nat) (s : Sheet) : List Sheet := l.take i ++ s :: l.drop i

def modifyAt (l : List Sheet) (i : Nat) (f : Sheet → Sheet) : List Sheet :=
  match l, i with
  | [], _ => []
  | s :: t, 0 => f s :: t
  | s :: t, i + 1 => s :: modifyAt t i f

/-! ### setters of ui.rs -/

/-- models ui.rs::set_selected_sheet (validated; an invalid index changes nothing) -/
def selSheet (s : State) (i : Nat) : State :=
  if i < s.sheets.length then { s with selected := i } else s

def setView (s : State) (v : View) : State :=
  { s with sheets := modifyAt s.sheets s.selected (fun sh => { sh with view := v }) }

/-- models ui.rs::set_selected_cell -/
def selCell (s : State) (r c : Int) : State :=
  if validCol c && validRow r then
    match s.sheets[s.selected]? with
    | some _ => setView s ⟨r, c, r, c, r, c⟩
    | none => s
  else s

/-- models ui.rs::set_selected_range: the four coordinates are validated; the selected cell must
    be on a corner (on one edge for full-row / full-column ranges) -/
def selRange (s : State) (r1 c1 r2 c2 : Int) : State :=
  if validCol c1 && validRow r1 && validCol c2 && validRow r2 then
    match s.sheets[s.selected]? with
    | some sh =>
      let v := sh.view
      let ok :=
        if r1 = 1 ∧ r2 = LAST_ROW then decide (v.col = c1 ∨ v.col = c2)
        else if c1 = 1 ∧ c2 = LAST_COLUMN then decide (v.row = r1 ∨ v.row = r2)
        else decide (v.row = r1 ∨ v.row = r2) && decide (v.col = c1 ∨ v.col = c2)
      if ok then setView s { v with r1 := r1, c1 := c1, r2 := r2, c2 := c2 } else s
    | none => s
  else s

/-- the `while` loops of the arrow keys: step over hidden rows / columns, at most `fuel` times,
    while `start` stays inside `1 ..= last` -/
def skipHidden (hid : List Int) (last step : Int) : Nat → Int → Int
  | 0, x => x
  | fuel + 1, x =>
    if 1 ≤ x ∧ x ≤ last ∧ hid.contains x then skipHidden hid last step fuel (x + step) else x

/-- the row / column an arrow key lands on (before the validity check) -/
def arrowTarget (sh : Sheet) (d : Dir) : Int :=
  match d with
  | .right => skipHidden sh.hidCols LAST_COLUMN 1 16385 (sh.view.col + 1)
  | .left => skipHidden sh.hidCols LAST_COLUMN (-1) 16385 (sh.view.col - 1)
  | .down => skipHidden sh.hidRows LAST_ROW 1 1048577 (sh.view.row + 1)
  | .up => skipHidden sh.hidRows LAST_ROW (-1) 1048577 (sh.view.row - 1)

def Dir.horizontal : Dir → Bool
  | .left | .right => true
  | _ => false

/-- models ui.rs::on_arrow_right / on_arrow_left / on_arrow_up / on_arrow_down (selection part) -/
def arrow (s : State) (d : Dir) : State :=
  match s.sheets[s.selected]? with
  | none => s
  | some sh =>
    let v := sh.view
    let x := arrowTarget sh d
    if d.horizontal then
      if validCol x then setView s { v with col := x, r1 := v.row, c1 := x, r2 := v.row, c2 := x } else s
    else
      if validRow x then setView s { v with row := x, r1 := x, c1 := v.col, r2 := x, c2 := v.col } else s

/-- models ui.rs::on_area_selecting (selection part): the range keeps its *start* and ends at the
    target; neither the target nor the position of the selected cell is checked.  (Targets beyond
    the last row / column make the scrolling loops fail before anything is written; the harness
    sends in-grid targets to the modelled suite.) -/
def area (s : State) (r c : Int) : State :=
  match s.sheets[s.selected]? with
  | none => s
  | some sh => setView s { sh.view with r2 := r, c2 := c }

/-! ### sheet operations of common.rs -/

def push (s : State) (d : Diff) : State := { s with undo := d :: s.undo, redo := [] }

/-- models common.rs::new_sheet -/
def newSheet (s : State) : State :=
  let n := s.sheets.length
  let s1 := { s with sheets := s.sheets ++ [⟨s.nextId, true, View.default, [], []⟩], nextId := s.nextId + 1 }
  push (selSheet s1 n) (.newSheet n s.nextId)

/-- models common.rs::duplicate_sheet (the copy is a clone: same view and state) -/
def dupSheet (s : State) (i : Nat) : State :=
  match s.sheets[i]? with
  | none => s
  | some sh =>
    let s1 := { s with sheets := insertAt s.sheets (i + 1) { sh with sid := s.nextId }, nextId := s.nextId + 1 }
    push (selSheet s1 (i + 1)) (.duplicateSheet i (i + 1))

/-- models common.rs::delete_sheet.  The diff is pushed before `Model::delete_sheet` can refuse to
    delete the only sheet (that push is F04's business, kept here for faithfulness). -/
def delSheet (s : State) (i : Nat) : State :=
  match s.sheets[i]? with
  | none => s
  | some sh =>
    let n := s.sheets.length
    let s1 := push s (.deleteSheet i sh)
    -- after fix F04a–h the only sheet cannot be deleted and the failing call records nothing
    if n > 1 then
      { s1 with selected := afterDelete s.selected i n, sheets := removeAt s.sheets i }
    else s

/-- the scan of common.rs::hide_sheet for the next visible sheet: `(i + k) % n` for `k = 1 .. n-1` -/
def nextVisible (sheets : List Sheet) (i n : Nat) : Nat → Nat → Option Nat
  | 0, _ => none
  | fuel + 1, k =>
    if k < n then
      match sheets[(i + k) % n]? with
      | some sh => if sh.visible then some ((i + k) % n) else nextVisible sheets i n fuel (k + 1)
      | none => nextVisible sheets i n fuel (k + 1)
    else none

/-- the selection part of common.rs::hide_sheet -/
def hideSel (s : State) (i : Nat) : State :=
  match nextVisible s.sheets i s.sheets.length s.sheets.length 1 with
  | some j => { s with selected := j }
  | none => s

/-- models common.rs::hide_sheet (after fix F04a–h: the index is validated first, a failing
    call changes nothing; then the selection moves to the next visible sheet) -/
def hideSheet (s : State) (i : Nat) : State :=
  let s1 := hideSel s i
  match s.sheets[i]? with
  | none => s
  | some sh =>
    { push s1 (.setState i sh.visible false) with
      sheets := modifyAt s1.sheets i (fun x => { x with visible := false }) }

/-- models common.rs::unhide_sheet -/
def unhideSheet (s : State) (i : Nat) : State :=
  match s.sheets[i]? with
  | none => s
  | some sh =>
    { push s (.setState i sh.visible true) with
      sheets := modifyAt s.sheets i (fun x => { x with visible := true }) }

/-- `Model::move_sheet` on the list -/
def moveList (l : List Sheet) (frm to : Nat) : List Sheet :=
  match l[frm]? with
  | some sh => insertAt (removeAt l frm) to sh
  | none => l

/-- models common.rs::move_sheet -/
def moveSheet (s : State) (frm to : Nat) : State :=
  let n := s.sheets.length
  if frm ≥ n ∨ to ≥ n ∨ frm = to then s
  else
    let s1 := { s with sheets := moveList s.sheets frm to }
    push (selSheet s1 (afterMove s.selected frm to)) (.moveSheet frm to)

/-! ### undo / redo arms of undo_redo.rs -/

/-- models the sheet arms of undo_redo.rs::apply_undo_diff_list; an `Err` of a model call (`?`) leaves
    the rest of the arm undone -/
def applyUndo (s : State) : Diff → State
  | .newSheet idx _ =>
    let n := s.sheets.length
    if n = 1 ∨ idx ≥ n then s
    else
      let s1 := { s with sheets := removeAt s.sheets idx }
      if idx > 0 then selSheet s1 (idx - 1) else s1
  | .duplicateSheet src new =>
    let n := s.sheets.length
    if new ≥ n ∨ n = 1 then s
    else selSheet { s with sheets := removeAt s.sheets new } src
  | .moveSheet frm to =>
    let n := s.sheets.length
    if to ≥ n ∨ frm ≥ n then s
    else if to = frm then selSheet s (afterMove s.selected to frm)
    else selSheet { s with sheets := moveList s.sheets to frm } (afterMove s.selected to frm)
  | .setState idx old _ =>
    { s with sheets := modifyAt s.sheets idx (fun x => { x with visible := old }) }
  | .deleteSheet idx old =>
    -- insert_sheet fails when the name is taken or the index is out of range
    if s.sheets.any (fun x => x.sid == old.sid) ∨ idx > s.sheets.length then s
    else
      selSheet { s with sheets := insertAt s.sheets idx { old with view := View.default } } idx

/-- models the sheet arms of undo_redo.rs::apply_diff_list (redo, and remote diffs) -/
def applyRedo (s : State) : Diff → State
  | .deleteSheet idx _ =>
    let n := s.sheets.length
    if n = 1 ∨ idx ≥ n then s
    else selSheet { s with sheets := removeAt s.sheets idx } (afterDelete s.selected idx n)
  | .newSheet idx sid =>
    if s.sheets.any (fun x => x.sid == sid) ∨ idx > s.sheets.length then s
    else selSheet { s with sheets := insertAt s.sheets idx ⟨sid, true, View.default, [], []⟩ } idx
  | .duplicateSheet src new =>
    match s.sheets[src]? with
    | none => s
    | some sh =>
      selSheet { s with sheets := insertAt s.sheets (src + 1) { sh with sid := s.nextId },
                        nextId := s.nextId + 1 } new
  | .moveSheet frm to =>
    let n := s.sheets.length
    if frm ≥ n ∨ to ≥ n then s
    else if frm = to then selSheet s (afterMove s.selected frm to)
    else selSheet { s with sheets := moveList s.sheets frm to } (afterMove s.selected frm to)
  | .setState idx _ new =>
    { s with sheets := modifyAt s.sheets idx (fun x => { x with visible := new }) }

/-- models common.rs::undo + history.rs::History::undo -/
def undo (s : State) : State :=
  match s.undo with
  | [] => s
  | d :: rest => applyUndo { s with undo := rest, redo := d :: s.redo } d

/-- models common.rs::redo + history.rs::History::redo -/
def redo (s : State) : State :=
  match s.redo with
  | [] => s
  | d :: rest => applyRedo { s with redo := rest, undo := d :: s.undo } d

def step (s : State) : Cmd → State
  | .selSheet i => selSheet s i
  | .selCell r c => selCell s r c
  | .selRange r1 c1 r2 c2 => selRange s r1 c1 r2 c2
  | .arrow d => arrow s d
  | .area r c => area s r c
  | .newSheet => newSheet s
  | .dupSheet i => dupSheet s i
  | .delSheet i => delSheet s i
  | .hideSheet i => hideSheet s i
  | .unhideSheet i => unhideSheet s i
  | .moveSheet f t => moveSheet s f t
  | .undo => undo s
  | .redo => redo s

def run (s : State) (cmds : List Cmd) : State := cmds.foldl step s

/-! ### the invariant -/

/-- the selected cell and range of one sheet: inside the grid, cell inside the rectangle spanned
    by the range corners -/
def viewOK (v : View) : Bool :=
  validRow v.row && validCol v.col && validRow v.r1 && validCol v.c1 && validRow v.r2 && validCol v.c2
  && decide (min v.r1 v.r2 ≤ v.row) && decide (v.row ≤ max v.r1 v.r2)
  && decide (min v.c1 v.c2 ≤ v.col) && decide (v.col ≤ max v.c1 v.c2)

/-- what keeps the undo / redo arms safe: a recorded new sheet is never at index 0 and a recorded
    copy sits right after its source (true of every diff the user operations push) -/
def diffOK : Diff → Bool
  | .newSheet idx _ => decide (idx ≥ 1)
  | .duplicateSheet src new => decide (new = src + 1)
  | _ => true

/-- **the C28 invariant** (as a check): the selected sheet exists, and in every sheet the selected
    cell lies in the selected range and both lie in the grid; plus the shape of recorded diffs -/
def selInvB (s : State) : Bool :=
  decide (s.selected < s.sheets.length) && s.sheets.all (fun sh => viewOK sh.view)
  && s.undo.all diffOK && s.redo.all diffOK

def SelInv (s : State) : Prop := selInvB s = true

/-- the part of the property about the selected sheet index alone -/
def sheetInvB (s : State) : Bool :=
  decide (s.selected < s.sheets.length) && s.undo.all diffOK && s.redo.all diffOK

def SheetInv (s : State) : Prop := sheetInvB s = true

/-- the commands outside which `on_area_selecting` breaks the cell-in-range clause: the target must
    be in the grid and the selected cell must lie between the range start and the target -/
def cmdOK (s : State) : Cmd → Bool
  | .area r c =>
    match s.sheets[s.selected]? with
    | none => true
    | some sh => viewOK { sh.view with r2 := r, c2 := c }
  | _ => true

end IronCalc.Selection
