import IronCalc.User.Diffs
/-
  C27 on the attribute model: the well-formedness predicate `WFBook`, clause by clause as far as
  the attribute model can express the property text:
    * sheet names are valid (`is_valid_sheet_name`) and unique ignoring case,
    * sheet ids are unique,
    * there is at least one sheet,
    * every defined name's `sheet_id` is the id of an existing sheet.
  (cells in grid, indices in range, column descriptors sorted/disjoint, rows unique and the spill
  invariant are checked on the implementation by `harness/src/suites/um.rs::wf_check`.)
-/
namespace IronCalc.User

def distinct {α : Type} [DecidableEq α] : List α → Bool
  | [] => true
  | x :: xs => !xs.contains x && distinct xs

def namesValid (b : Book) : Bool := b.sheets.all fun s => isValidSheetName s.name
def namesUnique (env : Env) (b : Book) : Bool := distinct (b.sheets.map fun s => env.upper s.name)
def idsUnique (b : Book) : Bool := distinct (b.sheets.map fun s => s.id)
def namesScoped (b : Book) : Bool :=
  b.names.all fun d => match d.sheetId with
    | none => true
    | some i => (b.sheets.map fun s => s.id).contains i

def WFBook (env : Env) (b : Book) : Bool :=
  !b.sheets.isEmpty && namesValid b && namesUnique env b && idsUnique b && namesScoped b

/-- the part of a sheet the predicate looks at -/
def sheetKeys (b : Book) : List (String × Nat) := b.sheets.map fun s => (s.name, s.id)

end IronCalc.User
