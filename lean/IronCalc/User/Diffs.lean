import IronCalc.User.History
/-
  The CONCRETE instance of the history machine on a small but real workbook model: the attribute
  operations of `base/src/user_model/common.rs` and their `Diff` constructors
  (`base/src/user_model/history.rs`), with the replay arms of
  `base/src/user_model/undo_redo.rs::{apply_diff_list, apply_undo_diff_list}`.

  Every user-level operation is written in the order the (repaired, see notes/C04.md) code
  performs  read old value / call the fallible model function / push the diff list.
  The order of the pinned tree (push BEFORE the fallible call) is kept as `…Pinned` for the
  operations where it differed, so that the defect stays visible (`Props/C04.lean`).

  Column and row descriptors: this model keeps, per sheet, the per-column / per-row VIEW
  (`colAt : Int → ColView`), i.e. what `get_column_width`/`is_column_hidden`/`get_column_style`
  answer.  `set_column_width_and_style` (descriptor list surgery in `worksheet.rs`) acts on these
  first-match lookups as the point update used here, whatever the descriptor layout; that step is
  argued in notes/C02.md and exercised by the tie, not proved in Lean.

  NOT modelled here (covered by the implementation-level oracles only): cell contents and styles,
  structural edits, named styles, conditional formats, links, clipboard, autofill, theme,
  duplicate/move sheet, defined-name formula rewriting on rename.
-/
namespace IronCalc.User

def LAST_ROW : Int := 1048576
def LAST_COLUMN : Int := 16384
/-- `constants.rs::DEFAULT_COLUMN_WIDTH` (pixels) -/
def DEFAULT_COLUMN_WIDTH : Int := 90
/-- `constants.rs::DEFAULT_ROW_HEIGHT` (pixels) -/
def DEFAULT_ROW_HEIGHT : Int := 25

/-- `types.rs::SheetState` -/
inductive SheetState where
  | visible | hidden | veryHidden
  deriving DecidableEq, Repr, Inhabited

/-- what `get_actual_column_width` / `is_column_hidden` / `get_column_style` answer for a column.
    Widths are pixel values; `width / COLUMN_WIDTH_FACTOR * COLUMN_WIDTH_FACTOR = width` is assumed
    (checked by the tie on the generated values). -/
structure ColView where
  width : Int
  hidden : Bool
  style : Option Nat
  deriving DecidableEq, Repr

/-- what `row_height` (ignoring hidden) / `is_row_hidden` / the row style answer for a row -/
structure RowView where
  height : Int
  hidden : Bool
  s : Nat
  deriving DecidableEq, Repr

def ColView.default : ColView := ⟨DEFAULT_COLUMN_WIDTH, false, none⟩
def RowView.default : RowView := ⟨DEFAULT_ROW_HEIGHT, false, 0⟩

/-- `types.rs::Worksheet`, attribute part -/
structure Sheet where
  name : String
  id : Nat
  state : SheetState
  /-- tab colour, as the text of `Color` (`""` = `Color::None`) -/
  color : String
  frozenRows : Int
  frozenCols : Int
  grid : Bool
  colAt : Int → ColView
  rowAt : Int → RowView
  /-- `Worksheet.links`: (row, column, target) — no modelled operation creates one, but
      `delete_sheet` and its undo carry them along (the undo restores them since the fix of F01d) -/
  links : List (Int × Int × String) := []
  /-- plain cell contents (text a user typed that implies no format); `none` = no cell, or an empty
      cell: the two are not distinguished here, as in the observable snapshot -/
  cellAt : Int → Int → Option String := fun _ _ => none

/-- `types.rs::DefinedName` (the formula is an opaque text here) -/
structure DefName where
  name : String
  formula : String
  sheetId : Option Nat
  deriving DecidableEq, Repr

/-- `types.rs::Workbook`, attribute part -/
structure Book where
  sheets : List Sheet
  names : List DefName
  name : String
  locale : String
  tz : String

/-- error classes (the message text is not compared) -/
inductive Err where
  | invalidSheet | invalidColumn | invalidRow | negative | tooMany
  | invalidTz | invalidLocale | invalidName | duplicateName | onlySheet | indexRange
  deriving DecidableEq, Repr, Inhabited

/-- the parts of the environment the model does not look into -/
structure Env where
  /-- `Tz::parse(tz).is_ok()` -/
  validTz : String → Bool
  /-- `get_locale(id).is_ok()` -/
  validLocale : String → Bool
  /-- `str::to_uppercase` -/
  upper : String → String

/-- `history.rs::Diff`, the modelled constructors -/
inductive Diff where
  | setWorkbookName (old new : String)
  | setTimezone (old new : String)
  | setLocale (old new : String)
  | setFrozenRows (sheet : Nat) (old new : Int)
  | setFrozenCols (sheet : Nat) (old new : Int)
  | setShowGridLines (sheet : Nat) (old new : Bool)
  | setSheetColor (index : Nat) (old new : String)
  | setSheetState (index : Nat) (old new : SheetState)
  | renameSheet (index : Nat) (old new : String)
  | newSheet (index : Nat) (name : String)
  | deleteSheet (sheet : Nat) (oldData : Sheet)
  | deleteDefinedName (name : String) (scope : Nat) (old : String)
  | setColumnWidth (sheet : Nat) (column : Int) (old new : Int)
  | setRowHeight (sheet : Nat) (row : Int) (old new : Int)
  | setColumnHidden (sheet : Nat) (column : Int) (old new : Bool)
  | setRowHidden (sheet : Nat) (row : Int) (old new : Bool)
  | moveRows (sheet : Nat) (row : Int) (rowCount : Int) (delta : Int)
  | moveColumns (sheet : Nat) (column : Int) (columnCount : Int) (delta : Int)
  | setCellValue (sheet : Nat) (row column : Int) (old : Option String) (new : String)
  | rangeClearContents (sheet : Nat) (row column width height : Int) (old : Int → Int → Option String)

/-- the modelled `pub fn`s of `UserModel` -/
inductive Op where
  | setName (name : String)
  | setTimezone (tz : String)
  | setLocale (locale : String)
  | setFrozenRows (sheet : Nat) (n : Int)
  | setFrozenCols (sheet : Nat) (n : Int)
  | setShowGridLines (sheet : Nat) (v : Bool)
  | setSheetColor (sheet : Nat) (color : String)
  | hideSheet (sheet : Nat)
  | unhideSheet (sheet : Nat)
  | renameSheet (sheet : Nat) (name : String)
  | newSheet
  | deleteSheet (sheet : Nat)
  | setColumnsWidth (sheet : Nat) (c1 c2 : Int) (width : Int)
  | setRowsHeight (sheet : Nat) (r1 r2 : Int) (height : Int)
  | setColumnsHidden (sheet : Nat) (c1 c2 : Int) (hidden : Bool)
  | setRowsHidden (sheet : Nat) (r1 r2 : Int) (hidden : Bool)
  | moveRows (sheet : Nat) (row : Int) (rowCount : Int) (delta : Int)
  | moveColumns (sheet : Nat) (column : Int) (columnCount : Int) (delta : Int)
  | setPlainInput (sheet : Nat) (row column : Int) (text : String)
  | rangeClearContents (sheet : Nat) (row column width height : Int)
  deriving Repr

abbrev Out := OpOut Book Diff Err

def upd {α : Type} (f : Int → α) (k : Int) (v : α) : Int → α := fun x => if x = k then v else f x

def validCol (c : Int) : Bool := decide (1 ≤ c) && decide (c ≤ LAST_COLUMN)
def validRow (r : Int) : Bool := decide (1 ≤ r) && decide (r ≤ LAST_ROW)

/-- `Workbook::worksheet(i)` -/
def getSheet (b : Book) (i : Nat) : Except Err Sheet :=
  match b.sheets[i]? with
  | some s => .ok s
  | none => .error .invalidSheet

def setSheet (b : Book) (i : Nat) (s : Sheet) : Book := { b with sheets := b.sheets.set i s }

/-- models `new_empty.rs::new_empty_worksheet` -/
def emptySheet (name : String) (id : Nat) : Sheet :=
  { name := name, id := id, state := .visible, color := "", frozenRows := 0, frozenCols := 0,
    grid := true, colAt := fun _ => ColView.default, rowAt := fun _ => RowView.default,
    links := [], cellAt := fun _ _ => none }

/-! ### model-level functions (`model.rs`, `new_empty.rs`, `worksheet.rs`) -/

/-- models `model.rs::set_timezone` -/
def mSetTimezone (env : Env) (b : Book) (tz : String) : Except Err Book :=
  if env.validTz tz then .ok { b with tz := tz } else .error .invalidTz

/-- models `model.rs::set_locale` -/
def mSetLocale (env : Env) (b : Book) (l : String) : Except Err Book :=
  if env.validLocale l then .ok { b with locale := l } else .error .invalidLocale

/-- models `model.rs::set_frozen_rows` -/
def mSetFrozenRows (b : Book) (sheet : Nat) (n : Int) : Except Err Book :=
  match getSheet b sheet with
  | .error e => .error e
  | .ok s =>
    if n < 0 then .error .negative
    else if n ≥ LAST_ROW then .error .tooMany
    else .ok (setSheet b sheet { s with frozenRows := n })

/-- models `model.rs::set_frozen_columns` -/
def mSetFrozenCols (b : Book) (sheet : Nat) (n : Int) : Except Err Book :=
  match getSheet b sheet with
  | .error e => .error e
  | .ok s =>
    if n < 0 then .error .negative
    else if n ≥ LAST_COLUMN then .error .tooMany
    else .ok (setSheet b sheet { s with frozenCols := n })

/-- models `model.rs::set_show_grid_lines` -/
def mSetShowGridLines (b : Book) (sheet : Nat) (v : Bool) : Except Err Book :=
  match getSheet b sheet with
  | .error e => .error e
  | .ok s => .ok (setSheet b sheet { s with grid := v })

/-- models `model.rs::set_sheet_color` -/
def mSetSheetColor (b : Book) (sheet : Nat) (c : String) : Except Err Book :=
  match getSheet b sheet with
  | .error e => .error e
  | .ok s => .ok (setSheet b sheet { s with color := c })

/-- models `model.rs::set_sheet_state` -/
def mSetSheetState (b : Book) (sheet : Nat) (st : SheetState) : Except Err Book :=
  match getSheet b sheet with
  | .error e => .error e
  | .ok s => .ok (setSheet b sheet { s with state := st })

/-- models `new_empty.rs::is_valid_sheet_name` -/
def isValidSheetName (name : String) : Bool :=
  !name.isEmpty && decide (name.length ≤ 31) &&
    !(name.toList.any fun c => c == '\\' || c == '/' || c == '*' || c == '?' || c == ':' ||
      c == '[' || c == ']')

/-- models `model.rs::get_sheet_index_by_name` (first sheet whose upper-cased name matches) -/
def sheetIndexByName (env : Env) (b : Book) (name : String) : Option Nat :=
  b.sheets.findIdx? fun s => env.upper s.name == env.upper name

/-- models `new_empty.rs::rename_sheet_by_index` (the rewriting of formulas is not modelled) -/
def mRenameSheet (env : Env) (b : Book) (sheet : Nat) (name : String) : Except Err Book :=
  if !isValidSheetName name then .error .invalidName
  else
    match sheetIndexByName env b name with
    | some j => if j ≠ sheet then .error .duplicateName else
        match getSheet b sheet with
        | .error e => .error e
        | .ok s => .ok (setSheet b sheet { s with name := name })
    | none =>
      match getSheet b sheet with
      | .error e => .error e
      | .ok s => .ok (setSheet b sheet { s with name := name })

/-- models `new_empty.rs::get_new_sheet_id`: `max(1, ids…) + 1` -/
def newSheetId (b : Book) : Nat := (b.sheets.foldl (fun m s => max m s.id) 1) + 1

/-- is there a sheet whose upper-cased name equals the upper-cased `base ++ index`?
    (`new_sheet` upper-cases the base name but not the digits, which have no case) -/
def nameTaken (env : Env) (b : Book) (n : String) : Bool :=
  b.sheets.any fun s => env.upper s.name == env.upper n

/-- the `while` loop of `new_empty.rs::new_sheet`: smallest index ≥ `i` whose name is free
    (`fuel` bounds the search; `sheets.length + 1` candidates always contain a free one) -/
def freeSheetIndex (env : Env) (b : Book) : Nat → Nat → Nat
  | 0, i => i
  | fuel + 1, i => if nameTaken env b s!"Sheet{i}" then freeSheetIndex env b fuel (i + 1) else i

/-- models `new_empty.rs::new_sheet` (language `en`): returns the book, the name and the index -/
def mNewSheet (env : Env) (b : Book) : Book × String × Nat :=
  let name := s!"Sheet{freeSheetIndex env b (b.sheets.length + 1) 1}"
  ({ b with sheets := b.sheets ++ [emptySheet name (newSheetId b)] }, name, b.sheets.length)

/-- models `new_empty.rs::insert_sheet` -/
def mInsertSheet (env : Env) (b : Book) (name : String) (index : Nat) (id : Option Nat) :
    Except Err Book :=
  if !isValidSheetName name then .error .invalidName
  else if nameTaken env b name then .error .duplicateName
  else if index > b.sheets.length then .error .indexRange
  else
    let sid := match id with
      | some i => i
      | none => newSheetId b
    .ok { b with sheets := b.sheets.insertIdx index (emptySheet name sid) }

/-- the defined names that are not local to the sheet with that id -/
def namesNotOf (names : List DefName) (sid : Option Nat) : List DefName :=
  names.filter fun d => d.sheetId != sid

/-- models `new_empty.rs::delete_sheet` (repaired, F27a: the names local to the sheet go with it) -/
def mDeleteSheet (b : Book) (index : Nat) : Except Err Book :=
  if b.sheets.length = 1 then .error .onlySheet
  else if index ≥ b.sheets.length then .error .indexRange
  else .ok { b with sheets := b.sheets.eraseIdx index,
                    names := namesNotOf b.names ((b.sheets[index]?).map (·.id)) }

/-- models `model.rs::delete_defined_name` for a sheet-local name, on the attribute model
    (the last entry with that spelling, ignoring case, and that sheet id) -/
def mDeleteDefinedName (env : Env) (b : Book) (name : String) (scope : Nat) : Except Err Book :=
  match b.sheets[scope]? with
  | none => .error .invalidSheet
  | some sh =>
    let hit := fun (d : DefName) => env.upper d.name == env.upper name && d.sheetId == some sh.id
    match (b.names.zipIdx.filter fun p => hit p.1).getLast? with
    | none => .error .invalidName
    | some p => .ok { b with names := b.names.eraseIdx p.2 }

/-- models `model.rs::new_defined_name` for a sheet-local name, on the attribute model (the
    identifier and formula checks passed when the name was first created) -/
def mNewDefinedName (env : Env) (b : Book) (name : String) (scope : Nat) (formula : String) : Except Err Book :=
  match b.sheets[scope]? with
  | none => .error .invalidSheet
  | some sh =>
    if b.names.any fun d => env.upper d.name == env.upper name && d.sheetId == some sh.id
    then .error .duplicateName
    else .ok { b with names := b.names ++ [⟨name, formula, some sh.id⟩] }

/-- models `worksheet.rs::get_actual_column_width` (the width the column has, hidden or not; the
    repaired `set_columns_width` records this one — the pinned tree recorded `get_column_width`,
    which is 0 for a hidden column: fixed finding F01c) -/
def mGetColumnWidth (b : Book) (sheet : Nat) (c : Int) : Except Err Int :=
  match getSheet b sheet with
  | .error e => .error e
  | .ok s =>
    if !validCol c then .error .invalidColumn
    else .ok (s.colAt c).width

/-- models `model.rs::set_column_width` → `worksheet.rs::set_column_width`
    (`set_column_width_and_style` with the column's current hidden flag and style) -/
def mSetColumnWidth (b : Book) (sheet : Nat) (c w : Int) : Except Err Book :=
  match getSheet b sheet with
  | .error e => .error e
  | .ok s =>
    if !validCol c then .error .invalidColumn
    else if w < 0 then .error .negative
    else .ok (setSheet b sheet { s with colAt := upd s.colAt c { s.colAt c with width := w } })

/-- models `worksheet.rs::is_column_hidden` -/
def mIsColumnHidden (b : Book) (sheet : Nat) (c : Int) : Except Err Bool :=
  match getSheet b sheet with
  | .error e => .error e
  | .ok s => if !validCol c then .error .invalidColumn else .ok (s.colAt c).hidden

/-- models `model.rs::set_column_hidden` → `worksheet.rs::set_column_hidden`
    (keeps the actual width and the style) -/
def mSetColumnHidden (b : Book) (sheet : Nat) (c : Int) (h : Bool) : Except Err Book :=
  match getSheet b sheet with
  | .error e => .error e
  | .ok s =>
    if !validCol c then .error .invalidColumn
    else .ok (setSheet b sheet { s with colAt := upd s.colAt c { s.colAt c with hidden := h } })

/-- models `worksheet.rs::get_actual_row_height` (recorded by the repaired `set_rows_height`) -/
def mGetRowHeight (b : Book) (sheet : Nat) (r : Int) : Except Err Int :=
  match getSheet b sheet with
  | .error e => .error e
  | .ok s =>
    if !validRow r then .error .invalidRow
    else .ok (s.rowAt r).height

/-- models `model.rs::set_row_height` → `worksheet.rs::set_row_height` -/
def mSetRowHeight (b : Book) (sheet : Nat) (r h : Int) : Except Err Book :=
  match getSheet b sheet with
  | .error e => .error e
  | .ok s =>
    if !validRow r then .error .invalidRow
    else if h < 0 then .error .negative
    else .ok (setSheet b sheet { s with rowAt := upd s.rowAt r { s.rowAt r with height := h } })

/-- models `worksheet.rs::is_row_hidden` -/
def mIsRowHidden (b : Book) (sheet : Nat) (r : Int) : Except Err Bool :=
  match getSheet b sheet with
  | .error e => .error e
  | .ok s => if !validRow r then .error .invalidRow else .ok (s.rowAt r).hidden

/-- models `model.rs::set_row_hidden` → `worksheet.rs::set_row_hidden` -/
def mSetRowHidden (b : Book) (sheet : Nat) (r : Int) (h : Bool) : Except Err Book :=
  match getSheet b sheet with
  | .error e => .error e
  | .ok s =>
    if !validRow r then .error .invalidRow
    else .ok (setSheet b sheet { s with rowAt := upd s.rowAt r { s.rowAt r with hidden := h } })

/-- the row-descriptor part of `actions.rs::move_row_unchecked`: row `row` goes to `row + delta`,
    the rows in between shift by one towards the vacated place; `rowSrc` says which old row ends up
    at position `x` -/
def rowSrc (row delta x : Int) : Int :=
  if x = row + delta then row
  else if 0 < delta ∧ row ≤ x ∧ x < row + delta then x + 1
  else if delta < 0 ∧ row + delta < x ∧ x ≤ row then x - 1
  else x

def moveRow1 {α : Type} (f : Int → α) (row delta : Int) : Int → α := fun x => f (rowSrc row delta x)

/-- the loop of `actions.rs::move_rows_action`: `n` rows starting at `row`, moved one by one —
    last row first when moving down (`.rev()`), first row first when moving up -/
def moveRowsLoop {α : Type} (delta : Int) : Nat → Int → (Int → α) → (Int → α)
  | 0, _, f => f
  | n + 1, row, f =>
    if 0 < delta then moveRowsLoop delta n row (moveRow1 f (row + n) delta)
    else moveRowsLoop delta n (row + 1) (moveRow1 f row delta)

/-- models `actions.rs::move_rows_action` on the row attributes (no cells in this model, so
    `can_move_rows_action` — which only looks at array formulas — holds) -/
def mMoveRows (b : Book) (sheet : Nat) (row count delta : Int) : Except Err Book :=
  if count ≤ 0 ∨ delta = 0 then .ok b
  else if !validRow (row + delta) || !validRow (row + count - 1 + delta) then .error .invalidRow
  else if !validRow row || !validRow (row + count - 1) then .error .invalidRow
  else
    match getSheet b sheet with
    | .error e => .error e
    | .ok s =>
      .ok (setSheet b sheet
        { s with
          rowAt := moveRowsLoop delta count.toNat row s.rowAt,
          cellAt := moveRowsLoop delta count.toNat row s.cellAt })

/-- the scan of `common.rs::move_rows_action` that skips hidden rows in the landing zone:
    `n` rows starting at `r`; `is_row_hidden` fails on a row outside the grid -/
def hiddenAdjust (s : Sheet) (step : Int) : Nat → Int → Int → Except Err Int
  | 0, _, acc => .ok acc
  | n + 1, r, acc =>
    if !validRow r then .error .invalidRow
    else hiddenAdjust s step n (r + 1) (if (s.rowAt r).hidden then acc + step else acc)

/-- models `actions.rs::move_columns_action` on the column attributes: the same permutation as for
    rows, applied to the per-column view (`move_column_unchecked` copies width / hidden / style from
    column to column with `set_column_width_and_style`) -/
def mMoveColumns (b : Book) (sheet : Nat) (column count delta : Int) : Except Err Book :=
  if count ≤ 0 ∨ delta = 0 then .ok b
  else if !validCol (column + delta) || !validCol (column + count - 1 + delta) then .error .invalidColumn
  else if !validCol column || !validCol (column + count - 1) then .error .invalidColumn
  else
    match getSheet b sheet with
    | .error e => .error e
    | .ok s =>
      .ok (setSheet b sheet
        { s with
          colAt := moveRowsLoop delta count.toNat column s.colAt,
          cellAt := fun r => moveRowsLoop delta count.toNat column (s.cellAt r) })

/-- the scan of `common.rs::move_columns_action` that skips hidden columns in the landing zone -/
def hiddenAdjustCols (s : Sheet) (step : Int) : Nat → Int → Int → Except Err Int
  | 0, _, acc => .ok acc
  | n + 1, c, acc =>
    if !validCol c then .error .invalidColumn
    else hiddenAdjustCols s step n (c + 1) (if (s.colAt c).hidden then acc + step else acc)

def upd2 (f : Int → Int → Option String) (r c : Int) (v : Option String) : Int → Int → Option String :=
  fun x y => if x = r ∧ y = c then v else f x y

def inArea (row column width height r c : Int) : Bool :=
  decide (row ≤ r) && decide (r < row + height) && decide (column ≤ c) && decide (c < column + width)

/-- models `model.rs::set_user_input` for a plain text (and `update_cell` / `remove_cell` of the
    undo arm): the cell holds `v`, `none` removes it -/
def mSetCell (b : Book) (sheet : Nat) (r c : Int) (v : Option String) : Except Err Book :=
  match getSheet b sheet with
  | .error e => .error e
  | .ok s =>
    if !validRow r then .error .invalidRow
    else if !validCol c then .error .invalidColumn
    else .ok (setSheet b sheet { s with cellAt := upd2 s.cellAt r c v })

/-- models `model.rs::range_clear_contents` on plain cells: every cell of the area is emptied -/
def mClearArea (b : Book) (sheet : Nat) (row column width height : Int) : Except Err Book :=
  match getSheet b sheet with
  | .error e => .error e
  | .ok s =>
    .ok (setSheet b sheet
      { s with cellAt := fun r c => if inArea row column width height r c then none else s.cellAt r c })

/-- models the `RangeClearContents` arm of `apply_undo_diff_list`: the saved cells that existed are
    written back (`update_cell`), the others are left alone -/
def mRestoreArea (b : Book) (sheet : Nat) (row column width height : Int)
    (old : Int → Int → Option String) : Except Err Book :=
  match getSheet b sheet with
  | .error e => .error e
  | .ok s =>
    .ok (setSheet b sheet
      { s with cellAt := fun r c =>
          if inArea row column width height r c && (old r c).isSome then old r c else s.cellAt r c })

/-! ### replay of one diff (`undo_redo.rs`) -/

/-- models one arm of `apply_diff_list` -/
def fwd1 (env : Env) (b : Book) : Diff → Except Err Book
  | .setWorkbookName _ new => .ok { b with name := new }
  | .setTimezone _ new => mSetTimezone env b new
  | .setLocale _ new => mSetLocale env b new
  | .setFrozenRows sheet _ new => mSetFrozenRows b sheet new
  | .setFrozenCols sheet _ new => mSetFrozenCols b sheet new
  | .setShowGridLines sheet _ new => mSetShowGridLines b sheet new
  | .setSheetColor i _ new => mSetSheetColor b i new
  | .setSheetState i _ new => mSetSheetState b i new
  | .renameSheet i _ new => mRenameSheet env b i new
  | .newSheet i name => mInsertSheet env b name i none
  | .deleteSheet i _ => mDeleteSheet b i
  | .deleteDefinedName name scope _ => mDeleteDefinedName env b name scope
  | .setColumnWidth sheet c _ new => mSetColumnWidth b sheet c new
  | .setRowHeight sheet r _ new => mSetRowHeight b sheet r new
  | .setColumnHidden sheet c _ new => mSetColumnHidden b sheet c new
  | .setRowHidden sheet r _ new => mSetRowHidden b sheet r new
  | .moveRows sheet row count delta => mMoveRows b sheet row count delta
  | .moveColumns sheet column count delta => mMoveColumns b sheet column count delta
  | .setCellValue sheet r c _ new => mSetCell b sheet r c (some new)
  | .rangeClearContents sheet r c w h _ => mClearArea b sheet r c w h

/-- models one arm of `apply_undo_diff_list` -/
def back1 (env : Env) (b : Book) : Diff → Except Err Book
  | .setWorkbookName old _ => .ok { b with name := old }
  | .setTimezone old _ => mSetTimezone env b old
  | .setLocale old _ => mSetLocale env b old
  | .setFrozenRows sheet old _ => mSetFrozenRows b sheet old
  | .setFrozenCols sheet old _ => mSetFrozenCols b sheet old
  | .setShowGridLines sheet old _ => mSetShowGridLines b sheet old
  | .setSheetColor i old _ => mSetSheetColor b i old
  | .setSheetState i old _ => mSetSheetState b i old
  | .renameSheet i old _ => mRenameSheet env b i old
  | .newSheet i _ => mDeleteSheet b i
  | .deleteSheet i old =>
    -- `insert_sheet(name, index, Some(sheet_id))`, then the fields the arm copies back:
    -- rows, cols, show_grid_lines, frozen_columns, frozen_rows, state, color, links
    -- (`links` and `conditional_formatting` since the fix of finding F01d)
    match mInsertSheet env b old.name i (some old.id) with
    | .error e => .error e
    | .ok b1 =>
      match getSheet b1 i with
      | .error e => .error e
      | .ok s =>
        .ok (setSheet b1 i
          { s with
            rowAt := old.rowAt, colAt := old.colAt,
            grid := old.grid, frozenCols := old.frozenCols, frozenRows := old.frozenRows,
            state := old.state, color := old.color, links := old.links, cellAt := old.cellAt })
  | .deleteDefinedName name scope old => mNewDefinedName env b name scope old
  | .setColumnWidth sheet c old _ => mSetColumnWidth b sheet c old
  | .setRowHeight sheet r old _ => mSetRowHeight b sheet r old
  | .setColumnHidden sheet c old _ => mSetColumnHidden b sheet c old
  | .setRowHidden sheet r old _ => mSetRowHidden b sheet r old
  -- `move_rows_action(sheet, row + delta, row_count, -delta)` at the Model level (no hidden-row scan)
  | .moveRows sheet row count delta => mMoveRows b sheet (row + delta) count (-delta)
  | .moveColumns sheet column count delta => mMoveColumns b sheet (column + delta) count (-delta)
  -- `Some(cell)` → `update_cell`, `None` → `remove_cell` (since the fix of F01a)
  | .setCellValue sheet r c old _ => mSetCell b sheet r c old
  | .rangeClearContents sheet r c w h old => mRestoreArea b sheet r c w h old

/-- the loop of `apply_diff_list`: front to back, `?` stops at the first error -/
def foldDiffs (f : Book → Diff → Except Err Book) : Book → List Diff → Applied Book
  | b, [] => ⟨b, true⟩
  | b, d :: ds =>
    match f b d with
    | .ok b' => foldDiffs f b' ds
    | .error _ => ⟨b, false⟩

/-- models `apply_diff_list` -/
def applyFwd (env : Env) (b : Book) (ds : List Diff) : Applied Book := foldDiffs (fwd1 env) b ds
/-- models `apply_undo_diff_list` (`diff_list.iter().rev()`) -/
def applyBack (env : Env) (b : Book) (ds : List Diff) : Applied Book :=
  foldDiffs (back1 env) b ds.reverse

/-! ### user-level operations (`common.rs`), repaired order: fallible call first, push after -/

def fail (b : Book) (e : Err) : Out := ⟨b, none, some e⟩
def done (b : Book) (ds : List Diff) : Out := ⟨b, some ds, none⟩

/-- models `common.rs::set_name` (returns early, recording nothing, when the name is unchanged) -/
def setName (b : Book) (name : String) : Out :=
  if b.name = name then ⟨b, none, none⟩
  else done { b with name := name } [.setWorkbookName b.name name]

/-- models `common.rs::set_timezone` -/
def setTimezone (env : Env) (b : Book) (tz : String) : Out :=
  match mSetTimezone env b tz with
  | .error e => fail b e
  | .ok b' => done b' [.setTimezone b.tz tz]

/-- the order of the pinned tree: `push_diff_list` BEFORE `model.set_timezone(tz)` (defect F04a) -/
def setTimezonePinned (env : Env) (b : Book) (tz : String) : Out :=
  match mSetTimezone env b tz with
  | .error e => ⟨b, some [.setTimezone b.tz tz], some e⟩
  | .ok b' => done b' [.setTimezone b.tz tz]

/-- models `common.rs::set_locale` -/
def setLocale (env : Env) (b : Book) (l : String) : Out :=
  match mSetLocale env b l with
  | .error e => fail b e
  | .ok b' => done b' [.setLocale b.locale l]

/-- models `common.rs::set_frozen_rows_count` -/
def setFrozenRows (b : Book) (sheet : Nat) (n : Int) : Out :=
  match getSheet b sheet with
  | .error e => fail b e
  | .ok s =>
    match mSetFrozenRows b sheet n with
    | .error e => fail b e
    | .ok b' => done b' [.setFrozenRows sheet s.frozenRows n]

/-- models `common.rs::set_frozen_columns_count` -/
def setFrozenCols (b : Book) (sheet : Nat) (n : Int) : Out :=
  match getSheet b sheet with
  | .error e => fail b e
  | .ok s =>
    match mSetFrozenCols b sheet n with
    | .error e => fail b e
    | .ok b' => done b' [.setFrozenCols sheet s.frozenCols n]

/-- models `common.rs::set_show_grid_lines` -/
def setShowGridLines (b : Book) (sheet : Nat) (v : Bool) : Out :=
  match getSheet b sheet with
  | .error e => fail b e
  | .ok s =>
    match mSetShowGridLines b sheet v with
    | .error e => fail b e
    | .ok b' => done b' [.setShowGridLines sheet s.grid v]

/-- models `common.rs::set_sheet_color` -/
def setSheetColor (b : Book) (sheet : Nat) (c : String) : Out :=
  match getSheet b sheet with
  | .error e => fail b e
  | .ok s =>
    match mSetSheetColor b sheet c with
    | .error e => fail b e
    | .ok b' => done b' [.setSheetColor sheet s.color c]

/-- models `common.rs::hide_sheet` (the change of the selected sheet is view state, not modelled) -/
def hideSheet (b : Book) (sheet : Nat) : Out :=
  match getSheet b sheet with
  | .error e => fail b e
  | .ok s =>
    match mSetSheetState b sheet .hidden with
    | .error e => fail b e
    | .ok b' => done b' [.setSheetState sheet s.state .hidden]

/-- models `common.rs::unhide_sheet` -/
def unhideSheet (b : Book) (sheet : Nat) : Out :=
  match getSheet b sheet with
  | .error e => fail b e
  | .ok s =>
    match mSetSheetState b sheet .visible with
    | .error e => fail b e
    | .ok b' => done b' [.setSheetState sheet s.state .visible]

/-- models `common.rs::rename_sheet` (no-op, nothing recorded, when the name is unchanged) -/
def renameSheet (env : Env) (b : Book) (sheet : Nat) (name : String) : Out :=
  match getSheet b sheet with
  | .error e => fail b e
  | .ok s =>
    if s.name = name then ⟨b, none, none⟩
    else
      match mRenameSheet env b sheet name with
      | .error e => fail b e
      | .ok b' => done b' [.renameSheet sheet s.name name]

/-- models `common.rs::new_sheet` -/
def newSheet (env : Env) (b : Book) : Out :=
  let r := mNewSheet env b
  done r.1 [.newSheet r.2.2 r.2.1]

/-- the diffs `common.rs::delete_sheet` records for the names local to the sheet, in front of the
    `DeleteSheet` diff: undo (back to front) re-creates them once the sheet is back, redo deletes
    them while the sheet still exists -/
def localNameDiffs (b : Book) (sheet : Nat) (sid : Nat) : List Diff :=
  (b.names.filter fun d => d.sheetId == some sid).map fun d => .deleteDefinedName d.name sheet d.formula

/-- models `common.rs::delete_sheet` -/
def deleteSheet (b : Book) (sheet : Nat) : Out :=
  match getSheet b sheet with
  | .error e => fail b e
  | .ok s =>
    match mDeleteSheet b sheet with
    | .error e => fail b e
    | .ok b' => done b' (localNameDiffs b sheet s.id ++ [.deleteSheet sheet s])

/-- the result of a `for` loop with `?` inside: the (possibly partially mutated) book, the diffs
    collected so far, and the error that stopped it -/
structure LoopOut where
  b : Book
  ds : List Diff
  err : Option Err

/-- the loop of `common.rs::set_columns_width`: `n` columns starting at `c` -/
def colsWidthLoop (sheet : Nat) (w : Int) : Nat → Int → Book → List Diff → LoopOut
  | 0, _, b, acc => ⟨b, acc, none⟩
  | n + 1, c, b, acc =>
    match mGetColumnWidth b sheet c with
    | .error e => ⟨b, acc, some e⟩
    | .ok old =>
      match mSetColumnWidth b sheet c w with
      | .error e => ⟨b, acc, some e⟩
      | .ok b' => colsWidthLoop sheet w n (c + 1) b' (acc ++ [.setColumnWidth sheet c old w])

/-- the loop of `common.rs::set_rows_height` -/
def rowsHeightLoop (sheet : Nat) (h : Int) : Nat → Int → Book → List Diff → LoopOut
  | 0, _, b, acc => ⟨b, acc, none⟩
  | n + 1, r, b, acc =>
    match mGetRowHeight b sheet r with
    | .error e => ⟨b, acc, some e⟩
    | .ok old =>
      match mSetRowHeight b sheet r h with
      | .error e => ⟨b, acc, some e⟩
      | .ok b' => rowsHeightLoop sheet h n (r + 1) b' (acc ++ [.setRowHeight sheet r old h])

/-- the loop of `common.rs::set_columns_hidden` -/
def colsHiddenLoop (sheet : Nat) (h : Bool) : Nat → Int → Book → List Diff → LoopOut
  | 0, _, b, acc => ⟨b, acc, none⟩
  | n + 1, c, b, acc =>
    match mIsColumnHidden b sheet c with
    | .error e => ⟨b, acc, some e⟩
    | .ok old =>
      match mSetColumnHidden b sheet c h with
      | .error e => ⟨b, acc, some e⟩
      | .ok b' => colsHiddenLoop sheet h n (c + 1) b' (acc ++ [.setColumnHidden sheet c old h])

/-- the loop of `common.rs::set_rows_hidden` -/
def rowsHiddenLoop (sheet : Nat) (h : Bool) : Nat → Int → Book → List Diff → LoopOut
  | 0, _, b, acc => ⟨b, acc, none⟩
  | n + 1, r, b, acc =>
    match mIsRowHidden b sheet r with
    | .error e => ⟨b, acc, some e⟩
    | .ok old =>
      match mSetRowHidden b sheet r h with
      | .error e => ⟨b, acc, some e⟩
      | .ok b' => rowsHiddenLoop sheet h n (r + 1) b' (acc ++ [.setRowHidden sheet r old h])

/-- `c1..=c2` as (count, start) -/
def rangeCount (a b : Int) : Nat := (b - a + 1).toNat

def ofLoop (l : LoopOut) : Out :=
  match l.err with
  | some e => ⟨l.b, none, some e⟩     -- the loop's mutations stay (no rollback in the code)
  | none => ⟨l.b, some l.ds, none⟩

/-- the validation the repaired code performs BEFORE the loop: the sheet exists, both ends of the
    range are on the grid, the size is not negative -/
def checkColsRange (b : Book) (sheet : Nat) (c1 c2 : Int) : Option Err :=
  match getSheet b sheet with
  | .error e => some e
  | .ok _ => if c1 ≤ c2 && (!validCol c1 || !validCol c2) then some .invalidColumn else none

def checkRowsRange (b : Book) (sheet : Nat) (r1 r2 : Int) : Option Err :=
  match getSheet b sheet with
  | .error e => some e
  | .ok _ => if r1 ≤ r2 && (!validRow r1 || !validRow r2) then some .invalidRow else none

/-- models `common.rs::set_columns_width` (repaired: range validated first) -/
def setColumnsWidth (b : Book) (sheet : Nat) (c1 c2 w : Int) : Out :=
  match checkColsRange b sheet c1 c2 with
  | some e => fail b e
  | none =>
    if w < 0 then fail b .negative
    else ofLoop (colsWidthLoop sheet w (rangeCount c1 c2) c1 b [])

/-- the pinned tree: no validation before the loop (defect: partial edit when the range crosses
    the last column) -/
def setColumnsWidthPinned (b : Book) (sheet : Nat) (c1 c2 w : Int) : Out :=
  ofLoop (colsWidthLoop sheet w (rangeCount c1 c2) c1 b [])

/-- models `common.rs::set_rows_height` (repaired) -/
def setRowsHeight (b : Book) (sheet : Nat) (r1 r2 h : Int) : Out :=
  match checkRowsRange b sheet r1 r2 with
  | some e => fail b e
  | none =>
    if h < 0 then fail b .negative
    else ofLoop (rowsHeightLoop sheet h (rangeCount r1 r2) r1 b [])

/-- models `common.rs::set_columns_hidden` (repaired; the selection change is view state) -/
def setColumnsHidden (b : Book) (sheet : Nat) (c1 c2 : Int) (h : Bool) : Out :=
  match checkColsRange b sheet c1 c2 with
  | some e => fail b e
  | none => ofLoop (colsHiddenLoop sheet h (rangeCount c1 c2) c1 b [])

/-- models `common.rs::set_rows_hidden` (repaired) -/
def setRowsHidden (b : Book) (sheet : Nat) (r1 r2 : Int) (h : Bool) : Out :=
  match checkRowsRange b sheet r1 r2 with
  | some e => fail b e
  | none => ofLoop (rowsHiddenLoop sheet h (rangeCount r1 r2) r1 b [])

/-- the effective delta: `for r in row+count..=row+count+delta` (down) / `for r in row+delta..row` (up) -/
def moveScan (s : Sheet) (row count delta : Int) : Except Err Int :=
  if 0 < delta then hiddenAdjust s 1 (delta + 1).toNat (row + count) delta
  else hiddenAdjust s (-1) (-delta).toNat (row + delta) delta

/-- models `common.rs::move_rows_action`: the delta is re-computed from the state (hidden rows in
    the landing zone are skipped) and THAT effective delta is recorded in the diff -/
def moveRows (b : Book) (sheet : Nat) (row count delta : Int) : Out :=
  if delta = 0 ∨ count ≤ 0 then ⟨b, none, none⟩
  else
    match getSheet b sheet with
    | .error e => fail b e
    | .ok s =>
      match moveScan s row count delta with
      | .error e => fail b e
      | .ok nd =>
        match mMoveRows b sheet row count nd with
        | .error e => fail b e
        | .ok b' => done b' [.moveRows sheet row count nd]

def moveScanCols (s : Sheet) (column count delta : Int) : Except Err Int :=
  if 0 < delta then hiddenAdjustCols s 1 (delta + 1).toNat (column + count) delta
  else hiddenAdjustCols s (-1) (-delta).toNat (column + delta) delta

/-- models `common.rs::move_columns_action` (twin of `moveRows`) -/
def moveColumns (b : Book) (sheet : Nat) (column count delta : Int) : Out :=
  if delta = 0 ∨ count ≤ 0 then ⟨b, none, none⟩
  else
    match getSheet b sheet with
    | .error e => fail b e
    | .ok s =>
      match moveScanCols s column count delta with
      | .error e => fail b e
      | .ok nd =>
        match mMoveColumns b sheet column count nd with
        | .error e => fail b e
        | .ok b' => done b' [.moveColumns sheet column count nd]

/-- the height `set_user_input` needs for one line of the default font: `8 + font size` -/
def ONE_LINE_HEIGHT : Int := 20

/-- models `common.rs::set_user_input` for a plain one-line text (no implied format, no link):
    validate, remember the old cell, write, auto-fit the row (compared with the row's ACTUAL height;
    recorded as a second diff) -/
def setPlainInput (b : Book) (sheet : Nat) (r c : Int) (text : String) : Out :=
  if !validCol c then fail b .invalidColumn
  else if !validRow r then fail b .invalidRow
  else
    match getSheet b sheet with
    | .error e => fail b e
    | .ok s =>
      match mSetCell b sheet r c (some text) with
      | .error e => fail b e
      | .ok b1 =>
        if (s.rowAt r).height < ONE_LINE_HEIGHT then
          match mSetRowHeight b1 sheet r ONE_LINE_HEIGHT with
          | .error e => ⟨b1, none, some e⟩
          | .ok b2 => done b2 [.setCellValue sheet r c (s.cellAt r c) text,
              .setRowHeight sheet r (s.rowAt r).height ONE_LINE_HEIGHT]
        else done b1 [.setCellValue sheet r c (s.cellAt r c) text]

/-- `common.rs::validate_area` -/
def checkArea (b : Book) (sheet : Nat) (row column width height : Int) : Option Err :=
  match getSheet b sheet with
  | .error e => some e
  | .ok _ =>
    if 0 < width && 0 < height &&
        (!validRow row || !validCol column || !validRow (row + height - 1) || !validCol (column + width - 1))
    then some .invalidRow else none

/-- models `common.rs::range_clear_contents` on plain cells (the `SetCellLink` diffs for links inside
    the area are not modelled: `dom` asks for a sheet without links) -/
def rangeClearContents (b : Book) (sheet : Nat) (row column width height : Int) : Out :=
  match checkArea b sheet row column width height with
  | some e => fail b e
  | none =>
    match getSheet b sheet with
    | .error e => fail b e
    | .ok s =>
      match mClearArea b sheet row column width height with
      | .error e => fail b e
      | .ok b' => done b' [.rangeClearContents sheet row column width height s.cellAt]

def doOp (env : Env) (b : Book) : Op → Out
  | .setName n => setName b n
  | .setTimezone tz => setTimezone env b tz
  | .setLocale l => setLocale env b l
  | .setFrozenRows s n => setFrozenRows b s n
  | .setFrozenCols s n => setFrozenCols b s n
  | .setShowGridLines s v => setShowGridLines b s v
  | .setSheetColor s c => setSheetColor b s c
  | .hideSheet s => hideSheet b s
  | .unhideSheet s => unhideSheet b s
  | .renameSheet s n => renameSheet env b s n
  | .newSheet => newSheet env b
  | .deleteSheet s => deleteSheet b s
  | .setColumnsWidth s c1 c2 w => setColumnsWidth b s c1 c2 w
  | .setRowsHeight s r1 r2 h => setRowsHeight b s r1 r2 h
  | .setColumnsHidden s c1 c2 h => setColumnsHidden b s c1 c2 h
  | .setRowsHidden s r1 r2 h => setRowsHidden b s r1 r2 h
  | .moveRows s r n d => moveRows b s r n d
  | .moveColumns s c n d => moveColumns b s c n d
  | .setPlainInput s r c t => setPlainInput b s r c t
  | .rangeClearContents s r c w h => rangeClearContents b s r c w h

/-- the concrete system -/
def sys (env : Env) : Sys Book Diff Op Err :=
  { doOp := doOp env, applyFwd := applyFwd env, applyBack := applyBack env }

/-- `Model::new_empty("model", "en", "UTC", "en")`, attribute part -/
def Book.init : Book :=
  { sheets := [emptySheet "Sheet1" 1], names := [], name := "model", locale := "en", tz := "UTC" }

def St.init : St Book Diff := { w := Book.init, undo := [], redo := [], queue := [] }

end IronCalc.User
