/-
  The GENERIC undo/redo/queue machine of the user model, over any workbook-state type `W`,
  diff type `D`, operation type `Op` and error type `E`.

  Rust anchors:
    base/src/user_model/history.rs   `History::{push, undo, redo}`
    base/src/user_model/common.rs    `push_diff_list`, `undo`, `redo`, `flush_send_queue`,
                                      `apply_external_diffs`, and the shape of every `pub fn` op
    base/src/user_model/undo_redo.rs `apply_diff_list`, `apply_undo_diff_list`

  Nothing here is specific to a diff kind; `User/Diffs.lean` instantiates it.
-/
namespace IronCalc.User

/-- `history.rs::DiffType` -/
inductive Tag where
  | undo
  | redo
  deriving DecidableEq, Repr, Inhabited

/-- Result of replaying a diff list: `apply_diff_list` / `apply_undo_diff_list` return
    `Result<(), String>` and mutate in place, so a failure half way leaves the workbook
    partially updated.  `w` is the workbook after the call, `ok` says whether it returned `Ok`. -/
structure Applied (W : Type) where
  w : W
  ok : Bool

/-- What one user-level operation (`pub fn` of `common.rs`) did: the workbook after the call
    (changed or not), the diff list it handed to `push_diff_list` (at most one per call), and the
    error it returned, if any.  A call may push and/or mutate *and then* fail — that is exactly
    what property C04 forbids, so the type must be able to express it. -/
structure OpOut (W D E : Type) where
  w : W
  pushed : Option (List D)
  err : Option E

/-- The parameters of the machine. -/
structure Sys (W D Op E : Type) where
  /-- a `pub fn` of `UserModel` run on the workbook -/
  doOp : W → Op → OpOut W D E
  /-- models `undo_redo.rs::apply_diff_list` (walks the list front to back) -/
  applyFwd : W → List D → Applied W
  /-- models `undo_redo.rs::apply_undo_diff_list` (walks the list in REVERSE) -/
  applyBack : W → List D → Applied W

/-- `UserModel` = workbook + `History { undo_stack, redo_stack }` + `send_queue`
    (stacks: head = top).  `sent` collects the batches already handed out by
    `flush_send_queue` (it is not part of `UserModel`; it is what the network carries). -/
structure St (W D : Type) where
  w : W
  undo : List (List D)
  redo : List (List D)
  queue : List (Tag × List D)
  sent : List (List (Tag × List D)) := []

inductive Cmd (Op : Type) where
  | op (o : Op)
  | undo
  | redo
  | flush
  deriving Repr

variable {W D Op E : Type}

/-- models `common.rs::push_diff_list` + `history.rs::History::push`:
    queue a `Redo` entry, push on the undo stack, CLEAR the redo stack. -/
def pushDiffList (s : St W D) (ds : List D) : St W D :=
  { s with undo := ds :: s.undo, redo := [], queue := s.queue ++ [(Tag.redo, ds)] }

/-- a user-level operation on the whole machine state, with the error it returned -/
def doUser (S : Sys W D Op E) (s : St W D) (o : Op) : St W D × Option E :=
  let r := S.doOp s.w o
  let s1 : St W D := match r.pushed with
    | some ds => pushDiffList s ds
    | none => s
  ({ s1 with w := r.w }, r.err)

/-- models `common.rs::undo` (+ `History::undo`): pop the undo stack, push the same list on the
    redo stack, replay it backwards, and — only if that succeeded — queue an `Undo` entry. -/
def undoStep (S : Sys W D Op E) (s : St W D) : St W D × Bool :=
  match s.undo with
  | [] => (s, true)
  | ds :: rest =>
    let a := S.applyBack s.w ds
    let s1 : St W D := { s with w := a.w, undo := rest, redo := ds :: s.redo }
    if a.ok then ({ s1 with queue := s.queue ++ [(Tag.undo, ds)] }, true) else (s1, false)

/-- models `common.rs::redo` (+ `History::redo`) -/
def redoStep (S : Sys W D Op E) (s : St W D) : St W D × Bool :=
  match s.redo with
  | [] => (s, true)
  | ds :: rest =>
    let a := S.applyFwd s.w ds
    let s1 : St W D := { s with w := a.w, undo := ds :: s.undo, redo := rest }
    if a.ok then ({ s1 with queue := s.queue ++ [(Tag.redo, ds)] }, true) else (s1, false)

/-- models `common.rs::flush_send_queue`: hand out the queue as one batch and empty it -/
def flushStep (s : St W D) : St W D :=
  { s with queue := [], sent := s.sent ++ [s.queue] }

/-- one command; the `Bool` is "the call returned Ok" -/
def step (S : Sys W D Op E) (s : St W D) : Cmd Op → St W D × Bool
  | .op o => let r := doUser S s o; (r.1, r.2.isNone)
  | .undo => undoStep S s
  | .redo => redoStep S s
  | .flush => (flushStep s, true)

def run (S : Sys W D Op E) (s : St W D) : List (Cmd Op) → St W D
  | [] => s
  | c :: cs => run S (step S s c).1 cs

/-- `can_undo` / `can_redo` -/
def canUndo (s : St W D) : Bool := !s.undo.isEmpty
def canRedo (s : St W D) : Bool := !s.redo.isEmpty

/-! ### The replica side (C03) -/

/-- one queue entry on a replica: `Redo` entries forward, `Undo` entries backward -/
def applyEntry (S : Sys W D Op E) (w : W) (e : Tag × List D) : Applied W :=
  match e.1 with
  | Tag.redo => S.applyFwd w e.2
  | Tag.undo => S.applyBack w e.2

/-- models the loop of `common.rs::apply_external_diffs` on one decoded batch: entries in order,
    stop at the first failing entry (`?`). -/
def applyQueue (S : Sys W D Op E) (w : W) : List (Tag × List D) → Applied W
  | [] => ⟨w, true⟩
  | e :: q =>
    let a := applyEntry S w e
    if a.ok then applyQueue S a.w q else ⟨a.w, false⟩

/-- a replica fed batch after batch, stopping at the first batch that reports an error -/
def applyBatches (S : Sys W D Op E) (w : W) : List (List (Tag × List D)) → Applied W
  | [] => ⟨w, true⟩
  | b :: bs =>
    let a := applyQueue S w b
    if a.ok then applyBatches S a.w bs else ⟨a.w, false⟩

/-- everything the primary has produced for replicas so far, in order -/
def log (s : St W D) : List (Tag × List D) := s.sent.flatten ++ s.queue

/-! ### The abstract specification: a cursor over the list of operations (C01/C02) -/

/-- `done`: the live operations, newest first, each with the observable state that followed it;
    `undone`: the undone ones, next-to-redo first.  The operation list of the property text is
    `done.reverse ++ undone`, the cursor is `done.length`. -/
structure Cur (Op O : Type) where
  base : O
  done : List (Op × O)
  undone : List (Op × O)

variable {O : Type}

/-- the observable state at a cursor position -/
def curOf (base : O) : List (Op × O) → O
  | [] => base
  | (_, x) :: _ => x

def Cur.cur (c : Cur Op O) : O := curOf c.base c.done
def Cur.cursor (c : Cur Op O) : Nat := c.done.length
def Cur.ops (c : Cur Op O) : List Op := (c.done.reverse ++ c.undone).map (·.1)

/-- a new operation: truncate at the cursor, append -/
def Cur.doOp (c : Cur Op O) (o : Op) (x : O) : Cur Op O :=
  { c with done := (o, x) :: c.done, undone := [] }
/-- undo = cursor − 1 -/
def Cur.undo (c : Cur Op O) : Cur Op O :=
  match c.done with
  | [] => c
  | e :: r => { c with done := r, undone := e :: c.undone }
/-- redo = cursor + 1 -/
def Cur.redo (c : Cur Op O) : Cur Op O :=
  match c.undone with
  | [] => c
  | e :: r => { c with done := e :: c.done, undone := r }

end IronCalc.User
