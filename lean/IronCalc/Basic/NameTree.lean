/-
  A search tree used as a *certificate*: `find` sends a key to a leaf by comparing with the pivots.
  Nothing is assumed about the tree (no ordering invariant): theorems only use that `find` is a
  function, so that `find (name i) = i` for every `i` makes the names pairwise distinct.
-/
namespace IronCalc

inductive NameTree where
  | leaf (idx : Nat)
  | node (pivot : Nat) (l r : NameTree)

/-- descend: keys `< pivot` go left -/
def NameTree.find : NameTree → Nat → Nat
  | .leaf i, _ => i
  | .node p l r, k => cond (Nat.blt k p) (l.find k) (r.find k)

end IronCalc
