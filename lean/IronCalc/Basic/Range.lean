/-
  Finite-range checking helpers: a balanced (log-depth) range test that the kernel can
  evaluate on large tables (`decide +kernel`), with its lifting lemma.
-/
namespace IronCalc

/-- `allRange lo n p` tests `p` on `lo, lo+1, …, lo+n-1` by halving (log-depth recursion). -/
def allRange (lo : Nat) : Nat → (Nat → Bool) → Bool
  | 0, _ => true
  | 1, p => p lo
  | n+2, p =>
    let h := (n+2) / 2
    allRange lo h p && allRange (lo + h) (n + 2 - h) p
termination_by n => n
decreasing_by all_goals omega

theorem allRange_spec (lo n : Nat) (p : Nat → Bool) (h : allRange lo n p = true) :
    ∀ x, lo ≤ x → x < lo + n → p x = true := by
  induction n using Nat.strongRecOn generalizing lo with
  | _ n ih =>
    intro x hlo hhi
    match n, ih, h, hhi with
    | 0, _, _, hhi => omega
    | 1, _, h, hhi =>
      have : x = lo := by omega
      subst this
      simpa [allRange] using h
    | k+2, ih, h, hhi =>
      rw [allRange] at h
      simp only [Bool.and_eq_true] at h
      obtain ⟨h1, h2⟩ := h
      by_cases hx : x < lo + (k+2)/2
      · exact ih ((k+2)/2) (by omega) lo h1 x hlo hx
      · exact ih (k+2 - (k+2)/2) (by omega) (lo + (k+2)/2) h2 x (by omega) (by omega)

end IronCalc
