/-
  Exact decimal <-> IEEE-754 binary64 conversions on 64-bit patterns, in `Nat` arithmetic.
  Used only by the executable driver (never inside a theorem) to reproduce, bit for bit,
    * Rust's `str::parse::<f64>` (correctly rounded, ties to even),
    * Rust's `Display for f64` (`format!("{}")`: shortest digits that round-trip, never an exponent),
    * `format!("{:.14e}")` + parse (base/src/number_format.rs::to_excel_precision / to_precision).
-/
namespace IronCalc.F64

def pow2 (n : Nat) : Nat := 2 ^ n
def pow10 (n : Nat) : Nat := 10 ^ n

def expMask : UInt64 := 0x7FF
def signBit : UInt64 := 0x8000000000000000
def infBits : UInt64 := 0x7FF0000000000000
def nanBits : UInt64 := 0x7FF8000000000000

def isNeg (b : UInt64) : Bool := (b &&& signBit) != 0
def expField (b : UInt64) : Nat := ((b >>> 52) &&& expMask).toNat
def mantField (b : UInt64) : Nat := (b &&& 0xFFFFFFFFFFFFF).toNat
def isFiniteBits (b : UInt64) : Bool := expField b != 2047
def isNaNBits (b : UInt64) : Bool := expField b == 2047 && mantField b != 0
def isZeroBits (b : UInt64) : Bool := (b &&& 0x7FFFFFFFFFFFFFFF) == 0

/-- finite, non-zero pattern ↦ (m, e) with |value| = m · 2^e (e as an offset: value = m · 2^(e' - 1074)) -/
def decode (b : UInt64) : Nat × Nat :=
  let ef := expField b
  let mf := mantField b
  if ef == 0 then (mf, 0) else (mf + pow2 52, ef - 1)

/-- (m, e') with value = m · 2^(e' − 1074), already rounded, ↦ pattern (without sign) -/
def encode (q : Nat) (e' : Nat) : UInt64 :=
  if q < pow2 52 then UInt64.ofNat q            -- subnormal (e' = 0) or zero
  else if e' + 1 ≥ 2047 then infBits
  else UInt64.ofNat ((e' + 1) * pow2 52 + (q - pow2 52))

/-- round-half-even of num/den -/
def divRoundEven (num den : Nat) : Nat :=
  let q := num / den
  let r := num % den
  if 2 * r < den then q else if 2 * r > den then q + 1 else if q % 2 == 0 then q else q + 1

inductive Try | tooSmall | tooLarge | done (q e' : Nat)

/-- one attempt at exponent offset t: q = round(num/den · 2^(1074 − e')), e' = max t 0 -/
def tryExp (num den : Nat) (t : Int) : Try :=
  let e' : Nat := if t < 0 then 0 else t.toNat
  let (n2, d2) := if e' ≤ 1074 then (num * pow2 (1074 - e'), den) else (num, den * pow2 (e' - 1074))
  let qf := n2 / d2
  if qf ≥ pow2 53 then .tooSmall
  else if qf < pow2 52 && e' > 0 then .tooLarge
  else
    let q := divRoundEven n2 d2
    if q ≥ pow2 53 then .done (pow2 52) (e' + 1) else .done q e'

def ofRatioLoop (num den : Nat) (t : Int) : Nat → UInt64
  | 0 => 0
  | fuel + 1 =>
    match tryExp num den t with
    | .tooSmall => ofRatioLoop num den (t + 1) fuel
    | .tooLarge => ofRatioLoop num den (t - 1) fuel
    | .done q e' => encode q e'

/-- correctly rounded |num/den| (num, den > 0) as an unsigned pattern -/
def ofRatio (num den : Nat) : UInt64 :=
  if num == 0 then 0 else
  -- the leading bit of num/den has binary exponent log2 num − log2 den or one less;
  -- t = that exponent + 1074 − 52 makes 2^52 ≤ q < 2^53
  let t0 : Int := (Nat.log2 num : Int) - (Nat.log2 den : Int) + 1074 - 52
  ofRatioLoop num den t0 6

/-- correctly rounded `digits · 10^exp10` (sign applied) — models Rust `str::parse::<f64>` on a
    decimal literal -/
def ofDecimal (neg : Bool) (digits : Nat) (exp10 : Int) : UInt64 :=
  let s : UInt64 := if neg then signBit else 0
  if digits == 0 then s else
  let nd := (Nat.log2 digits) / 3   -- crude upper bound on decimal length ≥ true length − 1 … only for clamping
  if exp10 > 400 then s ||| infBits
  else if exp10 + (nd : Int) + 1 < -400 then s
  else
    let mag := if exp10 ≥ 0 then ofRatio (digits * pow10 exp10.toNat) 1
               else ofRatio digits (pow10 (-exp10).toNat)
    s ||| mag

/-- number of decimal digits of n (0 ↦ 0) -/
def numDigits (n : Nat) : Nat :=
  let rec go (n acc fuel : Nat) : Nat :=
    match fuel with
    | 0 => acc
    | fuel + 1 => if n == 0 then acc else go (n / 10) (acc + 1) fuel
  go n 0 (Nat.log2 n + 2)

/-- exact value of a finite non-zero pattern as a ratio num/den -/
def toRatio (b : UInt64) : Nat × Nat :=
  let (m, e') := decode b
  if e' ≥ 1074 then (m * pow2 (e' - 1074), 1) else (m, pow2 (1074 - e'))

/-- floor and round-half-even of (num/den)/10^p -/
def scaleDiv (num den : Nat) (p : Int) : Nat × Nat :=
  if p ≥ 0 then (num, den * pow10 p.toNat) else (num * pow10 (-p).toNat, den)

/-- the k-significant-digit decimal (d, p) of num/den by `round` ∈ {floor, half-even}:
    10^(k−1) ≤ floor((num/den)/10^p) < 10^k -/
def sigExp (num den : Nat) (k : Nat) : Int :=
  -- decimal exponent of the leading digit: find p0 with 10^p0 ≤ num/den < 10^(p0+1)
  let est : Int := (((Nat.log2 num : Int) - (Nat.log2 den : Int)) * 30103) / 100000
  let rec adjust (p0 : Int) (fuel : Nat) : Int :=
    match fuel with
    | 0 => p0
    | fuel + 1 =>
      let (n, d) := scaleDiv num den p0
      let q := n / d
      if q == 0 then adjust (p0 - 1) fuel
      else if q ≥ 10 then adjust (p0 + 1) fuel
      else p0
  let p0 := adjust est 8
  p0 - ((k : Int) - 1)

/-- `format!("{:.{k-1}e}")` then parse: value rounded (half-even on the exact binary value) to k
    significant decimal digits, re-read as a double. Non-finite and zero patterns unchanged. -/
def roundSig (b : UInt64) (k : Nat) : UInt64 :=
  if !isFiniteBits b || isZeroBits b then b else
  let (num, den) := toRatio b
  let p := sigExp num den k
  let (n, d) := scaleDiv num den p
  ofDecimal (isNeg b) (divRoundEven n d) p

/-- shortest decimal (digits, exp10) that parses back to the same pattern, closest to the value (ties up)
    — models the digit generation of Rust `Display for f64` (Grisu/Dragon shortest) -/
def shortest (b : UInt64) : Nat × Int :=
  let mag := b &&& 0x7FFFFFFFFFFFFFFF
  let (num, den) := toRatio mag
  let rec go (k : Nat) (fuel : Nat) : Nat × Int :=
    match fuel with
    | 0 => (0, 0)
    | fuel + 1 =>
      let p := sigExp num den k
      let (n, d) := scaleDiv num den p
      let lo := n / d
      let hi := lo + 1
      let okLo := lo != 0 && ofDecimal false lo p == mag
      let okHi := ofDecimal false hi p == mag
      -- distance comparison: value − lo = (n − lo·d)/d ; hi − value = (hi·d − n)/d
      let dLo := n - lo * d
      let dHi := hi * d - n
      if okLo && okHi then
        -- exact tie (e.g. 1000000000000100.25 → …100.3, 325000000000025.125 → …25.13): Rust's shortest
        -- digit generation rounds the last digit half UP (`remainder * 2 >= scale`)
        if dLo < dHi then (lo, p) else (hi, p)
      else if okLo then (lo, p)
      else if okHi then (hi, p)
      else go (k + 1) fuel
  let (dg, p) := go 1 17
  -- strip trailing zeros
  let rec strip (dg : Nat) (p : Int) (fuel : Nat) : Nat × Int :=
    match fuel with
    | 0 => (dg, p)
    | fuel + 1 => if dg != 0 && dg % 10 == 0 then strip (dg / 10) (p + 1) fuel else (dg, p)
  strip dg p 20

def natDigits (n : Nat) : String := toString n

/-- models Rust `format!("{}", f64)` -/
def display (b : UInt64) : String :=
  if isNaNBits b then "NaN"
  else if !isFiniteBits b then (if isNeg b then "-inf" else "inf")
  else
    let sign := if isNeg b then "-" else ""
    if isZeroBits b then sign ++ "0" else
    let (dg, p) := shortest b
    let ds := natDigits dg
    if p ≥ 0 then sign ++ ds ++ String.ofList (List.replicate p.toNat '0')
    else
      let frac := (-p).toNat
      let len := ds.length
      if len > frac then
        sign ++ String.ofList (ds.toList.take (len - frac)) ++ "." ++ String.ofList (ds.toList.drop (len - frac))
      else
        sign ++ "0." ++ String.ofList (List.replicate (frac - len) '0') ++ ds

end IronCalc.F64
