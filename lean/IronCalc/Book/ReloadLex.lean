import IronCalc.Book.Reload
import IronCalc.Formula.LexConc
/-
  The save / load cycle at CHARACTER level: what is written to the file is the TEXT of the formula
  (`to_rc_format`: R1C1 references, English names, `.` and `,`), and `Model::from_workbook` runs the
  real pipeline on it: Lexer (R1C1 mode) → Parser.  Model: Formula/Lex.lean (`lex`, `render`),
  Formula/Parse.lean (`P`), through an interpretation `I` of the opaque payloads of the token-level
  model and a reading `ab` of concrete tokens back into the parser's tokens.
-/
namespace IronCalc.Book
open IronCalc.Formula

/-- what is written to the file, as characters -/
inductive StoredC where
  | plain (v : Nat)
  | text (cs : List Char)      -- the formula text written by `to_rc_format`

structure StoredCellC where
  sheet : Nat
  row : Nat
  col : Nat
  style : Nat
  content : StoredC

/-- models `to_rc_format` (printer model, concretised, rendered to characters) -/
def saveContentC (cfg : LexCfg) (I : Interp) (T : Table) : Content → StoredC
  | .plain v => .plain v
  | .formula e => .text (render cfg (concL I (pr T e)))

/-- models `from_workbook` → `parse_formulas`: lexer in R1C1 mode, then the parser; a text that
    does not parse completely becomes a parse-error formula (`none` here) -/
def loadContentC (cfg : LexCfg) (ab : List CTok → List Tok) (iv : Nat → Bool) (fuel : Nat) :
    StoredC → Option Content
  | .plain v => some (.plain v)
  | .text cs =>
    match P iv fuel 0 (ab (lex cfg cs)) with
    | some (e, []) => some (.formula e)
    | _ => none

def saveCellC (cfg : LexCfg) (I : Interp) (T : Table) (c : Cell) : StoredCellC :=
  { sheet := c.sheet, row := c.row, col := c.col, style := c.style,
    content := saveContentC cfg I T c.content }

def loadCellC (cfg : LexCfg) (ab : List CTok → List Tok) (iv : Nat → Bool) (fuel : Nat)
    (c : StoredCellC) : Option Cell :=
  (loadContentC cfg ab iv fuel c.content).map fun k =>
    { sheet := c.sheet, row := c.row, col := c.col, style := c.style, content := k }

def loadAllC (cfg : LexCfg) (ab : List CTok → List Tok) (iv : Nat → Bool) (fuel : Nat) :
    List StoredCellC → Option (List Cell)
  | [] => some []
  | c :: cs =>
    match loadCellC cfg ab iv fuel c, loadAllC cfg ab iv fuel cs with
    | some c', some cs' => some (c' :: cs')
    | _, _ => none

/-- the formula of a cell is well-formed, avoids the paren table's failing entries, has no glue
    site in the stored form (a reference printed directly before `:`), and its tokens are read back
    by `ab` -/
def Content.okC (cfg : LexCfg) (I : Interp) (ab : List CTok → List Tok) (iv : Nat → Bool) (T : Table) :
    Content → Prop
  | .plain _ => True
  | .formula e =>
    e.wf iv = true ∧ e.noBad T = true ∧ e.noGlue (csOf cfg I) T = true ∧
      ab (concL I (pr T e)) = pr T e

theorem reload_contentC (cfg : LexCfg) (hcfg : CfgRC cfg) (I : Interp) (hI : InterpOK cfg I)
    (ab : List CTok → List Tok) (iv : Nat → Bool) (T : Table) (k : Content)
    (h : k.okC cfg I ab iv T) :
    ∃ f0, ∀ f, f0 ≤ f → loadContentC cfg ab iv f (saveContentC cfg I T k) = some k := by
  cases k with
  | plain v => exact ⟨0, fun f _ => rfl⟩
  | formula e =>
    obtain ⟨hwf, hnb, hng, hab⟩ := h
    obtain ⟨hok, hg⟩ := concL_glueFree cfg (Or.inr hcfg) I hI (pr T e) (pr_eseg (csOf cfg I) T e hng).chain
    have hlex := lex_render_any cfg (Or.inr hcfg) _ hok hg
    obtain ⟨f0, hf⟩ := roundtrip_partial iv T e hwf hnb
    refine ⟨f0, fun f hle => ?_⟩
    simp [saveContentC, loadContentC, hlex, hab, hf f hle]

theorem reload_cellsC (cfg : LexCfg) (hcfg : CfgRC cfg) (I : Interp) (hI : InterpOK cfg I)
    (ab : List CTok → List Tok) (iv : Nat → Bool) (T : Table) (cs : List Cell)
    (h : ∀ c ∈ cs, c.content.okC cfg I ab iv T) :
    ∃ f0, ∀ f, f0 ≤ f → loadAllC cfg ab iv f (cs.map (saveCellC cfg I T)) = some cs := by
  induction cs with
  | nil => exact ⟨0, fun _ _ => rfl⟩
  | cons c cs ih =>
    obtain ⟨f1, h1⟩ := reload_contentC cfg hcfg I hI ab iv T c.content (h c (List.mem_cons_self))
    obtain ⟨f2, h2⟩ := ih (fun c' hc' => h c' (List.mem_cons_of_mem _ hc'))
    refine ⟨max f1 f2, fun f hle => ?_⟩
    have a := h1 f (by omega)
    have b := h2 f (by omega)
    simp only [List.map_cons, loadAllC, loadCellC, saveCellC, a, b, Option.map_some]

end IronCalc.Book
