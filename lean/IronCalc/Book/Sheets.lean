import IronCalc.Formula.Rename
/-
  M-Book, the part the sheet operations see (C17, C32): the worksheet vector (name, sheet_id,
  stored formulas) and the defined names (name, sheet_id scope, stored formula), with
  `rename_sheet_by_index`, `move_sheet`, `delete_sheet`, `duplicate_sheet` of
  base/src/new_empty.rs and the re-resolution by name that `reset_parsed_structures` performs
  (`parse_formulas`: every stored R1C1 text is parsed again against the *current* name vector).

  Case folding: Rust's `to_uppercase` / `to_lowercase` are parameters (`Fold`), the theorems hold for
  every instance; the driver instantiates them with ASCII folding (the generators vary case only in
  ASCII letters).
-/
namespace IronCalc.Book
open IronCalc.RefTree

structure Fold where
  up : String → String      -- str::to_uppercase
  low : String → String     -- str::to_lowercase

structure Sheet where
  name : String
  id : Nat
  formulas : List SNode     -- `shared_formulas`
  deriving Repr

structure DefName where
  name : String
  scope : Option Nat        -- `sheet_id`
  formula : SNode
  deriving Repr

structure Book where
  sheets : List Sheet
  names : List DefName
  deriving Repr

def Book.sheetNames (b : Book) : List String := b.sheets.map (·.name)

/-- models base/src/expressions/parser/mod.rs::Parser::get_sheet_index_by_name
    (exact, case-sensitive comparison; first hit) -/
def sheetIndex : List String → String → Option Nat
  | [], _ => none
  | s :: ss, n => if s = n then some 0 else (sheetIndex ss n).map (· + 1)

/-- models base/src/model.rs::Model::get_sheet_index_by_name (`to_uppercase` on both sides) -/
def sheetIndexUp (F : Fold) : List String → String → Option Nat
  | [], _ => none
  | s :: ss, n => if F.up s = F.up n then some 0 else (sheetIndexUp F ss n).map (· + 1)

/-- position of a sheet id in the worksheet vector (`sheet_id_index.iter().position(..)`) -/
def idIndex : List Sheet → Nat → Option Nat
  | [], _ => none
  | s :: ss, d => if s.id = d then some 0 else (idIndex ss d).map (· + 1)

/-- models base/src/workbook.rs::Workbook::get_defined_names_with_scope: the scope becomes a sheet
    *index*; a name whose sheet_id matches no sheet comes out with scope `None`, i.e. as a global
    name (this is how defect F27a shows) -/
def Book.namesWithScope (b : Book) : List (String × Option Nat) :=
  b.names.map fun d => (d.name, d.scope.bind (idIndex b.sheets))

/-- models base/src/expressions/parser/mod.rs::Parser::get_defined_name: local to the context
    sheet first, then global; names compared with `to_lowercase` -/
def resolveIdent (F : Fold) (dns : List (String × Option Nat)) (ctx : Option Nat) (n : String) : NameRes :=
  match ctx with
  | none => none   -- the parser answers ParseErrorKind("sheet not found"); unreachable: the context is a sheet
  | some c =>
    if dns.any (fun d => F.low n == F.low d.1 && d.2 == some c) then some (some c)
    else if dns.any (fun d => F.low n == F.low d.1 && d.2 == none) then some none
    else none

def resolveRef (names : List String) (ctx : String) (sn : Option String) : SheetRes :=
  ⟨sn, match sn with
       | some n => sheetIndex names n
       | none => sheetIndex names ctx⟩

/-- models `Parser::parse` (R1C1 mode) on a stored text, as far as sheets and names go:
    `TokenType::Reference` / `TokenType::Range` arms (`Some(index) => ReferenceKind/RangeKind`,
    `None => WrongReferenceKind/WrongRangeKind`) and the `TokenType::Ident` arm -/
def resolve (F : Fold) (names : List String) (dns : List (String × Option Nat)) (ctx : String) : SNode → Node :=
  Tree.map (fun _ sn => resolveRef names ctx sn)
           (fun _ n => (resolveIdent F dns (sheetIndex names ctx) n, n))

/-- what `reset_parsed_structures` → `parse_formulas` computes for one worksheet -/
def Book.parsedSheet (F : Fold) (b : Book) (ws : Sheet) : List Node :=
  ws.formulas.map (resolve F b.sheetNames b.namesWithScope ws.name)

def Book.parsed (F : Fold) (b : Book) : List (List Node) := b.sheets.map (b.parsedSheet F)

/-- models base/src/new_empty.rs::is_valid_sheet_name -/
def isValidSheetName (name : String) : Bool :=
  name ≠ "" && name.length ≤ 31 && !(name.toList.any fun c => c ∈ ['\\', '/', '*', '?', ':', '[', ']'])

inductive OpErr where
  | invalidName | nameExists | badIndex | badTarget | onlySheet | noName
  deriving DecidableEq, Repr

def setName (sheets : List Sheet) (i : Nat) (new : String) : List Sheet :=
  match sheets[i]? with
  | some s => sheets.set i { s with name := new }
  | none => sheets

/-- the text rewrite of one stored formula during a rename: parse (old names), rename, print -/
def rewriteFormula (fixed : Bool) (F : Fold) (b : Book) (i : Nat) (new : String) (ctx : String) (f : SNode) : SNode :=
  strip (renameSheetInNode fixed i new (resolve F b.sheetNames b.namesWithScope ctx f))

/-- `get_sheet_index_by_name(new_name)` finds a sheet other than the one being renamed -/
def nameTaken (F : Fold) (names : List String) (i : Nat) (new : String) : Bool :=
  match sheetIndexUp F names new with
  | some j => j != i
  | none => false

/-- models base/src/new_empty.rs::Model::rename_sheet_by_index (the language used to re-parse the
    defined names is modelled in Book/Names.lean; after the F10a repair it is the internal one, so
    names are rewritten exactly like cell formulas, with the old name of the sheet as context) -/
def renameSheet (fixed : Bool) (F : Fold) (b : Book) (i : Nat) (new : String) : Except OpErr Book :=
  if !isValidSheetName new then .error .invalidName
  else if nameTaken F b.sheetNames i new then .error .nameExists
  else match b.sheets[i]? with
    | none => .error .badIndex
    | some old =>
      let sheets' := b.sheets.map fun ws =>
        { ws with formulas := ws.formulas.map (rewriteFormula fixed F b i new ws.name) }
      let names' := b.names.map fun d =>
        { d with formula := rewriteFormula fixed F b i new old.name d.formula }
      .ok { sheets := setName sheets' i new, names := names' }

/-- models base/src/new_empty.rs::Model::rename_sheet -/
def renameSheetByName (fixed : Bool) (F : Fold) (b : Book) (old new : String) : Except OpErr Book :=
  match sheetIndexUp F b.sheetNames old with
  | some i => renameSheet fixed F b i new
  | none => .error .badIndex

/-- models base/src/new_empty.rs::Model::move_sheet (`remove` then `insert`; no text is rewritten) -/
def moveSheet (b : Book) (i j : Nat) : Except OpErr Book :=
  if i ≥ b.sheets.length then .error .badIndex
  else if j ≥ b.sheets.length then .error .badTarget
  else if i = j then .ok b
  else match b.sheets[i]? with
    | none => .error .badIndex
    | some ws => .ok { b with sheets := (b.sheets.eraseIdx i).insertIdx j ws }

/-- models base/src/new_empty.rs::Model::delete_sheet (repaired, F27a: the defined names local to
    the sheet are deleted with it) -/
def deleteSheet (b : Book) (i : Nat) : Except OpErr Book :=
  if b.sheets.length = 1 then .error .onlySheet
  else if i ≥ b.sheets.length then .error .badIndex
  else .ok { sheets := b.sheets.eraseIdx i,
             names := b.names.filter fun d => d.scope != (b.sheets[i]?).map (·.id) }

/-- models base/src/new_empty.rs::Model::get_new_sheet_id -/
def newSheetId (b : Book) : Nat := b.sheets.foldl (fun m s => max m s.id) 1 + 1

/-- one candidate of the name search in `duplicate_sheet`: `"{base} ({index})"`, the base
    truncated (by characters) so that the whole fits in 31 -/
def dupCandidate (src : String) (index : Nat) : String :=
  let suffix := " (" ++ toString index ++ ")"
  let base := if src.length + suffix.length > 31
    then String.ofList (src.toList.take (31 - suffix.length)) else src
  base ++ suffix

/-- the `loop` of `duplicate_sheet`; `fuel` candidates are tried (`sheets.length + 1` suffice:
    the candidates are pairwise different and only `sheets.length` names are taken) -/
def findDupName (F : Fold) (existingUp : List String) (src : String) : Nat → Nat → Option String
  | 0, _ => none
  | fuel + 1, index =>
    let c := dupCandidate src index
    if isValidSheetName c && !(existingUp.contains (F.up c)) then some c
    else findDupName F existingUp src fuel (index + 1)

/-- structural equality of stored texts (`before == after` on the printed strings) -/
def snodeBeq : SNode → SNode → Bool
  | .ref k r p, .ref k' r' p' => k == k' && r == r' && p == p'
  | .ident _ n, .ident _ n' => n == n'
  | .leaf t, .leaf t' => t == t'
  | .op t as, .op t' as' => t == t' && listBeq as as'
  | _, _ => false
where
  listBeq : List SNode → List SNode → Bool
    | [], [] => true
    | a :: as, b :: bs => snodeBeq a b && listBeq as bs
    | _, _ => false

/-- the defined-name part of `duplicate_sheet`: names local to the source first (stable), skip names
    local to other sheets, first spelling (ignoring ASCII case) wins, a global name is copied only
    when the retargeting changes its text; copies are local to the new sheet -/
def dupNames (fixed : Bool) (F : Fold) (b : Book) (i : Nat) (srcId newId : Nat) (newName : String)
    (ctx : String) : List DefName :=
  let ordered := b.names.filter (fun d => d.scope == some srcId) ++ b.names.filter (fun d => d.scope != some srcId)
  ordered.foldl (fun acc d =>
    if d.scope != some srcId && d.scope != none then acc
    else if acc.any (fun e => e.name.toLower == d.name.toLower) then acc
    else
      let node := resolve F b.sheetNames b.namesWithScope ctx d.formula
      let before := strip node
      let after := strip (renameSheetInNode fixed i newName node)
      if d.scope == none && snodeBeq before after then acc
      else acc ++ [{ name := d.name, scope := some newId, formula := after }]) []

/-- models base/src/new_empty.rs::Model::duplicate_sheet; returns the new book and the new name -/
def duplicateSheet (fixed : Bool) (F : Fold) (b : Book) (i : Nat) : Except OpErr (Book × String) :=
  match b.sheets[i]? with
  | none => .error .badIndex
  | some src =>
    match findDupName F (b.sheetNames.map F.up) src.name (b.sheets.length + 1) 1 with
    | none => .error .noName
    | some newName =>
      let newId := newSheetId b
      let copy : Sheet :=
        { name := newName, id := newId,
          formulas := src.formulas.map (rewriteFormula fixed F b i newName src.name) }
      let sheets' := b.sheets.insertIdx (i + 1) copy
      let ctx := match sheets'.head? with | some s => s.name | none => "Sheet1"
      .ok ({ sheets := sheets', names := b.names ++ dupNames fixed F b i src.id newId newName ctx }, newName)

/-! ### Evaluator-facing view: what an evaluator that reads only through resolved references sees -/

/-- sheet id at a position of the vector -/
def idAt (sheets : List Sheet) (i : Nat) : Option Nat := (sheets[i]?).map (·.id)

/-- the sheet (id) a stored sheet prefix denotes in a worksheet vector: the parser's lookup by name,
    then the id of the sheet at the index found; `none` = `#REF!` -/
def refId (sheets : List Sheet) (ctx : String) (sn : Option String) : Option Nat :=
  (resolveRef (sheets.map (·.name)) ctx sn).idx.bind (idAt sheets)

/-- lookup by name directly (specification of `refId`) -/
def idByName (sheets : List Sheet) (n : String) : Option Nat :=
  (sheets.find? (fun s => s.name == n)).map (·.id)

/-- a parsed tree with the sheet *names* forgotten and indices replaced by sheet ids:
    a reference is the id of the sheet it reads (or `none` = `#REF!`); a defined name is its
    spelling with the id of the sheet it is local to -/
abbrev ENode := Tree (Option Nat) (Option (Option Nat))

def erase (sheets : List Sheet) : Node → ENode :=
  Tree.map (fun _ r => r.idx.bind (idAt sheets))
           (fun v n => (v.map (fun s => s.bind (idAt sheets)), n))

/-- the whole workbook as the evaluator sees it: per sheet (in vector order) its id and its formulas -/
def Book.erased (F : Fold) (b : Book) : List (Nat × List ENode) :=
  b.sheets.map fun ws => (ws.id, (b.parsedSheet F ws).map (erase b.sheets))

/-- retarget a sheet id (used to state `duplicate_equivalent`) -/
def substId (a a' : Nat) : ENode → ENode :=
  Tree.map (fun _ r => r.map fun d => if d = a then a' else d)
           (fun v n => (v.map (fun s => s.map fun d => if d = a then a' else d), n))

/-- sheet names are unique ignoring case (C27's invariant; `insert_sheet`, `rename_sheet_by_index`
    and `duplicate_sheet` all check it) -/
def Book.UniqueNames (F : Fold) (b : Book) : Prop := (b.sheetNames.map F.up).Nodup

instance (F : Fold) (b : Book) : Decidable (b.UniqueNames F) := by unfold Book.UniqueNames; infer_instance

def Book.UniqueIds (b : Book) : Prop := (b.sheets.map (·.id)).Nodup

instance (b : Book) : Decidable b.UniqueIds := by unfold Book.UniqueIds; infer_instance

end IronCalc.Book
