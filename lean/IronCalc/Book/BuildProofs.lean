import IronCalc.Book.Build
/-
  Helper lemmas for C07: interning tables only grow, decoded content is stable.
-/
namespace IronCalc.Build

theorem indexOf_some : ∀ (tbl : List String) (x : String) (i : Nat),
    indexOf tbl x = some i → tbl[i]? = some x := by
  intro tbl
  induction tbl with
  | nil => intro x i h; simp [indexOf] at h
  | cons y ys ih =>
    intro x i h
    unfold indexOf at h
    split at h
    · rename_i hy
      cases h; simp [hy]
    · cases hj : indexOf ys x with
      | none => rw [hj] at h; simp at h
      | some j =>
        rw [hj] at h
        simp only [Option.map_some, Option.some.injEq] at h
        subst h
        simpa using ih x j hj

theorem intern_get (tbl : List String) (x : String) :
    (intern tbl x).2[(intern tbl x).1]? = some x := by
  unfold intern
  cases h : indexOf tbl x with
  | some i => simpa using indexOf_some tbl x i h
  | none => simp

theorem intern_ext (tbl : List String) (x : String) : ∃ l, (intern tbl x).2 = tbl ++ l := by
  unfold intern
  cases indexOf tbl x with
  | some i => exact ⟨[], by simp⟩
  | none => exact ⟨[x], rfl⟩

theorem get_ext {tbl l : List String} {i : Nat} {y : String} (h : tbl[i]? = some y) :
    (tbl ++ l)[i]? = some y := by
  have hi : i < tbl.length := (List.getElem?_eq_some_iff.mp h).1
  rw [List.getElem?_append_left hi]; exact h

/-- the tables of `t` extend those of `s` -/
structure Extends (s t : Sheet) : Prop where
  formulas : ∃ l, t.formulas = s.formulas ++ l
  strings : ∃ l, t.strings = s.strings ++ l
  styles : ∃ l, t.styles = s.styles ++ l

theorem decodeStored_ext {s t : Sheet} (h : Extends s t) (st : Stored) (k : Content)
    (hk : decodeStored s st = some k) : decodeStored t st = some k := by
  obtain ⟨lf, hf⟩ := h.formulas
  obtain ⟨ls, hs⟩ := h.strings
  obtain ⟨ly, hy⟩ := h.styles
  cases st with
  | num n si =>
    simp only [decodeStored, Option.map_eq_some_iff] at hk ⊢
    obtain ⟨f, h1, h2⟩ := hk
    exact ⟨f, by rw [hy]; exact get_ext h1, h2⟩
  | bool b si =>
    simp only [decodeStored, Option.map_eq_some_iff] at hk ⊢
    obtain ⟨f, h1, h2⟩ := hk
    exact ⟨f, by rw [hy]; exact get_ext h1, h2⟩
  | str ti si =>
    simp only [decodeStored, Option.bind_eq_bind, Option.bind_eq_some_iff, Option.pure_def,
      Option.some.injEq] at hk ⊢
    obtain ⟨a, h1, b, h2, h3⟩ := hk
    exact ⟨a, by rw [hs]; exact get_ext h1, b, by rw [hy]; exact get_ext h2, h3⟩
  | formula fi si =>
    simp only [decodeStored, Option.bind_eq_bind, Option.bind_eq_some_iff, Option.pure_def,
      Option.some.injEq] at hk ⊢
    obtain ⟨a, h1, b, h2, h3⟩ := hk
    exact ⟨a, by rw [hf]; exact get_ext h1, b, by rw [hy]; exact get_ext h2, h3⟩

/-- every stored index points into its table -/
def WF (s : Sheet) : Prop := ∀ c st, s.cells c = some st → ∃ k, decodeStored s st = some k

theorem wf_empty : WF Sheet.empty := by
  intro c st h; simp [Sheet.empty] at h

theorem setInput_ext (s : Sheet) (c : Coord) (inp : Input) : Extends s (setInput s c inp) := by
  cases inp with
  | num n fmt => exact ⟨⟨[], by simp [setInput]⟩, ⟨[], by simp [setInput]⟩, intern_ext _ _⟩
  | bool b => exact ⟨⟨[], by simp [setInput]⟩, ⟨[], by simp [setInput]⟩, intern_ext _ _⟩
  | text t => exact ⟨⟨[], by simp [setInput]⟩, intern_ext _ _, intern_ext _ _⟩
  | formula rc fmt => exact ⟨intern_ext _ _, ⟨[], by simp [setInput]⟩, intern_ext _ _⟩

theorem setInput_cells (s : Sheet) (c d : Coord) (inp : Input) (h : d ≠ c) :
    (setInput s c inp).cells d = s.cells d := by
  cases inp <;> simp [setInput, h]

/-- the edited cell decodes to what was typed -/
theorem decode_setInput_same (s : Sheet) (c : Coord) (inp : Input) :
    decode (setInput s c inp) c = some (contentOf inp) := by
  cases inp with
  | num n fmt =>
    simp only [decode, setInput, if_true, Option.bind_some, decodeStored, intern_get,
      Option.map_some, contentOf]
  | bool b =>
    simp only [decode, setInput, if_true, Option.bind_some, decodeStored, intern_get,
      Option.map_some, contentOf]
  | text t =>
    simp only [decode, setInput, if_true, Option.bind_some, decodeStored, intern_get,
      Option.bind_eq_bind, Option.pure_def, contentOf]
  | formula rc fmt =>
    simp only [decode, setInput, if_true, Option.bind_some, decodeStored, intern_get,
      Option.bind_eq_bind, Option.pure_def, contentOf]

/-- every other cell decodes to what it decoded to before -/
theorem decode_setInput_other (s : Sheet) (hwf : WF s) (c d : Coord) (inp : Input) (h : d ≠ c) :
    decode (setInput s c inp) d = decode s d := by
  unfold decode
  rw [setInput_cells s c d inp h]
  cases hc : s.cells d with
  | none => rfl
  | some st =>
    obtain ⟨k, hk⟩ := hwf d st hc
    simp only [Option.bind_some]
    rw [hk, decodeStored_ext (setInput_ext s c inp) st k hk]

theorem setInput_wf (s : Sheet) (hwf : WF s) (c : Coord) (inp : Input) : WF (setInput s c inp) := by
  intro d st hd
  by_cases h : d = c
  · subst h
    have := decode_setInput_same s d inp
    unfold decode at this
    rw [hd] at this
    exact ⟨_, this⟩
  · rw [setInput_cells s c d inp h] at hd
    obtain ⟨k, hk⟩ := hwf d st hd
    exact ⟨k, decodeStored_ext (setInput_ext s c inp) st k hk⟩

theorem build_wf : ∀ (l : List (Coord × Input)) (s : Sheet), WF s → WF (build s l) := by
  intro l
  induction l with
  | nil => intro s h; exact h
  | cons p ps ih => intro s h; exact ih _ (setInput_wf s h p.1 p.2)

theorem decode_build_not_mem : ∀ (l : List (Coord × Input)) (s : Sheet), WF s →
    ∀ c, c ∉ l.map (·.1) → decode (build s l) c = decode s c := by
  intro l
  induction l with
  | nil => intro s _ c _; rfl
  | cons p ps ih =>
    intro s hwf c hc
    simp only [List.map_cons, List.mem_cons, not_or] at hc
    show decode (build (setInput s p.1 p.2) ps) c = _
    rw [ih _ (setInput_wf s hwf p.1 p.2) c hc.2]
    exact decode_setInput_other s hwf p.1 c p.2 hc.1

theorem decode_build_mem : ∀ (l : List (Coord × Input)) (s : Sheet), WF s →
    (l.map (·.1)).Nodup → ∀ c x, (c, x) ∈ l → decode (build s l) c = some (contentOf x) := by
  intro l
  induction l with
  | nil => intro s _ _ c x h; cases h
  | cons p ps ih =>
    intro s hwf hnd c x hm
    simp only [List.map_cons, List.nodup_cons] at hnd
    show decode (build (setInput s p.1 p.2) ps) c = _
    rcases List.mem_cons.mp hm with h1 | h1
    · subst h1
      rw [decode_build_not_mem ps _ (setInput_wf s hwf _ _) c hnd.1]
      exact decode_setInput_same s c x
    · exact ih _ (setInput_wf s hwf p.1 p.2) hnd.2 c x h1

end IronCalc.Build
