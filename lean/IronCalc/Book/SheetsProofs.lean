import IronCalc.Book.Sheets
import IronCalc.Formula.RenameProofs
/-
  Helper lemmas for C17/C32: name lookup in the worksheet vector, uniqueness, the effect of
  `set`/`eraseIdx`/`insertIdx` on lookups.
-/
namespace IronCalc.Book
open IronCalc.Formula

/-- index-injectivity of a list (no element occurs at two positions) -/
def Inj (l : List String) : Prop := ∀ (j k : Nat) (x : String), l[j]? = some x → l[k]? = some x → j = k

theorem sheetIndex_some_get {l : List String} {x : String} {j : Nat} :
    sheetIndex l x = some j → l[j]? = some x := by
  induction l generalizing j with
  | nil => intro h; cases h
  | cons s ss ih =>
    intro h
    unfold sheetIndex at h
    split at h
    · rename_i hs; cases h; simp [hs]
    · cases h' : sheetIndex ss x with
      | none => simp [h'] at h
      | some m =>
        simp [h'] at h; subst h
        simpa using ih h'

theorem sheetIndex_none_get {l : List String} {x : String} :
    sheetIndex l x = none → ∀ j : Nat, l[j]? ≠ some x := by
  induction l with
  | nil => intro _ j; simp
  | cons s ss ih =>
    intro h j
    unfold sheetIndex at h
    split at h
    · cases h
    · rename_i hs
      cases h' : sheetIndex ss x with
      | some m => simp [h'] at h
      | none =>
        cases j with
        | zero => simpa using hs
        | succ j => simpa using ih h' j

theorem sheetIndex_of_not_mem {l : List String} {x : String} (h : ∀ j : Nat, l[j]? ≠ some x) :
    sheetIndex l x = none := by
  cases h' : sheetIndex l x with
  | none => rfl
  | some j => exact absurd (sheetIndex_some_get h') (h j)

theorem sheetIndex_of_get {l : List String} (hl : Inj l) {x : String} {j : Nat} (h : l[j]? = some x) :
    sheetIndex l x = some j := by
  cases h' : sheetIndex l x with
  | none => exact absurd h (sheetIndex_none_get h' j)
  | some k => rw [hl k j x (sheetIndex_some_get h') h]

theorem sheetIndexUp_some_get (F : Fold) {l : List String} {x : String} {j : Nat} :
    sheetIndexUp F l x = some j → ∃ s, l[j]? = some s ∧ F.up s = F.up x := by
  induction l generalizing j with
  | nil => intro h; cases h
  | cons s ss ih =>
    intro h
    unfold sheetIndexUp at h
    split at h
    · rename_i hs; cases h; exact ⟨s, by simp, hs⟩
    · cases h' : sheetIndexUp F ss x with
      | none => simp [h'] at h
      | some m =>
        simp [h'] at h; subst h
        simpa using ih h'

theorem sheetIndexUp_none_get (F : Fold) {l : List String} {x : String} :
    sheetIndexUp F l x = none → ∀ (j : Nat) (s : String), l[j]? = some s → F.up s ≠ F.up x := by
  induction l with
  | nil => intro _ j s h; simp at h
  | cons a as ih =>
    intro h j s hj
    unfold sheetIndexUp at h
    split at h
    · cases h
    · rename_i hs
      cases h' : sheetIndexUp F as x with
      | some m => simp [h'] at h
      | none =>
        cases j with
        | zero => simp at hj; subst hj; exact hs
        | succ j => simp at hj; exact ih h' j s hj

/-- uniqueness ignoring case, index form -/
theorem injUp_of_nodup (up : String → String) {l : List String} (h : (l.map up).Nodup) :
    ∀ (j k : Nat) (a c : String), l[j]? = some a → l[k]? = some c → up a = up c → j = k := by
  induction l with
  | nil => intro j k a c hj; simp at hj
  | cons s ss ih =>
    rw [List.map_cons, List.nodup_cons] at h
    obtain ⟨hs, hn⟩ := h
    intro j k a c hj hk hac
    cases j with
    | zero =>
      cases k with
      | zero => rfl
      | succ k =>
        simp at hj hk; subst hj
        exact absurd (List.mem_map.mpr ⟨c, List.mem_of_getElem? hk, hac.symm⟩) hs
    | succ j =>
      cases k with
      | zero =>
        simp at hj hk; subst hk
        exact absurd (List.mem_map.mpr ⟨a, List.mem_of_getElem? hj, hac⟩) hs
      | succ k =>
        simp at hj hk
        rw [ih hn j k a c hj hk hac]

theorem inj_of_nodupUp (up : String → String) {l : List String} (h : (l.map up).Nodup) : Inj l :=
  fun j k x hj hk => injUp_of_nodup up h j k x x hj hk rfl

/-- the name vector after a rename is still index-injective when the new name is not used
    by another sheet -/
theorem inj_set {l : List String} (hl : Inj l) {i : Nat} {new : String}
    (hnew : ∀ j : Nat, j ≠ i → l[j]? ≠ some new) : Inj (l.set i new) := by
  unfold Inj
  intro j k x hj hk
  rw [List.getElem?_set] at hj hk
  by_cases hij : i = j
  · by_cases hik : i = k
    · omega
    · simp only [hij, if_true] at hj
      have hik' : ¬ j = k := by omega
      simp only [hij, hik', if_false] at hk
      split at hj
      · cases hj; exact absurd hk (hnew k (by omega))
      · cases hj
  · simp only [hij, if_false] at hj
    by_cases hik : i = k
    · simp only [hik, if_true] at hk
      split at hk
      · cases hk; exact absurd hj (hnew j (by omega))
      · cases hk
    · simp only [hik, if_false] at hk
      exact hl j k x hj hk

theorem idIndex_congr {s s' : List Sheet} (h : s.map (·.id) = s'.map (·.id)) (d : Nat) :
    idIndex s d = idIndex s' d := by
  induction s generalizing s' with
  | nil => cases s' with
    | nil => rfl
    | cons a as => simp at h
  | cons a as ih =>
    cases s' with
    | nil => simp at h
    | cons a' as' =>
      simp only [List.map_cons, List.cons.injEq] at h
      unfold idIndex
      rw [h.1, ih h.2]

theorem idAt_congr {s s' : List Sheet} (h : s.map (·.id) = s'.map (·.id)) (i : Nat) :
    idAt s i = idAt s' i := by
  unfold idAt
  have : (s.map (·.id))[i]? = (s'.map (·.id))[i]? := by rw [h]
  simpa [List.getElem?_map] using this

end IronCalc.Book

namespace IronCalc.Book
open IronCalc.Formula

/-- the ghost condition for one stored prefix: a prefix that names no sheet is not the new name -/
def GhostOK (names : List String) (new : String) (sn : Option String) : Prop :=
  ∀ n, sn = some n → sheetIndex names n = none → n ≠ new

/-- one reference: parsing the renamed text against the renamed vector gives back the renamed node -/
theorem resolveRef_rename {names : List String} (hinj : Inj names) {i : Nat} (hi : i < names.length)
    {new : String} (hnew : ∀ j : Nat, j ≠ i → names[j]? ≠ some new)
    {p : Nat} {ctx ctx' : String} (hctx : names[p]? = some ctx) (hctx' : (names.set i new)[p]? = some ctx')
    (k : RefKind) (sn : Option String) (hg : GhostOK names new sn) :
    resolveRef (names.set i new) ctx' (renameSheetRef true i new k (resolveRef names ctx sn)).name
      = renameSheetRef true i new k (resolveRef names ctx sn) := by
  have hinj' : Inj (names.set i new) := inj_set hinj hnew
  have hidx := renameSheetRef_idx true i new k (resolveRef names ctx sn)
  have hname := renameSheetRef_name i new k (resolveRef names ctx sn)
  generalize renameSheetRef true i new k (resolveRef names ctx sn) = r1 at *
  obtain ⟨nm1, idx1⟩ := r1
  simp only at hidx hname
  unfold resolveRef at hidx hname ⊢
  simp only at hidx hname ⊢
  subst hidx
  congr 1
  cases sn with
  | none =>
    simp only [Option.isSome_none, Bool.false_eq_true, and_false, if_false] at hname
    subst hname
    simp only
    rw [sheetIndex_of_get hinj' hctx', sheetIndex_of_get hinj hctx]
  | some n =>
    simp only [Option.isSome_some, and_true] at hname
    cases hres : sheetIndex names n with
    | some j =>
      have hget := sheetIndex_some_get hres
      rw [hres] at hname
      by_cases hji : j = i
      · subst hji
        simp only [if_true] at hname
        subst hname
        simp only
        rw [hres]
        apply sheetIndex_of_get hinj'
        rw [List.getElem?_set]; simp [hi]
      · have : ¬ (some j = some i) := by simpa using hji
        simp only [this, if_false] at hname
        subst hname
        simp only
        rw [hres]
        apply sheetIndex_of_get hinj'
        rw [List.getElem?_set]
        have : ¬ i = j := fun h => hji h.symm
        simp [this, hget]
    | none =>
      rw [hres] at hname
      simp only [reduceCtorEq, if_false] at hname
      subst hname
      simp only
      rw [hres]
      apply sheetIndex_of_not_mem
      intro j
      rw [List.getElem?_set]
      by_cases hij : i = j
      · simp only [hij, if_true]
        split
        · intro h; exact hg n rfl hres (Option.some.inj h).symm
        · simp
      · simp only [hij, if_false]
        exact sheetIndex_none_get hres j

/-- one stored formula: re-parsing the rewritten text against the renamed vector gives the renamed
    parse tree of the old text -/
theorem resolve_rewrite (F : Fold) {names : List String} (hinj : Inj names) {i : Nat} (hi : i < names.length)
    {new : String} (hnew : ∀ j : Nat, j ≠ i → names[j]? ≠ some new)
    (dns : List (String × Option Nat))
    {p : Nat} {ctx ctx' : String} (hctx : names[p]? = some ctx) (hctx' : (names.set i new)[p]? = some ctx')
    (f : SNode) (hg : ∀ kr ∈ Tree.refs f, GhostOK names new kr.2) :
    resolve F (names.set i new) dns ctx' (strip (renameSheetInNode true i new (resolve F names dns ctx f)))
      = renameSheetInNode true i new (resolve F names dns ctx f) := by
  have hinj' : Inj (names.set i new) := inj_set hinj hnew
  unfold resolve strip renameSheetInNode
  simp only [Tree.map_map]
  apply Tree.map_congr
  · intro kr hkr
    exact resolveRef_rename hinj hi hnew hctx hctx' kr.1 kr.2 (hg kr hkr)
  · intro vn _
    rw [sheetIndex_of_get hinj' hctx', sheetIndex_of_get hinj hctx]

end IronCalc.Book

namespace IronCalc.Book
open IronCalc.Formula

/-- as `resolveRef_rename`, when the rewrite parsed the text in another context `ctxR` than the
    one it is read in afterwards (defined names: rewritten in the context of the renamed sheet,
    read in the context of the first sheet) -/
theorem resolveRef_rename' {names : List String} (hinj : Inj names) {i : Nat} (hi : i < names.length)
    {new : String} (hnew : ∀ j : Nat, j ≠ i → names[j]? ≠ some new) (ctxR : String)
    {p : Nat} {ctx ctx' : String} (hctx : names[p]? = some ctx) (hctx' : (names.set i new)[p]? = some ctx')
    (k : RefKind) (sn : Option String) (hg : GhostOK names new sn) :
    resolveRef (names.set i new) ctx' (renameSheetRef true i new k (resolveRef names ctxR sn)).name
      = renameSheetRef true i new k (resolveRef names ctx sn) := by
  cases sn with
  | some n => exact resolveRef_rename hinj hi hnew hctx hctx' k (some n) hg
  | none =>
    have hinj' : Inj (names.set i new) := inj_set hinj hnew
    have h1 := renameSheetRef_name i new k (resolveRef names ctxR none)
    have h2 := renameSheetRef_name i new k (resolveRef names ctx none)
    have h3 := renameSheetRef_idx true i new k (resolveRef names ctx none)
    generalize renameSheetRef true i new k (resolveRef names ctxR none) = r1 at *
    generalize renameSheetRef true i new k (resolveRef names ctx none) = r2 at *
    obtain ⟨n1, i1⟩ := r1
    obtain ⟨n2, i2⟩ := r2
    simp [resolveRef] at h1 h2 h3 ⊢
    subst h1 h2 h3
    simp [sheetIndex_of_get hinj' hctx', sheetIndex_of_get hinj hctx]

theorem resolve_rewrite' (F : Fold) {names : List String} (hinj : Inj names) {i : Nat} (hi : i < names.length)
    {new : String} (hnew : ∀ j : Nat, j ≠ i → names[j]? ≠ some new)
    (dns : List (String × Option Nat)) (ctxR : String)
    {p : Nat} {ctx ctx' : String} (hctx : names[p]? = some ctx) (hctx' : (names.set i new)[p]? = some ctx')
    (f : SNode) (hg : ∀ kr ∈ Tree.refs f, GhostOK names new kr.2) :
    resolve F (names.set i new) dns ctx' (strip (renameSheetInNode true i new (resolve F names dns ctxR f)))
      = renameSheetInNode true i new (resolve F names dns ctx f) := by
  have hinj' : Inj (names.set i new) := inj_set hinj hnew
  unfold resolve strip renameSheetInNode
  simp only [Tree.map_map]
  apply Tree.map_congr
  · intro kr hkr
    exact resolveRef_rename' hinj hi hnew ctxR hctx hctx' kr.1 kr.2 (hg kr hkr)
  · intro vn _
    rw [sheetIndex_of_get hinj' hctx', sheetIndex_of_get hinj hctx]

/-- Bool form of the ghost condition (decidable domain predicate of the rename theorems) -/
def ghostOK (names : List String) (new : String) (sn : Option String) : Bool :=
  match sn with
  | some n => (sheetIndex names n).isSome || n != new
  | none => true

theorem ghostOK_spec {names : List String} {new : String} {sn : Option String}
    (h : ghostOK names new sn = true) : GhostOK names new sn := by
  intro n hn hres
  subst hn
  simp [ghostOK, hres] at h
  exact h

/-- no reference to a sheet that does not exist spells the new name (in any stored formula or
    defined name) — otherwise the rename *creates* the sheet that reference names -/
def Book.ghostFresh (b : Book) (new : String) : Bool :=
  b.sheets.all (fun ws => ws.formulas.all fun f => (Tree.refs f).all fun kr => ghostOK b.sheetNames new kr.2)
  && b.names.all (fun d => (Tree.refs d.formula).all fun kr => ghostOK b.sheetNames new kr.2)

theorem renameSheet_inv {fixed : Bool} {F : Fold} {b b' : Book} {i : Nat} {new : String}
    (h : renameSheet fixed F b i new = .ok b') :
    isValidSheetName new = true ∧
    (∀ j, sheetIndexUp F b.sheetNames new = some j → j = i) ∧
    ∃ old, b.sheets[i]? = some old ∧
      b' = { sheets := setName (b.sheets.map fun ws =>
                { ws with formulas := ws.formulas.map (rewriteFormula fixed F b i new ws.name) }) i new,
             names := b.names.map fun d =>
                { d with formula := rewriteFormula fixed F b i new old.name d.formula } } := by
  unfold renameSheet at h
  by_cases hv : isValidSheetName new = true
  · by_cases ht : nameTaken F b.sheetNames i new = true
    · simp [hv, ht] at h
    · cases hold : b.sheets[i]? with
      | none => simp [hv, ht, hold] at h
      | some old =>
        simp only [hv, ht, hold, Bool.not_true, Bool.false_eq_true, if_false] at h
        refine ⟨hv, ?_, old, rfl, ?_⟩
        · intro j hj
          unfold nameTaken at ht
          rw [hj] at ht
          simpa using ht
        · cases h; rfl
  · simp [hv] at h

/-- the new name is not the name of another sheet (from the existence check + uniqueness) -/
theorem new_not_elsewhere {F : Fold} {names : List String} (hU : (names.map F.up).Nodup) {i : Nat} {new : String}
    (hex : ∀ j, sheetIndexUp F names new = some j → j = i) :
    ∀ j : Nat, j ≠ i → names[j]? ≠ some new := by
  intro j hji hj
  cases hs : sheetIndexUp F names new with
  | none => exact sheetIndexUp_none_get F hs j new hj rfl
  | some j0 =>
    have := hex j0 hs
    subst this
    obtain ⟨s, hs1, hs2⟩ := sheetIndexUp_some_get F hs
    exact hji (injUp_of_nodup F.up hU j j0 new s hj hs1 hs2.symm)

/-- the sheet at position `p` after the rename -/
theorem getElem?_setName_map (S : List Sheet) (g : Sheet → Sheet) (i : Nat) (new : String) (p : Nat) :
    (setName (S.map g) i new)[p]? =
      (S[p]?).map (fun ws => if p = i then { g ws with name := new } else g ws) := by
  unfold setName
  cases hi : (S.map g)[i]? with
  | none =>
    simp only
    rw [List.getElem?_map] at hi ⊢
    cases hp : S[p]? with
    | none => simp
    | some ws =>
      have : p ≠ i := by intro h; subst h; simp [hp] at hi
      simp [this]
  | some s =>
    simp only
    rw [List.getElem?_set, List.getElem?_map]
    rw [List.getElem?_map] at hi
    by_cases hip : i = p
    · subst hip
      cases hS : S[i]? with
      | none => simp [hS] at hi
      | some ws =>
        have hlt : i < S.length := (List.getElem?_eq_some_iff.mp hS).1
        simp [hS] at hi
        simp [hlt, hi]
    · have : ¬ p = i := fun h => hip h.symm
      cases hS : S[p]? <;> simp [hip, this]

end IronCalc.Book

namespace IronCalc.Book
open IronCalc.Formula

/-- a rename changes one entry of the name vector and nothing of the id vector or name scopes -/
theorem rename_vectors {fixed : Bool} {F : Fold} {b b' : Book} {i : Nat} {new : String}
    (h : renameSheet fixed F b i new = .ok b') :
    b'.sheetNames = b.sheetNames.set i new ∧ b'.sheets.map (·.id) = b.sheets.map (·.id)
      ∧ b'.namesWithScope = b.namesWithScope := by
  obtain ⟨_, _, old, hold, rfl⟩ := renameSheet_inv h
  have hlt : i < b.sheets.length := (List.getElem?_eq_some_iff.mp hold).1
  have hids : (setName (b.sheets.map fun ws =>
                ({ ws with formulas := ws.formulas.map (rewriteFormula fixed F b i new ws.name) } : Sheet)) i new).map (·.id)
                = b.sheets.map (·.id) := by
    apply List.ext_getElem?
    intro p
    rw [List.getElem?_map, getElem?_setName_map, List.getElem?_map]
    cases b.sheets[p]? with
    | none => rfl
    | some ws => by_cases hp : p = i <;> simp [hp]
  refine ⟨?_, hids, ?_⟩
  · unfold Book.sheetNames
    apply List.ext_getElem?
    intro p
    rw [List.getElem?_map, getElem?_setName_map, List.getElem?_set, List.getElem?_map]
    by_cases hp : p = i
    · subst hp; simp [hold, hlt]
    · have : ¬ i = p := fun h => hp h.symm
      cases b.sheets[p]? <;> simp [hp, this]
  · unfold Book.namesWithScope
    simp only [List.map_map]
    apply List.map_congr_left
    intro d _
    simp only [Function.comp]
    congr 1
    cases d.scope with
    | none => rfl
    | some s => exact idIndex_congr hids s

/-- **commutation**: parsing the workbook after the rename gives, formula by formula, the renamed
    parse trees of the workbook before the rename (repaired code) -/
theorem rename_parsed {F : Fold} {b b' : Book} {i : Nat} {new : String}
    (hU : b.UniqueNames F) (h : renameSheet true F b i new = .ok b')
    (hG : b.ghostFresh new = true) :
    b'.parsed F = (b.parsed F).map (List.map (renameSheetInNode true i new)) := by
  obtain ⟨hnames, _, hdns⟩ := rename_vectors h
  obtain ⟨_, hex, old, hold, hb'⟩ := renameSheet_inv h
  have hlt : i < b.sheets.length := (List.getElem?_eq_some_iff.mp hold).1
  have hlt' : i < b.sheetNames.length := by simpa [Book.sheetNames] using hlt
  have hinj : Inj b.sheetNames := inj_of_nodupUp F.up hU
  have hnew := new_not_elsewhere hU hex
  unfold Book.parsed
  apply List.ext_getElem?
  intro p
  rw [List.getElem?_map, List.getElem?_map, List.getElem?_map]
  have hsp : b'.sheets[p]? = (b.sheets[p]?).map (fun ws =>
      if p = i then { ({ ws with formulas := ws.formulas.map (rewriteFormula true F b i new ws.name) } : Sheet) with name := new }
      else { ws with formulas := ws.formulas.map (rewriteFormula true F b i new ws.name) }) := by
    rw [hb']; exact getElem?_setName_map _ _ _ _ _
  rw [hsp]
  cases hws : b.sheets[p]? with
  | none => rfl
  | some ws =>
    simp only [Option.map_some]
    congr 1
    have hctx : b.sheetNames[p]? = some ws.name := by simp [Book.sheetNames, hws]
    have hmem : ws ∈ b.sheets := List.mem_of_getElem? hws
    have hgws : ∀ f ∈ ws.formulas, ∀ kr ∈ Tree.refs f, GhostOK b.sheetNames new kr.2 := by
      intro f hf kr hkr
      unfold Book.ghostFresh at hG
      simp only [Bool.and_eq_true, List.all_eq_true] at hG
      exact ghostOK_spec (hG.1 ws hmem f hf kr hkr)
    unfold Book.parsedSheet
    rw [hnames, hdns]
    by_cases hp : p = i
    · subst hp
      simp only [if_true, List.map_map]
      apply List.map_congr_left
      intro f hf
      have hctx' : (b.sheetNames.set p new)[p]? = some new := by
        rw [List.getElem?_set]; simp [hlt']
      exact resolve_rewrite' F hinj hlt' hnew b.namesWithScope ws.name hctx hctx' f (hgws f hf)
    · simp only [hp, if_false, List.map_map]
      apply List.map_congr_left
      intro f hf
      have hctx' : (b.sheetNames.set i new)[p]? = some ws.name := by
        rw [List.getElem?_set]
        have : ¬ i = p := fun h => hp h.symm
        simp [this, hctx]
      exact resolve_rewrite' F hinj hlt' hnew b.namesWithScope ws.name hctx hctx' f (hgws f hf)

end IronCalc.Book
