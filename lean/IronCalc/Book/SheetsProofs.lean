import IronCalc.Book.Sheets
import IronCalc.Formula.RenameProofs
/-
  Helper lemmas for C17/C32: name lookup in the worksheet vector, uniqueness, the effect of
  `set`/`eraseIdx`/`insertIdx` on lookups.
-/
namespace IronCalc.Book
open IronCalc.RefTree

/-- index-injectivity of a list (no element occurs at two positions) -/
def Inj (l : List String) : Prop := ∀ (j k : Nat) (x : String), l[j]? = some x → l[k]? = some x → j = k

theorem sheetIndex_some_get {l : List String} {x : String} {j : Nat} :
    sheetIndex l x = some j → l[j]? = some x := by
  induction l generalizing j with
  | nil => intro h; cases h
  | cons s ss ih =>
    intro h
    unfold sheetIndex at h
    split at h
    · rename_i hs; cases h; simp [hs]
    · cases h' : sheetIndex ss x with
      | none => simp [h'] at h
      | some m =>
        simp [h'] at h; subst h
        simpa using ih h'

theorem sheetIndex_none_get {l : List String} {x : String} :
    sheetIndex l x = none → ∀ j : Nat, l[j]? ≠ some x := by
  induction l with
  | nil => intro _ j; simp
  | cons s ss ih =>
    intro h j
    unfold sheetIndex at h
    split at h
    · cases h
    · rename_i hs
      cases h' : sheetIndex ss x with
      | some m => simp [h'] at h
      | none =>
        cases j with
        | zero => simpa using hs
        | succ j => simpa using ih h' j

theorem sheetIndex_of_not_mem {l : List String} {x : String} (h : ∀ j : Nat, l[j]? ≠ some x) :
    sheetIndex l x = none := by
  cases h' : sheetIndex l x with
  | none => rfl
  | some j => exact absurd (sheetIndex_some_get h') (h j)

theorem sheetIndex_of_get {l : List String} (hl : Inj l) {x : String} {j : Nat} (h : l[j]? = some x) :
    sheetIndex l x = some j := by
  cases h' : sheetIndex l x with
  | none => exact absurd h (sheetIndex_none_get h' j)
  | some k => rw [hl k j x (sheetIndex_some_get h') h]

theorem sheetIndexUp_some_get (F : Fold) {l : List String} {x : String} {j : Nat} :
    sheetIndexUp F l x = some j → ∃ s, l[j]? = some s ∧ F.up s = F.up x := by
  induction l generalizing j with
  | nil => intro h; cases h
  | cons s ss ih =>
    intro h
    unfold sheetIndexUp at h
    split at h
    · rename_i hs; cases h; exact ⟨s, by simp, hs⟩
    · cases h' : sheetIndexUp F ss x with
      | none => simp [h'] at h
      | some m =>
        simp [h'] at h; subst h
        simpa using ih h'

theorem sheetIndexUp_none_get (F : Fold) {l : List String} {x : String} :
    sheetIndexUp F l x = none → ∀ (j : Nat) (s : String), l[j]? = some s → F.up s ≠ F.up x := by
  induction l with
  | nil => intro _ j s h; simp at h
  | cons a as ih =>
    intro h j s hj
    unfold sheetIndexUp at h
    split at h
    · cases h
    · rename_i hs
      cases h' : sheetIndexUp F as x with
      | some m => simp [h'] at h
      | none =>
        cases j with
        | zero => simp at hj; subst hj; exact hs
        | succ j => simp at hj; exact ih h' j s hj

/-- uniqueness ignoring case, index form -/
theorem injUp_of_nodup (up : String → String) {l : List String} (h : (l.map up).Nodup) :
    ∀ (j k : Nat) (a c : String), l[j]? = some a → l[k]? = some c → up a = up c → j = k := by
  induction l with
  | nil => intro j k a c hj; simp at hj
  | cons s ss ih =>
    rw [List.map_cons, List.nodup_cons] at h
    obtain ⟨hs, hn⟩ := h
    intro j k a c hj hk hac
    cases j with
    | zero =>
      cases k with
      | zero => rfl
      | succ k =>
        simp at hj hk; subst hj
        exact absurd (List.mem_map.mpr ⟨c, List.mem_of_getElem? hk, hac.symm⟩) hs
    | succ j =>
      cases k with
      | zero =>
        simp at hj hk; subst hk
        exact absurd (List.mem_map.mpr ⟨a, List.mem_of_getElem? hj, hac⟩) hs
      | succ k =>
        simp at hj hk
        rw [ih hn j k a c hj hk hac]

theorem inj_of_nodupUp (up : String → String) {l : List String} (h : (l.map up).Nodup) : Inj l :=
  fun j k x hj hk => injUp_of_nodup up h j k x x hj hk rfl

/-- the name vector after a rename is still index-injective when the new name is not used
    by another sheet -/
theorem inj_set {l : List String} (hl : Inj l) {i : Nat} {new : String}
    (hnew : ∀ j : Nat, j ≠ i → l[j]? ≠ some new) : Inj (l.set i new) := by
  unfold Inj
  intro j k x hj hk
  rw [List.getElem?_set] at hj hk
  by_cases hij : i = j
  · by_cases hik : i = k
    · omega
    · simp only [hij, if_true] at hj
      have hik' : ¬ j = k := by omega
      simp only [hij, hik', if_false] at hk
      split at hj
      · cases hj; exact absurd hk (hnew k (by omega))
      · cases hj
  · simp only [hij, if_false] at hj
    by_cases hik : i = k
    · simp only [hik, if_true] at hk
      split at hk
      · cases hk; exact absurd hj (hnew j (by omega))
      · cases hk
    · simp only [hik, if_false] at hk
      exact hl j k x hj hk

theorem idIndex_congr {s s' : List Sheet} (h : s.map (·.id) = s'.map (·.id)) (d : Nat) :
    idIndex s d = idIndex s' d := by
  induction s generalizing s' with
  | nil => cases s' with
    | nil => rfl
    | cons a as => simp at h
  | cons a as ih =>
    cases s' with
    | nil => simp at h
    | cons a' as' =>
      simp only [List.map_cons, List.cons.injEq] at h
      unfold idIndex
      rw [h.1, ih h.2]

theorem idAt_congr {s s' : List Sheet} (h : s.map (·.id) = s'.map (·.id)) (i : Nat) :
    idAt s i = idAt s' i := by
  unfold idAt
  have : (s.map (·.id))[i]? = (s'.map (·.id))[i]? := by rw [h]
  simpa [List.getElem?_map] using this

end IronCalc.Book

namespace IronCalc.Book
open IronCalc.RefTree

/-- the ghost condition for one stored prefix: a prefix that names no sheet is not the new name -/
def GhostOK (names : List String) (new : String) (sn : Option String) : Prop :=
  ∀ n, sn = some n → sheetIndex names n = none → n ≠ new

/-- one reference: parsing the renamed text against the renamed vector gives back the renamed node -/
theorem resolveRef_rename {names : List String} (hinj : Inj names) {i : Nat} (hi : i < names.length)
    {new : String} (hnew : ∀ j : Nat, j ≠ i → names[j]? ≠ some new)
    {p : Nat} {ctx ctx' : String} (hctx : names[p]? = some ctx) (hctx' : (names.set i new)[p]? = some ctx')
    (k : RefKind) (sn : Option String) (hg : GhostOK names new sn) :
    resolveRef (names.set i new) ctx' (renameSheetRef true i new k (resolveRef names ctx sn)).name
      = renameSheetRef true i new k (resolveRef names ctx sn) := by
  have hinj' : Inj (names.set i new) := inj_set hinj hnew
  have hidx := renameSheetRef_idx true i new k (resolveRef names ctx sn)
  have hname := renameSheetRef_name i new k (resolveRef names ctx sn)
  generalize renameSheetRef true i new k (resolveRef names ctx sn) = r1 at *
  obtain ⟨nm1, idx1⟩ := r1
  simp only at hidx hname
  unfold resolveRef at hidx hname ⊢
  simp only at hidx hname ⊢
  subst hidx
  congr 1
  cases sn with
  | none =>
    simp only [Option.isSome_none, Bool.false_eq_true, and_false, if_false] at hname
    subst hname
    simp only
    rw [sheetIndex_of_get hinj' hctx', sheetIndex_of_get hinj hctx]
  | some n =>
    simp only [Option.isSome_some, and_true] at hname
    cases hres : sheetIndex names n with
    | some j =>
      have hget := sheetIndex_some_get hres
      rw [hres] at hname
      by_cases hji : j = i
      · subst hji
        simp only [if_true] at hname
        subst hname
        simp only
        rw [hres]
        apply sheetIndex_of_get hinj'
        rw [List.getElem?_set]; simp [hi]
      · have : ¬ (some j = some i) := by simpa using hji
        simp only [this, if_false] at hname
        subst hname
        simp only
        rw [hres]
        apply sheetIndex_of_get hinj'
        rw [List.getElem?_set]
        have : ¬ i = j := fun h => hji h.symm
        simp [this, hget]
    | none =>
      rw [hres] at hname
      simp only [reduceCtorEq, if_false] at hname
      subst hname
      simp only
      rw [hres]
      apply sheetIndex_of_not_mem
      intro j
      rw [List.getElem?_set]
      by_cases hij : i = j
      · simp only [hij, if_true]
        split
        · intro h; exact hg n rfl hres (Option.some.inj h).symm
        · simp
      · simp only [hij, if_false]
        exact sheetIndex_none_get hres j

/-- one stored formula: re-parsing the rewritten text against the renamed vector gives the renamed
    parse tree of the old text -/
theorem resolve_rewrite (F : Fold) {names : List String} (hinj : Inj names) {i : Nat} (hi : i < names.length)
    {new : String} (hnew : ∀ j : Nat, j ≠ i → names[j]? ≠ some new)
    (dns : List (String × Option Nat))
    {p : Nat} {ctx ctx' : String} (hctx : names[p]? = some ctx) (hctx' : (names.set i new)[p]? = some ctx')
    (f : SNode) (hg : ∀ kr ∈ Tree.refs f, GhostOK names new kr.2) :
    resolve F (names.set i new) dns ctx' (strip (renameSheetInNode true i new (resolve F names dns ctx f)))
      = renameSheetInNode true i new (resolve F names dns ctx f) := by
  have hinj' : Inj (names.set i new) := inj_set hinj hnew
  unfold resolve strip renameSheetInNode
  simp only [Tree.map_map]
  apply Tree.map_congr
  · intro kr hkr
    exact resolveRef_rename hinj hi hnew hctx hctx' kr.1 kr.2 (hg kr hkr)
  · intro vn _
    rw [sheetIndex_of_get hinj' hctx', sheetIndex_of_get hinj hctx]

end IronCalc.Book

namespace IronCalc.Book
open IronCalc.RefTree

/-- as `resolveRef_rename`, when the rewrite parsed the text in another context `ctxR` than the
    one it is read in afterwards (defined names: rewritten in the context of the renamed sheet,
    read in the context of the first sheet) -/
theorem resolveRef_rename' {names : List String} (hinj : Inj names) {i : Nat} (hi : i < names.length)
    {new : String} (hnew : ∀ j : Nat, j ≠ i → names[j]? ≠ some new) (ctxR : String)
    {p : Nat} {ctx ctx' : String} (hctx : names[p]? = some ctx) (hctx' : (names.set i new)[p]? = some ctx')
    (k : RefKind) (sn : Option String) (hg : GhostOK names new sn) :
    resolveRef (names.set i new) ctx' (renameSheetRef true i new k (resolveRef names ctxR sn)).name
      = renameSheetRef true i new k (resolveRef names ctx sn) := by
  cases sn with
  | some n => exact resolveRef_rename hinj hi hnew hctx hctx' k (some n) hg
  | none =>
    have hinj' : Inj (names.set i new) := inj_set hinj hnew
    have h1 := renameSheetRef_name i new k (resolveRef names ctxR none)
    have h2 := renameSheetRef_name i new k (resolveRef names ctx none)
    have h3 := renameSheetRef_idx true i new k (resolveRef names ctx none)
    generalize renameSheetRef true i new k (resolveRef names ctxR none) = r1 at *
    generalize renameSheetRef true i new k (resolveRef names ctx none) = r2 at *
    obtain ⟨n1, i1⟩ := r1
    obtain ⟨n2, i2⟩ := r2
    simp [resolveRef] at h1 h2 h3 ⊢
    subst h1 h2 h3
    simp [sheetIndex_of_get hinj' hctx', sheetIndex_of_get hinj hctx]

theorem resolve_rewrite' (F : Fold) {names : List String} (hinj : Inj names) {i : Nat} (hi : i < names.length)
    {new : String} (hnew : ∀ j : Nat, j ≠ i → names[j]? ≠ some new)
    (dns : List (String × Option Nat)) (ctxR : String)
    {p : Nat} {ctx ctx' : String} (hctx : names[p]? = some ctx) (hctx' : (names.set i new)[p]? = some ctx')
    (f : SNode) (hg : ∀ kr ∈ Tree.refs f, GhostOK names new kr.2) :
    resolve F (names.set i new) dns ctx' (strip (renameSheetInNode true i new (resolve F names dns ctxR f)))
      = renameSheetInNode true i new (resolve F names dns ctx f) := by
  have hinj' : Inj (names.set i new) := inj_set hinj hnew
  unfold resolve strip renameSheetInNode
  simp only [Tree.map_map]
  apply Tree.map_congr
  · intro kr hkr
    exact resolveRef_rename' hinj hi hnew ctxR hctx hctx' kr.1 kr.2 (hg kr hkr)
  · intro vn _
    rw [sheetIndex_of_get hinj' hctx', sheetIndex_of_get hinj hctx]

/-- Bool form of the ghost condition (decidable domain predicate of the rename theorems) -/
def ghostOK (names : List String) (new : String) (sn : Option String) : Bool :=
  match sn with
  | some n => (sheetIndex names n).isSome || n != new
  | none => true

theorem ghostOK_spec {names : List String} {new : String} {sn : Option String}
    (h : ghostOK names new sn = true) : GhostOK names new sn := by
  intro n hn hres
  subst hn
  simp [ghostOK, hres] at h
  exact h

/-- no reference to a sheet that does not exist spells the new name (in any stored formula or
    defined name) — otherwise the rename *creates* the sheet that reference names -/
def Book.ghostFresh (b : Book) (new : String) : Bool :=
  b.sheets.all (fun ws => ws.formulas.all fun f => (Tree.refs f).all fun kr => ghostOK b.sheetNames new kr.2)
  && b.names.all (fun d => (Tree.refs d.formula).all fun kr => ghostOK b.sheetNames new kr.2)

theorem renameSheet_inv {fixed : Bool} {F : Fold} {b b' : Book} {i : Nat} {new : String}
    (h : renameSheet fixed F b i new = .ok b') :
    isValidSheetName new = true ∧
    (∀ j, sheetIndexUp F b.sheetNames new = some j → j = i) ∧
    ∃ old, b.sheets[i]? = some old ∧
      b' = { sheets := setName (b.sheets.map fun ws =>
                { ws with formulas := ws.formulas.map (rewriteFormula fixed F b i new ws.name) }) i new,
             names := b.names.map fun d =>
                { d with formula := rewriteFormula fixed F b i new old.name d.formula } } := by
  unfold renameSheet at h
  by_cases hv : isValidSheetName new = true
  · by_cases ht : nameTaken F b.sheetNames i new = true
    · simp [hv, ht] at h
    · cases hold : b.sheets[i]? with
      | none => simp [hv, ht, hold] at h
      | some old =>
        simp only [hv, ht, hold, Bool.not_true, Bool.false_eq_true, if_false] at h
        refine ⟨hv, ?_, old, rfl, ?_⟩
        · intro j hj
          unfold nameTaken at ht
          rw [hj] at ht
          simpa using ht
        · cases h; rfl
  · simp [hv] at h

/-- the new name is not the name of another sheet (from the existence check + uniqueness) -/
theorem new_not_elsewhere {F : Fold} {names : List String} (hU : (names.map F.up).Nodup) {i : Nat} {new : String}
    (hex : ∀ j, sheetIndexUp F names new = some j → j = i) :
    ∀ j : Nat, j ≠ i → names[j]? ≠ some new := by
  intro j hji hj
  cases hs : sheetIndexUp F names new with
  | none => exact sheetIndexUp_none_get F hs j new hj rfl
  | some j0 =>
    have := hex j0 hs
    subst this
    obtain ⟨s, hs1, hs2⟩ := sheetIndexUp_some_get F hs
    exact hji (injUp_of_nodup F.up hU j j0 new s hj hs1 hs2.symm)

/-- the sheet at position `p` after the rename -/
theorem getElem?_setName_map (S : List Sheet) (g : Sheet → Sheet) (i : Nat) (new : String) (p : Nat) :
    (setName (S.map g) i new)[p]? =
      (S[p]?).map (fun ws => if p = i then { g ws with name := new } else g ws) := by
  unfold setName
  cases hi : (S.map g)[i]? with
  | none =>
    simp only
    rw [List.getElem?_map] at hi ⊢
    cases hp : S[p]? with
    | none => simp
    | some ws =>
      have : p ≠ i := by intro h; subst h; simp [hp] at hi
      simp [this]
  | some s =>
    simp only
    rw [List.getElem?_set, List.getElem?_map]
    rw [List.getElem?_map] at hi
    by_cases hip : i = p
    · subst hip
      cases hS : S[i]? with
      | none => simp [hS] at hi
      | some ws =>
        have hlt : i < S.length := (List.getElem?_eq_some_iff.mp hS).1
        simp [hS] at hi
        simp [hlt, hi]
    · have : ¬ p = i := fun h => hip h.symm
      cases hS : S[p]? <;> simp [hip, this]

end IronCalc.Book

namespace IronCalc.Book
open IronCalc.RefTree

/-- a rename changes one entry of the name vector and nothing of the id vector or name scopes -/
theorem rename_vectors {fixed : Bool} {F : Fold} {b b' : Book} {i : Nat} {new : String}
    (h : renameSheet fixed F b i new = .ok b') :
    b'.sheetNames = b.sheetNames.set i new ∧ b'.sheets.map (·.id) = b.sheets.map (·.id)
      ∧ b'.namesWithScope = b.namesWithScope := by
  obtain ⟨_, _, old, hold, rfl⟩ := renameSheet_inv h
  have hlt : i < b.sheets.length := (List.getElem?_eq_some_iff.mp hold).1
  have hids : (setName (b.sheets.map fun ws =>
                ({ ws with formulas := ws.formulas.map (rewriteFormula fixed F b i new ws.name) } : Sheet)) i new).map (·.id)
                = b.sheets.map (·.id) := by
    apply List.ext_getElem?
    intro p
    rw [List.getElem?_map, getElem?_setName_map, List.getElem?_map]
    cases b.sheets[p]? with
    | none => rfl
    | some ws => by_cases hp : p = i <;> simp [hp]
  refine ⟨?_, hids, ?_⟩
  · unfold Book.sheetNames
    apply List.ext_getElem?
    intro p
    rw [List.getElem?_map, getElem?_setName_map, List.getElem?_set, List.getElem?_map]
    by_cases hp : p = i
    · subst hp; simp [hold, hlt]
    · have : ¬ i = p := fun h => hp h.symm
      cases b.sheets[p]? <;> simp [hp, this]
  · unfold Book.namesWithScope
    simp only [List.map_map]
    apply List.map_congr_left
    intro d _
    simp only [Function.comp]
    congr 1
    cases d.scope with
    | none => rfl
    | some s => exact idIndex_congr hids s

/-- **commutation**: parsing the workbook after the rename gives, formula by formula, the renamed
    parse trees of the workbook before the rename (repaired code) -/
theorem rename_parsed {F : Fold} {b b' : Book} {i : Nat} {new : String}
    (hU : b.UniqueNames F) (h : renameSheet true F b i new = .ok b')
    (hG : b.ghostFresh new = true) :
    b'.parsed F = (b.parsed F).map (List.map (renameSheetInNode true i new)) := by
  obtain ⟨hnames, _, hdns⟩ := rename_vectors h
  obtain ⟨_, hex, old, hold, hb'⟩ := renameSheet_inv h
  have hlt : i < b.sheets.length := (List.getElem?_eq_some_iff.mp hold).1
  have hlt' : i < b.sheetNames.length := by simpa [Book.sheetNames] using hlt
  have hinj : Inj b.sheetNames := inj_of_nodupUp F.up hU
  have hnew := new_not_elsewhere hU hex
  unfold Book.parsed
  apply List.ext_getElem?
  intro p
  rw [List.getElem?_map, List.getElem?_map, List.getElem?_map]
  have hsp : b'.sheets[p]? = (b.sheets[p]?).map (fun ws =>
      if p = i then { ({ ws with formulas := ws.formulas.map (rewriteFormula true F b i new ws.name) } : Sheet) with name := new }
      else { ws with formulas := ws.formulas.map (rewriteFormula true F b i new ws.name) }) := by
    rw [hb']; exact getElem?_setName_map _ _ _ _ _
  rw [hsp]
  cases hws : b.sheets[p]? with
  | none => rfl
  | some ws =>
    simp only [Option.map_some]
    congr 1
    have hctx : b.sheetNames[p]? = some ws.name := by simp [Book.sheetNames, hws]
    have hmem : ws ∈ b.sheets := List.mem_of_getElem? hws
    have hgws : ∀ f ∈ ws.formulas, ∀ kr ∈ Tree.refs f, GhostOK b.sheetNames new kr.2 := by
      intro f hf kr hkr
      unfold Book.ghostFresh at hG
      simp only [Bool.and_eq_true, List.all_eq_true] at hG
      exact ghostOK_spec (hG.1 ws hmem f hf kr hkr)
    unfold Book.parsedSheet
    rw [hnames, hdns]
    by_cases hp : p = i
    · subst hp
      simp only [if_true, List.map_map]
      apply List.map_congr_left
      intro f hf
      have hctx' : (b.sheetNames.set p new)[p]? = some new := by
        rw [List.getElem?_set]; simp [hlt']
      exact resolve_rewrite' F hinj hlt' hnew b.namesWithScope ws.name hctx hctx' f (hgws f hf)
    · simp only [hp, if_false, List.map_map]
      apply List.map_congr_left
      intro f hf
      have hctx' : (b.sheetNames.set i new)[p]? = some ws.name := by
        rw [List.getElem?_set]
        have : ¬ i = p := fun h => hp h.symm
        simp [this, hctx]
      exact resolve_rewrite' F hinj hlt' hnew b.namesWithScope ws.name hctx hctx' f (hgws f hf)

end IronCalc.Book

namespace IronCalc.Book
open IronCalc.RefTree

theorem bind_idAt_eq_idByName (sheets : List Sheet) (n : String) :
    (sheetIndex (sheets.map (·.name)) n).bind (idAt sheets) = idByName sheets n := by
  induction sheets with
  | nil => rfl
  | cons a as ih =>
    unfold idByName at ih ⊢
    simp only [List.map_cons, sheetIndex, List.find?_cons]
    by_cases h : a.name = n
    · simp [h, idAt]
    · have h' : (a.name == n) = false := by simpa using h
      simp only [h, if_false, h']
      rw [← ih]
      cases sheetIndex (as.map (·.name)) n with
      | none => rfl
      | some m => simp [idAt]

theorem refId_eq (sheets : List Sheet) (ctx : String) (sn : Option String) :
    refId sheets ctx sn = idByName sheets (sn.getD ctx) := by
  unfold refId resolveRef
  cases sn <;> simp [bind_idAt_eq_idByName]

/-- membership form of name uniqueness -/
def UniqueMem (l : List Sheet) : Prop := ∀ s t, s ∈ l → t ∈ l → s.name = t.name → s = t

theorem uniqueMem_of_nodupUp (up : String → String) {l : List Sheet}
    (h : ((l.map (·.name)).map up).Nodup) : UniqueMem l := by
  intro s t hs ht hst
  obtain ⟨j, hj⟩ := List.mem_iff_getElem?.mp hs
  obtain ⟨k, hk⟩ := List.mem_iff_getElem?.mp ht
  have hj' : (l.map (·.name))[j]? = some s.name := by simp [hj]
  have hk' : (l.map (·.name))[k]? = some t.name := by simp [hk]
  have := injUp_of_nodup up h j k s.name t.name hj' hk' (by rw [hst])
  subst this
  rw [hj] at hk; exact Option.some.inj hk

theorem find_of_mem {l : List Sheet} (hU : UniqueMem l) {s : Sheet} (hs : s ∈ l) {n : String}
    (hn : s.name = n) : l.find? (fun x => x.name == n) = some s := by
  induction l with
  | nil => cases hs
  | cons a as ih =>
    rw [List.find?_cons]
    by_cases h : a.name = n
    · have : a = s := hU a s (by simp) hs (by rw [h, hn])
      subst this
      simp [hn]
    · have h' : (a.name == n) = false := by simpa using h
      rw [h']
      have hsa : s ≠ a := by intro e; subst e; exact h hn
      have hs' : s ∈ as := by
        cases hs with
        | head => exact absurd rfl hsa
        | tail _ h => exact h
      exact ih (fun x y hx hy => hU x y (List.mem_cons_of_mem _ hx) (List.mem_cons_of_mem _ hy)) hs'

theorem perm_cons_eraseIdx' {α : Type} (l : List α) (i : Nat) (h : i < l.length) :
    (l[i] :: l.eraseIdx i).Perm l := by
  rw [List.eraseIdx_eq_take_drop_succ]
  have e : l = l.take i ++ l[i] :: l.drop (i+1) := by
    rw [List.getElem_cons_drop, List.take_append_drop]
  conv => rhs; rw [e]
  exact List.perm_middle.symm

/-- resolution by name does not depend on the order of the worksheet vector -/
theorem idByName_perm {s s' : List Sheet} (hp : s'.Perm s) (hU : UniqueMem s) (n : String) :
    idByName s' n = idByName s n := by
  have hU' : UniqueMem s' := fun x y hx hy => hU x y (hp.mem_iff.mp hx) (hp.mem_iff.mp hy)
  unfold idByName
  cases h : s.find? (fun x => x.name == n) with
  | some x =>
    have hx : x ∈ s := List.mem_of_find?_eq_some h
    have hn : x.name = n := by simpa using List.find?_some h
    rw [find_of_mem hU' (hp.mem_iff.mpr hx) hn]
  | none =>
    have : s'.find? (fun x => x.name == n) = none := by
      rw [List.find?_eq_none] at h ⊢
      intro x hx; exact h x (hp.mem_iff.mp hx)
    rw [this]

/-- a sheet that is still in the (smaller) vector is found there iff it was found before;
    names of removed sheets stop resolving -/
theorem idByName_sublist_mem {s s' : List Sheet} (hsub : ∀ x, x ∈ s' → x ∈ s) (hU : UniqueMem s)
    (n : String) {x : Sheet} (hx : x ∈ s') (hn : x.name = n) :
    idByName s' n = idByName s n := by
  have hU' : UniqueMem s' := fun a c ha hc => hU a c (hsub a ha) (hsub c hc)
  unfold idByName
  rw [find_of_mem hU' hx hn, find_of_mem hU (hsub x hx) hn]

theorem moveSheet_perm {b b' : Book} {i j : Nat} (h : moveSheet b i j = .ok b') :
    b'.sheets.Perm b.sheets ∧ b'.names = b.names := by
  unfold moveSheet at h
  split at h
  · cases h
  · split at h
    · cases h
    · split at h
      · cases h; exact ⟨List.Perm.refl _, rfl⟩
      · rename_i hi hj hij
        split at h
        · cases h
        · rename_i ws hws
          cases h
          refine ⟨?_, rfl⟩
          have hlt : i < b.sheets.length := by omega
          have hjl : j ≤ (b.sheets.eraseIdx i).length := by
            rw [List.length_eraseIdx]; simp [hlt]; omega
          refine (List.perm_insertIdx ws _ hjl).trans ?_
          have hget : b.sheets[i] = ws := by
            have := List.getElem?_eq_some_iff.mp hws
            exact this.2
          rw [← hget]
          exact perm_cons_eraseIdx' _ _ hlt
end IronCalc.Book

namespace IronCalc.Book
open IronCalc.RefTree

theorem nodup_getElem?_inj {α : Type} {l : List α} (h : l.Nodup) :
    ∀ (j k : Nat) (a : α), l[j]? = some a → l[k]? = some a → j = k := by
  induction l with
  | nil => intro j k a hj; simp at hj
  | cons s ss ih =>
    rw [List.nodup_cons] at h
    obtain ⟨hs, hn⟩ := h
    intro j k a hj hk
    cases j with
    | zero =>
      cases k with
      | zero => rfl
      | succ k =>
        simp at hj hk; subst hj
        exact absurd (List.mem_of_getElem? hk) hs
    | succ j =>
      cases k with
      | zero =>
        simp at hj hk; subst hk
        exact absurd (List.mem_of_getElem? hj) hs
      | succ k =>
        simp at hj hk
        rw [ih hn j k a hj hk]

theorem findDupName_spec (F : Fold) (ex : List String) (src : String) (fuel index : Nat) {c : String}
    (h : findDupName F ex src fuel index = some c) :
    isValidSheetName c = true ∧ F.up c ∉ ex := by
  induction fuel generalizing index with
  | zero => cases h
  | succ fuel ih =>
    unfold findDupName at h
    simp only at h
    split at h
    · rename_i hc
      cases h
      simp only [Bool.and_eq_true, Bool.not_eq_true', ] at hc
      refine ⟨hc.1, ?_⟩
      intro hmem
      have := List.contains_iff_mem.mpr hmem
      rw [this] at hc; cases hc.2
    · exact ih _ h

theorem duplicateSheet_inv {fixed : Bool} {F : Fold} {b b' : Book} {i : Nat} {newName : String}
    (h : duplicateSheet fixed F b i = .ok (b', newName)) :
    ∃ src, b.sheets[i]? = some src ∧
      isValidSheetName newName = true ∧ F.up newName ∉ b.sheetNames.map F.up ∧
      b'.sheets = b.sheets.insertIdx (i + 1)
        { name := newName, id := newSheetId b,
          formulas := src.formulas.map (rewriteFormula fixed F b i newName src.name) } := by
  unfold duplicateSheet at h
  split at h
  · cases h
  · rename_i src hsrc
    split at h
    · cases h
    · rename_i nn hnn
      simp only [Except.ok.injEq, Prod.mk.injEq] at h
      obtain ⟨hb, hn⟩ := h
      subst hn
      obtain ⟨hv, hfresh⟩ := findDupName_spec F _ _ _ _ hnn
      exact ⟨src, hsrc, hv, hfresh, by rw [← hb]⟩

/-- the id given to a new sheet is larger than every id in use -/
theorem newSheetId_gt (b : Book) : ∀ s ∈ b.sheets, s.id < newSheetId b := by
  unfold newSheetId
  have key : ∀ (l : List Sheet) (m : Nat), m ≤ l.foldl (fun m s => max m s.id) m ∧
      ∀ s ∈ l, s.id ≤ l.foldl (fun m s => max m s.id) m := by
    intro l
    induction l with
    | nil => intro m; exact ⟨Nat.le_refl _, by intro s hs; cases hs⟩
    | cons a as ih =>
      intro m
      simp only [List.foldl_cons]
      obtain ⟨h1, h2⟩ := ih (max m a.id)
      refine ⟨by omega, ?_⟩
      intro s hs
      cases hs with
      | head => omega
      | tail _ h => exact h2 s h
  intro s hs
  have := (key b.sheets 1).2 s hs
  omega

/-- per reference: what the copy's reference denotes in the new workbook is what the source's
    reference denotes in the old one, with the source sheet replaced by the copy -/
theorem dup_ref {F : Fold} {sheets : List Sheet} (hU : ((sheets.map (·.name)).map F.up).Nodup)
    (hI : (sheets.map (·.id)).Nodup)
    {i : Nat} {src copy : Sheet} (hsrc : sheets[i]? = some src)
    (hfresh : F.up copy.name ∉ (sheets.map (·.name)).map F.up)
    (k : RefKind) (sn : Option String) (hg : GhostOK (sheets.map (·.name)) copy.name sn) :
    refId (sheets.insertIdx (i + 1) copy) copy.name
        (renameSheetRef true i copy.name k (resolveRef (sheets.map (·.name)) src.name sn)).name
      = (refId sheets src.name sn).map (fun d => if d = src.id then copy.id else d) := by
  have hlt : i < sheets.length := (List.getElem?_eq_some_iff.mp hsrc).1
  have hle : i + 1 ≤ sheets.length := hlt
  have hmem : ∀ x, x ∈ sheets.insertIdx (i + 1) copy ↔ x = copy ∨ x ∈ sheets :=
    fun x => List.mem_insertIdx hle
  have hUm : UniqueMem sheets := uniqueMem_of_nodupUp F.up hU
  have hne : ∀ x ∈ sheets, x.name ≠ copy.name := by
    intro x hx e
    apply hfresh
    rw [← e]
    exact List.mem_map.mpr ⟨x.name, List.mem_map.mpr ⟨x, hx, rfl⟩, rfl⟩
  have hUm' : UniqueMem (sheets.insertIdx (i + 1) copy) := by
    intro x y hx hy e
    rcases (hmem x).mp hx with rfl | hx' <;> rcases (hmem y).mp hy with rfl | hy'
    · rfl
    · exact absurd e.symm (hne y hy')
    · exact absurd e (hne x hx')
    · exact hUm x y hx' hy' e
  have hsrcmem : src ∈ sheets := List.mem_of_getElem? hsrc
  have hcopy : idByName (sheets.insertIdx (i + 1) copy) copy.name = some copy.id := by
    unfold idByName; rw [find_of_mem hUm' ((hmem copy).mpr (Or.inl rfl)) rfl]; rfl
  have hold : ∀ x ∈ sheets, idByName (sheets.insertIdx (i + 1) copy) x.name = some x.id ∧
      idByName sheets x.name = some x.id := by
    intro x hx
    unfold idByName
    rw [find_of_mem hUm' ((hmem x).mpr (Or.inr hx)) rfl, find_of_mem hUm hx rfl]
    exact ⟨rfl, rfl⟩
  have hinj : Inj (sheets.map (·.name)) := inj_of_nodupUp F.up hU
  have hname := renameSheetRef_name i copy.name k (resolveRef (sheets.map (·.name)) src.name sn)
  rw [refId_eq, refId_eq, hname]
  cases sn with
  | none =>
    simp only [resolveRef, Option.isSome_none, Bool.false_eq_true, and_false, if_false, Option.getD_none]
    rw [hcopy, (hold src hsrcmem).2]; simp
  | some n =>
    simp only [resolveRef, Option.isSome_some, and_true, Option.getD_some]
    cases hres : sheetIndex (sheets.map (·.name)) n with
    | none =>
      simp only [reduceCtorEq, if_false, Option.getD_some]
      have hno : ∀ x ∈ sheets, x.name ≠ n := by
        intro x hx e
        obtain ⟨j, hj⟩ := List.mem_iff_getElem?.mp hx
        exact sheetIndex_none_get hres j (by simp [hj, e])
      have h1 : idByName sheets n = none := by
        unfold idByName
        have : sheets.find? (fun s => s.name == n) = none := by
          rw [List.find?_eq_none]; intro x hx; simpa using hno x hx
        rw [this]; rfl
      have h2 : idByName (sheets.insertIdx (i + 1) copy) n = none := by
        unfold idByName
        have : (sheets.insertIdx (i + 1) copy).find? (fun s => s.name == n) = none := by
          rw [List.find?_eq_none]; intro x hx
          rcases (hmem x).mp hx with rfl | hx'
          · have := hg n rfl hres; simpa using fun e => this e.symm
          · simpa using hno x hx'
        rw [this]; rfl
      rw [h1, h2]; rfl
    | some j =>
      have hget := sheetIndex_some_get hres
      rw [List.getElem?_map] at hget
      cases hx : sheets[j]? with
      | none => simp [hx] at hget
      | some x =>
        simp [hx] at hget
        have hxm : x ∈ sheets := List.mem_of_getElem? hx
        subst hget
        by_cases hji : j = i
        · subst hji
          rw [hsrc] at hx; cases hx
          simp only [if_true, Option.getD_some]
          rw [hcopy, (hold src hsrcmem).2]; simp
        · have : ¬ (some j = some i) := by simpa using hji
          simp only [this, if_false, Option.getD_some]
          rw [(hold x hxm).1, (hold x hxm).2]
          have hid : x.id ≠ src.id := by
            intro e
            have h1 : (sheets.map (·.id))[j]? = some x.id := by simp [hx]
            have h2 : (sheets.map (·.id))[i]? = some x.id := by simp [hsrc, e]
            exact hji (nodup_getElem?_inj hI j i x.id h1 h2)
          simp [hid]

end IronCalc.Book
