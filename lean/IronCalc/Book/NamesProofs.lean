import IronCalc.Book.Names
import IronCalc.Book.SheetsProofs
/-
  Helper lemmas for C32: what the re-parse after `update_defined_name` resolves identifiers to.
-/
namespace IronCalc.Book
open IronCalc.RefTree

/-- the `any` of `Parser::get_defined_name`, as a proposition -/
theorem nameAny_iff (F : Fold) (dns : List (String × Option Nat)) (n : String) (x : Option Nat) :
    dns.any (fun d => F.low n == F.low d.1 && d.2 == x) = true ↔
      ∃ d ∈ dns, F.low n = F.low d.1 ∧ d.2 = x := by
  rw [List.any_eq_true]
  constructor
  · rintro ⟨d, hd, h⟩
    simp only [Bool.and_eq_true, beq_iff_eq] at h
    exact ⟨d, hd, h.1, h.2⟩
  · rintro ⟨d, hd, h1, h2⟩
    exact ⟨d, hd, by simp [h1, h2]⟩

/-- two name lists with the same matches for a spelling resolve it alike -/
theorem resolveIdent_congr (F : Fold) (dns dns' : List (String × Option Nat)) (c : Nat) (n : String)
    (h : ∀ x, (∃ d ∈ dns', F.low n = F.low d.1 ∧ d.2 = x) ↔ (∃ d ∈ dns, F.low n = F.low d.1 ∧ d.2 = x)) :
    resolveIdent F dns' (some c) n = resolveIdent F dns (some c) n := by
  unfold resolveIdent
  simp only
  have e : ∀ x, dns'.any (fun d => F.low n == F.low d.1 && d.2 == x)
      = dns.any (fun d => F.low n == F.low d.1 && d.2 == x) := by
    intro x
    apply Bool.eq_iff_iff.mpr
    rw [nameAny_iff, nameAny_iff]; exact h x
  rw [e (some c), e none]

/-- the re-parse binds a spelling to the one definition that has it, where that definition is visible -/
theorem update_name_reresolves_visible_aux (F : Fold) (dns : List (String × Option Nat)) (c : Nat) (new : String)
    (newScope : Option Nat)
    (huniq : ∀ d ∈ dns, F.low new = F.low d.1 → d.2 = newScope)
    (hex : ∃ d ∈ dns, F.low new = F.low d.1 ∧ d.2 = newScope)
    (hvis : newScope = some c ∨ newScope = none) :
    resolveIdent F dns (some c) new = some newScope := by
  obtain ⟨d, hd, hn, hs⟩ := hex
  unfold resolveIdent
  simp only
  rcases hvis with hv | hv
  · subst hv
    have : dns.any (fun d => F.low new == F.low d.1 && d.2 == some c) = true := by
      rw [List.any_eq_true]; exact ⟨d, hd, by simp [hn, hs]⟩
    simp [this]
  · subst hv
    have h1 : dns.any (fun d => F.low new == F.low d.1 && d.2 == some c) = false := by
      cases h : dns.any (fun d => F.low new == F.low d.1 && d.2 == some c) with
      | false => rfl
      | true =>
        rw [List.any_eq_true] at h
        obtain ⟨e, he, hm⟩ := h
        simp only [Bool.and_eq_true, beq_iff_eq] at hm
        have := huniq e he hm.1
        rw [this] at hm
        exact absurd hm.2 (by simp)
    have h2 : dns.any (fun d => F.low new == F.low d.1 && d.2 == none) = true := by
      rw [List.any_eq_true]; exact ⟨d, hd, by simp [hn, hs]⟩
    rw [h1, h2]; simp

/-- the name list after the update: the entries of the updated definition are replaced by one entry
    with the new spelling and scope, every other entry is kept -/
def UpdatedDefs (F : Fold) (dns dns' : List (String × Option Nat)) (name : String) (scope : Option Nat)
    (new : String) (newScope : Option Nat) : Prop :=
  ∀ d', d' ∈ dns' ↔ d' = (new, newScope) ∨ (d' ∈ dns ∧ ¬ (F.low d'.1 = F.low name ∧ d'.2 = scope))

/-- **one identifier through the code path**: `rename_defined_name_in_node` on the parsed tree, the
    text written back, the text parsed again against the updated name list — the identifier comes
    out spelled and bound exactly as `retargetIdent` says -/
theorem reparse_ident (F : Fold) (dns dns' : List (String × Option Nat)) (name : String)
    (scope : Option Nat) (new : String) (newScope : Option Nat) (c : Nat) (n : String)
    (hU : UpdatedDefs F dns dns' name scope new newScope)
    (hfresh : ∀ d ∈ dns, F.low d.1 ≠ F.low new) (hn : F.low n ≠ F.low new)
    (hvis : newScope = some c ∨ newScope = none)
    (v : NameRes) (hv : v = resolveIdent F dns (some c) n)
    (n1 : String) (hn1def : n1 = (renameNameIdent F.low name scope new v n).2) :
    (resolveIdent F dns' (some c) n1, n1) = retargetIdent F.low name scope new newScope v n := by
  by_cases huser : ∃ s, v = some s ∧ F.low name = F.low n ∧ s = scope
  · -- a user: re-spelled, and the new spelling denotes the moved definition
    obtain ⟨s, hvs, hl, hs⟩ := huser
    have hn1 : n1 = new := by
      rw [hn1def, hvs]; simp [renameNameIdent, hl, hs]
    have hr : retargetIdent F.low name scope new newScope v n = (some newScope, new) := by
      rw [hvs]; simp [retargetIdent, hl, hs]
    rw [hr, hn1]
    congr 1
    apply update_name_reresolves_visible_aux F dns' c new newScope
    · intro d' hd' hlow
      rcases (hU d').mp hd' with rfl | ⟨hd, _⟩
      · rfl
      · exact absurd hlow.symm (hfresh d' hd)
    · exact ⟨(new, newScope), (hU _).mpr (Or.inl rfl), rfl, rfl⟩
    · exact hvis
  · -- not a user: spelling kept, resolution unchanged
    have hn1 : n1 = n := by
      rw [hn1def]
      unfold renameNameIdent
      cases hvv : v with
      | none => rfl
      | some s =>
        have : ¬ (F.low name = F.low n ∧ s = scope) := fun h => huser ⟨s, hvv, h.1, h.2⟩
        simp [this]
    have hr : retargetIdent F.low name scope new newScope v n = (v, n) := by
      unfold retargetIdent
      cases hvv : v with
      | none => rfl
      | some s =>
        have : ¬ (F.low name = F.low n ∧ s = scope) := fun h => huser ⟨s, hvv, h.1, h.2⟩
        simp [this]
    rw [hr, hn1]
    congr 1
    by_cases hl : F.low n = F.low name
    · -- same spelling as the updated name, but bound elsewhere (or unbound)
      have hA' : ∀ x, (∃ d ∈ dns', F.low n = F.low d.1 ∧ d.2 = x) ↔
          ((∃ d ∈ dns, F.low n = F.low d.1 ∧ d.2 = x) ∧ x ≠ scope) := by
        intro x
        constructor
        · rintro ⟨d', hd', h1, h2⟩
          rcases (hU d').mp hd' with rfl | ⟨hd, hnt⟩
          · exact absurd h1 hn
          · refine ⟨⟨d', hd, h1, h2⟩, ?_⟩
            intro hx; exact hnt ⟨by rw [← h1, hl], by rw [h2, hx]⟩
        · rintro ⟨⟨d, hd, h1, h2⟩, hx⟩
          refine ⟨d, (hU d).mpr (Or.inr ⟨hd, ?_⟩), h1, h2⟩
          intro hh; exact hx (by rw [← h2]; exact hh.2)
      -- unfold both lookups
      have hres : ∀ (l : List (String × Option Nat)),
          resolveIdent F l (some c) n =
            if l.any (fun d => F.low n == F.low d.1 && d.2 == some c) then some (some c)
            else if l.any (fun d => F.low n == F.low d.1 && d.2 == none) then some none else none := by
        intro l; rfl
      have hnotuser : ∀ s, v = some s → s ≠ scope := by
        intro s hvs hs; exact huser ⟨s, hvs, hl.symm, hs⟩
      rw [hv] at hnotuser ⊢
      rw [hres dns'] 
      rw [hres dns] at hnotuser ⊢
      by_cases a1 : dns.any (fun d => F.low n == F.low d.1 && d.2 == some c) = true
      · have hs := hnotuser (some c) (by rw [if_pos a1])
        have a1' : dns'.any (fun d => F.low n == F.low d.1 && d.2 == some c) = true := by
          rw [nameAny_iff]; exact (hA' (some c)).mpr ⟨(nameAny_iff F dns n (some c)).mp a1, hs⟩
        rw [if_pos a1', if_pos a1]
      · have a1' : ¬ dns'.any (fun d => F.low n == F.low d.1 && d.2 == some c) = true := by
          rw [nameAny_iff]; intro h; exact a1 ((nameAny_iff F dns n (some c)).mpr ((hA' (some c)).mp h).1)
        by_cases a2 : dns.any (fun d => F.low n == F.low d.1 && d.2 == none) = true
        · have hs := hnotuser none (by rw [if_neg a1, if_pos a2])
          have a2' : dns'.any (fun d => F.low n == F.low d.1 && d.2 == none) = true := by
            rw [nameAny_iff]; exact (hA' none).mpr ⟨(nameAny_iff F dns n none).mp a2, hs⟩
          rw [if_neg a1', if_pos a2', if_neg a1, if_pos a2]
        · have a2' : ¬ dns'.any (fun d => F.low n == F.low d.1 && d.2 == none) = true := by
            rw [nameAny_iff]; intro h; exact a2 ((nameAny_iff F dns n none).mpr ((hA' none).mp h).1)
          rw [if_neg a1', if_neg a2', if_neg a1, if_neg a2]
    · -- another spelling: the same entries match before and after
      rw [hv]
      apply resolveIdent_congr
      intro x
      constructor
      · rintro ⟨d', hd', h1, h2⟩
        rcases (hU d').mp hd' with rfl | ⟨hd, _⟩
        · exact absurd h1 hn
        · exact ⟨d', hd, h1, h2⟩
      · rintro ⟨d, hd, h1, h2⟩
        refine ⟨d, (hU d).mpr (Or.inr ⟨hd, ?_⟩), h1, h2⟩
        intro hh; exact hl (by rw [h1]; exact hh.1)

end IronCalc.Book
