import IronCalc.Book.Names
import IronCalc.Book.SheetsProofs
/-
  Helper lemmas for C32: what the re-parse after `update_defined_name` resolves identifiers to.
-/
namespace IronCalc.Book
open IronCalc.RefTree

/-- the `any` of `Parser::get_defined_name`, as a proposition -/
theorem nameAny_iff (F : Fold) (dns : List (String × Option Nat)) (n : String) (x : Option Nat) :
    dns.any (fun d => F.low n == F.low d.1 && d.2 == x) = true ↔
      ∃ d ∈ dns, F.low n = F.low d.1 ∧ d.2 = x := by
  rw [List.any_eq_true]
  constructor
  · rintro ⟨d, hd, h⟩
    simp only [Bool.and_eq_true, beq_iff_eq] at h
    exact ⟨d, hd, h.1, h.2⟩
  · rintro ⟨d, hd, h1, h2⟩
    exact ⟨d, hd, by simp [h1, h2]⟩

/-- two name lists with the same matches for a spelling resolve it alike -/
theorem resolveIdent_congr (F : Fold) (dns dns' : List (String × Option Nat)) (c : Nat) (n : String)
    (h : ∀ x, (∃ d ∈ dns', F.low n = F.low d.1 ∧ d.2 = x) ↔ (∃ d ∈ dns, F.low n = F.low d.1 ∧ d.2 = x)) :
    resolveIdent F dns' (some c) n = resolveIdent F dns (some c) n := by
  unfold resolveIdent
  simp only
  have e : ∀ x, dns'.any (fun d => F.low n == F.low d.1 && d.2 == x)
      = dns.any (fun d => F.low n == F.low d.1 && d.2 == x) := by
    intro x
    apply Bool.eq_iff_iff.mpr
    rw [nameAny_iff, nameAny_iff]; exact h x
  rw [e (some c), e none]

/-- the re-parse binds a spelling to the one definition that has it, where that definition is visible -/
theorem update_name_reresolves_visible_aux (F : Fold) (dns : List (String × Option Nat)) (c : Nat) (new : String)
    (newScope : Option Nat)
    (huniq : ∀ d ∈ dns, F.low new = F.low d.1 → d.2 = newScope)
    (hex : ∃ d ∈ dns, F.low new = F.low d.1 ∧ d.2 = newScope)
    (hvis : newScope = some c ∨ newScope = none) :
    resolveIdent F dns (some c) new = some newScope := by
  obtain ⟨d, hd, hn, hs⟩ := hex
  unfold resolveIdent
  simp only
  rcases hvis with hv | hv
  · subst hv
    have : dns.any (fun d => F.low new == F.low d.1 && d.2 == some c) = true := by
      rw [List.any_eq_true]; exact ⟨d, hd, by simp [hn, hs]⟩
    simp [this]
  · subst hv
    have h1 : dns.any (fun d => F.low new == F.low d.1 && d.2 == some c) = false := by
      cases h : dns.any (fun d => F.low new == F.low d.1 && d.2 == some c) with
      | false => rfl
      | true =>
        rw [List.any_eq_true] at h
        obtain ⟨e, he, hm⟩ := h
        simp only [Bool.and_eq_true, beq_iff_eq] at hm
        have := huniq e he hm.1
        rw [this] at hm
        exact absurd hm.2 (by simp)
    have h2 : dns.any (fun d => F.low new == F.low d.1 && d.2 == none) = true := by
      rw [List.any_eq_true]; exact ⟨d, hd, by simp [hn, hs]⟩
    rw [h1, h2]; simp

/-- the name list after the update: the entries of the updated definition are replaced by one entry
    with the new spelling and scope, every other entry is kept -/
def UpdatedDefs (F : Fold) (dns dns' : List (String × Option Nat)) (name : String) (scope : Option Nat)
    (new : String) (newScope : Option Nat) : Prop :=
  ∀ d', d' ∈ dns' ↔ d' = (new, newScope) ∨ (d' ∈ dns ∧ ¬ (F.low d'.1 = F.low name ∧ d'.2 = scope))

/-- **one identifier through the code path**: `rename_defined_name_in_node` on the parsed tree, the
    text written back, the text parsed again against the updated name list — the identifier comes
    out spelled and bound exactly as `retargetIdent` says -/
theorem reparse_ident (F : Fold) (dns dns' : List (String × Option Nat)) (name : String)
    (scope : Option Nat) (new : String) (newScope : Option Nat) (c : Nat) (n : String)
    (hU : UpdatedDefs F dns dns' name scope new newScope)
    (hfresh : ∀ d ∈ dns, F.low d.1 ≠ F.low new) (hn : F.low n ≠ F.low new)
    (hvis : newScope = some c ∨ newScope = none)
    (v : NameRes) (hv : v = resolveIdent F dns (some c) n)
    (n1 : String) (hn1def : n1 = (renameNameIdent F.low name scope new v n).2) :
    (resolveIdent F dns' (some c) n1, n1) = retargetIdent F.low name scope new newScope v n := by
  by_cases huser : ∃ s, v = some s ∧ F.low name = F.low n ∧ s = scope
  · -- a user: re-spelled, and the new spelling denotes the moved definition
    obtain ⟨s, hvs, hl, hs⟩ := huser
    have hn1 : n1 = new := by
      rw [hn1def, hvs]; simp [renameNameIdent, hl, hs]
    have hr : retargetIdent F.low name scope new newScope v n = (some newScope, new) := by
      rw [hvs]; simp [retargetIdent, hl, hs]
    rw [hr, hn1]
    congr 1
    apply update_name_reresolves_visible_aux F dns' c new newScope
    · intro d' hd' hlow
      rcases (hU d').mp hd' with rfl | ⟨hd, _⟩
      · rfl
      · exact absurd hlow.symm (hfresh d' hd)
    · exact ⟨(new, newScope), (hU _).mpr (Or.inl rfl), rfl, rfl⟩
    · exact hvis
  · -- not a user: spelling kept, resolution unchanged
    have hn1 : n1 = n := by
      rw [hn1def]
      unfold renameNameIdent
      cases hvv : v with
      | none => rfl
      | some s =>
        have : ¬ (F.low name = F.low n ∧ s = scope) := fun h => huser ⟨s, hvv, h.1, h.2⟩
        simp [this]
    have hr : retargetIdent F.low name scope new newScope v n = (v, n) := by
      unfold retargetIdent
      cases hvv : v with
      | none => rfl
      | some s =>
        have : ¬ (F.low name = F.low n ∧ s = scope) := fun h => huser ⟨s, hvv, h.1, h.2⟩
        simp [this]
    rw [hr, hn1]
    congr 1
    by_cases hl : F.low n = F.low name
    · -- same spelling as the updated name, but bound elsewhere (or unbound)
      have hA' : ∀ x, (∃ d ∈ dns', F.low n = F.low d.1 ∧ d.2 = x) ↔
          ((∃ d ∈ dns, F.low n = F.low d.1 ∧ d.2 = x) ∧ x ≠ scope) := by
        intro x
        constructor
        · rintro ⟨d', hd', h1, h2⟩
          rcases (hU d').mp hd' with rfl | ⟨hd, hnt⟩
          · exact absurd h1 hn
          · refine ⟨⟨d', hd, h1, h2⟩, ?_⟩
            intro hx; exact hnt ⟨by rw [← h1, hl], by rw [h2, hx]⟩
        · rintro ⟨⟨d, hd, h1, h2⟩, hx⟩
          refine ⟨d, (hU d).mpr (Or.inr ⟨hd, ?_⟩), h1, h2⟩
          intro hh; exact hx (by rw [← h2]; exact hh.2)
      -- unfold both lookups
      have hres : ∀ (l : List (String × Option Nat)),
          resolveIdent F l (some c) n =
            if l.any (fun d => F.low n == F.low d.1 && d.2 == some c) then some (some c)
            else if l.any (fun d => F.low n == F.low d.1 && d.2 == none) then some none else none := by
        intro l; rfl
      have hnotuser : ∀ s, v = some s → s ≠ scope := by
        intro s hvs hs; exact huser ⟨s, hvs, hl.symm, hs⟩
      rw [hv] at hnotuser ⊢
      rw [hres dns'] 
      rw [hres dns] at hnotuser ⊢
      by_cases a1 : dns.any (fun d => F.low n == F.low d.1 && d.2 == some c) = true
      · have hs := hnotuser (some c) (by rw [if_pos a1])
        have a1' : dns'.any (fun d => F.low n == F.low d.1 && d.2 == some c) = true := by
          rw [nameAny_iff]; exact (hA' (some c)).mpr ⟨(nameAny_iff F dns n (some c)).mp a1, hs⟩
        rw [if_pos a1', if_pos a1]
      · have a1' : ¬ dns'.any (fun d => F.low n == F.low d.1 && d.2 == some c) = true := by
          rw [nameAny_iff]; intro h; exact a1 ((nameAny_iff F dns n (some c)).mpr ((hA' (some c)).mp h).1)
        by_cases a2 : dns.any (fun d => F.low n == F.low d.1 && d.2 == none) = true
        · have hs := hnotuser none (by rw [if_neg a1, if_pos a2])
          have a2' : dns'.any (fun d => F.low n == F.low d.1 && d.2 == none) = true := by
            rw [nameAny_iff]; exact (hA' none).mpr ⟨(nameAny_iff F dns n none).mp a2, hs⟩
          rw [if_neg a1', if_pos a2', if_neg a1, if_pos a2]
        · have a2' : ¬ dns'.any (fun d => F.low n == F.low d.1 && d.2 == none) = true := by
            rw [nameAny_iff]; intro h; exact a2 ((nameAny_iff F dns n none).mpr ((hA' none).mp h).1)
          rw [if_neg a1', if_neg a2', if_neg a1, if_neg a2]
    · -- another spelling: the same entries match before and after
      rw [hv]
      apply resolveIdent_congr
      intro x
      constructor
      · rintro ⟨d', hd', h1, h2⟩
        rcases (hU d').mp hd' with rfl | ⟨hd, _⟩
        · exact absurd h1 hn
        · exact ⟨d', hd, h1, h2⟩
      · rintro ⟨d, hd, h1, h2⟩
        refine ⟨d, (hU d).mpr (Or.inr ⟨hd, ?_⟩), h1, h2⟩
        intro hh; exact hl (by rw [h1]; exact hh.1)

end IronCalc.Book

namespace IronCalc.Book
open IronCalc.RefTree

/-- **one stored formula through the code path** of `update_defined_name`: parsed against the old
    name list, `rename_defined_name_in_node`, printed (`to_rc_format`), parsed again against the updated
    name list — the result is `retargetNameInNode` of the old parse tree. -/
theorem reparse_tree (F : Fold) (names : List String) (dns dns' : List (String × Option Nat))
    (name : String) (scope : Option Nat) (new : String) (newScope : Option Nat)
    (ctx : String) (c : Nat) (hc : sheetIndex names ctx = some c)
    (hU : UpdatedDefs F dns dns' name scope new newScope)
    (hfresh : ∀ d ∈ dns, F.low d.1 ≠ F.low new)
    (hvis : newScope = some c ∨ newScope = none)
    (f : SNode) (hn : ∀ vn ∈ Tree.idents f, F.low vn.2 ≠ F.low new) :
    resolve F names dns' ctx
        (strip (renameDefinedNameInNode F.low name scope new (resolve F names dns ctx f)))
      = retargetNameInNode F.low name scope new newScope (resolve F names dns ctx f) := by
  unfold resolve strip renameDefinedNameInNode retargetNameInNode
  simp only [Tree.map_map]
  apply Tree.map_congr
  · intro kr _
    cases kr.2 <;> rfl
  · intro vn hvn
    simp only [hc]
    exact reparse_ident F dns dns' name scope new newScope c vn.2 hU hfresh (hn vn hvn) hvis _ rfl _ rfl

end IronCalc.Book

namespace IronCalc.Book
open IronCalc.RefTree

/-- the fold of `findNameIdx` answers an index whose entry matches (or the initial accumulator) -/
theorem findFold_spec (p : DefName → Bool) :
    ∀ (l : List DefName) (k : Nat) (acc : Option Nat) (i : Nat),
      (l.zipIdx k).foldl (fun acc (x : DefName × Nat) => if p x.1 then some x.2 else acc) acc = some i →
      acc = some i ∨ (k ≤ i ∧ ∃ d, l[i - k]? = some d ∧ p d = true) := by
  intro l
  induction l with
  | nil => intro k acc i h; exact Or.inl (by simpa using h)
  | cons x xs ih =>
    intro k acc i h
    simp only [List.zipIdx_cons, List.foldl_cons] at h
    rcases ih (k + 1) _ i h with h1 | ⟨hk, d, hd, hp⟩
    · by_cases hx : p x = true
      · simp only [hx, if_true, Option.some.injEq] at h1
        subst h1
        exact Or.inr ⟨Nat.le_refl _, x, by simp, hx⟩
      · simp only [hx, Bool.false_eq_true, if_false] at h1
        exact Or.inl h1
    · refine Or.inr ⟨by omega, d, ?_, hp⟩
      have : i - k = (i - (k + 1)) + 1 := by omega
      rw [this]; simpa using hd

theorem findNameIdx_spec {F : Fold} {names : List DefName} {name : String} {sid : Option Nat} {i : Nat}
    (h : findNameIdx F names name sid = some i) :
    ∃ d, names[i]? = some d ∧ F.up d.name = F.up name ∧ d.scope = sid := by
  unfold findNameIdx at h
  rcases findFold_spec (fun d => F.up d.name == F.up name && d.scope == sid) names 0 none i h with h1 | ⟨_, d, hd, hp⟩
  · cases h1
  · simp only [Bool.and_eq_true, beq_iff_eq] at hp
    exact ⟨d, by simpa using hd, hp.1, hp.2⟩

theorem idIndex_of_get {l : List Sheet} (hI : (l.map (·.id)).Nodup) {k : Nat} {s : Sheet}
    (h : l[k]? = some s) : idIndex l s.id = some k := by
  induction l generalizing k with
  | nil => simp at h
  | cons a as ih =>
    rw [List.map_cons, List.nodup_cons] at hI
    unfold idIndex
    cases k with
    | zero => simp at h; subst h; simp
    | succ k =>
      simp at h
      have hne : a.id ≠ s.id := by
        intro e; apply hI.1; rw [e]
        exact List.mem_map.mpr ⟨s, List.mem_of_getElem? h, rfl⟩
      simp [hne, ih hI.2 h]

/-- a scope given as an index, stored as an id, and reported again as an index is the same scope -/
theorem scopeId_bind_idIndex {b : Book} (hI : b.UniqueIds) {scope sid : Option Nat}
    (h : scopeId b scope = some sid) : sid.bind (idIndex b.sheets) = scope := by
  unfold scopeId at h
  cases scope with
  | none => simp at h; subst h; rfl
  | some k =>
    simp only at h
    cases hk : b.sheets[k]? with
    | none => simp [hk] at h
    | some s =>
      simp [hk] at h; subst h
      simp [idIndex_of_get hI hk]

/-- replacing the one matching entry of a list gives `UpdatedDefs` -/
theorem updatedDefs_set (F : Fold) (dns : List (String × Option Nat)) (name : String) (scope : Option Nat)
    (new : String) (newScope : Option Nat) (i : Nat) (t : String × Option Nat)
    (hi : dns[i]? = some t) (ht : F.low t.1 = F.low name ∧ t.2 = scope)
    (huniq : ∀ (j : Nat) (t' : String × Option Nat), dns[j]? = some t' → F.low t'.1 = F.low name → t'.2 = scope → j = i) :
    UpdatedDefs F dns (dns.set i (new, newScope)) name scope new newScope := by
  have hlt : i < dns.length := (List.getElem?_eq_some_iff.mp hi).1
  intro d'
  constructor
  · intro hd'
    obtain ⟨j, hj⟩ := List.mem_iff_getElem?.mp hd'
    rw [List.getElem?_set] at hj
    by_cases hij : i = j
    · simp [hij] at hj
      exact Or.inl hj.2.symm
    · simp only [hij, if_false] at hj
      refine Or.inr ⟨List.mem_of_getElem? hj, ?_⟩
      intro hh; exact hij (huniq j d' hj hh.1 hh.2).symm
  · rintro (rfl | ⟨hd, hnt⟩)
    · apply List.mem_iff_getElem?.mpr
      exact ⟨i, by rw [List.getElem?_set]; simp [hlt]⟩
    · obtain ⟨j, hj⟩ := List.mem_iff_getElem?.mp hd
      have hji : ¬ i = j := by
        intro e; subst e; rw [hi] at hj; cases hj; exact hnt ht
      apply List.mem_iff_getElem?.mpr
      exact ⟨j, by rw [List.getElem?_set]; simp [hji, hj]⟩

theorem updateDefinedName_inv {F : Fold} {b b' : Book} {valid : Bool} {name : String} {scope : Option Nat}
    {new : String} {newScope : Option Nat} {formula : SNode}
    (h : updateDefinedName F b valid name scope new newScope formula = .ok b') :
    ∃ sid newSid i d, scopeId b scope = some sid ∧ scopeId b newScope = some newSid ∧
      findNameIdx F b.names name sid = some i ∧ b.names[i]? = some d ∧
      b' = { sheets := if new != d.name then
                b.sheets.map fun ws => { ws with formulas := ws.formulas.map (rewriteName F b name scope new ws.name) }
              else b.sheets,
             names := b.names.set i { name := new, scope := newSid, formula := formula } } := by
  unfold updateDefinedName at h
  split at h
  · cases h
  · split at h
    · cases h
    · split at h
      · cases h
      · cases h
      · rename_i sid newSid hs1 hs2
        split at h
        · cases h
        · rename_i i hi
          split at h
          · cases h
          · rename_i d hd
            cases h
            exact ⟨sid, newSid, i, d, hs1, hs2, hi, hd, rfl⟩

end IronCalc.Book
