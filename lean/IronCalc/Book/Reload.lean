import IronCalc.Formula.Partial
/-
  Model of the save / load cycle of the internal binary format as far as it is LOGIC:
  `Model::to_bytes` encodes the `Workbook` structure with a derive-generated codec (bitcode —
  trusted, exercised by the tie); formulas are stored as TEXT (`Worksheet::shared_formulas`,
  written by `to_rc_format`), and `Model::from_workbook` re-parses every stored text
  (`parse_formulas`, R1C1 / English).  Everything else is carried over unchanged.
-/
namespace IronCalc.Book
open IronCalc.Formula

/-- what a cell holds, as the evaluator sees it -/
inductive Content where
  | plain (v : Nat)            -- number / string / boolean / error / empty, with its payload
  | formula (e : Node)         -- a parsed formula

/-- what is written to the file -/
inductive Stored where
  | plain (v : Nat)
  | text (ts : List Tok)       -- the formula as printed by `to_rc_format`

structure Cell where
  sheet : Nat
  row : Nat
  col : Nat
  style : Nat
  content : Content

structure StoredCell where
  sheet : Nat
  row : Nat
  col : Nat
  style : Nat
  content : Stored

/-- models `to_rc_format` when the formula was entered (`set_user_input` → `shared_formulas`) -/
def saveContent (T : Table) : Content → Stored
  | .plain v => .plain v
  | .formula e => .text (pr T e)

/-- models `from_workbook` → `parse_formulas`: a text that does not parse completely becomes a
    parse-error formula (`none` here) -/
def loadContent (iv : Nat → Bool) (fuel : Nat) : Stored → Option Content
  | .plain v => some (.plain v)
  | .text ts =>
    match P iv fuel 0 ts with
    | some (e, []) => some (.formula e)
    | _ => none

def saveCell (T : Table) (c : Cell) : StoredCell :=
  { sheet := c.sheet, row := c.row, col := c.col, style := c.style, content := saveContent T c.content }

def loadCell (iv : Nat → Bool) (fuel : Nat) (c : StoredCell) : Option Cell :=
  (loadContent iv fuel c.content).map fun k =>
    { sheet := c.sheet, row := c.row, col := c.col, style := c.style, content := k }

def loadAll (iv : Nat → Bool) (fuel : Nat) : List StoredCell → Option (List Cell)
  | [] => some []
  | c :: cs =>
    match loadCell iv fuel c, loadAll iv fuel cs with
    | some c', some cs' => some (c' :: cs')
    | _, _ => none

/-- the formulas of a cell are well-formed and avoid the table's failing entries -/
def Content.ok (iv : Nat → Bool) (T : Table) : Content → Prop
  | .plain _ => True
  | .formula e => e.wf iv = true ∧ e.noBad T = true

theorem reload_content (iv : Nat → Bool) (T : Table) (k : Content) (h : k.ok iv T) :
    ∃ f0, ∀ f, f0 ≤ f → loadContent iv f (saveContent T k) = some k := by
  cases k with
  | plain v => exact ⟨0, fun f _ => rfl⟩
  | formula e =>
    obtain ⟨f0, hf⟩ := roundtrip_partial iv T e h.1 h.2
    refine ⟨f0, fun f hle => ?_⟩
    simp [saveContent, loadContent, hf f hle]

theorem reload_cells (iv : Nat → Bool) (T : Table) (cs : List Cell)
    (h : ∀ c ∈ cs, c.content.ok iv T) :
    ∃ f0, ∀ f, f0 ≤ f → loadAll iv f (cs.map (saveCell T)) = some cs := by
  induction cs with
  | nil => exact ⟨0, fun _ _ => rfl⟩
  | cons c cs ih =>
    obtain ⟨f1, h1⟩ := reload_content iv T c.content (h c (List.mem_cons_self))
    obtain ⟨f2, h2⟩ := ih (fun c' hc' => h c' (List.mem_cons_of_mem _ hc'))
    refine ⟨max f1 f2, fun f hle => ?_⟩
    have a := h1 f (by omega)
    have b := h2 f (by omega)
    simp only [List.map_cons, loadAll, loadCell, saveCell, a, b, Option.map_some]

end IronCalc.Book
