import IronCalc.Book.Sheets
/-
  Defined names (C32): `new_defined_name`, `delete_defined_name`, `update_defined_name` of
  base/src/model.rs (and the order of checks of their `UserModel` wrappers in
  base/src/user_model/common.rs), on top of Book/Sheets.lean.

  Stored name formulas are language-free in this model: `user_formula_to_internal` turns the typed
  text into the internal English text, whose tree (`SNode`) is what the model keeps.  After the F10a
  repair no path re-parses a stored name formula with the active language (`parse_defined_names`,
  `duplicate_sheet` and `rename_sheet_by_index` all use `parse_internal_formula`), which is why no
  operation of this file or of Book/Sheets.lean takes a language or locale argument.
  Whether a spelling is an identifier (`is_valid_identifier`) and whether a formula is a reference or
  a LAMBDA are inputs (`validIdent`, the formula tree), decided by C22/C09's mechanisms.
-/
namespace IronCalc.Book
open IronCalc.RefTree

inductive NameErr where
  | badIdent | badScope | dnExists | dnNotFound | badIndex
  deriving DecidableEq, Repr

/-- scope given as a sheet index → scope stored as a sheet id -/
def scopeId (b : Book) (scope : Option Nat) : Option (Option Nat) :=
  match scope with
  | none => some none
  | some i => (b.sheets[i]?).map fun s => some s.id

/-- models base/src/model.rs::Model::is_valid_defined_name + new_defined_name -/
def newDefinedName (F : Fold) (b : Book) (validIdent : Bool) (name : String) (scope : Option Nat)
    (formula : SNode) : Except NameErr Book :=
  if !validIdent then .error .badIdent
  else match scopeId b scope with
    | none => .error .badScope
    | some sid =>
      if b.names.any (fun d => F.up d.name == F.up name && d.scope == sid) then .error .dnExists
      else .ok { b with names := b.names ++ [{ name := name, scope := sid, formula := formula }] }

/-- index of the LAST stored name with that spelling (ignoring case) and sheet id -/
def findNameIdx (F : Fold) (names : List DefName) (name : String) (sid : Option Nat) : Option Nat :=
  (names.zipIdx.foldl (fun acc (d, i) => if F.up d.name == F.up name && d.scope == sid then some i else acc) none)

/-- models base/src/model.rs::Model::delete_defined_name -/
def deleteDefinedName (F : Fold) (b : Book) (name : String) (scope : Option Nat) : Except NameErr Book :=
  match scopeId b scope with
  | none => .error .badIndex
  | some sid =>
    match findNameIdx F b.names name sid with
    | some i => .ok { b with names := b.names.eraseIdx i }
    | none => .error .dnNotFound

/-- the keys of `parsed_defined_names`: (scope as sheet index, lower-cased name); names whose sheet
    no longer exists are skipped (`parse_defined_names`: `continue`) -/
def parsedKeys (F : Fold) (b : Book) : List (Option Nat × String) :=
  b.names.filterMap fun d =>
    match d.scope with
    | none => some (none, F.low d.name)
    | some sid => (idIndex b.sheets sid).map fun i => (some i, F.low d.name)

/-- the rewrite of one stored formula when a name is renamed: parse, `rename_defined_name_in_node`, print -/
def rewriteName (F : Fold) (b : Book) (name : String) (scope : Option Nat) (new : String) (ctx : String)
    (f : SNode) : SNode :=
  strip (renameDefinedNameInNode F.low name scope new (resolve F b.sheetNames b.namesWithScope ctx f))

/-- models base/src/model.rs::Model::update_defined_name.  Only cell formulas are rewritten when the
    spelling changes (the stored formulas of other defined names are not). -/
def updateDefinedName (F : Fold) (b : Book) (validIdent : Bool) (name : String) (scope : Option Nat)
    (new : String) (newScope : Option Nat) (formula : SNode) : Except NameErr Book :=
  if !validIdent then .error .badIdent
  else if (F.up name != F.up new || scope != newScope)
      && (parsedKeys F b).any (fun k => F.up k.2 == F.up new && k.1 == newScope) then .error .dnExists
  else match scopeId b scope, scopeId b newScope with
    | none, _ => .error .badScope
    | _, none => .error .badScope
    | some sid, some newSid =>
      match findNameIdx F b.names name sid with
      | none => .error .dnNotFound
      | some i =>
        match b.names[i]? with
        | none => .error .dnNotFound
        | some d =>
          let sheets' := if new != d.name then
              b.sheets.map fun ws => { ws with formulas := ws.formulas.map (rewriteName F b name scope new ws.name) }
            else b.sheets
          .ok { sheets := sheets',
                names := b.names.set i { name := new, scope := newSid, formula := formula } }

/-! ### the evaluator's view of names -/

/-- models base/src/model.rs::Model::get_parsed_defined_name as a table lookup: the definition
    table is keyed by (scope index, lower-cased name) -/
abbrev DefTable (D : Type) := Option Nat → String → Option D

/-- what an identifier node denotes -/
def identDen {D : Type} (F : Fold) (tbl : DefTable D) (v : NameRes) (n : String) : Option D :=
  match v with
  | some s => tbl s (F.low n)
  | none => none

/-- the table after renaming the definition keyed `(scope, low old)` to `(scope, low new)` -/
def renameTable {D : Type} (F : Fold) (tbl : DefTable D) (old : String) (scope : Option Nat) (new : String) :
    DefTable D :=
  fun s k =>
    if s = scope ∧ k = F.low new then tbl scope (F.low old)
    else if s = scope ∧ k = F.low old then none
    else tbl s k

/-- the table after ONE update that changes spelling and scope together: the definition keyed
    `(scope, low old)` moves to `(newScope, low new)` (`update_defined_name` sets `df.name` and
    `df.sheet_id` in the same call) -/
def updateTable {D : Type} (F : Fold) (tbl : DefTable D) (old : String) (scope : Option Nat) (new : String)
    (newScope : Option Nat) : DefTable D :=
  fun s k =>
    if s = newScope ∧ k = F.low new then tbl scope (F.low old)
    else if s = scope ∧ k = F.low old then none
    else tbl s k

/-- one identifier through `rename_defined_name_in_node(name, scope, new)` (the OLD scope selects the
    users) followed by the re-parse, on a sheet from which the moved definition is what the new
    spelling denotes: the user is re-spelled and bound to the new scope, every other identifier is kept -/
def retargetIdent (lower : String → String) (name : String) (scope : Option Nat) (new : String)
    (newScope : Option Nat) (v : NameRes) (n : String) : NameRes × String :=
  match v with
  | some s => if lower name = lower n ∧ s = scope then (some newScope, new) else (v, n)
  | none => (v, n)

def retargetNameInNode (lower : String → String) (name : String) (scope : Option Nat) (new : String)
    (newScope : Option Nat) : Node → Node :=
  Tree.map (fun _ r => r) (retargetIdent lower name scope new newScope)

/-- the name list (with scope indices) after the rename -/
def renameDefs (F : Fold) (dns : List (String × Option Nat)) (old : String) (scope : Option Nat) (new : String) :
    List (String × Option Nat) :=
  dns.map fun d => if F.low d.1 = F.low old ∧ d.2 = scope then (new, d.2) else d

end IronCalc.Book
