/-
  M-Book / Build — the cell-level part of `Model::set_user_input` (base/src/model.rs):
  how typed content is stored through the interning tables.

    formulas : `Worksheet::shared_formulas`, keyed by the R1C1 text of the parsed formula
               (`set_cell_with_formula`: look the text up, push when absent, store the index)
    strings  : `Workbook::shared_strings` (`set_cell_with_string`: same discipline)
    styles   : the style pool (`get_style_with_format` / `get_style_with_quote_prefix`: the
               index of an equal style, pushed when absent)

  Indices depend on the ORDER in which content was entered; `decode` (what the cell means:
  the text behind the indices) does not.  No Mathlib.
-/
namespace IronCalc.Build

abbrev Coord := Nat

/-- a classified user input for one cell (classification itself is C18/C19) -/
inductive Input where
  | num (n : Int) (fmt : String)     -- number, with the number format its text implied ("" = none)
  | bool (b : Bool)
  | text (s : String)
  | formula (rc : String) (fmt : String)   -- R1C1 text of the parsed formula, format from units
  deriving DecidableEq, Repr

/-- models base/src/types.rs::Cell, the non-array kinds; `s` = style index -/
inductive Stored where
  | num (n : Int) (s : Nat)
  | bool (b : Bool) (s : Nat)
  | str (si : Nat) (s : Nat)
  | formula (f : Nat) (s : Nat)
  deriving DecidableEq, Repr

/-- what a cell means, with every index replaced by what it points to -/
inductive Content where
  | num (n : Int) (fmt : String)
  | bool (b : Bool) (fmt : String)
  | text (s : String) (fmt : String)
  | formula (rc : String) (fmt : String)
  deriving DecidableEq, Repr

structure Sheet where
  cells : Coord → Option Stored
  formulas : List String
  strings : List String
  styles : List String          -- a style is represented by its number format
  deriving Inhabited

def Sheet.empty : Sheet := { cells := fun _ => none, formulas := [], strings := [], styles := [""] }

/-- look `x` up in a table; push it when absent; return (index, new table).
    models the `iter().position(..)` / `push` pairs of set_cell_with_formula, set_cell_with_string
    and `Styles::get_style_index_or_create` -/
def indexOf : List String → String → Option Nat
  | [], _ => none
  | y :: ys, x => if y = x then some 0 else (indexOf ys x).map (· + 1)

def intern (tbl : List String) (x : String) : Nat × List String :=
  match indexOf tbl x with
  | some i => (i, tbl)
  | none => (tbl.length, tbl ++ [x])

/-- models `set_user_input` for one classified input (after `prepare_cell_for_user_input`) -/
def setInput (s : Sheet) (c : Coord) : Input → Sheet
  | .num n fmt =>
    let (si, st) := intern s.styles fmt
    { s with cells := fun d => if d = c then some (.num n si) else s.cells d, styles := st }
  | .bool b =>
    let (si, st) := intern s.styles ""
    { s with cells := fun d => if d = c then some (.bool b si) else s.cells d, styles := st }
  | .text t =>
    let (si, st) := intern s.styles ""
    let (ti, tt) := intern s.strings t
    { s with cells := fun d => if d = c then some (.str ti si) else s.cells d, styles := st,
             strings := tt }
  | .formula rc fmt =>
    let (si, st) := intern s.styles fmt
    let (fi, ft) := intern s.formulas rc
    { s with cells := fun d => if d = c then some (.formula fi si) else s.cells d, styles := st,
             formulas := ft }

def build (s : Sheet) (l : List (Coord × Input)) : Sheet :=
  l.foldl (fun s p => setInput s p.1 p.2) s

def decodeStored (s : Sheet) : Stored → Option Content
  | .num n si => (s.styles[si]?).map fun f => .num n f
  | .bool b si => (s.styles[si]?).map fun f => .bool b f
  | .str ti si => do
    let t ← s.strings[ti]?
    let f ← s.styles[si]?
    pure (.text t f)
  | .formula fi si => do
    let rc ← s.formulas[fi]?
    let f ← s.styles[si]?
    pure (.formula rc f)

/-- the observable content of a cell (never an index) -/
def decode (s : Sheet) (c : Coord) : Option Content :=
  (s.cells c).bind (decodeStored s)

def contentOf : Input → Content
  | .num n fmt => .num n fmt
  | .bool b => .bool b ""
  | .text t => .text t ""
  | .formula rc fmt => .formula rc fmt

end IronCalc.Build
