import IronCalc.Codec.RefsProofs
import IronCalc.Codec.SheetName
/-
  Helper lemmas for sheet-name quoting (C22).
-/
namespace IronCalc.Codec

/-- what the theorems need from the character classes (an obligation on the extracted table) -/
structure CharClassOK (cc : CharClass) : Prop where
  bang_not_white : cc.white '!' = false
  bang_not_alnum : cc.alnum '!' = false
  bracket_not_white : cc.white ']' = false
  alpha_alnum : ∀ c, cc.alpha c = true → cc.alnum c = true
  quote_not_alpha : cc.alpha '\'' = false
  colon_not_alnum : cc.alnum ':' = false

theorem scanQuoted_escape (n tail : List Char) (h : stops (· == '\'') tail = true) :
    scanQuoted (escapeQuotes n ++ '\'' :: tail) = some (escapeQuotes n, tail) := by
  induction n with
  | nil =>
    simp only [escapeQuotes, List.nil_append]
    cases tail with
    | nil => simp [scanQuoted]
    | cons d t =>
      have hd : d ≠ '\'' := by simpa [stops] using h
      simp [scanQuoted, hd]
  | cons c t ih =>
    by_cases hc : c = '\''
    · subst hc
      simp only [escapeQuotes, if_true, List.cons_append]
      rw [scanQuoted]
      simp only [if_true]
      rw [ih]
    · simp only [escapeQuotes, hc, if_false, List.cons_append]
      rw [scanQuoted.eq_def]
      simp only [hc, if_false]
      rw [ih]

theorem unescape_escape (n : List Char) : unescapeQuotes (escapeQuotes n) = n := by
  induction n with
  | nil => rfl
  | cons c t ih =>
    by_cases hc : c = '\''
    · subst hc
      simp only [escapeQuotes, if_true]
      rw [unescapeQuotes]
      simp [ih]
    · simp only [escapeQuotes, hc, if_false]
      cases he : escapeQuotes t with
      | nil =>
        rw [he] at ih
        rw [← ih]; rfl
      | cons d u =>
        rw [unescapeQuotes]
        simp only [hc, false_and, if_false]
        rw [← he, ih]

theorem consumeSingleQuoteString_escape (n tail : List Char) (h : stops (· == '\'') tail = true) :
    consumeSingleQuoteString (escapeQuotes n ++ '\'' :: tail) = some (n, tail) := by
  unfold consumeSingleQuoteString
  rw [scanQuoted_escape n tail h]
  simp [unescape_escape]

/-- the quoted form is read back, whatever the name -/
theorem lexSheetPrefix_quoted (cc : CharClass) (hcc : CharClassOK cc) (n rest : List Char) :
    lexSheetPrefix cc (quoteWith true n ++ '!' :: rest) = some (n, rest) := by
  unfold quoteWith lexSheetPrefix
  simp only [if_true, List.cons_append, List.append_assoc, List.nil_append]
  rw [consumeSingleQuoteString_escape n ('!' :: rest) (by simp [stops])]
  simp [List.dropWhile, hcc.bang_not_white]

theorem isIdentChar_bang (cc : CharClass) (hcc : CharClassOK cc) : isIdentChar cc '!' = false := by
  simp [isIdentChar, hcc.bang_not_alnum]

theorem isIdentStart_identChar (cc : CharClass) (hcc : CharClassOK cc) (c : Char)
    (h : isIdentStart cc c = true) : isIdentChar cc c = true := by
  unfold isIdentStart at h; unfold isIdentChar
  simp only [Bool.or_eq_true, decide_eq_true_eq] at h ⊢
  rcases h with h | h
  · exact Or.inl (Or.inl (hcc.alpha_alnum c h))
  · exact Or.inl (Or.inr h)

/-- the unquoted form is read back when the name looks like an identifier -/
theorem lexSheetPrefix_unquoted (cc : CharClass) (hcc : CharClassOK cc) (n rest : List Char)
    (hne : n ≠ []) (hid : looksLikeIdent cc n = true) :
    lexSheetPrefix cc (quoteWith false n ++ '!' :: rest) = some (n, rest) := by
  cases n with
  | nil => exact absurd rfl hne
  | cons c t =>
    simp only [looksLikeIdent, Bool.and_eq_true] at hid
    obtain ⟨hs, ht⟩ := hid
    have hq : c ≠ '\'' := by
      intro e; subst e
      simp [isIdentStart, hcc.quote_not_alpha] at hs
    have hall : (c :: t).all (isIdentChar cc) = true := by
      simp only [List.all_cons, Bool.and_eq_true]
      exact ⟨isIdentStart_identChar cc hcc c hs, ht⟩
    unfold quoteWith lexSheetPrefix
    simp only [Bool.false_eq_true, if_false, List.cons_append, hq, hs, if_true]
    have hstop : stops (isIdentChar cc) ('!' :: rest) = true := by
      simp [stops, isIdentChar_bang cc hcc]
    have e1 := dropWhile_app (isIdentChar cc) (c :: t) ('!' :: rest) hall hstop
    have e2 := takeWhile_app (isIdentChar cc) (c :: t) ('!' :: rest) hall hstop
    simp only [List.cons_append] at e1 e2
    rw [e1, e2]
    simp

end IronCalc.Codec
