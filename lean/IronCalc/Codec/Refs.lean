import IronCalc.Codec.Column
/-
  C22 — cell references and ranges in A1 and R1C1 form: printing and parsing.
  Strings are `List Char`, a lexer position is the remaining suffix of the input.
  Errors (`Err(..)`, `TokenType::Illegal`) are `none`.
-/
namespace IronCalc.Codec

/-- the three Unicode character classes the lexer consults (`char::is_alphabetic`,
    `char::is_alphanumeric`, `char::is_whitespace`): a parameter of the model; the driver
    instantiates it with the table extracted from the running code. -/
structure CharClass where
  alpha : Char → Bool
  alnum : Char → Bool
  white : Char → Bool

-- models expressions/types.rs::ParsedReference
structure PRef where
  column : Int
  row : Int
  absCol : Bool
  absRow : Bool
deriving DecidableEq, Repr

-- models expressions/types.rs::ParsedRange
structure PRange where
  left : PRef
  right : Option PRef
deriving DecidableEq, Repr

/-! ### decimal integers (Rust `format!("{}", i32)` and `str::parse::<i32>`) -/

def digitChar (d : Nat) : Char := Char.ofNat (48 + d)

def natToDecGo (n : Nat) (acc : List Char) : List Char :=
  if h : n < 10 then digitChar n :: acc
  else natToDecGo (n / 10) (digitChar (n % 10) :: acc)
termination_by n
decreasing_by omega

/-- `format!("{n}")` for a non-negative integer -/
def natToDec (n : Nat) : List Char := natToDecGo n []

/-- `format!("{i}")` for an `i32` -/
def intToDec (i : Int) : List Char :=
  if i < 0 then '-' :: natToDec i.natAbs else natToDec i.toNat

def decToNat (s : List Char) : Nat := s.foldl (fun a c => a * 10 + (c.toNat - 48)) 0

/-- `str::parse::<i32>`: optional sign, at least one ASCII digit, range check -/
def parseI32 (s : List Char) : Option Int :=
  match s with
  | [] => none
  | c :: t =>
    if c = '-' then
      if t.isEmpty || !t.all isDigit then none
      else if decToNat t > 2147483648 then none else some (-(decToNat t : Int))
    else
      let ds := if c = '+' then t else s
      if ds.isEmpty || !ds.all isDigit then none
      else if decToNat ds > 2147483647 then none else some (decToNat ds : Int)

/-! ### printing -/

def refErr : List Char := ['#', 'R', 'E', 'F', '!']

-- models parser/stringify.rs::stringify_reference, `context = Some(..)`, `DisplaceData::None`.
-- `pre` is the sheet prefix `quote_name(name) ++ "!"` (empty without a sheet name, see SheetName.lean);
-- the `#REF!` returns happen before the prefix is added.
def printA1 (pre : List Char) (ctxRow ctxCol : Int) (r : PRef) (fullRow fullCol : Bool) : List Char :=
  let row := if r.absRow then r.row else r.row + ctxRow
  let col := if r.absCol then r.column else r.column + ctxCol
  -- after fix F12b: `if !(1..=LAST_ROW).contains(&row)`
  if row < 1 ∨ row > (LAST_ROW : Int) then refErr else
  match numberToColumn col with
  | none => refErr
  | some s =>
    let rowAbs := if fullRow then [] else if r.absRow then '$' :: intToDec row else intToDec row
    let colAbs := if fullCol then [] else if r.absCol then '$' :: s else s
    pre ++ (colAbs ++ rowAbs)

-- models parser/stringify.rs::stringify_reference, `context = None` (R1C1)
def printR1C1 (pre : List Char) (r : PRef) : List Char :=
  let rowAbs := if r.absRow then 'R' :: intToDec r.row else 'R' :: '[' :: intToDec r.row ++ [']']
  let colAbs := if r.absCol then 'C' :: intToDec r.column else 'C' :: '[' :: intToDec r.column ++ [']']
  pre ++ (rowAbs ++ colAbs)

-- models the `full_row` / `full_column` computation of parser/stringify.rs::stringify (RangeKind arm),
-- after fix F22b: the whole sheet strips only its rows (`$A:$XFD`)
def fullRowOf (a b : PRef) : Bool :=
  a.absRow && b.absRow && a.row == 1 && b.row == (LAST_ROW : Int)
def fullColOf (a b : PRef) : Bool :=
  !fullRowOf a b && (a.absCol && b.absCol && a.column == 1 && b.column == (LAST_COLUMN : Int))
/-- the pinned tree's `full_column` (before fix F22b) -/
def fullColOfPinned (a b : PRef) : Bool :=
  a.absCol && b.absCol && a.column == 1 && b.column == (LAST_COLUMN : Int)

-- models parser/stringify.rs::stringify, RangeKind arm in A1 mode (the second endpoint has no prefix)
def printRangeA1 (pre : List Char) (ctxRow ctxCol : Int) (a b : PRef) : List Char :=
  printA1 pre ctxRow ctxCol a (fullRowOf a b) (fullColOf a b) ++ ':' ::
    printA1 [] ctxRow ctxCol b (fullRowOf a b) (fullColOf a b)

/-- the pinned tree's RangeKind arm (before fix F22b) -/
def printRangeA1Pinned (pre : List Char) (ctxRow ctxCol : Int) (a b : PRef) : List Char :=
  printA1 pre ctxRow ctxCol a (fullRowOf a b) (fullColOfPinned a b) ++ ':' ::
    printA1 [] ctxRow ctxCol b (fullRowOf a b) (fullColOfPinned a b)

-- RangeKind arm in R1C1 mode: `full_row`/`full_column` are ignored by the `None` context branch
def printRangeR1C1 (pre : List Char) (a b : PRef) : List Char := printR1C1 pre a ++ ':' :: printR1C1 [] b

/-! ### A1 parsing (lexer/ranges.rs) -/

def isLower (c : Char) : Bool := 97 ≤ c.toNat && c.toNat ≤ 122
def isAsciiAlpha (c : Char) : Bool := isUpper c || isLower c
/-- `char::to_ascii_uppercase` -/
def asciiUpper (c : Char) : Char := if isLower c then Char.ofNat (c.toNat - 32) else c

/-- an optional leading `$` -/
def stripDollar (s : List Char) : Bool × List Char :=
  match s with
  | [] => (false, [])
  | c :: t => if c = '$' then (true, t) else (false, s)

/-- an optional `$` followed by `body` -/
def withDollar (abs : Bool) (body : List Char) : List Char := if abs then '$' :: body else body

-- models lexer/ranges.rs::consume_reference_a1
def consumeReferenceA1 (s : List Char) : Option (PRef × List Char) :=
  let s1 := stripDollar s
  let col := (s1.2.takeWhile isAsciiAlpha).map asciiUpper
  let s2 := s1.2.dropWhile isAsciiAlpha
  if col.isEmpty then none else
  let s3 := stripDollar s2
  let row := s3.2.takeWhile isDigit
  let s4 := s3.2.dropWhile isDigit
  match columnToNumber col with
  | none => none
  | some c =>
    match parseI32 row with
    | none => none
    | some r =>
      if r > (LAST_ROW : Int) then none
      else some ({ column := c, row := r, absCol := s1.1, absRow := s3.1 }, s4)

def isAlphaOrDigit (c : Char) : Bool := isAsciiAlpha c || isDigit c

/-- the fallback branch of consume_range_a1: row-only (`3:5`) and column-only (`A:C`) ranges -/
def consumeOpenRangeA1 (s : List Char) : Option (PRange × List Char) :=
  let l := stripDollar s
  let lrun := l.2.takeWhile isAlphaOrDigit
  let colL := (lrun.filter isAsciiAlpha).map asciiUpper
  let rowL := lrun.filter isDigit
  match l.2.dropWhile isAlphaOrDigit with
  | [] => none
  | c :: afterColon =>
    if c ≠ ':' then none else
    let r := stripDollar afterColon
    let rrun := r.2.takeWhile isAlphaOrDigit
    let colR := (rrun.filter isAsciiAlpha).map asciiUpper
    let rowR := rrun.filter isDigit
    let rest := r.2.dropWhile isAlphaOrDigit
    if !rowL.isEmpty then
      if rowR.isEmpty || !colL.isEmpty || !colR.isEmpty then none else
      match parseI32 rowL, parseI32 rowR with
      | some a, some b =>
        if a > (LAST_ROW : Int) || b > (LAST_ROW : Int) then none
        else some ({ left := { column := 1, row := a, absCol := true, absRow := l.1 },
                     right := some { column := (LAST_COLUMN : Int), row := b, absCol := true, absRow := r.1 } }, rest)
      | _, _ => none
    else
      if colR.isEmpty || !rowR.isEmpty then none else
      match columnToNumber colL, columnToNumber colR with
      | some a, some b =>
        some ({ left := { column := a, row := 1, absCol := l.1, absRow := true },
                right := some { column := b, row := (LAST_ROW : Int), absCol := r.1, absRow := true } }, rest)
      | _, _ => none

-- models lexer/ranges.rs::consume_range_a1
def consumeRangeA1 (s : List Char) : Option (PRange × List Char) :=
  match consumeReferenceA1 s with
  | some (cell, rest) =>
    match rest with
    | [] => some ({ left := cell, right := none }, rest)
    | c :: rest' =>
      if c = ':' then
        match consumeReferenceA1 rest' with
        | some (cell2, rest2) => some ({ left := cell, right := some cell2 }, rest2)
        | none => none
      else some ({ left := cell, right := none }, rest)
  | none => consumeOpenRangeA1 s

/-! ### R1C1 parsing (lexer/ranges.rs) -/

/-- `[`n`]` or n after the `R` / `C` letter: models the `match self.peek_char()` blocks of
    consume_reference_r1c1 (inside brackets consume_integer reads one arbitrary first character
    followed by ASCII digits; without brackets the first character must be a digit; `self.expect(TokenType::RightBracket)` skips whitespace first).
    Returns (value, absolute, rest). -/
def consumeR1C1Part (cc : CharClass) (s : List Char) : Option (Int × Bool × List Char) :=
  match s with
  | [] => none
  | c :: t =>
    if c = '[' then
      match t with
      | [] => none
      | d :: u =>
        match parseI32 (d :: u.takeWhile isDigit) with
        | none => none
        | some v =>
          match (u.dropWhile isDigit).dropWhile cc.white with
          | [] => none
          | e :: rest => if e = ']' then some (v, false, rest) else none
    else
      -- fix F26-r1c-name: an absolute row / column is a plain number (`if !c.is_ascii_digit()`): the
      -- pinned tree took any first character, so that `R1C+1` was read as the reference R1C1
      if !isDigit c then none else
      match parseI32 (c :: t.takeWhile isDigit) with
      | none => none
      | some v => some (v, true, t.dropWhile isDigit)

-- models lexer/ranges.rs::consume_reference_r1c1
def consumeReferenceR1C1 (cc : CharClass) (s : List Char) : Option (PRef × List Char) :=
  match s with
  | [] => none
  | c :: t =>
    if c ≠ 'R' then none else
    match consumeR1C1Part cc t with
    | none => none
    | some (row, absRow, t2) =>
      match t2 with
      | [] => none
      | c2 :: t3 =>
        if c2 ≠ 'C' then none else
        match consumeR1C1Part cc t3 with
        | none => none
        | some (col, absCol, rest) =>
          match rest with
          | [] => some ({ column := col, row := row, absCol := absCol, absRow := absRow }, rest)
          | e :: _ =>
            if cc.alnum e then none
            else some ({ column := col, row := row, absCol := absCol, absRow := absRow }, rest)

-- models lexer/ranges.rs::consume_range_r1c1
def consumeRangeR1C1 (cc : CharClass) (s : List Char) : Option (PRange × List Char) :=
  match consumeReferenceR1C1 cc s with
  | none => none
  | some (cell, rest) =>
    match rest with
    | [] => some ({ left := cell, right := none }, rest)
    | c :: rest' =>
      if c = ':' then
        match consumeReferenceR1C1 cc rest' with
        | some (cell2, rest2) => some ({ left := cell, right := some cell2 }, rest2)
        | none => none
      else some ({ left := cell, right := none }, rest)

/-! ### whole-string reference parsers of utils/mod.rs (used by quoting and by the lexer) -/

structure A1Acc where
  col : List Char
  row : List Char
  absCol : Bool
  absRow : Bool
  inRow : Bool      -- `state == 2`

/-- one iteration of the `for ch in chars` loop of parse_reference_a1 -/
def a1Step (a : A1Acc) (ch : Char) : Option A1Acc :=
  if isUpper ch && !a.inRow then some { a with col := a.col ++ [ch] }
  else if isDigit ch then some { a with row := a.row ++ [ch], inRow := true }
  else if ch = '$' then
    if a.col.isEmpty then some { a with absCol := true }
    else if !a.inRow then some { a with absRow := true, inRow := true }
    else none
  else none

def a1Loop : List Char → A1Acc → Option A1Acc
  | [], a => some a
  | c :: t, a => match a1Step a c with
    | none => none
    | some a' => a1Loop t a'

-- models utils/mod.rs::parse_reference_a1
def parseReferenceA1 (s : List Char) : Option PRef :=
  match a1Loop s { col := [], row := [], absCol := false, absRow := false, inRow := false } with
  | none => none
  | some a =>
    if !isValidColumn a.col then none else
    match parseI32 a.row with
    | none => none
    | some r =>
      if !isValidRow r then none else
      match columnToNumber a.col with
      | none => none
      | some c => some { column := c, row := r, absCol := a.absCol, absRow := a.absRow }

/-- `[`-?digits`]` or digits after `R`/`C` in parse_reference_r1c1: (text, absolute, rest).
    (The row part indexes `chars[i]` unguarded, which is safe because `len ≥ 4`; the column part
    guards with `i < len`; the two are the same function of the remaining input.) -/
def r1c1PartStr (s : List Char) : Option (List Char × Bool × List Char) :=
  match s with
  | c :: t =>
    if c = '[' then
      let su : List Char × List Char := match t with
        | d :: u => if d = '-' then (['-'], u) else ([], t)
        | [] => ([], [])
      match su.2.dropWhile isDigit with
      | e :: rest => if e = ']' then some (su.1 ++ su.2.takeWhile isDigit, false, rest) else none
      | [] => none
    else some (s.takeWhile isDigit, true, s.dropWhile isDigit)
  | [] => some ([], true, [])

-- models utils/mod.rs::parse_reference_r1c1 (the byte string is modelled by the char list:
-- every accepted input is ASCII, and a string with < 4 chars and ≥ 4 bytes is rejected anyway)
def parseReferenceR1C1 (s : List Char) : Option PRef :=
  if s.length < 4 then none else
  match s with
  | [] => none
  | c :: t =>
    if c ≠ 'R' then none else
    match r1c1PartStr t with
    | none => none
    | some (row, absRow, t2) =>
      match t2 with
      | [] => none
      | c2 :: t3 =>
        if c2 ≠ 'C' then none else
        match r1c1PartStr t3 with
        | none => none
        | some (col, absCol, rest) =>
          if !rest.isEmpty then none else
          some { row := (parseI32 row).getD 0, column := (parseI32 col).getD 0,
                 absCol := absCol, absRow := absRow }

/-! ### the parser's token → node step (parser/mod.rs, `TokenType::Reference` / `Range` arms) -/

/-- A1 mode: relative coordinates are stored relative to the context cell -/
def tokenToNode (ctxRow ctxCol : Int) (t : PRef) : PRef :=
  { t with row := if t.absRow then t.row else t.row - ctxRow,
           column := if t.absCol then t.column else t.column - ctxCol }

/-- A1 mode, Range arm: endpoints are re-ordered (with their flags) before being made relative -/
def rangeTokenToNode (ctxRow ctxCol : Int) (l r : PRef) : PRef × PRef :=
  let (r1, ar1, r2, ar2) := if l.row > r.row then (r.row, r.absRow, l.row, l.absRow) else (l.row, l.absRow, r.row, r.absRow)
  let (c1, ac1, c2, ac2) := if l.column > r.column then (r.column, r.absCol, l.column, l.absCol)
                            else (l.column, l.absCol, r.column, r.absCol)
  (tokenToNode ctxRow ctxCol { column := c1, row := r1, absCol := ac1, absRow := ar1 },
   tokenToNode ctxRow ctxCol { column := c2, row := r2, absCol := ac2, absRow := ar2 })

end IronCalc.Codec
