import IronCalc.Codec.Refs
import IronCalc.Generated.CharClass
/-
  The concrete character classes of the running code: `Generated/CharClass.lean` is rewritten by
  `harness extract` on every run from `char::is_alphabetic`, `char::is_numeric` (`is_alphanumeric` = alphabetic or numeric; the extractor checks this identity on every code point),
  `char::is_whitespace` over every code point (sorted, disjoint, inclusive ranges).
-/
namespace IronCalc.Codec

/-- membership in a sorted list of inclusive ranges (early exit) -/
def inRanges : List (Nat × Nat) → Nat → Bool
  | [], _ => false
  | (a, b) :: t, n => if n < a then false else if n ≤ b then true else inRanges t n

def unicodeCC : CharClass where
  alpha c := inRanges IronCalc.Generated.alphabeticRanges c.toNat
  alnum c := inRanges IronCalc.Generated.alphabeticRanges c.toNat || inRanges IronCalc.Generated.numericRanges c.toNat
  white c := inRanges IronCalc.Generated.whitespaceRanges c.toNat

end IronCalc.Codec
