import IronCalc.Codec.Refs
/-
  C22 — sheet names: quoting (utils/mod.rs::quote_name) and the two ways the lexer reads a sheet
  prefix back (lexer/mod.rs: consume_quoted_sheet_reference / consume_single_quote_string, and the
  identifier path `consume_identifier` followed by `!`).
-/
namespace IronCalc.Codec

/-- the characters consume_identifier accepts -/
def isIdentChar (cc : CharClass) (c : Char) : Bool := cc.alnum c || c = '_' || c = '.'
/-- the characters next_token starts an identifier on -/
def isIdentStart (cc : CharClass) (c : Char) : Bool := cc.alpha c || c = '_'

def looksLikeIdent (cc : CharClass) (name : List Char) : Bool :=
  match name with
  | [] => true
  | c :: t => isIdentStart cc c && t.all (isIdentChar cc)

-- models utils/mod.rs::name_needs_quoting (the repaired rule, fix F22a)
def nameNeedsQuoting (cc : CharClass) (name : List Char) : Bool :=
  !looksLikeIdent cc name || (parseReferenceA1 name).isSome || (parseReferenceR1C1 name).isSome

def quotingList : List Char := [' ', '(', ')', '\'', '$', ',', ';', '-', '+', '{', '}']

-- models utils/mod.rs::name_needs_quoting of the pinned tree (before fix F22a): a fixed list
def nameNeedsQuotingPinned (name : List Char) : Bool :=
  name.any (fun c => quotingList.contains c) ||
  (match name with | c :: _ => isDigit c | [] => false) ||
  (parseReferenceA1 name).isSome || (parseReferenceR1C1 name).isSome

/-- `name.replace('\'', "''")` -/
def escapeQuotes : List Char → List Char
  | [] => []
  | c :: t => if c = '\'' then '\'' :: '\'' :: escapeQuotes t else c :: escapeQuotes t

-- models utils/mod.rs::quote_name, parameterised by the quoting decision
def quoteWith (needs : Bool) (name : List Char) : List Char :=
  if needs then '\'' :: escapeQuotes name ++ ['\''] else name

def quoteName (cc : CharClass) (name : List Char) : List Char :=
  quoteWith (nameNeedsQuoting cc name) name

def quoteNamePinned (name : List Char) : List Char :=
  quoteWith (nameNeedsQuotingPinned name) name

/-- the scanning loop of consume_single_quote_string, started after the opening quote:
    (the raw slice up to the closing quote, the input after the closing quote) -/
def scanQuoted : List Char → Option (List Char × List Char)
  | [] => none
  | c :: t =>
    if c = '\'' then
      match t with
      | [] => some ([], [])
      | d :: t' =>
        if d = '\'' then
          match scanQuoted t' with
          | some (r, rest) => some ('\'' :: '\'' :: r, rest)
          | none => none
        else some ([], t)
    else
      match scanQuoted t with
      | some (r, rest) => some (c :: r, rest)
      | none => none

/-- `chars.replace("''", "'")` (leftmost, non-overlapping) -/
def unescapeQuotes : List Char → List Char
  | [] => []
  | [c] => [c]
  | c :: d :: t =>
    if c = '\'' ∧ d = '\'' then '\'' :: unescapeQuotes t else c :: unescapeQuotes (d :: t)

-- models lexer/mod.rs::consume_single_quote_string (started after the opening quote)
def consumeSingleQuoteString (s : List Char) : Option (List Char × List Char) :=
  match scanQuoted s with
  | none => none
  | some (raw, rest) => some (unescapeQuotes raw, rest)

/-- How the lexer reads a sheet prefix `name!`: returns the sheet name and the input after `!`.
    Quoted: consume_quoted_sheet_reference (the `!` is found by `next_token`, which skips
    white space).  Unquoted: the identifier branch of next_token with `peek_char() == '!'`. -/
def lexSheetPrefix (cc : CharClass) (s : List Char) : Option (List Char × List Char) :=
  match s with
  | [] => none
  | c :: t =>
    if c = '\'' then
      match consumeSingleQuoteString t with
      | none => none
      | some (name, rest) =>
        match rest.dropWhile cc.white with
        | [] => none
        | e :: rest' => if e = '!' then some (name, rest') else none
    else if isIdentStart cc c then
      match s.dropWhile (isIdentChar cc) with
      | [] => none
      | e :: rest' => if e = '!' then some (s.takeWhile (isIdentChar cc), rest') else none
    else none

end IronCalc.Codec
