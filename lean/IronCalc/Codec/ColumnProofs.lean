import IronCalc.Codec.Column
/-
  Helper lemmas for the column codec (C22).
-/
namespace IronCalc.Codec

theorem numToColGo_acc (i : Nat) (acc : List Char) : numToColGo i acc = numToColGo i [] ++ acc := by
  induction i using Nat.strongRecOn generalizing acc with
  | _ i ih =>
    by_cases h : i = 0
    · subst h; rw [numToColGo, numToColGo.eq_1 0 []]; simp
    · rw [numToColGo, numToColGo.eq_1 i []]
      simp only [h, dite_false]
      rw [ih ((i - 1) / 26) (by omega) (_ :: acc), ih ((i - 1) / 26) (by omega) [_]]
      simp

theorem numToCol_zero : numToCol 0 = [] := by
  unfold numToCol; rw [numToColGo]; simp

theorem numToCol_succ (i : Nat) (h : i ≠ 0) :
    numToCol i = numToCol ((i - 1) / 26) ++ [Char.ofNat (65 + (i - 1) % 26)] := by
  unfold numToCol
  rw [numToColGo]
  simp only [h, dite_false]
  rw [numToColGo_acc]

theorem colToNum_nil : colToNum [] = 0 := rfl

theorem colToNum_snoc (s : List Char) (c : Char) :
    colToNum (s ++ [c]) = colToNum s * 26 + (c.toNat - 64) := by
  unfold colToNum; rw [List.foldl_append]; rfl

theorem letter_toNat : ∀ r, r < 26 → (Char.ofNat (65 + r)).toNat = 65 + r := by decide

theorem isUpper_letter : ∀ r, r < 26 → isUpper (Char.ofNat (65 + r)) = true := by decide

theorem isUpper_iff (c : Char) : isUpper c = true ↔ 65 ≤ c.toNat ∧ c.toNat ≤ 90 := by
  unfold isUpper; simp

/-- number → letters → number, every natural -/
theorem colToNum_numToCol (n : Nat) : colToNum (numToCol n) = n := by
  induction n using Nat.strongRecOn with
  | _ n ih =>
    by_cases h : n = 0
    · subst h; rw [numToCol_zero]; rfl
    · rw [numToCol_succ n h, colToNum_snoc, ih _ (by omega), letter_toNat _ (Nat.mod_lt _ (by decide))]
      omega

theorem numToCol_all_upper (n : Nat) : (numToCol n).all isUpper = true := by
  induction n using Nat.strongRecOn with
  | _ n ih =>
    by_cases h : n = 0
    · subst h; rw [numToCol_zero]; rfl
    · rw [numToCol_succ n h, List.all_append, ih _ (by omega)]
      simp [isUpper_letter _ (Nat.mod_lt (n - 1) (by decide : 0 < 26))]

theorem numToCol_ne_nil (n : Nat) (h : n ≠ 0) : numToCol n ≠ [] := by
  rw [numToCol_succ n h]; simp

theorem numToCol_colToNum_rev (r : List Char) (hs : r.all isUpper = true) :
    numToCol (colToNum r.reverse) = r.reverse := by
  induction r with
  | nil => simp [colToNum_nil, numToCol_zero]
  | cons c t ih =>
    simp only [List.all_cons, Bool.and_eq_true] at hs
    obtain ⟨hc, ht⟩ := hs
    rw [isUpper_iff] at hc
    rw [List.reverse_cons, colToNum_snoc]
    have hne : colToNum t.reverse * 26 + (c.toNat - 64) ≠ 0 := by omega
    rw [numToCol_succ _ hne]
    have e1 : (colToNum t.reverse * 26 + (c.toNat - 64) - 1) / 26 = colToNum t.reverse := by omega
    have e2 : 65 + (colToNum t.reverse * 26 + (c.toNat - 64) - 1) % 26 = c.toNat := by omega
    rw [e1, e2, ih ht, Char.ofNat_toNat]

/-- letters → number → letters, every string of upper-case letters (any length) -/
theorem numToCol_colToNum (s : List Char) (hs : s.all isUpper = true) : numToCol (colToNum s) = s := by
  have := numToCol_colToNum_rev s.reverse (by simpa using hs)
  simpa using this

theorem numToCol_length_le3 (n : Nat) (h : n ≤ 18278) : (numToCol n).length ≤ 3 := by
  by_cases h0 : n = 0
  · subst h0; rw [numToCol_zero]; simp
  rw [numToCol_succ n h0]
  by_cases h1 : (n - 1) / 26 = 0
  · rw [h1, numToCol_zero]; simp
  rw [numToCol_succ _ h1]
  by_cases h2 : ((n - 1) / 26 - 1) / 26 = 0
  · rw [h2, numToCol_zero]; simp
  rw [numToCol_succ _ h2]
  have h3 : (((n - 1) / 26 - 1) / 26 - 1) / 26 = 0 := by omega
  rw [h3, numToCol_zero]; simp

end IronCalc.Codec
