import IronCalc.Codec.SheetName
/-
  C22 — the part of lexer/mod.rs::next_token that produces `Reference` and `Range` tokens:
  the `$`, `'`, digit and identifier branches.  Every other outcome (operators, numbers, identifiers,
  booleans, `Illegal`) is `RefTok.other`.  en locale (decimal point `.`); the identifier is upper-cased
  with ASCII rules (the harness keeps the few non-ASCII characters whose Unicode upper case is ASCII,
  e.g. `ſ`, `ı`, out of the streams that reach this branch without a `!`).
-/
namespace IronCalc.Codec

inductive RefTok where
  | ref (sheet : Option (List Char)) (r : PRef)
  | range (sheet : Option (List Char)) (l r : PRef)
  | other
deriving DecidableEq, Repr

def tokOfRange (sheet : Option (List Char)) (rg : PRange) : RefTok :=
  match rg.right with
  | some r => .range sheet rg.left r
  | none => .ref sheet rg.left

-- models lexer/mod.rs::consume_range
def consumeRange (cc : CharClass) (a1 : Bool) (sheet : Option (List Char)) (s : List Char) :
    RefTok × List Char :=
  match (if a1 then consumeRangeA1 s else consumeRangeR1C1 cc s) with
  | some (rg, rest) => (tokOfRange sheet rg, rest)
  | none => (.other, [])

/-- the input after lexer/mod.rs::consume_number (en locale), or `none` when the text does not
    parse as a float (a signed exponent without digits) -/
def numberEnd (s : List Char) : Option (List Char) :=
  let s1 := s.dropWhile isDigit
  let s2 := match s1 with
    | c :: t => if c = '.' then t.dropWhile isDigit else s1
    | [] => s1
  match s2 with
  | e :: x :: t =>
    if (e = 'e' || e = 'E') && (x = '-' || x = '+' || isDigit x) then
      if !isDigit x && (t.takeWhile isDigit).isEmpty then none else some (t.dropWhile isDigit)
    else some s2
  | _ => some s2

def headIs (s : List Char) (c : Char) : Bool :=
  match s with
  | d :: _ => d == c
  | [] => false

/-- the `'0'..='9'` branch of next_token in A1 mode: a row range `3:5` -/
def digitPath (cc : CharClass) (s : List Char) : RefTok × List Char :=
  match numberEnd s with
  | none => (.other, [])
  | some after =>
    if headIs (after.dropWhile cc.white) ':' then
      match consumeRangeA1 s with
      | some (rg, rest) =>
        match rg.right with
        | some r => (.range none rg.left r, rest)
        | none => (.other, [])
      | none => (.other, [])
    else (.other, [])

/-- the `'\''` branch: consume_quoted_sheet_reference, started after the opening quote -/
def quotedPath (cc : CharClass) (a1 : Bool) (t : List Char) : RefTok × List Char :=
  match consumeSingleQuoteString t with
  | none => (.other, [])
  | some (name, rest) =>
    match rest.dropWhile cc.white with
    | [] => (.other, [])
    | e :: rest' => if e = '!' then consumeRange cc a1 (some name) rest' else (.other, [])

/-- the identifier branch of next_token (`char.is_alphabetic() || char == '_'`) -/
def identPath (cc : CharClass) (a1 : Bool) (isBool : List Char → Bool) (s : List Char) :
    RefTok × List Char :=
  let name := s.takeWhile (isIdentChar cc)
  let after := s.dropWhile (isIdentChar cc)
  if headIs after '!' then consumeRange cc a1 (some name) after.tail
  else if headIs after '$' then consumeRange cc a1 none s
  else
    let upper := name.map asciiUpper
    if isBool upper then (.other, [])
    else if headIs after '(' then (.other, [])
    else if a1 then
      let pr := parseReferenceA1 upper
      let colon := headIs after ':'
      if pr.isSome || (isValidColumn upper && colon) then
        match consumeRangeA1 s with
        | some (rg, rest) => (tokOfRange none rg, rest)
        | none =>
          match pr with
          | some r => if colon then (.ref none r, after) else (.other, [])
          | none => (.other, [])
      else (.other, [])
    else
      match consumeRangeR1C1 cc s with
      | some (rg, rest) =>
        -- "We need to check it's not something like R1C1P": the identifier is longer than the range
        if name.length > s.length - rest.length then (.other, [])
        else (tokOfRange none rg, rest)
      | none =>
        match consumeReferenceR1C1 cc s with
        | some (r, rest) => if headIs rest ':' then (.ref none r, rest) else (.other, [])
        | none => (.other, [])

-- models lexer/mod.rs::next_token, restricted to the outcomes `Reference` / `Range`
def nextTokenRef (cc : CharClass) (a1 : Bool) (isBool : List Char → Bool) (s0 : List Char) :
    RefTok × List Char :=
  match s0.dropWhile cc.white with
  | [] => (.other, [])
  | c :: t =>
    if c = '$' then (if a1 then consumeRange cc true none (c :: t) else (.other, []))
    else if c = '\'' then quotedPath cc a1 t
    else if isDigit c then (if a1 then digitPath cc (c :: t) else (.other, []))
    else if isIdentStart cc c then identPath cc a1 isBool (c :: t)
    else (.other, [])

end IronCalc.Codec
