import IronCalc.Codec.SheetNameProofs
/-
  Helper lemmas (C22): printed A1 texts, open ranges, R1C1 parts.
-/
namespace IronCalc.Codec

/-- the cell a node reference denotes when the formula sits in the context cell -/
def resolvedRow (ctxRow : Int) (r : PRef) : Int := if r.absRow then r.row else r.row + ctxRow
def resolvedCol (ctxCol : Int) (r : PRef) : Int := if r.absCol then r.column else r.column + ctxCol

/-- the denoted cell lies on the grid -/
def InGrid (ctxRow ctxCol : Int) (r : PRef) : Prop :=
  1 ≤ resolvedRow ctxRow r ∧ resolvedRow ctxRow r ≤ 1048576 ∧
  1 ≤ resolvedCol ctxCol r ∧ resolvedCol ctxCol r ≤ 16384

/-- the token the lexer should produce for a node reference: absolute coordinates, same flags -/
def tokenOf (ctxRow ctxCol : Int) (r : PRef) : PRef :=
  { column := resolvedCol ctxCol r, row := resolvedRow ctxRow r, absCol := r.absCol, absRow := r.absRow }

theorem tokenToNode_tokenOf (cr cc : Int) (r : PRef) : tokenToNode cr cc (tokenOf cr cc r) = r := by
  obtain ⟨c, w, ac, ar⟩ := r
  unfold tokenToNode tokenOf resolvedRow resolvedCol
  cases ac <;> cases ar <;> simp <;> omega

theorem intToDec_nonneg (i : Int) (h : 0 ≤ i) : intToDec i = natToDec i.toNat := by
  unfold intToDec; simp; omega

theorem printA1_cell (cr cc : Int) (r : PRef) (hg : InGrid cr cc r) :
    printA1 [] cr cc r false false =
      cellText (resolvedCol cc r).toNat (resolvedRow cr r).toNat r.absCol r.absRow := by
  obtain ⟨h1, h2, h3, h4⟩ := hg
  unfold printA1 cellText withDollar numberToColumn isValidColumnNumber LAST_COLUMN
  unfold resolvedRow at h1 h2
  unfold resolvedCol at h3 h4
  unfold resolvedRow resolvedCol
  simp only [List.nil_append]
  generalize hrow : (if r.absRow = true then r.row else r.row + cr) = row at *
  generalize hcol : (if r.absCol = true then r.column else r.column + cc) = col at *
  have e1 : ¬ (row < 1 ∨ row > (LAST_ROW : Int)) := by unfold LAST_ROW; omega
  have e2 : (decide (1 ≤ col) && decide (col ≤ ((16384 : Nat) : Int))) = true := by
    simp; omega
  simp only [e1, if_false, e2, if_true, Bool.false_eq_true]
  rw [intToDec_nonneg row (by omega)]

theorem toNat_cast (i : Int) (h : 0 ≤ i) : ((i.toNat : Nat) : Int) = i := by omega

/-- a printed cell, alone or followed by something that is neither a digit nor `:` -/
theorem consumeRangeA1_cell (cr cc : Int) (r : PRef) (rest : List Char) (hg : InGrid cr cc r)
    (hrest : stops (fun c => isDigit c || c == ':') rest = true) :
    consumeRangeA1 (printA1 [] cr cc r false false ++ rest) =
      some ({ left := tokenOf cr cc r, right := none }, rest) := by
  rw [printA1_cell cr cc r hg]
  obtain ⟨h1, h2, h3, h4⟩ := hg
  have hd : stops isDigit rest = true := by
    cases rest with
    | nil => rfl
    | cons c t => simp [stops] at hrest ⊢; exact hrest.1
  unfold consumeRangeA1
  rw [consumeReferenceA1_cellText _ _ _ _ rest (by omega) (by omega) (by omega) hd]
  simp only [toNat_cast _ (show (0:Int) ≤ resolvedCol cc r by omega),
    toNat_cast _ (show (0:Int) ≤ resolvedRow cr r by omega)]
  cases rest with
  | nil => rfl
  | cons c t =>
    have : c ≠ ':' := by simp [stops] at hrest; exact hrest.2
    simp [this, tokenOf]

/-- a printed range of two cells (neither whole rows nor whole columns) -/
theorem consumeRangeA1_cells (cr cc : Int) (a b : PRef) (rest : List Char)
    (ha : InGrid cr cc a) (hb : InGrid cr cc b) (hrest : stops isDigit rest = true) :
    consumeRangeA1 (printA1 [] cr cc a false false ++ (':' :: (printA1 [] cr cc b false false ++ rest))) =
      some ({ left := tokenOf cr cc a, right := some (tokenOf cr cc b) }, rest) := by
  rw [printA1_cell cr cc a ha, printA1_cell cr cc b hb]
  obtain ⟨a1, a2, a3, a4⟩ := ha
  obtain ⟨b1, b2, b3, b4⟩ := hb
  unfold consumeRangeA1
  rw [consumeReferenceA1_cellText _ _ _ _ (':' :: _) (by omega) (by omega) (by omega) (by simp [stops]; decide)]
  simp only [if_true]
  rw [consumeReferenceA1_cellText _ _ _ _ rest (by omega) (by omega) (by omega) hrest]
  simp only [toNat_cast _ (show (0:Int) ≤ resolvedCol cc a by omega),
    toNat_cast _ (show (0:Int) ≤ resolvedRow cr a by omega),
    toNat_cast _ (show (0:Int) ≤ resolvedCol cc b by omega),
    toNat_cast _ (show (0:Int) ≤ resolvedRow cr b by omega)]
  rfl

/-! ### R1C1 -/

theorem intToDec_shape (i : Int) :
    ∃ d ds, intToDec i = d :: ds ∧ ds.all isDigit = true ∧ d ≠ '[' := by
  unfold intToDec
  by_cases h : i < 0
  · simp only [h, if_true]
    exact ⟨'-', natToDec i.natAbs, rfl, natToDec_all_digit _, by decide⟩
  · simp only [h, if_false]
    have hall := natToDec_all_digit i.toNat
    have hne := natToDec_ne_nil i.toNat
    cases hn : natToDec i.toNat with
    | nil => exact absurd hn hne
    | cons d ds =>
      rw [hn] at hall
      simp only [List.all_cons, Bool.and_eq_true] at hall
      refine ⟨d, ds, rfl, hall.2, ?_⟩
      intro e; subst e; exact absurd hall.1 (by decide)

theorem consumeR1C1Part_abs (cc : CharClass) (i : Int) (tail : List Char)
    (hlo : 0 ≤ i) (hhi : i ≤ 2147483647) (ht : stops isDigit tail = true) :
    consumeR1C1Part cc (intToDec i ++ tail) = some (i, true, tail) := by
  have hp := parseI32_intToDec i (by omega) hhi
  rw [intToDec_nonneg i hlo] at hp ⊢
  have hall := natToDec_all_digit i.toNat
  obtain ⟨d, ds, hd⟩ := List.exists_cons_of_ne_nil (natToDec_ne_nil i.toNat)
  rw [hd] at hp hall ⊢
  simp only [List.all_cons, Bool.and_eq_true] at hall
  have hne : d ≠ '[' := by intro e; subst e; exact absurd hall.1 (by decide)
  simp only [List.cons_append]
  unfold consumeR1C1Part
  simp only [hne, if_false, hall.1, Bool.not_true, Bool.false_eq_true]
  rw [takeWhile_app isDigit ds tail hall.2 ht, dropWhile_app isDigit ds tail hall.2 ht, hp]

theorem consumeR1C1Part_rel (cc : CharClass) (hcc : CharClassOK cc) (i : Int) (tail : List Char)
    (hlo : -2147483648 ≤ i) (hhi : i ≤ 2147483647) :
    consumeR1C1Part cc ('[' :: (intToDec i ++ ']' :: tail)) = some (i, false, tail) := by
  obtain ⟨d, ds, hd, hall, hne⟩ := intToDec_shape i
  have hp := parseI32_intToDec i hlo hhi
  rw [hd] at hp ⊢
  simp only [List.cons_append]
  unfold consumeR1C1Part
  simp only [if_true]
  have hs : stops isDigit (']' :: tail) = true := by simp [stops]; decide
  rw [takeWhile_app isDigit ds _ hall hs, dropWhile_app isDigit ds _ hall hs, hp]
  simp [List.dropWhile, hcc.bracket_not_white]

/-- `R…C…` parts of a printed R1C1 reference -/
def rcPart (letter : Char) (abs : Bool) (v : Int) : List Char :=
  if abs then letter :: intToDec v else letter :: '[' :: (intToDec v ++ [']'])

theorem printR1C1_eq (r : PRef) : printR1C1 [] r = rcPart 'R' r.absRow r.row ++ rcPart 'C' r.absCol r.column := by
  unfold printR1C1 rcPart; cases r.absRow <;> cases r.absCol <;> simp

def I32 (i : Int) : Prop := -2147483648 ≤ i ∧ i ≤ 2147483647

theorem consumeR1C1Part_rcPart (cc : CharClass) (hcc : CharClassOK cc) (letter : Char) (abs : Bool) (v : Int)
    (tail : List Char) (hv : I32 v) (hnn : abs = true → 0 ≤ v) (ht : stops isDigit tail = true) :
    ∃ x, rcPart letter abs v ++ tail = letter :: x ∧ consumeR1C1Part cc x = some (v, abs, tail) := by
  cases abs with
  | true =>
    refine ⟨intToDec v ++ tail, by simp [rcPart], ?_⟩
    exact consumeR1C1Part_abs cc v tail (hnn rfl) hv.2 ht
  | false =>
    refine ⟨'[' :: (intToDec v ++ ']' :: tail), by simp [rcPart], ?_⟩
    exact consumeR1C1Part_rel cc hcc v tail hv.1 hv.2

/-- consume_reference_r1c1 reads a printed R1C1 reference back -/
theorem consumeReferenceR1C1_print (cc : CharClass) (hcc : CharClassOK cc) (r : PRef) (rest : List Char)
    (hr : I32 r.row) (hc : I32 r.column)
    (hrn : r.absRow = true → 0 ≤ r.row) (hcn : r.absCol = true → 0 ≤ r.column)
    (hd : stops isDigit rest = true) (ha : stops cc.alnum rest = true) :
    consumeReferenceR1C1 cc (printR1C1 [] r ++ rest) = some (r, rest) := by
  rw [printR1C1_eq, List.append_assoc]
  obtain ⟨y, hy, hcy⟩ := consumeR1C1Part_rcPart cc hcc 'C' r.absCol r.column rest hc hcn hd
  have hstopC : stops isDigit (rcPart 'C' r.absCol r.column ++ rest) = true := by
    rw [hy]; simp [stops]; decide
  obtain ⟨x, hx, hcx⟩ := consumeR1C1Part_rcPart cc hcc 'R' r.absRow r.row _ hr hrn hstopC
  rw [hx]
  unfold consumeReferenceR1C1
  simp only [ne_eq, not_true_eq_false, if_false]
  rw [hcx, hy]
  simp only [ne_eq, not_true_eq_false, if_false]
  rw [hcy]
  cases rest with
  | nil => rfl
  | cons e t =>
    have : cc.alnum e = false := by simpa [stops] using ha
    simp [this]

end IronCalc.Codec
