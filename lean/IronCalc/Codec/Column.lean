/-
  C22 — column letters ↔ column numbers.
  Model of base/src/expressions/utils/mod.rs: column_to_number, number_to_column,
  is_valid_column_number, is_valid_column.  Strings are `List Char`; numbers are `Nat`/`Int`
  (column_to_number, after fix F22c, returns Err as soon as the accumulated value exceeds LAST_COLUMN;
  the accumulated value never decreases, so this is the same function as "accumulate in unbounded
  naturals, then test the range", which is what is written here; the pinned tree accumulated in a
  wrapping/overflow-checked i32 and panicked or wrapped on identifiers of 7+ letters).
-/
namespace IronCalc.Codec

def LAST_COLUMN : Nat := 16384
def LAST_ROW : Nat := 1048576

def isUpper (c : Char) : Bool := 65 ≤ c.toNat && c.toNat ≤ 90
def isDigit (c : Char) : Bool := 48 ≤ c.toNat && c.toNat ≤ 57

-- models utils/mod.rs::is_valid_column_number
def isValidColumnNumber (i : Int) : Bool := 1 ≤ i && i ≤ (LAST_COLUMN : Int)

/-- the `while i > 0` loop of number_to_column (`column.insert(0, …)` = cons on the accumulator) -/
def numToColGo (i : Nat) (acc : List Char) : List Char :=
  if h : i = 0 then acc
  else numToColGo ((i - 1) / 26) (Char.ofNat (65 + (i - 1) % 26) :: acc)
termination_by i
decreasing_by omega

/-- number_to_column without the range guard (all naturals; 0 ↦ "") -/
def numToCol (i : Nat) : List Char := numToColGo i []

-- models utils/mod.rs::number_to_column
def numberToColumn (i : Int) : Option (List Char) :=
  if isValidColumnNumber i then some (numToCol i.toNat) else none

/-- the accumulation loop of column_to_number (no validity checks) -/
def colToNum (s : List Char) : Nat := s.foldl (fun acc c => acc * 26 + (c.toNat - 64)) 0

-- models utils/mod.rs::column_to_number  (Err ↦ none)
def columnToNumber (s : List Char) : Option Nat :=
  if s.isEmpty then none
  else if !s.all isUpper then none      -- covers the `is_ascii` test as well
  else if isValidColumnNumber (colToNum s) then some (colToNum s) else none

-- models utils/mod.rs::is_valid_column
def isValidColumn (s : List Char) : Bool :=
  if s.length > 3 then false
  else match columnToNumber s with
    | some n => isValidColumnNumber n
    | none => false

-- models utils/mod.rs::is_valid_row
def isValidRow (r : Int) : Bool := 1 ≤ r && r ≤ (LAST_ROW : Int)

end IronCalc.Codec
