import IronCalc.Codec.ColumnProofs
import IronCalc.Codec.Refs
/-
  Helper lemmas for the reference codecs (C22): decimal digits, scanning, cell texts.
-/
namespace IronCalc.Codec

/-! ### decimal -/

theorem natToDecGo_acc (n : Nat) (acc : List Char) : natToDecGo n acc = natToDecGo n [] ++ acc := by
  induction n using Nat.strongRecOn generalizing acc with
  | _ n ih =>
    by_cases h : n < 10
    · rw [natToDecGo, natToDecGo.eq_1 n []]; simp [h]
    · rw [natToDecGo, natToDecGo.eq_1 n []]
      simp only [h, dite_false]
      rw [ih (n / 10) (by omega) (_ :: acc), ih (n / 10) (by omega) [_]]
      simp

theorem natToDec_lt (n : Nat) (h : n < 10) : natToDec n = [digitChar n] := by
  unfold natToDec; rw [natToDecGo]; simp [h]

theorem natToDec_ge (n : Nat) (h : ¬ n < 10) :
    natToDec n = natToDec (n / 10) ++ [digitChar (n % 10)] := by
  unfold natToDec; rw [natToDecGo]; simp only [h, dite_false]; rw [natToDecGo_acc]

theorem digitChar_toNat : ∀ d, d < 10 → (digitChar d).toNat = 48 + d := by decide
theorem isDigit_digitChar : ∀ d, d < 10 → isDigit (digitChar d) = true := by decide

theorem decToNat_snoc (s : List Char) (c : Char) :
    decToNat (s ++ [c]) = decToNat s * 10 + (c.toNat - 48) := by
  unfold decToNat; rw [List.foldl_append]; rfl

theorem decToNat_natToDec (n : Nat) : decToNat (natToDec n) = n := by
  induction n using Nat.strongRecOn with
  | _ n ih =>
    by_cases h : n < 10
    · rw [natToDec_lt n h]
      show 0 * 10 + ((digitChar n).toNat - 48) = n
      rw [digitChar_toNat n h]; omega
    · rw [natToDec_ge n h, decToNat_snoc, ih _ (by omega), digitChar_toNat _ (Nat.mod_lt _ (by decide))]
      omega

theorem natToDec_all_digit (n : Nat) : (natToDec n).all isDigit = true := by
  induction n using Nat.strongRecOn with
  | _ n ih =>
    by_cases h : n < 10
    · rw [natToDec_lt n h]; simp [isDigit_digitChar n h]
    · rw [natToDec_ge n h, List.all_append, ih _ (by omega)]
      simp [isDigit_digitChar _ (Nat.mod_lt n (by decide : 0 < 10))]

theorem natToDec_ne_nil (n : Nat) : natToDec n ≠ [] := by
  by_cases h : n < 10
  · rw [natToDec_lt n h]; simp
  · rw [natToDec_ge n h]; simp

theorem isDigit_ne_minus (c : Char) (h : isDigit c = true) : c ≠ '-' := by
  intro e; subst e; revert h; decide
theorem isDigit_ne_plus (c : Char) (h : isDigit c = true) : c ≠ '+' := by
  intro e; subst e; revert h; decide
theorem isDigit_ne_dollar (c : Char) (h : isDigit c = true) : c ≠ '$' := by
  intro e; subst e; revert h; decide
theorem isDigit_ne_colon (c : Char) (h : isDigit c = true) : c ≠ ':' := by
  intro e; subst e; revert h; decide

/-- `parse::<i32>` reads back what `format!` printed, for every non-negative i32 -/
theorem parseI32_natToDec (n : Nat) (h : n ≤ 2147483647) : parseI32 (natToDec n) = some (n : Int) := by
  have hall := natToDec_all_digit n
  have hne := natToDec_ne_nil n
  have hval := decToNat_natToDec n
  generalize natToDec n = s at *
  match s, hne with
  | c :: t, _ =>
    have hc : isDigit c = true := by simp only [List.all_cons, Bool.and_eq_true] at hall; exact hall.1
    unfold parseI32
    simp only [isDigit_ne_minus c hc, isDigit_ne_plus c hc, if_false]
    simp [hall, hval]
    omega

/-- … and for every i32 -/
theorem parseI32_intToDec (i : Int) (hlo : -2147483648 ≤ i) (hhi : i ≤ 2147483647) :
    parseI32 (intToDec i) = some i := by
  unfold intToDec
  by_cases hneg : i < 0
  · simp only [hneg, if_true]
    have hall := natToDec_all_digit i.natAbs
    have hne := natToDec_ne_nil i.natAbs
    have hval := decToNat_natToDec i.natAbs
    unfold parseI32
    simp only [if_true]
    generalize natToDec i.natAbs = s at *
    have hemp : s.isEmpty = false := by cases s <;> simp_all
    simp [hall, hval, hemp]
    omega
  · simp only [hneg, if_false]
    have := parseI32_natToDec i.toNat (by omega)
    rw [this]; congr 1; omega

/-! ### scanning -/

/-- the scan for `p` stops at the head of `b` -/
def stops (p : Char → Bool) (b : List Char) : Bool :=
  match b with
  | [] => true
  | c :: _ => !p c

theorem takeWhile_app (p : Char → Bool) (a b : List Char) (ha : a.all p = true) (hb : stops p b = true) :
    (a ++ b).takeWhile p = a := by
  induction a with
  | nil =>
    cases b with
    | nil => rfl
    | cons c t => simp [stops] at hb; simp [hb]
  | cons x xs ih =>
    simp only [List.all_cons, Bool.and_eq_true] at ha
    simp [ha.1, ih ha.2]

theorem dropWhile_app (p : Char → Bool) (a b : List Char) (ha : a.all p = true) (hb : stops p b = true) :
    (a ++ b).dropWhile p = b := by
  induction a with
  | nil =>
    cases b with
    | nil => rfl
    | cons c t => simp [stops] at hb; simp [hb]
  | cons x xs ih =>
    simp only [List.all_cons, Bool.and_eq_true] at ha
    simp [ha.1, ih ha.2]

theorem all_mono {p q : Char → Bool} (h : ∀ c, p c = true → q c = true) (s : List Char)
    (hs : s.all p = true) : s.all q = true := by
  induction s with
  | nil => rfl
  | cons c t ih =>
    simp only [List.all_cons, Bool.and_eq_true] at hs ⊢
    exact ⟨h c hs.1, ih hs.2⟩

theorem isUpper_alpha (c : Char) (h : isUpper c = true) : isAsciiAlpha c = true := by
  simp [isAsciiAlpha, h]

theorem isUpper_not_lower (c : Char) (h : isUpper c = true) : isLower c = false := by
  unfold isUpper at h; unfold isLower
  simp only [Bool.and_eq_true, decide_eq_true_eq] at h
  simp only [Bool.and_eq_false_iff, decide_eq_false_iff_not]
  omega

theorem isUpper_not_digit (c : Char) (h : isUpper c = true) : isDigit c = false := by
  unfold isUpper at h; unfold isDigit
  simp only [Bool.and_eq_true, decide_eq_true_eq] at h
  simp only [Bool.and_eq_false_iff, decide_eq_false_iff_not]
  omega

theorem isDigit_not_alpha (c : Char) (h : isDigit c = true) : isAsciiAlpha c = false := by
  unfold isDigit at h; unfold isAsciiAlpha isUpper isLower
  simp only [Bool.and_eq_true, decide_eq_true_eq] at h
  simp only [Bool.or_eq_false_iff, Bool.and_eq_false_iff, decide_eq_false_iff_not]
  omega

theorem isUpper_ne_dollar (c : Char) (h : isUpper c = true) : c ≠ '$' := by
  intro e; subst e; revert h; decide

theorem map_asciiUpper_upper (s : List Char) (h : s.all isUpper = true) : s.map asciiUpper = s := by
  induction s with
  | nil => rfl
  | cons c t ih =>
    simp only [List.all_cons, Bool.and_eq_true] at h
    simp [asciiUpper, isUpper_not_lower c h.1, ih h.2]

theorem filter_self (p : Char → Bool) (s : List Char) (h : s.all p = true) : s.filter p = s := by
  induction s with
  | nil => rfl
  | cons c t ih =>
    simp only [List.all_cons, Bool.and_eq_true] at h
    simp [List.filter, h.1, ih h.2]

theorem filter_none (p q : Char → Bool) (hpq : ∀ c, p c = true → q c = false) (s : List Char)
    (h : s.all p = true) : s.filter q = [] := by
  induction s with
  | nil => rfl
  | cons c t ih =>
    simp only [List.all_cons, Bool.and_eq_true] at h
    simp [List.filter, hpq c h.1, ih h.2]

theorem stripDollar_dollar (t : List Char) : stripDollar ('$' :: t) = (true, t) := by
  simp [stripDollar]

theorem stripDollar_other (c : Char) (t : List Char) (h : c ≠ '$') : stripDollar (c :: t) = (false, c :: t) := by
  simp [stripDollar, h]

/-! ### column and row texts -/

theorem columnToNumber_numToCol (c : Nat) (h1 : 1 ≤ c) (h2 : c ≤ 16384) :
    columnToNumber (numToCol c) = some c := by
  unfold columnToNumber
  have hne := numToCol_ne_nil c (by omega)
  have hemp : (numToCol c).isEmpty = false := by cases h : numToCol c <;> simp_all
  simp only [hemp, numToCol_all_upper, colToNum_numToCol, isValidColumnNumber, LAST_COLUMN]
  simp
  omega

theorem stripDollar_withDollar (abs : Bool) (body rest : List Char)
    (h : ∀ c t, body ++ rest = c :: t → c ≠ '$') :
    stripDollar (withDollar abs body ++ rest) = (abs, body ++ rest) := by
  cases abs with
  | true => simp [withDollar, stripDollar]
  | false =>
    simp only [withDollar, Bool.false_eq_true, if_false]
    cases hb : body ++ rest with
    | nil => rfl
    | cons c t => exact stripDollar_other c t (h c t hb)

/-- the text of a cell: `[$]COL[$]ROW` -/
def cellText (c r : Nat) (ac ar : Bool) : List Char :=
  withDollar ac (numToCol c) ++ withDollar ar (natToDec r)

theorem head_upper_of (c : Nat) (hc : 1 ≤ c) (rest : List Char) :
    ∀ x t, numToCol c ++ rest = x :: t → isUpper x = true := by
  intro x t h
  have hne := numToCol_ne_nil c (by omega)
  have hall := numToCol_all_upper c
  cases hn : numToCol c with
  | nil => exact absurd hn hne
  | cons y ys =>
    rw [hn] at h hall
    simp only [List.cons_append, List.cons.injEq] at h
    simp only [List.all_cons, Bool.and_eq_true] at hall
    rw [← h.1]; exact hall.1

theorem head_digit_of (r : Nat) (rest : List Char) :
    ∀ x t, natToDec r ++ rest = x :: t → isDigit x = true := by
  intro x t h
  have hne := natToDec_ne_nil r
  have hall := natToDec_all_digit r
  cases hn : natToDec r with
  | nil => exact absurd hn hne
  | cons y ys =>
    rw [hn] at h hall
    simp only [List.cons_append, List.cons.injEq] at h
    simp only [List.all_cons, Bool.and_eq_true] at hall
    rw [← h.1]; exact hall.1

theorem stops_alpha_withDollar_dec (ar : Bool) (r : Nat) (rest : List Char) :
    stops isAsciiAlpha (withDollar ar (natToDec r) ++ rest) = true := by
  cases ar with
  | true => simp [withDollar, stops]; decide
  | false =>
    simp only [withDollar, Bool.false_eq_true, if_false]
    cases h : natToDec r ++ rest with
    | nil => rfl
    | cons x t =>
      simp [stops, isDigit_not_alpha x (head_digit_of r rest x t h)]

/-- consume_reference_a1 reads a printed cell text back, whatever follows (as long as it is not a digit) -/
theorem consumeReferenceA1_cellText (c r : Nat) (ac ar : Bool) (rest : List Char)
    (hc1 : 1 ≤ c) (hc2 : c ≤ 16384) (hr : r ≤ 1048576) (hrest : stops isDigit rest = true) :
    consumeReferenceA1 (cellText c r ac ar ++ rest) =
      some ({ column := c, row := r, absCol := ac, absRow := ar }, rest) := by
  unfold consumeReferenceA1 cellText
  simp only [List.append_assoc]
  rw [stripDollar_withDollar ac (numToCol c) _ (fun x t h => isUpper_ne_dollar x (head_upper_of c hc1 _ x t h))]
  simp only
  have halpha : (numToCol c).all isAsciiAlpha = true := all_mono isUpper_alpha _ (numToCol_all_upper c)
  rw [takeWhile_app isAsciiAlpha _ _ halpha (stops_alpha_withDollar_dec ar r rest),
      dropWhile_app isAsciiAlpha _ _ halpha (stops_alpha_withDollar_dec ar r rest),
      map_asciiUpper_upper _ (numToCol_all_upper c)]
  have hne := numToCol_ne_nil c (by omega)
  have hemp : (numToCol c).isEmpty = false := by cases h : numToCol c <;> simp_all
  simp only [hemp, Bool.false_eq_true, if_false]
  rw [stripDollar_withDollar ar (natToDec r) rest (fun x t h => isDigit_ne_dollar x (head_digit_of r rest x t h))]
  simp only
  rw [takeWhile_app isDigit _ _ (natToDec_all_digit r) hrest,
      dropWhile_app isDigit _ _ (natToDec_all_digit r) hrest,
      columnToNumber_numToCol c hc1 hc2, parseI32_natToDec r (by omega)]
  simp only [LAST_ROW]
  simp
  omega

end IronCalc.Codec
