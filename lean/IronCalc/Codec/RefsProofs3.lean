import IronCalc.Codec.RefsProofs2
/-
  Helper lemmas (C22): whole-column (`$A:C`) and whole-row (`1:$5`) ranges — the fallback branch of
  consume_range_a1.
-/
namespace IronCalc.Codec

theorem isUpper_alphaOrDigit (c : Char) (h : isUpper c = true) : isAlphaOrDigit c = true := by
  simp [isAlphaOrDigit, isUpper_alpha c h]

theorem isDigit_alphaOrDigit (c : Char) (h : isDigit c = true) : isAlphaOrDigit c = true := by
  simp [isAlphaOrDigit, h]

theorem stops_colon (p : Char → Bool) (hp : p ':' = false) (t : List Char) : stops p (':' :: t) = true := by
  simp [stops, hp]

theorem isEmpty_false {x : List Char} (h : x ≠ []) : x.isEmpty = false := by
  cases x <;> simp_all

/-- the text of a column-only endpoint / a row-only endpoint -/
def colText (c : Nat) (ac : Bool) : List Char := withDollar ac (numToCol c)
def rowText (r : Nat) (ar : Bool) : List Char := withDollar ar (natToDec r)

theorem consumeReferenceA1_colText_colon (c : Nat) (ac : Bool) (t : List Char) (hc1 : 1 ≤ c) (hc2 : c ≤ 16384) :
    consumeReferenceA1 (colText c ac ++ (':' :: t)) = none := by
  unfold consumeReferenceA1 colText
  rw [stripDollar_withDollar ac (numToCol c) _ (fun x u h => isUpper_ne_dollar x (head_upper_of c hc1 _ x u h))]
  simp only
  have halpha : (numToCol c).all isAsciiAlpha = true := all_mono isUpper_alpha _ (numToCol_all_upper c)
  have hst : stops isAsciiAlpha (':' :: t) = true := stops_colon _ (by decide) t
  rw [takeWhile_app isAsciiAlpha _ _ halpha hst, dropWhile_app isAsciiAlpha _ _ halpha hst,
    map_asciiUpper_upper _ (numToCol_all_upper c)]
  simp only [isEmpty_false (numToCol_ne_nil c (by omega)), Bool.false_eq_true, if_false]
  rw [stripDollar_other ':' t (by decide), columnToNumber_numToCol c hc1 hc2]
  have : List.takeWhile isDigit (':' :: t) = [] := by
    rw [List.takeWhile_cons]; simp; decide
  simp only [this]
  rfl

theorem consumeReferenceA1_rowText (r : Nat) (ar : Bool) (t : List Char) :
    consumeReferenceA1 (rowText r ar ++ t) = none := by
  unfold consumeReferenceA1 rowText
  rw [stripDollar_withDollar ar (natToDec r) _ (fun x u h => isDigit_ne_dollar x (head_digit_of r _ x u h))]
  simp only
  have : List.takeWhile isAsciiAlpha (natToDec r ++ t) = [] := by
    have hne := natToDec_ne_nil r
    have hall := natToDec_all_digit r
    cases hn : natToDec r with
    | nil => exact absurd hn hne
    | cons d ds =>
      rw [hn] at hall
      simp only [List.all_cons, Bool.and_eq_true] at hall
      simp [List.takeWhile_cons, isDigit_not_alpha d hall.1]
  simp [this]

/-- `[$]COL:[$]COL` is read by the fallback branch as a whole-column range -/
theorem consumeRangeA1_columns (a b : Nat) (aa ab : Bool) (rest : List Char)
    (ha1 : 1 ≤ a) (ha2 : a ≤ 16384) (hb1 : 1 ≤ b) (hb2 : b ≤ 16384)
    (hrest : stops isAlphaOrDigit rest = true) :
    consumeRangeA1 (colText a aa ++ (':' :: (colText b ab ++ rest))) =
      some ({ left := { column := a, row := 1, absCol := aa, absRow := true },
              right := some { column := b, row := (LAST_ROW : Int), absCol := ab, absRow := true } }, rest) := by
  unfold consumeRangeA1
  rw [consumeReferenceA1_colText_colon a aa _ ha1 ha2]
  simp only
  unfold consumeOpenRangeA1 colText
  rw [stripDollar_withDollar aa (numToCol a) _ (fun x u h => isUpper_ne_dollar x (head_upper_of a ha1 _ x u h))]
  simp only
  have hA : (numToCol a).all isAlphaOrDigit = true := all_mono isUpper_alphaOrDigit _ (numToCol_all_upper a)
  have hB : (numToCol b).all isAlphaOrDigit = true := all_mono isUpper_alphaOrDigit _ (numToCol_all_upper b)
  have hst : stops isAlphaOrDigit (':' :: (withDollar ab (numToCol b) ++ rest)) = true :=
    stops_colon _ (by decide) _
  rw [takeWhile_app isAlphaOrDigit _ _ hA hst, dropWhile_app isAlphaOrDigit _ _ hA hst]
  simp only [ne_eq, not_true_eq_false, if_false]
  rw [stripDollar_withDollar ab (numToCol b) _ (fun x u h => isUpper_ne_dollar x (head_upper_of b hb1 _ x u h))]
  simp only
  rw [takeWhile_app isAlphaOrDigit _ _ hB hrest, dropWhile_app isAlphaOrDigit _ _ hB hrest]
  have fa := filter_self isAsciiAlpha _ (all_mono isUpper_alpha _ (numToCol_all_upper a))
  have fb := filter_self isAsciiAlpha _ (all_mono isUpper_alpha _ (numToCol_all_upper b))
  have da := filter_none isUpper isDigit isUpper_not_digit _ (numToCol_all_upper a)
  have db := filter_none isUpper isDigit isUpper_not_digit _ (numToCol_all_upper b)
  rw [fa, fb, da, db, map_asciiUpper_upper _ (numToCol_all_upper a), map_asciiUpper_upper _ (numToCol_all_upper b)]
  simp only [List.isEmpty_nil, Bool.not_true, Bool.false_eq_true, if_false,
    isEmpty_false (numToCol_ne_nil b (by omega)), Bool.or_false, Bool.not_false]
  rw [columnToNumber_numToCol a ha1 ha2, columnToNumber_numToCol b hb1 hb2]

/-- `[$]ROW:[$]ROW` is read by the fallback branch as a whole-row range -/
theorem consumeRangeA1_rows (a b : Nat) (aa ab : Bool) (rest : List Char)
    (ha : a ≤ 1048576) (hb : b ≤ 1048576) (hrest : stops isAlphaOrDigit rest = true) :
    consumeRangeA1 (rowText a aa ++ (':' :: (rowText b ab ++ rest))) =
      some ({ left := { column := 1, row := a, absCol := true, absRow := aa },
              right := some { column := (LAST_COLUMN : Int), row := b, absCol := true, absRow := ab } }, rest) := by
  unfold consumeRangeA1
  rw [consumeReferenceA1_rowText a aa _]
  simp only
  unfold consumeOpenRangeA1 rowText
  rw [stripDollar_withDollar aa (natToDec a) _ (fun x u h => isDigit_ne_dollar x (head_digit_of a _ x u h))]
  simp only
  have hA : (natToDec a).all isAlphaOrDigit = true := all_mono isDigit_alphaOrDigit _ (natToDec_all_digit a)
  have hB : (natToDec b).all isAlphaOrDigit = true := all_mono isDigit_alphaOrDigit _ (natToDec_all_digit b)
  have hst : stops isAlphaOrDigit (':' :: (withDollar ab (natToDec b) ++ rest)) = true :=
    stops_colon _ (by decide) _
  rw [takeWhile_app isAlphaOrDigit _ _ hA hst, dropWhile_app isAlphaOrDigit _ _ hA hst]
  simp only [ne_eq, not_true_eq_false, if_false]
  rw [stripDollar_withDollar ab (natToDec b) _ (fun x u h => isDigit_ne_dollar x (head_digit_of b _ x u h))]
  simp only
  rw [takeWhile_app isAlphaOrDigit _ _ hB hrest, dropWhile_app isAlphaOrDigit _ _ hB hrest]
  have fa := filter_self isDigit _ (natToDec_all_digit a)
  have fb := filter_self isDigit _ (natToDec_all_digit b)
  have da := filter_none isDigit isAsciiAlpha isDigit_not_alpha _ (natToDec_all_digit a)
  have db := filter_none isDigit isAsciiAlpha isDigit_not_alpha _ (natToDec_all_digit b)
  rw [fa, fb, da, db]
  simp only [List.map_nil, List.isEmpty_nil, Bool.not_true, Bool.or_false,
    isEmpty_false (natToDec_ne_nil a), isEmpty_false (natToDec_ne_nil b), Bool.not_false,
    Bool.false_eq_true, if_false, if_true]
  rw [parseI32_natToDec a (by omega), parseI32_natToDec b (by omega)]
  simp only [LAST_ROW]
  have e1 : ¬ ((a : Int) > ((1048576 : Nat) : Int)) := by omega
  have e2 : ¬ ((b : Int) > ((1048576 : Nat) : Int)) := by omega
  simp [e1, e2]
  omega

/-! ### printed forms -/

theorem printA1_colonly (cr cc : Int) (r : PRef) (hg : InGrid cr cc r) :
    printA1 [] cr cc r true false = colText (resolvedCol cc r).toNat r.absCol := by
  obtain ⟨h1, h2, h3, h4⟩ := hg
  unfold printA1 colText withDollar numberToColumn isValidColumnNumber LAST_COLUMN
  unfold resolvedRow at h1 h2
  unfold resolvedCol at h3 h4
  unfold resolvedCol
  simp only [List.nil_append]
  generalize (if r.absRow = true then r.row else r.row + cr) = row at *
  generalize (if r.absCol = true then r.column else r.column + cc) = col at *
  have e1 : ¬ (row < 1 ∨ row > (LAST_ROW : Int)) := by unfold LAST_ROW; omega
  have e2 : (decide (1 ≤ col) && decide (col ≤ ((16384 : Nat) : Int))) = true := by simp; omega
  simp only [e1, if_false, e2, if_true, Bool.false_eq_true, List.append_nil]

theorem printA1_rowonly (cr cc : Int) (r : PRef) (hg : InGrid cr cc r) :
    printA1 [] cr cc r false true = rowText (resolvedRow cr r).toNat r.absRow := by
  obtain ⟨h1, h2, h3, h4⟩ := hg
  unfold printA1 rowText withDollar numberToColumn isValidColumnNumber LAST_COLUMN
  unfold resolvedRow at h1 h2
  unfold resolvedCol at h3 h4
  unfold resolvedRow
  simp only [List.nil_append]
  generalize (if r.absRow = true then r.row else r.row + cr) = row at *
  generalize (if r.absCol = true then r.column else r.column + cc) = col at *
  have e1 : ¬ (row < 1 ∨ row > (LAST_ROW : Int)) := by unfold LAST_ROW; omega
  have e2 : (decide (1 ≤ col) && decide (col ≤ ((16384 : Nat) : Int))) = true := by simp; omega
  simp only [e1, if_false, e2, if_true, Bool.false_eq_true, List.nil_append]
  rw [intToDec_nonneg row (by omega)]

theorem fullRowOf_spec (a b : PRef) (h : fullRowOf a b = true) :
    a.absRow = true ∧ b.absRow = true ∧ a.row = 1 ∧ b.row = 1048576 := by
  unfold fullRowOf LAST_ROW at h
  simp only [Bool.and_eq_true, beq_iff_eq] at h
  exact ⟨h.1.1.1, h.1.1.2, h.1.2, by simpa using h.2⟩

theorem fullColOf_spec (a b : PRef) (h : fullColOf a b = true) :
    fullRowOf a b = false ∧ a.absCol = true ∧ b.absCol = true ∧ a.column = 1 ∧ b.column = 16384 := by
  unfold fullColOf LAST_COLUMN at h
  simp only [Bool.and_eq_true, Bool.not_eq_true', beq_iff_eq] at h
  exact ⟨h.1, h.2.1.1.1, h.2.1.1.2, h.2.1.2, by simpa using h.2.2⟩

theorem fullColOf_false_of_fullRow (a b : PRef) (h : fullRowOf a b = true) : fullColOf a b = false := by
  unfold fullColOf; simp [h]

end IronCalc.Codec
