import IronCalc.Io.XlsxSkeleton
/-
  Helper lemmas for C25: a panic of the skeleton can only come from an unrepaired site.
-/
namespace IronCalc.XlsxSkeleton

/-- every panic `x` can produce is at a site that `fx` does not mark as repaired -/
def Safe (fx : String → Bool) {α : Type} (x : R α) : Prop :=
  ∀ s, x = .error (.panic s) → fx s = false

variable {fx : String → Bool}

theorem safe_ok {α : Type} (a : α) : Safe fx (.ok a : R α) := by
  intro s h; cases h

theorem safe_err {α : Type} : Safe fx (.error .err : R α) := by
  intro s h; cases h

theorem safe_pure {α : Type} (a : α) : Safe fx (pure a : R α) := safe_ok a

theorem safe_siteGo (c : Bool) (site : String) : Safe fx (siteGo fx c site) := by
  intro s h
  unfold siteGo at h
  split at h
  · next hc =>
    cases h
    simp only [Bool.and_eq_true, Bool.not_eq_eq_eq_not, Bool.not_true] at hc
    exact hc.2
  · cases h

theorem safe_siteErr {α : Type} (site : String) : Safe fx (siteErr fx site : R α) := by
  intro s h
  unfold siteErr at h
  split at h
  · cases h
  · next hc => cases h; simpa using hc

theorem safe_need {α : Type} (o : Option α) : Safe fx (need o) := by
  intro s h; unfold need at h; split at h <;> cases h

theorem safe_check (b : Bool) : Safe fx (check b) := by
  intro s h; unfold check at h; split at h <;> cases h

theorem safe_bind {α β : Type} (x : R α) (f : α → R β) (hx : Safe fx x) (hf : ∀ a, Safe fx (f a)) :
    Safe fx (x >>= f) := by
  intro s h
  cases x with
  | ok a => exact hf a s h
  | error e =>
    have : (Except.error e : R α) = .error (.panic s) := by
      cases e with
      | err => cases h
      | panic t => simpa [bind, Except.bind] using h
    exact hx s this

theorem safe_forEach {α : Type} (l : List α) (f : α → R Unit) (hf : ∀ a, Safe fx (f a)) :
    Safe fx (forEach l f) := by
  induction l with
  | nil => exact safe_ok ()
  | cons a l ih =>
    unfold forEach
    exact safe_bind _ _ (hf a) (fun _ => ih)

theorem safe_swallow (x : R Unit) (hx : Safe fx x) : Safe fx (swallow x) := by
  intro s h
  unfold swallow at h
  split at h
  · cases h
  · exact hx s h

theorem safe_replaceDots (target v0 : String) : Safe fx (replaceDots fx target v0) := by
  intro s h
  unfold replaceDots at h
  split at h
  · next hc =>
    cases h
    simp only [Bool.and_eq_true, Bool.not_eq_eq_eq_not, Bool.not_true] at hc
    exact hc.1
  · split at h <;> cases h

/-- an unrepaired-site panic read off a `Safe` fact (used before `Safe` is sealed) -/
theorem Safe.elim {α : Type} {x : R α} (h : Safe fx x) (s : String) (hx : x = .error (.panic s)) :
    fx s = false := h s hx

attribute [irreducible] Safe

/-- the proof search: decompose binds / loops / case splits, close leaves with the lemmas above and
    with the per-function lemmas registered below -/
syntax "safe_leaf" : tactic
macro_rules | `(tactic| safe_leaf) => `(tactic| exact safe_ok _)
macro_rules | `(tactic| safe_leaf) => `(tactic| exact safe_err)
macro_rules | `(tactic| safe_leaf) => `(tactic| exact safe_pure _)
macro_rules | `(tactic| safe_leaf) => `(tactic| exact safe_siteGo _ _)
macro_rules | `(tactic| safe_leaf) => `(tactic| exact safe_siteErr _)
macro_rules | `(tactic| safe_leaf) => `(tactic| exact safe_need _)
macro_rules | `(tactic| safe_leaf) => `(tactic| exact safe_check _)

macro_rules | `(tactic| safe_leaf) => `(tactic| assumption)

macro "safe" : tactic =>
  `(tactic| repeat (first
      | with_reducible safe_leaf
      | with_reducible apply safe_forEach
      | with_reducible apply safe_bind
      | with_reducible apply safe_swallow
      | split
      | intro _))

theorem safe_optCheck (o : Option String) (p : String → Bool) : Safe fx (optCheck o p) := by
  unfold optCheck; safe
macro_rules | `(tactic| safe_leaf) => `(tactic| exact safe_optCheck _ _)

theorem safe_getColor (n : Xml) : Safe fx (getColor fx n) := by
  unfold getColor; safe
macro_rules | `(tactic| safe_leaf) => `(tactic| exact safe_getColor _)

theorem safe_getBorder (node : Xml) (name : String) : Safe fx (getBorder fx node name) := by
  unfold getBorder; safe
macro_rules | `(tactic| safe_leaf) => `(tactic| exact safe_getBorder _ _)

theorem safe_patternFill (fill : Xml) : Safe fx (patternFill fx fill) := by
  unfold patternFill; safe
macro_rules | `(tactic| safe_leaf) => `(tactic| exact safe_patternFill _)

theorem safe_parseDxf (dxf : Xml) : Safe fx (parseDxf fx dxf) := by
  unfold parseDxf; safe
macro_rules | `(tactic| safe_leaf) => `(tactic| exact safe_parseDxf _)

theorem safe_firstNamed (x : Xml) (t site : String) : Safe fx (firstNamed fx x t site) := by
  unfold firstNamed; safe
macro_rules | `(tactic| safe_leaf) => `(tactic| exact safe_firstNamed _ _ _)

theorem safe_loadStyles (p : Package) : Safe fx (loadStyles fx p) := by
  unfold loadStyles; safe
macro_rules | `(tactic| safe_leaf) => `(tactic| exact safe_loadStyles _)

theorem safe_loadWorkbook (p : Package) : Safe fx (loadWorkbook fx p) := by
  unfold loadWorkbook; safe
macro_rules | `(tactic| safe_leaf) => `(tactic| exact safe_loadWorkbook _)

theorem safe_loadRels (p : Package) : Safe fx (loadRels p) := by
  unfold loadRels; safe
macro_rules | `(tactic| safe_leaf) => `(tactic| exact safe_loadRels _)

theorem safe_formatHex (raw : String) : Safe fx (formatHex fx raw) := by
  unfold formatHex; safe
macro_rules | `(tactic| safe_leaf) => `(tactic| exact safe_formatHex _)

theorem safe_readColor (l : List Xml) : Safe fx (readColor fx l) := by
  induction l with
  | nil => unfold readColor; safe
  | cons c cs ih => unfold readColor; safe
macro_rules | `(tactic| safe_leaf) => `(tactic| exact safe_readColor _)

theorem safe_loadTheme (p : Package) (rels : List Rel) : Safe fx (loadTheme fx p rels) := by
  unfold loadTheme; safe
macro_rules | `(tactic| safe_leaf) => `(tactic| exact safe_loadTheme _ _)

theorem safe_parseCfvo (n : Xml) : Safe fx (parseCfvo n) := by
  unfold parseCfvo; safe
macro_rules | `(tactic| safe_leaf) => `(tactic| exact safe_parseCfvo _)

theorem safe_cfvoAndColors (n : Xml) : Safe fx (cfvoAndColors fx n) := by
  unfold cfvoAndColors; safe
macro_rules | `(tactic| safe_leaf) => `(tactic| exact safe_cfvoAndColors _)

theorem safe_cfRule (r : Xml) : Safe fx (cfRule fx r) := by
  unfold cfRule; safe
macro_rules | `(tactic| safe_leaf) => `(tactic| exact safe_cfRule _)

theorem safe_cfDataBars (ws : Xml) : Safe fx (cfDataBars fx ws) := by
  unfold cfDataBars; safe
macro_rules | `(tactic| safe_leaf) => `(tactic| exact safe_cfDataBars _)

theorem safe_cfMain (ws : Xml) : Safe fx (cfMain fx ws) := by
  unfold cfMain; safe
macro_rules | `(tactic| safe_leaf) => `(tactic| exact safe_cfMain _)

theorem safe_cfStandalone (ws : Xml) : Safe fx (cfStandalone fx ws) := by
  unfold cfStandalone; safe
macro_rules | `(tactic| safe_leaf) => `(tactic| exact safe_cfStandalone _)

theorem safe_loadCf (ws : Xml) : Safe fx (loadCf fx ws) := by
  unfold loadCf; safe
macro_rules | `(tactic| safe_leaf) => `(tactic| exact safe_loadCf _)

theorem safe_loadTable (root : Xml) : Safe fx (loadTable root) := by
  unfold loadTable; safe
macro_rules | `(tactic| safe_leaf) => `(tactic| exact safe_loadTable _)

theorem safe_loadComments (root : Xml) : Safe fx (loadComments fx root) := by
  unfold loadComments; safe
macro_rules | `(tactic| safe_leaf) => `(tactic| exact safe_loadComments _)

macro_rules | `(tactic| safe_leaf) => `(tactic| exact safe_replaceDots _ _)

theorem safe_loadSheetRels (p : Package) (path : String) : Safe fx (loadSheetRels fx p path) := by
  unfold loadSheetRels; safe
macro_rules | `(tactic| safe_leaf) => `(tactic| exact safe_loadSheetRels _ _)

theorem safe_loadFormula (sheetName r : String) (rc : Nat × Nat) (f : Xml) :
    Safe fx (loadFormula sheetName r rc f) := by
  unfold loadFormula; safe
macro_rules | `(tactic| safe_leaf) => `(tactic| exact safe_loadFormula _ _ _ _)

theorem safe_loadCell (sheetName : String) (cell : Xml) : Safe fx (loadCell sheetName cell) := by
  unfold loadCell; safe
macro_rules | `(tactic| safe_leaf) => `(tactic| exact safe_loadCell _ _)

theorem safe_loadRow (sheetName : String) (row : Xml) : Safe fx (loadRow sheetName row) := by
  unfold loadRow; safe
macro_rules | `(tactic| safe_leaf) => `(tactic| exact safe_loadRow _ _)

theorem safe_loadCols (ws : Xml) : Safe fx (loadCols ws) := by
  unfold loadCols; safe
macro_rules | `(tactic| safe_leaf) => `(tactic| exact safe_loadCols _)

theorem safe_loadTabColor (ws : Xml) : Safe fx (loadTabColor fx ws) := by
  unfold loadTabColor; safe
macro_rules | `(tactic| safe_leaf) => `(tactic| exact safe_loadTabColor _)

theorem safe_loadMerge (ws : Xml) : Safe fx (loadMerge ws) := by
  unfold loadMerge; safe
macro_rules | `(tactic| safe_leaf) => `(tactic| exact safe_loadMerge _)

theorem safe_loadLinks (ws : Xml) : Safe fx (loadLinks ws) := by
  unfold loadLinks; safe
macro_rules | `(tactic| safe_leaf) => `(tactic| exact safe_loadLinks _)

theorem safe_loadSheet (p : Package) (path sheetName : String) :
    Safe fx (loadSheet fx p path sheetName) := by
  unfold loadSheet; safe
macro_rules | `(tactic| safe_leaf) => `(tactic| exact safe_loadSheet _ _ _)

theorem safe_loadSheets (p : Package) (rels : List Rel) (sheets : List SheetRef) (n : Nat) :
    Safe fx (loadSheets fx p rels sheets n) := by
  unfold loadSheets; safe
macro_rules | `(tactic| safe_leaf) => `(tactic| exact safe_loadSheets _ _ _ _)

theorem safe_importSkel (p : Package) : Safe fx (importSkel fx p) := by
  unfold importSkel; safe

end IronCalc.XlsxSkeleton
