/-
  C24 — the xlsx string codec.

  Export side  : xlsx/src/export/escape.rs      (`escape_xml`, `needs_xlsx_escape`,
                 `starts_xlsx_escape_pattern`, `escape_char`)
  Import side  : the XML parser (roxmltree 0.19: entity / character references, end-of-line
                 normalisation, the XML 1.0 `Char` production) followed by
                 xlsx/src/import/shared_strings.rs (`decode_xlsx_escapes`).

  A string is a `List Nat` of code points (a Rust `str` is a sequence of Unicode scalar values;
  nothing below needs the scalar-value restriction, so the theorems are stated for all lists).
  The importer looks ahead on the UTF-8 *bytes* of the remaining text: `utf8` is the UTF-8 encoder
  and `startsPat` the byte-level test exactly as written in Rust; `startsPat_utf8`
  (XlsxEscapeProofs.lean) shows it is the character-level test `startsPatC`.

  No Mathlib; everything is structurally recursive so that `decide` can evaluate it.
  Code points used: `_`=0x5F `x`=0x78 `&`=0x26 `<`=0x3C `>`=0x3E `"`=0x22 `'`=0x27 `;`=0x3B `#`=0x23
  LF=0x0A CR=0x0D TAB=0x09.
-/
namespace IronCalc.XlsxEscape

/-! ### UTF-8 -/

/-- UTF-8 encoding of one code point (bytes as `Nat`). -/
def utf8 (n : Nat) : List Nat :=
  if n < 0x80 then [n]
  else if n < 0x800 then [0xC0 + n / 64, 0x80 + n % 64]
  else if n < 0x10000 then [0xE0 + n / 4096, 0x80 + n / 64 % 64, 0x80 + n % 64]
  else [0xF0 + n / 262144, 0x80 + n / 4096 % 64, 0x80 + n / 64 % 64, 0x80 + n % 64]

def utf8s : List Nat → List Nat
  | [] => []
  | c :: s => utf8 c ++ utf8s s

/-! ### character classes -/

/-- models escape.rs::needs_xlsx_escape on the current tree (after the `fix:` commit that adds
    U+FFFE / U+FFFF, the two code points of the BMP — besides the C0 controls — that the XML 1.0
    `Char` production excludes) -/
def isCtl (n : Nat) : Bool :=
  n ≤ 0x08 || n == 0x0B || n == 0x0C || (0x0E ≤ n && n ≤ 0x1F) || n == 0xFFFE || n == 0xFFFF

/-- the pinned (pre-fix) `needs_xlsx_escape`: C0 controls only -/
def isCtlOld (n : Nat) : Bool :=
  n ≤ 0x08 || n == 0x0B || n == 0x0C || (0x0E ≤ n && n ≤ 0x1F)

/-- `is_ascii_hexdigit` (on a byte or on a char: the same ranges) -/
def isHex (b : Nat) : Bool :=
  (0x30 ≤ b && b ≤ 0x39) || (0x41 ≤ b && b ≤ 0x46) || (0x61 ≤ b && b ≤ 0x66)

/-- value of a hex digit (`u32::from_str_radix(_, 16)`, digit by digit) -/
def hexVal (n : Nat) : Nat :=
  if n ≤ 0x39 then n - 0x30
  else if n ≤ 0x46 then n - 0x41 + 10
  else n - 0x61 + 10

def hex4 (a b c d : Nat) : Nat := ((hexVal a * 16 + hexVal b) * 16 + hexVal c) * 16 + hexVal d

/-- upper-case hex digit (`{:04X}`) -/
def hexDigitU (n : Nat) : Nat := if n < 10 then 0x30 + n else 0x41 + (n - 10)

/-! ### look-ahead tests -/

/-- `len >= k && p0(x[0]) && p1(x[1]) && …`: one predicate per leading position -/
def matchPre : List (Nat → Bool) → List Nat → Bool
  | [], _ => true
  | _ :: _, [] => false
  | p :: ps, b :: bs => p b && matchPre ps bs

def isU (b : Nat) : Bool := b == 0x5F
def isX (b : Nat) : Bool := b == 0x78

/-- models shared_strings.rs::decode_xlsx_escapes, the test on the bytes from position `i`:
    `i + 6 < len && bytes[i] == '_' && bytes[i+1] == 'x' && bytes[i+6] == '_'` and
    `hex.chars().all(is_ascii_hexdigit)` where `hex = &s[i+2..i+6]` (the slice always falls on
    character boundaries because bytes i+1 and i+6 are ASCII, and all of its characters are hex
    digits iff all four bytes are).  Also the pinned escape.rs::starts_xlsx_escape_pattern
    (`bytes.len() >= 7 && bytes[0] == '_' && bytes[1] == 'x' && bytes[6] == '_' && bytes[2..6] hex`). -/
def startsPat (bs : List Nat) : Bool :=
  matchPre [isU, isX, isHex, isHex, isHex, isHex, isU] bs

/-- models the *repaired* escape.rs::starts_xlsx_escape_pattern (on characters): `_x`, four hex
    digits, then a `_` **or a character that will itself be written as `_xHHHH_`**; in both cases
    the output continues with `_` after the four hex digits. -/
def startsPatFix (s : List Nat) : Bool :=
  matchPre [isU, isX, isHex, isHex, isHex, isHex, fun e => isU e || isCtl e] s

/-! ### export -/

/-- models escape.rs::escape_char (the entity layer) -/
def entity (c : Nat) : List Nat :=
  if c == 0x3C then [0x26, 0x6C, 0x74, 0x3B]                    -- &lt;
  else if c == 0x3E then [0x26, 0x67, 0x74, 0x3B]               -- &gt;
  else if c == 0x22 then [0x26, 0x71, 0x75, 0x6F, 0x74, 0x3B]   -- &quot;
  else if c == 0x27 then [0x26, 0x61, 0x70, 0x6F, 0x73, 0x3B]   -- &apos;
  else if c == 0x26 then [0x26, 0x61, 0x6D, 0x70, 0x3B]         -- &amp;
  else if c == 0x0A then [0x26, 0x23, 0x78, 0x41, 0x3B]         -- &#xA;
  else if c == 0x0D then [0x26, 0x23, 0x78, 0x44, 0x3B]         -- &#xD;
  else [c]

/-- `format!("_x{:04X}_", c as u32)` (for a code point below 0x10000) -/
def xEsc (n : Nat) : List Nat :=
  [0x5F, 0x78, hexDigitU (n / 4096 % 16), hexDigitU (n / 256 % 16), hexDigitU (n / 16 % 16),
   hexDigitU (n % 16), 0x5F]

/-- `_x005F_` -/
def escUnderscore : List Nat := [0x5F, 0x78, 0x30, 0x30, 0x35, 0x46, 0x5F]

/-- one iteration of the `while i < s.len()` loop of escape.rs::escape_xml, parametrised by the
    control-character class and the look-ahead, so that the pinned and the repaired code are the
    same function at two parameters.  `c :: rest` is the text from position `i`. -/
def piece (ctl : Nat → Bool) (pat : List Nat → Bool) (c : Nat) (rest : List Nat) : List Nat :=
  if ctl c then xEsc c
  else if c == 0x5F && pat (c :: rest) then escUnderscore
  else entity c

/-- models escape.rs::escape_xml (the fast path returns the input unchanged exactly when no piece
    differs from its character, so it is not modelled separately) -/
def escapeWith (ctl : Nat → Bool) (pat : List Nat → Bool) : List Nat → List Nat
  | [] => []
  | c :: rest => piece ctl pat c rest ++ escapeWith ctl pat rest

/-- the repaired exporter (current tree) -/
def escape : List Nat → List Nat := escapeWith isCtl startsPatFix

/-- the pinned exporter (before the two `fix:` commits); its look-ahead is on the UTF-8 bytes -/
def escapeOld : List Nat → List Nat := escapeWith isCtlOld (fun s => startsPat (utf8s s))

/-- the `_xHHHH_` layer alone: what is left once the XML parser has undone the entity layer -/
def xPiece (c : Nat) (rest : List Nat) : List Nat :=
  if isCtl c then xEsc c
  else if c == 0x5F && startsPatFix (c :: rest) then escUnderscore
  else [c]

def xLayer : List Nat → List Nat
  | [] => []
  | c :: rest => xPiece c rest ++ xLayer rest

/-! ### import, step 1: the XML parser on element text -/

/-- the XML 1.0 `Char` production: #x9 | #xA | #xD | [#x20-#xD7FF] | [#xE000-#xFFFD] | [#x10000-#x10FFFF]
    (surrogates are not scalar values and never occur in a Rust string) -/
def xmlChar (n : Nat) : Bool :=
  n == 0x9 || n == 0xA || n == 0xD || (0x20 ≤ n && n != 0xFFFE && n != 0xFFFF)

def hasPrefix : List Nat → List Nat → Bool
  | [], _ => true
  | _ :: _, [] => false
  | a :: p, b :: l => a == b && hasPrefix p l

/-- ASSUMPTION (tied by the `c24-codec` suite, op `xmltext`, against roxmltree on every run): what
    `node.text()` returns for the content of a `<t>…</t>` element.
    * a character outside the `Char` production, a `<`, or an `&` that does not start one of the
      references the exporter can emit → the document does not parse (`none`);
    * `&lt; &gt; &quot; &apos; &amp; &#xA; &#xD;` → the character;
    * literal CR LF / lone CR → LF (end-of-line normalisation);
    * a literal `]]>` → the document does not parse;
    * everything else is itself.
    `skip` counts characters of a reference still to be consumed (keeps the recursion structural). -/
def xmlTextAux : Nat → List Nat → Option (List Nat)
  | _, [] => some []
  | k + 1, _ :: rest => xmlTextAux k rest
  | 0, c :: rest =>
    if !xmlChar c then none
    else if c == 0x3C then none
    else if c == 0x26 then
      if hasPrefix [0x6C, 0x74, 0x3B] rest then (xmlTextAux 3 rest).map (0x3C :: ·)
      else if hasPrefix [0x67, 0x74, 0x3B] rest then (xmlTextAux 3 rest).map (0x3E :: ·)
      else if hasPrefix [0x71, 0x75, 0x6F, 0x74, 0x3B] rest then (xmlTextAux 5 rest).map (0x22 :: ·)
      else if hasPrefix [0x61, 0x70, 0x6F, 0x73, 0x3B] rest then (xmlTextAux 5 rest).map (0x27 :: ·)
      else if hasPrefix [0x61, 0x6D, 0x70, 0x3B] rest then (xmlTextAux 4 rest).map (0x26 :: ·)
      else if hasPrefix [0x23, 0x78, 0x41, 0x3B] rest then (xmlTextAux 4 rest).map (0x0A :: ·)
      else if hasPrefix [0x23, 0x78, 0x44, 0x3B] rest then (xmlTextAux 4 rest).map (0x0D :: ·)
      else none
    else if c == 0x0D then
      if hasPrefix [0x0A] rest then xmlTextAux 0 rest
      else (xmlTextAux 0 rest).map (0x0A :: ·)
    else if c == 0x5D && hasPrefix [0x5D, 0x3E] rest then none
    else (xmlTextAux 0 rest).map (c :: ·)

def xmlText (s : List Nat) : Option (List Nat) := xmlTextAux 0 s

/-! ### import, step 2: `decode_xlsx_escapes` -/

/-- `char::from_u32` fails exactly on the surrogate range (the code is < 0x10000 here) -/
def isSurrogate (n : Nat) : Bool := 0xD800 ≤ n && n ≤ 0xDFFF

/-- the code an `_xHHHH_` at the start of `_ :: rest` stands for: `u32::from_str_radix(hex, 16)`
    then `char::from_u32` (`none` = not a scalar value; `rest` starts at the `x`) -/
def decodeHit (rest : List Nat) : Option Nat :=
  match rest with
  | _ :: a :: b :: c :: d :: _ => if isSurrogate (hex4 a b c d) then none else some (hex4 a b c d)
  | _ => none

/-- models shared_strings.rs::decode_xlsx_escapes.  `skip` = characters already consumed by
    `i += 7`.  (The fast path `!s.contains("_x")` returns the input, exactly as the loop would.) -/
def decodeAux : Nat → List Nat → List Nat
  | _, [] => []
  | k + 1, _ :: rest => decodeAux k rest
  | 0, c :: rest =>
    if startsPat (utf8s (c :: rest)) then
      match decodeHit rest with
      | some code => code :: decodeAux 6 rest
      | none => c :: decodeAux 0 rest
    else c :: decodeAux 0 rest

def decode (s : List Nat) : List Nat := decodeAux 0 s

/-- the whole import path of a shared string / `t="str"` value -/
def importText (s : List Nat) : Option (List Nat) := (xmlText s).map decode

/-! ### the decidable sets on which the pinned exporter loses the string -/

/-- the text contains `_xHHHH` immediately followed by a C0 control (which the exporter writes as
    `_x00HH_`, completing a look-alike the decoder then misreads) -/
def lookalikeBeforeCtl : List Nat → Bool
  | [] => false
  | c :: rest =>
    matchPre [isU, isX, isHex, isHex, isHex, isHex, isCtlOld] (c :: rest) || lookalikeBeforeCtl rest

/-- the text contains U+FFFE or U+FFFF -/
def hasNonChar : List Nat → Bool
  | [] => false
  | c :: rest => c == 0xFFFE || c == 0xFFFF || hasNonChar rest

end IronCalc.XlsxEscape
