import IronCalc.Codec.Refs
import IronCalc.Io.XlsxEscape
/-
  C24 — the CELL level of the sheet XML.

  Export side : xlsx/src/export/worksheets.rs::get_worksheet_xml, the per-cell `match cell { … }`
                (21 arms: `Cell::*` × `FormulaValue::*` / `SpillValue::*`), with its helpers
                `get_cell_style_attribute`, `get_range_str`, `get_formula_attribute`.
  Import side : xlsx/src/import/worksheets.rs::load_sheet, the body of `for cell in row.children()`
                (attributes `r`, `vm`, `cm`, `t`, `s`; children `v`, `f`; the formula kinds) and
                `get_cell_from_excel` (the match on the cell type with and without a formula).

  An element is an abstract XML node as the XML parser delivers it: tag, ordered attribute list,
  children; text nodes hold the text AFTER the parser undid the entity layer (so a string `s`
  written through `escape_xml` appears as `xLayer s`, see Io/XlsxEscape.lean, theorem
  `xml_layer_inverse`), and an empty text produces no text node.

  Parameters (not modelled here, each has its own property):
  * `NumCodec N`  — `format!("{v}")` / `str::parse::<f64>` on the numbers `N` (Rust's shortest
                    round-trip printing; the driver instantiates `N` with the printed text);
  * `FCodec F`    — the formula printer (`to_excel_string` / `to_excel_array_string`) and the
                    importer's parser (`from_a1_to_rc`, which inserts implicit intersections into
                    NON-array formulas): C09's and F24g's domain.  The cell level carries the
                    printed text verbatim; what the parser makes of it is visible in `normalise`.
  Strings are `List Nat` (code points, as in XlsxEscape), attribute values are `List Char`.
-/
namespace IronCalc.XlsxCell
open IronCalc.Codec IronCalc.XlsxEscape

abbrev Txt := List Nat

def txt (s : String) : Txt := s.toList.map Char.toNat
def chars (s : List Char) : Txt := s.map Char.toNat

inductive Node where
  | elem (tag : String) (attrs : List (String × List Char)) (kids : List Node)
  | text (s : Txt)
  deriving Repr

/-! ### the cell type (base/src/types.rs::Cell) -/

inductive ErrK where
  | null | ref | name | value | div | na | num | error | nimpl | spill | calc | circ
  deriving DecidableEq, Repr

/-- models `impl Display for Error` (base/src/expressions/token.rs) -/
def errText : ErrK → String
  | .null => "#NULL!" | .ref => "#REF!" | .name => "#NAME?" | .value => "#VALUE!"
  | .div => "#DIV/0!" | .na => "#N/A" | .num => "#NUM!" | .error => "#ERROR!"
  | .nimpl => "#N/IMPL!" | .spill => "#SPILL!" | .calc => "#CALC!" | .circ => "#CIRC!"

def allErrs : List ErrK :=
  [.ref, .name, .value, .div, .na, .num, .error, .nimpl, .spill, .calc, .circ, .null]

/-- models token.rs::get_error_by_english_name (the same chain of comparisons) -/
def errOfTxt (t : Txt) : Option ErrK := allErrs.find? (fun e => txt (errText e) == t)

inductive FVal (N : Type) where
  | unevaluated
  | bool (b : Bool)
  | num (n : N)
  | text (s : Txt)
  | err (e : ErrK) (o m : Txt)   -- origin "Sheet!A1" and message
  deriving Repr

inductive SVal (N : Type) where
  | bool (b : Bool)
  | num (n : N)
  | text (s : Txt)
  | err (e : ErrK)
  deriving Repr

inductive Kind where
  | cse | dynamic
  deriving DecidableEq, Repr

inductive Cell (N F : Type) where
  | empty (s : Int)
  | boolean (v : Bool) (s : Int)
  | number (v : N) (s : Int)
  | error (e : ErrK) (s : Int)
  | shared (si : Int) (s : Int)
  | formula (f : F) (s : Int) (v : FVal N)
  | array (f : F) (s : Int) (r : Int × Int) (k : Kind) (v : FVal N)   -- r = (width, height)
  | spill (v : SVal N) (s : Int) (a : Int × Int)                      -- a = anchor (row, column)
  deriving Repr

structure NumCodec (N : Type) where
  show_ : N → Txt
  parse : Txt → Option N
  zero : N

structure FCodec (F : Type) where
  /-- `to_excel_string` (false) / `to_excel_array_string` (true) -/
  print : Bool → F → Txt
  /-- `from_a1_to_rc(text, …, is_array_formula)` -/
  parse : Bool → Txt → F

/-! ### export -/

inductive WOut where
  | node (n : Node)
  | skip     -- `continue`: the cell is not written
  | panic    -- `unwrap()` / `panic!("Model needs to be evaluated before saving!")`
  deriving Repr

/-- a text payload as children of an element: an empty text has no text node -/
def textKids (t : Txt) : List Node := if t.isEmpty then [] else [.text t]

/-- models worksheets.rs::get_cell_style_attribute -/
def styleAttr (s : Int) : List (String × List Char) := if s = 0 then [] else [("s", intToDec s)]

def cmAttr : Kind → List (String × List Char)
  | .dynamic => [("cm", ['1'])]
  | .cse => []

/-- `number_to_column(column).unwrap()` followed by `format!("{column_name}{row_index}")` -/
def cellName (row col : Nat) : Option (List Char) :=
  (numberToColumn (col : Int)).map (· ++ natToDec row)

/-- models worksheets.rs::get_range_str -/
def rangeStr (row col : Nat) (w h : Int) : Option (List Char) :=
  match numberToColumn (col : Int), numberToColumn ((col : Int) + w - 1) with
  | some c1, some c2 => some (c1 ++ natToDec row ++ ':' :: c2 ++ intToDec ((row : Int) + h - 1))
  | _, _ => none

def boolTxt (b : Bool) : Txt := if b then [49] else [48]

def vEl (t : Txt) : Node := .elem "v" [] (textKids t)
/-- `<f>{escape_xml(formula)}</f>` -/
def fEl (t : Txt) : Node := .elem "f" [] (textKids (xLayer t))
/-- `<f t="array" ref="{range}">{escape_xml(formula)}</f>` -/
def fArr (range : List Char) (t : Txt) : Node :=
  .elem "f" [("t", "array".toList), ("ref", range)] (textKids (xLayer t))

def tAttr (t : String) : List (String × List Char) := [("t", t.toList)]

/-- models the per-cell match of get_worksheet_xml; the attribute order is the one written -/
def writeCell {N F : Type} (nc : NumCodec N) (fc : FCodec F) (row col : Nat) (c : Cell N F) : WOut :=
  match cellName row col with
  | none => .panic
  | some name =>
    let r : List (String × List Char) := [("r", name)]
    match c with
    | .empty s => .node (.elem "c" (r ++ styleAttr s) [])
    | .boolean v s => .node (.elem "c" (r ++ tAttr "b" ++ styleAttr s) [vEl (boolTxt v)])
    | .spill (.bool v) s _ => .node (.elem "c" (r ++ tAttr "b" ++ styleAttr s) [vEl (boolTxt v)])
    | .number v s => .node (.elem "c" (r ++ styleAttr s) [vEl (nc.show_ v)])
    | .spill (.num v) s _ => .node (.elem "c" (r ++ styleAttr s) [vEl (nc.show_ v)])
    | .error e s => .node (.elem "c" (r ++ tAttr "e" ++ styleAttr s) [vEl (txt (errText e))])
    | .spill (.err e) s _ => .node (.elem "c" (r ++ tAttr "e" ++ styleAttr s) [vEl (txt (errText e))])
    | .shared si s => .node (.elem "c" (r ++ tAttr "s" ++ styleAttr s) [vEl (chars (intToDec si))])
    | .spill (.text v) s _ => .node (.elem "c" (r ++ tAttr "str" ++ styleAttr s) [vEl (xLayer v)])
    | .formula _ _ .unevaluated => .panic
    | .array _ _ _ _ .unevaluated => .panic
    | .formula f s (.bool v) =>
      .node (.elem "c" (r ++ tAttr "b" ++ styleAttr s) [fEl (fc.print false f), vEl (boolTxt v)])
    | .formula f s (.num v) =>
      .node (.elem "c" (r ++ styleAttr s) [fEl (fc.print false f), vEl (nc.show_ v)])
    | .formula f s (.text v) =>
      .node (.elem "c" (r ++ tAttr "str" ++ styleAttr s) [fEl (fc.print false f), vEl (xLayer v)])
    | .formula f s (.err e _ _) =>
      .node (.elem "c" (r ++ tAttr "e" ++ styleAttr s) [fEl (fc.print false f), vEl (txt (errText e))])
    | .array f s (w, h) k v =>
      match rangeStr row col w h with
      | none => .skip
      | some range =>
        let fe := fArr range (fc.print true f)
        match v with
        | .unevaluated => .panic
        | .bool b => .node (.elem "c" (r ++ styleAttr s ++ tAttr "b" ++ cmAttr k) [fe, vEl (boolTxt b)])
        | .num n => .node (.elem "c" (r ++ styleAttr s ++ cmAttr k) [fe, vEl (nc.show_ n)])
        | .text t => .node (.elem "c" (r ++ styleAttr s ++ tAttr "str" ++ cmAttr k) [fe, vEl (xLayer t)])
        | .err e _ _ =>
          .node (.elem "c" (r ++ styleAttr s ++ tAttr "e" ++ cmAttr k) [fe, vEl (txt (errText e))])

/-! ### import -/

def Node.tag : Node → String
  | .elem t _ _ => t
  | .text _ => ""

def Node.kids : Node → List Node
  | .elem _ _ ks => ks
  | .text _ => []

def Node.isElem : Node → Bool
  | .elem _ _ _ => true
  | .text _ => false

/-- `node.attribute(k)` -/
def Node.attr (x : Node) (k : String) : Option (List Char) :=
  match x with
  | .elem _ as _ => (as.find? (fun p => p.1 == k)).map (·.2)
  | .text _ => none

/-- `node.text()`: the text of the first child if that is a text node -/
def Node.firstText (x : Node) : Option Txt :=
  match x.kids with
  | .text s :: _ => some s
  | _ => none

/-- `children().filter(|n| n.has_tag_name(t))` -/
def Node.named (x : Node) (t : String) : List Node := x.kids.filter (fun k => k.tag == t)

/-- what the reader knows besides the element -/
structure Ctx where
  sheetName : Txt
  /-- the anchor of the last multi-cell array formula read so far whose range contains this cell
      (worksheets.rs: the `array_ranges` lookup) -/
  anchor : Option (Int × Int)
  /-- the shared-strings table so far -/
  sst : List Txt

inductive RRes (N F : Type) where
  | ok (c : Cell N F) (sst : List Txt)
  | err                 -- the whole import returns an XlsxError
  | unmodelled          -- shared formulas / inline strings: depend on state or structure not modelled here
  deriving Repr

/-- models worksheets.rs::parse_range on an attribute value -/
def splitColon : List Char → List (List Char)
  | [] => [[]]
  | x :: xs =>
    if x = ':' then [] :: splitColon xs
    else
      match splitColon xs with
      | p :: ps => (x :: p) :: ps
      | [] => [[x]]

def parseRange (s : List Char) : Option (PRef × PRef) :=
  match splitColon s with
  | [a] => (parseReferenceA1 a).map (fun r => (r, r))
  | [a, b] =>
    match parseReferenceA1 a, parseReferenceA1 b with
    | some x, some y => some (x, y)
    | _, _ => none
  | _ => none

/-- models worksheets.rs::parse_reference on `"{sheet_name}!{cell_ref}"` for a `cell_ref` accepted
    by parse_reference_a1: it fails iff the sheet name contains `!` or the reference a `$` -/
def contextOk (sheetName : Txt) (r : List Char) : Bool :=
  !sheetName.contains 33 && !r.contains '$'

/-- the outcome of the `if fs.len() == 1 { … }` block -/
inductive FRes (F : Type) where
  | none                                   -- formula_index stays -1
  | some (f : F) (k : Option (Kind × Int × Int))   -- kind with (width, height)
  | err
  | unmodelled

/-- `cell_value.unwrap_or("0").parse::<f64>().unwrap_or(0.0)` -/
def readNum {N : Type} (nc : NumCodec N) (v : Option Txt) : N := (nc.parse (v.getD [48])).getD nc.zero

/-- `cell_value.unwrap_or("0").parse::<i32>().unwrap_or(0)` on a text payload -/
def readI32 (v : Option Txt) : Int :=
  (parseI32 ((v.getD [48]).map Char.ofNat)).getD 0

/-- the error-name logic shared by both halves of get_cell_from_excel -/
def readErr (v : Option Txt) (vm : Option (List Char)) : ErrK :=
  let name := v.getD (txt "#ERROR!")
  let name :=
    if name == txt "#VALUE!" && vm.isSome then
      (if vm == some ['1'] then txt "#CALC!" else if vm == some ['2'] then txt "#SPILL!" else name)
    else name
  (errOfTxt name).getD .error

def originOf (sheetName : Txt) (r : List Char) : Txt := sheetName ++ 33 :: chars r

/-- `shared_strings.iter().position(..)` or push -/
def intern (sst : List Txt) (s : Txt) : Int × List Txt :=
  match sst.findIdx? (· == s) with
  | some i => (i, sst)
  | none => (sst.length, sst ++ [s])

/-- models the formula block of load_sheet for one cell -/
def readFormula {F : Type} (fc : FCodec F) (ctx : Ctx) (cell : Node) (r : List Char) (pos : PRef)
    (isDynamic : Bool) : FRes F :=
  match cell.named "f" with
  | [f] =>
    let t := (f.attr "t").getD "normal".toList
    let hint := t == "normal".toList && f.attr "ca" == some ['1'] && f.firstText.isNone &&
      !(f.kids.any Node.isElem)
    let text := decode (f.firstText.getD [])
    if hint then .none
    else if t == "shared".toList then
      match f.attr "si" with
      | none => .err
      | some si => if (parseI32 si).isNone then .err else .unmodelled
    else if t == "dataTable".toList then .err
    else if t == "array".toList then
      match f.attr "ref" with
      | none => .err
      | some ref =>
        match parseRange ref with
        | none => .err
        | some (a, b) =>
          if a.row != pos.row || a.column != pos.column then .err
          else if !contextOk ctx.sheetName r then .err
          else
            .some (fc.parse true text)
              (some (if isDynamic then .dynamic else .cse, b.column - a.column + 1, b.row - a.row + 1))
    else if t == "normal".toList then
      if !contextOk ctx.sheetName r then .err else .some (fc.parse false text) none
    else .err
  | _ => .none

/-- models worksheets.rs::get_cell_from_excel -/
def cellFromExcel {N F : Type} (nc : NumCodec N) (ctx : Ctx) (v : Option Txt) (vm : Option (List Char))
    (ty : List Char) (s : Int) (fr : Option (F × Option (Kind × Int × Int))) (r : List Char) :
    RRes N F :=
  match fr with
  | none =>
    if ty == "b".toList then
      match ctx.anchor with
      | some a => .ok (.spill (.bool (v == some [49])) s a) ctx.sst
      | none => .ok (.boolean (v == some [49]) s) ctx.sst
    else if ty == "n".toList then
      match ctx.anchor with
      | some a => .ok (.spill (.num (readNum nc v)) s a) ctx.sst
      | none => .ok (.number (readNum nc v) s) ctx.sst
    else if ty == "e".toList then
      match ctx.anchor with
      | some a => .ok (.spill (.err (readErr v vm)) s a) ctx.sst
      | none => .ok (.error (readErr v vm) s) ctx.sst
    else if ty == "s".toList then .ok (.shared (readI32 v) s) ctx.sst
    else if ty == "str".toList then
      let str := decode (v.getD [])
      let (si, sst) := intern ctx.sst str
      match ctx.anchor with
      | some a => .ok (.spill (.text str) s a) sst
      | none => .ok (.shared si s) sst
    else if ty == "d".toList then .ok (.error .nimpl s) ctx.sst
    else if ty == "inlineStr".toList then .unmodelled
    else if ty == "empty".toList then .ok (.empty s) ctx.sst
    else .ok (.error .error s) ctx.sst
  | some (f, k) =>
    let mk : FVal N → Cell N F := fun fv =>
      match k with
      | none => .formula f s fv
      | some (kind, w, h) => .array f s (w, h) kind fv
    let o := originOf ctx.sheetName r
    if ty == "b".toList then .ok (mk (.bool (v == some [49]))) ctx.sst
    else if ty == "n".toList then .ok (mk (.num (readNum nc v))) ctx.sst
    else if ty == "e".toList then .ok (mk (.err (readErr v vm) o (v.getD (txt "#ERROR!")))) ctx.sst
    else if ty == "s".toList then .ok (mk (.err .nimpl o (txt "#N/IMPL!"))) ctx.sst
    else if ty == "str".toList then .ok (mk (.text (decode (v.getD [])))) ctx.sst
    else if ty == "d".toList then .ok (mk (.err .nimpl o (txt "#N/IMPL!"))) ctx.sst
    else if ty == "inlineStr".toList then .unmodelled
    else .ok (mk (.err .error o (txt "#ERROR!"))) ctx.sst

/-- the `<v>` child: `if vs.len() == 1 { Some(vs[0].text().unwrap_or("")) } else { None }` -/
def cellValue (cell : Node) : Option Txt :=
  match cell.named "v" with
  | [x] => some (x.firstText.getD [])
  | _ => none

/-- the cell type: the `t` attribute, else "empty" without a value and "n" with one -/
def cellType (cell : Node) (v : Option Txt) : List Char :=
  match cell.attr "t" with
  | some t => t
  | none => if v.isNone then "empty".toList else "n".toList

/-- the style index: `s.parse::<i32>().unwrap_or(0)`, 0 without the attribute -/
def readStyle (o : Option (List Char)) : Int :=
  match o with
  | some x => (parseI32 x).getD 0
  | none => 0

/-- models the body of `for cell in row.children()` of load_sheet -/
def readCell {N F : Type} (nc : NumCodec N) (fc : FCodec F) (ctx : Ctx) (cell : Node) : RRes N F :=
  match cell.attr "r" with
  | none => .err
  | some r =>
    match parseReferenceA1 r with
    | none => .err
    | some pos =>
      let vm := cell.attr "vm"
      let v := cellValue cell
      if !(cell.named "is").isEmpty then .unmodelled
      else
        let isDynamic := cell.attr "cm" == some ['1']
        let ty := cellType cell v
        let s := readStyle (cell.attr "s")
        match readFormula fc ctx cell r pos isDynamic with
        | .err => .err
        | .unmodelled => .unmodelled
        | .none => cellFromExcel nc ctx v vm ty s none r
        | .some f k => cellFromExcel nc ctx v vm ty s (some (f, k)) r

/-! ### what a round trip may change -/

def normVal {N : Type} (origin : Txt) : FVal N → FVal N
  | .err e _ _ => .err e origin (txt (errText e))
  | v => v

/-- The image of a cell under export + import.  It is the identity except:
    * the formula goes through the printer and the importer's parser (`fc.parse b (fc.print b f)`):
      the identity exactly when the formula text round-trips (C09), NOT the identity for the
      non-array formulas into which the importer inserts an implicit intersection (F24g);
    * the origin and message of an error VALUE of a formula are re-derived (own address, error text):
      they are not part of what C24 lists. -/
def normalise {N F : Type} (fc : FCodec F) (sheetName : Txt) (name : List Char) : Cell N F → Cell N F
  | .formula f s v => .formula (fc.parse false (fc.print false f)) s (normVal (originOf sheetName name) v)
  | .array f s r k v => .array (fc.parse true (fc.print true f)) s r k (normVal (originOf sheetName name) v)
  | c => c

end IronCalc.XlsxCell
