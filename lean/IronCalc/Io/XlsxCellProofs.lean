import IronCalc.Io.XlsxCell
import IronCalc.Io.XlsxEscapeProofs
import IronCalc.Codec.RefsProofs
/-
  Helper lemmas for the cell level of C24.  The property theorems are in Props/C24Cell.lean.
-/
namespace IronCalc.XlsxCell
open IronCalc.Codec IronCalc.XlsxEscape

/-! ### the cell name is read back by parse_reference_a1 -/

theorem isDigit_not_upper (c : Char) (h : isDigit c = true) : isUpper c = false := by
  cases hu : isUpper c with
  | false => rfl
  | true => have := isUpper_not_digit c hu; simp [this] at h

theorem a1Loop_upper (s t : List Char) (hs : s.all isUpper = true) :
    ∀ a : A1Acc, a.inRow = false → a1Loop (s ++ t) a = a1Loop t { a with col := a.col ++ s } := by
  induction s with
  | nil => intro a _; simp
  | cons c s ih =>
    intro a ha
    simp only [List.all_cons, Bool.and_eq_true] at hs
    have h1 : a1Step a c = some { a with col := a.col ++ [c] } := by
      simp [a1Step, hs.1, ha]
    rw [List.cons_append, a1Loop, h1]
    simp only
    have := ih hs.2 { a with col := a.col ++ [c] } ha
    rw [this]
    simp

theorem a1Loop_digits (d : List Char) (hd : d.all isDigit = true) :
    ∀ a : A1Acc, a1Loop d a = some { a with row := a.row ++ d, inRow := a.inRow || !d.isEmpty } := by
  induction d with
  | nil => intro a; simp [a1Loop]
  | cons c d ih =>
    intro a
    simp only [List.all_cons, Bool.and_eq_true] at hd
    have h1 : a1Step a c = some { a with row := a.row ++ [c], inRow := true } := by
      simp [a1Step, hd.1, isDigit_not_upper c hd.1]
    rw [a1Loop, h1]
    simp only
    have := ih hd.2 { a with row := a.row ++ [c], inRow := true }
    rw [this]
    simp

theorem parseReferenceA1_name (col row : Nat) (hc1 : 1 ≤ col) (hc2 : col ≤ 16384)
    (hr1 : 1 ≤ row) (hr2 : row ≤ 1048576) :
    parseReferenceA1 (numToCol col ++ natToDec row) =
      some { column := col, row := row, absCol := false, absRow := false } := by
  unfold parseReferenceA1
  rw [a1Loop_upper _ _ (numToCol_all_upper col) _ rfl, a1Loop_digits _ (natToDec_all_digit row)]
  simp only [List.nil_append]
  have hv : isValidColumn (numToCol col) = true := by
    unfold isValidColumn
    have := numToCol_length_le3 col (by omega)
    have hn : ¬ (numToCol col).length > 3 := by omega
    simp only [hn, if_false, columnToNumber_numToCol col hc1 hc2]
    simp [isValidColumnNumber, LAST_COLUMN]
    exact ⟨by omega, decide_eq_true (by omega)⟩
  have hrow : isValidRow (row : Int) = true := by
    simp [isValidRow, LAST_ROW]
    exact ⟨by omega, decide_eq_true (by omega)⟩
  simp [hv, parseI32_natToDec row (by omega), hrow, columnToNumber_numToCol col hc1 hc2]


/-! ### the range of an array formula is read back by parse_range -/

theorem splitColon_none (b : List Char) (h : ∀ c ∈ b, c ≠ ':') : splitColon b = [b] := by
  induction b with
  | nil => rfl
  | cons x xs ih =>
    have hx : x ≠ ':' := h x (by simp)
    have := ih (fun c hc => h c (by simp [hc]))
    simp [splitColon, hx, this]

theorem splitColon_app (a b : List Char) (h : ∀ c ∈ a, c ≠ ':') :
    splitColon (a ++ ':' :: b) = a :: splitColon b := by
  induction a with
  | nil => simp [splitColon]
  | cons x xs ih =>
    have hx : x ≠ ':' := h x (by simp)
    have := ih (fun c hc => h c (by simp [hc]))
    simp [splitColon, hx, this]

theorem isUpper_ne_colon (c : Char) (h : isUpper c = true) : c ≠ ':' := by
  intro e; subst e; revert h; decide

theorem name_no_colon (col row : Nat) : ∀ c ∈ numToCol col ++ natToDec row, c ≠ ':' := by
  intro c hc
  rcases List.mem_append.mp hc with h | h
  · exact isUpper_ne_colon c (List.all_eq_true.mp (numToCol_all_upper col) c h)
  · exact isDigit_ne_colon c (List.all_eq_true.mp (natToDec_all_digit row) c h)

theorem parseRange_names (col row col2 row2 : Nat)
    (hc1 : 1 ≤ col) (hc2 : col ≤ 16384) (hr1 : 1 ≤ row) (hr2 : row ≤ 1048576)
    (hd1 : 1 ≤ col2) (hd2 : col2 ≤ 16384) (hs1 : 1 ≤ row2) (hs2 : row2 ≤ 1048576) :
    parseRange ((numToCol col ++ natToDec row) ++ ':' :: (numToCol col2 ++ natToDec row2)) =
      some ({ column := col, row := row, absCol := false, absRow := false },
            { column := col2, row := row2, absCol := false, absRow := false }) := by
  unfold parseRange
  rw [splitColon_app _ _ (name_no_colon col row), splitColon_none _ (name_no_colon col2 row2)]
  simp [parseReferenceA1_name col row hc1 hc2 hr1 hr2, parseReferenceA1_name col2 row2 hd1 hd2 hs1 hs2]

theorem numberToColumn_nat (col : Nat) (h1 : 1 ≤ col) (h2 : col ≤ 16384) :
    numberToColumn (col : Int) = some (numToCol col) := by
  unfold numberToColumn
  have : isValidColumnNumber (col : Int) = true := by
    simp [isValidColumnNumber, LAST_COLUMN]
    exact ⟨by omega, decide_eq_true (by omega)⟩
  simp [this]

theorem cellName_eq (row col : Nat) (h1 : 1 ≤ col) (h2 : col ≤ 16384) :
    cellName row col = some (numToCol col ++ natToDec row) := by
  simp [cellName, numberToColumn_nat col h1 h2]

theorem name_no_dollar (col row : Nat) : (numToCol col ++ natToDec row).contains '$' = false := by
  cases h : (numToCol col ++ natToDec row).contains '$' with
  | false => rfl
  | true =>
    exfalso
    have hm : '$' ∈ numToCol col ++ natToDec row := by simpa using h
    rcases List.mem_append.mp hm with h | h
    · exact isUpper_ne_dollar _ (List.all_eq_true.mp (numToCol_all_upper col) _ h) rfl
    · exact isDigit_ne_dollar _ (List.all_eq_true.mp (natToDec_all_digit row) _ h) rfl

theorem contextOk_name (sn : Txt) (col row : Nat) (h : sn.contains 33 = false) :
    contextOk sn (numToCol col ++ natToDec row) = true := by
  unfold contextOk; rw [h, name_no_dollar]; rfl

/-! ### reading the pieces back -/

theorem firstText_textKids (t : Txt) : (Node.firstText (.elem "x" [] (textKids t))).getD [] = t := by
  unfold textKids Node.firstText Node.kids
  cases t with
  | nil => simp
  | cons a l => simp

theorem vEl_text (t : Txt) : ((vEl t).firstText).getD [] = t := by
  unfold vEl textKids Node.firstText Node.kids
  cases t <;> simp

theorem errOfTxt_errText (e : ErrK) : errOfTxt (txt (errText e)) = some e := by
  cases e <;> decide

theorem readErr_errText (e : ErrK) : readErr (some (txt (errText e))) none = e := by
  simp [readErr, errOfTxt_errText]

theorem bool_read (b : Bool) : (some (boolTxt b) == some [49]) = b := by
  cases b <;> decide

theorem bool_read' (b : Bool) : (boolTxt b == [49]) = b := by
  cases b <;> decide

theorem chars_back (l : List Char) : (chars l).map Char.ofNat = l := by
  induction l with
  | nil => rfl
  | cons c l ih => simp [chars] at ih ⊢; exact ih

theorem readI32_intToDec (i : Int) (h1 : -2147483648 ≤ i) (h2 : i ≤ 2147483647) :
    readI32 (some (chars (intToDec i))) = i := by
  simp [readI32, chars_back, parseI32_intToDec i h1 h2]


/-! ### attribute lookup on the written attribute lists -/

def lk (as : List (String × List Char)) (k : String) : Option (List Char) :=
  (as.find? (fun p => p.1 == k)).map (·.2)

theorem attr_elem (t : String) (as : List (String × List Char)) (ks : List Node) (k : String) :
    (Node.elem t as ks).attr k = lk as k := rfl

theorem lk_append (a b : List (String × List Char)) (k : String) :
    lk (a ++ b) k = (lk a k).orElse (fun _ => lk b k) := by
  unfold lk
  rw [List.find?_append]
  cases List.find? (fun p => p.1 == k) a <;> simp

theorem lk_nil (k : String) : lk [] k = none := rfl

theorem lk_cons (a : String) (v : List Char) (l : List (String × List Char)) (k : String) :
    lk ((a, v) :: l) k = if a == k then some v else lk l k := by
  unfold lk
  by_cases h : (a == k) = true
  · simp [List.find?, h]
  · have h' : (a == k) = false := by simpa using h
    simp [List.find?, h']

theorem lk_style (s : Int) (k : String) :
    lk (styleAttr s) k = if s = 0 then none else if "s" == k then some (intToDec s) else none := by
  unfold styleAttr
  by_cases h : s = 0
  · simp [h, lk_nil]
  · simp [h, lk_cons, lk_nil]

theorem named_elem (t : String) (as : List (String × List Char)) (ks : List Node) (k : String) :
    (Node.elem t as ks).named k = ks.filter (fun x => x.tag == k) := rfl

theorem vEl_tag (t : Txt) : (vEl t).tag = "v" := rfl
theorem fEl_tag (t : Txt) : (fEl t).tag = "f" := rfl
theorem fArr_tag (r : List Char) (t : Txt) : (fArr r t).tag = "f" := rfl

theorem fEl_text (t : Txt) : decode ((fEl t).firstText.getD []) = t := by
  have : (fEl t).firstText.getD [] = xLayer t := by
    unfold fEl textKids Node.firstText Node.kids
    cases xLayer t <;> simp
  rw [this]; exact decode_xLayer t

theorem fArr_text (r : List Char) (t : Txt) : decode ((fArr r t).firstText.getD []) = t := by
  have : (fArr r t).firstText.getD [] = xLayer t := by
    unfold fArr textKids Node.firstText Node.kids
    cases xLayer t <;> simp
  rw [this]; exact decode_xLayer t

theorem fArr_attr (r : List Char) (t : Txt) (k : String) :
    (fArr r t).attr k = lk [("t", "array".toList), ("ref", r)] k := rfl

theorem fEl_attr (t : Txt) (k : String) : (fEl t).attr k = none := rfl

theorem lk_style_other (s : Int) (k : String) (h : ("s" == k) = false) : lk (styleAttr s) k = none := by
  rw [lk_style]; simp [h]

theorem lk_style_s (s : Int) : lk (styleAttr s) "s" = if s = 0 then none else some (intToDec s) := by
  rw [lk_style]; simp

theorem orElse_none' {α : Type} (o : Option α) : (o.orElse fun _ => none) = o := by
  cases o <;> rfl

theorem readStyle_style (s : Int) (h1 : -2147483648 ≤ s) (h2 : s ≤ 2147483647) :
    readStyle (if s = 0 then none else some (intToDec s)) = s := by
  by_cases h : s = 0
  · simp [h, readStyle]
  · simp [h, readStyle, parseI32_intToDec s h1 h2]


theorem intToDec_nat (n : Nat) : intToDec (n : Int) = natToDec n := by
  unfold intToDec
  have : ¬ ((n : Int) < 0) := by omega
  simp [this]

/-- the written `ref` of an array formula whose second corner is in the grid -/
theorem rangeStr_eq (row col : Nat) (w h : Int)
    (hc1 : 1 ≤ col) (hc2 : col ≤ 16384)
    (hd1 : 1 ≤ (col : Int) + w - 1) (hd2 : (col : Int) + w - 1 ≤ 16384)
    (hs1 : 1 ≤ (row : Int) + h - 1) :
    rangeStr row col w h =
      some ((numToCol col ++ natToDec row) ++ ':' ::
        (numToCol ((col : Int) + w - 1).toNat ++ natToDec ((row : Int) + h - 1).toNat)) := by
  unfold rangeStr
  have e1 : ((col : Int) + w - 1) = (((col : Int) + w - 1).toNat : Int) := by omega
  have e2 : ((row : Int) + h - 1) = (((row : Int) + h - 1).toNat : Int) := by omega
  rw [numberToColumn_nat col hc1 hc2]
  rw [e1, numberToColumn_nat _ (by omega) (by omega)]
  rw [e2, intToDec_nat]
  simp

end IronCalc.XlsxCell
