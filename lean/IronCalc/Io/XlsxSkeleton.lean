/-
  C25 — the skeleton of structural accesses of the xlsx importer.

  models xlsx/src/import/{mod,workbook,worksheets,styles,theme,tables,conditional_formatting,util}.rs:
  for every importer entry, the accesses that decide between `Ok`, `Err(XlsxError)` and a panic —
  required parts, required children (`[0]` on a filtered child list), required attributes
  (`get_attribute(..)?`), checked numeric parses (`parse::<T>()?`), enumerated attribute values,
  index / slice / map accesses — over an abstract XML tree.  What is computed from the values
  (styles, cells, formulas) is not modelled: it cannot change the outcome class.

  `fx : String → Bool` says which of the *sites* (named by `file:line` of the pinned tree, the text
  of the panic location) are repaired.  At an unrepaired site the skeleton yields `panic site`
  exactly where the pinned code panics; at a repaired site it follows the current code (an `Err`,
  or a harmless default).  `pinned = fun _ => false`, `current = fun _ => true`.

  Not modelled (C25 is claimed `partial`): zip inflation, XML parsing (the trees ARE the parser's
  output), memory/time of the third-party crates, `Model::from_workbook` (never fails on what the
  importer returns, by the tie only).
-/
namespace IronCalc.XlsxSkeleton

inductive Xml where
  | elem (tag : String) (attrs : List (String × String)) (kids : List Xml)
  | text (s : String)

abbrev Package := List (String × Xml)

inductive Fail where
  | err
  | panic (site : String)
  deriving DecidableEq, Repr

abbrev R := Except Fail

instance : DecidableEq (R Unit) := fun a b =>
  match a, b with
  | .ok _, .ok _ => isTrue rfl
  | .error e, .error f =>
    if h : e = f then isTrue (by rw [h]) else isFalse (by intro c; cases c; exact h rfl)
  | .ok _, .error _ => isFalse (by intro c; cases c)
  | .error _, .ok _ => isFalse (by intro c; cases c)

/-- a site where the repaired code goes on normally -/
def siteGo (fx : String → Bool) (cond : Bool) (site : String) : R Unit :=
  if cond && !fx site then .error (.panic site) else .ok ()

/-- a site where the repaired code returns an `XlsxError` -/
def siteErr {α : Type} (fx : String → Bool) (site : String) : R α :=
  if fx site then .error .err else .error (.panic site)

def need {α : Type} (o : Option α) : R α :=
  match o with
  | some a => .ok a
  | none => .error .err

def check (b : Bool) : R Unit := if b then .ok () else .error .err

def forEach {α : Type} (l : List α) (f : α → R Unit) : R Unit :=
  match l with
  | [] => .ok ()
  | a :: l => f a >>= fun _ => forEach l f

/-- run `x` but turn an `Err` into success (`.ok()` on a `Result`); a panic still propagates -/
def swallow (x : R Unit) : R Unit :=
  match x with
  | .error .err => .ok ()
  | r => r

/-- an optional attribute that, when present, must be accepted by `p` (`parse::<T>()?`) -/
def optCheck (o : Option String) (p : String → Bool) : R Unit :=
  match o with
  | some v => check (p v)
  | none => .ok ()

/-! ### tree access (roxmltree) -/

def Xml.tag : Xml → String
  | .elem t _ _ => t
  | .text _ => ""

def Xml.isElem : Xml → Bool
  | .elem _ _ _ => true
  | .text _ => false

def Xml.kids : Xml → List Xml
  | .elem _ _ ks => ks
  | .text _ => []

def Xml.attr (x : Xml) (k : String) : Option String :=
  match x with
  | .elem _ as _ => (as.find? (fun p => p.1 == k)).map (·.2)
  | .text _ => none

/-- `node.text()`: the text of the first child if it is a text node -/
def Xml.firstText (x : Xml) : Option String :=
  match x.kids with
  | .text s :: _ => some s
  | _ => none

/-- `children().filter(|n| n.has_tag_name(t))` -/
def Xml.named (x : Xml) (t : String) : List Xml := x.kids.filter (fun k => k.tag == t)

mutual
/-- `descendants()` (document order, the node itself first) -/
def Xml.desc : Xml → List Xml
  | .elem t a ks => .elem t a ks :: descList ks
  | .text s => [.text s]
def descList : List Xml → List Xml
  | [] => []
  | k :: ks => k.desc ++ descList ks
end

def Xml.descNamed (x : Xml) (t : String) : List Xml := x.desc.filter (fun k => k.tag == t)

def part (p : Package) (path : String) : Option Xml := (p.find? (fun q => q.1 == path)).map (·.2)

/-! ### value recognisers -/

def allDigits (cs : List Char) : Bool := !cs.isEmpty && cs.all Char.isDigit

def natVal (cs : List Char) : Nat := cs.foldl (fun n c => n * 10 + (c.toNat - 48)) 0

/-- `str::parse::<i32>()` succeeds -/
def isI32 (s : String) : Bool :=
  match s.toList with
  | '-' :: ds => allDigits ds && natVal ds ≤ 2147483648
  | '+' :: ds => allDigits ds && natVal ds ≤ 2147483647
  | ds => allDigits ds && natVal ds ≤ 2147483647

/-- `str::parse::<u32>()` / `parse::<usize>()` succeed (`bound` = MAX) -/
def isUnsigned (bound : Nat) (s : String) : Bool :=
  match s.toList with
  | '+' :: ds => allDigits ds && natVal ds ≤ bound
  | ds => allDigits ds && natVal ds ≤ bound

def isU32 := isUnsigned 4294967295
def isUsize := isUnsigned 18446744073709551615

def lower (cs : List Char) : List Char := cs.map Char.toLower

/-- digits* [ '.' digits* ] with at least one digit, then an optional exponent -/
def isDecimal (cs : List Char) : Bool :=
  let intPart := cs.takeWhile Char.isDigit
  let r1 := cs.dropWhile Char.isDigit
  let (fracPart, r2) := match r1 with
    | '.' :: r => (r.takeWhile Char.isDigit, r.dropWhile Char.isDigit)
    | r => ([], r)
  (!intPart.isEmpty || !fracPart.isEmpty) &&
    (match r2 with
     | [] => true
     | e :: r =>
       (e == 'e' || e == 'E') &&
         (match r with
          | '+' :: ds => allDigits ds
          | '-' :: ds => allDigits ds
          | ds => allDigits ds))

/-- `str::parse::<f64>()` succeeds -/
def isF64 (s : String) : Bool :=
  let cs := s.toList
  let body := match cs with
    | '+' :: r => r
    | '-' :: r => r
    | r => r
  let l := lower body
  l == "inf".toList || l == "infinity".toList || l == "nan".toList || isDecimal body

/-- byte index 2 is a character boundary of `s` (`s.get(2..)` is `Some`) -/
def boundary2 (s : String) : Bool :=
  match s.toList with
  | [] => false
  | a :: rest =>
    if a.utf8Size == 2 then true
    else if a.utf8Size == 1 then
      match rest with
      | [] => false
      | _ :: _ => true
    else false

/-- the 8-byte value whose `[2..]` slice is not on a character boundary (a first character of one
    byte followed by a multi-byte one, or a first character of three or four bytes) -/
def badSlice8 (s : String) : Bool :=
  s.utf8ByteSize == 8 &&
    (match s.toList with
     | [] => false
     | a :: rest =>
       if a.utf8Size == 2 then false
       else if a.utf8Size == 1 then
         match rest with
         | [] => false
         | b :: _ => b.utf8Size != 1
       else true)

def endsWith (s suffix : String) : Bool :=
  let a := s.toList.reverse
  let b := suffix.toList.reverse
  b.isPrefixOf a

def startsWith (s pre : String) : Bool := pre.toList.isPrefixOf s.toList

/-- models base/src/expressions/utils::parse_reference_a1 (row, column) -/
def refScan : List Char → (col : List Char) → (row : List Char) → (inRow : Bool) → Option (List Char × List Char)
  | [], col, row, _ => some (col, row)
  | c :: cs, col, row, inRow =>
    if 'A' ≤ c && c ≤ 'Z' && !inRow then refScan cs (col ++ [c]) row inRow
    else if c.isDigit then refScan cs col (row ++ [c]) true
    else if c == '$' then
      if col.isEmpty then refScan cs col row inRow
      else if !inRow then refScan cs col row true
      else none
    else none

def colVal (cs : List Char) : Nat := cs.foldl (fun n c => n * 26 + (c.toNat - 64)) 0

def parseRefA1 (s : String) : Option (Nat × Nat) :=
  match refScan s.toList [] [] false with
  | none => none
  | some (col, row) =>
    if col.length ≤ 3 && !col.isEmpty && 1 ≤ colVal col && colVal col ≤ 16384 &&
       allDigits row && natVal row ≤ 2147483647 && 1 ≤ natVal row && natVal row ≤ 1048576
    then some (natVal row, colVal col) else none

/-- `str::split(c)` on characters (structural, so that the kernel can evaluate it) -/
def splitChar (c : Char) : List Char → List (List Char)
  | [] => [[]]
  | x :: xs =>
    if x == c then [] :: splitChar c xs
    else
      match splitChar c xs with
      | p :: ps => (x :: p) :: ps
      | [] => [[x]]

/-- models worksheets.rs::parse_range -/
def parseRange (s : String) : Option ((Nat × Nat) × (Nat × Nat)) :=
  match splitChar ':' s.toList with
  | [a] => (parseRefA1 (String.ofList a)).map (fun r => (r, r))
  | [a, b] =>
    match parseRefA1 (String.ofList a), parseRefA1 (String.ofList b) with
    | some x, some y => some (x, y)
    | _, _ => none
  | _ => none

/-- models worksheets.rs::parse_reference on `"{sheet_name}!{cell_ref}"` for a `cell_ref` already
    accepted by parse_reference_a1: it fails iff the sheet name contains `!` or the reference a `$` -/
def contextOk (sheetName cellRef : String) : Bool :=
  !sheetName.toList.contains '!' && !cellRef.toList.contains '$'

/-! ### util.rs -/

/-- models util.rs::get_color_indexed (site util.rs:58: `raw[2..]` on any 8-byte value) -/
def getColor (fx : String → Bool) (n : Xml) : R Unit :=
  match n.attr "rgb" with
  | some raw => siteGo fx (badSlice8 raw) "xlsx/src/import/util.rs:58"
  | none =>
    match n.attr "indexed" with
    | some v => check (isI32 v)
    | none =>
      match n.attr "theme" with
      | some v => check (isI32 v)
      | none => .ok ()

/-! ### styles.rs -/

/-- models styles.rs::get_border -/
def getBorder (fx : String → Bool) (node : Xml) (name : String) : R Unit :=
  match node.named name with
  | [b] =>
    match b.attr "style" with
    | none => .ok ()
    | some _ =>
      match b.named "color" with
      | [c] => getColor fx c
      | _ => .ok ()
  | _ => .ok ()

def borderSides : List String := ["left", "right", "top", "bottom", "diagonal"]

/-- fgColor / bgColor children of the single patternFill -/
def patternFill (fx : String → Bool) (fill : Xml) : R Unit :=
  match fill.named "patternFill" with
  | [pf] => forEach pf.kids (fun f =>
      if f.tag == "fgColor" || f.tag == "bgColor" then getColor fx f else .ok ())
  | _ => .ok ()

/-- models styles.rs::parse_dxf -/
def parseDxf (fx : String → Bool) (dxf : Xml) : R Unit :=
  forEach dxf.kids (fun child =>
    if child.tag == "font" then
      forEach child.kids (fun f => if f.tag == "color" then getColor fx f else .ok ())
    else if child.tag == "fill" then patternFill fx child
    else if child.tag == "border" then forEach borderSides (getBorder fx child)
    else .ok ())

/-- the `[0]` on a filtered child list (six sites in styles.rs, one in worksheets.rs) -/
def firstNamed (fx : String → Bool) (x : Xml) (t : String) (site : String) : R Xml :=
  match x.named t with
  | n :: _ => .ok n
  | [] => siteErr fx site

/-- models styles.rs::load_styles -/
def loadStyles (fx : String → Bool) (p : Package) : R Unit := do
  let root ← need (part p "xl/styles.xml")
  let fonts ← firstNamed fx root "fonts" "xlsx/src/import/styles.rs:126"
  forEach fonts.kids (fun font =>
    forEach font.kids (fun f => if f.tag == "color" then getColor fx f else .ok ()))
  let fills ← firstNamed fx root "fills" "xlsx/src/import/styles.rs:212"
  forEach fills.kids (patternFill fx)
  let borders ← firstNamed fx root "borders" "xlsx/src/import/styles.rs:256"
  forEach borders.kids (fun b => forEach borderSides (getBorder fx b))
  let _ ← firstNamed fx root "cellStyleXfs" "xlsx/src/import/styles.rs:280"
  let cellStyles ← firstNamed fx root "cellStyles" "xlsx/src/import/styles.rs:312"
  forEach cellStyles.kids (fun cs => need (cs.attr "name") >>= fun _ => .ok ())
  let cellXfs ← firstNamed fx root "cellXfs" "xlsx/src/import/styles.rs:335"
  forEach cellXfs.kids (fun xf => optCheck (xf.attr "xfId") isI32)
  match root.named "dxfs" with
  | [] => .ok ()
  | d :: _ => forEach (d.kids.filter Xml.isElem) (parseDxf fx)

/-! ### workbook.rs, mod.rs -/

structure SheetRef where
  name : String
  rid : String

/-- models workbook.rs::load_workbook: the sheets, and the number of defined names -/
def loadWorkbook (fx : String → Bool) (p : Package) : R (List SheetRef × Nat) := do
  let root ← need (part p "xl/workbook.xml")
  let sheetNodes := root.descNamed "sheet"
  forEach sheetNodes (fun s => do
    let _ ← need (s.attr "name")
    let id ← need (s.attr "sheetId")
    check (isU32 id)
    let _ ← need (s.attr "r:id")
    match s.attr "state" with
    | none => .ok ()
    | some st => check (st == "visible" || st == "hidden" || st == "veryHidden"))
  let sheets := sheetNodes.map (fun s => SheetRef.mk ((s.attr "name").getD "") ((s.attr "r:id").getD ""))
  let names := root.descNamed "definedName"
  forEach names (fun n => do
    let _ ← need (n.attr "name")
    match n.attr "localSheetId" with
    | none => .ok ()
    | some v => do
      check (isUsize v)
      if natVal (match v.toList with | '+' :: r => r | r => r) < sheets.length then .ok ()
      else siteErr fx "xlsx/src/import/workbook.rs:64")
  .ok (sheets, names.length)

structure Rel where
  id : String
  type : String
  target : String

/-- models mod.rs::load_relationships (a HashMap: the last entry of an Id wins) -/
def loadRels (p : Package) : R (List Rel) := do
  let root ← need (part p "xl/_rels/workbook.xml.rels")
  let nodes := root.descNamed "Relationship"
  forEach nodes (fun n => do
    let _ ← need (n.attr "Id")
    let _ ← need (n.attr "Type")
    let _ ← need (n.attr "Target")
    .ok ())
  .ok (nodes.map (fun n => Rel.mk ((n.attr "Id").getD "") ((n.attr "Type").getD "") ((n.attr "Target").getD "")))

def findRel (rels : List Rel) (id : String) : Option Rel := rels.reverse.find? (fun r => r.id == id)

/-! ### theme.rs -/

def stripHashes : List Char → List Char
  | '#' :: r => stripHashes r
  | r => r

/-- models theme.rs::format_hex (site theme.rs:111) -/
def formatHex (fx : String → Bool) (raw : String) : R Unit :=
  siteGo fx (badSlice8 (String.ofList (stripHashes raw.toList))) "xlsx/src/import/theme.rs:111"

/-- models theme.rs::read_color: the first srgbClr/sysClr child that has a value -/
def readColor (fx : String → Bool) : List Xml → R Unit
  | [] => .ok ()
  | c :: cs =>
    if c.tag == "srgbClr" then
      match c.attr "val" with
      | some v => formatHex fx v
      | none => readColor fx cs
    else if c.tag == "sysClr" then
      match (c.attr "lastClr").orElse (fun _ => c.attr "val") with
      | some v => formatHex fx v
      | none => readColor fx cs
    else readColor fx cs

def themeSlots : List String :=
  ["dk1", "lt1", "dk2", "lt2", "accent1", "accent2", "accent3", "accent4", "accent5", "accent6", "hlink", "folHlink"]

def relPath (target : String) : String :=
  match target.toList with
  | '/' :: r => String.ofList r
  | _ => "xl/" ++ target

/-- models theme.rs::load / try_load (errors fall back to the default theme) -/
def loadTheme (fx : String → Bool) (p : Package) (rels : List Rel) : R Unit :=
  match rels.find? (fun r => endsWith r.type "/theme") with
  | none => .ok ()
  | some r =>
    match part p (relPath r.target) with
    | none => .ok ()
    | some root =>
      match root.descNamed "clrScheme" with
      | [] => .ok ()
      | scheme :: _ =>
        forEach themeSlots (fun slot =>
          match scheme.named slot with
          | [] => .ok ()
          | s :: _ => readColor fx (s.kids.filter Xml.isElem))

/-! ### conditional_formatting.rs -/

def cfvoTypes : List String :=
  ["min", "max", "num", "percent", "percentile", "formula", "autoMin", "autoMax"]

/-- models conditional_formatting.rs::parse_cfvo -/
def parseCfvo (n : Xml) : R Unit := check (cfvoTypes.contains ((n.attr "type").getD "num"))

def cfOperators : List String :=
  ["equal", "greaterThan", "greaterThanOrEqual", "lessThan", "lessThanOrEqual", "notEqual", "between", "notBetween"]

/-- the `cfvo` / `color` children of a colorScale or dataBar node -/
def cfvoAndColors (fx : String → Bool) (n : Xml) : R Unit :=
  forEach n.kids (fun c =>
    if c.tag == "cfvo" then parseCfvo c
    else if c.tag == "color" then getColor fx c
    else .ok ())

/-- one `<cfRule>` of the main list; returns whether a rule is pushed -/
def cfRule (fx : String → Bool) (r : Xml) : R Bool :=
  match r.attr "type" with
  | none => .ok false
  | some t =>
    if t == "colorScale" then
      match r.named "colorScale" with
      | [] => .ok false
      | n :: _ => cfvoAndColors fx n >>= fun _ => .ok true
    else if t == "cellIs" then
      check (cfOperators.contains ((r.attr "operator").getD "")) >>= fun _ => .ok true
    else if t == "dataBar" then
      match r.named "dataBar" with
      | [] => .ok false
      | n :: _ => cfvoAndColors fx n >>= fun _ => .ok true
    else if t == "iconSet" then
      match r.named "iconSet" with
      | [] => .ok false
      | n :: _ => forEach (n.named "cfvo") parseCfvo >>= fun _ => .ok true
    else .ok true

def isMaxU32 (r : Xml) : Bool :=
  match r.attr "priority" with
  | some v => isU32 v && natVal (match v.toList with | '+' :: r => r | r => r) == 4294967295
  | none => false

/-- the x14 `conditionalFormatting` nodes under extLst/ext/conditionalFormattings -/
def x14Cfs (ws : Xml) : List Xml :=
  (((ws.named "extLst").flatMap (·.named "ext")).flatMap (·.named "conditionalFormattings")).flatMap
    (·.named "conditionalFormatting")

/-- models conditional_formatting.rs::parse_x14_data_bars: colour errors are dropped (`.ok()`),
    a panic is not -/
def cfDataBars (fx : String → Bool) (ws : Xml) : R Unit :=
  forEach (x14Cfs ws) (fun cf =>
    forEach (cf.named "cfRule") (fun rule =>
      if rule.attr "type" == some "dataBar" && (rule.attr "id").isSome then
        match rule.named "dataBar" with
        | [] => .ok ()
        | db :: _ =>
          match db.named "negativeFillColor" with
          | [] => .ok ()
          | c :: _ => swallow (getColor fx c)
      else .ok ()))

/-- the main loop of load_conditional_formatting -/
def cfMain (fx : String → Bool) (ws : Xml) : R Unit :=
  forEach (ws.named "conditionalFormatting") (fun cf =>
    need (cf.attr "sqref") >>= fun _ =>
      forEach (cf.named "cfRule") (fun r => cfRule fx r >>= fun _ => .ok ()))

/-- models conditional_formatting.rs::parse_x14_standalone_rules -/
def cfStandalone (fx : String → Bool) (ws : Xml) : R Unit :=
  forEach (x14Cfs ws) (fun cf =>
    match cf.named "sqref" with
    | [] => .ok ()
    | sq :: _ =>
      match sq.firstText with
      | none => .ok ()
      | some _ =>
        forEach (cf.named "cfRule") (fun rule =>
          if rule.attr "type" == some "expression" then
            match rule.named "dxf" with
            | [] => .ok ()
            | d :: _ => parseDxf fx d
          else .ok ()))

/-- models conditional_formatting.rs::load_conditional_formatting; the last step is the priority
    reversal `max_p + 1 - priority` (site conditional_formatting.rs:733) -/
def loadCf (fx : String → Bool) (ws : Xml) : R Unit := do
  cfDataBars fx ws
  cfMain fx ws
  cfStandalone fx ws
  siteGo fx ((((ws.named "conditionalFormatting").flatMap (·.named "cfRule")) ++
      ((x14Cfs ws).flatMap (·.named "cfRule"))).any isMaxU32)
    "xlsx/src/import/conditional_formatting.rs:733"

/-! ### tables.rs, worksheets.rs -/

/-- models tables.rs::load_table -/
def loadTable (root : Xml) : R Unit := do
  let _ ← need (root.attr "name")
  let _ ← need (root.attr "ref")
  optCheck (root.attr "totalsRowCount") isU32
  optCheck (root.attr "headerRowCount") isU32
  forEach (root.descNamed "tableColumn") (fun c => do
    let _ ← need (c.attr "name")
    let id ← need (c.attr "id")
    check (isU32 id))

/-- models worksheets.rs::load_comments (site worksheets.rs:230: `n.text().unwrap()` on `<t/>`) -/
def loadComments (fx : String → Bool) (root : Xml) : R Unit :=
  match root.named "commentList" with
  | [cl] =>
    forEach cl.kids (fun c => do
      siteGo fx ((c.descNamed "t").any (fun t => t.firstText.isNone)) "xlsx/src/import/worksheets.rs:230"
      let _ ← need (c.attr "ref")
      .ok ())
  | _ => .ok ()

/-- the two pieces of `path.split("/worksheets/")` (first and second), if there are at least two -/
def splitAtSub (pat : List Char) : List Char → Option (List Char × List Char)
  | [] => if pat.isEmpty then some ([], []) else none
  | c :: r =>
    if pat.isPrefixOf (c :: r) then some ([], (c :: r).drop pat.length)
    else (splitAtSub pat r).map (fun ab => (c :: ab.1, ab.2))

def splitWorksheets (path : String) : Option (String × String) :=
  let pat := "/worksheets/".toList
  match splitAtSub pat path.toList with
  | none => none
  | some (a, rest) =>
    match splitAtSub pat rest with
    | none => some (String.ofList a, String.ofList rest)
    | some (b, _) => some (String.ofList a, String.ofList b)

/-- `target.replace_range(..2, v0)` (pinned: panics unless byte 2 is a character boundary; repaired:
    an error unless the target starts with `..`) -/
def replaceDots (fx : String → Bool) (target v0 : String) : R String :=
  if !fx "library/core/src/slice/index.rs:1020" && !(target.utf8ByteSize ≥ 2 && boundary2 target) then
    .error (.panic "library/core/src/slice/index.rs:1020")
  else if startsWith target ".." then .ok (v0 ++ String.ofList (target.toList.drop 2))
  else .error .err

/-- models worksheets.rs::load_sheet_rels -/
def loadSheetRels (fx : String → Bool) (p : Package) (path : String) : R Unit := do
  match splitWorksheets path with
  | none => siteErr fx "xlsx/src/import/worksheets.rs:563"
  | some (v0, v1) =>
    match part p (v0 ++ "/worksheets/_rels/" ++ v1 ++ ".rels") with
    | none => .ok ()
    | some root =>
      forEach (root.named "Relationship") (fun rel => do
        let t ← need (rel.attr "Type")
        if endsWith t "comments" then do
          let target ← need (rel.attr "Target")
          let path ← replaceDots fx target v0
          let c ← need (part p path)
          loadComments fx c
        else if endsWith t "hyperlink" then do
          let _ ← need (rel.attr "Id")
          let _ ← need (rel.attr "Target")
          .ok ()
        else if endsWith t "table" then do
          let target ← need (rel.attr "Target")
          let path ← match target.toList with
            | '/' :: r => (.ok (String.ofList r) : R String)
            | _ => replaceDots fx target v0
          let tb ← need (part p path)
          loadTable tb
        else .ok ())

def fType (f : Xml) : String := (f.attr "t").getD "normal"

/-- an untyped, empty `<f ca="1"/>`: a volatile spill placeholder, not a formula -/
def isVolatileHint (f : Xml) : Bool :=
  fType f == "normal" && f.attr "ca" == some "1" && f.firstText.isNone && !(f.kids.any Xml.isElem)

/-- the single `<f>` child of a cell `r` (already parsed as `rc`) -/
def loadFormula (sheetName r : String) (rc : Nat × Nat) (f : Xml) : R Unit :=
  if isVolatileHint f then .ok ()
  else if fType f == "shared" then do
    let si ← need (f.attr "si")
    check (isI32 si)
    match f.attr "ref" with
    | some _ => check (contextOk sheetName r)
    | none => .ok ()
  else if fType f == "dataTable" then .error .err
  else if fType f == "array" then do
    let ref ← need (f.attr "ref")
    let rg ← need (parseRange ref)
    check (rg.1 == rc)
    check (contextOk sheetName r)
  else if fType f == "normal" then check (contextOk sheetName r)
  else .error .err

/-- one `<c>` of a row -/
def loadCell (sheetName : String) (cell : Xml) : R Unit := do
  let r ← need (cell.attr "r")
  let rc ← need (parseRefA1 r)
  match cell.named "f" with
  | [f] => loadFormula sheetName r rc f
  | _ => .ok ()

/-- one child of `<sheetData>` -/
def loadRow (sheetName : String) (row : Xml) : R Unit := do
  optCheck (row.attr "r") isI32
  forEach row.kids (loadCell sheetName)
  check ((row.attr "r").isSome || !row.kids.isEmpty)

/-- models worksheets.rs::load_columns -/
def loadCols (ws : Xml) : R Unit :=
  match ws.named "cols" with
  | [cols] =>
    forEach cols.kids (fun c => do
      let mn ← need (c.attr "min")
      check (isI32 mn)
      let mx ← need (c.attr "max")
      check (isI32 mx)
      let w ← need (c.attr "width")
      check (isF64 w))
  | _ => .ok ()

/-- models worksheets.rs::load_sheet_color -/
def loadTabColor (fx : String → Bool) (ws : Xml) : R Unit :=
  match ws.named "sheetPr" with
  | [pr] =>
    match pr.named "tabColor" with
    | [tc] => getColor fx tc
    | _ => .ok ()
  | _ => .ok ()

/-- models worksheets.rs::load_merge_cells -/
def loadMerge (ws : Xml) : R Unit :=
  match ws.named "mergeCells" with
  | [mc] => forEach mc.kids (fun m => need (m.attr "ref") >>= fun _ => .ok ())
  | _ => .ok ()

/-- models worksheets.rs::load_hyperlinks -/
def loadLinks (ws : Xml) : R Unit :=
  forEach ((ws.named "hyperlinks").flatMap (·.named "hyperlink")) (fun h => do
    let r ← need (h.attr "ref")
    let _ ← need (parseRange r)
    .ok ())

/-- models worksheets.rs::load_sheet -/
def loadSheet (fx : String → Bool) (p : Package) (path sheetName : String) : R Unit := do
  let ws ← need (part p path)
  loadCols ws
  loadTabColor fx ws
  let sheetData ← firstNamed fx ws "sheetData" "xlsx/src/import/worksheets.rs:876"
  forEach sheetData.kids (loadRow sheetName)
  loadMerge ws
  loadLinks ws
  loadCf fx ws

/-- the sheets whose relationship is a worksheet (the ones load_sheets loads) -/
def loadedSheets (rels : List Rel) (sheets : List SheetRef) : List SheetRef :=
  sheets.filter (fun s =>
    match findRel rels s.rid with
    | some rel => endsWith rel.type "worksheet"
    | none => false)

/-- models worksheets.rs::load_sheets + the defined-name re-parse of mod.rs::load_xlsx_from_reader -/
def loadSheets (fx : String → Bool) (p : Package) (rels : List Rel) (sheets : List SheetRef)
    (nNames : Nat) : R Unit := do
  forEach sheets (fun s =>
    match findRel rels s.rid with
    | none => siteErr fx "xlsx/src/import/worksheets.rs:1300"
    | some rel =>
      if endsWith rel.type "worksheet" then loadSheetRels fx p (relPath rel.target) else .ok ())
  forEach sheets (fun s =>
    match findRel rels s.rid with
    | none => siteErr fx "xlsx/src/import/worksheets.rs:1300"
    | some rel =>
      if endsWith rel.type "worksheet" then loadSheet fx p (relPath rel.target) s.name else .ok ())
  if nNames > 0 && (loadedSheets rels sheets).isEmpty then siteErr fx "xlsx/src/import/mod.rs:82" else .ok ()

/-- models mod.rs::load_xlsx_from_reader (the order of the steps is the order of the code) -/
def importSkel (fx : String → Bool) (p : Package) : R Unit := do
  let (sheets, nNames) ← loadWorkbook fx p
  let rels ← loadRels p
  loadTheme fx p rels
  loadStyles fx p
  loadSheets fx p rels sheets nNames

def pinned : String → Bool := fun _ => false
def current : String → Bool := fun _ => true

end IronCalc.XlsxSkeleton
