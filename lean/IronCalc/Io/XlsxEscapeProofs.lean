import IronCalc.Io.XlsxEscape
/-
  Helper lemmas for C24 (string codec).  The property theorems are in Props/C24.lean.
-/
namespace IronCalc.XlsxEscape

/-! ### UTF-8: the byte-level look-ahead is the character-level look-ahead -/

theorem utf8s_ascii (c : Nat) (s : List Nat) (h : c < 0x80) : utf8s (c :: s) = c :: utf8s s := by
  simp [utf8s, utf8, h]

theorem utf8s_big (c : Nat) (s : List Nat) (h : ¬ c < 0x80) :
    ∃ b t, utf8s (c :: s) = b :: t ∧ 0xC0 ≤ b := by
  unfold utf8s utf8
  by_cases h1 : c < 0x800
  · exact ⟨0xC0 + c / 64, (0x80 + c % 64) :: utf8s s, by simp [h, h1], by omega⟩
  · by_cases h2 : c < 0x10000
    · exact ⟨0xE0 + c / 4096, (0x80 + c / 64 % 64) :: (0x80 + c % 64) :: utf8s s,
        by simp [h, h1, h2], by omega⟩
    · exact ⟨0xF0 + c / 262144,
        (0x80 + c / 4096 % 64) :: (0x80 + c / 64 % 64) :: (0x80 + c % 64) :: utf8s s,
        by simp [h, h1, h2], by omega⟩

/-- a predicate that only ASCII values satisfy -/
def AsciiOnly (p : Nat → Bool) : Prop := ∀ b, p b = true → b < 0x80

theorem matchPre_utf8s (ps : List (Nat → Bool)) (hps : ∀ p ∈ ps, AsciiOnly p) :
    ∀ s, matchPre ps (utf8s s) = matchPre ps s := by
  induction ps with
  | nil => intro s; simp [matchPre]
  | cons p ps ih =>
    intro s
    have hp : AsciiOnly p := hps p (by simp)
    have ih' := ih (fun q hq => hps q (by simp [hq]))
    cases s with
    | nil => simp [utf8s, matchPre]
    | cons c s =>
      by_cases hc : c < 0x80
      · rw [utf8s_ascii c s hc]; simp [matchPre, ih']
      · obtain ⟨b, t, hbt, hb⟩ := utf8s_big c s hc
        rw [hbt]
        have h1 : p b = false := by
          cases hpb : p b with
          | false => rfl
          | true => have := hp b hpb; omega
        have h2 : p c = false := by
          cases hpc : p c with
          | false => rfl
          | true => have := hp c hpc; omega
        simp [matchPre, h1, h2]

theorem asciiOnly_isU : AsciiOnly isU := by
  intro b h; simp [isU] at h; omega
theorem asciiOnly_isX : AsciiOnly isX := by
  intro b h; simp [isX] at h; omega
theorem asciiOnly_isHex : AsciiOnly isHex := by
  intro b h; simp [isHex] at h; omega

/-- the byte-level test of `decode_xlsx_escapes` / the pinned `starts_xlsx_escape_pattern` on the
    UTF-8 encoding of a text is the same test on its characters -/
theorem startsPat_utf8s (s : List Nat) : startsPat (utf8s s) = startsPat s := by
  unfold startsPat
  apply matchPre_utf8s
  intro p hp
  simp only [List.mem_cons, List.mem_nil_iff, or_false] at hp
  rcases hp with rfl | rfl | rfl | rfl | rfl | rfl | rfl <;>
    first | exact asciiOnly_isU | exact asciiOnly_isX | exact asciiOnly_isHex

/-! ### hex digits -/

theorem isHex_hexDigitU (k : Nat) (h : k < 16) : isHex (hexDigitU k) = true := by
  unfold hexDigitU isHex
  split <;> simp <;> omega

theorem hexVal_hexDigitU (k : Nat) (h : k < 16) : hexVal (hexDigitU k) = k := by
  unfold hexDigitU hexVal
  repeat' split
  all_goals omega

theorem hex4_xEsc (n : Nat) (h : n < 0x10000) :
    hex4 (hexDigitU (n / 4096 % 16)) (hexDigitU (n / 256 % 16)) (hexDigitU (n / 16 % 16))
      (hexDigitU (n % 16)) = n := by
  unfold hex4
  rw [hexVal_hexDigitU _ (by omega), hexVal_hexDigitU _ (by omega), hexVal_hexDigitU _ (by omega),
    hexVal_hexDigitU _ (by omega)]
  omega

theorem escUnderscore_eq : escUnderscore = xEsc 0x5F := by decide

/-! ### step 1: the XML parser undoes the entity layer -/

/-- characters the parser passes through unchanged -/
def plain (c : Nat) : Bool := xmlChar c && c != 0x3C && c != 0x26 && c != 0x0D && c != 0x5D

theorem xml_plain (c : Nat) (t : List Nat) (h : plain c = true) :
    xmlTextAux 0 (c :: t) = (xmlTextAux 0 t).map (c :: ·) := by
  simp only [plain, Bool.and_eq_true, bne_iff_ne, ne_eq] at h
  obtain ⟨⟨⟨⟨h1, h2⟩, h3⟩, h4⟩, h5⟩ := h
  rw [xmlTextAux]
  simp [h1, h2, h3, h4, h5]

theorem xml_plain_list (p t : List Nat) (h : ∀ c ∈ p, plain c = true) :
    xmlTextAux 0 (p ++ t) = (xmlTextAux 0 t).map (p ++ ·) := by
  induction p with
  | nil => simp
  | cons c p ih =>
    have hc := h c (by simp)
    have ih' := ih (fun d hd => h d (by simp [hd]))
    rw [List.cons_append, xml_plain c _ hc, ih']
    cases xmlTextAux 0 t <;> simp

theorem plain_hexDigitU (k : Nat) (h : k < 16) : plain (hexDigitU k) = true := by
  unfold hexDigitU plain xmlChar
  split <;> simp <;> omega

theorem plain_xEsc (n : Nat) : ∀ c ∈ xEsc n, plain c = true := by
  intro c hc
  simp only [xEsc, List.mem_cons, List.mem_nil_iff, or_false] at hc
  rcases hc with rfl | rfl | rfl | rfl | rfl | rfl | rfl
  · decide
  · decide
  · exact plain_hexDigitU _ (by omega)
  · exact plain_hexDigitU _ (by omega)
  · exact plain_hexDigitU _ (by omega)
  · exact plain_hexDigitU _ (by omega)
  · decide

theorem xml_entity (c : Nat) (t : List Nat) (hc : isCtl c = false)
    (ht : hasPrefix [0x5D, 0x3E] t = false) :
    xmlTextAux 0 (entity c ++ t) = (xmlTextAux 0 t).map (c :: ·) := by
  by_cases h1 : c = 0x3C
  · subst h1; simp [entity, xmlTextAux, hasPrefix, xmlChar]
  by_cases h2 : c = 0x3E
  · subst h2; simp [entity, xmlTextAux, hasPrefix, xmlChar]
  by_cases h3 : c = 0x22
  · subst h3; simp [entity, xmlTextAux, hasPrefix, xmlChar]
  by_cases h4 : c = 0x27
  · subst h4; simp [entity, xmlTextAux, hasPrefix, xmlChar]
  by_cases h5 : c = 0x26
  · subst h5; simp [entity, xmlTextAux, hasPrefix, xmlChar]
  by_cases h6 : c = 0x0A
  · subst h6; simp [entity, xmlTextAux, hasPrefix, xmlChar]
  by_cases h7 : c = 0x0D
  · subst h7; simp [entity, xmlTextAux, hasPrefix, xmlChar]
  have he : entity c = [c] := by simp [entity, h1, h2, h3, h4, h5, h6, h7]
  rw [he]
  by_cases h8 : c = 0x5D
  · subst h8
    rw [List.singleton_append, xmlTextAux]
    simp [xmlChar, ht]
  apply xml_plain
  simp only [isCtl, Bool.or_eq_false_iff, decide_eq_false_iff_not, beq_eq_false_iff_ne,
    Bool.and_eq_false_iff] at hc
  simp only [plain, xmlChar, Bool.and_eq_true, Bool.or_eq_true, beq_iff_eq, decide_eq_true_eq,
    bne_iff_ne, ne_eq]
  omega

/-- the exporter never writes a raw `>` at the start of a piece … -/
theorem escape_head_ne_gt (l t : List Nat) : escape l ≠ 0x3E :: t := by
  unfold escape
  cases l with
  | nil => simp [escapeWith]
  | cons c rest =>
    rw [escapeWith, piece]
    by_cases hc : isCtl c = true
    · simp [hc, xEsc]
    · have hc' : isCtl c = false := by simpa using hc
      by_cases hp : (c == 0x5F && startsPatFix (c :: rest)) = true
      · simp [hc', hp, escUnderscore]
      · have hp' := Bool.eq_false_iff.mpr hp
        simp only [hc', hp', Bool.false_eq_true, if_false]
        unfold entity
        repeat' split
        all_goals simp_all

/-- … so its output never starts with `]>` -/
theorem escape_ne_cdata_end (l t : List Nat) : escape l ≠ 0x5D :: 0x3E :: t := by
  intro hl
  cases l with
  | nil => simp [escape, escapeWith] at hl
  | cons c rest =>
    unfold escape at hl
    rw [escapeWith, piece] at hl
    by_cases hc : isCtl c = true
    · simp [hc, xEsc] at hl
    · have hc' : isCtl c = false := by simpa using hc
      by_cases hp : (c == 0x5F && startsPatFix (c :: rest)) = true
      · simp [hc', hp, escUnderscore] at hl
      · have hp' := Bool.eq_false_iff.mpr hp
        simp only [hc', hp', Bool.false_eq_true, if_false] at hl
        unfold entity at hl
        repeat' split at hl
        all_goals (simp at hl)
        exact escape_head_ne_gt rest t hl.2

theorem escape_no_cdata_end (l : List Nat) : hasPrefix [0x5D, 0x3E] (escape l) = false := by
  cases hl : escape l with
  | nil => rfl
  | cons a t =>
    cases t with
    | nil => simp [hasPrefix]
    | cons b t =>
      simp only [hasPrefix, Bool.and_true]
      cases hab : ((0x5D : Nat) == a && (0x3E : Nat) == b) with
      | false => rfl
      | true =>
        exfalso
        simp only [Bool.and_eq_true, beq_iff_eq] at hab
        obtain ⟨h1, h2⟩ := hab
        subst h1; subst h2
        exact escape_ne_cdata_end l t hl

theorem xmlText_escape (s : List Nat) : xmlText (escape s) = some (xLayer s) := by
  unfold xmlText escape
  induction s with
  | nil => simp [escapeWith, xLayer, xmlTextAux]
  | cons c rest ih =>
    rw [escapeWith, xLayer, piece, xPiece]
    by_cases hc : isCtl c = true
    · simp only [hc, if_true]
      rw [xml_plain_list _ _ (plain_xEsc c), ih]; simp
    · have hc' : isCtl c = false := by simpa using hc
      simp only [hc', Bool.false_eq_true, if_false]
      by_cases hp : (c == 0x5F && startsPatFix (c :: rest)) = true
      · simp only [hp, if_true]
        rw [escUnderscore_eq, xml_plain_list _ _ (plain_xEsc _), ih]; simp
      · have hp' := Bool.eq_false_iff.mpr hp
        simp only [hp', Bool.false_eq_true, if_false]
        have hnc := escape_no_cdata_end rest
        unfold escape at hnc
        rw [xml_entity c _ hc' hnc, ih]; simp

/-! ### step 2: `decode_xlsx_escapes` undoes the `_xHHHH_` layer -/

theorem decode_skip6 (a b c d e f : Nat) (t : List Nat) :
    decodeAux 6 (a :: b :: c :: d :: e :: f :: t) = decodeAux 0 t := by
  simp [decodeAux]

theorem decode_xEsc (n : Nat) (t : List Nat) (hn : n < 0x10000) (hs : isSurrogate n = false) :
    decodeAux 0 (xEsc n ++ t) = n :: decodeAux 0 t := by
  have hp : startsPat (utf8s (xEsc n ++ t)) = true := by
    rw [startsPat_utf8s]
    simp [startsPat, xEsc, matchPre, isU, isX, isHex_hexDigitU _ (show n / 4096 % 16 < 16 by omega),
      isHex_hexDigitU _ (show n / 256 % 16 < 16 by omega),
      isHex_hexDigitU _ (show n / 16 % 16 < 16 by omega),
      isHex_hexDigitU _ (show n % 16 < 16 by omega)]
  have hx : xEsc n ++ t = 0x5F :: 0x78 :: hexDigitU (n / 4096 % 16) :: hexDigitU (n / 256 % 16)
      :: hexDigitU (n / 16 % 16) :: hexDigitU (n % 16) :: 0x5F :: t := by simp [xEsc]
  rw [hx] at hp ⊢
  rw [decodeAux]
  simp only [hp, if_true, decodeHit, hex4_xEsc n hn, hs, Bool.false_eq_true, if_false]
  rw [decode_skip6]

theorem decode_other (c : Nat) (t : List Nat) (h : startsPat (c :: t) = false) :
    decodeAux 0 (c :: t) = c :: decodeAux 0 t := by
  rw [decodeAux, startsPat_utf8s, h]
  simp only [Bool.false_eq_true, if_false]

/-- how the `_xHHHH_` layer starts: either the character itself (and it is not a control), or a `_`
    that stands for a control or for an underscore -/
theorem xLayer_head (r : Nat) (rest : List Nat) :
    (isCtl r = false ∧ xLayer (r :: rest) = r :: xLayer rest) ∨
    ((isCtl r = true ∨ r = 0x5F) ∧ ∃ t, xLayer (r :: rest) = 0x5F :: t) := by
  rw [xLayer, xPiece]
  by_cases hc : isCtl r = true
  · right; exact ⟨Or.inl hc, _, by simp [hc, xEsc]; rfl⟩
  · have hc' : isCtl r = false := by simpa using hc
    by_cases hp : (r == 0x5F && startsPatFix (r :: rest)) = true
    · right
      have hr : r = 0x5F := by
        simp only [Bool.and_eq_true, beq_iff_eq] at hp; exact hp.1
      exact ⟨Or.inr hr, _, by simp [hc', hp, escUnderscore]; rfl⟩
    · left; exact ⟨hc', by simp [hc', hp]⟩

theorem isCtl_not (r : Nat) (h : isCtl r = false) : isU r = false → isU r || isCtl r = false := by
  intro h'; simp [h, h']

/-- the key step: if the *output* `_` ++ xLayer rest reads `_xHHHH_`, the repaired look-ahead had
    fired on the *input* -/
theorem startsPat_xLayer (rest : List Nat) (h : startsPat (0x5F :: xLayer rest) = true) :
    startsPatFix (0x5F :: rest) = true := by
  -- position 1: x
  cases rest with
  | nil => simp [xLayer, startsPat, matchPre] at h
  | cons r1 rest =>
  rcases xLayer_head r1 rest with ⟨c1, e1⟩ | ⟨_, t, e1⟩
  rotate_left
  · rw [e1] at h; simp [startsPat, matchPre, isU, isX] at h
  rw [e1] at h
  -- position 2
  cases rest with
  | nil => simp [xLayer, startsPat, matchPre] at h
  | cons r2 rest =>
  rcases xLayer_head r2 rest with ⟨c2, e2⟩ | ⟨_, t, e2⟩
  rotate_left
  · rw [e2] at h; simp [startsPat, matchPre, isU, isX, isHex] at h
  rw [e2] at h
  -- position 3
  cases rest with
  | nil => simp [xLayer, startsPat, matchPre] at h
  | cons r3 rest =>
  rcases xLayer_head r3 rest with ⟨c3, e3⟩ | ⟨_, t, e3⟩
  rotate_left
  · rw [e3] at h; simp [startsPat, matchPre, isU, isX, isHex] at h
  rw [e3] at h
  -- position 4
  cases rest with
  | nil => simp [xLayer, startsPat, matchPre] at h
  | cons r4 rest =>
  rcases xLayer_head r4 rest with ⟨c4, e4⟩ | ⟨_, t, e4⟩
  rotate_left
  · rw [e4] at h; simp [startsPat, matchPre, isU, isX, isHex] at h
  rw [e4] at h
  -- position 5
  cases rest with
  | nil => simp [xLayer, startsPat, matchPre] at h
  | cons r5 rest =>
  rcases xLayer_head r5 rest with ⟨c5, e5⟩ | ⟨_, t, e5⟩
  rotate_left
  · rw [e5] at h; simp [startsPat, matchPre, isU, isX, isHex] at h
  rw [e5] at h
  -- position 6: `_`, a control, or an escaped underscore
  cases rest with
  | nil => simp [xLayer, startsPat, matchPre] at h
  | cons r6 rest =>
  simp only [startsPat, matchPre, Bool.and_eq_true] at h
  obtain ⟨_, hx, h1, h2, h3, h4, h6⟩ := h
  rcases xLayer_head r6 rest with ⟨c6, e6⟩ | ⟨c6, t, e6⟩
  · rw [e6] at h6
    simp only [matchPre, Bool.and_true] at h6
    simp [startsPatFix, matchPre, isU, hx, h1, h2, h3, h4]
    left; simpa [isU] using h6
  · simp only [startsPatFix, matchPre, hx, h1, h2, h3, h4, Bool.and_true, Bool.true_and]
    rcases c6 with c6 | c6
    · simp [c6, isU]
    · simp [c6, isU]

theorem decode_xLayer (s : List Nat) : decode (xLayer s) = s := by
  unfold decode
  induction s with
  | nil => simp [xLayer, decodeAux]
  | cons c rest ih =>
    rw [xLayer, xPiece]
    by_cases hc : isCtl c = true
    · simp only [hc, if_true]
      have hn : c < 0x10000 ∧ isSurrogate c = false := by
        simp only [isCtl, Bool.or_eq_true, decide_eq_true_eq, beq_iff_eq, Bool.and_eq_true] at hc
        simp only [isSurrogate, Bool.and_eq_false_iff, decide_eq_false_iff_not]
        omega
      rw [decode_xEsc c _ hn.1 hn.2, ih]
    · have hc' : isCtl c = false := by simpa using hc
      simp only [hc', Bool.false_eq_true, if_false]
      by_cases hp : (c == 0x5F && startsPatFix (c :: rest)) = true
      · simp only [hp, if_true]
        have hr : c = 0x5F := by
          simp only [Bool.and_eq_true, beq_iff_eq] at hp; exact hp.1
        rw [escUnderscore_eq, decode_xEsc _ _ (by decide) (by decide), ih, hr]
      · have hp' := Bool.eq_false_iff.mpr hp
        simp only [hp', Bool.false_eq_true, if_false, List.singleton_append]
        rw [decode_other, ih]
        -- the output does not read `_xHHHH_` here
        cases hsp : startsPat (c :: xLayer rest) with
        | false => rfl
        | true =>
          exfalso
          have hcu : c = 0x5F := by
            simp only [startsPat, matchPre, Bool.and_eq_true, isU, beq_iff_eq] at hsp
            exact hsp.1
          subst hcu
          have := startsPat_xLayer rest hsp
          simp [this] at hp

/-! ### the pinned exporter agrees with the repaired one outside the two decidable sets -/

theorem isCtlOld_eq (c : Nat) (h : (c == 0xFFFE || c == 0xFFFF) = false) : isCtlOld c = isCtl c := by
  simp only [Bool.or_eq_false_iff] at h
  unfold isCtl isCtlOld
  rw [h.1, h.2]; simp

theorem escapeOld_eq (s : List Nat) (h1 : lookalikeBeforeCtl s = false) (h2 : hasNonChar s = false) :
    escapeOld s = escape s := by
  unfold escapeOld escape
  induction s with
  | nil => simp [escapeWith]
  | cons c rest ih =>
    simp only [lookalikeBeforeCtl, Bool.or_eq_false_iff] at h1
    simp only [hasNonChar, Bool.or_eq_false_iff] at h2
    rw [escapeWith, escapeWith, ih h1.2 h2.2]
    congr 1
    unfold piece
    have hcc : isCtlOld c = isCtl c := isCtlOld_eq c (by simp [h2.1.1, h2.1.2])
    rw [hcc]
    simp only [startsPat_utf8s]
    -- the two look-aheads differ only when the 7th character is a control
    have hpat : startsPat (c :: rest) = startsPatFix (c :: rest) := by
      have hl := h1.1
      have hn := h2
      cases rest with
      | nil => simp [startsPat, startsPatFix, matchPre]
      | cons r1 rest =>
      cases rest with
      | nil => simp [startsPat, startsPatFix, matchPre]
      | cons r2 rest =>
      cases rest with
      | nil => simp [startsPat, startsPatFix, matchPre]
      | cons r3 rest =>
      cases rest with
      | nil => simp [startsPat, startsPatFix, matchPre]
      | cons r4 rest =>
      cases rest with
      | nil => simp [startsPat, startsPatFix, matchPre]
      | cons r5 rest =>
      cases rest with
      | nil => simp [startsPat, startsPatFix, matchPre]
      | cons r6 rest =>
        simp only [hasNonChar, Bool.or_eq_false_iff] at hn
        have h6 : isCtlOld r6 = isCtl r6 := isCtlOld_eq r6 (by simp [hn.2.2.2.2.2.2.1.1, hn.2.2.2.2.2.2.1.2])
        simp only [matchPre, Bool.and_true] at hl
        simp only [startsPat, startsPatFix, matchPre, Bool.and_true]
        rw [h6] at hl
        cases hU : isU c <;> cases hX : isX r1 <;> cases ha : isHex r2 <;> cases hb : isHex r3 <;>
          cases hc : isHex r4 <;> cases hd : isHex r5 <;> cases he : isCtl r6 <;>
          simp_all
    rw [hpat]

end IronCalc.XlsxEscape
