import IronCalc.Text.Dates
/-
  Model of the typed-number recogniser of base/src/formatter/format.rs
  (`parse_number`, `parse_formatted_number`, `parse_date`, `parse_day/month/year`) and of the part of
  `Model::set_user_input` / `Model::formula_without_prefix` / `Model::cast_number`
  (base/src/model.rs, base/src/cast.rs) that decides whether typed text reaches the recogniser.

  Text is `List Char`.  The result is EXACT: the pieces of the decimal literal that the Rust code
  hands to `str::parse::<f64>` (integer digits, fraction digits, exponent), the sign, whether the
  value is divided by 100 (percent) and the format kind.  The final decimal → double rounding is
  Rust's (`parse::<f64>` is correctly rounded); the harness applies it to the literal printed by the
  driver and compares bit patterns.  The only place where the double matters for control flow is
  `v.is_finite()`; that is modelled exactly (`overflowsF64`: the decimal is ≥ 2^1024 − 2^970).

  The model is the code *with* the fix commits of the agent-numbers repo branch:
  F19a (sign of `-$1e3`), F08b (non-finite → not a number),
  F19c (sign on both sides of a currency), F19d (date fields are digits only), F19e (date range),
  F19f (an ISO year is four digits, not any four bytes).
  Defect F19b (misplaced group separators accepted) is NOT repaired (a repository test pins
  `1,234567`): the model is faithful to it (`groupCheckLenient`).
  No Mathlib.
-/
namespace IronCalc.Number

/-- models `char::is_ascii_digit` -/
def isDigit (c : Char) : Bool := '0' ≤ c && c ≤ '9'

/-- models `char::is_whitespace` (Unicode White_Space), used by `str::trim` -/
def isWs (c : Char) : Bool :=
  let n := c.toNat
  (9 ≤ n && n ≤ 13) || n == 0x20 || n == 0x85 || n == 0xA0 || n == 0x1680 ||
  (0x2000 ≤ n && n ≤ 0x200A) || n == 0x2028 || n == 0x2029 || n == 0x202F || n == 0x205F || n == 0x3000

/-- models `str::trim_start` -/
def trimStart (cs : List Char) : List Char := cs.dropWhile isWs
/-- models `str::trim_end` -/
def trimEnd (cs : List Char) : List Char := (cs.reverse.dropWhile isWs).reverse
/-- models `str::trim` -/
def trim (cs : List Char) : List Char := trimEnd (trimStart cs)

/-- models `str::strip_prefix(&str)` -/
def stripPrefix (p : List Char) : List Char → Option (List Char)
  | cs => if p.isPrefixOf cs then some (cs.drop p.length) else none

/-- models `str::strip_suffix(&str)` -/
def stripSuffix (p : List Char) (cs : List Char) : Option (List Char) :=
  if p.isSuffixOf cs then some (cs.take (cs.length - p.length)) else none

/-- what the recogniser needs from a `Locale` (extracted into `Generated/C19Locales.lean`) -/
structure Locale where
  /-- `numbers.symbols.decimal.chars().next()` -/
  dec : Char
  /-- `numbers.symbols.group.chars().next()` -/
  grp : Char
  /-- `dates.date_formats.short.starts_with('d')` -/
  dayFirst : Bool
  monthsShort : List (List Char)
  months : List (List Char)
  /-- `currency.symbol` -/
  currency : List Char
deriving Repr, DecidableEq

/-- the pieces of a recognised decimal literal, as typed -/
structure Num where
  /-- the sign character that was typed, if any (`'+'` or `'-'`) -/
  sign : Option Char
  /-- the integer part as typed: digits and group separators -/
  intText : List Char
  /-- a decimal separator was typed -/
  hasDot : Bool
  frac : List Char
  /-- exponent: marker (`e`/`E`), the character after it (sign or digit), the digits after that -/
  exp : Option (Char × Char × List Char)
deriving Repr, DecidableEq

namespace Num
/-- the integer digits (Rust: `chars` before the `.`) -/
def int (n : Num) : List Char := n.intText.filter isDigit
/-- Rust: `has_commas` -/
def hasGroups (n : Num) : Bool := n.intText.any (fun c => !isDigit c)
/-- Rust: `is_scientific` -/
def isSci (n : Num) : Bool := n.exp.isSome
def neg (n : Num) : Bool := n.sign == some '-'
/-- the string handed to `parse::<f64>` (Rust: `chars`) -/
def literal (n : Num) : List Char :=
  n.int ++ (if n.hasDot then '.' :: n.frac else []) ++
  (match n.exp with | some (_, x, ds) => 'e' :: x :: ds | none => [])
/-- the text this number was typed as (inverse of the scanner; used by the specification) -/
def render (dec : Char) (n : Num) : List Char :=
  n.sign.toList ++ n.intText ++ (if n.hasDot then dec :: n.frac else []) ++
  (match n.exp with | some (m, x, ds) => m :: x :: ds | none => [])
end Num

/-! ### exact value and the finiteness test -/

def digitVal (c : Char) : Nat := c.toNat - 48
/-- value of a digit string (Horner) -/
def digitsVal (ds : List Char) : Nat := ds.foldl (fun a c => 10 * a + digitVal c) 0

/-- exponent of a literal as an integer -/
def expVal : Option (Char × Char × List Char) → Int
  | none => 0
  | some (_, x, ds) =>
    if x == '-' then - (digitsVal ds : Int)
    else if x == '+' then (digitsVal ds : Int)
    else (digitsVal (x :: ds) : Int)

/-- the exact magnitude is `mant × 10^e10` -/
def Num.mant (n : Num) : Nat := digitsVal (n.int ++ n.frac)
def Num.e10 (n : Num) : Int := expVal n.exp - (n.frac.length : Int)

def numDigits (m : Nat) : Nat := (Nat.toDigits 10 m).length

/-- `2^1024 − 2^970`: the least real that rounds (to nearest, ties to even) to +∞ -/
def infThreshold : Nat := 2 ^ 1024 - 2 ^ 970

/-- models `!v.is_finite()` for `v = parse::<f64>(literal)`: the exact decimal `mant × 10^e10`
    is at least `2^1024 − 2^970`.  Decided without building astronomically large powers. -/
def overflowsF64 (mant : Nat) (e10 : Int) : Bool :=
  if mant == 0 then false
  else
    let nd : Int := numDigits mant
    -- 10^(nd-1+e10) ≤ value < 10^(nd+e10); threshold ≈ 1.797e308
    if nd + e10 ≤ 308 then false
    else if nd - 1 + e10 ≥ 309 then true
    else if e10 ≥ 0 then decide (mant * 10 ^ e10.toNat ≥ infThreshold)
    else decide (mant ≥ infThreshold * 10 ^ (-e10).toNat)

/-! ### `parse_number` -/

def countDigits (cs : List Char) : Nat := (cs.filter isDigit).length
def countSeps (cs : List Char) : Nat := (cs.filter (fun c => !isDigit c)).length

/-- models the group-separator check of `parse_number` on the scanned run of digits and
    separators: Rust keeps, for every separator, the number `index` of digits before it and tests
    `(chars.len() - index) % 3 == 0`, i.e. the number of digits after every separator is a multiple
    of three.  (Defect F19b, kept as a known finding because a test of the repository pins it:
    `1,` `1,,000` `1,000,` `1,234567` pass this check.) -/
def groupCheckLenient : List Char → Bool
  | [] => true
  | c :: cs => (isDigit c || countDigits cs % 3 == 0) && groupCheckLenient cs

/-- the check the property asks for ("correctly placed group separators"): the digits after a
    separator are exactly three times the number of separators from it on.  NOT what the code does;
    used as the decidable domain predicate of `recognise_sound_partial`. -/
def groupCheck : List Char → Bool
  | [] => true
  | c :: cs => (isDigit c || countDigits cs == 3 * (countSeps cs + 1)) && groupCheck cs

/-- is in the first loop of `parse_number`: a digit or the group separator -/
def inRun (grp : Char) (c : Char) : Bool := isDigit c || c == grp

/-- the sign stage of `parse_number`: `characters[0] == '-'` / `'+'` -/
def takeSign : List Char → Option Char × List Char
  | c :: r => if c == '-' then (some '-', r) else if c == '+' then (some '+', r) else (none, c :: r)
  | [] => (none, [])

/-- the decimal stage: `position < len && characters[position] == decimal_separator`, then digits;
    returns (a separator was consumed, the fraction digits, the rest) -/
def scanFrac (dec : Char) (r1 : List Char) : Bool × List Char × List Char :=
  match r1 with
  | c :: r => if c == dec then (true, r.takeWhile isDigit, r.dropWhile isDigit) else (false, [], r1)
  | [] => (false, [], [])

/-- the exponent stage and the final `position != len` test: `none` = `Err`.
    `position + 1 < len && (e | E)`: with a single character left nothing is consumed (`Err`);
    `is_scientific` with a next character that is no sign/digit consumes nothing (`Err`). -/
def scanExp (r2 : List Char) : Option (Option (Char × Char × List Char)) :=
  match r2 with
  | [] => some none
  | [_] => none
  | m :: x :: r =>
    if (m == 'e' || m == 'E') && (x == '-' || x == '+' || isDigit x) && (r.dropWhile isDigit).isEmpty
    then some (some (m, x, r.takeWhile isDigit)) else none

/-- models `parse_number` up to (not including) the call of `parse::<f64>`: `none` = `Err` -/
def scanNumber (dec grp : Char) (value : List Char) : Option Num :=
  match takeSign value with
  | (sign, r0) =>
    match r0 with
    | [] => none                                         -- len == 0, or position >= len after the sign
    | c1 :: _ =>
      if c1 == grp then none                             -- starts with a group separator
      else if !groupCheckLenient (r0.takeWhile (inRun grp)) then none
      else
        match scanFrac dec (r0.dropWhile (inRun grp)) with
        | (hasDot, frac, r2) =>
          match scanExp r2 with
          | none => none
          | some e => some ⟨sign, r0.takeWhile (inRun grp), hasDot, frac, e⟩

/-- models the success of Rust's `str::parse::<f64>` on the literals `parse_number` builds
    (digits, at most one `.`, at most one `e[+-]digits`): at least one mantissa digit and, when an
    exponent is present, at least one exponent digit. -/
def literalOk (n : Num) : Bool :=
  (n.int.length + n.frac.length ≥ 1) &&
  (match n.exp with
   | none => true
   | some (_, x, ds) => isDigit x || ds.length ≥ 1)

/-- models `parse_number`: `Err` when the literal is not a Rust float literal or (fix F08b) its
    value is not finite -/
def parseNumber (dec grp : Char) (value : List Char) : Option Num :=
  match scanNumber dec grp value with
  | none => none
  | some n => if literalOk n && !overflowsF64 n.mant n.e10 then some n else none

/-! ### dates -/

/-- models `str::split(char)` -/
def splitOn (sep : Char) : List Char → List (List Char)
  | [] => [[]]
  | c :: cs =>
    if c == sep then [] :: splitOn sep cs
    else match splitOn sep cs with
      | [] => [[c]]   -- unreachable
      | p :: ps => (c :: p) :: ps

/-- models `str::len()` (UTF-8 bytes) -/
def utf8Len (cs : List Char) : Nat := (cs.map Char.utf8Size).foldl (· + ·) 0

def allDigits (cs : List Char) : Bool := cs.all isDigit

/-- models `parse_day` (after fix F19d): at most two bytes, digits only, non-empty -/
def parseDay (s : List Char) : Option (Nat × List Char) :=
  if utf8Len s ≤ 2 && allDigits s then
    if s.isEmpty then none
    else some (digitsVal s, if utf8Len s == 2 then ['d', 'd'] else ['d'])
  else none

def position? (names : List (List Char)) (s : List Char) : Option Nat :=
  let i := names.findIdx (· == s)
  if i < names.length then some i else none

/-- models `parse_month` (after fix F19d) -/
def parseMonth (ℓ : Locale) (s : List Char) : Option (Nat × List Char) :=
  if utf8Len s ≤ 2 && allDigits s then
    if s.isEmpty then none
    else some (digitsVal s, if utf8Len s == 2 then ['m', 'm'] else ['m'])
  else
    match position? ℓ.monthsShort s with
    | some i => some (i + 1, ['m', 'm', 'm'])
    | none =>
      match position? ℓ.months s with
      | some i => some (i + 1, ['m', 'm', 'm', 'm'])
      | none => none

/-- models `parse_year` (after fix F19d): two or four digits; `00–29 → 20xx`, `30–99 → 19xx` -/
def parseYear (s : List Char) : Option (Nat × List Char) :=
  if utf8Len s != 2 && utf8Len s != 4 then none
  else if !allDigits s then none
  else
    let y := digitsVal s
    if y < 30 then some (2000 + y, ['y', 'y'])
    else if y < 100 then some (1900 + y, ['y', 'y'])
    else some (y, ['y', 'y', 'y', 'y'])

/-- the first part is an ISO year: four bytes, all of them digits (after fix F19f; the pinned code
    only tested the length, so a four-letter month name such as `July` was taken for a year) -/
def isoYear (p0 : List Char) : Bool := utf8Len p0 == 4 && allDigits p0

/-- which part is the day, the month, the year: ISO `yyyy-m-d` when the first part is an ISO year,
    else the locale's order (`dates.date_formats.short.starts_with('d')`) -/
def dateFields (iso dayFirst : Bool) (p0 p1 p2 : List Char) : List Char × List Char × List Char :=
  if iso then (p2, p1, p0) else if dayFirst then (p0, p1, p2) else (p1, p0, p2)

/-- the number format `parse_date` builds -/
def dateFormat (iso dayFirst : Bool) (sep : Char) (dayF monthF yearF : List Char) : List Char :=
  if iso then ['y', 'y', 'y', 'y'] ++ [sep] ++ monthF ++ [sep] ++ dayF
  else if !dayFirst then monthF ++ [sep] ++ dayF ++ [sep] ++ yearF
  else dayF ++ [sep] ++ monthF ++ [sep] ++ yearF

/-- the separator `parse_date` splits at: the first of `/ - .` the text contains -/
def dateSeparator (value : List Char) : Option Char :=
  if value.contains '/' then some '/' else if value.contains '-' then some '-'
  else if value.contains '.' then some '.' else none

/-- models `parse_date` (after fixes F19d, F19e).  The ISO branch's `char::is_numeric` test is
    modelled by `allDigits`: both versions end in `Err` for a field with a non-ASCII "numeric"
    character because `parse_day`/`parse_month` then fail (no month name consists of numeric
    characters only: asserted by the extractor of `Generated/C19Locales.lean`). -/
def parseDate (ℓ : Locale) (value : List Char) : Option (Nat × List Char) :=
  match dateSeparator value with
  | none => none
  | some sep =>
    match splitOn sep value with
    | [p0, p1, p2] =>
      if isoYear p0 && !(allDigits p1 && allDigits p2) then none
      else
        match dateFields (isoYear p0) ℓ.dayFirst p0 p1 p2 with
        | (dayS, monthS, yearS) =>
        match parseDay dayS with
        | none => none
        | some (day, dayF) =>
        match parseMonth ℓ monthS with
        | none => none
        | some (month, monthF) =>
        match parseYear yearS with
        | none => none
        | some (year, yearF) =>
        -- `date_to_serial_number` (chrono `from_ymd_opt`; model shared with C21)
        match IronCalc.Dates.toSerial ⟨year, month, day⟩ with
        | none => none
        | some serial =>
          if serial < 1 || serial > 2958465 then none      -- fix F19e
          else some (serial.toNat, dateFormat (isoYear p0) ℓ.dayFirst sep dayF monthF yearF)
    | _ => none

/-! ### `parse_formatted_number` -/

/-- the format kind the recogniser attaches -/
inductive Kind where
  | general
  | grouped (decimals : Bool)
  | percent (decimals : Bool)
  | scientific
  | currencyPrefix (sym : List Char) (decimals : Bool)
  | currencySuffix (sym : List Char) (decimals : Bool)
  | date (fmt : List Char)
deriving Repr, DecidableEq

/-- the number format string of a kind (`None` for `general`) -/
def Kind.format : Kind → Option (List Char)
  | .general => none
  | .grouped false => some "#,##0".toList
  | .grouped true => some "#,##0.00".toList
  | .percent false => some "#,##0%".toList
  | .percent true => some "#,##0.00%".toList
  | .scientific => some "0.00E+00".toList
  | .currencyPrefix c false => some (c ++ "#,##0".toList)
  | .currencyPrefix c true => some (c ++ "#,##0.00".toList)
  | .currencySuffix c false => some ("#,##0".toList ++ c)
  | .currencySuffix c true => some ("#,##0.00".toList ++ c)
  | .date f => some f

/-- the recognised value, exact -/
inductive Value where
  /-- `(±) literal [/ 100]`; `negated` = the `-` in front of a currency symbol -/
  | num (n : Num) (negated : Bool) (percent : Bool)
  | serial (s : Nat)
deriving Repr, DecidableEq

def Value.isNegative : Value → Bool
  | .num n negated _ => n.neg != negated
  | .serial _ => false

/-- models `p.starts_with(['+', '-'])` -/
def startsWithSign : List Char → Bool
  | c :: _ => c == '+' || c == '-'
  | [] => false

/-- one iteration of the `for currency in currencies` loop: `none` = no branch matched (continue),
    `some none` = `Err` returned (the `?`), `some (some r)` = `Ok(r)` -/
def currencyStep (ℓ : Locale) (value cur : List Char) : Option (Option (Value × Kind)) :=
  match stripPrefix ('-' :: cur) value with
  | some p =>
    if startsWithSign (trim p) then some none                                         -- fix F19c
    else match parseNumber ℓ.dec ℓ.grp (trim p) with
      | none => some none
      | some n => some (some (.num n true false,
                    if n.isSci then .scientific else .currencyPrefix cur n.hasDot))
  | none =>
    match stripPrefix cur value with
    | some p =>
      match parseNumber ℓ.dec ℓ.grp (trim p) with
      | none => some none
      | some n => some (some (.num n false false,
                    if n.isSci then .scientific else .currencyPrefix cur n.hasDot))
    | none =>
      match stripSuffix cur value with
      | some p =>
        match parseNumber ℓ.dec ℓ.grp (trim p) with
        | none => some none
        | some n => some (some (.num n false false,
                      if n.isSci then .scientific else .currencySuffix cur n.hasDot))
      | none => none

def currencyLoop (ℓ : Locale) (value : List Char) : List (List Char) → Option (Option (Value × Kind))
  | [] => none
  | c :: cs =>
    match currencyStep ℓ value c with
    | some r => some r
    | none => currencyLoop ℓ value cs

/-- models `parse_formatted_number(original, currencies, locale)`; `none` = `Err` -/
def parseFormattedNumber (ℓ : Locale) (curs : List (List Char)) (original : List Char) :
    Option (Value × Kind) :=
  let value := trim original
  match stripSuffix ['%'] value with
  | some p =>
    match parseNumber ℓ.dec ℓ.grp (trim p) with
    | none => none
    | some n => some (.num n false true, if n.isSci then .scientific else .percent n.hasDot)
  | none =>
    match currencyLoop ℓ value curs with
    | some r => r
    | none =>
      match parseDate ℓ original with            -- NOTE: not trimmed
      | some (serial, fmt) => some (.serial serial, .date fmt)
      | none =>
        match parseNumber ℓ.dec ℓ.grp value with
        | none => none
        | some n =>
          some (.num n false false,
            if n.isSci then .scientific
            else if n.hasGroups then .grouped n.hasDot
            else .general)

/-! ### the way typed text reaches the recogniser (`set_user_input`) -/

def lower (c : Char) : Char := if 'A' ≤ c && c ≤ 'Z' then Char.ofNat (c.toNat + 32) else c

/-- models the success of Rust's `str::parse::<f64>` on arbitrary text:
    `[+-]? ( inf | infinity | nan | digits [. digits*] | . digits ) ([eE][+-]?digits)?`
    (special values case-insensitive, no exponent after them) -/
def rustFloatOk (s : List Char) : Bool :=
  let s := match s with
    | c :: r => if c == '+' || c == '-' then r else s
    | [] => s
  let l := s.map lower
  if l == "inf".toList || l == "infinity".toList || l == "nan".toList then true
  else
    let intD := s.takeWhile isDigit
    let r1 := s.dropWhile isDigit
    let (fracD, r2) := match r1 with
      | '.' :: r => (r.takeWhile isDigit, r.dropWhile isDigit)
      | _ => ([], r1)
    if intD.length + fracD.length == 0 then false
    else match r2 with
      | [] => true
      | m :: r =>
        if m == 'e' || m == 'E' then
          let r := match r with
            | c :: r' => if c == '+' || c == '-' then r' else r
            | [] => r
          !r.isEmpty && r.all isDigit
        else false

/-- `["$", "€"]` plus the locale's currency when it is neither (model.rs / cast.rs) -/
def currencies (ℓ : Locale) : List (List Char) :=
  let base := [['$'], ['€']]
  if base.contains ℓ.currency then base else base ++ [ℓ.currency]

/-- models `Model::cast_number(s).is_some()` -/
def castNumberOk (ℓ : Locale) (s : List Char) : Bool :=
  rustFloatOk (trim s) || (parseFormattedNumber ℓ (currencies ℓ) s).isSome

/-- models `Model::formula_without_prefix(value).is_some()` -/
def isFormulaInput (ℓ : Locale) (value : List Char) : Bool :=
  match value with
  | '=' :: r => !r.isEmpty
  | c :: r => if c == '+' || c == '-' then !(r.isEmpty || castNumberOk ℓ r) else false
  | [] => false

/-- models the path of `Model::set_user_input` to a number cell: not empty, no `'` prefix, not a
    formula, and the recogniser accepts -/
def typedNumber (ℓ : Locale) (value : List Char) : Option (Value × Kind) :=
  match value with
  | [] => none
  | '\'' :: _ => none
  | _ => if isFormulaInput ℓ value then none else parseFormattedNumber ℓ (currencies ℓ) value

end IronCalc.Number
