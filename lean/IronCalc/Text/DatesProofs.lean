import IronCalc.Text.DatesCheck
import IronCalc.Text.DatesTable.A00
import IronCalc.Text.DatesTable.A01
import IronCalc.Text.DatesTable.A02
import IronCalc.Text.DatesTable.A03
import IronCalc.Text.DatesTable.A04
import IronCalc.Text.DatesTable.A05
import IronCalc.Text.DatesTable.A06
import IronCalc.Text.DatesTable.A07
import IronCalc.Text.DatesTable.A08
import IronCalc.Text.DatesTable.A09
import IronCalc.Text.DatesTable.A10
import IronCalc.Text.DatesTable.A11
import IronCalc.Text.DatesTable.A12
import IronCalc.Text.DatesTable.A13
import IronCalc.Text.DatesTable.A14
import IronCalc.Text.DatesTable.A15
import IronCalc.Text.DatesTable.B00
import IronCalc.Text.DatesTable.B01
import IronCalc.Text.DatesTable.B02
import IronCalc.Text.DatesTable.B03
import IronCalc.Text.DatesTable.B04
import IronCalc.Text.DatesTable.B05
import IronCalc.Text.DatesTable.B06
import IronCalc.Text.DatesTable.B07
import IronCalc.Text.DatesTable.B08
import IronCalc.Text.DatesTable.B09
import IronCalc.Text.DatesTable.B10
import IronCalc.Text.DatesTable.B11
import IronCalc.Text.DatesTable.B12
import IronCalc.Text.DatesTable.B13
import IronCalc.Text.DatesTable.B14
import IronCalc.Text.DatesTable.B15
/-
  Helper lemmas: lifting the two era tables to all days / all valid dates.
-/
namespace IronCalc.Dates

theorem checkA_all (doe : Nat) : checkA doe = true := by
  by_cases h : doe < 146112
  · have hc : doe / 9132 < 16 := by omega
    have hlo : doe / 9132 * 9132 ≤ doe := Nat.div_mul_le_self doe 9132
    have hhi : doe < doe / 9132 * 9132 + 9132 := by
      have := Nat.lt_div_mul_add (a := doe) (b := 9132) (by decide); omega
    have key : ∀ c, c < 16 → allRange (c * 9132) 9132 checkA = true := by
      intro c hc
      match c, hc with
      | 0, _ => exact tableA_00
      | 1, _ => exact tableA_01
      | 2, _ => exact tableA_02
      | 3, _ => exact tableA_03
      | 4, _ => exact tableA_04
      | 5, _ => exact tableA_05
      | 6, _ => exact tableA_06
      | 7, _ => exact tableA_07
      | 8, _ => exact tableA_08
      | 9, _ => exact tableA_09
      | 10, _ => exact tableA_10
      | 11, _ => exact tableA_11
      | 12, _ => exact tableA_12
      | 13, _ => exact tableA_13
      | 14, _ => exact tableA_14
      | 15, _ => exact tableA_15
      | n+16, h => exact absurd h (by omega)
    exact allRange_spec _ _ _ (key _ hc) doe hlo hhi
  · unfold checkA
    have : doe ≥ 146097 := by omega
    simp [this]

theorem checkB_all (i : Nat) : checkB i = true := by
  by_cases h : i < 148800
  · have hc : i / 9300 < 16 := by omega
    have hlo : i / 9300 * 9300 ≤ i := Nat.div_mul_le_self i 9300
    have hhi : i < i / 9300 * 9300 + 9300 := by
      have := Nat.lt_div_mul_add (a := i) (b := 9300) (by decide); omega
    have key : ∀ c, c < 16 → allRange (c * 9300) 9300 checkB = true := by
      intro c hc
      match c, hc with
      | 0, _ => exact tableB_00
      | 1, _ => exact tableB_01
      | 2, _ => exact tableB_02
      | 3, _ => exact tableB_03
      | 4, _ => exact tableB_04
      | 5, _ => exact tableB_05
      | 6, _ => exact tableB_06
      | 7, _ => exact tableB_07
      | 8, _ => exact tableB_08
      | 9, _ => exact tableB_09
      | 10, _ => exact tableB_10
      | 11, _ => exact tableB_11
      | 12, _ => exact tableB_12
      | 13, _ => exact tableB_13
      | 14, _ => exact tableB_14
      | 15, _ => exact tableB_15
      | n+16, h => exact absurd h (by omega)
    exact allRange_spec _ _ _ (key _ hc) i hlo hhi
  · unfold checkB
    have : i / 372 ≥ 400 := by omega
    simp [this]

theorem isLeap_add_400 (e k : Nat) : isLeap (e * 400 + k) = isLeap k := by
  unfold isLeap
  have h4 : (e * 400 + k) % 4 = k % 4 := by omega
  have h100 : (e * 400 + k) % 100 = k % 100 := by omega
  have h400 : (e * 400 + k) % 400 = k % 400 := by omega
  rw [h4, h100, h400]

theorem daysInMonth_add_400 (e k m : Nat) : daysInMonth (e * 400 + k) m = daysInMonth k m := by
  unfold daysInMonth; rw [isLeap_add_400]

/-- facts about one day of an era, unpacked from table A -/
theorem tableA_facts (doe : Nat) (h : doe < 146097) :
    let c := civilInEra doe
    c.y < 400 ∧ doeOf c.y c.m c.d = doe ∧ 1 ≤ c.m ∧ c.m ≤ 12 ∧ 1 ≤ c.d ∧
      c.d ≤ daysInMonth (c.y + (if c.m ≤ 2 then 1 else 0)) c.m := by
  have := checkA_all doe
  unfold checkA at this
  simp only [Bool.or_eq_true, Bool.and_eq_true, decide_eq_true_eq, beq_iff_eq] at this
  rcases this with h' | h'
  · omega
  · obtain ⟨⟨⟨⟨⟨a, b⟩, c⟩, d⟩, e⟩, f⟩ := h'
    exact ⟨a, b, c, d, e, f⟩

/-- facts about one candidate date, unpacked from table B -/
theorem tableB_facts (k m d : Nat) (hk : k < 400) (hm1 : 1 ≤ m) (hm : m ≤ 12) (hd1 : 1 ≤ d)
    (hd : d ≤ daysInMonth k m) :
    let y' := if m ≤ 2 then (k + 399) % 400 else k
    doeOf y' m d < 146097 ∧ civilInEra (doeOf y' m d) = ⟨y', m, d⟩ := by
  have hd31 : d ≤ 31 := by
    unfold daysInMonth at hd; split at hd
    · split at hd <;> omega
    · split at hd <;> omega
  have := checkB_all (k * 372 + (m - 1) * 31 + (d - 1))
  unfold checkB at this
  have e1 : (k * 372 + (m - 1) * 31 + (d - 1)) / 372 = k := by omega
  have e2 : (k * 372 + (m - 1) * 31 + (d - 1)) % 372 / 31 + 1 = m := by omega
  have e3 : (k * 372 + (m - 1) * 31 + (d - 1)) % 31 + 1 = d := by omega
  simp only [e1, e2, e3] at this
  simp only [Bool.or_eq_true, Bool.and_eq_true, decide_eq_true_eq, beq_iff_eq] at this
  rcases this with (h' | h') | h'
  · omega
  · omega
  · exact h'

/-! ### digit layouts of the date tokens -/
theorem digits4 (n : Nat) (h1 : 1000 ≤ n) (h2 : n < 10000) : digits n = [n/1000, n/100%10, n/10%10, n%10] := by
  unfold digits
  have : n + 1 = (n - 3) + 1 + 1 + 1 + 1 := by omega
  rw [this]
  simp only [digitsAux]
  have a : ¬ n < 10 := by omega
  have b : ¬ n / 10 < 10 := by omega
  have c : ¬ n / 10 / 10 < 10 := by omega
  have d : n / 10 / 10 / 10 < 10 := by omega
  simp only [a, b, c, d, if_false, if_true, List.cons.injEq, and_true]
  omega
theorem digits_two (n : Nat) (h1 : 10 ≤ n) (h2 : n < 100) : digits n = [n/10, n%10] := by
  unfold digits
  have : n + 1 = (n - 1) + 1 + 1 := by omega
  rw [this]
  simp only [digitsAux]
  have a : ¬ n < 10 := by omega
  have b : n / 10 < 10 := by omega
  simp only [a, b, if_false, if_true]
theorem read2_padded2 (n : Nat) (h : n < 100) : read2 (padded2 n) = n := by
  unfold padded2
  split
  · simp [read2]
  · rw [digits_two n (by omega) h]; simp only [read2]; omega
theorem read4_digits (n : Nat) (h1 : 1000 ≤ n) (h2 : n < 10000) : read4 (digits n) = n := by
  rw [digits4 n h1 h2]; simp only [read4]; omega
theorem read2_digits2 (n : Nat) (h : n < 100) : read2 (digits2 n) = n := by
  simp only [digits2, read2]; omega

theorem daysInMonth_le (y m : Nat) : daysInMonth y m ≤ 31 := by
  unfold daysInMonth
  by_cases h : (m == 2) = true
  · simp only [h, if_true]; by_cases l : isLeap y = true <;> simp [l]
  · rw [if_neg h]
    by_cases l : (m == 4 || m == 6 || m == 9 || m == 11) = true
    · rw [if_pos l]; decide
    · rw [if_neg l]; decide


end IronCalc.Dates
