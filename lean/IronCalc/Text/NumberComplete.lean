import IronCalc.Text.NumberProofs
/-
  C19, completeness of the top-level recogniser for the currency and date productions.
  Helper lemmas and the decidable non-shadowing side conditions (`CursOk`, …); the property theorems
  are in Props/C19.lean.
-/
namespace IronCalc.Number

/-! ### trimming -/

theorem dropWhile_of_head {p : Char → Bool} {l : List Char} (h : ∀ c, l.head? = some c → p c = false) :
    l.dropWhile p = l := by
  cases l with
  | nil => rfl
  | cons a r => simp [List.dropWhile_cons, h a rfl]

theorem dropWhile_ws_append {w t : List Char} (hw : ∀ c ∈ w, isWs c = true)
    (ht : ∀ c, t.head? = some c → isWs c = false) : (w ++ t).dropWhile isWs = t := by
  induction w with
  | nil => simpa using dropWhile_of_head ht
  | cons a r ih =>
    have ha : isWs a = true := hw a (by simp)
    simp only [List.cons_append, List.dropWhile_cons, ha, if_true]
    exact ih (fun c hc => hw c (by simp [hc]))

theorem trimStart_ws_append {w t : List Char} (hw : ∀ c ∈ w, isWs c = true)
    (ht : ∀ c, t.head? = some c → isWs c = false) : trimStart (w ++ t) = t := dropWhile_ws_append hw ht

theorem trimEnd_append_ws {w t : List Char} (hw : ∀ c ∈ w, isWs c = true)
    (ht : ∀ c, t.getLast? = some c → isWs c = false) : trimEnd (t ++ w) = t := by
  unfold trimEnd
  rw [List.reverse_append, dropWhile_ws_append (w := w.reverse) (t := t.reverse)]
  · simp
  · intro c hc; exact hw c (by simpa using hc)
  · intro c hc; exact ht c (by simpa [List.head?_reverse] using hc)

theorem head?_append_of_ne_nil {t r : List Char} (ht : t ≠ []) : (t ++ r).head? = t.head? := by
  cases t with
  | nil => exact absurd rfl ht
  | cons a b => rfl

theorem getLast?_append_of_ne_nil {t r : List Char} (ht : t ≠ []) : (r ++ t).getLast? = t.getLast? := by
  cases h : t.getLast? with
  | none => simp [List.getLast?_eq_none_iff] at h; exact absurd h ht
  | some z => simp [List.getLast?_append, h]

/-- white space around a non-empty text whose first and last characters are not white space -/
theorem trim_sandwich {pre post t : List Char} (hpre : ∀ c ∈ pre, isWs c = true) (hpost : ∀ c ∈ post, isWs c = true)
    (hne : t ≠ [])
    (hh : ∀ c, t.head? = some c → isWs c = false) (hl : ∀ c, t.getLast? = some c → isWs c = false) :
    trim (pre ++ t ++ post) = t := by
  unfold trim
  rw [List.append_assoc, trimStart_ws_append hpre, trimEnd_append_ws hpost hl]
  intro c hc
  rw [head?_append_of_ne_nil hne] at hc
  exact hh c hc

/-- the text of a literal without its sign -/
def Num.body (dec : Char) (n : Num) : List Char :=
  n.intText ++ ((if n.hasDot then dec :: n.frac else []) ++ expText n.exp)

theorem render_body (dec : Char) (n : Num) : n.render dec = n.sign.toList ++ n.body dec := by
  rw [render_eq]; unfold Num.body; simp [List.append_assoc]

theorem getLast?_cons_of_some {a z : Char} {l : List Char} (h : l.getLast? = some z) :
    (a :: l).getLast? = some z := by
  have : a :: l = [a] ++ l := rfl
  rw [this, List.getLast?_append, h]; rfl

theorem allDigits_getLast {ds : List Char} (h : AllDigits ds) (hne : ds ≠ []) :
    ∃ z, ds.getLast? = some z ∧ isDigit z = true := by
  cases hz : ds.getLast? with
  | none => simp [List.getLast?_eq_none_iff] at hz; exact absurd hz hne
  | some z =>
    refine ⟨z, rfl, h z ?_⟩
    obtain ⟨ys, hys⟩ := List.getLast?_eq_some_iff.mp hz
    rw [hys]; simp

theorem groups_getLast {grp : Char} {g : List Char} (hg : Groups grp g) (hne : g ≠ []) :
    ∃ z, g.getLast? = some z ∧ isDigit z = true := by
  induction hg with
  | nil => exact absurd rfl hne
  | @cons a b c rest ha hb hc hrest ih =>
    by_cases hr : rest = []
    · subst hr; exact ⟨c, by simp, hc⟩
    · obtain ⟨z, hz, hd⟩ := ih hr
      refine ⟨z, ?_, hd⟩
      have : grp :: a :: b :: c :: rest = [grp, a, b, c] ++ rest := rfl
      rw [this, List.getLast?_append, hz]; rfl

/-- a well-formed literal's unsigned text starts with a digit or the decimal separator -/
theorem body_head {dec grp : Char} {n : Num} (hwf : WellFormed grp n) :
    ∃ b r, n.body dec = b :: r ∧ (isDigit b = true ∨ b = dec) := by
  obtain ⟨d0, g, hint, hd0, hg, hne⟩ := hwf.int
  cases hd0c : d0 with
  | nil =>
    have hg0 : g = [] := by
      by_cases hg0 : g = []
      · exact hg0
      · exact absurd hd0c (hne hg0)
    have hint0 : n.intText = [] := by rw [hint, hd0c, hg0]; rfl
    have hdot : n.hasDot = true := by
      cases hh : n.hasDot
      · have := hwf.noDot hh
        have hm := hwf.mant
        simp [Num.int, hint0, this] at hm
      · rfl
    exact ⟨dec, n.frac ++ expText n.exp, by simp [Num.body, hint0, hdot], Or.inr rfl⟩
  | cons a d' =>
    have ha : isDigit a = true := hd0 a (by simp [hd0c])
    exact ⟨a, d' ++ (g ++ ((if n.hasDot = true then dec :: n.frac else []) ++ expText n.exp)),
      by simp [Num.body, hint, hd0c], Or.inl ha⟩

/-- … and ends with a digit or the decimal separator -/
theorem body_last {dec grp : Char} {n : Num} (hwf : WellFormed grp n) :
    ∃ z, (n.body dec).getLast? = some z ∧ (isDigit z = true ∨ z = dec) := by
  unfold Num.body
  cases he : n.exp with
  | some e =>
    obtain ⟨m, x, ds⟩ := e
    have hexp := hwf.exp
    rw [he] at hexp
    obtain ⟨_, hds, hx⟩ := hexp
    by_cases hdsn : ds = []
    · subst hdsn
      have hxd : isDigit x = true := by
        rcases hx with h | ⟨_, h⟩
        · exact h
        · exact absurd rfl h
      refine ⟨x, ?_, Or.inl hxd⟩
      simp [expText, List.getLast?_append]
    · obtain ⟨z, hz, hzd⟩ := allDigits_getLast hds hdsn
      refine ⟨z, ?_, Or.inl hzd⟩
      simp only [expText, List.getLast?_append]
      rw [getLast?_cons_of_some (getLast?_cons_of_some hz)]; rfl
  | none =>
    simp only [expText, List.append_nil]
    cases hh : n.hasDot
    · have hfr := hwf.noDot hh
      simp only [Bool.false_eq_true, if_false, List.append_nil]
      obtain ⟨d0, g, hint, hd0, hg, hne⟩ := hwf.int
      have hm := hwf.mant
      by_cases hg0 : g = []
      · have hd0ne : d0 ≠ [] := by
          intro h0
          simp [Num.int, hint, h0, hg0, hfr] at hm
        obtain ⟨z, hz, hzd⟩ := allDigits_getLast hd0 hd0ne
        exact ⟨z, by simp [hint, hg0, hz], Or.inl hzd⟩
      · obtain ⟨z, hz, hzd⟩ := groups_getLast hg hg0
        exact ⟨z, by simp [hint, List.getLast?_append, hz], Or.inl hzd⟩
    · simp only [if_true]
      by_cases hf0 : n.frac = []
      · exact ⟨dec, by simp [hf0, List.getLast?_append], Or.inr rfl⟩
      · obtain ⟨z, hz, hzd⟩ := allDigits_getLast hwf.frac hf0
        refine ⟨z, ?_, Or.inl hzd⟩
        simp only [List.getLast?_append]
        rw [getLast?_cons_of_some hz]; rfl


/-! ### prefixes, suffixes -/

theorem stripPrefix_append (a p : List Char) : stripPrefix a (a ++ p) = some p := by
  unfold stripPrefix
  have : a.isPrefixOf (a ++ p) = true := List.isPrefixOf_iff_prefix.mpr (List.prefix_append a p)
  simp [this]

theorem stripSuffix_append (a p : List Char) : stripSuffix a (p ++ a) = some p := by
  unfold stripSuffix
  have : a.isSuffixOf (p ++ a) = true := List.isSuffixOf_iff_suffix.mpr (List.suffix_append p a)
  simp [this]

theorem stripPrefix_none_of_head {a v : List Char} (ha : a ≠ []) (h : v.head? ≠ a.head?) :
    stripPrefix a v = none := by
  unfold stripPrefix
  cases hp : a.isPrefixOf v with
  | false => simp [hp]
  | true =>
    exfalso
    obtain ⟨t, ht⟩ := List.isPrefixOf_iff_prefix.mp hp
    apply h
    rw [← ht, head?_append_of_ne_nil ha]

theorem stripSuffix_none_of_last {a v : List Char} (ha : a ≠ []) (h : v.getLast? ≠ a.getLast?) :
    stripSuffix a v = none := by
  unfold stripSuffix
  cases hp : a.isSuffixOf v with
  | false => simp [hp]
  | true =>
    exfalso
    obtain ⟨t, ht⟩ := List.isSuffixOf_iff_suffix.mp hp
    apply h
    rw [← ht, getLast?_append_of_ne_nil ha]

/-! ### currency symbols that cannot be confused with a literal -/

/-- a character that is neither white space, nor `%`, nor a possible first/last character of a literal -/
def okEdge (dec : Char) (c : Char) : Bool :=
  !isWs c && !isDigit c && c != dec && c != '+' && c != '-' && c != '%'

/-- a currency symbol whose first and last characters are `okEdge` -/
def CurOk (dec : Char) (c : List Char) : Bool :=
  match c.head?, c.getLast? with
  | some f, some l => okEdge dec f && okEdge dec l
  | _, _ => false

/-- the decidable non-shadowing condition on a locale's currency list: the decimal separator is
    neither white space nor `%`; every symbol is `CurOk`; two different symbols differ in their first
    and in their last character -/
def CursOk (ℓ : Locale) (curs : List (List Char)) : Bool :=
  !isWs ℓ.dec && ℓ.dec != '%' && curs.all (CurOk ℓ.dec) &&
  curs.all (fun a => curs.all fun b => a == b || (a.head? != b.head? && a.getLast? != b.getLast?))

theorem curOk_spec {dec : Char} {c : List Char} (h : CurOk dec c = true) :
    c ≠ [] ∧ ∃ f l, c.head? = some f ∧ c.getLast? = some l ∧ okEdge dec f = true ∧ okEdge dec l = true := by
  unfold CurOk at h
  split at h
  · rename_i f l hf hl
    simp only [Bool.and_eq_true] at h
    refine ⟨?_, f, l, hf, hl, h.1, h.2⟩
    intro h0; rw [h0] at hf; cases hf
  · cases h

theorem isDigit_not_ws {c : Char} (h : isDigit c = true) : isWs c = false := by
  unfold isDigit at h
  simp only [Bool.and_eq_true, decide_eq_true_eq] at h
  obtain ⟨h1, h2⟩ := h
  have a1 : 48 ≤ c.toNat := by
    have : ('0' : Char).toNat ≤ c.toNat := h1
    simpa using this
  have a2 : c.toNat ≤ 57 := by
    have : c.toNat ≤ ('9' : Char).toNat := h2
    simpa using this
  unfold isWs
  simp only [Bool.or_eq_false_iff, Bool.and_eq_false_iff, beq_eq_false_iff_ne, ne_eq, decide_eq_false_iff_not]
  omega

/-! ### the currency loop -/

theorem currencyStep_none {ℓ : Locale} {v c : List Char} (h1 : stripPrefix ('-' :: c) v = none)
    (h2 : stripPrefix c v = none) (h3 : stripSuffix c v = none) : currencyStep ℓ v c = none := by
  unfold currencyStep; simp [h1, h2, h3]

theorem currencyLoop_target {ℓ : Locale} {v cur : List Char} {r : Option (Value × Kind)} :
    ∀ {curs : List (List Char)}, cur ∈ curs →
      (∀ c ∈ curs, c ≠ cur → currencyStep ℓ v c = none) → currencyStep ℓ v cur = some r →
      currencyLoop ℓ v curs = some r := by
  intro curs
  induction curs with
  | nil => intro h; cases h
  | cons c cs ih =>
    intro hmem hother hcur
    unfold currencyLoop
    by_cases hc : c = cur
    · subst hc; simp [hcur]
    · rw [hother c (by simp) hc]
      simp only
      apply ih
      · rcases List.mem_cons.mp hmem with h | h
        · exact absurd h.symm hc
        · exact h
      · exact fun c' hc' hne => hother c' (by simp [hc']) hne
      · exact hcur

theorem currencyLoop_none {ℓ : Locale} {v : List Char} :
    ∀ {curs : List (List Char)}, (∀ c ∈ curs, currencyStep ℓ v c = none) → currencyLoop ℓ v curs = none := by
  intro curs
  induction curs with
  | nil => intro _; rfl
  | cons c cs ih =>
    intro h
    unfold currencyLoop
    rw [h c (by simp)]
    exact ih (fun c' hc' => h c' (by simp [hc']))

/-- what `CursOk` gives for two symbols of the list -/
theorem cursOk_spec {ℓ : Locale} {curs : List (List Char)} (h : CursOk ℓ curs = true) :
    isWs ℓ.dec = false ∧ ℓ.dec ≠ '%' ∧ (∀ c ∈ curs, CurOk ℓ.dec c = true) ∧
    (∀ a ∈ curs, ∀ b ∈ curs, a ≠ b → a.head? ≠ b.head? ∧ a.getLast? ≠ b.getLast?) := by
  unfold CursOk at h
  simp only [Bool.and_eq_true, Bool.not_eq_true', bne_iff_ne, ne_eq, List.all_eq_true, Bool.or_eq_true,
    beq_iff_eq] at h
  obtain ⟨⟨⟨h1, h2⟩, h3⟩, h4⟩ := h
  refine ⟨h1, h2, h3, ?_⟩
  intro a ha b hb hab
  rcases h4 a ha b hb with h | h
  · exact absurd h hab
  · exact h

theorem okEdge_spec {dec c : Char} (h : okEdge dec c = true) :
    isWs c = false ∧ isDigit c = false ∧ c ≠ dec ∧ c ≠ '+' ∧ c ≠ '-' ∧ c ≠ '%' := by
  unfold okEdge at h
  simp only [Bool.and_eq_true, Bool.not_eq_true', bne_iff_ne, ne_eq] at h
  obtain ⟨⟨⟨⟨⟨a, b⟩, c'⟩, d⟩, e⟩, f⟩ := h
  exact ⟨a, b, c', d, e, f⟩


theorem stripPrefix_cons_cons_none {x : Char} {c t : List Char} (h : stripPrefix c t = none) :
    stripPrefix (x :: c) (x :: t) = none := by
  unfold stripPrefix at h ⊢
  cases hp : c.isPrefixOf t with
  | true => simp [hp] at h
  | false => simp [List.isPrefixOf, hp]

/-- the first and last characters of a well-formed literal -/
theorem lit_edges {dec grp : Char} {n : Num} (hwf : WellFormed grp n) :
    n.render dec ≠ [] ∧
    (∃ a, (n.render dec).head? = some a ∧ (a = '+' ∨ a = '-' ∨ isDigit a = true ∨ a = dec)) ∧
    (∃ z, (n.render dec).getLast? = some z ∧ (isDigit z = true ∨ z = dec)) := by
  obtain ⟨b, r, hb, hbe⟩ := body_head (dec := dec) hwf
  obtain ⟨z, hz, hze⟩ := body_last (dec := dec) hwf
  have hbne : n.body dec ≠ [] := by rw [hb]; simp
  rw [render_body]
  refine ⟨by simp [hbne], ?_, ⟨z, by rw [getLast?_append_of_ne_nil hbne]; exact hz, hze⟩⟩
  rcases hwf.sign with h | h | h <;> rw [h]
  · exact ⟨b, by simp [hb], Or.inr (Or.inr hbe)⟩
  · exact ⟨'+', rfl, Or.inl rfl⟩
  · exact ⟨'-', rfl, Or.inr (Or.inl rfl)⟩

theorem okEdge_ne_litHead {dec a f : Char} (hf : okEdge dec f = true)
    (ha : a = '+' ∨ a = '-' ∨ isDigit a = true ∨ a = dec) : f ≠ a := by
  obtain ⟨_, h2, h3, h4, h5, _⟩ := okEdge_spec hf
  rcases ha with rfl | rfl | h | rfl
  · exact h4
  · exact h5
  · intro e; rw [e, h] at h2; cases h2
  · exact h3

theorem okEdge_ne_litLast {dec z f : Char} (hf : okEdge dec f = true)
    (hz : isDigit z = true ∨ z = dec) : f ≠ z :=
  okEdge_ne_litHead hf (Or.inr (Or.inr hz))

theorem litLast_not_ws {dec z : Char} (hdec : isWs dec = false) (hz : isDigit z = true ∨ z = dec) :
    isWs z = false := by
  rcases hz with h | rfl
  · exact isDigit_not_ws h
  · exact hdec

theorem litHead_not_ws {dec a : Char} (hdec : isWs dec = false)
    (ha : a = '+' ∨ a = '-' ∨ isDigit a = true ∨ a = dec) : isWs a = false := by
  rcases ha with rfl | rfl | h | rfl
  · decide
  · decide
  · exact isDigit_not_ws h
  · exact hdec

/-- `w ++ literal` trims to the literal -/
theorem trim_ws_lit {dec grp : Char} {n : Num} (hwf : WellFormed grp n) (hdec : isWs dec = false)
    {w1 w2 : List Char} (h1 : ∀ c ∈ w1, isWs c = true) (h2 : ∀ c ∈ w2, isWs c = true) :
    trim (w1 ++ n.render dec ++ w2) = n.render dec := by
  obtain ⟨hne, ⟨a, ha, hae⟩, ⟨z, hz, hze⟩⟩ := lit_edges (dec := dec) hwf
  apply trim_sandwich h1 h2 hne
  · intro c hc; rw [ha] at hc; cases hc; exact litHead_not_ws hdec hae
  · intro c hc; rw [hz] at hc; cases hc; exact litLast_not_ws hdec hze

/-- **currency before the number**: `[ws] symbol [ws] literal [ws]` -/
theorem complete_currency_before {ℓ : Locale} {curs : List (List Char)} (hl : SepsOk ℓ.dec ℓ.grp = true)
    (hc : CursOk ℓ curs = true) {cur : List Char} (hcur : cur ∈ curs) {n : Num} (hwf : WellFormed ℓ.grp n)
    {pre w post : List Char} (hpre : ∀ c ∈ pre, isWs c = true) (hw : ∀ c ∈ w, isWs c = true)
    (hpost : ∀ c ∈ post, isWs c = true) :
    parseFormattedNumber ℓ curs (pre ++ (cur ++ (w ++ n.render ℓ.dec)) ++ post) =
      some (.num n false false, if n.isSci then .scientific else .currencyPrefix cur n.hasDot) := by
  obtain ⟨hdws, hdpct, hok, hdistinct⟩ := cursOk_spec hc
  obtain ⟨hcne, f, l, hf, hlast, hfok, hlok⟩ := curOk_spec (hok cur hcur)
  obtain ⟨hlne, ⟨a, ha, hae⟩, ⟨z, hz, hze⟩⟩ := lit_edges (dec := ℓ.dec) hwf
  -- the trimmed value, its first and last characters
  have hvhead : (cur ++ (w ++ n.render ℓ.dec)).head? = some f := by rw [head?_append_of_ne_nil hcne]; exact hf
  have hvlast : (cur ++ (w ++ n.render ℓ.dec)).getLast? = some z := by
    rw [← List.append_assoc, getLast?_append_of_ne_nil hlne]; exact hz
  have hvne : cur ++ (w ++ n.render ℓ.dec) ≠ [] := by simp [hcne]
  have htrim : trim (pre ++ (cur ++ (w ++ n.render ℓ.dec)) ++ post) = cur ++ (w ++ n.render ℓ.dec) := by
    apply trim_sandwich hpre hpost hvne
    · intro c hc'; rw [hvhead] at hc'; cases hc'; exact (okEdge_spec hfok).1
    · intro c hc'; rw [hvlast] at hc'; cases hc'; exact litLast_not_ws hdws hze
  have hpct : stripSuffix ['%'] (cur ++ (w ++ n.render ℓ.dec)) = none := by
    apply stripSuffix_none_of_last (by simp)
    rw [hvlast]; simp
    rcases hze with h | h
    · intro e; rw [e] at h; revert h; decide
    · rw [h]; exact hdpct
  have hminus : ∀ c : List Char, stripPrefix ('-' :: c) (cur ++ (w ++ n.render ℓ.dec)) = none := by
    intro c
    apply stripPrefix_none_of_head (by simp)
    rw [hvhead]; simp
    exact (okEdge_spec hfok).2.2.2.2.1
  have hother : ∀ c ∈ curs, c ≠ cur → currencyStep ℓ (cur ++ (w ++ n.render ℓ.dec)) c = none := by
    intro c hcm hne
    obtain ⟨hcne', f', l', hf', hl', _, hlok'⟩ := curOk_spec (hok c hcm)
    apply currencyStep_none (hminus c)
    · apply stripPrefix_none_of_head hcne'
      rw [hvhead, ← hf]; exact fun e => (hdistinct c hcm cur hcur hne).1 e.symm
    · apply stripSuffix_none_of_last hcne'
      rw [hvlast, hl']; intro e; cases e
      exact okEdge_ne_litLast hlok' hze rfl
  have hstep : currencyStep ℓ (cur ++ (w ++ n.render ℓ.dec)) cur =
      some (some (.num n false false, if n.isSci then .scientific else .currencyPrefix cur n.hasDot)) := by
    unfold currencyStep
    have htr : trim (w ++ n.render ℓ.dec) = n.render ℓ.dec := by
      have := trim_ws_lit (dec := ℓ.dec) hwf hdws hw (w2 := []) (by intro c hc'; cases hc')
      simpa using this
    simp only [hminus cur, stripPrefix_append, htr, parseNumber_complete hl ⟨hwf, rfl⟩]
  unfold parseFormattedNumber
  simp only [htrim, hpct, currencyLoop_target hcur hother hstep]


theorem sepsOk_dec {dec grp : Char} (hl : SepsOk dec grp = true) : dec ≠ '+' ∧ dec ≠ '-' := by
  unfold SepsOk at hl
  simp only [Bool.and_eq_true, Bool.not_eq_true', bne_iff_ne, ne_eq] at hl
  exact ⟨hl.1.1.1.1.1.2, hl.1.1.1.1.2⟩

/-- **`-` in front of the currency, unsigned number**: `[ws] - symbol [ws] literal [ws]` -/
theorem complete_currency_negated {ℓ : Locale} {curs : List (List Char)} (hl : SepsOk ℓ.dec ℓ.grp = true)
    (hc : CursOk ℓ curs = true) {cur : List Char} (hcur : cur ∈ curs) {n : Num} (hwf : WellFormed ℓ.grp n)
    (hsign : n.sign = none)
    {pre w post : List Char} (hpre : ∀ c ∈ pre, isWs c = true) (hw : ∀ c ∈ w, isWs c = true)
    (hpost : ∀ c ∈ post, isWs c = true) :
    parseFormattedNumber ℓ curs (pre ++ ('-' :: (cur ++ (w ++ n.render ℓ.dec))) ++ post) =
      some (.num n true false, if n.isSci then .scientific else .currencyPrefix cur n.hasDot) := by
  obtain ⟨hdws, hdpct, hok, hdistinct⟩ := cursOk_spec hc
  obtain ⟨hcne, f, l, hf, hlast, hfok, hlok⟩ := curOk_spec (hok cur hcur)
  obtain ⟨hlne, _, ⟨z, hz, hze⟩⟩ := lit_edges (dec := ℓ.dec) hwf
  obtain ⟨b, r, hb, hbe⟩ := body_head (dec := ℓ.dec) hwf
  have hlit : n.render ℓ.dec = b :: r := by rw [render_body, hsign, ← hb]; rfl
  have hvlast : ('-' :: (cur ++ (w ++ n.render ℓ.dec))).getLast? = some z := by
    have : '-' :: (cur ++ (w ++ n.render ℓ.dec)) = (['-'] ++ cur ++ w) ++ n.render ℓ.dec := by simp
    rw [this, getLast?_append_of_ne_nil hlne]; exact hz
  have htrim : trim (pre ++ ('-' :: (cur ++ (w ++ n.render ℓ.dec))) ++ post) = '-' :: (cur ++ (w ++ n.render ℓ.dec)) := by
    apply trim_sandwich hpre hpost (by simp)
    · intro c hc'; simp at hc'; subst hc'; decide
    · intro c hc'; rw [hvlast] at hc'; cases hc'; exact litLast_not_ws hdws hze
  have hpct : stripSuffix ['%'] ('-' :: (cur ++ (w ++ n.render ℓ.dec))) = none := by
    apply stripSuffix_none_of_last (by simp)
    rw [hvlast]; simp
    rcases hze with h | h
    · intro e; rw [e] at h; revert h; decide
    · rw [h]; exact hdpct
  have hother : ∀ c ∈ curs, c ≠ cur → currencyStep ℓ ('-' :: (cur ++ (w ++ n.render ℓ.dec))) c = none := by
    intro c hcm hne
    obtain ⟨hcne', f', l', hf', hl', hfok', hlok'⟩ := curOk_spec (hok c hcm)
    apply currencyStep_none
    · apply stripPrefix_cons_cons_none
      apply stripPrefix_none_of_head hcne'
      rw [head?_append_of_ne_nil hcne]
      exact fun e => (hdistinct c hcm cur hcur hne).1 e.symm
    · apply stripPrefix_none_of_head hcne'
      rw [hf']; simp
      exact fun e => (okEdge_spec hfok').2.2.2.2.1 e.symm
    · apply stripSuffix_none_of_last hcne'
      rw [hvlast, hl']; intro e; cases e
      exact okEdge_ne_litLast hlok' hze rfl
  have hstep : currencyStep ℓ ('-' :: (cur ++ (w ++ n.render ℓ.dec))) cur =
      some (some (.num n true false, if n.isSci then .scientific else .currencyPrefix cur n.hasDot)) := by
    unfold currencyStep
    have htr : trim (w ++ n.render ℓ.dec) = n.render ℓ.dec := by
      have := trim_ws_lit (dec := ℓ.dec) hwf hdws hw (w2 := []) (by intro c hc'; cases hc')
      simpa using this
    have hpre' : stripPrefix ('-' :: cur) ('-' :: (cur ++ (w ++ n.render ℓ.dec))) = some (w ++ n.render ℓ.dec) :=
      stripPrefix_append ('-' :: cur) (w ++ n.render ℓ.dec)
    have hns : startsWithSign (n.render ℓ.dec) = false := by
      rw [hlit]; unfold startsWithSign
      rcases hbe with h | h
      · have h1 : b ≠ '+' := isDigit_ne h (by decide)
        have h2 : b ≠ '-' := isDigit_ne h (by decide)
        simp [h1, h2]
      · rw [h]; simp [(sepsOk_dec hl).1, (sepsOk_dec hl).2]
    simp only [hpre', htr, hns, parseNumber_complete hl ⟨hwf, rfl⟩]
    simp
  unfold parseFormattedNumber
  simp only [htrim, hpct, currencyLoop_target hcur hother hstep]

/-- **currency after the number**: `[ws] literal [ws] symbol [ws]` -/
theorem complete_currency_after {ℓ : Locale} {curs : List (List Char)} (hl : SepsOk ℓ.dec ℓ.grp = true)
    (hc : CursOk ℓ curs = true) {cur : List Char} (hcur : cur ∈ curs) {n : Num} (hwf : WellFormed ℓ.grp n)
    {pre w post : List Char} (hpre : ∀ c ∈ pre, isWs c = true) (hw : ∀ c ∈ w, isWs c = true)
    (hpost : ∀ c ∈ post, isWs c = true) :
    parseFormattedNumber ℓ curs (pre ++ (n.render ℓ.dec ++ (w ++ cur)) ++ post) =
      some (.num n false false, if n.isSci then .scientific else .currencySuffix cur n.hasDot) := by
  obtain ⟨hdws, hdpct, hok, hdistinct⟩ := cursOk_spec hc
  obtain ⟨hcne, f, l, hf, hlast, hfok, hlok⟩ := curOk_spec (hok cur hcur)
  obtain ⟨hlne, ⟨a, ha, hae⟩, _⟩ := lit_edges (dec := ℓ.dec) hwf
  obtain ⟨b, r, hb, hbe⟩ := body_head (dec := ℓ.dec) hwf
  have hvhead : (n.render ℓ.dec ++ (w ++ cur)).head? = some a := by rw [head?_append_of_ne_nil hlne]; exact ha
  have hvlast : (n.render ℓ.dec ++ (w ++ cur)).getLast? = some l := by
    rw [← List.append_assoc, getLast?_append_of_ne_nil hcne]; exact hlast
  have htrim : trim (pre ++ (n.render ℓ.dec ++ (w ++ cur)) ++ post) = n.render ℓ.dec ++ (w ++ cur) := by
    apply trim_sandwich hpre hpost (by simp [hlne])
    · intro c hc'; rw [hvhead] at hc'; cases hc'; exact litHead_not_ws hdws hae
    · intro c hc'; rw [hvlast] at hc'; cases hc'; exact (okEdge_spec hlok).1
  have hpct : stripSuffix ['%'] (n.render ℓ.dec ++ (w ++ cur)) = none := by
    apply stripSuffix_none_of_last (by simp)
    rw [hvlast]; simp
    exact (okEdge_spec hlok).2.2.2.2.2
  -- no symbol can follow a leading `-`, none can start the text
  have hminus : ∀ c ∈ curs, stripPrefix ('-' :: c) (n.render ℓ.dec ++ (w ++ cur)) = none := by
    intro c hcm
    obtain ⟨hcne', f', l', hf', hl', hfok', hlok'⟩ := curOk_spec (hok c hcm)
    rcases hwf.sign with hs | hs | hs
    · apply stripPrefix_none_of_head (by simp)
      rw [hvhead]; simp
      have : n.render ℓ.dec = b :: r := by rw [render_body, hs, ← hb]; rfl
      rw [this] at ha; cases ha
      rcases hbe with h | h
      · exact isDigit_ne h (by decide)
      · rw [h]; exact (sepsOk_dec hl).2
    · apply stripPrefix_none_of_head (by simp)
      have : n.render ℓ.dec = '+' :: n.body ℓ.dec := by rw [render_body, hs]; rfl
      rw [this]; simp
    · have : n.render ℓ.dec = '-' :: n.body ℓ.dec := by rw [render_body, hs]; rfl
      rw [this]
      apply stripPrefix_cons_cons_none
      apply stripPrefix_none_of_head hcne'
      rw [hb, hf']; simp
      exact fun e => okEdge_ne_litHead hfok' (Or.inr (Or.inr hbe)) e.symm
  have hprefix : ∀ c ∈ curs, stripPrefix c (n.render ℓ.dec ++ (w ++ cur)) = none := by
    intro c hcm
    obtain ⟨hcne', f', l', hf', hl', hfok', hlok'⟩ := curOk_spec (hok c hcm)
    apply stripPrefix_none_of_head hcne'
    rw [hvhead, hf']; intro e; cases e
    exact okEdge_ne_litHead hfok' hae rfl
  have hother : ∀ c ∈ curs, c ≠ cur → currencyStep ℓ (n.render ℓ.dec ++ (w ++ cur)) c = none := by
    intro c hcm hne
    obtain ⟨hcne', f', l', hf', hl', hfok', hlok'⟩ := curOk_spec (hok c hcm)
    apply currencyStep_none (hminus c hcm) (hprefix c hcm)
    apply stripSuffix_none_of_last hcne'
    rw [hvlast, ← hlast]; exact fun e => (hdistinct c hcm cur hcur hne).2 e.symm
  have hstep : currencyStep ℓ (n.render ℓ.dec ++ (w ++ cur)) cur =
      some (some (.num n false false, if n.isSci then .scientific else .currencySuffix cur n.hasDot)) := by
    unfold currencyStep
    have htr : trim (n.render ℓ.dec ++ w) = n.render ℓ.dec := by
      have := trim_ws_lit (dec := ℓ.dec) hwf hdws (w1 := []) (by intro c hc'; cases hc') hw
      simpa using this
    have hsuf : stripSuffix cur (n.render ℓ.dec ++ (w ++ cur)) = some (n.render ℓ.dec ++ w) := by
      rw [← List.append_assoc]; exact stripSuffix_append cur _
    simp only [hminus cur hcur, hprefix cur hcur, hsuf, htr, parseNumber_complete hl ⟨hwf, rfl⟩]
  unfold parseFormattedNumber
  simp only [htrim, hpct, currencyLoop_target hcur hother hstep]


/-! ### date fields -/

theorem utf8Size_digit {c : Char} (h : isDigit c = true) : c.utf8Size = 1 := by
  unfold isDigit at h
  simp only [Bool.and_eq_true, decide_eq_true_eq] at h
  have a2 : c.toNat ≤ 57 := by
    have : c.toNat ≤ ('9' : Char).toNat := h.2
    simpa using this
  unfold Char.utf8Size
  have : c.val ≤ 127 := by
    have : c.val.toNat ≤ 127 := by have : c.val.toNat = c.toNat := rfl; omega
    exact UInt32.le_iff_toNat_le.mpr this
  simp [this]

theorem foldl_add_ones (l : List Char) (hl : ∀ c ∈ l, c.utf8Size = 1) (acc : Nat) :
    (l.map Char.utf8Size).foldl (· + ·) acc = acc + l.length := by
  induction l generalizing acc with
  | nil => simp
  | cons a r ih =>
    simp only [List.map_cons, List.foldl_cons, List.length_cons]
    rw [ih (fun c hc => hl c (by simp [hc])), hl a (by simp)]; omega

theorem utf8Len_digits {t : List Char} (h : allDigits t = true) : utf8Len t = t.length := by
  unfold utf8Len
  rw [foldl_add_ones]
  · simp
  · intro c hc
    unfold allDigits at h
    exact utf8Size_digit (List.all_eq_true.mp h c hc)

/-- `parse_day` on one or two digits -/
theorem parseDay_digits {t : List Char} (hd : allDigits t = true) (hlen : t.length = 1 ∨ t.length = 2) :
    parseDay t = some (digitsVal t, if t.length = 2 then ['d', 'd'] else ['d']) := by
  unfold parseDay
  rw [utf8Len_digits hd, hd]
  have hne : t.isEmpty = false := by cases t <;> simp at hlen ⊢
  rcases hlen with h | h <;> simp [h, hne]

/-- `parse_month` on one or two digits -/
theorem parseMonth_digits (ℓ : Locale) {t : List Char} (hd : allDigits t = true) (hlen : t.length = 1 ∨ t.length = 2) :
    parseMonth ℓ t = some (digitsVal t, if t.length = 2 then ['m', 'm'] else ['m']) := by
  unfold parseMonth
  rw [utf8Len_digits hd, hd]
  have hne : t.isEmpty = false := by cases t <;> simp at hlen ⊢
  rcases hlen with h | h <;> simp [h, hne]

/-- the year a two- or four-digit year text denotes: `00–29 → 20xx`, `30–99 → 19xx` -/
def yearOf (v : Nat) : Nat := if v < 30 then 2000 + v else if v < 100 then 1900 + v else v
def yearFmt (v : Nat) : List Char := if v < 100 then ['y', 'y'] else ['y', 'y', 'y', 'y']

theorem parseYear_digits {t : List Char} (hd : allDigits t = true) (hlen : t.length = 2 ∨ t.length = 4) :
    parseYear t = some (yearOf (digitsVal t), yearFmt (digitsVal t)) := by
  unfold parseYear yearOf yearFmt
  rw [utf8Len_digits hd, hd]
  have h1 : (t.length != 2 && t.length != 4) = false := by rcases hlen with h | h <;> simp [h]
  simp only [h1, Bool.false_eq_true, if_false, Bool.not_true]
  by_cases ha : digitsVal t < 30
  · have : digitsVal t < 100 := by omega
    simp [ha, this]
  · by_cases hb : digitsVal t < 100
    · simp [ha, hb]
    · simp [ha, hb]

/-! ### splitting -/

theorem splitOn_noSep {sep : Char} : ∀ {f : List Char}, f.contains sep = false → splitOn sep f = [f] := by
  intro f
  induction f with
  | nil => intro _; rfl
  | cons c cs ih =>
    intro h
    simp only [List.contains_cons, Bool.or_eq_false_iff, beq_eq_false_iff_ne, ne_eq] at h
    unfold splitOn
    have hc : (c == sep) = false := by simp; exact fun e => h.1 e.symm
    simp [hc, ih h.2]

theorem splitOn_append {sep : Char} (r : List Char) : ∀ {a : List Char}, a.contains sep = false →
    splitOn sep (a ++ sep :: r) = a :: splitOn sep r := by
  intro a
  induction a with
  | nil => intro _; simp [splitOn]
  | cons c cs ih =>
    intro h
    simp only [List.contains_cons, Bool.or_eq_false_iff, beq_eq_false_iff_ne, ne_eq] at h
    have hc : (c == sep) = false := by simp; exact fun e => h.1 e.symm
    show splitOn sep (c :: (cs ++ sep :: r)) = (c :: cs) :: splitOn sep r
    rw [splitOn]
    simp [hc, ih h.2]

theorem splitOn_three_fields {sep : Char} {p0 p1 p2 : List Char} (h0 : p0.contains sep = false)
    (h1 : p1.contains sep = false) (h2 : p2.contains sep = false) :
    splitOn sep (p0 ++ sep :: p1 ++ sep :: p2) = [p0, p1, p2] := by
  have : p0 ++ sep :: p1 ++ sep :: p2 = p0 ++ sep :: (p1 ++ sep :: p2) := by simp
  rw [this, splitOn_append _ h0, splitOn_append _ h1, splitOn_noSep h2]

theorem dateSeparator_fields {sep : Char} (hsep : sep = '/' ∨ sep = '-' ∨ sep = '.') {p0 p1 p2 : List Char}
    (h0 : fieldOk sep p0 = true) (h1 : fieldOk sep p1 = true) (h2 : fieldOk sep p2 = true) :
    dateSeparator (p0 ++ sep :: p1 ++ sep :: p2) = some sep := by
  unfold fieldOk at h0 h1 h2
  unfold dateSeparator
  rcases hsep with rfl | rfl | rfl
  · simp
  · simp at h0 h1 h2
    simp [h0, h1, h2]
  · simp at h0 h1 h2
    simp [h0, h1, h2]

theorem fieldOk_noSep {sep : Char} {f : List Char} (h : fieldOk sep f = true) : f.contains sep = false := by
  unfold fieldOk at h
  simp only [Bool.and_eq_true, Bool.not_eq_true'] at h
  exact h.1

theorem allDigits_not_contains {f : List Char} (hd : allDigits f = true) {c : Char} (hc : isDigit c = false) :
    f.contains c = false := by
  unfold allDigits at hd
  cases h : f.contains c with
  | false => rfl
  | true =>
    have := List.all_eq_true.mp hd c (by simpa using h)
    rw [hc] at this; cases this

theorem fieldOk_digits {sep : Char} (hsep : sep = '/' ∨ sep = '-' ∨ sep = '.') {f : List Char}
    (hd : allDigits f = true) : fieldOk sep f = true := by
  unfold fieldOk
  have a := allDigits_not_contains hd (c := '/') (by decide)
  have b := allDigits_not_contains hd (c := '-') (by decide)
  have c := allDigits_not_contains hd (c := '.') (by decide)
  simp only [List.contains_eq_mem, decide_eq_false_iff_not] at a b c
  rcases hsep with rfl | rfl | rfl <;> simp [a, b, c]



theorem isDateRendering_isDateText {ℓ : Locale} {t : List Char} {serial : Nat} {fmt : List Char}
    (h : IsDateRendering ℓ t serial fmt) : IsDateText ℓ t serial fmt := by
  obtain ⟨sep, p0, p1, p2, dayS, monthS, yearS, dayF, monthF, yearF, day, month, year,
    hsep, ht, _, _, _, hlay, hd, hm, hy, hser, h1, h2⟩ := h
  exact ⟨sep, p0, p1, p2, dayS, monthS, yearS, dayF, monthF, yearF, day, month, year,
    hsep, ht, hlay, hd, hm, hy, hser, h1, h2⟩

/-- **completeness of `parse_date`**: every date rendering is recognised with its serial and format -/
theorem parseDate_complete {ℓ : Locale} {t : List Char} {serial : Nat} {fmt : List Char}
    (h : IsDateRendering ℓ t serial fmt) : parseDate ℓ t = some (serial, fmt) := by
  obtain ⟨sep, p0, p1, p2, dayS, monthS, yearS, dayF, monthF, yearF, day, month, year,
    hsep, ht, f0, f1, f2, hlay, hd, hm, hy, hser, h1, h2⟩ := h
  subst ht
  unfold parseDate
  rw [dateSeparator_fields hsep f0 f1 f2]
  simp only
  rw [splitOn_three_fields (fieldOk_noSep f0) (fieldOk_noSep f1) (fieldOk_noSep f2)]
  simp only
  have hrange : ((serial : Int) < 1 || (serial : Int) > 2958465) = false := by
    simp only [Bool.or_eq_false_iff, decide_eq_false_iff_not, Int.not_lt]
    omega
  rcases hlay with ⟨hu, rfl, rfl, rfl, a1, a2, hf⟩ | ⟨hu, hdf, rfl, rfl, rfl, hf⟩ | ⟨hu, hdf, rfl, rfl, rfl, hf⟩
  · simp only [hu, a1, a2, Bool.and_self, Bool.not_true, Bool.and_false, Bool.false_eq_true,
      if_false, dateFields, if_true, hd, hm, hy, hser, hrange, dateFormat, hf, Int.toNat_natCast]
  · simp only [hu, Bool.false_and, Bool.false_eq_true, if_false, dateFields, hdf, if_true, hd, hm, hy, hser,
      hrange, dateFormat, hf, Int.toNat_natCast, Bool.not_true]
  · simp only [hu, Bool.false_and, Bool.false_eq_true, if_false, dateFields, hdf, hd, hm, hy, hser,
      hrange, dateFormat, hf, Int.toNat_natCast, Bool.not_false, if_true]

/-! ### dates at the top level -/

/-- the decidable non-shadowing condition on a date text's first and last characters: the first is
    neither white space, nor `-`, nor the first character of a currency symbol; the last is a digit -/
def DateEdgeOk (curs : List (List Char)) (t : List Char) : Bool :=
  match t.head?, t.getLast? with
  | some h, some z => !isWs h && h != '-' && isDigit z && curs.all (fun c => c.head? != some h)
  | _, _ => false

theorem date_toplevel {ℓ : Locale} {curs : List (List Char)} {t : List Char} {serial : Nat} {fmt : List Char}
    (hc : CursOk ℓ curs = true) (he : DateEdgeOk curs t = true) (hp : parseDate ℓ t = some (serial, fmt)) :
    parseFormattedNumber ℓ curs t = some (.serial serial, .date fmt) := by
  obtain ⟨_, _, hok, _⟩ := cursOk_spec hc
  unfold DateEdgeOk at he
  split at he
  · rename_i h z hh hz
    simp only [Bool.and_eq_true, Bool.not_eq_true', bne_iff_ne, ne_eq, List.all_eq_true] at he
    obtain ⟨⟨⟨hws, hminus⟩, hzd⟩, hcurs⟩ := he
    have hne : t ≠ [] := by intro h0; rw [h0] at hh; cases hh
    have htrim : trim t = t := by
      have := trim_sandwich (pre := []) (post := []) (t := t) (by intro c hc'; cases hc') (by intro c hc'; cases hc') hne
        (by intro c hc'; rw [hh] at hc'; cases hc'; exact hws)
        (by intro c hc'; rw [hz] at hc'; cases hc'; exact isDigit_not_ws hzd)
      simpa using this
    have hpct : stripSuffix ['%'] t = none := by
      apply stripSuffix_none_of_last (by simp)
      rw [hz]; simp
      intro e; rw [e] at hzd; revert hzd; decide
    have hloop : currencyLoop ℓ t curs = none := by
      apply currencyLoop_none
      intro c hcm
      obtain ⟨hcne, f, l, hf, hl, hfok, hlok⟩ := curOk_spec (hok c hcm)
      apply currencyStep_none
      · apply stripPrefix_none_of_head (by simp)
        rw [hh]; simp; exact hminus
      · apply stripPrefix_none_of_head hcne
        exact fun e => hcurs c hcm (by rw [← e, hh])
      · apply stripSuffix_none_of_last hcne
        rw [hz, hl]; intro e; cases e
        have := (okEdge_spec hlok).2.1
        rw [hzd] at this; cases this
    unfold parseFormattedNumber
    simp only [htrim, hpct, hloop, hp]
  · cases he

theorem dateEdgeOk_of_digits {ℓ : Locale} {curs : List (List Char)} (hc : CursOk ℓ curs = true) {t : List Char}
    {h z : Char} (hh : t.head? = some h) (hz : t.getLast? = some z) (hhd : isDigit h = true) (hzd : isDigit z = true) :
    DateEdgeOk curs t = true := by
  obtain ⟨_, _, hok, _⟩ := cursOk_spec hc
  unfold DateEdgeOk
  rw [hh, hz]
  simp only [Bool.and_eq_true, Bool.not_eq_true', bne_iff_ne, ne_eq, List.all_eq_true]
  refine ⟨⟨⟨isDigit_not_ws hhd, isDigit_ne hhd (by decide)⟩, hzd⟩, ?_⟩
  intro c hcm
  obtain ⟨_, f, l, hf, _, hfok, _⟩ := curOk_spec (hok c hcm)
  rw [hf]; intro e; cases e
  have := (okEdge_spec hfok).2.1
  rw [hhd] at this; cases this

theorem digits_head {t : List Char} (hd : allDigits t = true) (hne : t ≠ []) :
    ∃ h, t.head? = some h ∧ isDigit h = true := by
  cases t with
  | nil => exact absurd rfl hne
  | cons a r => exact ⟨a, rfl, List.all_eq_true.mp hd a (by simp)⟩

theorem digits_last {t : List Char} (hd : allDigits t = true) (hne : t ≠ []) :
    ∃ z, t.getLast? = some z ∧ isDigit z = true :=
  allDigits_getLast (fun c hc => List.all_eq_true.mp hd c hc) hne

/-- the edge condition holds for `a sep b sep c` when `a` and `c` are non-empty digit strings -/
theorem dateEdgeOk_fields {ℓ : Locale} {curs : List (List Char)} (hc : CursOk ℓ curs = true) {sep : Char}
    {p0 p1 p2 : List Char} (h0 : allDigits p0 = true) (n0 : p0 ≠ []) (h2 : allDigits p2 = true) (n2 : p2 ≠ []) :
    DateEdgeOk curs (p0 ++ sep :: p1 ++ sep :: p2) = true := by
  obtain ⟨h, hh, hhd⟩ := digits_head h0 n0
  obtain ⟨z, hz, hzd⟩ := digits_last h2 n2
  apply dateEdgeOk_of_digits hc (h := h) (z := z) _ _ hhd hzd
  · have : p0 ++ sep :: p1 ++ sep :: p2 = p0 ++ (sep :: p1 ++ sep :: p2) := by simp
    rw [this, head?_append_of_ne_nil n0]; exact hh
  · have : p0 ++ sep :: p1 ++ sep :: p2 = (p0 ++ sep :: p1 ++ [sep]) ++ p2 := by simp
    rw [this, getLast?_append_of_ne_nil n2]; exact hz

def dayFmt (t : List Char) : List Char := if t.length = 2 then ['d', 'd'] else ['d']
def monthFmt (t : List Char) : List Char := if t.length = 2 then ['m', 'm'] else ['m']

theorem len_ne_nil {t : List Char} (h : t.length = 1 ∨ t.length = 2) : t ≠ [] := by
  intro h0; subst h0; simp at h

/-! ### currency kinds (soundness side) -/

/-- what a currency-prefix result of one loop iteration means -/
theorem currencyStep_prefix_kind {ℓ : Locale} {v cur c : List Char} {val : Value} {d : Bool}
    (h : currencyStep ℓ v cur = some (some (val, .currencyPrefix c d))) :
    c = cur ∧ ∃ n negated p, val = .num n negated false ∧ d = n.hasDot ∧ n.isSci = false ∧
      stripPrefix (if negated then '-' :: cur else cur) v = some p ∧ parseNumber ℓ.dec ℓ.grp (trim p) = some n := by
  unfold currencyStep at h
  split at h
  · rename_i p hp
    split at h
    · cases h
    · split at h
      · cases h
      · rename_i n hn
        simp only [Option.some.injEq, Prod.mk.injEq] at h
        obtain ⟨hv, hk⟩ := h
        cases hs : n.isSci with
        | true => rw [hs] at hk; simp at hk
        | false =>
          rw [hs] at hk; simp at hk
          exact ⟨hk.1.symm, n, true, p, hv.symm, hk.2.symm, hs, by simpa using hp, hn⟩
  · split at h
    · rename_i p hp
      split at h
      · cases h
      · rename_i n hn
        simp only [Option.some.injEq, Prod.mk.injEq] at h
        obtain ⟨hv, hk⟩ := h
        cases hs : n.isSci with
        | true => rw [hs] at hk; simp at hk
        | false =>
          rw [hs] at hk; simp at hk
          exact ⟨hk.1.symm, n, false, p, hv.symm, hk.2.symm, hs, by simpa using hp, hn⟩
    · split at h
      · split at h
        · cases h
        · rename_i n hn
          simp only [Option.some.injEq, Prod.mk.injEq] at h
          obtain ⟨hv, hk⟩ := h
          cases hs : n.isSci with
          | true => rw [hs] at hk; simp at hk
          | false => rw [hs] at hk; simp at hk
      · cases h

theorem currencyStep_suffix_kind {ℓ : Locale} {v cur c : List Char} {val : Value} {d : Bool}
    (h : currencyStep ℓ v cur = some (some (val, .currencySuffix c d))) :
    c = cur ∧ ∃ n p, val = .num n false false ∧ d = n.hasDot ∧ n.isSci = false ∧
      stripSuffix cur v = some p ∧ parseNumber ℓ.dec ℓ.grp (trim p) = some n := by
  unfold currencyStep at h
  split at h
  · split at h
    · cases h
    · split at h
      · cases h
      · rename_i n hn
        simp only [Option.some.injEq, Prod.mk.injEq] at h
        obtain ⟨hv, hk⟩ := h
        cases hs : n.isSci with
        | true => rw [hs] at hk; simp at hk
        | false => rw [hs] at hk; simp at hk
  · split at h
    · split at h
      · cases h
      · rename_i n hn
        simp only [Option.some.injEq, Prod.mk.injEq] at h
        obtain ⟨hv, hk⟩ := h
        cases hs : n.isSci with
        | true => rw [hs] at hk; simp at hk
        | false => rw [hs] at hk; simp at hk
    · split at h
      · rename_i p hp
        split at h
        · cases h
        · rename_i n hn
          simp only [Option.some.injEq, Prod.mk.injEq] at h
          obtain ⟨hv, hk⟩ := h
          cases hs : n.isSci with
          | true => rw [hs] at hk; simp at hk
          | false =>
            rw [hs] at hk; simp at hk
            exact ⟨hk.1.symm, n, p, hv.symm, hk.2.symm, hs, hp, hn⟩
      · cases h

/-- a currency kind can only come out of the currency loop -/
theorem currency_kind_from_loop {ℓ : Locale} {curs : List (List Char)} {s : List Char} {v : Value} {k : Kind}
    (h : parseFormattedNumber ℓ curs s = some (v, k))
    (hk : (∃ c d, k = .currencyPrefix c d) ∨ (∃ c d, k = .currencySuffix c d)) :
    ∃ cur ∈ curs, currencyStep ℓ (trim s) cur = some (some (v, k)) := by
  unfold parseFormattedNumber at h
  simp only at h
  split at h
  · split at h
    · cases h
    · rename_i n _
      simp only [Option.some.injEq, Prod.mk.injEq] at h
      exfalso
      cases hs : n.isSci <;> rw [hs] at h <;> rcases hk with ⟨c, d, e⟩ | ⟨c, d, e⟩ <;> rw [e] at h <;> simp at h
  · split at h
    · rename_i r hr
      obtain ⟨cur, hm, hstep⟩ := currencyLoop_some hr
      subst h
      exact ⟨cur, hm, hstep⟩
    · split at h
      · simp only [Option.some.injEq, Prod.mk.injEq] at h
        exfalso
        rcases hk with ⟨c, d, e⟩ | ⟨c, d, e⟩ <;> rw [e] at h <;> simp at h
      · split at h
        · cases h
        · rename_i n _
          simp only [Option.some.injEq, Prod.mk.injEq] at h
          exfalso
          cases hs : n.isSci <;> cases hg : n.hasGroups <;> rw [hs] at h <;> (try rw [hg] at h) <;>
            rcases hk with ⟨c, d, e⟩ | ⟨c, d, e⟩ <;> rw [e] at h <;> simp at h

end IronCalc.Number
