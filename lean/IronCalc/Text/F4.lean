import IronCalc.Codec.Refs
/-
  C34 — F4 reference cycling.  Model of base/src/expressions/lexer/util.rs:
  next_state, cycle_endpoint, cycle_token_text, cycle_reference, over `List Char`.
  The lexer is an input: `cycleReference` receives the spans (start, end), relative to the formula
  body, of the tokens the lexer classified as `Reference` / `Range`, in order.
-/
namespace IronCalc.F4
open IronCalc.Codec

-- models lexer/util.rs::next_state :  A1 -> $A$1 -> A$1 -> $A1 -> A1   (absolute_column, absolute_row)
def nextState : Bool × Bool → Bool × Bool
  | (false, false) => (true, true)
  | (true, true) => (false, true)
  | (false, true) => (true, false)
  | (true, false) => (false, false)

/-- the scan of cycle_endpoint: `[$]letters[$]digits` followed by whatever is left -/
structure Parts where
  absCol : Bool
  column : List Char
  absRow : Bool
  row : List Char
  rest : List Char
deriving DecidableEq, Repr

def decompose (part : List Char) : Parts :=
  let s1 := stripDollar part
  let s3 := stripDollar (s1.2.dropWhile isAsciiAlpha)
  { absCol := s1.1, column := s1.2.takeWhile isAsciiAlpha, absRow := s3.1,
    row := s3.2.takeWhile isDigit, rest := s3.2.dropWhile isDigit }

/-- the new `$` flags chosen by cycle_endpoint -/
def newFlags (p : Parts) : Bool × Bool :=
  if p.column.isEmpty then (false, !(p.absCol || p.absRow))      -- row-only endpoint `5` in `5:5`
  else if p.row.isEmpty then (!p.absCol, false)                   -- column-only endpoint `D` in `D:D`
  else nextState (p.absCol, p.absRow)

-- models lexer/util.rs::cycle_endpoint
def cycleEndpoint (part : List Char) : List Char :=
  let p := decompose part
  if !p.rest.isEmpty || (p.column.isEmpty && p.row.isEmpty) then part
  else
    let f := newFlags p
    withDollar f.1 (p.column.map asciiUpper ++ withDollar f.2 p.row)

/-- split at every `:` (the `loop` at the end of cycle_token_text) -/
def splitOnColon : List Char → List Char → List (List Char)
  | [], acc => [acc.reverse]
  | c :: t, acc => if c = ':' then acc.reverse :: splitOnColon t [] else splitOnColon t (c :: acc)

def joinColon : List (List Char) → List Char
  | [] => []
  | [p] => p
  | p :: q :: ps => p ++ ':' :: joinColon (q :: ps)

/-- the endpoints separated by `:`, each cycled -/
def cycleEndpoints (s : List Char) : List Char :=
  joinColon ((splitOnColon s []).map cycleEndpoint)

/-- the quoted-sheet-name scan of cycle_token_text, started after the opening quote:
    (characters copied, including the closing quote; what is left) -/
def scanQuotedPrefix : List Char → List Char × List Char
  | [] => ([], [])
  | c :: t =>
    if c = '\'' then
      match t with
      | [] => (['\''], [])
      | d :: t' =>
        if d = '\'' then
          let r := scanQuotedPrefix t'
          ('\'' :: '\'' :: r.1, r.2)
        else (['\''], t)
    else
      let r := scanQuotedPrefix t
      (c :: r.1, r.2)

/-- an optional `!` -/
def takeBang (s : List Char) : List Char × List Char :=
  match s with
  | [] => ([], [])
  | c :: t => if c = '!' then (['!'], t) else ([], s)

/-- the sheet prefix of a token text (after leading white space): (prefix copied verbatim, endpoints) -/
def splitPrefix (t : List Char) : List Char × List Char :=
  match t with
  | [] => ([], [])
  | c :: u =>
    if c = '\'' then
      let q := scanQuotedPrefix u
      let b := takeBang q.2
      ('\'' :: q.1 ++ b.1, b.2)
    else if t.contains '!' then
      (t.takeWhile (· ≠ '!') ++ ['!'], (t.dropWhile (· ≠ '!')).tail)
    else ([], t)

-- models lexer/util.rs::cycle_token_text
def cycleTokenText (cc : CharClass) (text : List Char) : List Char :=
  let ws := text.takeWhile cc.white
  let sp := splitPrefix (text.dropWhile cc.white)
  ws ++ sp.1 ++ cycleEndpoints sp.2

structure LoopState where
  result : List Char
  copied : Nat
  first : Option Nat
  last : Nat

/-- one iteration of the `for marked in tokens` loop of cycle_reference (reference/range tokens only) -/
def stepToken (cc : CharClass) (body : List Char) (selS selE : Nat) (st : LoopState) (span : Nat × Nat) :
    LoopState :=
  let tokenStart := span.1 + 1
  let tokenEnd := span.2 + 1
  if tokenStart > selE || selS > tokenEnd then st
  else
    let result := st.result ++ (body.take (tokenStart - 1)).drop st.copied
    let tokenText := (body.take (tokenEnd - 1)).drop (tokenStart - 1)
    let first := match st.first with
      | some f => some f
      | none => some (result.length + (tokenText.takeWhile cc.white).length)
    let result := result ++ cycleTokenText cc tokenText
    { result := result, copied := tokenEnd - 1, first := first, last := result.length }

-- models lexer/util.rs::cycle_reference; `none` = Err("Cursor index out of bounds")
def cycleReference (cc : CharClass) (spans : List (Nat × Nat)) (value : List Char) (start stop : Nat) :
    Option (List Char × Nat × Nat) :=
  if start > value.length || stop > value.length then none
  else
    let selS := min start stop
    let selE := max start stop
    match value with
    | [] => some (value, start, stop)
    | c :: body =>
      if c ≠ '=' then some (value, start, stop)
      else
        let st := spans.foldl (stepToken cc body selS selE)
          { result := ['='], copied := 0, first := none, last := 0 }
        match st.first with
        | none => some (value, start, stop)
        | some f =>
          let newValue := st.result ++ body.drop st.copied
          if start = stop then some (newValue, st.last, st.last)
          else some (newValue, f, st.last)

/-- what cycling may not change: the text without `$`, ASCII-upper-cased -/
def stripDollarUpper (s : List Char) : List Char := (s.filter (· ≠ '$')).map asciiUpper

end IronCalc.F4
