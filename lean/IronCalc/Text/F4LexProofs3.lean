import IronCalc.Text.F4LexProofs2
/-
  Helper lemmas for C34 at the level of a whole formula text, part 3:
  the spans the lexer model finds in a rendered token list, and one press of F4 on it.
-/
namespace IronCalc.F4
open IronCalc.Codec IronCalc.Formula

/-! ### spans of a rendered token list -/

/-- the marked tokens of a token list printed from position `pos` on -/
def spansOf (cfg : LexCfg) : Nat → List CTok → List (CTok × Nat × Nat)
  | _, [] => []
  | pos, t :: ts =>
    (t, pos, pos + (renderTok cfg t).length) :: spansOf cfg (pos + (renderTok cfg t).length) ts

theorem render_cons (cfg : LexCfg) (t : CTok) (ts : List CTok) :
    render cfg (t :: ts) = renderTok cfg t ++ render cfg ts := by simp [render]

theorem render_append (cfg : LexCfg) (a b : List CTok) :
    render cfg (a ++ b) = render cfg a ++ render cfg b := by simp [render]

theorem all_tokOK_of (cfg : LexCfg) {ts : List CTok} (h : ts.all (tokOK cfg) = true) :
    ∀ t, t ∈ ts → tokOK cfg t = true := fun t ht => List.all_eq_true.mp h t ht

theorem nextToken_render_cons (cfg : LexCfg) (h : CfgOK cfg) (t : CTok) (ts : List CTok)
    (hok : tokOK cfg t = true) (hg : glueFree cfg (t :: ts) = true) :
    nextToken cfg (render cfg (t :: ts)) = some (t, render cfg ts) := by
  rw [render_cons]
  cases ts with
  | nil =>
    simp only [render, List.flatMap_nil]
    exact nextToken_renderTok cfg h t [] hok rfl
  | cons u us =>
    simp only [glueFree, Bool.and_eq_true, Bool.not_eq_true', List.isEmpty_eq_false_iff] at hg
    obtain ⟨⟨hfu, hne⟩, _⟩ := hg
    apply nextToken_renderTok cfg h t _ hok
    obtain ⟨c, tl, hc⟩ := List.exists_cons_of_ne_nil hne
    rw [render_cons, hc]
    rw [hc] at hfu
    simpa [follow] using hfu

theorem glueFree_tail (cfg : LexCfg) (t : CTok) (ts : List CTok) (hg : glueFree cfg (t :: ts) = true) :
    glueFree cfg ts = true := by
  cases ts with
  | nil => rfl
  | cons u us =>
    simp only [glueFree, Bool.and_eq_true] at hg
    exact hg.2

/-- the lexer model finds, in a rendered glue-free token list, exactly the tokens at their offsets -/
theorem markedTokens_render (cfg : LexCfg) (h : CfgOK cfg) :
    ∀ (ts : List CTok) (n pos : Nat), ts.length < n → ts.all (tokOK cfg) = true →
      glueFree cfg ts = true → markedTokens cfg n pos (render cfg ts) = spansOf cfg pos ts
  | [], n, pos, _, _, _ => by
    cases n with
    | zero => rfl
    | succ m => simp [markedTokens, render, nextToken_nil, spansOf]
  | t :: ts, n, pos, hn, hok, hg => by
    cases n with
    | zero => simp at hn
    | succ m =>
      simp only [List.all_cons, Bool.and_eq_true] at hok
      have h1 := nextToken_render_cons cfg h t ts hok.1 hg
      have ih := markedTokens_render cfg h ts m (pos + (renderTok cfg t).length)
        (by simp at hn; omega) hok.2 (glueFree_tail cfg t ts hg)
      have hlen : (render cfg (t :: ts)).length - (render cfg ts).length = (renderTok cfg t).length := by
        rw [render_cons, List.length_append]; omega
      simp only [markedTokens, h1, hlen, spansOf, ih]

theorem render_length_ge (cfg : LexCfg) (h : CfgOK cfg) (ts : List CTok) (hok : ts.all (tokOK cfg) = true) :
    ts.length ≤ (render cfg ts).length := by
  induction ts with
  | nil => simp
  | cons t tl ih =>
    simp only [List.all_cons, Bool.and_eq_true] at hok
    have hne := renderTok_ne_nil cfg h t hok.1
    have hpos : 0 < (renderTok cfg t).length := List.length_pos_iff.mpr hne
    have := ih hok.2
    rw [render_cons, List.length_append, List.length_cons]
    omega

theorem refSpans_render (cfg : LexCfg) (h : CfgOK cfg) (ts : List CTok) (hok : ts.all (tokOK cfg) = true)
    (hg : glueFree cfg ts = true) :
    refSpans cfg (render cfg ts) =
      ((spansOf cfg 0 ts).filter (fun m => isRefTok m.1)).map (fun m => m.2) := by
  unfold refSpans
  rw [markedTokens_render cfg h ts _ 0 (by have := render_length_ge cfg h ts hok; omega) hok hg]

theorem spansOf_append (cfg : LexCfg) (a b : List CTok) (pos : Nat) :
    spansOf cfg pos (a ++ b) = spansOf cfg pos a ++ spansOf cfg (pos + (render cfg a).length) b := by
  induction a generalizing pos with
  | nil => simp [spansOf, render]
  | cons t ts ih =>
    simp only [List.cons_append, spansOf, ih, render_cons, List.length_append, Nat.add_assoc]

theorem spansOf_start_ge (cfg : LexCfg) (ts : List CTok) (pos : Nat) :
    ∀ m, m ∈ spansOf cfg pos ts → pos ≤ m.2.1 := by
  induction ts generalizing pos with
  | nil => intro m hm; simp [spansOf] at hm
  | cons t tl ih =>
    intro m hm
    simp only [spansOf, List.mem_cons] at hm
    rcases hm with rfl | hm
    · exact Nat.le_refl _
    · have := ih _ m hm; omega

/-- the token before the site is not a Reference/Range token -/
def lastNotRef : List CTok → Bool
  | [] => true
  | [u] => !isRefTok u
  | _ :: v :: r => lastNotRef (v :: r)

/-- the token after the site is not a Reference/Range token -/
def headNotRef : List CTok → Bool
  | [] => true
  | u :: _ => !isRefTok u

theorem pre_spans_before (cfg : LexCfg) (h : CfgOK cfg) (pre : List CTok) (pos : Nat)
    (hok : pre.all (tokOK cfg) = true) (hl : lastNotRef pre = true) :
    ∀ m, m ∈ spansOf cfg pos pre → isRefTok m.1 = true → m.2.2 + 1 ≤ pos + (render cfg pre).length := by
  induction pre generalizing pos with
  | nil => intro m hm; simp [spansOf] at hm
  | cons u rest ih =>
    cases rest with
    | nil =>
      intro m hm hr
      simp only [spansOf, List.mem_cons, List.not_mem_nil, or_false] at hm
      subst hm
      simp only [lastNotRef, Bool.not_eq_true'] at hl
      rw [hl] at hr; exact absurd hr (by decide)
    | cons v r =>
      intro m hm hr
      simp only [List.all_cons, Bool.and_eq_true] at hok
      have hv : 0 < (renderTok cfg v).length := List.length_pos_iff.mpr (renderTok_ne_nil cfg h v hok.2.1)
      have hlen : (render cfg (u :: v :: r)).length =
          (renderTok cfg u).length + ((renderTok cfg v).length + (render cfg r).length) := by
        simp [render_cons, List.length_append]
      rw [spansOf] at hm
      simp only [List.mem_cons] at hm
      rcases hm with rfl | hm
      · simp only; omega
      · have hok' : (v :: r).all (tokOK cfg) = true := by
          simp only [List.all_cons, Bool.and_eq_true]; exact hok.2
        have := ih (pos + (renderTok cfg u).length) hok' (by simpa [lastNotRef] using hl) m hm hr
        have hlen' : (render cfg (v :: r)).length = (renderTok cfg v).length + (render cfg r).length := by
          simp [render_cons, List.length_append]
        omega

theorem post_spans_after (cfg : LexCfg) (h : CfgOK cfg) (post : List CTok) (pos : Nat)
    (hok : post.all (tokOK cfg) = true) (hl : headNotRef post = true) :
    ∀ m, m ∈ spansOf cfg pos post → isRefTok m.1 = true → pos + 1 ≤ m.2.1 := by
  cases post with
  | nil => intro m hm; simp [spansOf] at hm
  | cons u rest =>
    intro m hm hr
    simp only [List.all_cons, Bool.and_eq_true] at hok
    have hu : 0 < (renderTok cfg u).length := List.length_pos_iff.mpr (renderTok_ne_nil cfg h u hok.1)
    simp only [spansOf, List.mem_cons] at hm
    rcases hm with rfl | hm
    · simp only [headNotRef, Bool.not_eq_true'] at hl
      rw [hl] at hr; exact absurd hr (by decide)
    · have := spansOf_start_ge cfg rest _ m hm; omega

/-! ### the loop of cycle_reference -/

theorem stepToken_skip (cc : CharClass) (body : List Char) (selS selE : Nat) (st : LoopState) (sp : Nat × Nat)
    (h : sp.1 + 1 > selE ∨ selS > sp.2 + 1) : stepToken cc body selS selE st sp = st := by
  unfold stepToken
  have : (decide (sp.1 + 1 > selE) || decide (selS > sp.2 + 1)) = true := by
    rcases h with h | h <;> simp [h]
  simp [this]

theorem foldl_skip (cc : CharClass) (body : List Char) (selS selE : Nat) (l : List (Nat × Nat))
    (st : LoopState) (h : ∀ sp, sp ∈ l → sp.1 + 1 > selE ∨ selS > sp.2 + 1) :
    l.foldl (stepToken cc body selS selE) st = st := by
  induction l generalizing st with
  | nil => rfl
  | cons sp tl ih =>
    rw [List.foldl_cons, stepToken_skip cc body selS selE st sp (h sp (List.mem_cons_self ..))]
    exact ih st (fun x hx => h x (List.mem_cons_of_mem _ hx))

theorem take_app_len {α : Type} (X Z : List α) (k : Nat) : (X ++ Z).take (X.length + k) = X ++ Z.take k := by
  induction X with
  | nil => simp
  | cons x xs ih =>
    have : (x :: xs).length + k = (xs.length + k) + 1 := by simp; omega
    rw [this, List.cons_append, List.take_succ_cons, ih, List.cons_append]

theorem drop_app_len {α : Type} (X Z : List α) (k : Nat) : (X ++ Z).drop (X.length + k) = Z.drop k := by
  induction X with
  | nil => simp
  | cons x xs ih =>
    have : (x :: xs).length + k = (xs.length + k) + 1 := by simp; omega
    rw [this, List.cons_append, List.drop_succ_cons, ih]

theorem rangeBody_bodyChar (l r : PRef) : (rangeBody l r).all bodyChar = true := by
  unfold rangeBody
  split
  · exact bodyChar_pair _ _ (colText_refChar _ _) (colText_refChar _ _)
  · split
    · exact bodyChar_pair _ _ (rowText_refChar _ _) (rowText_refChar _ _)
    · exact bodyChar_pair _ _ (cellText_refChar _ _ _ _) (cellText_refChar _ _ _ _)

theorem rangeBody_ne_nil (l r : PRef) : rangeBody l r ≠ [] := by
  unfold rangeBody
  split
  · simp
  · split <;> simp

theorem prefix_head_notWhite (cfg : LexCfg) (h : CfgOK cfg) (sh : Option (List Char)) (hsh : sheetOK sh = true)
    (body : List Char) (hb : body.all bodyChar = true) (hne : body ≠ []) :
    (sheetPrefix cfg.cc sh ++ body).takeWhile cfg.cc.white = [] := by
  obtain ⟨b0, bt, rfl⟩ := List.exists_cons_of_ne_nil hne
  cases sh with
  | none =>
    have hb0 : bodyChar b0 = true := by simp only [List.all_cons, Bool.and_eq_true] at hb; exact hb.1
    have hb0r : refChar b0 = true ∨ b0 = ':' := by simpa [bodyChar] using hb0
    have hw : cfg.cc.white b0 = false := by
      rcases hb0r with hr | hr
      · exact refChar_notWhite cfg h b0 hr
      · subst hr; exact h.white_special _ (by decide)
    simp [sheetPrefix, List.takeWhile_cons, hw]
  | some n =>
    have hn : n ≠ [] := by
      intro e; subst e; simp [sheetOK] at hsh
    simp only [sheetPrefix, quoteName]
    cases hq : nameNeedsQuoting cfg.cc n with
    | true =>
      have hw : cfg.cc.white '\'' = false := h.white_special _ (by decide)
      simp [quoteWith, List.takeWhile_cons, hw]
    | false =>
      unfold nameNeedsQuoting at hq
      simp only [Bool.or_eq_false_iff, Bool.not_eq_eq_eq_not, Bool.not_false] at hq
      have hid := hq.1.1
      obtain ⟨c, t, rfl⟩ := List.exists_cons_of_ne_nil hn
      simp only [looksLikeIdent, Bool.and_eq_true] at hid
      have hcw : cfg.cc.white c = false := by
        have hs := hid.1
        unfold isIdentStart at hs
        simp only [Bool.or_eq_true, decide_eq_true_eq] at hs
        rcases hs with hs | hs
        · exact h.white_alnum _ (h.alpha_alnum _ hs)
        · subst hs; exact h.white_us
      simp [quoteWith, List.takeWhile_cons, hcw]

/-- a printed Reference/Range token does not start with white space -/
theorem renderTok_head_notWhite (cfg : LexCfg) (h : CfgOK cfg) (t : CTok) (href : isRefTok t = true)
    (hok : tokOK cfg t = true) : (renderTok cfg t).takeWhile cfg.cc.white = [] := by
  cases t with
  | ref sh r =>
    simp only [tokOK, h.a1, if_true, Bool.and_eq_true] at hok
    rw [renderTok_ref cfg h sh r hok.2]
    exact prefix_head_notWhite cfg h sh hok.1 _ (bodyChar_of_ref _ (cellText_refChar _ _ _ _))
      (cellText_ne_nil _ _ _ _)
  | range sh l r =>
    simp only [tokOK, h.a1, if_true, Bool.and_eq_true] at hok
    rw [renderTok_range cfg h sh l r hok.2.1 hok.2.2]
    exact prefix_head_notWhite cfg h sh hok.1 _ (rangeBody_bodyChar l r) (rangeBody_ne_nil l r)
  | _ => simp [isRefTok] at href

end IronCalc.F4
