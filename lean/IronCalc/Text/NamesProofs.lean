import IronCalc.Text.Names
import IronCalc.Basic.Range
/-
  C23 — lemmas and the kernel-evaluated table check behind `Props/C23.lean`.

  Cost discipline: scanning a 495-entry table for each of 5 × 495 names is far too slow in the
  kernel, so nothing here evaluates `lookupU` on the table.  Instead
  * hits come from a *certificate*: the generated search tree `fnTrees[L]` is evaluated on every name
    (`O(log n)` each); `find (name i) = i` for all `i` makes `find` a left inverse of `i ↦ name i`, and
    `findFrom_hit` turns a left inverse into "the first match of `name i` is at `i`";
  * misses (the `_xlfn.`-prefixed xlsx names are looked up once *with* their prefix) come from a
    *signature*: no English name starts with `_` (`sigU`, one pass), the key does.
  Neither the tree nor the signature function is trusted: the lemmas hold for any tree / any function.
-/
namespace IronCalc.Names
open IronCalc IronCalc.Generated.Names

theorem getD_lt (l : List Nat) (i d : Nat) (h : i < l.length) : l.getD i d = l[i] := by
  simp [List.getD_eq_getElem?_getD, List.getElem?_eq_getElem h]

/-! ### generic: first match -/

theorem findFrom_none {key : Nat} {l : List Nat} {s : Nat}
    (h : ∀ c ∈ l, Nat.beq c key = false) : findFrom key l s = none := by
  induction l generalizing s with
  | nil => rfl
  | cons c cs ih =>
    rw [findFrom, h c (List.mem_cons_self ..)]
    exact ih (fun c hc => h c (List.mem_cons_of_mem _ hc))

/-- a left inverse `g` of `j ↦ l[j]` (shifted by `s`) forces the first match of `l[i]` to be `i` -/
theorem findFrom_hit (g : Nat → Nat) (l : List Nat) (s : Nat)
    (hg : ∀ j (hj : j < l.length), g l[j] = s + j) :
    ∀ i (hi : i < l.length), findFrom l[i] l s = some (s + i) := by
  induction l generalizing s with
  | nil => intro i hi; cases hi
  | cons c cs ih =>
    intro i hi
    cases i with
    | zero =>
      simp only [List.getElem_cons_zero, findFrom]
      have : Nat.beq c c = true := by simp
      rw [this]; rfl
    | succ i' =>
      have hi' : i' < cs.length := by simpa using hi
      simp only [List.getElem_cons_succ, findFrom]
      cases hb : Nat.beq c cs[i'] with
      | true =>
        exfalso
        have hc : c = cs[i'] := Nat.eq_of_beq_eq_true hb
        have h0 := hg 0 (by simp)
        have h1 := hg (i' + 1) hi
        simp only [List.getElem_cons_zero, List.getElem_cons_succ] at h0 h1
        rw [hc] at h0
        omega
      | false =>
        have := ih (s + 1) (fun j hj => by
          have := hg (j + 1) (by simpa using hj)
          simp only [List.getElem_cons_succ] at this
          omega) i' hi'
        simp only [cond_false]
        rw [this]; congr 1; omega

/-! ### generic: indexed passes over a list -/

/-- `p i c` for every entry `c` at position `i` (positions start at `s`) -/
def forIdx (p : Nat → Nat → Bool) : List Nat → Nat → Bool
  | [], _ => true
  | c :: cs, i => p i c && forIdx p cs (i + 1)

theorem forIdx_spec {p : Nat → Nat → Bool} {l : List Nat} {s : Nat} (h : forIdx p l s = true) :
    ∀ j (hj : j < l.length), p (s + j) l[j] = true := by
  induction l generalizing s with
  | nil => intro j hj; cases hj
  | cons c cs ih =>
    rw [forIdx, Bool.and_eq_true] at h
    intro j hj
    cases j with
    | zero => simpa using h.1
    | succ j' =>
      have := ih h.2 j' (by simpa using hj)
      simp only [List.getElem_cons_succ]
      have e : s + (j' + 1) = s + 1 + j' := by omega
      rw [e]; exact this

/-! ### the per-name checks (cheap: a tree descent and a few operations on a short byte list) -/

def treeOf (L : Nat) : NameTree := fnTrees.getD L (.leaf 0)

/-- a signature separating keys that start with `_` from the table names; any function would do -/
def sigU (k : Nat) : Bool := Nat.beq (k / 256 ^ (k.log2 / 8 - 1) % 256) 95

/-- everything `callKind` needs to know about the localized name `c` of function `i` in `L`,
    except the lookup itself -/
def nameGood (L i c : Nat) : Bool :=
  let raw := bytesOf c
  (codeOf (upperAscii raw) == c)
  && !(raw == ascii "_xlfn.LAMBDA") && !(raw == ascii "_xlfn.SINGLE") && !(raw == ascii "_xlfn.ANCHORARRAY")
  && (stripAll xlfnXlws raw == raw) && (stripAll xlfn raw == raw)
  && (!(c == boolTrue.getD L 0) || (i == trueIdx))
  && (!(c == boolFalse.getD L 0) || (i == falseIdx))
  && ((upperAscii raw == ascii "LAMBDA") == (i == lambdaIdx))

/-- the same for the xlsx name `x` of function `i` (English reader): after the prefix handling the
    first lookup either is the English name (`k1`), or starts with `_` (a miss) and the second
    lookup (`k2`) is the English name -/
def xlsxGood (i x : Nat) : Bool :=
  let raw := bytesOf x
  let u := codeOf (upperAscii raw)
  let k1 := codeOf (upperAscii (stripAll xlfnXlws raw))
  let k2 := codeOf (upperAscii (stripAll xlfn raw))
  let en := nameOf enIdx i
  !(raw == ascii "_xlfn.SINGLE") && !(raw == ascii "_xlfn.ANCHORARRAY")
  && (!(u == boolTrue.getD enIdx 0) || (i == trueIdx))
  && (!(u == boolFalse.getD enIdx 0) || (i == falseIdx))
  && (isLambdaWord raw == (i == lambdaIdx))
  && ((k1 == en) || (sigU k1 && (k2 == en)))

/-- the whole table check, evaluated once by the kernel -/
def tableOK : Bool :=
  !(trueIdx == lambdaIdx) && !(falseIdx == lambdaIdx)
  && Nat.blt enIdx nLanguages
  && (xlsxNames.length == nFunctions)
  && allRange 0 nLanguages (fun L =>
      ((names L).length == nFunctions)
      && forIdx (fun i c => ((treeOf L).find c == i) && nameGood L i c) (names L) 0)
  && forIdx (fun _ c => !(sigU c)) (names enIdx) 0
  && forIdx (fun i x => xlsxGood i x) xlsxNames 0

/-! ### consequences of `tableOK` -/

structure TableFacts : Prop where
  tl : trueIdx ≠ lambdaIdx
  fl : falseIdx ≠ lambdaIdx
  en : enIdx < nLanguages
  xlen : xlsxNames.length = nFunctions
  len : ∀ L, L < nLanguages → (names L).length = nFunctions
  cert : ∀ L, L < nLanguages → ∀ j (hj : j < (names L).length), (treeOf L).find (names L)[j] = j
  good : ∀ L, L < nLanguages → ∀ j (hj : j < (names L).length), nameGood L j (names L)[j] = true
  nosig : ∀ j (hj : j < (names enIdx).length), sigU (names enIdx)[j] = false
  xgood : ∀ j (hj : j < xlsxNames.length), xlsxGood j xlsxNames[j] = true

theorem tableFacts_of (h : tableOK = true) : TableFacts := by
  unfold tableOK at h
  simp only [Bool.and_eq_true, Bool.not_eq_true', Nat.blt_eq, beq_iff_eq, beq_eq_false_iff_ne, ne_eq] at h
  obtain ⟨⟨⟨⟨⟨⟨h1, h2⟩, h3⟩, h4⟩, h5⟩, h6⟩, h7⟩ := h
  have hL := allRange_spec 0 nLanguages _ h5
  refine ⟨h1, h2, h3, h4, ?_, ?_, ?_, ?_, ?_⟩
  · intro L hLlt
    have := hL L (Nat.zero_le _) (by omega)
    simp only [Bool.and_eq_true, beq_iff_eq] at this
    exact this.1
  · intro L hLlt j hj
    have := hL L (Nat.zero_le _) (by omega)
    simp only [Bool.and_eq_true] at this
    have := forIdx_spec this.2 j hj
    simp only [Bool.and_eq_true, Nat.zero_add, beq_iff_eq] at this
    exact this.1
  · intro L hLlt j hj
    have := hL L (Nat.zero_le _) (by omega)
    simp only [Bool.and_eq_true] at this
    have := forIdx_spec this.2 j hj
    simp only [Bool.and_eq_true, Nat.zero_add] at this
    exact this.2
  · intro j hj
    have := forIdx_spec h6 j hj
    simpa using this
  · intro j hj
    have := forIdx_spec h7 j hj
    simpa using this

/-- the name of function `i` is found at `i` (the first match of the scan) -/
theorem lookupU_hit (F : TableFacts) {L : Nat} (hL : L < nLanguages) {i : Nat} (hi : i < nFunctions) :
    lookupU L (nameOf L i) = some i := by
  have hlen := F.len L hL
  have hi' : i < (names L).length := by omega
  have := findFrom_hit (treeOf L).find (names L) 0 (fun j hj => by rw [F.cert L hL j hj]; omega) i hi'
  unfold lookupU nameOf
  rw [getD_lt _ _ _ hi', this]; simp

theorem nameOf_inj (F : TableFacts) {L : Nat} (hL : L < nLanguages) {i j : Nat}
    (hi : i < nFunctions) (hj : j < nFunctions) (h : nameOf L i = nameOf L j) : i = j := by
  have a := lookupU_hit F hL hi
  have b := lookupU_hit F hL hj
  rw [h, b] at a
  exact (Option.some.inj a).symm

theorem lookupU_miss {L : Nat} {k : Nat} (sig : Nat → Bool) (hk : sig k = true)
    (hn : ∀ j (hj : j < (names L).length), sig (names L)[j] = false) : lookupU L k = none := by
  unfold lookupU
  apply findFrom_none
  intro c hc
  obtain ⟨j, hj, rfl⟩ := List.getElem_of_mem hc
  cases hb : Nat.beq (names L)[j] k with
  | false => rfl
  | true =>
    have := Nat.eq_of_beq_eq_true hb
    have h2 := hn j hj
    rw [this, hk] at h2; cases h2

/-- `callKind` on the localized name of `i` -/
theorem callKind_name (F : TableFacts) {L : Nat} (hL : L < nLanguages) {i : Nat} (hi : i < nFunctions)
    (nargs : Nat) : callKind L (bytesOf (nameOf L i)) nargs = expected i nargs := by
  have hi' : i < (names L).length := by rw [F.len L hL]; exact hi
  have hg := F.good L hL i hi'
  have hc : (names L)[i] = nameOf L i := by unfold nameOf; rw [getD_lt _ _ _ hi']
  rw [hc] at hg
  have hit := lookupU_hit F hL hi
  generalize nameOf L i = c at hg hit
  unfold nameGood at hg
  simp only [Bool.and_eq_true, Bool.not_eq_true', Bool.or_eq_true, beq_iff_eq,
    beq_eq_false_iff_ne, ne_eq] at hg
  obtain ⟨⟨⟨⟨⟨⟨⟨⟨hu, hx1⟩, hx2⟩, hx3⟩, hs1⟩, hs2⟩, hbt⟩, hbf⟩, hlam⟩ := hg
  have hlook : resolveLookup L (bytesOf c) = Res.fn i := by
    unfold resolveLookup lookupKey
    rw [hs1, hu, hit]
  unfold callKind expected
  rw [hu]
  by_cases ht : c = boolTrue.getD L 0
  · rw [if_pos ht]
    have : i = trueIdx := by
      rcases hbt with h | h
      · exact absurd ht h
      · exact h
    rw [this, if_neg F.tl]
  · rw [if_neg ht]
    by_cases hf : c = boolFalse.getD L 0
    · rw [if_pos hf]
      have : i = falseIdx := by
        rcases hbf with h | h
        · exact absurd hf h
        · exact h
      rw [this, if_neg F.fl]
    · rw [if_neg hf]
      have hw : isLambdaWord (bytesOf c) = (upperAscii (bytesOf c) == ascii "LAMBDA") := by
        unfold isLambdaWord
        have : (bytesOf c == ascii "_xlfn.LAMBDA") = false := by simpa using hx1
        rw [this, Bool.false_or]
      rw [hw]
      by_cases hl : i = lambdaIdx
      · have : (upperAscii (bytesOf c) == ascii "LAMBDA") = true := by
          rw [hlam, hl]; simp
        rw [if_pos this, if_pos hl]
      · have : (upperAscii (bytesOf c) == ascii "LAMBDA") = false := by
          rw [hlam]; simpa using hl
        rw [this, if_neg hl]
        simp only [Bool.false_eq_true, if_false]
        rw [if_neg hx2, if_neg hx3, hlook]

/-- `callKind` (English, the import path) on the xlsx name of `i` -/
theorem callKind_xlsx (F : TableFacts) {i : Nat} (hi : i < nFunctions) (nargs : Nat) :
    callKind enIdx (bytesOf (xlsxOf i)) nargs = expected i nargs := by
  have hi' : i < xlsxNames.length := by rw [F.xlen]; exact hi
  have hg := F.xgood i hi'
  have hc : xlsxNames[i] = xlsxOf i := by unfold xlsxOf; rw [getD_lt _ _ _ hi']
  rw [hc] at hg
  have hit := lookupU_hit F F.en hi
  generalize xlsxOf i = x at hg
  unfold xlsxGood at hg
  simp only [Bool.and_eq_true, Bool.not_eq_true', Bool.or_eq_true, beq_iff_eq,
    beq_eq_false_iff_ne, ne_eq] at hg
  obtain ⟨⟨⟨⟨⟨hx2, hx3⟩, hbt⟩, hbf⟩, hlam⟩, hk⟩ := hg
  have hlook : resolveLookup enIdx (bytesOf x) = Res.fn i := by
    unfold resolveLookup lookupKey
    rcases hk with h1 | ⟨hsig, h2⟩
    · rw [h1, hit]
    · rw [lookupU_miss sigU hsig F.nosig, h2, hit]
  unfold callKind expected
  by_cases ht : codeOf (upperAscii (bytesOf x)) = boolTrue.getD enIdx 0
  · rw [if_pos ht]
    have : i = trueIdx := by
      rcases hbt with h | h
      · exact absurd ht h
      · exact h
    rw [this, if_neg F.tl]
  · rw [if_neg ht]
    by_cases hf : codeOf (upperAscii (bytesOf x)) = boolFalse.getD enIdx 0
    · rw [if_pos hf]
      have : i = falseIdx := by
        rcases hbf with h | h
        · exact absurd hf h
        · exact h
      rw [this, if_neg F.fl]
    · rw [if_neg hf]
      by_cases hl : i = lambdaIdx
      · have : isLambdaWord (bytesOf x) = true := by rw [hlam, hl]; simp
        rw [if_pos this, if_pos hl]
      · have : isLambdaWord (bytesOf x) = false := by rw [hlam]; simpa using hl
        rw [this, if_neg hl]
        simp only [Bool.false_eq_true, if_false]
        rw [if_neg hx2, if_neg hx3, hlook]

/-! ### errors -/

theorem isPrefix_append_self (n s : List Nat) : isPrefix n (n ++ s) = true := by
  induction n with
  | nil => rfl
  | cons a as ih => simp [isPrefix, ih]

/-- two prefixes of the same text are comparable -/
theorem isPrefix_comparable (p n s : List Nat) (h : isPrefix p (n ++ s) = true) :
    isPrefix p n = true ∨ isPrefix n p = true := by
  induction p generalizing n with
  | nil => left; rfl
  | cons a as ih =>
    cases n with
    | nil => right; rfl
    | cons b bs =>
      simp only [List.cons_append, isPrefix, Bool.and_eq_true] at h ⊢
      rcases ih bs h.2 with h' | h'
      · left; exact ⟨h.1, h'⟩
      · right; refine ⟨?_, h'⟩
        have : a = b := by simpa using h.1
        simp [this]

theorem firstErr_unique (tbl : List (List Nat)) (p : List Nat → Bool) (order : List Nat) (e : Nat)
    (he : e ∈ order) (hp : p (tbl.getD e []) = true)
    (hn : ∀ e' ∈ order, e' ≠ e → p (tbl.getD e' []) = false) : firstErr tbl p order = some e := by
  induction order with
  | nil => cases he
  | cons a as ih =>
    rw [firstErr]
    by_cases hae : a = e
    · rw [hae, hp]; rfl
    · rw [hn a (List.mem_cons_self ..) hae]
      simp only [Bool.false_eq_true, if_false]
      rcases List.mem_cons.mp he with h | h
      · exact absurd h.symm hae
      · exact ih h (fun e' he' => hn e' (List.mem_cons_of_mem _ he'))

/-- no spelling of language `L` is a prefix of another one (`error_prefix_order_ok` as a check) -/
def prefixFree (L : Nat) : Bool :=
  allRange 0 nErrors fun e => allRange 0 nErrors fun e' =>
    (e == e') || !(isPrefix (errName L e) (errName L e'))

theorem lexError_of_prefixFree {L : Nat} (h : prefixFree L = true) {e : Nat} (he : e < nErrors)
    (suffix : List Nat) : lexError L (errName L e ++ suffix) = some (e, (errName L e).length) := by
  have hpf : ∀ a b, a < nErrors → b < nErrors → a ≠ b → isPrefix (errName L a) (errName L b) = false := by
    intro a b ha hb hab
    have := allRange_spec 0 nErrors _ (allRange_spec 0 nErrors _ h a (Nat.zero_le _) (by omega)) b
      (Nat.zero_le _) (by omega)
    simp only [Bool.or_eq_true, beq_iff_eq, Bool.not_eq_true'] at this
    rcases this with h' | h'
    · exact absurd h' hab
    · exact h'
  have hmem : ∀ x, x ∈ lexOrder ↔ x < nErrors := by
    intro x; unfold lexOrder nErrors; simp only [List.mem_cons, List.mem_nil_iff, or_false]; omega
  have : firstErr (errNames.getD L []) (fun n => isPrefix n (errName L e ++ suffix)) lexOrder = some e := by
    apply firstErr_unique
    · exact (hmem e).mpr he
    · exact isPrefix_append_self _ _
    · intro e' he' hne
      have he'lt := (hmem e').mp he'
      cases hb : isPrefix ((errNames.getD L []).getD e' []) (errName L e ++ suffix) with
      | false => rfl
      | true =>
        exfalso
        rcases isPrefix_comparable _ _ _ hb with h1 | h1
        · have := hpf e' e he'lt he hne
          unfold errName at this h1; rw [this] at h1; cases h1
        · have := hpf e e' he he'lt (Ne.symm hne)
          unfold errName at this h1; rw [this] at h1; cases h1
  unfold lexError
  rw [this]

theorem name_folded (F : TableFacts) {L : Nat} (hL : L < nLanguages) {i : Nat} (hi : i < nFunctions) :
    codeOf (upperAscii (bytesOf (nameOf L i))) = nameOf L i := by
  have hi' : i < (names L).length := by rw [F.len L hL]; exact hi
  have hg := F.good L hL i hi'
  have hc : (names L)[i] = nameOf L i := by unfold nameOf; rw [getD_lt _ _ _ hi']
  rw [hc] at hg
  unfold nameGood at hg
  simp only [Bool.and_eq_true, beq_iff_eq] at hg
  exact hg.1.1.1.1.1.1.1.1

/-! ### first-match lookup in an association list does not depend on the order of the entries -/

/-- first entry `(name, idx)` whose name is `key` -/
def lookupAssoc (key : Nat) : List (Nat × Nat) → Option Nat
  | [] => none
  | (c, i) :: t => bif Nat.beq c key then some i else lookupAssoc key t

theorem lookupAssoc_none {key : Nat} {t : List (Nat × Nat)} (h : key ∉ t.map Prod.fst) :
    lookupAssoc key t = none := by
  induction t with
  | nil => rfl
  | cons a as ih =>
    obtain ⟨c, i⟩ := a
    simp only [List.map_cons, List.mem_cons, not_or] at h
    have : Nat.beq c key = false := by
      cases hb : Nat.beq c key with
      | false => rfl
      | true => exact absurd (Nat.eq_of_beq_eq_true hb).symm h.1
    rw [lookupAssoc, this]; exact ih h.2

theorem lookupAssoc_mem {key i : Nat} {t : List (Nat × Nat)} (hn : (t.map Prod.fst).Nodup)
    (h : (key, i) ∈ t) : lookupAssoc key t = some i := by
  induction t with
  | nil => cases h
  | cons a as ih =>
    obtain ⟨c, j⟩ := a
    simp only [List.map_cons, List.nodup_cons] at hn
    rw [lookupAssoc]
    rcases List.mem_cons.mp h with h' | h'
    · have hc : key = c := (Prod.mk.inj h').1
      have hj : i = j := (Prod.mk.inj h').2
      have : Nat.beq c key = true := by rw [hc]; simp
      rw [this, hj]; rfl
    · have : Nat.beq c key = false := by
        cases hb : Nat.beq c key with
        | false => rfl
        | true =>
          exfalso
          have := Nat.eq_of_beq_eq_true hb
          apply hn.1
          rw [this]
          exact List.mem_map_of_mem (f := Prod.fst) h'
      rw [this]; exact ih hn.2 h'

theorem lookupAssoc_perm {t t' : List (Nat × Nat)} (hp : t.Perm t')
    (hn : (t.map Prod.fst).Nodup) (key : Nat) : lookupAssoc key t = lookupAssoc key t' := by
  have hn' : (t'.map Prod.fst).Nodup := (hp.map Prod.fst).nodup_iff.mp hn
  by_cases hk : key ∈ t.map Prod.fst
  · obtain ⟨⟨c, i⟩, hmem, hc⟩ := List.mem_map.mp hk
    simp only at hc
    subst hc
    rw [lookupAssoc_mem hn hmem, lookupAssoc_mem hn' (hp.mem_iff.mp hmem)]
  · have hk' : key ∉ t'.map Prod.fst := fun h => hk ((hp.map Prod.fst).mem_iff.mpr h)
    rw [lookupAssoc_none hk, lookupAssoc_none hk']

/-! ### the error table check -/

def optCode : Option Nat → Nat
  | some i => i + 1
  | none => 0

def errTableOK : Bool :=
  allRange 0 nLanguages (fun L =>
    prefixFree L
    && allRange 0 nErrors (fun e =>
        (errorOfName L (errName L e) == some e)
        && (optCode (errorOfName L (errName L e)) == (errByName.getD L []).getD e 0)
        && (optCode ((lexError L (errName L e)).map Prod.fst) == (errLex.getD L []).getD e 0)))
  && allRange 0 nErrors (fun e =>
      (errorOfEnglish (display e) == some e)
      && (optCode (errorOfEnglish (display e)) == errByEnglish.getD e 0)
      && (display e == errName enIdx e))

structure ErrFacts : Prop where
  byName : ∀ L e, L < nLanguages → e < nErrors → errorOfName L (errName L e) = some e
  english : ∀ e, e < nErrors → errorOfEnglish (display e) = some e
  disp : ∀ e, e < nErrors → display e = errName enIdx e
  pf : ∀ L, L < nLanguages → prefixFree L = true
  agree : ∀ L e, L < nLanguages → e < nErrors →
    optCode (errorOfName L (errName L e)) = (errByName.getD L []).getD e 0
    ∧ optCode ((lexError L (errName L e)).map Prod.fst) = (errLex.getD L []).getD e 0
    ∧ optCode (errorOfEnglish (display e)) = errByEnglish.getD e 0

theorem errFacts_of (h : errTableOK = true) : ErrFacts := by
  unfold errTableOK at h
  rw [Bool.and_eq_true] at h
  obtain ⟨hA, hB⟩ := h
  have hL := allRange_spec 0 nLanguages _ hA
  have hE := allRange_spec 0 nErrors _ hB
  have hLe : ∀ L e, L < nLanguages → e < nErrors → _ := fun L e hl he => by
    have := hL L (Nat.zero_le _) (by omega)
    rw [Bool.and_eq_true] at this
    exact allRange_spec 0 nErrors _ this.2 e (Nat.zero_le _) (by omega)
  refine ⟨?_, ?_, ?_, ?_, ?_⟩
  · intro L e hl he
    have := hLe L e hl he
    simp only [Bool.and_eq_true, beq_iff_eq] at this
    exact this.1.1
  · intro e he
    have := hE e (Nat.zero_le _) (by omega)
    simp only [Bool.and_eq_true, beq_iff_eq] at this
    exact this.1.1
  · intro e he
    have := hE e (Nat.zero_le _) (by omega)
    simp only [Bool.and_eq_true, beq_iff_eq] at this
    exact this.2
  · intro L hl
    have := hL L (Nat.zero_le _) (by omega)
    rw [Bool.and_eq_true] at this
    exact this.1
  · intro L e hl he
    have h1 := hLe L e hl he
    have h2 := hE e (Nat.zero_le _) (by omega)
    simp only [Bool.and_eq_true, beq_iff_eq] at h1 h2
    exact ⟨h1.1.2, h1.2, h2.1.2⟩

end IronCalc.Names
