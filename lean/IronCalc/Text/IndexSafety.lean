/-
  C11 — index kernels of the lexer / formatter re-written with every slice / index access CHECKED:
  an access outside the vector yields `Outcome.panic` (what Rust does at run time) instead of a
  default value.  Props/C11.lean proves `kernel input ≠ .panic` for all inputs.

  Loops carry explicit fuel (the remaining input length bounds them); running out of fuel is its
  own outcome (`.fuel`), never confused with a result.
-/
namespace IronCalc.IndexSafety

inductive Outcome (α : Type) where
  | ok (a : α)
  | panic
  | fuel
deriving Repr, DecidableEq

/-! ### `lexer/mod.rs::Lexer::consume_string` (called after the opening `"`) -/

/-- models the `while position < len` loop of `consume_string`; returns (text, new position,
    terminated).  `chars[position]` is only read under `position < len`. -/
def consumeStringLoop (chars : Array Char) : Nat → Nat → List Char → Outcome (List Char × Nat × Bool)
  | 0, _, _ => .fuel
  | fuel + 1, position, acc =>
    if position < chars.size then
      match chars[position]? with
      | none => .panic
      | some x =>
        let position := position + 1
        if x ≠ '"' then consumeStringLoop chars fuel position (x :: acc)
        else if position < chars.size then
          match chars[position]? with
          | none => .panic
          | some y =>
            if y = '"' then consumeStringLoop chars fuel (position + 1) (y :: x :: acc)
            else .ok (acc.reverse, position, true)
        else .ok (acc.reverse, position, true)
    else .ok (acc.reverse, position, false)

def consumeString (chars : Array Char) (position : Nat) : Outcome (List Char × Nat × Bool) :=
  consumeStringLoop chars (chars.size + 1) position []

/-! ### `lexer/mod.rs::Lexer::consume_single_quote_string` -/

/-- the loop: returns (position, success) -/
def singleQuoteLoop (chars : Array Char) : Nat → Nat → Outcome (Nat × Bool)
  | 0, _ => .fuel
  | fuel + 1, position =>
    if position < chars.size then
      match chars[position]? with
      | none => .panic
      | some c =>
        let position := position + 1
        if c = '\'' then
          if position = chars.size then .ok (position, true)
          else
            match chars[position]? with     -- `self.chars[position]`, unguarded in the source
            | none => .panic
            | some d => if d ≠ '\'' then .ok (position, true) else singleQuoteLoop chars fuel (position + 1)
        else singleQuoteLoop chars fuel position
    else .ok (position, false)

/-- checked slice `v[a..b]` -/
def slice (chars : Array Char) (a b : Nat) : Outcome (List Char) :=
  if a ≤ b ∧ b ≤ chars.size then .ok ((chars.toList.drop a).take (b - a)) else .panic

/-- models `consume_single_quote_string`: on success the slice `chars[self.position..position-1]`
    (`position - 1` is a `usize` subtraction: underflow panics in checked builds) -/
def consumeSingleQuoteString (chars : Array Char) (start : Nat) : Outcome (Option (List Char × Nat)) :=
  match singleQuoteLoop chars (chars.size + 1) start with
  | .panic => .panic
  | .fuel => .fuel
  | .ok (position, success) =>
    if !success then .ok none
    else if position = 0 then .panic
    else
      match slice chars start (position - 1) with
      | .ok s => .ok (some (s, position))
      | .panic => .panic
      | .fuel => .fuel

/-! ### `lexer/mod.rs::Lexer::consume_error` — `chars[position - 1..len]` after `read_next_char` -/

/-- models `next_token`'s `'#'` arm: `read_next_char` advanced the position, then `consume_error`
    slices from `position - 1` -/
def readThenConsumeError (chars : Array Char) (position : Nat) : Outcome (List Char) :=
  if position < chars.size then
    let position := position + 1               -- read_next_char
    if position = 0 then .panic else slice chars (position - 1) chars.size
  else .ok []

/-! ### `lexer/structured_references.rs::Lexer::consume_column_reference` -/

/-- models the scan loop `while position < self.len { … }`: a `'` escapes the next character (two
    characters are skipped); `none` = `LexerError("Invalid column name")` when the text ends right
    after the quote.  The order matters: the quote is passed FIRST, then `position == len` is
    tested, and only then the escaped character is skipped. -/
def columnRefLoop (chars : Array Char) (endChar : Char) : Nat → Nat → Outcome (Option Nat)
  | 0, _ => .fuel
  | fuel + 1, position =>
    if position < chars.size then
      match chars[position]? with
      | none => .panic
      | some c =>
        if c ≠ endChar then
          let position := position + 1
          if c = '\'' then
            if position = chars.size then .ok none
            else columnRefLoop chars endChar fuel (position + 1)
          else columnRefLoop chars endChar fuel position
        else .ok (some position)
    else .ok (some position)

/-- models `consume_column_reference` from the `[` test on (whitespace already consumed):
    the slice `chars[self.position..position]`, and the new position (`position + 1` when the end
    character is `]` — also when no `]` was found, so the new position can be `len + 1`) -/
def consumeColumnReference (chars : Array Char) (start : Nat) : Outcome (Option (List Char × Nat)) :=
  let bracket := chars[start]? = some '['
  let endChar := if bracket then ']' else ')'
  let start := if bracket then start + 1 else start
  match columnRefLoop chars endChar (chars.size + 1) start with
  | .panic => .panic
  | .fuel => .fuel
  | .ok none => .ok none
  | .ok (some position) =>
    match slice chars start position with
    | .panic => .panic
    | .fuel => .fuel
    | .ok s => .ok (some (s, if bracket then position + 1 else position))

/-! ### `utils/mod.rs::parse_reference_r1c1` (bytes) -/

def isDigit (b : UInt8) : Bool := 48 ≤ b && b ≤ 57

/-- `while i < len { if digit push else break; i += 1 }` -/
def digitsLoop (bs : Array UInt8) : Nat → Nat → List UInt8 → Outcome (Nat × List UInt8)
  | 0, _, _ => .fuel
  | fuel + 1, i, acc =>
    if i < bs.size then
      match bs[i]? with
      | none => .panic
      | some ch => if isDigit ch then digitsLoop bs fuel (i + 1) (ch :: acc) else .ok (i, acc.reverse)
    else .ok (i, acc.reverse)

structure R1C1 where
  absRow : Bool
  row : List UInt8      -- optional '-' then digits
  absCol : Bool
  col : List UInt8
deriving Repr, DecidableEq

/-- checked read `chars[i]` -/
def rd (bs : Array UInt8) (i : Nat) : Outcome UInt8 :=
  match bs[i]? with
  | some b => .ok b
  | none => .panic

def Outcome.bind {α β : Type} (x : Outcome α) (f : α → Outcome β) : Outcome β :=
  match x with
  | .ok a => f a
  | .panic => .panic
  | .fuel => .fuel

/-- after `R`: `if chars[i] == b'['` (i = 1) and `if chars[i] == b'-'` (i = 2), both UNGUARDED in the
    source (only `len < 4` was tested): (next index, absolute_row, row prefix) -/
def r1c1RowHead (bs : Array UInt8) : Outcome (Nat × Bool × List UInt8) :=
  (rd bs 1).bind fun c1 =>
    if c1 = 91 then
      (rd bs 2).bind fun c2 => if c2 = 45 then .ok (3, false, [45]) else .ok (2, false, [])
    else .ok (1, true, [])

/-- `if !absolute { if i >= len || chars[i] != b']' { return None }; i += 1 }` -/
def r1c1Close (bs : Array UInt8) (absolute : Bool) (i : Nat) : Outcome (Option Nat) :=
  if !absolute then
    if i ≥ bs.size then .ok none
    else (rd bs i).bind fun c => if c ≠ 93 then .ok none else .ok (some (i + 1))
  else .ok (some i)

/-- after `C`: the guarded `[` and `-` tests: (next index, absolute_column, column prefix) -/
def r1c1ColHead (bs : Array UInt8) (i : Nat) : Outcome (Nat × Bool × List UInt8) :=
  if i < bs.size then
    (rd bs i).bind fun c =>
      if c = 91 then
        let i := i + 1
        if i < bs.size then
          (rd bs i).bind fun d => if d = 45 then .ok (i + 1, false, [45]) else .ok (i, false, [])
        else .ok (i, false, [])
      else .ok (i, true, [])
  else .ok (i, true, [])

def parseReferenceR1C1 (bs : Array UInt8) : Outcome (Option R1C1) :=
  let len := bs.size
  if len < 4 then .ok none else
  (rd bs 0).bind fun c0 =>
  if c0 ≠ 82 then .ok none else          -- 'R'
  (r1c1RowHead bs).bind fun (i, absRow, rowPre) =>
  (digitsLoop bs (len + 1) i []).bind fun (i, rowDigits) =>
  (r1c1Close bs absRow i).bind fun oi =>
  match oi with
  | none => .ok none
  | some i =>
  if i ≥ len then .ok none else
  (rd bs i).bind fun c =>
  if c ≠ 67 then .ok none else           -- 'C'
  (r1c1ColHead bs (i + 1)).bind fun (i, absCol, colPre) =>
  (digitsLoop bs (len + 1) i []).bind fun (i, colDigits) =>
  (r1c1Close bs absCol i).bind fun oi =>
  match oi with
  | none => .ok none
  | some i => if i ≠ len then .ok none else .ok (some ⟨absRow, rowPre ++ rowDigits, absCol, colPre ++ colDigits⟩)

/-! ### `formatter/format.rs::get_fract_part` — index arithmetic on the formatted fraction `b` -/

/-- `for i in 0..l { if b[l - i] != '0' { last_non_zero = l - i + 1; break } }` -/
def lastNonZeroLoop (b : Array Char) (l : Nat) : Nat → Nat → Outcome (Option Nat)
  | 0, _ => .ok none
  | fuel + 1, i =>
    if i < l then
      match b[l - i]? with
      | none => .panic
      | some c => if c ≠ '0' then .ok (some (l - i + 1)) else lastNonZeroLoop b l fuel (i + 1)
    else .ok none

/-- models `get_fract_part` from `let l = b.len() - 1` on (`b` is the text of
    `format!("{:.prec}", fract)`, never empty); result: the slice `b[2..last_non_zero]` -/
def getFractPartIdx (b : Array Char) (intLen : Nat) : Outcome (List Char) :=
  if b.size = 0 then .panic else          -- `b.len() - 1` underflows
  let l := b.size - 1
  match lastNonZeroLoop b l l 0 with
  | .panic => .panic | .fuel => .fuel
  | .ok r =>
    let lastNonZero := match r with | some x => x | none => b.size - 1
    if lastNonZero < 2 then .ok []
    else
      let maxLen := if intLen > 15 then 2 else 15 - intLen + 1
      let lastNonZero := min lastNonZero (maxLen + 1)
      slice b 2 lastNonZero

/-! ### `lexer/util.rs::cycle_endpoint` — scanning indices and the two slices -/

def scanWhile (part : Array Char) (pred : Char → Bool) : Nat → Nat → Outcome Nat
  | 0, _ => .fuel
  | fuel + 1, i =>
    if i < part.size then
      match part[i]? with
      | none => .panic
      | some c => if pred c then scanWhile part pred fuel (i + 1) else .ok i
    else .ok i

/-- returns (column slice, row slice, end index) -/
def cycleEndpointIdx (part : Array Char) : Outcome (List Char × List Char × Nat) :=
  let n := part.size
  let i := if part[0]? = some '$' then 1 else 0
  let columnStart := i
  match scanWhile part Char.isAlpha (n + 1) i with
  | .panic => .panic | .fuel => .fuel
  | .ok i =>
  match slice part columnStart i with
  | .panic => .panic | .fuel => .fuel
  | .ok column =>
  let stepRow : Outcome Nat :=
    if i < n then
      match part[i]? with
      | none => .panic
      | some c => if c = '$' then .ok (i + 1) else .ok i
    else .ok i
  match stepRow with
  | .panic => .panic | .fuel => .fuel
  | .ok i =>
  let rowStart := i
  match scanWhile part Char.isDigit (n + 1) i with
  | .panic => .panic | .fuel => .fuel
  | .ok i =>
  match slice part rowStart i with
  | .panic => .panic | .fuel => .fuel
  | .ok row => .ok (column, row, i)

end IronCalc.IndexSafety
