import IronCalc.Text.F4
import IronCalc.Formula.Lex
/-
  C34 — F4 cycling on a whole formula text, with the lexer inside the model.
  `cycle_reference` (lexer/util.rs) asks `get_tokens_with_locale` for the tokens of the formula body
  and cycles the Reference/Range tokens the cursor touches.  Here the tokens come from the
  character-level lexer model `Formula/Lex.lean` (`nextToken`), so the whole function
  text × cursor → text × cursor is modelled; `Text/F4.lean` keeps the cycling of one token.
-/
namespace IronCalc.F4
open IronCalc.Codec IronCalc.Formula

-- models lexer/util.rs::get_tokens_with_locale: each token with the lexer position before it
-- (before the white space `next_token` skips) and after it
def markedTokens (cfg : LexCfg) : Nat → Nat → List Char → List (CTok × Nat × Nat)
  | 0, _, _ => []
  | n + 1, pos, s =>
    match nextToken cfg s with
    | none => []
    | some (t, rest) =>
      (t, pos, pos + (s.length - rest.length)) ::
        markedTokens cfg n (pos + (s.length - rest.length)) rest

/-- `matches!(token, Reference { .. } | Range { .. })` -/
def isRefTok : CTok → Bool
  | .ref _ _ => true
  | .range _ _ _ => true
  | _ => false

/-- the spans `cycle_reference` looks at: the Reference/Range tokens of the formula body -/
def refSpans (cfg : LexCfg) (body : List Char) : List (Nat × Nat) :=
  ((markedTokens cfg (body.length + 1) 0 body).filter (fun m => isRefTok m.1)).map (fun m => m.2)

-- models lexer/util.rs::cycle_reference (= Model::cycle_reference with the model's locale and
-- language in `cfg`), lexer included
/-- the spans of a cell text: only a text starting with `=` is tokenised -/
def valueSpans (cfg : LexCfg) (value : List Char) : List (Nat × Nat) :=
  match value with
  | c :: body => if c = '=' then refSpans cfg body else []
  | [] => []

def cycleReferenceLex (cfg : LexCfg) (value : List Char) (start stop : Nat) :
    Option (List Char × Nat × Nat) :=
  cycleReference cfg.cc (valueSpans cfg value) value start stop

end IronCalc.F4
