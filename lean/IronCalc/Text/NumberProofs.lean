import IronCalc.Text.NumberSpec
/-
  Helper lemmas for C19: the scanner `scanNumber`/`parseNumber` is sound and complete with respect to
  the rendering specification `IsNumberLit`.
-/
namespace IronCalc.Number

/-! ### counting -/

theorem countDigits_cons (c : Char) (cs : List Char) :
    countDigits (c :: cs) = (if isDigit c then 1 else 0) + countDigits cs := by
  unfold countDigits
  by_cases h : isDigit c = true
  · simp [h]; omega
  · simp [h]

theorem countSeps_cons (c : Char) (cs : List Char) :
    countSeps (c :: cs) = (if isDigit c then 0 else 1) + countSeps cs := by
  unfold countSeps
  by_cases h : isDigit c = true
  · simp [h]
  · simp [h]; omega

theorem countDigits_append (a b : List Char) : countDigits (a ++ b) = countDigits a + countDigits b := by
  unfold countDigits; simp

theorem countSeps_append (a b : List Char) : countSeps (a ++ b) = countSeps a + countSeps b := by
  unfold countSeps; simp

theorem countDigits_allDigits {d : List Char} (h : AllDigits d) : countDigits d = d.length := by
  induction d with
  | nil => rfl
  | cons c cs ih =>
    have hc : isDigit c = true := h c (by simp)
    rw [countDigits_cons, ih (fun x hx => h x (by simp [hx]))]; simp [hc]; omega

theorem countSeps_allDigits {d : List Char} (h : AllDigits d) : countSeps d = 0 := by
  induction d with
  | nil => rfl
  | cons c cs ih =>
    have hc : isDigit c = true := h c (by simp)
    rw [countSeps_cons, ih (fun x hx => h x (by simp [hx]))]; simp [hc]

theorem groups_counts {grp : Char} (hg : isDigit grp = false) {g : List Char} (h : Groups grp g) :
    countDigits g = 3 * countSeps g := by
  induction h with
  | nil => rfl
  | cons ha hb hc _ ih =>
    simp only [countDigits_cons, countSeps_cons, ha, hb, hc, hg, if_true]
    simp; omega

/-! ### the group check ⇔ the group grammar -/

/-- soundness of the check: a run of digits and separators that passes it is digits followed by
    groups of exactly three -/
theorem groups_of_check (grp : Char) : ∀ run : List Char,
    (∀ c ∈ run, inRun grp c = true) → groupCheck run = true →
    ∃ d g, run = d ++ g ∧ AllDigits d ∧ Groups grp g ∧ (g = [] ∨ g.head? = some grp) := by
  intro run
  induction run with
  | nil => intro _ _; exact ⟨[], [], rfl, (fun _ h => by cases h), Groups.nil, Or.inl rfl⟩
  | cons c cs ih =>
    intro hin hchk
    unfold groupCheck at hchk
    simp only [Bool.and_eq_true] at hchk
    obtain ⟨h1, h2⟩ := hchk
    obtain ⟨d, g, hcs, hd, hg, hhead⟩ := ih (fun x hx => hin x (by simp [hx])) h2
    by_cases hc : isDigit c = true
    · refine ⟨c :: d, g, by simp [hcs], ?_, hg, hhead⟩
      intro x hx
      rcases List.mem_cons.mp hx with rfl | hx
      · exact hc
      · exact hd x hx
    · -- a separator
      have hcg : c = grp := by
        have := hin c (by simp)
        unfold inRun at this
        simp only [Bool.or_eq_true, beq_iff_eq] at this
        rcases this with h | h
        · exact absurd h hc
        · exact h
      have hgd : isDigit grp = false := by rw [← hcg]; simpa using hc
      have hcount : countDigits cs = 3 * (countSeps cs + 1) := by
        simp only [Bool.or_eq_true, beq_iff_eq] at h1
        rcases h1 with h | h
        · exact absurd h hc
        · exact h
      rw [hcs, countDigits_append, countSeps_append, countDigits_allDigits hd, countSeps_allDigits hd,
        groups_counts hgd hg] at hcount
      have hlen : d.length = 3 := by omega
      match d, hlen, hd with
      | [a, b, e], _, hd =>
        refine ⟨[], grp :: a :: b :: e :: g, by simp [hcs, hcg], (fun _ h => by cases h), ?_, Or.inr rfl⟩
        exact Groups.cons (hd a (by simp)) (hd b (by simp)) (hd e (by simp)) hg

/-- completeness of the check -/
theorem check_of_groups {grp : Char} (hgd : isDigit grp = false) {g : List Char} (hg : Groups grp g) :
    groupCheck g = true := by
  induction hg with
  | nil => rfl
  | @cons a b c rest ha hb hc hrest ih =>
    have := groups_counts hgd hrest
    unfold groupCheck groupCheck groupCheck groupCheck
    simp only [countDigits_cons, countSeps_cons, ha, hb, hc, hgd, ih]
    simp; omega

theorem check_of_digits_append {d g : List Char} (hd : AllDigits d) (hg : groupCheck g = true) :
    groupCheck (d ++ g) = true := by
  induction d with
  | nil => simpa using hg
  | cons c cs ih =>
    have hc : isDigit c = true := hd c (by simp)
    simp only [List.cons_append]
    unfold groupCheck
    simp [hc, ih (fun x hx => hd x (by simp [hx]))]

/-- the strict check implies the one the code performs -/
theorem lenient_of_strict : ∀ run : List Char, groupCheck run = true → groupCheckLenient run = true := by
  intro run
  induction run with
  | nil => intro _; rfl
  | cons c cs ih =>
    intro h
    unfold groupCheck at h
    unfold groupCheckLenient
    simp only [Bool.and_eq_true, Bool.or_eq_true, beq_iff_eq] at h ⊢
    refine ⟨?_, ih h.2⟩
    rcases h.1 with h1 | h1
    · exact Or.inl h1
    · right; omega

/-! ### the scanner stages -/

theorem allDigits_nil : AllDigits [] := fun _ h => by cases h

theorem takeWhile_digits_all (cs : List Char) : AllDigits (cs.takeWhile isDigit) := by
  induction cs with
  | nil => exact allDigits_nil
  | cons c cs ih =>
    by_cases h : isDigit c = true
    · simp only [List.takeWhile_cons, h, if_true]
      intro x hx
      rcases List.mem_cons.mp hx with rfl | hx
      · exact h
      · exact ih x hx
    · simp only [List.takeWhile_cons, h]
      exact allDigits_nil

theorem takeSign_spec (v : List Char) : ∀ s r, takeSign v = (s, r) →
    s.toList ++ r = v ∧ (s = none ∨ s = some '+' ∨ s = some '-') := by
  intro s r h
  unfold takeSign at h
  split at h
  · split at h
    · cases h; rename_i c r' hc; simp at hc; simp [hc]
    · split at h
      · cases h; rename_i c r' _ hc; simp at hc; simp [hc]
      · cases h; simp
  · cases h; simp

theorem scanFrac_spec (dec : Char) (r1 : List Char) : ∀ hd fr r2, scanFrac dec r1 = (hd, fr, r2) →
    (if hd then dec :: fr else []) ++ r2 = r1 ∧ AllDigits fr ∧ (hd = false → fr = []) := by
  intro hd fr r2 h
  unfold scanFrac at h
  split at h
  · split at h
    · cases h; rename_i c r hc; simp at hc
      refine ⟨by simp [hc, List.takeWhile_append_dropWhile], takeWhile_digits_all _, by simp⟩
    · cases h; exact ⟨by simp, allDigits_nil, fun _ => rfl⟩
  · cases h; exact ⟨by simp, allDigits_nil, fun _ => rfl⟩

def expText : Option (Char × Char × List Char) → List Char
  | some (m, x, ds) => m :: x :: ds
  | none => []

theorem scanExp_spec (r2 : List Char) : ∀ e, scanExp r2 = some e →
    expText e = r2 ∧
    (match e with
     | none => True
     | some (m, x, ds) => (m = 'e' ∨ m = 'E') ∧ AllDigits ds ∧ (x = '-' ∨ x = '+' ∨ isDigit x = true)) := by
  intro e h
  unfold scanExp at h
  split at h
  · cases h; exact ⟨rfl, trivial⟩
  · cases h
  · split at h
    · rename_i m x r hc
      cases h
      simp only [Bool.and_eq_true, Bool.or_eq_true, beq_iff_eq, List.isEmpty_iff] at hc
      obtain ⟨⟨hm, hx⟩, hr⟩ := hc
      refine ⟨?_, hm, takeWhile_digits_all _, ?_⟩
      · have := List.takeWhile_append_dropWhile (p := isDigit) (l := r)
        rw [hr] at this; simp at this
        simp [expText, this]
      · rcases hx with (h | h) | h
        · exact Or.inl h
        · exact Or.inr (Or.inl h)
        · exact Or.inr (Or.inr h)
    · cases h



theorem render_eq (dec : Char) (n : Num) :
    n.render dec = n.sign.toList ++ n.intText ++ (if n.hasDot then dec :: n.frac else []) ++ expText n.exp := by
  unfold Num.render expText
  rcases n.exp with _ | ⟨m, x, ds⟩ <;> rfl

theorem takeWhile_inRun_all (grp : Char) (cs : List Char) : ∀ c ∈ cs.takeWhile (inRun grp), inRun grp c = true := by
  induction cs with
  | nil => intro c h; cases h
  | cons a cs ih =>
    by_cases h : inRun grp a = true
    · simp only [List.takeWhile_cons, h, if_true]
      intro x hx
      rcases List.mem_cons.mp hx with rfl | hx
      · exact h
      · exact ih x hx
    · simp only [List.takeWhile_cons, h]
      intro c hc; cases hc

/-- what a successful scan guarantees -/
theorem scan_sound {dec grp : Char} {t : List Char} {n : Num} (h : scanNumber dec grp t = some n)
    (hstrict : groupCheck n.intText = true) :
    n.render dec = t ∧ (n.sign = none ∨ n.sign = some '+' ∨ n.sign = some '-') ∧
    IsIntText grp n.intText ∧ AllDigits n.frac ∧ (n.hasDot = false → n.frac = []) ∧
    (match n.exp with
     | none => True
     | some (m, x, ds) => (m = 'e' ∨ m = 'E') ∧ AllDigits ds ∧ (x = '-' ∨ x = '+' ∨ isDigit x = true)) := by
  unfold scanNumber at h
  split at h
  rename_i sign r0 hsign
  obtain ⟨hs1, hs2⟩ := takeSign_spec t sign r0 hsign
  split at h
  · cases h
  · rename_i c1 r0'
    split at h
    · cases h
    · rename_i hc1
      split at h
      · cases h
      · rename_i hchk
        split at h
        rename_i hasDot frac r2 hfrac
        obtain ⟨hf1, hf2, hf3⟩ := scanFrac_spec dec _ hasDot frac r2 hfrac
        split at h
        · cases h
        · rename_i e he
          obtain ⟨he1, he2⟩ := scanExp_spec r2 e he
          cases h
          have hchk' : groupCheck (List.takeWhile (inRun grp) (c1 :: r0')) = true := hstrict
          refine ⟨?_, hs2, ?_, hf2, hf3, he2⟩
          · rw [render_eq]
            simp only
            rw [he1, List.append_assoc, List.append_assoc, hf1, List.takeWhile_append_dropWhile, hs1]
          · obtain ⟨d, g, hrun, hd, hg, hhead⟩ := groups_of_check grp _ (takeWhile_inRun_all grp _) hchk'
            refine ⟨d, g, hrun, hd, hg, ?_⟩
            intro hgne hdnil
            rcases hhead with h0 | h0
            · exact hgne h0
            · -- the run would start with the separator, but c1 ≠ grp
              subst hdnil
              simp only [List.nil_append] at hrun
              by_cases hin : inRun grp c1 = true
              · simp only [List.takeWhile_cons, hin, if_true] at hrun
                rw [← hrun] at h0
                simp at h0
                simp [h0] at hc1
              · simp only [List.takeWhile_cons, hin] at hrun
                rw [← hrun] at h0; simp at h0



theorem parseNumber_sound {dec grp : Char} {t : List Char} {n : Num}
    (h : parseNumber dec grp t = some n) (hstrict : groupCheck n.intText = true) :
    IsNumberLit dec grp t n := by
  unfold parseNumber at h
  split at h
  · cases h
  · rename_i n' hscan
    split at h
    · rename_i hok
      cases h
      obtain ⟨hr, hs, hi, hf, hnd, he⟩ := scan_sound hscan hstrict
      simp only [Bool.and_eq_true, Bool.not_eq_true', literalOk, decide_eq_true_eq] at hok
      obtain ⟨⟨hm, hexp⟩, hfin⟩ := hok
      refine ⟨⟨hs, hi, hf, hnd, hm, ?_, hfin⟩, hr⟩
      unfold ExpOk
      rcases hx : n.exp with _ | ⟨m, x, ds⟩
      · trivial
      · rw [hx] at he hexp
        simp only [Bool.or_eq_true, decide_eq_true_eq] at hexp
        obtain ⟨hm', hds, hxs⟩ := he
        refine ⟨hm', hds, ?_⟩
        rcases hexp with hd | hl
        · exact Or.inl hd
        · rcases hxs with h1 | h1 | h1
          · exact Or.inr ⟨Or.inr h1, by intro h0; simp [h0] at hl⟩
          · exact Or.inr ⟨Or.inl h1, by intro h0; simp [h0] at hl⟩
          · exact Or.inl h1
    · cases h

/-- what completeness needs from the locale's separators -/
def SepsOk (dec grp : Char) : Bool :=
  !isDigit dec && !isDigit grp && dec != grp && dec != '+' && dec != '-' && dec != 'e' && dec != 'E' &&
  grp != 'e' && grp != 'E'

theorem span_append {p : Char → Bool} (a b : List Char) (ha : ∀ c ∈ a, p c = true)
    (hb : b = [] ∨ ∃ c r, b = c :: r ∧ p c = false) :
    (a ++ b).takeWhile p = a ∧ (a ++ b).dropWhile p = b := by
  induction a with
  | nil =>
    rcases hb with rfl | ⟨c, r, rfl, hc⟩
    · simp
    · simp [List.takeWhile_cons, List.dropWhile_cons, hc]
  | cons x xs ih =>
    have hx : p x = true := ha x (by simp)
    obtain ⟨i1, i2⟩ := ih (fun c hc => ha c (by simp [hc]))
    simp [List.takeWhile_cons, List.dropWhile_cons, hx, i1, i2]

theorem groups_inRun {grp : Char} {g : List Char} (hg : Groups grp g) : ∀ c ∈ g, inRun grp c = true := by
  induction hg with
  | nil => intro c h; cases h
  | cons ha hb hc _ ih =>
    intro x hx
    simp only [List.mem_cons] at hx
    unfold inRun
    rcases hx with rfl | rfl | rfl | rfl | hx
    · simp
    · simp [ha]
    · simp [hb]
    · simp [hc]
    · exact ih x hx



theorem isDigit_ne {c d : Char} (hc : isDigit c = true) (hd : isDigit d = false) : c ≠ d := by
  intro h; rw [h, hd] at hc; cases hc

theorem scanExp_complete {e : Option (Char × Char × List Char)} (he : ExpOk e) : scanExp (expText e) = some e := by
  rcases e with _ | ⟨m, x, ds⟩
  · rfl
  · obtain ⟨hm, hds, hx⟩ := he
    have hsp := span_append (p := isDigit) ds [] hds (Or.inl rfl)
    simp only [List.append_nil] at hsp
    unfold expText scanExp
    simp only [hsp.1, hsp.2, List.isEmpty_nil, Bool.and_true]
    have h1 : (m == 'e' || m == 'E') = true := by rcases hm with rfl | rfl <;> decide
    have h2 : (x == '-' || x == '+' || isDigit x) = true := by
      rcases hx with h | ⟨h | h, _⟩
      · simp [h]
      · subst h; decide
      · subst h; decide
    simp [h1, h2]

theorem expText_head {e : Option (Char × Char × List Char)} (he : ExpOk e) :
    expText e = [] ∨ ∃ m r, expText e = m :: r ∧ (m = 'e' ∨ m = 'E') := by
  rcases e with _ | ⟨m, x, ds⟩
  · exact Or.inl rfl
  · exact Or.inr ⟨m, x :: ds, rfl, he.1⟩

theorem parseNumber_complete {dec grp : Char} (hl : SepsOk dec grp = true) {t : List Char} {n : Num}
    (h : IsNumberLit dec grp t n) : parseNumber dec grp t = some n := by
  obtain ⟨⟨hs, ⟨d0, g, hint, hd0, hg, hne⟩, hf, hnd, hm, he, hfin⟩, hr⟩ := h
  unfold SepsOk at hl
  simp only [Bool.and_eq_true, Bool.not_eq_true', bne_iff_ne, ne_eq] at hl
  obtain ⟨⟨⟨⟨⟨⟨⟨⟨hdd, hgd⟩, hdg⟩, hdp⟩, hdm⟩, hde⟩, hdE⟩, hge⟩, hgE⟩ := hl
  have he_e : isDigit 'e' = false := by decide
  have he_E : isDigit 'E' = false := by decide
  -- the text after the integer part
  let tail1 := (if n.hasDot then dec :: n.frac else []) ++ expText n.exp
  have hrender : t = n.sign.toList ++ (n.intText ++ tail1) := by
    rw [← hr, render_eq]; simp [tail1]
  -- the first character after the sign is a digit or the decimal separator
  have hhead : ∃ c1 r, n.intText ++ tail1 = c1 :: r ∧ c1 ≠ grp ∧ c1 ≠ '-' ∧ c1 ≠ '+' := by
    cases hd0c : d0 with
    | nil =>
      have hg0 : g = [] := by
        by_cases hg0 : g = []
        · exact hg0
        · exact absurd hd0c (hne hg0)
      have hint0 : n.intText = [] := by rw [hint, hd0c, hg0]; rfl
      have hdot : n.hasDot = true := by
        cases hh : n.hasDot
        · have := hnd hh
          simp [Num.int, hint0, this] at hm
        · rfl
      refine ⟨dec, n.frac ++ expText n.exp, by simp [tail1, hint0, hdot], hdg, hdm, hdp⟩
    | cons a d' =>
      have ha : isDigit a = true := hd0 a (by simp [hd0c])
      refine ⟨a, d' ++ g ++ tail1, by simp [hint, hd0c], isDigit_ne ha hgd, ?_, ?_⟩
      · exact isDigit_ne ha (by decide)
      · exact isDigit_ne ha (by decide)
  obtain ⟨c1, r, hc1, hc1g, hc1m, hc1p⟩ := hhead
  -- sign stage
  have hsign : takeSign t = (n.sign, n.intText ++ tail1) := by
    rw [hrender, hc1]
    rcases hs with h | h | h <;> rw [h]
    · simp [takeSign, hc1m, hc1p]
    · simp [takeSign]
    · simp [takeSign]
  -- integer run
  have htail_head : tail1 = [] ∨ ∃ c r, tail1 = c :: r ∧ inRun grp c = false := by
    cases hh : n.hasDot
    · have hfr := hnd hh
      rcases expText_head he with h0 | ⟨m, r, hmr, hm'⟩
      · left; simp [tail1, hh, h0]
      · right; refine ⟨m, r, by simp [tail1, hh, hmr], ?_⟩
        unfold inRun
        rcases hm' with rfl | rfl
        · simp [he_e]; exact fun h => hge h.symm
        · simp [he_E]; exact fun h => hgE h.symm
    · right; refine ⟨dec, n.frac ++ expText n.exp, by simp [tail1, hh], ?_⟩
      unfold inRun; simp [hdd, hdg]
  have hinrun : ∀ c ∈ n.intText, inRun grp c = true := by
    rw [hint]; intro c hc
    rcases List.mem_append.mp hc with h | h
    · unfold inRun; simp [hd0 c h]
    · exact groups_inRun hg c h
  obtain ⟨hsp1, hsp2⟩ := span_append (p := inRun grp) n.intText tail1 hinrun htail_head
  have hchk : groupCheck n.intText = true := by
    rw [hint]; exact check_of_digits_append hd0 (check_of_groups hgd hg)
  -- fraction stage
  have hfrac : scanFrac dec tail1 = (n.hasDot, n.frac, expText n.exp) := by
    have hexp_nd : expText n.exp = [] ∨ ∃ c r, expText n.exp = c :: r ∧ isDigit c = false := by
      rcases expText_head he with h0 | ⟨m, r, hmr, hm'⟩
      · exact Or.inl h0
      · exact Or.inr ⟨m, r, hmr, by rcases hm' with rfl | rfl <;> decide⟩
    cases hh : n.hasDot
    · have hfr := hnd hh
      rcases expText_head he with h0 | ⟨m, r, hmr, hm'⟩
      · simp [tail1, hh, h0, hfr, scanFrac]
      · have : m ≠ dec := by rcases hm' with rfl | rfl; exact fun h => hde h.symm; exact fun h => hdE h.symm
        simp [tail1, hh, hmr, hfr, scanFrac, this]
    · obtain ⟨s1, s2⟩ := span_append (p := isDigit) n.frac (expText n.exp) hf hexp_nd
      simp [tail1, hh, scanFrac, s1, s2]
  unfold parseNumber scanNumber
  rw [hsign]
  simp only [hc1]
  rw [← hc1, hsp1, hsp2]
  simp only [hc1g, beq_iff_eq, if_false, lenient_of_strict _ hchk, Bool.not_true, hfrac, scanExp_complete he]
  have hlit : literalOk n = true := by
    unfold literalOk
    simp only [Bool.and_eq_true, decide_eq_true_eq]
    refine ⟨hm, ?_⟩
    rcases hx : n.exp with _ | ⟨m, x, ds⟩
    · rfl
    · rw [hx] at he
      obtain ⟨_, _, h3⟩ := he
      rcases h3 with h | ⟨_, h⟩
      · simp [h]
      · have : 1 ≤ ds.length := by cases ds with | nil => exact absurd rfl h | cons _ _ => simp
        simp [this]
  simp [hlit, hfin]


/-! ### dates and the top level -/

def joinSep (sep : Char) : List (List Char) → List Char
  | [] => []
  | [p] => p
  | p :: q :: r => p ++ sep :: joinSep sep (q :: r)

theorem splitOn_join (sep : Char) : ∀ v : List Char, splitOn sep v ≠ [] ∧ joinSep sep (splitOn sep v) = v := by
  intro v
  induction v with
  | nil => simp [splitOn, joinSep]
  | cons c cs ih =>
    obtain ⟨hne, hj⟩ := ih
    unfold splitOn
    by_cases hc : (c == sep) = true
    · simp only [hc, if_true]
      refine ⟨by simp, ?_⟩
      cases hs : splitOn sep cs with
      | nil => exact absurd hs hne
      | cons p ps =>
        rw [hs] at hj
        simp only [joinSep, List.nil_append]
        rw [hj]; simp at hc; rw [hc]
    · simp only [hc]
      cases hs : splitOn sep cs with
      | nil => exact absurd hs hne
      | cons p ps =>
        rw [hs] at hj
        refine ⟨by simp, ?_⟩
        cases ps with
        | nil => simp [joinSep] at hj ⊢; exact hj
        | cons q r => simp [joinSep] at hj ⊢; exact hj

theorem splitOn_three {sep : Char} {v p0 p1 p2 : List Char} (h : splitOn sep v = [p0, p1, p2]) :
    v = p0 ++ sep :: p1 ++ sep :: p2 := by
  have := (splitOn_join sep v).2
  rw [h] at this
  simp [joinSep] at this
  rw [← this]; simp

theorem parseDate_sound {ℓ : Locale} {s : List Char} {serial : Nat} {fmt : List Char}
    (h : parseDate ℓ s = some (serial, fmt)) : IsDateText ℓ s serial fmt := by
  unfold parseDate at h
  split at h
  · cases h
  · rename_i sep hsep
    have hsepv : sep = '/' ∨ sep = '-' ∨ sep = '.' := by
      unfold dateSeparator at hsep
      split at hsep
      · cases hsep; exact Or.inl rfl
      · split at hsep
        · cases hsep; exact Or.inr (Or.inl rfl)
        · split at hsep
          · cases hsep; exact Or.inr (Or.inr rfl)
          · cases hsep
    split at h
    · rename_i p0 p1 p2 hsplit
      have hv := splitOn_three hsplit
      split at h
      · cases h
      · rename_i hiso
        split at h
        rename_i dayS monthS yearS hfields
        split at h
        · cases h
        · rename_i day dayF hday
          split at h
          · cases h
          · rename_i month monthF hmonth
            split at h
            · cases h
            · rename_i year yearF hyear
              split at h
              · cases h
              · rename_i ser hser
                split at h
                · cases h
                · rename_i hrange
                  simp only [Option.some.injEq, Prod.mk.injEq] at h
                  obtain ⟨h1, h2⟩ := h
                  simp only [Bool.or_eq_true, decide_eq_true_eq, not_or, Int.not_lt] at hrange
                  have hserial : (serial : Int) = ser := by rw [← h1]; omega
                  refine ⟨sep, p0, p1, p2, dayS, monthS, yearS, dayF, monthF, yearF, day, month, year,
                    hsepv, hv, ?_, hday, hmonth, hyear, by rw [hserial]; exact hser, by omega, by omega⟩
                  unfold dateFields at hfields
                  unfold dateFormat at h2
                  cases hu : isoYear p0
                  · simp only [hu, Bool.false_and, if_false, Bool.false_eq_true] at hfields h2
                    cases hdf : ℓ.dayFirst
                    · right; right
                      simp only [hdf, Bool.false_eq_true, if_false, Prod.mk.injEq, Bool.not_false, if_true] at hfields h2
                      obtain ⟨e1, e2, e3⟩ := hfields
                      exact ⟨rfl, rfl, e1.symm, e2.symm, e3.symm, h2.symm⟩
                    · right; left
                      simp only [hdf, if_true, Prod.mk.injEq, Bool.not_true, Bool.false_eq_true, if_false] at hfields h2
                      obtain ⟨e1, e2, e3⟩ := hfields
                      exact ⟨rfl, rfl, e1.symm, e2.symm, e3.symm, h2.symm⟩
                  · left
                    simp only [hu, if_true, Bool.true_and, Bool.not_eq_true', Bool.not_eq_false,
                      Prod.mk.injEq] at hiso hfields h2
                    have : allDigits p1 = true ∧ allDigits p2 = true := by
                      cases ha : allDigits p1 <;> cases hb : allDigits p2 <;> simp_all
                    obtain ⟨e1, e2, e3⟩ := hfields
                    exact ⟨rfl, e1.symm, e2.symm, e3.symm, this.1, this.2, h2.symm⟩
    · cases h



/-- the decidable domain predicate of the partial soundness theorem: group separators, if any,
    are placed strictly (excludes exactly the defect F19b) -/
def Value.strictGroups : Value → Bool
  | .num n _ _ => groupCheck n.intText
  | .serial _ => true

theorem currencyLoop_some {ℓ : Locale} {value : List Char} : ∀ {curs : List (List Char)} {r},
    currencyLoop ℓ value curs = some r → ∃ cur ∈ curs, currencyStep ℓ value cur = some r := by
  intro curs
  induction curs with
  | nil => intro r h; cases h
  | cons c cs ih =>
    intro r h
    unfold currencyLoop at h
    split at h
    · rename_i r' hr; cases h; exact ⟨c, by simp, hr⟩
    · obtain ⟨cur, hm, hc⟩ := ih h
      exact ⟨cur, by simp [hm], hc⟩

theorem render_head_sign {dec : Char} {n : Num} {c : Char} (h : n.sign = some c) :
    ∃ r, n.render dec = c :: r := by
  rw [render_eq, h]; exact ⟨_, rfl⟩

theorem currencyStep_sound {ℓ : Locale} {curs : List (List Char)} {s cur : List Char} {v : Value} {k : Kind}
    (hcur : cur ∈ curs) (h : currencyStep ℓ (trim s) cur = some (some (v, k)))
    (hstrict : v.strictGroups = true) : IsNumberText ℓ curs s v k := by
  unfold currencyStep at h
  split at h
  · rename_i p hp
    split at h
    · cases h
    · rename_i hnosign
      split at h
      · cases h
      · rename_i n hn
        simp only [Option.some.injEq, Prod.mk.injEq] at h
        obtain ⟨rfl, rfl⟩ := h
        have hlit := parseNumber_sound hn hstrict
        refine IsNumberText.negCurrency hcur hp hlit ?_
        rcases hlit.1.sign with h0 | h0 | h0
        · exact h0
        · obtain ⟨r, hr⟩ := render_head_sign (dec := ℓ.dec) h0
          rw [hlit.2] at hr
          rw [hr] at hnosign; simp [startsWithSign] at hnosign
        · obtain ⟨r, hr⟩ := render_head_sign (dec := ℓ.dec) h0
          rw [hlit.2] at hr
          rw [hr] at hnosign; simp [startsWithSign] at hnosign
  · split at h
    · rename_i p hp
      split at h
      · cases h
      · rename_i n hn
        simp only [Option.some.injEq, Prod.mk.injEq] at h
        obtain ⟨rfl, rfl⟩ := h
        exact IsNumberText.currencyBefore hcur hp (parseNumber_sound hn hstrict)
    · split at h
      · rename_i p hp
        split at h
        · cases h
        · rename_i n hn
          simp only [Option.some.injEq, Prod.mk.injEq] at h
          obtain ⟨rfl, rfl⟩ := h
          exact IsNumberText.currencyAfter hcur hp (parseNumber_sound hn hstrict)
      · cases h

theorem recognise_sound_aux {ℓ : Locale} {curs : List (List Char)} {s : List Char} {v : Value} {k : Kind}
    (h : parseFormattedNumber ℓ curs s = some (v, k)) (hstrict : v.strictGroups = true) :
    IsNumberText ℓ curs s v k := by
  unfold parseFormattedNumber at h
  simp only at h
  split at h
  · rename_i p hp
    split at h
    · cases h
    · rename_i n hn
      simp only [Option.some.injEq, Prod.mk.injEq] at h
      obtain ⟨rfl, rfl⟩ := h
      exact IsNumberText.percent hp (parseNumber_sound hn hstrict)
  · split at h
    · rename_i r hr
      obtain ⟨cur, hcur, hstep⟩ := currencyLoop_some hr
      subst h
      exact currencyStep_sound hcur hstep hstrict
    · split at h
      · rename_i serial fmt hd
        simp only [Option.some.injEq, Prod.mk.injEq] at h
        obtain ⟨rfl, rfl⟩ := h
        exact IsNumberText.date (parseDate_sound hd)
      · split at h
        · cases h
        · rename_i n hn
          simp only [Option.some.injEq, Prod.mk.injEq] at h
          obtain ⟨rfl, rfl⟩ := h
          exact IsNumberText.plain (parseNumber_sound hn hstrict)


/-- a number literal of the specification has strictly placed separators -/
theorem lit_strict {dec grp : Char} (hgd : isDigit grp = false) {t : List Char} {n : Num}
    (h : IsNumberLit dec grp t n) : groupCheck n.intText = true := by
  obtain ⟨d0, g, hint, hd0, hg, _⟩ := h.1.int
  rw [hint]; exact check_of_digits_append hd0 (check_of_groups hgd hg)

theorem isNumberText_strict {ℓ : Locale} (hgd : isDigit ℓ.grp = false) {curs : List (List Char)}
    {s : List Char} {v : Value} {k : Kind} (h : IsNumberText ℓ curs s v k) : v.strictGroups = true := by
  cases h with
  | percent _ hl => exact lit_strict hgd hl
  | negCurrency _ _ hl _ => exact lit_strict hgd hl
  | currencyBefore _ _ hl => exact lit_strict hgd hl
  | currencyAfter _ _ hl => exact lit_strict hgd hl
  | date _ => rfl
  | plain hl => exact lit_strict hgd hl

end IronCalc.Number
