import IronCalc.Text.F4
import IronCalc.Codec.RefsProofs
import IronCalc.Codec.SheetName
/-
  Helper lemmas for F4 cycling (C34).
-/
namespace IronCalc.F4
open IronCalc.Codec

/-! ### characters -/

theorem lower_up : ∀ n, n < 123 → 97 ≤ n → isUpper (Char.ofNat (n - 32)) = true := by decide

theorem isLower_iff (c : Char) : isLower c = true ↔ 97 ≤ c.toNat ∧ c.toNat ≤ 122 := by
  unfold isLower; simp

theorem asciiUpper_of_lower (c : Char) (h : isLower c = true) : isUpper (asciiUpper c) = true := by
  have hb := (isLower_iff c).1 h
  simp only [asciiUpper, h, if_true]
  exact lower_up c.toNat (by omega) hb.1

theorem asciiUpper_idem (c : Char) : asciiUpper (asciiUpper c) = asciiUpper c := by
  by_cases h : isLower c = true
  · have hu := asciiUpper_of_lower c h
    have hl := isUpper_not_lower _ hu
    generalize asciiUpper c = u at hu hl ⊢
    simp [asciiUpper, hl]
  · simp only [Bool.not_eq_true] at h
    simp [asciiUpper, h]

theorem asciiUpper_ne_dollar (c : Char) (h : c ≠ '$') : asciiUpper c ≠ '$' := by
  by_cases hl : isLower c = true
  · exact isUpper_ne_dollar _ (asciiUpper_of_lower c hl)
  · simp only [Bool.not_eq_true] at hl
    simp [asciiUpper, hl, h]

theorem asciiUpper_dollar : asciiUpper '$' = '$' := by decide

theorem isAsciiAlpha_upper (c : Char) (h : isAsciiAlpha c = true) : isAsciiAlpha (asciiUpper c) = true := by
  by_cases hl : isLower c = true
  · exact isUpper_alpha _ (asciiUpper_of_lower c hl)
  · simp only [Bool.not_eq_true] at hl
    simpa [asciiUpper, hl] using h

theorem isAsciiAlpha_ne_dollar (c : Char) (h : isAsciiAlpha c = true) : c ≠ '$' := by
  intro e; subst e; revert h; decide

/-! ### stripDollarUpper -/

theorem sdu_append (a b : List Char) : stripDollarUpper (a ++ b) = stripDollarUpper a ++ stripDollarUpper b := by
  simp [stripDollarUpper]

theorem sdu_cons_dollar (t : List Char) : stripDollarUpper ('$' :: t) = stripDollarUpper t := by
  simp [stripDollarUpper]

theorem sdu_cons_other (c : Char) (t : List Char) (h : c ≠ '$') :
    stripDollarUpper (c :: t) = asciiUpper c :: stripDollarUpper t := by
  simp [stripDollarUpper, h]

theorem sdu_withDollar (f : Bool) (x : List Char) : stripDollarUpper (withDollar f x) = stripDollarUpper x := by
  cases f <;> simp [withDollar, sdu_cons_dollar]

theorem sdu_map_upper (x : List Char) : stripDollarUpper (x.map asciiUpper) = stripDollarUpper x := by
  induction x with
  | nil => rfl
  | cons c t ih =>
    by_cases h : c = '$'
    · subst h
      simp only [List.map_cons, asciiUpper_dollar, sdu_cons_dollar, ih]
    · simp only [List.map_cons]
      rw [sdu_cons_other _ _ (asciiUpper_ne_dollar c h), sdu_cons_other _ _ h, asciiUpper_idem, ih]

/-! ### decomposition of an endpoint -/

theorem withDollar_stripDollar (s : List Char) : withDollar (stripDollar s).1 (stripDollar s).2 = s := by
  cases s with
  | nil => rfl
  | cons c t =>
    by_cases h : c = '$'
    · subst h; simp [stripDollar, withDollar]
    · simp [stripDollar, withDollar, h]

/-- the scanned pieces put together again give the endpoint -/
theorem decompose_spec (part : List Char) :
    withDollar (decompose part).absCol
      ((decompose part).column ++ withDollar (decompose part).absRow ((decompose part).row ++ (decompose part).rest))
      = part := by
  unfold decompose
  simp only
  rw [List.takeWhile_append_dropWhile, withDollar_stripDollar, List.takeWhile_append_dropWhile,
    withDollar_stripDollar]

/-- the canonical text of an endpoint -/
def endpointText (a : Bool) (col : List Char) (b : Bool) (row : List Char) : List Char :=
  withDollar a (col ++ withDollar b row)

theorem head_ne_dollar_of_all {p : Char → Bool} (hp : ∀ c, p c = true → c ≠ '$') (x rest : List Char)
    (hx : x.all p = true) (hne : x ≠ []) : ∀ c t, x ++ rest = c :: t → c ≠ '$' := by
  intro c t h
  cases x with
  | nil => exact absurd rfl hne
  | cons y ys =>
    simp only [List.cons_append, List.cons.injEq] at h
    simp only [List.all_cons, Bool.and_eq_true] at hx
    rw [← h.1]; exact hp y hx.1

theorem stripDollar_wd (a : Bool) (x : List Char) (h : ∀ c t, x = c :: t → c ≠ '$') :
    stripDollar (withDollar a x) = (a, x) := by
  have := stripDollar_withDollar a x [] (by simpa using h)
  simpa using this

/-- scanning the text of a cell endpoint (`[$]letters[$]digits`, both non-empty) -/
theorem decompose_cell (a b : Bool) (col row : List Char)
    (hcol : col.all isAsciiAlpha = true) (hrow : row.all isDigit = true) (hc : col ≠ []) (hr : row ≠ []) :
    decompose (endpointText a col b row) = { absCol := a, column := col, absRow := b, row := row, rest := [] } := by
  unfold decompose endpointText
  have h1 := stripDollar_wd a (col ++ withDollar b row)
    (head_ne_dollar_of_all isAsciiAlpha_ne_dollar col _ hcol hc)
  have hstop : stops isAsciiAlpha (withDollar b row) = true := by
    cases b with
    | true => simp [withDollar, stops]; decide
    | false =>
      cases row with
      | nil => exact absurd rfl hr
      | cons d ds =>
        simp only [List.all_cons, Bool.and_eq_true] at hrow
        simp [withDollar, stops, isDigit_not_alpha d hrow.1]
  have h2 := stripDollar_withDollar b row [] (by
    simpa using head_ne_dollar_of_all isDigit_ne_dollar row [] hrow hr)
  simp only [List.append_nil] at h2
  simp only [h1, takeWhile_app isAsciiAlpha col _ hcol hstop, dropWhile_app isAsciiAlpha col _ hcol hstop, h2]
  have e1 := takeWhile_app isDigit row [] hrow rfl
  have e2 := dropWhile_app isDigit row [] hrow rfl
  simp only [List.append_nil] at e1 e2
  rw [e1, e2]

/-- a column-only endpoint `[$]letters` -/
theorem decompose_col (a : Bool) (col : List Char) (hcol : col.all isAsciiAlpha = true) (hc : col ≠ []) :
    decompose (withDollar a col) = { absCol := a, column := col, absRow := false, row := [], rest := [] } := by
  unfold decompose
  have h1 := stripDollar_withDollar a col [] (by
    simpa using head_ne_dollar_of_all isAsciiAlpha_ne_dollar col [] hcol hc)
  simp only [List.append_nil] at h1
  have e1 := takeWhile_app isAsciiAlpha col [] hcol rfl
  have e2 := dropWhile_app isAsciiAlpha col [] hcol rfl
  simp only [List.append_nil] at e1 e2
  simp only [h1, e1, e2]
  rfl

/-- a row-only endpoint `[$]digits` -/
theorem decompose_row (a : Bool) (row : List Char) (hrow : row.all isDigit = true) (hr : row ≠ []) :
    decompose (withDollar a row) = { absCol := a, column := [], absRow := false, row := row, rest := [] } := by
  unfold decompose
  have hd := head_ne_dollar_of_all isDigit_ne_dollar row [] hrow hr
  have h1 := stripDollar_withDollar a row [] (by simpa using hd)
  simp only [List.append_nil] at h1
  cases row with
  | nil => exact absurd rfl hr
  | cons d ds =>
    have hdd : isDigit d = true := by simp only [List.all_cons, Bool.and_eq_true] at hrow; exact hrow.1
    have hna : isAsciiAlpha d = false := isDigit_not_alpha d hdd
    have hnd : d ≠ '$' := isDigit_ne_dollar d hdd
    have e1 := takeWhile_app isDigit (d :: ds) [] hrow rfl
    have e2 := dropWhile_app isDigit (d :: ds) [] hrow rfl
    simp only [List.append_nil] at e1 e2
    simp only [h1, List.takeWhile_cons, List.dropWhile_cons, hna]
    simp only [Bool.false_eq_true, if_false]
    rw [stripDollar_other d ds hnd]
    simp only
    rw [e1, e2]

theorem all_map_upper (col : List Char) (h : col.all isAsciiAlpha = true) :
    (col.map asciiUpper).all isAsciiAlpha = true := by
  induction col with
  | nil => rfl
  | cons c t ih =>
    simp only [List.all_cons, Bool.and_eq_true] at h
    simp only [List.map_cons, List.all_cons, Bool.and_eq_true]
    exact ⟨isAsciiAlpha_upper c h.1, ih h.2⟩

theorem map_upper_idem (col : List Char) : (col.map asciiUpper).map asciiUpper = col.map asciiUpper := by
  induction col with
  | nil => rfl
  | cons c t ih => simp only [List.map_cons, asciiUpper_idem, ih]

theorem isEmpty_false_of_ne {x : List Char} (h : x ≠ []) : x.isEmpty = false := by
  cases x <;> simp_all

/-- one press on a cell endpoint: the `$` flags advance in the cycle, letters are upper-cased -/
theorem cycleEndpoint_cell (a b : Bool) (col row : List Char)
    (hcol : col.all isAsciiAlpha = true) (hrow : row.all isDigit = true) (hc : col ≠ []) (hr : row ≠ []) :
    cycleEndpoint (endpointText a col b row) =
      endpointText (nextState (a, b)).1 (col.map asciiUpper) (nextState (a, b)).2 row := by
  unfold cycleEndpoint
  rw [decompose_cell a b col row hcol hrow hc hr]
  simp [newFlags, isEmpty_false_of_ne hc, isEmpty_false_of_ne hr, endpointText]

theorem cycleEndpoint_col (a : Bool) (col : List Char) (hcol : col.all isAsciiAlpha = true) (hc : col ≠ []) :
    cycleEndpoint (withDollar a col) = withDollar (!a) (col.map asciiUpper) := by
  unfold cycleEndpoint
  rw [decompose_col a col hcol hc]
  simp [newFlags, isEmpty_false_of_ne hc, withDollar]

theorem cycleEndpoint_row (a : Bool) (row : List Char) (hrow : row.all isDigit = true) (hr : row ≠ []) :
    cycleEndpoint (withDollar a row) = withDollar (!a) row := by
  unfold cycleEndpoint
  rw [decompose_row a row hrow hr]
  simp [newFlags, isEmpty_false_of_ne hr, withDollar]

/-! ### `:`-separated endpoints -/

theorem splitOnColon_ne_nil (s acc : List Char) : splitOnColon s acc ≠ [] := by
  induction s generalizing acc with
  | nil => simp [splitOnColon]
  | cons c t ih =>
    unfold splitOnColon
    by_cases h : c = ':'
    · simp [h]
    · simp only [h, if_false]; exact ih _

theorem joinColon_cons (p : List Char) (l : List (List Char)) (h : l ≠ []) :
    joinColon (p :: l) = p ++ ':' :: joinColon l := by
  cases l with
  | nil => exact absurd rfl h
  | cons q ps => rfl

theorem sdu_joinColon_map (l : List (List Char)) (f : List Char → List Char)
    (hf : ∀ p, stripDollarUpper (f p) = stripDollarUpper p) :
    stripDollarUpper (joinColon (l.map f)) = stripDollarUpper (joinColon l) := by
  induction l with
  | nil => rfl
  | cons p ps ih =>
    cases ps with
    | nil => simpa [joinColon] using hf p
    | cons q qs =>
      have h1 : (q :: qs).map f ≠ [] := by simp
      rw [List.map_cons, joinColon_cons _ _ h1, joinColon_cons p (q :: qs) (by simp)]
      rw [sdu_append, sdu_append, hf p]
      congr 1
      rw [sdu_cons_other _ _ (by decide), sdu_cons_other _ _ (by decide), ih]

theorem joinColon_split (s acc : List Char) : joinColon (splitOnColon s acc) = acc.reverse ++ s := by
  induction s generalizing acc with
  | nil => simp [splitOnColon, joinColon]
  | cons c t ih =>
    unfold splitOnColon
    by_cases h : c = ':'
    · subst h
      simp only [if_true]
      rw [joinColon_cons _ _ (splitOnColon_ne_nil t []), ih []]
      simp
    · simp only [h, if_false]
      rw [ih (c :: acc)]
      simp

/-! ### the sheet prefix -/

theorem scanQuotedPrefix_spec (s : List Char) : (scanQuotedPrefix s).1 ++ (scanQuotedPrefix s).2 = s := by
  fun_induction scanQuotedPrefix s <;> simp_all <;> assumption

theorem dropWhile_bang (l : List Char) (h : '!' ∈ l) :
    ∃ rest, l.dropWhile (fun x => decide (x ≠ '!')) = '!' :: rest := by
  induction l with
  | nil => simp at h
  | cons c u ih =>
    by_cases hc : c = '!'
    · subst hc; exact ⟨u, by simp⟩
    · have hu : '!' ∈ u := by
        simp only [List.mem_cons] at h
        rcases h with h | h
        · exact absurd h.symm hc
        · exact h
      obtain ⟨rest, hr⟩ := ih hu
      exact ⟨rest, by simpa [List.dropWhile_cons, hc] using hr⟩

theorem takeBang_spec (s : List Char) : (takeBang s).1 ++ (takeBang s).2 = s := by
  cases s with
  | nil => rfl
  | cons c t =>
    by_cases h : c = '!'
    · subst h; simp [takeBang]
    · simp [takeBang, h]

/-- the prefix and the endpoints together are the token text -/
theorem splitPrefix_spec (t : List Char) : (splitPrefix t).1 ++ (splitPrefix t).2 = t := by
  cases t with
  | nil => rfl
  | cons c u =>
    unfold splitPrefix
    by_cases hq : c = '\''
    · subst hq
      simp only [if_true, List.cons_append, List.append_assoc]
      rw [takeBang_spec, scanQuotedPrefix_spec]
    · simp only [hq, if_false]
      by_cases hb : (c :: u).contains '!' = true
      · simp only [hb, if_true, List.append_assoc]
        have hsplit := List.takeWhile_append_dropWhile (p := fun x => decide (x ≠ '!')) (l := c :: u)
        have hmem : '!' ∈ (c :: u) := by simpa [List.contains_iff_mem] using hb
        obtain ⟨rest, hd⟩ := dropWhile_bang (c :: u) hmem
        rw [hd] at hsplit ⊢
        simpa using hsplit
      · simp only [hb, Bool.false_eq_true, if_false, List.nil_append]

end IronCalc.F4
