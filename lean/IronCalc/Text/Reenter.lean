import IronCalc.Text.Number
/-
  Model for C18 (re-entering a cell's displayed content reproduces the cell).
    * `classify`  models `Model::set_user_input` (base/src/model.rs): empty / `'` prefix / formula
      prefix (`formula_without_prefix`) / `parse_formatted_number` / English-only boolean parse /
      localized error name / string;
    * `display`   models `Model::get_localized_cell_content` + `Cell::get_localized_text`
      (base/src/model.rs, base/src/cell.rs) for non-formula cells;
    * `needsQuote` models `utils::value_needs_quoting` (used by `Model::update_cell_with_text`).
  Numbers: the recogniser's exact value (`Number.Value`); how a stored double is *shown* (15
  significant digits, shortest form, `ryu` layout) is `printShown` over an exact decimal
  `Shown` (sign, significant digits, exponent) — the double → 15 digits step is outside the model
  (the driver computes it exactly from the bit pattern for the correspondence run).
  No Mathlib.
-/
namespace IronCalc.Reenter
open IronCalc.Number

/-- what the classification needs from a `Language` (extracted into `Generated/C18Languages.lean`) -/
structure Lang where
  trueName : List Char
  falseName : List Char
  /-- error names in the order `get_error_by_name` tests them:
      ref name value div na num error nimpl spill calc circ null -/
  errors : List (List Char)
deriving Repr, DecidableEq

/-- models `str::to_lowercase` on the characters that can matter for `"true"`/`"false"` (ASCII;
    no other character lower-cases to an ASCII letter of these words) -/
def lowerStr (s : List Char) : List Char := s.map lower

/-- models `char::to_uppercase` for ASCII, Latin-1, and the characters whose upper case is ASCII
    (`ſ`→`S`, `ı`→`I`) or multi-character in Latin-1 (`ß`→`SS`); other characters are left alone
    (assumption, stated in props/C18.json: the generators stay inside this range) -/
def upperChar (c : Char) : List Char :=
  let n := c.toNat
  if 'a' ≤ c && c ≤ 'z' then [Char.ofNat (n - 32)]
  else if n == 0xDF then ['S', 'S']
  else if (0xE0 ≤ n && n ≤ 0xFE && n != 0xF7) then [Char.ofNat (n - 32)]
  else if n == 0xFF then [Char.ofNat 0x178]
  else if n == 0xB5 then [Char.ofNat 0x39C]
  else if n == 0x17F then ['S']
  else if n == 0x131 then ['I']
  else [c]

/-- models `str::to_uppercase` -/
def upperStr (s : List Char) : List Char := s.flatMap upperChar

/-- models `get_error_by_name(name, language)`: the first error whose localized name is `name` -/
def errorIndex (lang : Lang) (name : List Char) : Option Nat :=
  let i := lang.errors.findIdx (· == name)
  if i < lang.errors.length then some i else none

/-- models `value.to_lowercase().parse::<bool>()` -/
def parseBoolEnglish (value : List Char) : Option Bool :=
  let l := lowerStr value
  if l == "true".toList then some true else if l == "false".toList then some false else none

/-- what `set_user_input` makes of a text -/
inductive Input where
  | empty
  /-- `'text`: a string with the quote-prefix style -/
  | quoted (text : List Char)
  /-- handed to the formula parser (not modelled further here; see C09) -/
  | formula (text : List Char)
  | number (v : Value) (k : Kind)
  | boolean (b : Bool)
  | error (i : Nat)
  | text (s : List Char)
deriving Repr, DecidableEq

/-- models `Model::set_user_input` (the decision tree; styles: `quoted` sets the quote prefix, all
    other branches clear it, `number` applies the kind's format unless both old and new are dates) -/
def classify (ℓ : Locale) (lang : Lang) (value : List Char) : Input :=
  match value with
  | [] => .empty
  | '\'' :: r => .quoted r
  | _ =>
    if isFormulaInput ℓ value then
      .formula (match value with | '=' :: r => r | _ => value)
    else
      match parseFormattedNumber ℓ (currencies ℓ) value with
      | some (v, k) => .number v k
      | none =>
        match parseBoolEnglish value with
        | some b => .boolean b
        | none =>
          match errorIndex lang (upperStr value) with
          | some i => .error i
          | none => .text value

/-- models `utils::value_needs_quoting` -/
def needsQuote (lang : Lang) (value : List Char) : Bool :=
  (match value with | c :: _ => c == '=' || c == '+' || c == '-' | [] => false)
  || rustFloatOk value
  || (parseBoolEnglish value).isSome
  || (errorIndex lang (upperStr value)).isSome

/-! ### how a number is shown -/

/-- the 15-significant-digit decimal the engine shows for a stored double: `(−1)^neg · digits · 10^k`,
    `digits` without leading or trailing zeros (`["0"]`, `k = 0` for zero) -/
structure Shown where
  neg : Bool
  digits : List Char
  k : Int
deriving Repr, DecidableEq

def showNat (n : Nat) : List Char := Nat.toDigits 10 n
def showInt (i : Int) : List Char := if i < 0 then '-' :: showNat (-i).toNat else showNat i.toNat

/-- models `ryu::Buffer::format` on the shortest digits, then `strip_suffix(".0")`
    (`to_precision_str`), then the locale's decimal separator (`Cell::get_localized_text`) -/
def printShown (dec : Char) (d : Shown) : List Char :=
  let n : Int := d.digits.length
  let kk : Int := n + d.k
  let mag : List Char :=
    if 0 ≤ d.k && kk ≤ 16 then d.digits ++ List.replicate d.k.toNat '0'
    else if 0 < kk && kk ≤ 16 then d.digits.take kk.toNat ++ dec :: d.digits.drop kk.toNat
    else if -5 < kk && kk ≤ 0 then '0' :: dec :: (List.replicate (-kk).toNat '0' ++ d.digits)
    else if d.digits.length == 1 then d.digits ++ 'e' :: showInt (kk - 1)
    else d.digits.take 1 ++ dec :: (d.digits.drop 1 ++ 'e' :: showInt (kk - 1))
  if d.neg then '-' :: mag else mag

/-- the content of a non-formula cell, as far as `get_localized_cell_content` looks at it -/
inductive CellC where
  | empty
  | text (s : List Char) (quotePrefix : Bool)
  /-- a number cell whose style is not a date format; `shown` = the 15-digit decimal of its double -/
  | number (shown : Shown)
  | boolean (b : Bool)
  | error (i : Nat)
deriving Repr, DecidableEq

/-- models `get_localized_cell_content` for non-formula, non-date-formatted cells -/
def display (ℓ : Locale) (lang : Lang) : CellC → List Char
  | .empty => []
  | .text s false => s
  | .text s true => '\'' :: s
  | .number d => printShown ℓ.dec d
  | .boolean true => lang.trueName
  | .boolean false => lang.falseName
  | .error i => lang.errors.getD i []

/-- the cell a (non-number, non-formula) input produces in a fresh cell -/
def cellOf : Input → Option CellC
  | .empty => some .empty
  | .quoted t => some (.text t true)
  | .text s => some (.text s false)
  | .boolean b => some (.boolean b)
  | .error i => some (.error i)
  | .formula _ => none
  | .number _ _ => none

end IronCalc.Reenter
