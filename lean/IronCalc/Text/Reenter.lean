import IronCalc.Text.Number
/-
  Model for C18 (re-entering a cell's displayed content reproduces the cell).
    * `classify`  models `Model::set_user_input` (base/src/model.rs): empty / `'` prefix / formula
      prefix (`formula_without_prefix`) / `parse_formatted_number` / English-only boolean parse /
      localized error name / string;
    * `display`   models `Model::get_localized_cell_content` + `Cell::get_localized_text`
      (base/src/model.rs, base/src/cell.rs) for non-formula cells;
    * `needsQuote` models `utils::value_needs_quoting` (used by `Model::update_cell_with_text`).
  Numbers: the recogniser's exact value (`Number.Value`); how a stored double is *shown* (15
  significant digits, shortest form, `ryu` layout) is `printShown` over an exact decimal
  `Shown` (sign, significant digits, exponent) — the double → 15 digits step is outside the model
  (the driver computes it exactly from the bit pattern for the correspondence run).
  No Mathlib.
-/
namespace IronCalc.Reenter
open IronCalc.Number

/-- what the classification needs from a `Language` (extracted into `Generated/C18Languages.lean`) -/
structure Lang where
  trueName : List Char
  falseName : List Char
  /-- error names in the order `get_error_by_name` tests them:
      ref name value div na num error nimpl spill calc circ null -/
  errors : List (List Char)
deriving Repr, DecidableEq

/-- models `str::to_lowercase` on the characters that can matter for `"true"`/`"false"` (ASCII;
    no other character lower-cases to an ASCII letter of these words) -/
def lowerStr (s : List Char) : List Char := s.map lower

/-- models `char::to_uppercase` for ASCII, Latin-1, and the characters whose upper case is ASCII
    (`ſ`→`S`, `ı`→`I`) or multi-character in Latin-1 (`ß`→`SS`); other characters are left alone
    (assumption, stated in props/C18.json: the generators stay inside this range) -/
def upperChar (c : Char) : List Char :=
  let n := c.toNat
  if 'a' ≤ c && c ≤ 'z' then [Char.ofNat (n - 32)]
  else if n == 0xDF then ['S', 'S']
  else if (0xE0 ≤ n && n ≤ 0xFE && n != 0xF7) then [Char.ofNat (n - 32)]
  else if n == 0xFF then [Char.ofNat 0x178]
  else if n == 0xB5 then [Char.ofNat 0x39C]
  else if n == 0x17F then ['S']
  else if n == 0x131 then ['I']
  else [c]

/-- models `str::to_uppercase` -/
def upperStr (s : List Char) : List Char := s.flatMap upperChar

/-- models `get_error_by_name(name, language)`: the first error whose localized name is `name` -/
def errorIndex (lang : Lang) (name : List Char) : Option Nat :=
  let i := lang.errors.findIdx (· == name)
  if i < lang.errors.length then some i else none

/-- models `value.to_lowercase().parse::<bool>()` -/
def parseBoolEnglish (value : List Char) : Option Bool :=
  let l := lowerStr value
  if l == "true".toList then some true else if l == "false".toList then some false else none

/-- what `set_user_input` makes of a text -/
inductive Input where
  | empty
  /-- `'text`: a string with the quote-prefix style -/
  | quoted (text : List Char)
  /-- handed to the formula parser (not modelled further here; see C09) -/
  | formula (text : List Char)
  | number (v : Value) (k : Kind)
  | boolean (b : Bool)
  | error (i : Nat)
  | text (s : List Char)
deriving Repr, DecidableEq

/-- models `Model::set_user_input` (the decision tree; styles: `quoted` sets the quote prefix, all
    other branches clear it, `number` applies the kind's format unless both old and new are dates) -/
def classify (ℓ : Locale) (lang : Lang) (value : List Char) : Input :=
  match value with
  | [] => .empty
  | '\'' :: r => .quoted r
  | _ =>
    if isFormulaInput ℓ value then
      .formula (match value with | '=' :: r => r | _ => value)
    else
      match parseFormattedNumber ℓ (currencies ℓ) value with
      | some (v, k) => .number v k
      | none =>
        match parseBoolEnglish value with
        | some b => .boolean b
        | none =>
          match errorIndex lang (upperStr value) with
          | some i => .error i
          | none => .text value

/-- models `utils::value_needs_quoting` -/
def needsQuote (lang : Lang) (value : List Char) : Bool :=
  (match value with | c :: _ => c == '=' || c == '+' || c == '-' | [] => false)
  || rustFloatOk value
  || (parseBoolEnglish value).isSome
  || (errorIndex lang (upperStr value)).isSome

/-! ### how a number is shown -/

/-- the 15-significant-digit decimal the engine shows for a stored double: `(−1)^neg · digits · 10^k`,
    `digits` without leading or trailing zeros (`["0"]`, `k = 0` for zero) -/
structure Shown where
  neg : Bool
  digits : List Char
  k : Int
deriving Repr, DecidableEq

def showNat (n : Nat) : List Char := Nat.toDigits 10 n
def showInt (i : Int) : List Char := if i < 0 then '-' :: showNat (-i).toNat else showNat i.toNat

/-- models `ryu::Buffer::format` on the shortest digits, then `strip_suffix(".0")`
    (`to_precision_str`), then the locale's decimal separator (`Cell::get_localized_text`) -/
def printShown (dec : Char) (d : Shown) : List Char :=
  let n : Int := d.digits.length
  let kk : Int := n + d.k
  let mag : List Char :=
    if 0 ≤ d.k && kk ≤ 16 then d.digits ++ List.replicate d.k.toNat '0'
    else if 0 < kk && kk ≤ 16 then d.digits.take kk.toNat ++ dec :: d.digits.drop kk.toNat
    else if -5 < kk && kk ≤ 0 then '0' :: dec :: (List.replicate (-kk).toNat '0' ++ d.digits)
    else if d.digits.length == 1 then d.digits ++ 'e' :: showInt (kk - 1)
    else d.digits.take 1 ++ dec :: (d.digits.drop 1 ++ 'e' :: showInt (kk - 1))
  if d.neg then '-' :: mag else mag

/-- the content of a non-formula cell, as far as `get_localized_cell_content` looks at it -/
inductive CellC where
  | empty
  | text (s : List Char) (quotePrefix : Bool)
  /-- a number cell whose style is not a date format; `shown` = the 15-digit decimal of its double -/
  | number (shown : Shown)
  | boolean (b : Bool)
  | error (i : Nat)
deriving Repr, DecidableEq

/-- models `get_localized_cell_content` for non-formula, non-date-formatted cells -/
def display (ℓ : Locale) (lang : Lang) : CellC → List Char
  | .empty => []
  | .text s false => s
  | .text s true => '\'' :: s
  | .number d => printShown ℓ.dec d
  | .boolean true => lang.trueName
  | .boolean false => lang.falseName
  | .error i => lang.errors.getD i []

/-- the cell a (non-number, non-formula) input produces in a fresh cell -/
def cellOf : Input → Option CellC
  | .empty => some .empty
  | .quoted t => some (.text t true)
  | .text s => some (.text s false)
  | .boolean b => some (.boolean b)
  | .error i => some (.error i)
  | .formula _ => none
  | .number _ _ => none

/-! ### the cell's prior state: the style flags `set_user_input` reads and writes

  `set_user_input` does not start from nothing: the cell already has a style (index) whose
  `quote_prefix` flag and `num_fmt` decide what the editor shows afterwards.  The model below makes
  that state explicit, so that the re-entry statements quantify over ALL prior states. -/

/-- the part of a cell style that `set_user_input` / `get_localized_cell_content` look at -/
structure Style where
  quote : Bool
  /-- `num_fmt`; `none` = `"general"` -/
  fmt : Option (List Char)
deriving Repr, DecidableEq

/-- models `is_likely_date_number_format` on the formats used here: a day, month or year letter
    outside `"…"`, `[…]` and `\x` (assumption checked by the correspondence run on every format the
    generators use) -/
def isLikelyDateAux : List Char → Bool → Bool → Bool
  | [], _, _ => false
  | c :: cs, inQuote, inBracket =>
    if inQuote then isLikelyDateAux cs (c != '"') false
    else if inBracket then isLikelyDateAux cs false (c != ']')
    else if c == '"' then isLikelyDateAux cs true false
    else if c == '[' then isLikelyDateAux cs false true
    else if c == '\\' then isLikelyDateAux cs.tail false false
    else if c == 'd' || c == 'D' || c == 'm' || c == 'M' || c == 'y' || c == 'Y' then true
    else isLikelyDateAux cs false false
termination_by cs => cs.length
decreasing_by all_goals (simp_wf; try omega) <;> (cases cs <;> simp <;> omega)

def isLikelyDate : Option (List Char) → Bool
  | none => false
  | some f => isLikelyDateAux f false false

/-- what a non-formula cell holds -/
inductive Content where
  | empty
  | str (s : List Char)
  | num (shown : Shown)
  | bool (b : Bool)
  | err (i : Nat)
  | formula
deriving Repr, DecidableEq

/-- the style a recognised number leaves: quote prefix cleared; the format its text implies is
    applied unless both the old and the new format are date formats (`should_apply_format`) -/
def numStyle (st : Style) : Option (List Char) → Style
  | none => { st with quote := false }
  | some f =>
    if isLikelyDate st.fmt && isLikelyDate (some f) then { st with quote := false }
    else { quote := false, fmt := some f }

/-- models the style `set_user_input` leaves on the cell:
    * empty input: the contents are cleared and the style is kept, without its quote prefix
      (after fix F18h; the pinned code kept the quote prefix on the emptied cell);
    * `'text`: `get_style_with_quote_prefix`;
    * everything else: the quote prefix is cleared; a recognised number applies the format its
      text implies unless both the old and the new format are date formats.
    (The format a formula may receive from its units is not modelled.) -/
def styleAfter (st : Style) : Input → Style
  | .empty => { st with quote := false }
  | .quoted _ => { st with quote := true }
  | .number _ k => numStyle st k.format
  | _ => { st with quote := false }

/-- the stored content; `shownOf` = the 15-digit decimal of the double a recognised value is
    stored as (outside the model; the driver computes it exactly) -/
def contentAfter (shownOf : Value → Shown) : Input → Content
  | .empty => .empty
  | .quoted t => .str t
  | .text s => .str s
  | .boolean b => .bool b
  | .error i => .err i
  | .number v _ => .num (shownOf v)
  | .formula _ => .formula

/-- models `Model::set_user_input` on a cell whose style is `st` -/
def applyInput (ℓ : Locale) (lang : Lang) (shownOf : Value → Shown) (st : Style) (x : List Char) :
    Content × Style :=
  (contentAfter shownOf (classify ℓ lang x), styleAfter st (classify ℓ lang x))

/-- models `Cell::get_localized_text` -/
def contentText (ℓ : Locale) (lang : Lang) : Content → List Char
  | .empty => []
  | .str s => s
  | .num d => printShown ℓ.dec d
  | .bool true => lang.trueName
  | .bool false => lang.falseName
  | .err i => lang.errors.getD i []
  | .formula => []

/-- models `Model::get_localized_cell_content` for a cell that exists: `none` = outside the model
    (a formula, or a number under a date format, which goes through the formatter) -/
def displayS (ℓ : Locale) (lang : Lang) (c : Content) (st : Style) : Option (List Char) :=
  match c with
  | .formula => none
  | _ =>
    if st.quote then some ('\'' :: contentText ℓ lang c)
    else
      match c with
      | .num _ => if isLikelyDate st.fmt then none else some (contentText ℓ lang c)
      | _ => some (contentText ℓ lang c)

end IronCalc.Reenter
