/-
  Model of base/src/formatter/dates.rs (`from_excel_date`, `date_to_serial_number`) and of
  the proleptic Gregorian calendar arithmetic they delegate to (`chrono::NaiveDate`).
  Integer (Nat) arithmetic only; no Mathlib.

  `z` = days since 0000-03-01 (proleptic Gregorian).  chrono's `num_days_from_ce` = z - 305
  (0001-01-01 is day 1), and serial s ↔ num_days_from_ce = s + EXCEL_DATE_BASE (693 594).
-/
namespace IronCalc.Dates

/-- models constants.rs: EXCEL_DATE_BASE, MINIMUM/MAXIMUM_DATE_SERIAL_NUMBER -/
def excelDateBase : Nat := 693594
def minSerial : Nat := 1
def maxSerial : Nat := 2958465
/-- offset from serial to days-since-0000-03-01 -/
def zOfSerialOffset : Nat := excelDateBase + 305

structure YMD where
  y : Nat
  m : Nat
  d : Nat
deriving DecidableEq, Repr

/-- within one 400-year era: day-of-era → (year-of-era counted from March, month, day) -/
def civilInEra (doe : Nat) : YMD :=
  let yoe := (doe - doe / 1460 + doe / 36524 - doe / 146096) / 365
  let doy := doe - (365 * yoe + yoe / 4 - yoe / 100)
  let mp := (5 * doy + 2) / 153
  let d := doy - (153 * mp + 2) / 5 + 1
  let m := if mp < 10 then mp + 3 else mp - 9
  ⟨yoe, m, d⟩

/-- inverse within the era: (march-based year-of-era, month, day) → day-of-era -/
def doeOf (yoe m d : Nat) : Nat :=
  let mp := (m + 9) % 12
  let doy := (153 * mp + 2) / 5 + d - 1
  yoe * 365 + yoe / 4 - yoe / 100 + doy

/-- days since 0000-03-01 → civil date -/
def civilOfDays (z : Nat) : YMD :=
  let era := z / 146097
  let c := civilInEra (z % 146097)
  ⟨era * 400 + c.y + (if c.m ≤ 2 then 1 else 0), c.m, c.d⟩

def isLeap (y : Nat) : Bool := (y % 4 == 0 && y % 100 != 0) || y % 400 == 0

def daysInMonth (y m : Nat) : Nat :=
  if m == 2 then (if isLeap y then 29 else 28)
  else if m == 4 || m == 6 || m == 9 || m == 11 then 30 else 31

/-- a valid civil date with year ≥ 1 (chrono `from_ymd_opt` succeeds; years ≤ 0 are outside the
    supported serial range anyway) -/
def valid (t : YMD) : Bool :=
  1 ≤ t.y && 1 ≤ t.m && t.m ≤ 12 && 1 ≤ t.d && t.d ≤ daysInMonth t.y t.m

/-- civil date → days since 0000-03-01 (requires y ≥ 1) -/
def daysOfCivil (t : YMD) : Nat :=
  let y' := if t.m ≤ 2 then t.y - 1 else t.y
  (y' / 400) * 146097 + doeOf (y' % 400) t.m t.d

/-- models `from_excel_date`: `None` outside `1 ..= 2958465` -/
def fromSerial (s : Nat) : Option YMD :=
  if s < minSerial then none
  else if s > maxSerial then none
  else some (civilOfDays (s + zOfSerialOffset))

/-- models `date_to_serial_number` (no range check there: any valid chrono date converts;
    the model covers years ≥ 1, result may be negative in Rust for early years: returned as Int) -/
def toSerial (t : YMD) : Option Int :=
  if valid t then some ((daysOfCivil t : Int) - (zOfSerialOffset : Int)) else none

/-- weekday, 0 = Monday … 6 = Sunday (chrono `weekday().num_days_from_monday()`).
    0000-03-01 is a Wednesday (2). -/
def weekdayFromMonday (s : Nat) : Nat := (s + zOfSerialOffset + 2) % 7

def pad (w n : Nat) : String :=
  let s := toString n
  String.ofList (List.replicate (w - s.length) '0') ++ s

/-- the ISO layout `yyyy-mm-dd` -/
def iso (t : YMD) : String := pad 4 t.y ++ "-" ++ pad 2 t.m ++ "-" ++ pad 2 t.d

end IronCalc.Dates

/-! ### Date tokens of the number-format language (formatter/format.rs, `ParsePart::Date`)

Digits are kept as lists of decimal digits so the layouts can be read back in proofs. -/
namespace IronCalc.Dates

/-- unpadded decimal digits, most significant first (`format!("{n}")`) -/
def digitsAux : Nat → Nat → List Nat → List Nat
  | 0, _, acc => acc
  | fuel + 1, n, acc => if n < 10 then n :: acc else digitsAux fuel (n / 10) (n % 10 :: acc)
def digits (n : Nat) : List Nat := digitsAux (n + 1) n []

/-- two digits, zero padded (`{:02}` of a value below 100; chrono `%y`) -/
def digits2 (n : Nat) : List Nat := [n / 10 % 10, n % 10]
/-- `{:02}` for any value: pads to at least two -/
def padded2 (n : Nat) : List Nat := if n < 10 then [0, n] else digits n

def digitChar (d : Nat) : Char := Char.ofNat (48 + d)
def showDigits (ds : List Nat) : String := String.ofList (ds.map digitChar)

/-- the tokens `d dd m mm yy yyyy` -/
def tokD (t : YMD) : List Nat := digits t.d
def tokDD (t : YMD) : List Nat := padded2 t.d
def tokM (t : YMD) : List Nat := digits t.m
def tokMM (t : YMD) : List Nat := padded2 t.m
def tokYY (t : YMD) : List Nat := digits2 (t.y % 100)
def tokYYYY (t : YMD) : List Nat := digits t.y

/-- en locale tables (locale/locales.json "en": dates.day_names, months) -/
def dayNamesEn : List String := ["Sunday", "Monday", "Tuesday", "Wednesday", "Thursday", "Friday", "Saturday"]
def dayNamesShortEn : List String := ["Sun", "Mon", "Tue", "Wed", "Thu", "Fri", "Sat"]
def monthsEn : List String := ["January", "February", "March", "April", "May", "June", "July", "August",
  "September", "October", "November", "December"]
def monthsShortEn : List String := ["Jan", "Feb", "Mar", "Apr", "May", "Jun", "Jul", "Aug", "Sep", "Oct", "Nov", "Dec"]
def monthsLetterEn : List String := ["J", "F", "M", "A", "M", "J", "J", "A", "S", "O", "N", "D"]

/-- index into the locale's day names: 0 = Sunday (number_from_monday, 7 ↦ 0) -/
def dayIndexFromSunday (s : Nat) : Nat := (weekdayFromMonday s + 1) % 7

/-- read a two-digit field back -/
def read2 : List Nat → Nat
  | [a, b] => a * 10 + b
  | _ => 0
/-- read a four-digit field back -/
def read4 : List Nat → Nat
  | [a, b, c, d] => a * 1000 + b * 100 + c * 10 + d
  | _ => 0

/-- the layout `dd/mm/yyyy` as its three digit fields -/
def layoutDMY (t : YMD) : List Nat × List Nat × List Nat := (tokDD t, tokMM t, tokYYYY t)
def readDMY (f : List Nat × List Nat × List Nat) : YMD := ⟨read4 f.2.2, read2 f.2.1, read2 f.1⟩

end IronCalc.Dates
