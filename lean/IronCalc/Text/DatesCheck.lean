import IronCalc.Text.Dates
import IronCalc.Basic.Range
/-
  Boolean per-entry checks for the two complete era tables (146 097 days of one 400-year
  Gregorian period; 400 × 12 × 31 candidate dates).  The tables are decided by kernel
  evaluation in the 2 × 16 chunk modules `DatesTable/A*.lean`, `B*.lean`.
-/
namespace IronCalc.Dates

/-- per-day check: `civilInEra` lands on a valid (march-based) date and `doeOf` inverts it -/
def checkA (doe : Nat) : Bool :=
  doe ≥ 146097 ||
  (let c := civilInEra doe
   let carry := if c.m ≤ 2 then 1 else 0
   c.y < 400 && doeOf c.y c.m c.d == doe && 1 ≤ c.m && c.m ≤ 12 && 1 ≤ c.d
     && c.d ≤ daysInMonth (c.y + carry) c.m)

/-- per-candidate-date check, index `i = k*372 + (m-1)*31 + (d-1)`, `k` = civil year mod 400 -/
def checkB (i : Nat) : Bool :=
  let k := i / 372
  let m := i % 372 / 31 + 1
  let d := i % 31 + 1
  k ≥ 400 || d > daysInMonth k m ||
  (let y' := if m ≤ 2 then (k + 399) % 400 else k
   doeOf y' m d < 146097 && civilInEra (doeOf y' m d) == ⟨y', m, d⟩)

def chunkA : Nat := 9132
def chunkB : Nat := 9300

end IronCalc.Dates
