import IronCalc.Text.DatesCheck
namespace IronCalc.Dates
theorem tableA_10 : allRange (10 * 9132) 9132 checkA = true := by decide +kernel
end IronCalc.Dates
