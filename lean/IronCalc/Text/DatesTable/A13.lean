import IronCalc.Text.DatesCheck
namespace IronCalc.Dates
theorem tableA_13 : allRange (13 * 9132) 9132 checkA = true := by decide +kernel
end IronCalc.Dates
