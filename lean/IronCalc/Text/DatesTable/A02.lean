import IronCalc.Text.DatesCheck
namespace IronCalc.Dates
theorem tableA_02 : allRange (2 * 9132) 9132 checkA = true := by decide +kernel
end IronCalc.Dates
