import IronCalc.Text.DatesCheck
namespace IronCalc.Dates
theorem tableB_03 : allRange (3 * 9300) 9300 checkB = true := by decide +kernel
end IronCalc.Dates
