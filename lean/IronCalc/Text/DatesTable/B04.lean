import IronCalc.Text.DatesCheck
namespace IronCalc.Dates
theorem tableB_04 : allRange (4 * 9300) 9300 checkB = true := by decide +kernel
end IronCalc.Dates
