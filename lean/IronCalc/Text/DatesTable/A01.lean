import IronCalc.Text.DatesCheck
namespace IronCalc.Dates
theorem tableA_01 : allRange (1 * 9132) 9132 checkA = true := by decide +kernel
end IronCalc.Dates
