import IronCalc.Text.DatesCheck
namespace IronCalc.Dates
theorem tableB_05 : allRange (5 * 9300) 9300 checkB = true := by decide +kernel
end IronCalc.Dates
