import IronCalc.Text.DatesCheck
namespace IronCalc.Dates
theorem tableA_06 : allRange (6 * 9132) 9132 checkA = true := by decide +kernel
end IronCalc.Dates
