import IronCalc.Text.DatesCheck
namespace IronCalc.Dates
theorem tableA_04 : allRange (4 * 9132) 9132 checkA = true := by decide +kernel
end IronCalc.Dates
