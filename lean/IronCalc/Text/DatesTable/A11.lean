import IronCalc.Text.DatesCheck
namespace IronCalc.Dates
theorem tableA_11 : allRange (11 * 9132) 9132 checkA = true := by decide +kernel
end IronCalc.Dates
