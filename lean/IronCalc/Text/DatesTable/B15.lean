import IronCalc.Text.DatesCheck
namespace IronCalc.Dates
theorem tableB_15 : allRange (15 * 9300) 9300 checkB = true := by decide +kernel
end IronCalc.Dates
