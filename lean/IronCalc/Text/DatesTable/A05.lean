import IronCalc.Text.DatesCheck
namespace IronCalc.Dates
theorem tableA_05 : allRange (5 * 9132) 9132 checkA = true := by decide +kernel
end IronCalc.Dates
