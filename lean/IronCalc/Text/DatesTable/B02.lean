import IronCalc.Text.DatesCheck
namespace IronCalc.Dates
theorem tableB_02 : allRange (2 * 9300) 9300 checkB = true := by decide +kernel
end IronCalc.Dates
