import IronCalc.Text.DatesCheck
namespace IronCalc.Dates
theorem tableA_15 : allRange (15 * 9132) 9132 checkA = true := by decide +kernel
end IronCalc.Dates
