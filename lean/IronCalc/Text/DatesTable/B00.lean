import IronCalc.Text.DatesCheck
namespace IronCalc.Dates
theorem tableB_00 : allRange (0 * 9300) 9300 checkB = true := by decide +kernel
end IronCalc.Dates
