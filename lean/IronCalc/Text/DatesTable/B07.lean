import IronCalc.Text.DatesCheck
namespace IronCalc.Dates
theorem tableB_07 : allRange (7 * 9300) 9300 checkB = true := by decide +kernel
end IronCalc.Dates
