import IronCalc.Text.DatesCheck
namespace IronCalc.Dates
theorem tableB_11 : allRange (11 * 9300) 9300 checkB = true := by decide +kernel
end IronCalc.Dates
