import IronCalc.Text.DatesCheck
namespace IronCalc.Dates
theorem tableA_14 : allRange (14 * 9132) 9132 checkA = true := by decide +kernel
end IronCalc.Dates
