import IronCalc.Text.DatesCheck
namespace IronCalc.Dates
theorem tableA_07 : allRange (7 * 9132) 9132 checkA = true := by decide +kernel
end IronCalc.Dates
