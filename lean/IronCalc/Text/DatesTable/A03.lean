import IronCalc.Text.DatesCheck
namespace IronCalc.Dates
theorem tableA_03 : allRange (3 * 9132) 9132 checkA = true := by decide +kernel
end IronCalc.Dates
