import IronCalc.Text.DatesCheck
namespace IronCalc.Dates
theorem tableA_09 : allRange (9 * 9132) 9132 checkA = true := by decide +kernel
end IronCalc.Dates
