import IronCalc.Text.DatesCheck
namespace IronCalc.Dates
theorem tableB_06 : allRange (6 * 9300) 9300 checkB = true := by decide +kernel
end IronCalc.Dates
