import IronCalc.Text.DatesCheck
namespace IronCalc.Dates
theorem tableA_00 : allRange (0 * 9132) 9132 checkA = true := by decide +kernel
end IronCalc.Dates
