import IronCalc.Text.DatesCheck
namespace IronCalc.Dates
theorem tableB_12 : allRange (12 * 9300) 9300 checkB = true := by decide +kernel
end IronCalc.Dates
