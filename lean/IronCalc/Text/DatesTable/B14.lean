import IronCalc.Text.DatesCheck
namespace IronCalc.Dates
theorem tableB_14 : allRange (14 * 9300) 9300 checkB = true := by decide +kernel
end IronCalc.Dates
