import IronCalc.Text.DatesCheck
namespace IronCalc.Dates
theorem tableA_12 : allRange (12 * 9132) 9132 checkA = true := by decide +kernel
end IronCalc.Dates
