import IronCalc.Text.DatesCheck
namespace IronCalc.Dates
theorem tableB_13 : allRange (13 * 9300) 9300 checkB = true := by decide +kernel
end IronCalc.Dates
