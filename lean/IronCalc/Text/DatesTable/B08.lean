import IronCalc.Text.DatesCheck
namespace IronCalc.Dates
theorem tableB_08 : allRange (8 * 9300) 9300 checkB = true := by decide +kernel
end IronCalc.Dates
