import IronCalc.Text.DatesCheck
namespace IronCalc.Dates
theorem tableB_10 : allRange (10 * 9300) 9300 checkB = true := by decide +kernel
end IronCalc.Dates
