import IronCalc.Text.DatesCheck
namespace IronCalc.Dates
theorem tableB_01 : allRange (1 * 9300) 9300 checkB = true := by decide +kernel
end IronCalc.Dates
