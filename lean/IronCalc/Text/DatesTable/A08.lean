import IronCalc.Text.DatesCheck
namespace IronCalc.Dates
theorem tableA_08 : allRange (8 * 9132) 9132 checkA = true := by decide +kernel
end IronCalc.Dates
