import IronCalc.Text.DatesCheck
namespace IronCalc.Dates
theorem tableB_09 : allRange (9 * 9300) 9300 checkB = true := by decide +kernel
end IronCalc.Dates
