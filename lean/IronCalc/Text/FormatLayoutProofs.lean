import IronCalc.Text.FormatLayout
/-
  Helper definitions and lemmas for Props/C20.lean (Stage B, layout of the integer digits).
-/
namespace IronCalc.Format

/-- the separator printed after a character whose position from the right is `posFromRight` -/
def sepOf (p : NumberPart) (loc : Loc) (posFromRight : Int) : List Char :=
  if useGroupSeparator p.useThousands posFromRight loc.mode then loc.group else []

/-- the digits `ip[lo], …, ip[lo+n-1]`, each followed by the separator of its position from the right -/
def runCells (p : NumberPart) (loc : Loc) (ip : List Char) : Nat → Nat → List Char
  | _, 0 => []
  | lo, n + 1 =>
    (match ip[lo]? with
     | some c => c :: sepOf p loc ((ip.length : Int) - lo)
     | none => []) ++ runCells p loc ip (lo + 1) n

/-- the token list of a block of integer placeholders of the given kinds, numbered from `i` -/
def intToks : List Char → Nat → List TT
  | [], _ => []
  | k :: ks, i => .digit k i .int :: intToks ks (i + 1)

theorem emitRun_spec (p : NumberPart) (loc : Loc) (ip : List Char) (n : Nat) :
    ∀ (fuel lo : Nat) (acc : List Char) (bad : Bool), lo + n ≤ ip.length → n ≤ fuel →
      emitRun p loc ip (ip.length : Int) fuel (lo : Int) ((lo + n : Nat) : Int) acc bad
        = (acc ++ runCells p loc ip lo n, bad) := by
  induction n with
  | zero =>
    intro fuel lo acc bad _ _
    cases fuel <;> simp [emitRun, runCells]
  | succ n ih =>
    intro fuel lo acc bad hle hf
    cases fuel with
    | zero => omega
    | succ fuel =>
      have hlt : lo < ip.length := by omega
      have h1 : (lo : Int) < ((lo + (n + 1) : Nat) : Int) := by omega
      have h2 : (lo : Int) ≥ 0 := by omega
      have h3 : ((lo : Int) + 1) = ((lo + 1 : Nat) : Int) := by omega
      have h4 : ((lo + (n + 1) : Nat) : Int) = ((lo + 1 + n : Nat) : Int) := by omega
      simp only [emitRun, h1, if_true, h2, Int.toNat_natCast]
      simp only [List.getElem?_eq_getElem hlt]
      rw [h3, h4, ih fuel (lo + 1) _ bad (by omega) (by omega)]
      simp [runCells, hlt, sepOf, List.append_assoc]

theorem runCells_append (p : NumberPart) (loc : Loc) (ip : List Char) (a b : Nat) :
    ∀ lo, runCells p loc ip lo (a + b) = runCells p loc ip lo a ++ runCells p loc ip (lo + a) b := by
  induction a with
  | zero => intro lo; simp [runCells]
  | succ a ih =>
    intro lo
    have : a + 1 + b = (a + b) + 1 := by omega
    rw [this]
    simp only [runCells, ih (lo + 1), List.append_assoc]
    have : lo + 1 + a = lo + (a + 1) := by omega
    rw [this]


/-- without grouping, a run is just the digits -/
theorem runCells_nosep (p : NumberPart) (loc : Loc) (ip : List Char) (h : p.useThousands = false) (n : Nat) :
    ∀ lo, lo + n ≤ ip.length → runCells p loc ip lo n = (ip.drop lo).take n := by
  induction n with
  | zero => intro lo _; simp [runCells]
  | succ n ih =>
    intro lo hle
    have hlt : lo < ip.length := by omega
    simp only [runCells, List.getElem?_eq_getElem hlt, sepOf, h, useGroupSeparator]
    rw [ih (lo + 1) (by omega)]
    rw [List.drop_eq_getElem_cons hlt (l := ip), List.take_succ_cons]
    simp

end IronCalc.Format
