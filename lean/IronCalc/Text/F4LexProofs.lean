import IronCalc.Text.F4Proofs
import IronCalc.Text.F4Lex
import IronCalc.Formula.LexProofs
/-
  Helper lemmas for C34 at the level of a whole formula text (lexer inside the model), part 1:
  cycling the text of one rendered Reference/Range token gives the text of the token with its `$`
  flags advanced.
-/
namespace IronCalc.F4
open IronCalc.Codec IronCalc.Formula

/-! ### the token after one press -/

/-- a cell endpoint one step further in the F4 cycle -/
def advRef (r : PRef) : PRef :=
  { r with absCol := (nextState (r.absCol, r.absRow)).1, absRow := (nextState (r.absCol, r.absRow)).2 }
/-- a column-only endpoint (`D` in `D:D`) toggles its `$` -/
def toggleCol (r : PRef) : PRef := { r with absCol := !r.absCol }
/-- a row-only endpoint (`5` in `5:5`) toggles its `$` -/
def toggleRow (r : PRef) : PRef := { r with absRow := !r.absRow }

/-- what one press of F4 does to a Reference/Range token (other tokens are not touched) -/
def advance : CTok → CTok
  | .ref sh r => .ref sh (advRef r)
  | .range sh l r =>
    if fullRowOf l r then .range sh (toggleCol l) (toggleCol r)
    else if fullColOf l r then .range sh (toggleRow l) (toggleRow r)
    else .range sh (advRef l) (advRef r)
  | t => t

/-- The `$` flags decide whether a range is printed as whole columns / whole rows
    (`$A$1:$B$1048576` is `$A:$B`).  A range token is *stable* when cycling cannot move it between
    these printed shapes: it is a whole-column range, or its rows do not span the sheet and (it is a
    whole-row range or its columns do not span the sheet). -/
def stable : CTok → Bool
  | .range _ l r =>
    fullRowOf l r ||
      (!(l.row == 1 && r.row == 1048576) &&
        (fullColOf l r || !(l.column == 1 && r.column == 16384)))
  | _ => true

/-! ### endpoints -/

theorem withDollar_append (a : Bool) (x y : List Char) : withDollar a x ++ y = withDollar a (x ++ y) := by
  cases a <;> simp [withDollar]

theorem cellText_eq (c r : Nat) (a b : Bool) :
    cellText c r a b = endpointText a (numToCol c) b (natToDec r) := by
  unfold cellText endpointText; rw [withDollar_append]

theorem cycleEndpoint_cellText (c r : Nat) (a b : Bool) (hc : 1 ≤ c) :
    cycleEndpoint (cellText c r a b) = cellText c r (nextState (a, b)).1 (nextState (a, b)).2 := by
  rw [cellText_eq, cellText_eq,
    cycleEndpoint_cell a b _ _ (all_mono isUpper_alpha _ (numToCol_all_upper c)) (natToDec_all_digit r)
      (numToCol_ne_nil c (by omega)) (natToDec_ne_nil r),
    map_asciiUpper_upper _ (numToCol_all_upper c)]

theorem cycleEndpoint_colText (c : Nat) (a : Bool) (hc : 1 ≤ c) :
    cycleEndpoint (colText c a) = colText c (!a) := by
  unfold colText
  rw [cycleEndpoint_col a _ (all_mono isUpper_alpha _ (numToCol_all_upper c)) (numToCol_ne_nil c (by omega)),
    map_asciiUpper_upper _ (numToCol_all_upper c)]

theorem cycleEndpoint_rowText (r : Nat) (a : Bool) :
    cycleEndpoint (rowText r a) = rowText r (!a) := by
  unfold rowText
  rw [cycleEndpoint_row a _ (natToDec_all_digit r) (natToDec_ne_nil r)]

/-- the characters of a printed endpoint -/
def refChar (c : Char) : Bool := c == '$' || isUpper c || isDigit c

theorem refChar_ne (c : Char) (h : refChar c = true) : c ≠ ':' ∧ c ≠ '!' ∧ c ≠ '\'' := by
  refine ⟨?_, ?_, ?_⟩ <;> (intro e; subst e; revert h; decide)

theorem withDollar_all (a : Bool) (x : List Char) (h : x.all refChar = true) :
    (withDollar a x).all refChar = true := by
  cases a
  · simpa [withDollar] using h
  · simp only [withDollar, if_true, List.all_cons, Bool.and_eq_true]
    exact ⟨by decide, h⟩

theorem numToCol_refChar (c : Nat) : (numToCol c).all refChar = true :=
  all_mono (fun x hx => by simp [refChar, hx]) _ (numToCol_all_upper c)

theorem natToDec_refChar (r : Nat) : (natToDec r).all refChar = true :=
  all_mono (fun x hx => by simp [refChar, hx]) _ (natToDec_all_digit r)

theorem cellText_refChar (c r : Nat) (a b : Bool) : (cellText c r a b).all refChar = true := by
  unfold cellText
  rw [List.all_append, withDollar_all a _ (numToCol_refChar c), withDollar_all b _ (natToDec_refChar r)]
  rfl

theorem colText_refChar (c : Nat) (a : Bool) : (colText c a).all refChar = true :=
  withDollar_all a _ (numToCol_refChar c)

theorem rowText_refChar (r : Nat) (a : Bool) : (rowText r a).all refChar = true :=
  withDollar_all a _ (natToDec_refChar r)

theorem cellText_ne_nil (c r : Nat) (a b : Bool) : cellText c r a b ≠ [] := by
  unfold cellText
  have := natToDec_ne_nil r
  cases b <;> cases a <;> simp [withDollar, this]

theorem colText_ne_nil (c : Nat) (a : Bool) (hc : 1 ≤ c) : colText c a ≠ [] := by
  unfold colText
  have := numToCol_ne_nil c (by omega)
  cases a <;> simp [withDollar, this]

theorem rowText_ne_nil (r : Nat) (a : Bool) : rowText r a ≠ [] := by
  unfold rowText
  have := natToDec_ne_nil r
  cases a <;> simp [withDollar, this]

/-! ### `:`-separated endpoints -/

theorem splitOnColon_noColon (s acc : List Char) (h : s.all (fun c => decide (c ≠ ':')) = true) :
    splitOnColon s acc = [acc.reverse ++ s] := by
  induction s generalizing acc with
  | nil => simp [splitOnColon]
  | cons c t ih =>
    simp only [List.all_cons, Bool.and_eq_true, decide_eq_true_eq] at h
    unfold splitOnColon
    simp only [h.1, if_false]
    rw [ih _ h.2]
    simp

theorem splitOnColon_one (a b acc : List Char) (ha : a.all (fun c => decide (c ≠ ':')) = true)
    (hb : b.all (fun c => decide (c ≠ ':')) = true) :
    splitOnColon (a ++ ':' :: b) acc = [acc.reverse ++ a, b] := by
  induction a generalizing acc with
  | nil =>
    simp only [List.nil_append, List.append_nil]
    unfold splitOnColon
    simp only [if_true]
    rw [splitOnColon_noColon b [] hb]
    simp
  | cons c t ih =>
    simp only [List.all_cons, Bool.and_eq_true, decide_eq_true_eq] at ha
    simp only [List.cons_append]
    unfold splitOnColon
    simp only [ha.1, if_false]
    rw [ih _ ha.2]
    simp

theorem refChar_noColon (s : List Char) (h : s.all refChar = true) :
    s.all (fun c => decide (c ≠ ':')) = true :=
  all_mono (fun c hc => by simpa using (refChar_ne c hc).1) s h

theorem cycleEndpoints_single (a : List Char) (ha : a.all refChar = true) :
    cycleEndpoints a = cycleEndpoint a := by
  unfold cycleEndpoints
  rw [splitOnColon_noColon a [] (refChar_noColon a ha)]
  simp [joinColon]

theorem cycleEndpoints_pair (a b : List Char) (ha : a.all refChar = true) (hb : b.all refChar = true) :
    cycleEndpoints (a ++ ':' :: b) = cycleEndpoint a ++ ':' :: cycleEndpoint b := by
  unfold cycleEndpoints
  rw [splitOnColon_one a b [] (refChar_noColon a ha) (refChar_noColon b hb)]
  simp [joinColon]

/-! ### the sheet prefix -/

/-- the characters of the part after the sheet prefix -/
def bodyChar (c : Char) : Bool := refChar c || c == ':'

theorem refChar_notWhite (cfg : LexCfg) (h : CfgOK cfg) (c : Char) (hc : refChar c = true) :
    cfg.cc.white c = false := by
  unfold refChar at hc
  simp only [Bool.or_eq_true, beq_iff_eq] at hc
  rcases hc with (hc | hc) | hc
  · subst hc; exact h.white_special _ (by decide)
  · exact h.white_alnum _ (h.alpha_alnum _ (h.upper_alpha _ hc))
  · exact h.white_alnum _ (h.digit_alnum _ hc)

theorem scanQuotedPrefix_escape (n tail : List Char) (ht : stops (· == '\'') tail = true) :
    scanQuotedPrefix (escapeQuotes n ++ '\'' :: tail) = (escapeQuotes n ++ ['\''], tail) := by
  induction n with
  | nil =>
    simp only [escapeQuotes, List.nil_append]
    cases tail with
    | nil => simp [scanQuotedPrefix]
    | cons d t =>
      have hd : d ≠ '\'' := by simpa [stops] using ht
      simp [scanQuotedPrefix, hd]
  | cons c t ih =>
    by_cases hc : c = '\''
    · subst hc
      simp only [escapeQuotes, if_true, List.cons_append]
      rw [scanQuotedPrefix.eq_def]
      simp only [if_true, ih]
    · simp only [escapeQuotes, hc, if_false, List.cons_append]
      rw [scanQuotedPrefix.eq_def]
      simp only [hc, if_false, ih]

theorem splitPrefix_unquoted (name body : List Char) (hb : name.all (fun x => decide (x ≠ '!')) = true)
    (hq : ∀ t, name ≠ '\'' :: t) (hne : name ≠ []) :
    splitPrefix (name ++ '!' :: body) = (name ++ ['!'], body) := by
  cases name with
  | nil => exact absurd rfl hne
  | cons c u =>
    have hc : c ≠ '\'' := fun e => hq u (by rw [e])
    have hstop : stops (fun x => decide (x ≠ '!')) ('!' :: body) = true := by simp [stops]
    have e1 := takeWhile_app _ (c :: u) ('!' :: body) hb hstop
    have e2 := dropWhile_app _ (c :: u) ('!' :: body) hb hstop
    simp only [List.cons_append] at e1 e2
    unfold splitPrefix
    simp only [List.cons_append, hc, if_false]
    have hcont : (c :: (u ++ '!' :: body)).contains '!' = true := by
      simp
    simp only [hcont, if_true, e1, e2, List.tail_cons, List.cons_append]

theorem not_white_head (cc : CharClass) (c : Char) (t : List Char) (h : cc.white c = false) :
    (c :: t).takeWhile cc.white = [] ∧ (c :: t).dropWhile cc.white = c :: t := by
  simp [List.takeWhile_cons, List.dropWhile_cons, h]

/-- the text of a token = sheet prefix ++ endpoints: the prefix is recognised as such -/
theorem splitPrefix_sheet (cfg : LexCfg) (h : CfgOK cfg) (sh : Option (List Char)) (hsh : sheetOK sh = true)
    (body : List Char) (hb : body.all bodyChar = true) (hne : body ≠ []) :
    cycleTokenText cfg.cc (sheetPrefix cfg.cc sh ++ body) = sheetPrefix cfg.cc sh ++ cycleEndpoints body := by
  obtain ⟨b0, bt, rfl⟩ := List.exists_cons_of_ne_nil hne
  have hb0 : bodyChar b0 = true := by simp only [List.all_cons, Bool.and_eq_true] at hb; exact hb.1
  have hb0r : refChar b0 = true ∨ b0 = ':' := by simpa [bodyChar] using hb0
  have hb0q : b0 ≠ '\'' := by
    rcases hb0r with hr | hr
    · exact (refChar_ne b0 hr).2.2
    · subst hr; decide
  cases sh with
  | none =>
    simp only [sheetPrefix, List.nil_append]
    have hw : cfg.cc.white b0 = false := by
      rcases hb0r with hr | hr
      · exact refChar_notWhite cfg h b0 hr
      · subst hr; exact h.white_special _ (by decide)
    obtain ⟨e1, e2⟩ := not_white_head cfg.cc b0 bt hw
    unfold cycleTokenText
    simp only [e1, e2, List.nil_append]
    have hnb : (b0 :: bt).contains '!' = false := by
      rw [Bool.eq_false_iff]
      intro hc
      have hm : '!' ∈ b0 :: bt := by simpa [List.contains_iff_mem] using hc
      have := List.all_eq_true.mp hb '!' hm
      revert this; decide
    unfold splitPrefix
    simp only [hb0q, if_false, hnb, Bool.false_eq_true, List.nil_append]
  | some n =>
    have hn : n ≠ [] := by
      intro e; subst e; simp [sheetOK] at hsh
    simp only [sheetPrefix, quoteName]
    cases hq : nameNeedsQuoting cfg.cc n with
    | true =>
      simp only [quoteWith, if_true, List.cons_append, List.append_assoc, List.nil_append]
      have hw : cfg.cc.white '\'' = false := h.white_special _ (by decide)
      obtain ⟨e1, e2⟩ := not_white_head cfg.cc '\''
        (escapeQuotes n ++ '\'' :: '!' :: b0 :: bt) hw
      unfold cycleTokenText
      simp only [e1, e2, List.nil_append]
      unfold splitPrefix
      simp only [if_true]
      rw [scanQuotedPrefix_escape n ('!' :: b0 :: bt) (by simp [stops])]
      simp [takeBang]
    | false =>
      unfold nameNeedsQuoting at hq
      simp only [Bool.or_eq_false_iff, Bool.not_eq_eq_eq_not, Bool.not_false] at hq
      have hid := hq.1.1
      obtain ⟨c, t, rfl⟩ := List.exists_cons_of_ne_nil hn
      simp only [looksLikeIdent, Bool.and_eq_true] at hid
      obtain ⟨hs, ht⟩ := hid
      have halpha_q : cfg.cc.alpha '\'' = false := by
        cases ha : cfg.cc.alpha '\'' with
        | false => rfl
        | true =>
          have := h.special_not_alnum '\'' (by decide)
          rw [h.alpha_alnum _ ha] at this; exact absurd this (by decide)
      have hcq : c ≠ '\'' := by
        intro e; subst e
        simp [isIdentStart, halpha_q] at hs
      have hcw : cfg.cc.white c = false := by
        unfold isIdentStart at hs
        simp only [Bool.or_eq_true, decide_eq_true_eq] at hs
        rcases hs with hs | hs
        · exact h.white_alnum _ (h.alpha_alnum _ hs)
        · subst hs; exact h.white_us
      simp only [quoteWith, Bool.false_eq_true, if_false, List.cons_append, List.append_assoc,
        List.nil_append]
      obtain ⟨e1, e2⟩ := not_white_head cfg.cc c (t ++ '!' :: b0 :: bt) hcw
      unfold cycleTokenText
      simp only [e1, e2, List.nil_append]
      have hbang : isIdentChar cfg.cc '!' = false := bang_not_identChar cfg h
      have hcid : isIdentChar cfg.cc c = true := by
        unfold isIdentStart at hs; unfold isIdentChar
        simp only [Bool.or_eq_true, decide_eq_true_eq] at hs ⊢
        rcases hs with hs | hs
        · exact Or.inl (Or.inl (h.alpha_alnum c hs))
        · exact Or.inl (Or.inr hs)
      have hall : (c :: t).all (fun x => decide (x ≠ '!')) = true := by
        apply all_mono (p := isIdentChar cfg.cc) _ (c :: t)
          (by simp only [List.all_cons, Bool.and_eq_true]; exact ⟨hcid, ht⟩)
        intro x hx
        simp only [decide_eq_true_eq]
        intro e; subst e; rw [hbang] at hx; exact absurd hx (by decide)
      have hsp := splitPrefix_unquoted (c :: t) (b0 :: bt) hall (fun u e => hcq (by injection e)) (by simp)
      simp only [List.cons_append, List.append_assoc] at hsp
      rw [hsp]
      simp

end IronCalc.F4
