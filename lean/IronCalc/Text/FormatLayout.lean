/-
  C20 — model of the number formatter (`base/src/formatter/{lexer,parser,format}.rs`,
  `base/src/number_format.rs::to_precision`) for the family of format codes built from digit
  placeholders `0 # ?`, grouping, decimal point, percent, literals, up to four sections.

  Stage A (digits): a finite double IS a dyadic rational `m · 2^e`; every step of the engine
  (IEEE multiply/divide, `to_precision` = exact decimal rounding + correctly rounded parse,
  `floor`, `fract`, `format!("{:.d}")`) is computed exactly on naturals.
  Stage B (layout): the token loop of the `ParsePart::Number` arm, state included.

  No Mathlib.  Everything is structurally recursive (fuel where needed) so that the kernel can
  evaluate it (`decide +kernel` witnesses in Props/C20.lean).
-/
import IronCalc.Generated.Pow10
namespace IronCalc.Format

/-! ## Numeric toolkit (non-negative rationals `num / den`, `den > 0`) -/

def pow10 (k : Nat) : Nat := 10 ^ k
def pow2 (k : Nat) : Nat := 2 ^ k

/-- round half to even of `num / den` to a natural -/
def rhe (num den : Nat) : Nat :=
  let q := num / den
  let r := num % den
  if 2 * r > den then q + 1
  else if 2 * r = den then (if q % 2 = 0 then q else q + 1)
  else q

/-- round half away from zero (on magnitudes: half up) of `num / den` -/
def rha (num den : Nat) : Nat :=
  let q := num / den
  let r := num % den
  if 2 * r ≥ den then q + 1 else q

/-- decimal digits, most significant first; `0 ↦ ['0']` (models `format!("{}", n)` for integers
    and for integer-valued `f64`, whose `Display` prints every digit and no exponent) -/
def digitsAux : Nat → Nat → List Char → List Char
  | 0, _, acc => acc
  | fuel + 1, n, acc =>
    let acc' := Char.ofNat (48 + n % 10) :: acc
    if n < 10 then acc' else digitsAux fuel (n / 10) acc'

def natDigits (n : Nat) : List Char := digitsAux (n.log2 + 2) n []

/-- a finite double's magnitude: value `m · 2^e` with `m < 2^53`, `-1074 ≤ e ≤ 971` -/
structure Mag where
  m : Nat
  e : Int
deriving DecidableEq, Repr

/-- the magnitude as a fraction -/
def Mag.num (x : Mag) : Nat := if x.e ≥ 0 then x.m * pow2 x.e.toNat else x.m
def Mag.den (x : Mag) : Nat := if x.e ≥ 0 then 1 else pow2 (-x.e).toNat

/-- IEEE-754 binary64 round-to-nearest-even of `num / den`; `none` = overflow (±inf).
    models the hardware `*` `/` and Rust's correctly rounded `str::parse::<f64>` -/
def rn53 (num den : Nat) : Option Mag :=
  if num = 0 then some ⟨0, 0⟩ else
  let est : Int := (num.log2 : Int) - (den.log2 : Int) - 53
  let e0 : Int := if est < -1074 then -1074 else est
  let q0 := if e0 ≥ 0 then num / (den * pow2 e0.toNat) else (num * pow2 (-e0).toNat) / den
  let e1 : Int := if q0 ≥ pow2 53 then e0 + 1 else e0
  let m := if e1 ≥ 0 then rhe num (den * pow2 e1.toNat) else rhe (num * pow2 (-e1).toNat) den
  let (m, e2) := if m = pow2 53 then (pow2 52, e1 + 1) else (m, e1)
  if e2 > 971 then none else some ⟨m, e2⟩

/-- decode the 64-bit pattern of a double: (negative, magnitude) or `none` for inf/NaN -/
def decodeBits (bits : Nat) : Option (Bool × Mag) :=
  let neg := bits / pow2 63 % 2 = 1
  let ex := bits / pow2 52 % 2048
  let fr := bits % pow2 52
  if ex = 2047 then none
  else if ex = 0 then some (neg, ⟨fr, -1074⟩)
  else some (neg, ⟨fr + pow2 52, (ex : Int) - 1075⟩)

/-- is `num/den ≥ 10^E` -/
def ge10 (num den : Nat) (E : Int) : Bool :=
  if E ≥ 0 then decide (num ≥ den * pow10 E.toNat) else decide (num * pow10 (-E).toNat ≥ den)

def ilog10Up : Nat → Nat → Nat → Int → Int
  | 0, _, _, E => E
  | fuel + 1, num, den, E => if ge10 num den (E + 1) then ilog10Up fuel num den (E + 1) else E

/-- `⌊log10 (num/den)⌋` for `num > 0` (a lower estimate from the bit lengths, then adjusted) -/
def ilog10 (num den : Nat) : Int :=
  let x : Int := (num.log2 : Int) - (den.log2 : Int) - 1
  let E0 : Int := (if x ≥ 0 then x * 30102 / 100000 else (x * 30103) / 100000) - 1
  ilog10Up 6 num den E0

/-- models `number_format.rs::to_precision_str`'s first step, `format!("{:.*e}", p-1, v)`:
    the exact value rounded half-even to `p` significant decimal digits, as a fraction -/
def roundSig (num den p : Nat) : Nat × Nat :=
  if num = 0 then (0, 1) else
  let p := if p = 0 then 1 else p
  let E := ilog10 num den
  let s : Int := (p : Int) - 1 - E
  if s ≥ 0 then (rhe (num * pow10 s.toNat) den, pow10 s.toNat)
  else (rhe num (den * pow10 (-s).toNat) * pow10 (-s).toNat, 1)

/-- models `number_format.rs::to_precision` on a finite magnitude (sign is carried outside; all
    the roundings are symmetric): decimal rounding, then the correctly rounded parse (the ryu
    print / re-parse in between is the identity on doubles) -/
def toPrecision (x : Mag) (p : Nat) : Option Mag :=
  let (n, d) := roundSig x.num x.den p
  rn53 n d

/-- shortest round-trip digits of the integer-valued double `n ≥ 2^53`, tried with `k` then more
    significant digits: the `k`-digit decimals just below and above `n`; the one that parses back
    to `n` (the closer one if both do) is the answer -/
def shortestInt (n : Nat) (E : Nat) : Nat → Nat → Nat
  | 0, _ => n
  | fuel + 1, k =>
    -- unit of the k-th significant digit: 10^(E + 1 - k)
    if k > E then n else
    let u := pow10 (E + 1 - k)
    let lo := n / u * u
    let hi := lo + u
    let self := rn53 n 1
    let okLo := rn53 lo 1 = self
    let okHi := rn53 hi 1 = self
    if okLo && okHi then (if n - lo ≤ hi - n then lo else hi)
    else if okLo then lo
    else if okHi then hi
    else shortestInt n E fuel (k + 1)

/-- models `format!("{}", x)` for an integer-valued `f64` `x = n`: Rust prints the *shortest*
    decimal that parses back to `x`, zero-filled — the exact integer only below 2^53 -/
def displayInt (n : Nat) : List Char :=
  if n < pow2 53 then natDigits n
  else natDigits (shortestInt n (ilog10 n 1).toNat 18 1)

/-- `f64::floor` of a magnitude, as a natural -/
def Mag.floor (x : Mag) : Nat := x.num / x.den
/-- `f64::round` (half away from zero) of a magnitude -/
def Mag.round (x : Mag) : Nat := rha x.num x.den
/-- `f64::fract` of a magnitude, numerator over `x.den` -/
def Mag.fractNum (x : Mag) : Nat := x.num % x.den

def padLeft (n : Nat) (c : Char) (l : List Char) : List Char :=
  List.replicate (n - l.length) c ++ l

def stripTrailingZeros (l : List Char) : List Char :=
  (l.reverse.dropWhile (· = '0')).reverse

/-- models `format.rs::get_fract_part(value, precision, int_len)`:
    `format!("{:.prec}", value.fract())` is the exact binary fraction rounded half-even to `prec`
    decimals; if that rounds up to `1.000…` the carry is dropped (all decimals are zero);
    trailing zeros are removed; at most `15 - int_len` digits are kept (1 if `int_len > 15`). -/
def getFractPart (x : Mag) (prec intLen : Nat) : List Char :=
  if prec = 0 then [] else
  let n := rhe (x.fractNum * pow10 prec) x.den
  if n ≥ pow10 prec then [] else
  let ds := stripTrailingZeros (padLeft prec '0' (natDigits n))
  let cap := if intLen > 15 then 1 else 15 - intLen
  ds.take cap

/-! ## Format lexer and parser (family subset; everything else is `unsupported`) -/

inductive Tok where
  | lit (c : Char) | text (s : List Char) | ghost (c : Char) | spacer (c : Char)
  | sep | percent | comma | period | sharp | zero | qmark | sci | sciMinus
  | illegal | eof
  /-- a construct outside the modelled family (brackets, date letters, `@`, `General`) -/
  | unsupported
deriving DecidableEq, Repr

def Tok.isDigit : Tok → Bool
  | .zero | .sharp | .qmark => true
  | _ => false

def isLiteralChar (c : Char) : Bool :=
  c = '$' || c = '€' || c = '(' || c = ')' || c = '/' || c = ':' || c = '+' || c = '-' || c = '^'
  || c = '\'' || c = '{' || c = '}' || c = '<' || c = '=' || c = '!' || c = '~' || c = '>' || c = ' '

def isUnsupportedChar (c : Char) : Bool :=
  c = '[' || c = '@' || c = 'd' || c = 'm' || c = 'y' || c = 'h' || c = 'H' || c = 's'
  || c = 'A' || c = 'a' || c = 'g' || c = 'G'

/-- models `lexer.rs::consume_string`: after the opening quote; `""` is an escaped quote -/
def consumeString : List Char → List Char → Option (List Char × List Char)
  | [], _ => none
  | '"' :: '"' :: rest, acc => consumeString rest ('"' :: acc)
  | '"' :: rest, acc => some (acc.reverse, rest)
  | c :: rest, acc => consumeString rest (c :: acc)

/-- models `lexer.rs::Lexer::next_token`: token and remaining input (an ILLEGAL token moves the
    position to the end of the input, `set_error`) -/
def nextToken : List Char → Tok × List Char
  | [] => (.eof, [])
  | c :: rest =>
    if isLiteralChar c then (.lit c, rest)
    else if c = '?' then (.qmark, rest)
    else if c = ';' then (.sep, rest)
    else if c = '#' then (.sharp, rest)
    else if c = ',' then (.comma, rest)
    else if c = '.' then (.period, rest)
    else if c = '0' then (.zero, rest)
    else if c = '%' then (.percent, rest)
    else if c = '_' then (match rest with | y :: r => (.ghost y, r) | [] => (.illegal, []))
    else if c = '*' then (match rest with | y :: r => (.spacer y, r) | [] => (.illegal, []))
    else if c = '\\' then (match rest with | y :: r => (.lit y, r) | [] => (.illegal, []))
    else if c = '"' then
      (match consumeString rest [] with | some (s, r) => (.text s, r) | none => (.illegal, []))
    else if c = 'E' then
      (match rest with
       | '+' :: r => (.sci, r)
       | '-' :: r => (.sciMinus, r)
       | _ => (.illegal, []))
    else if isUnsupportedChar c then (.unsupported, [])
    else (.illegal, [])

inductive NumState where | int | dec | exp
deriving DecidableEq, Repr

/-- models `parser.rs::TextToken` (the variants a number part of the family can contain) -/
inductive TT where
  | lit (c : Char) | text (s : List Char) | ghost | spacer | period
  | digit (kind : Char) (index : Nat) (st : NumState)
deriving DecidableEq, Repr

/-- models `parser.rs::NumberPart` (colour / condition / currency are outside the family) -/
structure NumberPart where
  useThousands : Bool := false
  percent : Nat := 0
  comma : Nat := 0
  tokens : List TT := []
  digitCount : Nat := 0
  precision : Nat := 0
  isScientific : Bool := false
  scientificMinus : Bool := false
  exponentDigitCount : Nat := 0
deriving DecidableEq, Repr

inductive Part where
  | number (p : NumberPart) | error | unsupported
deriving DecidableEq, Repr

structure PState where
  p : NumberPart := {}
  isNumber : Bool := false
  foundDot : Bool := false
  lastIsDigit : Bool := false
  st : NumState := .int
  index : Nat := 0

/-- one iteration of the `while` loop of `parser.rs::Parser::parse_part` for `token` with
    look-ahead `next` (tokens are accumulated in reverse) -/
def parseStep (s : PState) (token next : Tok) : PState :=
  let isD := token.isDigit
  let s := { s with isNumber := s.isNumber || isD }
  let s :=
    if isD then
      if s.p.isScientific then { s with p := { s.p with exponentDigitCount := s.p.exponentDigitCount + 1 } }
      else if s.foundDot then { s with p := { s.p with precision := s.p.precision + 1 } }
      else { s with p := { s.p with digitCount := s.p.digitCount + 1 } }
    else s
  let push (s : PState) (t : TT) : PState := { s with p := { s.p with tokens := t :: s.p.tokens } }
  let s :=
    match token with
    | .comma =>
      if s.lastIsDigit && next.isDigit then { s with p := { s.p with useThousands := true } }
      else if s.p.digitCount > 0 then { s with p := { s.p with comma := s.p.comma + 1 } }
      else push s (.lit ',')
    | .percent => let s := push s (.lit '%'); { s with p := { s.p with percent := s.p.percent + 1 } }
    | .period =>
      if s.isNumber && !s.foundDot then
        let s := push s .period
        let s := { s with foundDot := true }
        if s.st = NumState.int then { s with st := NumState.dec, index := 0 } else s
      else push s (.lit '.')
    | .qmark => let s := push s (.digit '?' s.index s.st); { s with index := s.index + 1 }
    | .sharp => let s := push s (.digit '#' s.index s.st); { s with index := s.index + 1 }
    | .zero => let s := push s (.digit '0' s.index s.st); { s with index := s.index + 1 }
    | .lit c => push s (.lit c)
    | .text t => push s (.text t)
    | .ghost _ => push s .ghost
    | .spacer _ => push s .spacer
    | .sci =>
      let s := if !s.p.isScientific then { s with index := 0, st := NumState.exp } else s
      { s with p := { s.p with isScientific := true } }
    | .sciMinus =>
      let s := if !s.p.isScientific then { s with index := 0, st := NumState.exp } else s
      { s with p := { s.p with isScientific := true, scientificMinus := true } }
    | _ => s
  { s with lastIsDigit := isD }

/-- models `parser.rs::Parser::parse_part`'s loop: `token` is the current token, `input` the
    rest of the characters.  Returns the part and the input after it. -/
def parsePartLoop : Nat → PState → Tok → List Char → Part × List Char
  | 0, _, _, input => (.error, input)
  | fuel + 1, s, token, input =>
    match token with
    | .eof | .sep => (.number { s.p with tokens := s.p.tokens.reverse }, input)
    | _ =>
      let (next, input') := nextToken input
      match token with
      | .illegal => (.error, input')
      | .unsupported => (.unsupported, [])
      | _ => parsePartLoop fuel (parseStep s token next) next input'

def parsePart (input : List Char) : Part × List Char :=
  let (token, rest) := nextToken input
  parsePartLoop (input.length + 2) {} token rest

/-- models `parser.rs::Parser::parse`: `while peek_token() != EOF { parts.push(parse_part()) }` -/
def parseParts : Nat → List Char → List Part
  | 0, _ => []
  | fuel + 1, input =>
    match (nextToken input).1 with
    | .eof => []
    | _ =>
      let (part, rest) := parsePart input
      part :: parseParts fuel rest

def parseFormat (fmt : List Char) : List Part := parseParts (fmt.length + 1) fmt

/-! ## Stage B — layout -/

inductive GroupMode where
  | western  -- "#,##0.###"
  | indian   -- "#,##,##0.###"
  | other
deriving DecidableEq, Repr

/-- models `format.rs::use_group_separator` -/
def useGroupSeparator (useThousands : Bool) (digitIndex : Int) (g : GroupMode) : Bool :=
  if useThousands then
    match g with
    | .western => decide (digitIndex > 1) && decide ((digitIndex - 1) % 3 = 0)
    | .indian => decide (digitIndex = 3) || (decide (digitIndex > 3) && decide (digitIndex % 2 = 0))
    | .other => false
  else false

structure Loc where
  decimal : List Char
  group : List Char
  mode : GroupMode
deriving DecidableEq, Repr

structure LState where
  text : List Char := []
  digitIndex : Int := 0
  needsPeriod : Bool := false
  /-- an index computed by the engine fell outside the digit vector (Rust would panic) -/
  panicked : Bool := false
deriving DecidableEq, Repr

/-- the digits `int_part[i]` for `i` in `lo .. hi` (exclusive), each followed by its separator:
    models the `for i in digit_index..number_index + 1` loop -/
def emitRun (p : NumberPart) (loc : Loc) (ip : List Char) (ln : Int) :
    Nat → Int → Int → List Char → Bool → List Char × Bool
  | 0, _, _, acc, bad => (acc, bad)
  | fuel + 1, i, hi, acc, bad =>
    if i < hi then
      let sep := if useGroupSeparator p.useThousands (ln - i) loc.mode then loc.group else []
      match (if i ≥ 0 then ip[i.toNat]? else none) with
      | some c => emitRun p loc ip ln fuel (i + 1) hi (acc ++ c :: sep) bad
      | none => emitRun p loc ip ln fuel (i + 1) hi acc true
    else (acc, bad)

/-- models one iteration of `for token in tokens` in the `ParsePart::Number` arm of
    `format.rs::format_number` (non-scientific part; exponent digits are outside the model) -/
def layoutStep (p : NumberPart) (loc : Loc) (neg : Bool) (ip fp : List Char) (s : LState) : TT → LState
  | .lit c => { s with text := s.text ++ [c] }
  | .text t => { s with text := s.text ++ t }
  | .ghost => { s with text := s.text ++ [' '] }
  | .spacer => { s with text := s.text ++ [' '] }
  | .period => { s with needsPeriod := true }
  | .digit kind index .int =>
    let ln : Int := ip.length
    let dc : Int := p.digitCount
    let numberIndex : Int := ln - dc + index
    let s := if index = 0 && neg then { s with text := '-' :: s.text } else s
    if ln ≤ dc then
      let s :=
        if !(numberIndex < 0 && kind = '#') then
          let sep := if useGroupSeparator p.useThousands (dc - index) loc.mode then loc.group else []
          if numberIndex < 0 then
            { s with text := s.text ++ (if kind = '0' then '0' else ' ') :: sep }
          else
            match ip[numberIndex.toNat]? with
            | some c => { s with text := s.text ++ c :: sep }
            | none => { s with panicked := true }
        else s
      { s with digitIndex := s.digitIndex + 1 }
    else
      let (t, bad) := emitRun p loc ip ln (ip.length + 1) s.digitIndex (numberIndex + 1) s.text s.panicked
      { s with text := t, panicked := bad, digitIndex := numberIndex + 1 }
  | .digit kind index .dec =>
    let s :=
      match fp[index]? with
      | some c => { s with text := s.text ++ (if s.needsPeriod then loc.decimal else []) ++ [c] }
      | none =>
        if kind = '0' then { s with text := s.text ++ (if s.needsPeriod then loc.decimal else []) ++ ['0'] }
        else if kind = '?' then { s with text := s.text ++ [' '] }
        else if kind = '#' && s.needsPeriod then { s with text := s.text ++ loc.decimal }
        else s
    { s with needsPeriod := false }
  | .digit _ _ .exp => s

def layout (p : NumberPart) (loc : Loc) (neg : Bool) (ip fp : List Char) : LState :=
  p.tokens.foldl (layoutStep p loc neg ip fp) {}

/-! ## Stage A + B together: `format_number` on the family -/

inductive Out where
  | text (t : List Char)
  | valueError            -- "#VALUE!" (format string rejected / wrong number of parts)
  | unsupported           -- outside the modelled family
  | nonfinite             -- the scaled value overflowed
  | panic                 -- an index outside a digit vector
deriving DecidableEq, Repr

/-- `value * 100^percent / 1000^comma` with two IEEE roundings -/
def scaleValue (x : Mag) (percent comma : Nat) : Option Mag :=
  if percent = 0 && comma = 0 then some x else
  match rn53 (x.num * 100 ^ percent) x.den with
  | none => none
  | some y => rn53 y.num (y.den * 1000 ^ comma)

/-- the non-scientific rounding step of the `ParsePart::Number` arm:
    `scaled = to_precision(v, 15) * 10^d; if |scaled| < 1e15 { v = scaled.round() / 10^d }` -/
def roundLikeRound (v : Mag) (d : Nat) : Mag :=
  match toPrecision v 15 with
  | none => v
  | some v15 =>
    match rn53 (v15.num * pow10 d) v15.den with
    | none => v
    | some t =>
      if t.num < pow10 15 * t.den then
        match rn53 t.round (pow10 d) with
        | none => v
        | some r => r
      else v

/-- digits shown for a magnitude `v` (already scaled) under `precision = d`:
    (value after rounding, integer digits, fractional digits) -/
def stageA (v : Mag) (d : Nat) : List Char × List Char :=
  let r := roundLikeRound v d
  let intNumber := if d = 0 then r.round else r.floor
  let ip := if intNumber = 0 then [] else displayInt intNumber
  (ip, getFractPart r d ip.length)

/-! ## Scientific parts (`0.00E+00`, `##0.0E+0`, `E-` variants) -/

/-- `10.0_f64.powf(k)`: libm's `pow` is not correctly rounded, so the value comes from the table
    regenerated from the running code (`Generated/Pow10.lean`); `none` = ±inf / outside the table -/
def pow10f64 (k : Int) : Option Mag :=
  let i := k - IronCalc.Generated.Pow10.lo
  if i < 0 then none else
  match IronCalc.Generated.Pow10.bits[i.toNat]? with
  | none => none
  | some b => (decodeBits b).map (·.2)

/-- the first 12 significant decimal digits of `num/den > 0` (truncated), given `k = ⌊log10⌋` -/
def first12 (num den : Nat) (k : Int) : Nat :=
  let s : Int := 11 - k
  if s ≥ 0 then (num * pow10 s.toNat) / den else num / (den * pow10 (-s).toNat)

/-- models `value_abs.log10().floor()`.  libm's `log10` is not correctly rounded: within a few ulps
    of a power of ten its floor can go either way.  The model answers only
    * outside the zone where the first 12 significant digits are `999999999999` or `100000000000`
      (there `⌊log10 v⌋` is the exact floor: the distance to an integer is ≥ 4e-12 ≫ 2 ulp), and
    * inside the zone for the doubles nearest to a power of ten (`RN(10^j)` ↦ `j`; validated on all
      of them by every run; subnormal `RN(10^j)` are far from `10^j` and fall under the first rule);
    `none` = inside the zone (not modelled; oracle only). -/
def log10Floor (v : Mag) : Option Int :=
  let k := ilog10 v.num v.den
  let rnPow (j : Int) : Option Mag := if j ≥ 0 then rn53 (pow10 j.toNat) 1 else rn53 1 (pow10 (-j).toNat)
  let n := first12 v.num v.den k
  if n = pow10 12 - 1 ∨ n = pow10 11 then
    -- inside the zone only the doubles nearest to the power of ten are modelled
    if rnPow k = some v then some k
    else if rnPow (k + 1) = some v then some (k + 1)
    else none
  else some k

inductive SciOut where
  | ok (m : Mag) (ep : List Char) (expNeg : Bool)
  | nonfinite
  | zone
deriving DecidableEq, Repr

/-- the scientific branch of the `ParsePart::Number` arm up to the digit vectors: `v` is the scaled
    magnitude, `d = precision`.  Result: the mantissa (a double in [1, 10], or 0), the digits of
    |exponent|, and `exponent_is_negative` (`value_abs < 1.0`, tested BEFORE the scaling). -/
def sciStage (v : Mag) (d : Nat) : SciOut :=
  let l := (displayInt v.floor).length        -- format!("{}", value.abs().floor()).len()
  match toPrecision v (d + l) with
  | none => .nonfinite
  | some v1 =>
    if v1.m = 0 then .ok ⟨0, 0⟩ ['0'] false
    else
      match log10Floor v1 with
      | none => .zone
      | some k =>
        match pow10f64 k with
        | none => .nonfinite
        | some p10 =>
          if p10.m = 0 then .nonfinite else        -- division by 0.0 gives inf
          match rn53 (v1.num * p10.den) (v1.den * p10.num) with
          | none => .nonfinite
          | some q =>
            match toPrecision q 15 with
            | none => .nonfinite
            | some m => .ok m (natDigits k.natAbs) (decide (v1.num < v1.den))

/-- the digits `ep[0], …, ep[hi-1]` (models `for i in 0..number_index + 1` of the exponent arm) -/
def emitExp (ep : List Char) : Nat → Nat → Nat → List Char → Bool → List Char × Bool
  | 0, _, _, acc, bad => (acc, bad)
  | fuel + 1, i, hi, acc, bad =>
    if i < hi then
      match ep[i]? with
      | some c => emitExp ep fuel (i + 1) hi (acc ++ [c]) bad
      | none => emitExp ep fuel (i + 1) hi acc true
    else (acc, bad)

/-- the token loop with the exponent arm (`digit.number.is_exponent()`); every other token as in
    `layoutStep` -/
def layoutStepSci (p : NumberPart) (loc : Loc) (neg : Bool) (ip fp ep : List Char) (expNeg : Bool)
    (s : LState) : TT → LState
  | .digit kind index .exp =>
    let s := if index = 0 then
        { s with text := s.text ++ (if expNeg then ['E', '-'] else if p.scientificMinus then ['E'] else ['E', '+']) }
      else s
    let lExp : Int := ep.length
    let edc : Int := p.exponentDigitCount
    let numberIndex : Int := lExp - (edc - index)
    if lExp ≤ edc then
      if !(numberIndex < 0 && kind = '#') then
        if numberIndex < 0 then { s with text := s.text ++ [if kind = '?' then ' ' else '0'] }
        else
          match ep[numberIndex.toNat]? with
          | some c => { s with text := s.text ++ [c] }
          | none => { s with panicked := true }
      else s
    else
      let hi := (numberIndex + 1).toNat
      let (t, bad) := emitExp ep (ep.length + 1) 0 hi s.text s.panicked
      { s with text := t, panicked := bad, digitIndex := s.digitIndex + numberIndex + 1 }
  | t => layoutStep p loc neg ip fp s t

def layoutSci (p : NumberPart) (loc : Loc) (neg : Bool) (ip fp ep : List Char) (expNeg : Bool) : LState :=
  p.tokens.foldl (layoutStepSci p loc neg ip fp ep expNeg) {}

def formatPart (p : NumberPart) (loc : Loc) (neg : Bool) (x : Mag) : Out :=
  if p.precision > 22 || p.percent > 11 || p.comma > 7 then .unsupported else
  match scaleValue x p.percent p.comma with
  | none => .nonfinite
  | some v =>
    if p.isScientific then
      match sciStage v p.precision with
      | .nonfinite => .nonfinite
      | .zone => .unsupported
      | .ok m ep expNeg =>
        let intNumber := if p.precision = 0 then m.round else m.floor
        let ip := if intNumber = 0 then [] else displayInt intNumber
        let fp := getFractPart m p.precision ip.length
        let isNeg := neg && (!ip.isEmpty || fp.any (· ≠ '0'))
        let s := layoutSci p loc isNeg ip fp ep expNeg
        if s.panicked then .panic else .text s.text
    else
    let (ip, fp) := stageA v p.precision
    let isNeg := neg && (!ip.isEmpty || fp.any (· ≠ '0'))
    let s := layout p loc isNeg ip fp
    if s.panicked then .panic else .text s.text

/-- models `format.rs::format_number` (section choice included) -/
def formatNumber (fmt : List Char) (loc : Loc) (neg : Bool) (x : Mag) : Out :=
  let parts := parseFormat fmt
  if parts.any (· = .unsupported) then .unsupported else
  let isZero := x.m = 0
  let neg := neg && !isZero
  let pick : Option (Part × Bool) :=
    match parts with
    | [a] => some (a, neg)
    | [a, b] => if !neg then some (a, false) else some (b, false)
    | [a, b, c] => if isZero then some (c, false) else if neg then some (b, false) else some (a, false)
    | [a, b, c, _] => if isZero then some (c, false) else if neg then some (b, false) else some (a, false)
    | _ => none
  match pick with
  | none => .valueError
  | some (.error, _) => .valueError
  | some (.unsupported, _) => .unsupported
  | some (.number p, n) => formatPart p loc n x

end IronCalc.Format
