import IronCalc.Text.Number
/-
  Specification of "number text" for C19, written independently of the scanner: a text is a number
  text when it is the *rendering* of a well-formed structured number (sign, integer text made of a
  first digit group followed by `sep d d d` groups, optional fraction, optional exponent), wrapped
  optionally in white space, a `%` suffix, or a currency symbol before (optionally behind a `-`)
  or after; or a date in one of the three supported layouts.  Its denotation is exact.
-/
namespace IronCalc.Number

def AllDigits (cs : List Char) : Prop := ∀ c ∈ cs, isDigit c = true

/-- `(sep d d d)*` -/
inductive Groups (grp : Char) : List Char → Prop
  | nil : Groups grp []
  | cons {a b c : Char} {rest : List Char} :
      isDigit a = true → isDigit b = true → isDigit c = true → Groups grp rest →
      Groups grp (grp :: a :: b :: c :: rest)

/-- the integer part as typed: digits (possibly none), or at least one digit followed by groups of
    exactly three digits, each introduced by the group separator -/
def IsIntText (grp : Char) (t : List Char) : Prop :=
  ∃ d0 g, t = d0 ++ g ∧ AllDigits d0 ∧ Groups grp g ∧ (g ≠ [] → d0 ≠ [])

/-- well-formed exponent: `e`/`E`, then digits, or a sign and at least one digit -/
def ExpOk : Option (Char × Char × List Char) → Prop
  | none => True
  | some (m, x, ds) =>
    (m = 'e' ∨ m = 'E') ∧ AllDigits ds ∧ (isDigit x = true ∨ ((x = '+' ∨ x = '-') ∧ ds ≠ []))

/-- a well-formed structured number of a locale whose group separator is `grp` -/
structure WellFormed (grp : Char) (n : Num) : Prop where
  sign : n.sign = none ∨ n.sign = some '+' ∨ n.sign = some '-'
  int : IsIntText grp n.intText
  frac : AllDigits n.frac
  noDot : n.hasDot = false → n.frac = []
  /-- at least one mantissa digit -/
  mant : 1 ≤ n.int.length + n.frac.length
  exp : ExpOk n.exp
  /-- the value fits a double -/
  finite : overflowsF64 n.mant n.e10 = false

/-- **number literal**: `t` is the text of the well-formed number `n` in a locale with decimal
    separator `dec` and group separator `grp` -/
def IsNumberLit (dec grp : Char) (t : List Char) (n : Num) : Prop :=
  WellFormed grp n ∧ n.render dec = t

/-- the exact denotation of a literal: sign, mantissa and decimal exponent -/
structure Denotation where
  negative : Bool
  mant : Nat
  e10 : Int
deriving DecidableEq, Repr

/-- denotation of a recognised value: `(−1)^negative · mant · 10^e10` (percent: two more decimals) -/
def Value.denote : Value → Denotation
  | .num n negated pct => ⟨n.neg != negated, n.mant, if pct then n.e10 - 2 else n.e10⟩
  | .serial s => ⟨false, s, 0⟩

/-- the three supported date layouts: `t` is `a sep b sep c` with one separator character used
    twice, the fields are a day (1–2 digits), a month (1–2 digits or a month name of the locale) and a
    year (2 or 4 digits) in ISO order when the first field is four digits, else in the locale's
    order; the date exists and its serial is in the supported range `1 ..= 2958465`. -/
def IsDateText (ℓ : Locale) (t : List Char) (serial : Nat) (fmt : List Char) : Prop :=
  ∃ (sep : Char) (p0 p1 p2 dayS monthS yearS dayF monthF yearF : List Char) (day month year : Nat),
    (sep = '/' ∨ sep = '-' ∨ sep = '.') ∧
    t = p0 ++ sep :: p1 ++ sep :: p2 ∧
    ((isoYear p0 = true ∧ dayS = p2 ∧ monthS = p1 ∧ yearS = p0 ∧ allDigits p1 = true ∧ allDigits p2 = true ∧
        fmt = ['y', 'y', 'y', 'y'] ++ [sep] ++ monthF ++ [sep] ++ dayF) ∨
     (isoYear p0 = false ∧ ℓ.dayFirst = true ∧ dayS = p0 ∧ monthS = p1 ∧ yearS = p2 ∧
        fmt = dayF ++ [sep] ++ monthF ++ [sep] ++ yearF) ∨
     (isoYear p0 = false ∧ ℓ.dayFirst = false ∧ dayS = p1 ∧ monthS = p0 ∧ yearS = p2 ∧
        fmt = monthF ++ [sep] ++ dayF ++ [sep] ++ yearF)) ∧
    parseDay dayS = some (day, dayF) ∧ parseMonth ℓ monthS = some (month, monthF) ∧
    parseYear yearS = some (year, yearF) ∧
    IronCalc.Dates.toSerial ⟨year, month, day⟩ = some (serial : Int) ∧
    1 ≤ serial ∧ serial ≤ 2958465

/-- **the specification**: `s` is a number text of locale `ℓ` (with the currency symbols `curs`)
    denoting the value `v` with format kind `k`. -/
inductive IsNumberText (ℓ : Locale) (curs : List (List Char)) : List Char → Value → Kind → Prop
  /-- `number %` -/
  | percent {s p n} : stripSuffix ['%'] (trim s) = some p → IsNumberLit ℓ.dec ℓ.grp (trim p) n →
      IsNumberText ℓ curs s (.num n false true) (if n.isSci then .scientific else .percent n.hasDot)
  /-- `- currency number` (the number itself unsigned) -/
  | negCurrency {s p n cur} : cur ∈ curs → stripPrefix ('-' :: cur) (trim s) = some p →
      IsNumberLit ℓ.dec ℓ.grp (trim p) n → n.sign = none →
      IsNumberText ℓ curs s (.num n true false) (if n.isSci then .scientific else .currencyPrefix cur n.hasDot)
  /-- `currency number` -/
  | currencyBefore {s p n cur} : cur ∈ curs → stripPrefix cur (trim s) = some p →
      IsNumberLit ℓ.dec ℓ.grp (trim p) n →
      IsNumberText ℓ curs s (.num n false false) (if n.isSci then .scientific else .currencyPrefix cur n.hasDot)
  /-- `number currency` -/
  | currencyAfter {s p n cur} : cur ∈ curs → stripSuffix cur (trim s) = some p →
      IsNumberLit ℓ.dec ℓ.grp (trim p) n →
      IsNumberText ℓ curs s (.num n false false) (if n.isSci then .scientific else .currencySuffix cur n.hasDot)
  /-- a date (not trimmed) -/
  | date {s serial fmt} : IsDateText ℓ s serial fmt → IsNumberText ℓ curs s (.serial serial) (.date fmt)
  /-- a plain number -/
  | plain {s n} : IsNumberLit ℓ.dec ℓ.grp (trim s) n →
      IsNumberText ℓ curs s (.num n false false)
        (if n.isSci then .scientific else if n.hasGroups then .grouped n.hasDot else .general)

/-- a date field may contain neither the separator used nor one `parse_date` would prefer to it
    (`/` before `-` before `.`) -/
def fieldOk (sep : Char) (f : List Char) : Bool :=
  !f.contains sep && (sep == '/' || (!f.contains '/' && (sep == '-' || !f.contains '-')))

/-- **a rendering of a date**: `IsDateText` whose three fields are free of the separator (and of
    the separators `parse_date` prefers) — the renderings a user can type unambiguously.  Used for the
    completeness direction; every `IsDateRendering` is an `IsDateText`. -/
def IsDateRendering (ℓ : Locale) (t : List Char) (serial : Nat) (fmt : List Char) : Prop :=
  ∃ (sep : Char) (p0 p1 p2 dayS monthS yearS dayF monthF yearF : List Char) (day month year : Nat),
    (sep = '/' ∨ sep = '-' ∨ sep = '.') ∧
    t = p0 ++ sep :: p1 ++ sep :: p2 ∧
    fieldOk sep p0 = true ∧ fieldOk sep p1 = true ∧ fieldOk sep p2 = true ∧
    ((isoYear p0 = true ∧ dayS = p2 ∧ monthS = p1 ∧ yearS = p0 ∧ allDigits p1 = true ∧ allDigits p2 = true ∧
        fmt = ['y', 'y', 'y', 'y'] ++ [sep] ++ monthF ++ [sep] ++ dayF) ∨
     (isoYear p0 = false ∧ ℓ.dayFirst = true ∧ dayS = p0 ∧ monthS = p1 ∧ yearS = p2 ∧
        fmt = dayF ++ [sep] ++ monthF ++ [sep] ++ yearF) ∨
     (isoYear p0 = false ∧ ℓ.dayFirst = false ∧ dayS = p1 ∧ monthS = p0 ∧ yearS = p2 ∧
        fmt = monthF ++ [sep] ++ dayF ++ [sep] ++ yearF)) ∧
    parseDay dayS = some (day, dayF) ∧ parseMonth ℓ monthS = some (month, monthF) ∧
    parseYear yearS = some (year, yearF) ∧
    IronCalc.Dates.toSerial ⟨year, month, day⟩ = some (serial : Int) ∧
    1 ≤ serial ∧ serial ≤ 2958465

end IronCalc.Number
