import IronCalc.Generated.Names
/-
  C23 — model of the name readers/printers, evaluated on the table regenerated from the running
  code (`Generated/Names.lean`, see harness/src/suites/c23.rs::extract).

  Representation.  A function name is the `Nat` *code* of its UTF-8 bytes (big-endian base 256 below
  a leading 1: injective on byte strings, and the kernel compares codes with GMP arithmetic).
  When the model needs the structure of a name (prefix stripping, case folding) it decodes the code
  into its bytes.  Error spellings are lists of Unicode code points (the lexer advances by chars).

  Case folding.  `Functions::lookup` upper-cases the key with Rust's Unicode `to_uppercase`.  The
  model folds ASCII letters only (`upperAscii`, on bytes: bytes ≥ 0x80 are untouched).  The two agree
  on a string iff it is "ASCII-cased"; for every name in the table this is a checked obligation
  (`Generated.fnUpper` is Rust's answer), for other keys the harness only sends ASCII-cased keys to the
  ops that fold in the model and sends Rust's folded key with the others (`keyu`).
-/
namespace IronCalc.Names
open IronCalc.Generated.Names

/-! ### codes and bytes -/

/-- code of a byte string -/
def codeOf (bs : List Nat) : Nat := bs.foldl (fun a b => a * 256 + b) 1

/-- bytes of a code (inverse of `codeOf` on byte lists); fuel = number of base-256 digits -/
def bytesAux : Nat → Nat → List Nat → List Nat
  | 0, _, acc => acc
  | fuel+1, c, acc => if c ≤ 1 then acc else bytesAux fuel (c / 256) (c % 256 :: acc)

def bytesOf (c : Nat) : List Nat := bytesAux (c.log2 / 8 + 1) c []

/-- ASCII upper-casing of one byte / code point -/
def upperByte (b : Nat) : Nat := if 97 ≤ b ∧ b ≤ 122 then b - 32 else b

def upperAscii (bs : List Nat) : List Nat := bs.map upperByte

def isPrefix : List Nat → List Nat → Bool
  | [], _ => true
  | _ :: _, [] => false
  | a :: as, b :: bs => a == b && isPrefix as bs

/-- models `str::trim_start_matches(pat)`: removes the prefix `pat` as often as it matches
    (fuel = length of the string; every removal shortens it when `pat` is non-empty) -/
def stripAllAux (pat : List Nat) : Nat → List Nat → List Nat
  | 0, s => s
  | fuel+1, s => if pat ≠ [] ∧ isPrefix pat s then stripAllAux pat fuel (s.drop pat.length) else s

def stripAll (pat s : List Nat) : List Nat := stripAllAux pat s.length s

def ascii (s : String) : List Nat := s.toList.map Char.toNat

def xlfnXlws : List Nat := ascii "_xlfn._xlws."
def xlfn : List Nat := ascii "_xlfn."
def xlpm : List Nat := ascii "_xlpm."

/-! ### function lookup -/

/-- first index holding `key` -/
def findFrom (key : Nat) : List Nat → Nat → Option Nat
  | [], _ => none
  | c :: cs, i => bif Nat.beq c key then some i else findFrom key cs (i + 1)

/-- the localized names of language `L` (codes, `Function::into_iter()` order) -/
def names (L : Nat) : List Nat := fnCodes.getD L []

/-- models base/src/functions/mod.rs::Functions::lookup *after* the case folding: the first field
    equal to the folded key.  (The macro lists the fields in another order than
    `Function::into_iter()`; `Props/C23.lean: lookup_perm_invariant` shows the order is immaterial
    for a duplicate-free table, and the harness compares with the real `lookup` key by key.) -/
def lookupU (L : Nat) (ukey : Nat) : Option Nat := findFrom ukey (names L) 0

/-- models base/src/functions/mod.rs::Functions::lookup on an ASCII-cased key (bytes) -/
def lookupKey (L : Nat) (key : List Nat) : Option Nat := lookupU L (codeOf (upperAscii key))

def nameOf (L i : Nat) : Nat := (names L).getD i 0

/-! ### what `NAME(`…`)` resolves to: lexer + parser -/

/-- resolution of a call, same coding as `Generated.xlsxImport`:
    0 parse error, 1 NamedFunctionKind, 2 LambdaDefKind, 3 ImplicitIntersection, 4 SpillRangeOperator,
    10+i FunctionKind i -/
abbrev Res := Nat
def Res.perr : Res := 0
def Res.named : Res := 1
def Res.lambda : Res := 2
def Res.single : Res := 3
def Res.anchor : Res := 4
def Res.fn (i : Nat) : Res := 10 + i

/-- models, for an identifier `raw` (bytes, ASCII-cased) directly followed by `(` and `nargs` plain
    arguments and `)`:
    * base/src/expressions/lexer/mod.rs::next_token, identifier branch: a name whose folded form is the
      language's TRUE/FALSE word is a *boolean* token (before any function lookup);
    * base/src/expressions/parser/mod.rs::parse_primary, `TokenType::Boolean` arm (→ `Function::True` /
      `Function::False`) and `TokenType::Ident` arm: the `LAMBDA` special case (lambda.rs::parse_lambda
      rejects an empty argument list, and with the arguments `1,2` used by the harness the first item
      would have to be a parameter name), `_xlfn.SINGLE`, `_xlfn.ANCHORARRAY` (exactly one argument),
      then `lookup(trim_start_matches("_xlfn._xlws."))`, then `lookup(trim_start_matches("_xlfn."))`,
      else a `NamedFunctionKind`. -/
def resolveLookup (L : Nat) (raw : List Nat) : Res :=
  match lookupKey L (stripAll xlfnXlws raw) with
  | some f => Res.fn f
  | none =>
    match lookupKey L (stripAll xlfn raw) with
    | some f => Res.fn f
    | none => Res.named

def isLambdaWord (raw : List Nat) : Bool :=
  raw == ascii "_xlfn.LAMBDA" || upperAscii raw == ascii "LAMBDA"

def callKind (L : Nat) (raw : List Nat) (nargs : Nat) : Res :=
  if codeOf (upperAscii raw) = boolTrue.getD L 0 then Res.fn trueIdx
  else if codeOf (upperAscii raw) = boolFalse.getD L 0 then Res.fn falseIdx
  else if isLambdaWord raw = true then (if nargs = 1 then Res.lambda else Res.perr)
  else if raw = ascii "_xlfn.SINGLE" then (if nargs = 1 then Res.single else Res.perr)
  else if raw = ascii "_xlfn.ANCHORARRAY" then (if nargs = 1 then Res.anchor else Res.perr)
  else resolveLookup L raw

/-- the xlsx (export) name of function `i` -/
def xlsxOf (i : Nat) : Nat := xlsxNames.getD i 0

/-- what a localized / xlsx name is expected to resolve to: itself, except that the parser turns
    `LAMBDA(` into a lambda definition node (which prints back as `LAMBDA`) -/
def expected (i nargs : Nat) : Res :=
  if i = lambdaIdx then (if nargs = 1 then Res.lambda else Res.perr) else Res.fn i

/-! ### errors -/

/-- number of error kinds; index = declaration order of `enum Error`
    (REF NAME VALUE DIV NA NUM ERROR NIMPL SPILL CALC CIRC NULL) -/
def nErrors : Nat := 12

def errName (L e : Nat) : List Nat := (errNames.getD L []).getD e []

/-- first error in `order` whose spelling (from `tbl`) satisfies `p` -/
def firstErr (tbl : List (List Nat)) (p : List Nat → Bool) : List Nat → Option Nat
  | [] => none
  | e :: es => if p (tbl.getD e []) then some e else firstErr tbl p es

/-- models base/src/expressions/token.rs::get_error_by_name (tests ref, name, value, div, na, num,
    error, nimpl, spill, calc, circ, null in this order) -/
def errorOfName (L : Nat) (s : List Nat) : Option Nat :=
  firstErr (errNames.getD L []) (fun n => n == s) [0, 1, 2, 3, 4, 5, 6, 7, 8, 9, 10, 11]

/-- the spellings hard-coded in base/src/expressions/token.rs::get_error_by_english_name -/
def englishNames : List (List Nat) :=
  ["#REF!", "#NAME?", "#VALUE!", "#DIV/0!", "#N/A", "#NUM!", "#ERROR!", "#N/IMPL!", "#SPILL!",
   "#CALC!", "#CIRC!", "#NULL!"].map ascii

/-- models base/src/expressions/token.rs::get_error_by_english_name (also what the xlsx importer
    applies to the `<v>` of a `t="e"` cell) -/
def errorOfEnglish (s : List Nat) : Option Nat :=
  firstErr englishNames (fun n => n == s) [0, 1, 2, 3, 4, 5, 6, 7, 8, 9, 10, 11]

/-- the order in which base/src/expressions/lexer/mod.rs::consume_error tries the spellings:
    ref, name, value, div, na, num, error, nimpl, spill, calc, **null, circ** -/
def lexOrder : List Nat := [0, 1, 2, 3, 4, 5, 6, 7, 8, 9, 11, 10]

/-- models base/src/expressions/lexer/mod.rs::consume_error on the rest of the formula `text`
    (starting at the `#`): the first spelling in `lexOrder` that is a prefix; result = error and the
    number of chars consumed.  `none` = the `#` is taken as the spill operator. -/
def lexError (L : Nat) (text : List Nat) : Option (Nat × Nat) :=
  match firstErr (errNames.getD L []) (fun n => isPrefix n text) lexOrder with
  | some e => some (e, (errName L e).length)
  | none => none

/-- models `Display for Error` (table) -/
def display (e : Nat) : List Nat := errDisplay.getD e []

end IronCalc.Names
