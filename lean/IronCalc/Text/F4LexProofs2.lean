import IronCalc.Text.F4LexProofs
/-
  Helper lemmas for C34 at the level of a whole formula text, part 2:
  `cycleTokenText (renderTok t) = renderTok (advance t)` for Reference/Range tokens.
-/
namespace IronCalc.F4
open IronCalc.Codec IronCalc.Formula

theorem resolved0 (r : PRef) : resolvedCol 0 r = r.column ∧ resolvedRow 0 r = r.row := by
  unfold resolvedCol resolvedRow
  constructor <;> split <;> simp

/-- the text of a Reference token: prefix ++ cell -/
theorem renderTok_ref (cfg : LexCfg) (h : CfgOK cfg) (sh : Option (List Char)) (r : PRef) (hr : refOK r = true) :
    renderTok cfg (.ref sh r) =
      sheetPrefix cfg.cc sh ++ cellText r.column.toNat r.row.toNat r.absCol r.absRow := by
  have hg := refOK_inGrid r hr
  simp only [renderTok, h.a1, if_true]
  rw [printA1_pre _ 0 0 r hg, printA1_cell 0 0 r hg, (resolved0 r).1, (resolved0 r).2]

/-- the endpoints part of a Range token, by printed shape -/
def rangeBody (l r : PRef) : List Char :=
  if fullRowOf l r then colText l.column.toNat l.absCol ++ ':' :: colText r.column.toNat r.absCol
  else if fullColOf l r then rowText l.row.toNat l.absRow ++ ':' :: rowText r.row.toNat r.absRow
  else cellText l.column.toNat l.row.toNat l.absCol l.absRow ++ ':' ::
        cellText r.column.toNat r.row.toNat r.absCol r.absRow

theorem renderTok_range (cfg : LexCfg) (h : CfgOK cfg) (sh : Option (List Char)) (l r : PRef)
    (hl : refOK l = true) (hr : refOK r = true) :
    renderTok cfg (.range sh l r) = sheetPrefix cfg.cc sh ++ rangeBody l r := by
  have hgl := refOK_inGrid l hl
  have hgr := refOK_inGrid r hr
  simp only [renderTok, h.a1, if_true]
  rw [printRangeA1_pre _ l r hgl]
  congr 1
  unfold printRangeA1 rangeBody
  cases hfr : fullRowOf l r with
  | true =>
    rw [fullColOf_false_of_fullRow l r hfr, printA1_colonly 0 0 l hgl, printA1_colonly 0 0 r hgr,
      (resolved0 l).1, (resolved0 r).1]
    simp
  | false =>
    cases hfc : fullColOf l r with
    | true =>
      rw [printA1_rowonly 0 0 l hgl, printA1_rowonly 0 0 r hgr, (resolved0 l).2, (resolved0 r).2]
      simp
    | false =>
      rw [printA1_cell 0 0 l hgl, printA1_cell 0 0 r hgr, (resolved0 l).1, (resolved0 l).2,
        (resolved0 r).1, (resolved0 r).2]
      simp

theorem refOK_col (r : PRef) (h : refOK r = true) : 1 ≤ r.column.toNat := by
  simp only [refOK, Bool.and_eq_true, decide_eq_true_eq] at h
  omega

theorem bodyChar_of_ref (s : List Char) (h : s.all refChar = true) : s.all bodyChar = true :=
  all_mono (fun c hc => by simp [bodyChar, hc]) s h

theorem bodyChar_pair (a b : List Char) (ha : a.all refChar = true) (hb : b.all refChar = true) :
    (a ++ ':' :: b).all bodyChar = true := by
  rw [List.all_append, List.all_cons, bodyChar_of_ref a ha, bodyChar_of_ref b hb]
  decide

/-! ### flags and printed shape -/

theorem refOK_advRef (r : PRef) : refOK (advRef r) = refOK r := rfl
theorem refOK_toggleCol (r : PRef) : refOK (toggleCol r) = refOK r := rfl
theorem refOK_toggleRow (r : PRef) : refOK (toggleRow r) = refOK r := rfl

theorem fullRow_toggleCol (l r : PRef) : fullRowOf (toggleCol l) (toggleCol r) = fullRowOf l r := rfl

theorem fullRow_false_of_rows (l r : PRef) (h : (l.row == 1 && r.row == 1048576) = false) :
    fullRowOf l r = false := by
  unfold fullRowOf LAST_ROW
  cases hx : (l.absRow && r.absRow) <;> simp_all

theorem fullCol_false_of_cols (l r : PRef) (h : (l.column == 1 && r.column == 16384) = false) :
    fullColOf l r = false := by
  unfold fullColOf LAST_COLUMN
  cases hx : (l.absCol && r.absCol) <;> simp_all

/-- under `stable`, the printed shape of a range does not depend on the flags that F4 changes -/
theorem stable_shapes (sh : Option (List Char)) (l r : PRef) (hs : stable (.range sh l r) = true) :
    (fullRowOf l r = true ∧ fullRowOf (toggleCol l) (toggleCol r) = true) ∨
    (fullRowOf l r = false ∧ fullColOf l r = true ∧
      fullRowOf (toggleRow l) (toggleRow r) = false ∧ fullColOf (toggleRow l) (toggleRow r) = true) ∨
    (fullRowOf l r = false ∧ fullColOf l r = false ∧
      fullRowOf (advRef l) (advRef r) = false ∧ fullColOf (advRef l) (advRef r) = false) := by
  simp only [stable, Bool.or_eq_true, Bool.and_eq_true, Bool.not_eq_true'] at hs
  rcases hs with hs | ⟨hrows, hs⟩
  · exact Or.inl ⟨hs, hs⟩
  · have hfr := fullRow_false_of_rows l r hrows
    rcases hs with hfc | hcols
    · refine Or.inr (Or.inl ⟨hfr, hfc, fullRow_false_of_rows _ _ hrows, ?_⟩)
      have hfr' : fullRowOf (toggleRow l) (toggleRow r) = false := fullRow_false_of_rows _ _ hrows
      unfold fullColOf at hfc ⊢
      rw [hfr'] ; rw [hfr] at hfc
      exact hfc
    · refine Or.inr (Or.inr ⟨hfr, fullCol_false_of_cols l r hcols, fullRow_false_of_rows _ _ hrows,
        fullCol_false_of_cols _ _ hcols⟩)

theorem stable_advance (t : CTok) (hs : stable t = true) : stable (advance t) = true := by
  cases t with
  | range sh l r =>
    have hsh := stable_shapes sh l r hs
    simp only [stable, Bool.or_eq_true, Bool.and_eq_true, Bool.not_eq_true'] at hs
    rcases hsh with ⟨h1, h2⟩ | ⟨h1, h2, h3, h4⟩ | ⟨h1, h2, h3, h4⟩
    · simp only [advance, h1, if_true, stable, h2, Bool.true_or]
    · rcases hs with hs | ⟨hrows, _⟩
      · rw [hs] at h1; exact absurd h1 (by decide)
      · simp only [advance, h1, h2, if_true, Bool.false_eq_true, if_false, stable, h3, h4, Bool.false_or,
          Bool.true_or, Bool.and_true, Bool.not_eq_true']
        exact hrows
    · rcases hs with hs | ⟨hrows, hs⟩
      · rw [hs] at h1; exact absurd h1 (by decide)
      · rcases hs with hs | hcols
        · rw [hs] at h2; exact absurd h2 (by decide)
        · simp only [advance, h1, h2, Bool.false_eq_true, if_false, stable, h3, h4, Bool.false_or,
            Bool.and_eq_true, Bool.not_eq_true']
          exact ⟨hrows, hcols⟩
  | _ => simp [advance, stable]

theorem tokOK_advance (cfg : LexCfg) (ha1 : cfg.a1 = true) (t : CTok) (h : tokOK cfg t = true) :
    tokOK cfg (advance t) = true := by
  cases t with
  | ref sh r => simpa [advance, tokOK, ha1, refOK_advRef] using h
  | range sh l r =>
    simp only [advance]
    split
    · simpa [tokOK, ha1, refOK_toggleCol] using h
    · split
      · simpa [tokOK, ha1, refOK_toggleRow] using h
      · simpa [tokOK, ha1, refOK_advRef] using h
  | _ => simpa [advance] using h

theorem isRefTok_advance (t : CTok) : isRefTok (advance t) = isRefTok t := by
  cases t with
  | range sh l r =>
    by_cases h1 : fullRowOf l r = true <;> by_cases h2 : fullColOf l r = true <;>
      simp [advance, isRefTok, h1, h2]
  | _ => simp [advance, isRefTok]

/-! ### one press on the text of a token -/

/-- **Cycling the printed text of a Reference/Range token prints the token with its flags advanced.** -/
theorem cycleTokenText_renderTok (cfg : LexCfg) (h : CfgOK cfg) (t : CTok) (href : isRefTok t = true)
    (hok : tokOK cfg t = true) (hst : stable t = true) :
    cycleTokenText cfg.cc (renderTok cfg t) = renderTok cfg (advance t) := by
  cases t with
  | ref sh r =>
    simp only [tokOK, h.a1, if_true, Bool.and_eq_true] at hok
    obtain ⟨hsh, hr⟩ := hok
    have hc := refOK_col r hr
    rw [renderTok_ref cfg h sh r hr, advance, renderTok_ref cfg h sh (advRef r) hr,
      splitPrefix_sheet cfg h sh hsh _ (bodyChar_of_ref _ (cellText_refChar _ _ _ _)) (cellText_ne_nil _ _ _ _),
      cycleEndpoints_single _ (cellText_refChar ..), cycleEndpoint_cellText _ _ _ _ hc]
    rfl
  | range sh l r =>
    simp only [tokOK, h.a1, if_true, Bool.and_eq_true] at hok
    obtain ⟨hsh, hl, hr⟩ := hok
    have hcl := refOK_col l hl
    have hcr := refOK_col r hr
    rw [renderTok_range cfg h sh l r hl hr]
    rcases stable_shapes sh l r hst with ⟨h1, h2⟩ | ⟨h1, h2, h3, h4⟩ | ⟨h1, h2, h3, h4⟩
    · simp only [advance, h1, if_true]
      rw [renderTok_range cfg h sh (toggleCol l) (toggleCol r) hl hr]
      simp only [rangeBody, h1, h2, if_true]
      rw [splitPrefix_sheet cfg h sh hsh _ (bodyChar_pair _ _ (colText_refChar ..) (colText_refChar ..))
          (by simp),
        cycleEndpoints_pair _ _ (colText_refChar ..) (colText_refChar ..),
        cycleEndpoint_colText _ _ hcl, cycleEndpoint_colText _ _ hcr]
      rfl
    · simp only [advance, h1, h2, if_true, Bool.false_eq_true, if_false]
      rw [renderTok_range cfg h sh (toggleRow l) (toggleRow r) hl hr]
      simp only [rangeBody, h1, h2, h3, h4, if_true, Bool.false_eq_true, if_false]
      rw [splitPrefix_sheet cfg h sh hsh _ (bodyChar_pair _ _ (rowText_refChar ..) (rowText_refChar ..))
          (by simp),
        cycleEndpoints_pair _ _ (rowText_refChar ..) (rowText_refChar ..),
        cycleEndpoint_rowText, cycleEndpoint_rowText]
      rfl
    · simp only [advance, h1, h2, Bool.false_eq_true, if_false]
      rw [renderTok_range cfg h sh (advRef l) (advRef r) hl hr]
      simp only [rangeBody, h1, h2, h3, h4, Bool.false_eq_true, if_false]
      rw [splitPrefix_sheet cfg h sh hsh _ (bodyChar_pair _ _ (cellText_refChar ..) (cellText_refChar ..))
          (by simp),
        cycleEndpoints_pair _ _ (cellText_refChar ..) (cellText_refChar ..),
        cycleEndpoint_cellText _ _ _ _ hcl, cycleEndpoint_cellText _ _ _ _ hcr]
      rfl
  | _ => simp [isRefTok] at href

/-! ### four presses on a token -/

theorem advRef4 (r : PRef) : advRef (advRef (advRef (advRef r))) = r := by
  obtain ⟨c, w, a, b⟩ := r
  cases a <;> cases b <;> rfl

theorem advance4 (t : CTok) (hs : stable t = true) : advance (advance (advance (advance t))) = t := by
  cases t with
  | ref sh r => simp only [advance, advRef4]
  | range sh l r =>
    rcases stable_shapes sh l r hs with ⟨h1, h2⟩ | ⟨h1, h2, h3, h4⟩ | ⟨h1, h2, h3, h4⟩
    · have e : ∀ x : PRef, toggleCol (toggleCol x) = x := by
        intro x; obtain ⟨c, w, a, b⟩ := x; cases a <;> rfl
      simp only [advance, h1, h2, fullRow_toggleCol, if_true, e]
    · have e : ∀ x : PRef, toggleRow (toggleRow x) = x := by
        intro x; obtain ⟨c, w, a, b⟩ := x; cases b <;> rfl
      simp only [advance, h1, h2, h3, h4, if_true, Bool.false_eq_true, if_false, e]
    · -- the four states of a cell range are all printed as cells
      have hs1 := stable_advance _ hs
      simp only [advance, h1, h2, Bool.false_eq_true, if_false] at hs1
      rcases stable_shapes sh _ _ hs1 with ⟨k1, _⟩ | ⟨k1, k2, _, _⟩ | ⟨k1, k2, k3, k4⟩
      · rw [h3] at k1; exact absurd k1 (by decide)
      · rw [h4] at k2; exact absurd k2 (by decide)
      · have hs2 := stable_advance _ hs1
        simp only [advance, k1, k2, Bool.false_eq_true, if_false] at hs2
        rcases stable_shapes sh _ _ hs2 with ⟨m1, _⟩ | ⟨m1, m2, _, _⟩ | ⟨m1, m2, m3, m4⟩
        · rw [k3] at m1; exact absurd m1 (by decide)
        · rw [k4] at m2; exact absurd m2 (by decide)
        · simp only [advance, h1, h2, h3, h4, k3, k4, m3, m4, Bool.false_eq_true, if_false, advRef4]
  | _ => simp [advance]

/-- whole-column and whole-row ranges return after two presses -/
theorem advance2_open (sh : Option (List Char)) (l r : PRef) (hs : stable (.range sh l r) = true)
    (hopen : (fullRowOf l r || fullColOf l r) = true) :
    advance (advance (.range sh l r)) = .range sh l r := by
  rcases stable_shapes sh l r hs with ⟨h1, h2⟩ | ⟨h1, h2, h3, h4⟩ | ⟨h1, h2, h3, h4⟩
  · have e : ∀ x : PRef, toggleCol (toggleCol x) = x := by
      intro x; obtain ⟨c, w, a, b⟩ := x; cases a <;> rfl
    simp only [advance, h1, h2, if_true, e]
  · have e : ∀ x : PRef, toggleRow (toggleRow x) = x := by
      intro x; obtain ⟨c, w, a, b⟩ := x; cases b <;> rfl
    simp only [advance, h1, h2, h3, h4, if_true, Bool.false_eq_true, if_false, e]
  · rw [h1, h2] at hopen; exact absurd hopen (by decide)

end IronCalc.F4
