import IronCalc.Text.F4LexProofs3
/-
  Helper lemmas for C34 at the level of a whole formula text, part 4: one press on a site.
-/
namespace IronCalc.F4
open IronCalc.Codec IronCalc.Formula

/-- `cycle_reference` when exactly one span is touched by the cursor: the spans before it end
    before the selection, the spans after it start after the selection.  Pure text surgery:
    `=X R Y` becomes `=X (cycle R) Y`, the cursor lands on the cycled token. -/
theorem cycleReference_site (cc : CharClass) (X R Y : List Char) (A C : List (Nat × Nat))
    (start stop : Nat)
    (hA : ∀ sp, sp ∈ A → sp.2 + 1 ≤ X.length)
    (hC : ∀ sp, sp ∈ C → X.length + R.length + 1 ≤ sp.1)
    (hw : R.takeWhile cc.white = [])
    (h1 : X.length + 1 ≤ min start stop) (h2 : max start stop ≤ X.length + R.length + 1) :
    cycleReference cc (A ++ (X.length, X.length + R.length) :: C) ('=' :: (X ++ (R ++ Y))) start stop =
      some ('=' :: (X ++ (cycleTokenText cc R ++ Y)),
        if start = stop then X.length + (cycleTokenText cc R).length + 1 else X.length + 1,
        X.length + (cycleTokenText cc R).length + 1) := by
  have hmin : min start stop ≤ max start stop := by omega
  have hlen : ('=' :: (X ++ (R ++ Y))).length = 1 + (X.length + (R.length + Y.length)) := by
    simp [List.length_append]; omega
  have hb : ¬ (start > ('=' :: (X ++ (R ++ Y))).length ∨ stop > ('=' :: (X ++ (R ++ Y))).length) := by
    rw [hlen]; omega
  unfold cycleReference
  have hb' : (decide (start > ('=' :: (X ++ (R ++ Y))).length) ||
      decide (stop > ('=' :: (X ++ (R ++ Y))).length)) = false := by
    simp only [Bool.or_eq_false_iff, decide_eq_false_iff_not]
    exact ⟨fun h => hb (Or.inl h), fun h => hb (Or.inr h)⟩
  simp only [hb', Bool.false_eq_true, if_false, ne_eq, not_true_eq_false]
  rw [List.foldl_append, List.foldl_cons]
  rw [foldl_skip cc _ _ _ A _ (fun sp hsp => Or.inr (by have := hA sp hsp; omega))]
  -- the touched span
  have ht : stepToken cc (X ++ (R ++ Y)) (min start stop) (max start stop)
      { result := ['='], copied := 0, first := none, last := 0 } (X.length, X.length + R.length) =
      { result := '=' :: (X ++ cycleTokenText cc R), copied := X.length + R.length,
        first := some (X.length + 1), last := X.length + (cycleTokenText cc R).length + 1 } := by
    unfold stepToken
    have hc : (decide (X.length + 1 > max start stop) || decide (min start stop > X.length + R.length + 1)) = false := by
      simp only [Bool.or_eq_false_iff, decide_eq_false_iff_not]; omega
    simp only [hc, Bool.false_eq_true, if_false, Nat.add_sub_cancel]
    have e1 : (X ++ (R ++ Y)).take X.length = X := by
      have := take_app_len X (R ++ Y) 0; simpa using this
    have e2 : ((X ++ (R ++ Y)).take (X.length + R.length)).drop X.length = R := by
      rw [take_app_len X (R ++ Y) R.length]
      have : (R ++ Y).take R.length = R := by
        have := take_app_len R Y 0; simpa using this
      rw [this]
      have := drop_app_len X R 0; simpa using this
    simp only [e1, e2, List.drop_zero, hw, List.length_nil, Nat.add_zero]
    simp [List.length_append]
  rw [ht]
  rw [foldl_skip cc _ _ _ C _ (fun sp hsp => Or.inl (by have := hC sp hsp; omega))]
  simp only
  have e3 : (X ++ (R ++ Y)).drop (X.length + R.length) = Y := by
    rw [drop_app_len X (R ++ Y) R.length]
    have := drop_app_len R Y 0; simpa using this
  rw [e3]
  by_cases hse : start = stop
  · simp [hse]
  · simp [hse]

/-- the decidable side condition of a *site*: the token under the cursor is a Reference/Range token
    whose printed shape is stable under `$` changes, every token is well formed, the neighbouring
    tokens are not themselves references, and no two adjacent tokens glue (LexGlue) -/
def siteOK (cfg : LexCfg) (pre : List CTok) (t : CTok) (post : List CTok) : Bool :=
  isRefTok t && stable t && (pre ++ t :: post).all (tokOK cfg) && lastNotRef pre && headNotRef post &&
    glueFree cfg (pre ++ t :: post)

theorem refSpans_site (cfg : LexCfg) (h : CfgOK cfg) (pre : List CTok) (t : CTok) (post : List CTok)
    (hs : siteOK cfg pre t post = true) :
    ∃ A C, refSpans cfg (render cfg (pre ++ t :: post)) =
        A ++ ((render cfg pre).length, (render cfg pre).length + (renderTok cfg t).length) :: C ∧
      (∀ sp, sp ∈ A → sp.2 + 1 ≤ (render cfg pre).length) ∧
      (∀ sp, sp ∈ C → (render cfg pre).length + (renderTok cfg t).length + 1 ≤ sp.1) := by
  simp only [siteOK, Bool.and_eq_true] at hs
  obtain ⟨⟨⟨⟨⟨href, _⟩, hok⟩, hlast⟩, hhead⟩, hg⟩ := hs
  have hok2 := hok
  rw [List.all_append, List.all_cons] at hok2
  simp only [Bool.and_eq_true] at hok2
  obtain ⟨hokpre, _, hokpost⟩ := hok2
  rw [refSpans_render cfg h _ hok hg, spansOf_append, List.filter_append, List.map_append]
  simp only [spansOf, Nat.zero_add]
  rw [List.filter_cons]
  simp only [href, if_true, List.map_cons]
  refine ⟨_, _, rfl, ?_, ?_⟩
  · intro sp hsp
    simp only [List.mem_map, List.mem_filter] at hsp
    obtain ⟨m, ⟨hm, hr⟩, rfl⟩ := hsp
    have := pre_spans_before cfg h pre 0 hokpre hlast m hm hr
    omega
  · intro sp hsp
    simp only [List.mem_map, List.mem_filter] at hsp
    obtain ⟨m, ⟨hm, hr⟩, rfl⟩ := hsp
    have := post_spans_after cfg h post _ hokpost hhead m hm hr
    omega

/-- **One press on a site.** -/
theorem cycleReferenceLex_site (cfg : LexCfg) (h : CfgOK cfg) (pre : List CTok) (t : CTok) (post : List CTok)
    (hs : siteOK cfg pre t post = true) (start stop : Nat)
    (h1 : (render cfg pre).length + 1 ≤ min start stop)
    (h2 : max start stop ≤ (render cfg pre).length + (renderTok cfg t).length + 1) :
    cycleReferenceLex cfg ('=' :: render cfg (pre ++ t :: post)) start stop =
      some ('=' :: render cfg (pre ++ advance t :: post),
        if start = stop then (render cfg pre).length + (renderTok cfg (advance t)).length + 1
        else (render cfg pre).length + 1,
        (render cfg pre).length + (renderTok cfg (advance t)).length + 1) := by
  obtain ⟨A, C, hsp, hA, hC⟩ := refSpans_site cfg h pre t post hs
  simp only [siteOK, Bool.and_eq_true] at hs
  obtain ⟨⟨⟨⟨⟨href, hst⟩, hok⟩, _⟩, _⟩, _⟩ := hs
  have hokt : tokOK cfg t = true := by
    rw [List.all_append, List.all_cons] at hok
    simp only [Bool.and_eq_true] at hok
    exact hok.2.1
  unfold cycleReferenceLex
  simp only [valueSpans, if_true]
  rw [hsp, render_append, render_cons, render_append, render_cons,
    cycleReference_site cfg.cc _ _ _ A C start stop hA hC (renderTok_head_notWhite cfg h t href hokt) h1 h2,
    cycleTokenText_renderTok cfg h t href hokt hst]

end IronCalc.F4
