import IronCalc.Formula.RoundTrip
/-
  The parser's image is well-formed: every tree `P` returns satisfies `Node.wf` — so the
  hypothesis of the round-trip theorems is met by everything the parser can produce
  (non-vacuity of `wf` as "the parser's image").
-/
namespace IronCalc.Formula

variable (iv : Nat → Bool)

def ImageOK (f : Nat) : Prop :=
  (∀ L ts n r, P iv f L ts = some (n, r) → n.wf iv = true) ∧
  (∀ l acc ts n r, acc.wf iv = true → LB iv f l acc ts = some (n, r) → n.wf iv = true) ∧
  (∀ ng ts n r, PS iv f ng ts = some (n, r) → n.wf iv = true) ∧
  (∀ acc ts n r, acc.wf iv = true → LP iv f acc ts = some (n, r) → n.wf iv = true) ∧
  (∀ ts as r, PA iv f ts = some (as, r) → as.wf iv = true ∧ as.notSingleEmpty = true) ∧
  (∀ ts as r, PT iv f ts = some (as, r) →
      as.wf iv = true ∧ (∀ r0, ts = Tok.sep :: r0 → as ≠ Args.nil)) ∧
  (∀ ps ts n r, ps.all (fun p => iv p.1) = true → PLam iv f ps ts = some (n, r) → n.wf iv = true) ∧
  (∀ ps br e ts n r, ps.all (fun p => iv p.1) = true → e.wf iv = true →
      PLamItem iv f ps br e ts = some (n, r) → n.wf iv = true)

theorem imageOK_zero : ImageOK iv 0 := by
  refine ⟨?_, ?_, ?_, ?_, ?_, ?_, ?_, ?_⟩ <;> intros <;> simp_all [P, LB, PS, LP, PA, PT, PLam, PLamItem]

theorem image_P {f : Nat} (ih : ImageOK iv f) :
    ∀ L ts n r, P iv (f+1) L ts = some (n, r) → n.wf iv = true := by
  obtain ⟨ihP, ihLB, ihPS, _, ihPA, _, ihPLam, _⟩ := ih
  intro L ts n r h
  rw [P.eq_def] at h
  simp only at h
  split at h
  · -- binary level
    split at h
    · next a r1 h1 => exact ihLB _ _ _ _ _ (ihP _ _ _ _ h1) h
    · cases h
  · split at h
    · exact ihPS _ _ _ _ h
    · split at h
      · -- range level
        split at h
        · next a r1 h1 =>
          split at h
          · next b r2 h2 =>
            simp only [Option.some.injEq, Prod.mk.injEq] at h
            obtain ⟨rfl, rfl⟩ := h
            simp [Node.wf, ihP _ _ _ _ h1, ihP _ _ _ _ h2]
          · cases h
        · next a r1 h1 =>
          simp only [Option.some.injEq, Prod.mk.injEq] at h
          obtain ⟨rfl, rfl⟩ := h
          exact ihP _ _ _ _ h1
        · cases h
      · split at h
        · -- implicit level
          split at h
          · split at h
            · next a r2 h2 =>
              simp only [Option.some.injEq, Prod.mk.injEq] at h
              obtain ⟨rfl, rfl⟩ := h
              simp [Node.wf, ihP _ _ _ _ h2]
            · cases h
          · split at h
            · next a r1 h1 =>
              simp only [Option.some.injEq, Prod.mk.injEq] at h
              obtain ⟨rfl, rfl⟩ := h
              simp [Node.wf, ihP _ _ _ _ h1]
            · next a r1 h1 =>
              simp only [Option.some.injEq, Prod.mk.injEq] at h
              obtain ⟨rfl, rfl⟩ := h
              exact ihP _ _ _ _ h1
            · cases h
        · -- primary
          split at h
          · split at h
            · next a r2 h2 =>
              simp only [Option.some.injEq, Prod.mk.injEq] at h
              obtain ⟨rfl, rfl⟩ := h
              exact ihP _ _ _ _ h2
            · cases h
          · simp only [Option.some.injEq, Prod.mk.injEq] at h
            obtain ⟨rfl, rfl⟩ := h
            rfl
          · split at h
            · exact ihPLam _ _ _ _ (by simp) h
            · split at h
              · next as r2 h2 =>
                simp only [Option.some.injEq, Prod.mk.injEq] at h
                obtain ⟨rfl, rfl⟩ := h
                have := ihPA _ _ _ h2
                simp [Node.wf, this.1, this.2]
                assumption
              · cases h
          · simp only [Option.some.injEq, Prod.mk.injEq] at h
            obtain ⟨rfl, rfl⟩ := h
            rfl
          · cases h

theorem image_LB {f : Nat} (ih : ImageOK iv f) :
    ∀ l acc ts n r, acc.wf iv = true → LB iv (f+1) l acc ts = some (n, r) → n.wf iv = true := by
  obtain ⟨ihP, ihLB, _, _, _, _, _, _⟩ := ih
  intro l acc ts n r hacc h
  cases ts with
  | nil => simp [LB] at h; obtain ⟨rfl, _⟩ := h; exact hacc
  | cons t rest =>
    cases t with
    | op o =>
      simp only [LB] at h
      split at h
      · split at h
        · next b r1 h1 =>
          exact ihLB _ _ _ _ _ (by simp [Node.wf, hacc, ihP _ _ _ _ h1]) h
        · cases h
      · simp only [Option.some.injEq, Prod.mk.injEq] at h
        obtain ⟨rfl, _⟩ := h; exact hacc
    | _ => simp [LB] at h; obtain ⟨rfl, _⟩ := h; exact hacc

theorem image_LP {f : Nat} (ih : ImageOK iv f) :
    ∀ acc ts n r, acc.wf iv = true → LP iv (f+1) acc ts = some (n, r) → n.wf iv = true := by
  obtain ⟨_, _, _, ihLP, _, _, _, _⟩ := ih
  intro acc ts n r hacc h
  cases ts with
  | nil => simp [LP] at h; obtain ⟨rfl, _⟩ := h; exact hacc
  | cons t rest =>
    cases t with
    | pct =>
      simp only [LP] at h
      exact ihLP _ _ _ _ (by simpa [Node.wf] using hacc) h
    | _ => simp [LP] at h; obtain ⟨rfl, _⟩ := h; exact hacc

theorem image_PS_other {f : Nat} (ih : ImageOK iv f) (ng : Bool) (ts : List Tok) (n : Node)
    (r : List Tok)
    (h : (match P iv f 6 ts with
          | some (a, r) => LP iv f (if ng then Node.neg a else a) r
          | none => none) = some (n, r)) : n.wf iv = true := by
  obtain ⟨ihP, _, _, ihLP, _, _, _, _⟩ := ih
  split at h
  · next a r1 h1 =>
    refine ihLP _ _ _ _ ?_ h
    have := ihP _ _ _ _ h1
    split <;> simp [Node.wf, this]
  · cases h

theorem image_PS {f : Nat} (ih : ImageOK iv f) :
    ∀ ng ts n r, PS iv (f+1) ng ts = some (n, r) → n.wf iv = true := by
  have ihPS := ih.2.2.1
  intro ng ts n r h
  cases ts with
  | nil => simp only [PS] at h; exact image_PS_other iv ih ng [] n r h
  | cons t rest =>
    cases t with
    | op o =>
      cases o with
      | add => simp only [PS] at h; exact ihPS _ _ _ _ h
      | sub => simp only [PS] at h; exact ihPS _ _ _ _ h
      | _ => simp only [PS] at h; exact image_PS_other iv ih ng _ n r h
    | _ => simp only [PS] at h; exact image_PS_other iv ih ng _ n r h

theorem image_PT_expr {f : Nat} (ih : ImageOK iv f) (r : List Tok) (as : Args) (r' : List Tok)
    (h : (match P iv f 0 r with
          | some (a, r1) =>
              (match PT iv f r1 with
               | some (rest, r') => some (Args.consN a rest, r')
               | none => none)
          | none => none) = some (as, r')) : as.wf iv = true ∧ as ≠ Args.nil := by
  obtain ⟨ihP, _, _, _, _, ihPT, _, _⟩ := ih
  split at h
  · next a r1 h1 =>
    split at h
    · next rest r2 h2 =>
      simp only [Option.some.injEq, Prod.mk.injEq] at h
      obtain ⟨rfl, _⟩ := h
      exact ⟨by simp [Args.wf, ihP _ _ _ _ h1, (ihPT _ _ _ h2).1], fun hc => by cases hc⟩
    · cases h
  · cases h

theorem image_PT {f : Nat} (ih : ImageOK iv f) :
    ∀ ts as r, PT iv (f+1) ts = some (as, r) →
      as.wf iv = true ∧ (∀ r0, ts = Tok.sep :: r0 → as ≠ Args.nil) := by
  have ihPT := ih.2.2.2.2.2.1
  intro ts as r h
  cases ts with
  | nil =>
    simp [PT] at h; obtain ⟨rfl, _⟩ := h
    exact ⟨rfl, fun _ hc => by cases hc⟩
  | cons t rest =>
    cases t with
    | sep =>
      cases rest with
      | nil =>
        simp only [PT] at h
        have := image_PT_expr iv ih [] as r h
        exact ⟨this.1, fun _ _ => this.2⟩
      | cons t2 rest2 =>
        cases t2 with
        | sep =>
          simp only [PT] at h
          split at h
          · next rest3 r1 h1 =>
            simp only [Option.some.injEq, Prod.mk.injEq] at h
            obtain ⟨rfl, _⟩ := h
            exact ⟨by simpa [Args.wf] using (ihPT _ _ _ h1).1, fun _ _ hc => by cases hc⟩
          · cases h
        | rp =>
          simp only [PT, Option.some.injEq, Prod.mk.injEq] at h
          obtain ⟨rfl, _⟩ := h
          exact ⟨rfl, fun _ _ hc => by cases hc⟩
        | _ =>
          simp only [PT] at h
          have := image_PT_expr iv ih _ as r h
          exact ⟨this.1, fun _ _ => this.2⟩
    | _ =>
      simp [PT] at h; obtain ⟨rfl, _⟩ := h
      exact ⟨rfl, fun _ hc => by cases hc⟩

theorem image_PA_expr {f : Nat} (ih : ImageOK iv f) (ts : List Tok) (as : Args) (r' : List Tok)
    (h : (match P iv f 0 ts with
          | some (a, r) =>
              (match PT iv f r with
               | some (rest, r') => some (Args.consN a rest, r')
               | none => none)
          | none => none) = some (as, r')) : as.wf iv = true ∧ as.notSingleEmpty = true := by
  have := image_PT_expr iv ih ts as r' h
  refine ⟨this.1, ?_⟩
  obtain ⟨ihP, _, _, _, _, ihPT, _, _⟩ := ih
  split at h
  · split at h
    · simp only [Option.some.injEq, Prod.mk.injEq] at h
      obtain ⟨rfl, _⟩ := h; rfl
    · cases h
  · cases h

theorem image_PA {f : Nat} (ih : ImageOK iv f) :
    ∀ ts as r, PA iv (f+1) ts = some (as, r) → as.wf iv = true ∧ as.notSingleEmpty = true := by
  have ihPT := ih.2.2.2.2.2.1
  intro ts as r h
  cases ts with
  | nil => simp only [PA] at h; exact image_PA_expr iv ih [] as r h
  | cons t rest =>
    cases t with
    | rp =>
      simp only [PA, Option.some.injEq, Prod.mk.injEq] at h
      obtain ⟨rfl, _⟩ := h; exact ⟨rfl, rfl⟩
    | sep =>
      simp only [PA] at h
      split at h
      · next rest3 r1 h1 =>
        simp only [Option.some.injEq, Prod.mk.injEq] at h
        obtain ⟨rfl, _⟩ := h
        have := ihPT _ _ _ h1
        refine ⟨by simpa [Args.wf] using this.1, ?_⟩
        have hne := this.2 rest rfl
        cases rest3 with
        | nil => exact absurd rfl hne
        | consE _ => rfl
        | consN _ _ => rfl
      · cases h
    | _ => simp only [PA] at h; exact image_PA_expr iv ih _ as r h

theorem image_PLam {f : Nat} (ih : ImageOK iv f) :
    ∀ ps ts n r, ps.all (fun p => iv p.1) = true → PLam iv (f+1) ps ts = some (n, r) →
      n.wf iv = true := by
  obtain ⟨ihP, _, _, _, _, _, _, ihItem⟩ := ih
  intro ps ts n r hps h
  have other : ∀ ts', (match P iv f 0 ts' with
      | some (e, r2) => PLamItem iv f ps false e r2
      | none => none) = some (n, r) → n.wf iv = true := by
    intro ts' h'
    split at h'
    · next e r2 h1 => exact ihItem _ _ _ _ _ _ hps (ihP _ _ _ _ h1) h'
    · cases h'
  cases ts with
  | nil => simp only [PLam] at h; exact other _ h
  | cons t rest =>
    cases t with
    | lbk =>
      simp only [PLam] at h
      split at h
      · next e r2 h1 => exact ihItem _ _ _ _ _ _ hps (ihP _ _ _ _ h1) h
      · cases h
    | _ => simp only [PLam] at h; exact other _ h

theorem all_append_single (ps : List (Nat × Bool)) (x : Nat) (br : Bool)
    (hps : ps.all (fun p => iv p.1) = true) (hx : iv x = true) :
    (ps ++ [(x, br)]).all (fun p => iv p.1) = true := by
  simp [List.all_append, hps, hx]

theorem image_PLamItem {f : Nat} (ih : ImageOK iv f) :
    ∀ ps br e ts n r, ps.all (fun p => iv p.1) = true → e.wf iv = true →
      PLamItem iv (f+1) ps br e ts = some (n, r) → n.wf iv = true := by
  obtain ⟨_, _, _, _, ihPA, _, ihPLam, _⟩ := ih
  intro ps br e ts n r hps he h
  have hlam : (Node.lam ps e).wf iv = true := by rw [Node.wf]; simp [hps, he]
  have hcall : ∀ as : Args, as.wf iv = true → as.notSingleEmpty = true →
      (Node.lamcall ps e as).wf iv = true := by
    intro as h1 h2; rw [Node.wf]; simp [hps, he, h1, h2]
  -- the closing cases, shared by every shape of `e`
  have closing : ∀ rest,
      PLamItem iv (f+1) ps br e (Tok.rp :: rest) = some (n, r) → n.wf iv = true := by
    intro rest h'
    cases rest with
    | nil =>
      cases e <;> simp only [PLamItem, Option.some.injEq, Prod.mk.injEq] at h' <;>
        (obtain ⟨rfl, _⟩ := h'; exact hlam)
    | cons t2 r4 =>
      cases t2 with
      | lp =>
        cases e <;> simp only [PLamItem] at h' <;>
          (split at h'
           · next as r5 h2 =>
             simp only [Option.some.injEq, Prod.mk.injEq] at h'
             obtain ⟨rfl, _⟩ := h'
             have := ihPA _ _ _ h2
             exact hcall _ this.1 this.2
           · cases h')
      | _ =>
        cases e <;> simp only [PLamItem, Option.some.injEq, Prod.mk.injEq] at h' <;>
          (obtain ⟨rfl, _⟩ := h'; exact hlam)
  cases ts with
  | nil => cases e <;> simp [PLamItem] at h
  | cons t rest =>
    cases t with
    | sep =>
      cases e with
      | name x =>
        simp only [PLamItem] at h
        split at h
        · next hx => exact ihPLam _ _ _ _ (all_append_single iv ps x br hps hx) h
        · cases h
      | _ => simp [PLamItem] at h
    | rp => exact closing rest h
    | _ => cases e <;> simp [PLamItem] at h

/-- every fuel level is OK -/
theorem imageOK (f : Nat) : ImageOK iv f := by
  induction f with
  | zero => exact imageOK_zero iv
  | succ f ih =>
    exact ⟨image_P iv ih, image_LB iv ih, image_PS iv ih, image_LP iv ih, image_PA iv ih,
      image_PT iv ih, image_PLam iv ih, image_PLamItem iv ih⟩

/-- **the parser's image is well-formed** -/
theorem parse_image_wf (f L : Nat) (ts : List Tok) (n : Node) (r : List Tok)
    (h : P iv f L ts = some (n, r)) : n.wf iv = true :=
  (imageOK iv f).1 L ts n r h

end IronCalc.Formula
