import IronCalc.Formula.Syntax
/-
  C09, character level — which tokens the printer model `pr T e` puts next to each other.
  Purely combinatorial (no characters): every adjacent pair of `pr T e` is of a shape that cannot
  glue (`adjOK`), provided the tree has no *glue site*: an `OpRange` whose left operand, printed
  without parentheses, ends in a value token that is not colon-safe (`cs`).
-/
namespace IronCalc.Formula

/-- no character written after the token's text changes how it is read -/
def Tok.inert : Tok → Bool
  | .op (.cmp _) => false
  | .lit _ _ => false
  | .ident _ => false
  | .hash => false
  | _ => true

/-- value-like tokens: a following character may glue to them -/
def Tok.value : Tok → Bool
  | .lit _ _ => true
  | .ident _ => true
  | .hash => true
  | _ => false

def Tok.isIdent : Tok → Bool
  | .ident _ => true
  | _ => false

/-- tokens an expression can start with -/
def Tok.opener : Tok → Bool
  | .lp => true | .lit _ _ => true | .ident _ => true | .op .sub => true | .at => true
  | _ => false

/-- punctuation that can follow an expression (its text starts with a character that glues to no
    value token) -/
def Tok.follower : Tok → Bool
  | .rp => true | .op _ => true | .pct => true | .hash => true | .sep => true | .rbk => true
  | _ => false

/-- tokens an expression can end with -/
def Tok.ender : Tok → Bool
  | .rp => true | .pct => true | .hash => true | .lit _ _ => true | .ident _ => true
  | _ => false

/-- may `u` be written directly after `t`?  `cs t`: "`t` is safe before a colon" -/
def adjOK (cs : Tok → Bool) (t u : Tok) : Bool :=
  t.inert ||
  (match t with | .op (.cmp _) => u.opener | _ => false) ||
  (t.value && (u.follower || (u == Tok.colon && cs t) || (t.isIdent && u == Tok.lp)))

def chainOK (R : Tok → Tok → Bool) : List Tok → Bool
  | [] => true
  | [_] => true
  | t :: u :: r => R t u && chainOK R (u :: r)

theorem chainOK_append (R : Tok → Tok → Bool) (A B : List Tok) (hA : chainOK R A = true)
    (hB : chainOK R B = true)
    (h : ∀ t u, A.getLast? = some t → B.head? = some u → R t u = true) :
    chainOK R (A ++ B) = true := by
  induction A with
  | nil => simpa using hB
  | cons t A ih =>
    cases A with
    | nil =>
      cases B with
      | nil => rfl
      | cons u B' =>
        simp only [List.cons_append, List.nil_append, chainOK, Bool.and_eq_true]
        exact ⟨h t u rfl rfl, hB⟩
    | cons u A' =>
      simp only [chainOK, Bool.and_eq_true] at hA
      simp only [List.cons_append, chainOK, Bool.and_eq_true]
      refine ⟨hA.1, ?_⟩
      apply ih hA.2
      intro t' u' ht' hu'
      exact h t' u' (by simpa [List.getLast?_cons_cons] using ht') hu'

theorem ender_follower (cs : Tok → Bool) (t u : Tok) (ht : t.ender = true) (hu : u.follower = true) :
    adjOK cs t u = true := by
  cases t <;> simp_all [Tok.ender, adjOK, Tok.inert, Tok.value]

theorem inert_adj (cs : Tok → Bool) (t u : Tok) (ht : t.inert = true) : adjOK cs t u = true := by
  simp [adjOK, ht]

/-- a non-empty expression segment: chained, starts with an opener, ends with an ender -/
structure ESeg (cs : Tok → Bool) (L : List Tok) : Prop where
  chain : chainOK (adjOK cs) L = true
  first : ∃ t, L.head? = some t ∧ t.opener = true
  last : ∃ t, L.getLast? = some t ∧ t.ender = true

theorem ESeg.ne {cs : Tok → Bool} {L : List Tok} (h : ESeg cs L) : L ≠ [] := by
  obtain ⟨t, ht, _⟩ := h.first
  intro e; subst e; simp at ht

theorem eseg_single (cs : Tok → Bool) (t : Tok) (ho : t.opener = true) (he : t.ender = true) :
    ESeg cs [t] := ⟨rfl, ⟨t, rfl, ho⟩, ⟨t, rfl, he⟩⟩

theorem getLast?_append_ne {A B : List Tok} (hB : B ≠ []) : (A ++ B).getLast? = B.getLast? := by
  rw [List.getLast?_append]
  cases h : B.getLast? with
  | none => simp [List.getLast?_eq_none_iff] at h; exact absurd h hB
  | some b => simp

theorem head?_append_ne {A B : List Tok} (hA : A ≠ []) : (A ++ B).head? = A.head? := by
  cases A with
  | nil => exact absurd rfl hA
  | cons a t => rfl

/-- `( X )` -/
theorem eseg_paren (cs : Tok → Bool) (X : List Tok) (hX : ESeg cs X) :
    ESeg cs (Tok.lp :: X ++ [Tok.rp]) := by
  obtain ⟨t, hl, he⟩ := hX.last
  refine ⟨?_, ⟨Tok.lp, rfl, rfl⟩, ⟨Tok.rp, ?_, rfl⟩⟩
  · have h1 : chainOK (adjOK cs) ([Tok.lp] ++ X) = true :=
      chainOK_append _ [Tok.lp] X rfl hX.chain (fun t u ht _ => by
        simp at ht; subst ht; exact inert_adj cs _ u rfl)
    have h2 := chainOK_append _ ([Tok.lp] ++ X) [Tok.rp] h1 rfl (fun t' u ht' hu => by
      rw [getLast?_append_ne hX.ne, hl] at ht'
      simp at ht' hu
      subst ht' hu
      exact ender_follower cs _ _ he rfl)
    simpa using h2
  · rw [show Tok.lp :: X ++ [Tok.rp] = (Tok.lp :: X) ++ [Tok.rp] by simp, getLast?_append_ne (by simp)]
    rfl

theorem eseg_wrap (cs : Tok → Bool) (b : Bool) (X : List Tok) (hX : ESeg cs X) :
    ESeg cs (wrap b X) := by
  unfold wrap
  cases b with
  | true => simpa using eseg_paren cs X hX
  | false => simpa using hX

/-- `A o B` for an operator token `o` -/
theorem eseg_bin (cs : Tok → Bool) (A B : List Tok) (o : BinOp) (hA : ESeg cs A) (hB : ESeg cs B) :
    ESeg cs (A ++ Tok.op o :: B) := by
  obtain ⟨ta, hla, hea⟩ := hA.last
  obtain ⟨tb, hfb, hob⟩ := hB.first
  obtain ⟨ta', hfa, hoa⟩ := hA.first
  obtain ⟨tb', hlb, heb⟩ := hB.last
  have hoB : chainOK (adjOK cs) ([Tok.op o] ++ B) = true :=
    chainOK_append _ [Tok.op o] B rfl hB.chain (fun t u ht hu => by
      simp at ht; subst ht
      rw [hfb] at hu; simp at hu; subst hu
      cases o <;> simp [adjOK, Tok.inert, hob])
  refine ⟨?_, ⟨ta', by rw [head?_append_ne hA.ne]; exact hfa, hoa⟩,
    ⟨tb', by rw [show A ++ Tok.op o :: B = (A ++ [Tok.op o]) ++ B by simp, getLast?_append_ne hB.ne]; exact hlb, heb⟩⟩
  exact chainOK_append _ A (Tok.op o :: B) hA.chain (by simpa using hoB) (fun t u ht hu => by
    rw [hla] at ht; simp at ht hu; subst ht hu
    exact ender_follower cs _ _ hea rfl)

/-- `p X` for an inert opener `p` (`-`, `@`) -/
theorem eseg_prefix (cs : Tok → Bool) (p : Tok) (X : List Tok) (hp : p.inert = true)
    (hpo : p.opener = true) (hX : ESeg cs X) : ESeg cs (p :: X) := by
  obtain ⟨t, hl, he⟩ := hX.last
  refine ⟨?_, ⟨p, rfl, hpo⟩, ⟨t, ?_, he⟩⟩
  · have := chainOK_append _ [p] X rfl hX.chain (fun t u ht _ => by
      simp at ht; subst ht; exact inert_adj cs _ u hp)
    simpa using this
  · rw [show p :: X = [p] ++ X by simp, getLast?_append_ne hX.ne]; exact hl

/-- `X p` for a follower that is an ender (`%`, `#`) -/
theorem eseg_suffix (cs : Tok → Bool) (p : Tok) (X : List Tok) (hpf : p.follower = true)
    (hpe : p.ender = true) (hX : ESeg cs X) : ESeg cs (X ++ [p]) := by
  obtain ⟨t, hl, he⟩ := hX.last
  obtain ⟨t', hf, ho⟩ := hX.first
  refine ⟨?_, ⟨t', by rw [head?_append_ne hX.ne]; exact hf, ho⟩,
    ⟨p, by rw [getLast?_append_ne (by simp)]; rfl, hpe⟩⟩
  exact chainOK_append _ X [p] hX.chain rfl (fun t'' u ht hu => by
    rw [hl] at ht; simp at ht hu; subst ht hu
    exact ender_follower cs _ _ he hpf)

/-- `A : B` when the last token of `A` is safe before a colon -/
theorem eseg_rng (cs : Tok → Bool) (A B : List Tok) (hA : ESeg cs A) (hB : ESeg cs B)
    (hsafe : ∀ t, A.getLast? = some t → (!t.value || cs t) = true) :
    ESeg cs (A ++ Tok.colon :: B) := by
  obtain ⟨ta, hla, hea⟩ := hA.last
  obtain ⟨ta', hfa, hoa⟩ := hA.first
  obtain ⟨tb', hlb, heb⟩ := hB.last
  have hoB : chainOK (adjOK cs) ([Tok.colon] ++ B) = true :=
    chainOK_append _ [Tok.colon] B rfl hB.chain (fun t u ht _ => by
      simp at ht; subst ht; exact inert_adj cs _ u rfl)
  refine ⟨?_, ⟨ta', by rw [head?_append_ne hA.ne]; exact hfa, hoa⟩,
    ⟨tb', by rw [show A ++ Tok.colon :: B = (A ++ [Tok.colon]) ++ B by simp, getLast?_append_ne hB.ne]; exact hlb, heb⟩⟩
  exact chainOK_append _ A (Tok.colon :: B) hA.chain (by simpa using hoB) (fun t u ht hu => by
    have hs := hsafe t ht
    rw [hla] at ht; simp at ht hu; subst ht hu
    cases ta <;> simp_all [Tok.ender, adjOK, Tok.inert, Tok.value])

/-! ### argument lists, LAMBDA parameters, calls -/

/-- a possibly empty segment ending in an ender or a separator -/
structure ASeg (cs : Tok → Bool) (L : List Tok) : Prop where
  chain : chainOK (adjOK cs) L = true
  last : ∀ t, L.getLast? = some t → t.ender = true ∨ t = Tok.sep

theorem aseg_nil (cs : Tok → Bool) : ASeg cs [] := ⟨rfl, fun t h => by simp at h⟩

theorem aseg_of_eseg {cs : Tok → Bool} {L : List Tok} (h : ESeg cs L) : ASeg cs L := by
  obtain ⟨t, hl, he⟩ := h.last
  exact ⟨h.chain, fun t' ht' => by rw [hl] at ht'; simp at ht'; subst ht'; exact Or.inl he⟩

theorem last_adj_follower (cs : Tok → Bool) (t u : Tok) (ht : t.ender = true ∨ t = Tok.sep)
    (hu : u.follower = true) : adjOK cs t u = true := by
  rcases ht with h | h
  · exact ender_follower cs t u h hu
  · subst h; exact inert_adj cs _ u rfl

/-- `A ++ B` when `B` is empty or starts with a follower -/
theorem aseg_append (cs : Tok → Bool) (A B : List Tok) (hA : ASeg cs A) (hB : ASeg cs B)
    (h : ∀ u, B.head? = some u → u.follower = true ∨ ∀ t, A.getLast? = some t → t.inert = true) :
    ASeg cs (A ++ B) := by
  refine ⟨chainOK_append _ A B hA.chain hB.chain (fun t u ht hu => ?_), ?_⟩
  · rcases h u hu with hf | hi
    · exact last_adj_follower cs t u (hA.last t ht) hf
    · exact inert_adj cs t u (hi t ht)
  · intro t ht
    cases B with
    | nil => simp at ht; exact hA.last t ht
    | cons b B' =>
      rw [getLast?_append_ne (by simp)] at ht
      exact hB.last t ht

theorem aseg_cons_sep (cs : Tok → Bool) (X : List Tok) (hX : ASeg cs X) : ASeg cs (Tok.sep :: X) := by
  have h1 : ASeg cs [Tok.sep] := ⟨rfl, fun t h => by simp at h; exact Or.inr h.symm⟩
  have := aseg_append cs [Tok.sep] X h1 hX (fun u _ => Or.inr (fun t ht => by simp at ht; subst ht; rfl))
  simpa using this

/-- `( args )` -/
theorem chain_parenArgs (cs : Tok → Bool) (args : List Tok) (ha : ASeg cs args) :
    chainOK (adjOK cs) (Tok.lp :: (args ++ [Tok.rp])) = true := by
  have c1 : chainOK (adjOK cs) (args ++ [Tok.rp]) = true :=
    chainOK_append _ args [Tok.rp] ha.chain rfl (fun t u ht hu => by
      simp at hu; subst hu
      exact last_adj_follower cs t _ (ha.last t ht) rfl)
  have c2 := chainOK_append _ [Tok.lp] (args ++ [Tok.rp]) rfl c1 (fun t u ht _ => by
    simp at ht; subst ht; exact inert_adj cs _ u rfl)
  simpa using c2

/-- `name ( args )` -/
theorem eseg_call (cs : Tok → Bool) (x : Nat) (args : List Tok) (ha : ASeg cs args) :
    ESeg cs (Tok.ident x :: Tok.lp :: (args ++ [Tok.rp])) := by
  refine ⟨?_, ⟨Tok.ident x, rfl, rfl⟩, ⟨Tok.rp, ?_, rfl⟩⟩
  · have c3 := chainOK_append _ [Tok.ident x] (Tok.lp :: (args ++ [Tok.rp])) rfl
      (chain_parenArgs cs args ha) (fun t u ht hu => by
        simp at ht hu; subst ht hu
        simp [adjOK, Tok.inert, Tok.value, Tok.isIdent])
    simpa using c3
  · rw [show Tok.ident x :: Tok.lp :: (args ++ [Tok.rp]) = (Tok.ident x :: Tok.lp :: args) ++ [Tok.rp] by simp,
      getLast?_append_ne (by simp)]
    rfl

/-- `Z ( args )` after something ending in `)` -/
theorem eseg_app (cs : Tok → Bool) (Z args : List Tok) (hZ : ESeg cs Z)
    (hlast : Z.getLast? = some Tok.rp) (ha : ASeg cs args) :
    ESeg cs (Z ++ Tok.lp :: (args ++ [Tok.rp])) := by
  obtain ⟨t', hf, ho⟩ := hZ.first
  refine ⟨?_, ⟨t', by rw [head?_append_ne hZ.ne]; exact hf, ho⟩, ⟨Tok.rp, ?_, rfl⟩⟩
  · exact chainOK_append _ Z _ hZ.chain (chain_parenArgs cs args ha) (fun t u ht _ => by
      rw [hlast] at ht; simp at ht; subst ht; exact inert_adj cs _ u rfl)
  · rw [show Z ++ Tok.lp :: (args ++ [Tok.rp]) = (Z ++ Tok.lp :: args) ++ [Tok.rp] by simp,
      getLast?_append_ne (by simp)]
    rfl

theorem eseg_call_last (x : Nat) (args : List Tok) :
    (Tok.ident x :: Tok.lp :: (args ++ [Tok.rp])).getLast? = some Tok.rp := by
  rw [show Tok.ident x :: Tok.lp :: (args ++ [Tok.rp]) = (Tok.ident x :: Tok.lp :: args) ++ [Tok.rp] by simp,
    getLast?_append_ne (by simp)]
  rfl

/-- LAMBDA parameters: empty, or ending in a separator -/
theorem aseg_params (cs : Tok → Bool) : ∀ ps : List (Nat × Bool),
    ASeg cs (prParams ps) ∧ ∀ t, (prParams ps).getLast? = some t → t = Tok.sep
  | [] => ⟨aseg_nil cs, fun t h => by simp [prParams] at h⟩
  | (x, false) :: ps => by
    obtain ⟨ih, ihl⟩ := aseg_params cs ps
    have hs := aseg_cons_sep cs _ ih
    have h1 : ASeg cs [Tok.ident x] := ⟨rfl, fun t h => by simp at h; subst h; exact Or.inl rfl⟩
    have := aseg_append cs [Tok.ident x] _ h1 hs (fun u hu => by simp at hu; subst hu; exact Or.inl rfl)
    refine ⟨by simpa [prParams] using this, ?_⟩
    intro t ht
    simp only [prParams] at ht
    cases hp : prParams ps with
    | nil => rw [hp] at ht; simp at ht; exact ht.symm
    | cons a r =>
      rw [hp, show Tok.ident x :: Tok.sep :: a :: r = [Tok.ident x, Tok.sep] ++ (a :: r) by simp,
        getLast?_append_ne (by simp), ← hp] at ht
      exact ihl t ht
  | (x, true) :: ps => by
    obtain ⟨ih, ihl⟩ := aseg_params cs ps
    have hs := aseg_cons_sep cs _ ih
    refine ⟨⟨?_, ?_⟩, ?_⟩
    · have hc := hs.chain
      simp only [prParams, chainOK, Bool.and_eq_true]
      exact ⟨by simp [adjOK, Tok.inert], by simp [adjOK, Tok.inert, Tok.value, Tok.follower],
        by simp [adjOK, Tok.inert], hc⟩
    · intro t ht
      simp only [prParams] at ht
      rw [show Tok.lbk :: Tok.ident x :: Tok.rbk :: Tok.sep :: prParams ps
        = [Tok.lbk, Tok.ident x, Tok.rbk] ++ (Tok.sep :: prParams ps) by simp,
        getLast?_append_ne (by simp)] at ht
      exact hs.last t ht
    · intro t ht
      simp only [prParams] at ht
      cases hp : prParams ps with
      | nil => rw [hp] at ht; simp at ht; exact ht.symm
      | cons a r =>
        rw [hp, show Tok.lbk :: Tok.ident x :: Tok.rbk :: Tok.sep :: a :: r
          = [Tok.lbk, Tok.ident x, Tok.rbk, Tok.sep] ++ (a :: r) by simp,
          getLast?_append_ne (by simp), ← hp] at ht
        exact ihl t ht

/-! ### the printer's output -/

mutual
/-- no glue site: no `OpRange` whose left operand is printed ending in a value token that is not
    safe before `:` -/
def Node.noGlue (cs : Tok → Bool) (T : Table) : Node → Bool
  | .lit _ _ => true
  | .name _ => true
  | .bin _ a b => a.noGlue cs T && b.noGlue cs T
  | .neg a => a.noGlue cs T
  | .pct a => a.noGlue cs T
  | .rng a b =>
      (match (wrap (T .rngL a.kind) (pr T a)).getLast? with
       | some t => !t.value || cs t
       | none => true) && a.noGlue cs T && b.noGlue cs T
  | .at a => a.noGlue cs T
  | .spill a => a.noGlue cs T
  | .call _ as => as.noGlue cs T
  | .lam _ body => body.noGlue cs T
  | .lamcall _ body as => body.noGlue cs T && as.noGlue cs T
def Args.noGlue (cs : Tok → Bool) (T : Table) : Args → Bool
  | .nil => true
  | .consE r => r.noGlue cs T
  | .consN n r => n.noGlue cs T && r.noGlue cs T
end

mutual
theorem pr_eseg (cs : Tok → Bool) (T : Table) : ∀ e : Node, e.noGlue cs T = true → ESeg cs (pr T e)
  | .lit c a, _ => by simpa [pr] using eseg_single cs (Tok.lit c a) rfl rfl
  | .name x, _ => by simpa [pr] using eseg_single cs (Tok.ident x) rfl rfl
  | .bin o a b, h => by
      simp only [Node.noGlue, Bool.and_eq_true] at h
      simp only [pr]
      exact eseg_bin cs _ _ o (eseg_wrap cs _ _ (pr_eseg cs T a h.1)) (eseg_wrap cs _ _ (pr_eseg cs T b h.2))
  | .neg a, h => by
      simp only [Node.noGlue] at h
      simp only [pr]
      exact eseg_prefix cs _ _ rfl rfl (eseg_wrap cs _ _ (pr_eseg cs T a h))
  | .pct a, h => by
      simp only [Node.noGlue] at h
      simp only [pr]
      exact eseg_suffix cs _ _ rfl rfl (eseg_wrap cs _ _ (pr_eseg cs T a h))
  | .rng a b, h => by
      simp only [Node.noGlue, Bool.and_eq_true] at h
      obtain ⟨⟨hs, ha⟩, hb⟩ := h
      simp only [pr]
      refine eseg_rng cs _ _ (eseg_wrap cs _ _ (pr_eseg cs T a ha)) (eseg_wrap cs _ _ (pr_eseg cs T b hb)) ?_
      intro t ht
      rw [ht] at hs
      exact hs
  | .at a, h => by
      simp only [Node.noGlue] at h
      simp only [pr]
      exact eseg_prefix cs _ _ rfl rfl (eseg_wrap cs _ _ (pr_eseg cs T a h))
  | .spill a, h => by
      simp only [Node.noGlue] at h
      simp only [pr]
      exact eseg_suffix cs _ _ rfl rfl (eseg_wrap cs _ _ (pr_eseg cs T a h))
  | .call x as, h => by
      simp only [Node.noGlue] at h
      simp only [pr]
      exact eseg_call cs x _ (prArgs_aseg cs T as h)
  | .lam ps body, h => by
      simp only [Node.noGlue] at h
      simp only [pr]
      have hp := aseg_params cs ps
      have hin := aseg_append cs _ _ hp.1 (aseg_of_eseg (pr_eseg cs T body h))
        (fun u _ => Or.inr (fun t ht => by rw [hp.2 t ht]; rfl))
      have := eseg_call cs 0 _ hin
      simpa [List.append_assoc] using this
  | .lamcall ps body as, h => by
      simp only [Node.noGlue, Bool.and_eq_true] at h
      simp only [pr]
      have hp := aseg_params cs ps
      have hin := aseg_append cs _ _ hp.1 (aseg_of_eseg (pr_eseg cs T body h.1))
        (fun u _ => Or.inr (fun t ht => by rw [hp.2 t ht]; rfl))
      have hz := eseg_call cs 0 _ hin
      have := eseg_app cs _ _ hz (eseg_call_last 0 _) (prArgs_aseg cs T as h.2)
      simpa [List.append_assoc] using this
theorem prArgs_aseg (cs : Tok → Bool) (T : Table) : ∀ as : Args, as.noGlue cs T = true →
    ASeg cs (prArgs T as)
  | .nil, _ => by simpa [prArgs] using aseg_nil cs
  | .consE r, h => by
      simp only [Args.noGlue] at h
      simpa [prArgs] using (prTail_aseg cs T r h).1
  | .consN n r, h => by
      simp only [Args.noGlue, Bool.and_eq_true] at h
      simp only [prArgs]
      have ht := prTail_aseg cs T r h.2
      exact aseg_append cs _ _ (aseg_of_eseg (pr_eseg cs T n h.1)) ht.1
        (fun u hu => Or.inl (by rw [ht.2 u hu]; rfl))
theorem prTail_aseg (cs : Tok → Bool) (T : Table) : ∀ as : Args, as.noGlue cs T = true →
    ASeg cs (prTail T as) ∧ ∀ u, (prTail T as).head? = some u → u = Tok.sep
  | .nil, _ => by simpa [prTail] using aseg_nil cs
  | .consE r, h => by
      simp only [Args.noGlue] at h
      simp only [prTail]
      exact ⟨aseg_cons_sep cs _ (prTail_aseg cs T r h).1, fun u hu => by simp at hu; exact hu.symm⟩
  | .consN n r, h => by
      simp only [Args.noGlue, Bool.and_eq_true] at h
      simp only [prTail]
      have ht := prTail_aseg cs T r h.2
      have hin := aseg_append cs _ _ (aseg_of_eseg (pr_eseg cs T n h.1)) ht.1
        (fun u hu => Or.inl (by rw [ht.2 u hu]; rfl))
      exact ⟨aseg_cons_sep cs _ hin, fun u hu => by simp at hu; exact hu.symm⟩
end

end IronCalc.Formula
