import IronCalc.Formula.LexPrint
import IronCalc.Formula.LexProofsRC
/-
  C09, character level — from the printer model's abstract tokens (`Tok`, opaque payloads) to
  concrete tokens (`CTok`) through an interpretation of the payloads, and the proof that an
  adjacency-safe abstract token list (`chainOK (adjOK cs)`, Formula/LexPrint.lean) concretises to a
  glue-free list of well-formed tokens.
-/
namespace IronCalc.Formula
open IronCalc.Codec

/-- an interpretation of the opaque payloads of the token-level model -/
structure Interp where
  /-- the tokens of a literal (one token; an array literal `{1,2;3}` is several) -/
  lit : LitClass → Nat → List CTok
  /-- the identifier / boolean / function-name token of a name index -/
  ident : Nat → CTok
  /-- the argument separator of the locale: `,` or `;` -/
  sep : CTok
  /-- the comparison of a comparison index -/
  cmp : Nat → OpCmp

def conc (I : Interp) : Tok → List CTok
  | .op (.cmp k) => [.cmp (I.cmp k)]
  | .op .cat => [.amp]
  | .op .add => [.add]
  | .op .sub => [.sub]
  | .op .mul => [.mul]
  | .op .div => [.div]
  | .op .pow => [.pow]
  | .pct => [.pct]
  | .colon => [.colon]
  | .at => [.at]
  | .hash => [.spill]
  | .lp => [.lp]
  | .rp => [.rp]
  | .lbk => [.lbk]
  | .rbk => [.rbk]
  | .sep => [I.sep]
  | .lit c a => I.lit c a
  | .ident x => [I.ident x]

def concL (I : Interp) (ts : List Tok) : List CTok := ts.flatMap (conc I)

/-- first characters of the punctuation that can follow an expression -/
def followers : List Char :=
  [')', '+', '-', '*', '/', '^', '&', '=', '<', '>', '%', '#', ',', ';', ']']

/-- none of the follower characters glues to the token -/
def closeOK (cfg : LexCfg) (t : CTok) : Bool := followers.all (fun c => !badNext cfg t c)

/-- "safe before a colon", read off the interpretation -/
def csOf (cfg : LexCfg) (I : Interp) (t : Tok) : Bool :=
  match (conc I t).getLast? with
  | some lt => !badNext cfg lt ':'
  | none => true

structure InterpOK (cfg : LexCfg) (I : Interp) : Prop where
  lit_ok : ∀ c a t, t ∈ I.lit c a → tokOK cfg t = true
  lit_glue : ∀ c a, glueFree cfg (I.lit c a) = true
  lit_ne : ∀ c a, I.lit c a ≠ []
  lit_first : ∀ c a ch, (render cfg (I.lit c a)).head? = some ch → ch ≠ '=' ∧ ch ≠ '>'
  lit_last : ∀ c a t, (I.lit c a).getLast? = some t → closeOK cfg t = true
  ident_ok : ∀ x, tokOK cfg (I.ident x) = true
  ident_kind : ∀ x, (∃ s, I.ident x = .ident s) ∨ (∃ b, I.ident x = .bool b)
  sep_ok : (I.sep = .comma ∧ cfg.decimal ≠ ',') ∨ I.sep = .semi
  /-- no error spelling has a follower character in second position -/
  spill_close : closeOK cfg .spill = true

theorem follower_facts (c : Char) (hc : c ∈ followers) :
    isAsciiSpecial c = true ∧ c ≠ '_' ∧ c ≠ '.' ∧ c ≠ '!' ∧ c ≠ '$' ∧ c ≠ '[' ∧ c ≠ ':' ∧ c ≠ '(' := by
  simp only [followers, List.mem_cons, List.not_mem_nil, or_false] at hc
  rcases hc with h | h | h | h | h | h | h | h | h | h | h | h | h | h | h <;> subst h <;> decide

theorem follower_not_identChar (cfg : LexCfg) (h : CfgBase cfg) (c : Char) (hc : c ∈ followers) :
    isIdentChar cfg.cc c = false := by
  obtain ⟨hs, h1, h2, _⟩ := follower_facts c hc
  simp [isIdentChar, h.special_not_alnum c hs, h1, h2]

theorem closeOK_identlike (cfg : LexCfg) (h : CfgBase cfg) (t : CTok)
    (hk : (∃ s, t = .ident s) ∨ (∃ b, t = .bool b)) :
    closeOK cfg t = true ∧ badNext cfg t '(' = false := by
  have hp : isIdentChar cfg.cc '(' = false := by
    simp [isIdentChar, h.special_not_alnum '(' (by decide)]
  constructor
  · rw [closeOK, List.all_eq_true]
    intro c hc
    obtain ⟨_, _, _, h3, h4, h5, h6, _⟩ := follower_facts c hc
    have hi := follower_not_identChar cfg h c hc
    rcases hk with ⟨s, rfl⟩ | ⟨b, rfl⟩ <;> simp [badNext, hi, h3, h4, h5, h6]
  · rcases hk with ⟨s, rfl⟩ | ⟨b, rfl⟩ <;> simp [badNext, hp]

theorem render_single (cfg : LexCfg) (p : CTok) : render cfg [p] = renderTok cfg p := by
  simp [render]

/-- the first character of a well-formed identifier / boolean is neither `=` nor `>` -/
theorem identlike_first (cfg : LexCfg) (h : CfgBase cfg) (t : CTok) (hok : tokOK cfg t = true)
    (hk : (∃ s, t = .ident s) ∨ (∃ b, t = .bool b)) (ch : Char)
    (hh : (renderTok cfg t).head? = some ch) : ch ≠ '=' ∧ ch ≠ '>' := by
  have key : isIdentStart cfg.cc ch = true := by
    rcases hk with ⟨s, rfl⟩ | ⟨b, rfl⟩
    · simp only [tokOK, identOK, Bool.and_eq_true] at hok
      obtain ⟨⟨⟨⟨⟨hstart, _⟩, _⟩, _⟩, _⟩, _⟩ := hok
      cases s with
      | nil => simp at hstart
      | cons c tl =>
        simp only [renderTok, List.head?_cons, Option.some.injEq] at hh
        subst hh; exact hstart
    · have hb : ∀ n, (n ≠ [] ∧ n.all (fun c => cfg.cc.alpha c && !isDigit c) = true) →
          n.head? = some ch → isIdentStart cfg.cc ch = true := by
        intro n hn hhead
        obtain ⟨_, c, tl, hn', hcs⟩ := boolName_facts cfg h n hn
        rw [hn'] at hhead
        simp at hhead
        subst hhead; exact hcs
      cases b with
      | true => exact hb _ h.true_alpha (by simpa [renderTok] using hh)
      | false => exact hb _ h.false_alpha (by simpa [renderTok] using hh)
  obtain ⟨_, hs, _⟩ := identStart_dispatch cfg h ch key
  constructor
  · intro e; subst e; revert hs; decide
  · intro e; subst e; revert hs; decide

theorem getLastC?_append_ne {A B : List CTok} (hB : B ≠ []) : (A ++ B).getLast? = B.getLast? := by
  rw [List.getLast?_append]
  cases h : B.getLast? with
  | none => simp [List.getLast?_eq_none_iff] at h; exact absurd h hB
  | some b => simp

theorem glueFree_append (cfg : LexCfg) (hcfg : CfgAny cfg) (A B : List CTok)
    (hA : glueFree cfg A = true) (hB : glueFree cfg B = true)
    (hBok : ∀ t, t ∈ B → tokOK cfg t = true)
    (h : ∀ t c, A.getLast? = some t → (render cfg B).head? = some c → badNext cfg t c = false) :
    glueFree cfg (A ++ B) = true := by
  induction A with
  | nil => simpa using hB
  | cons t A ih =>
    cases A with
    | nil =>
      cases B with
      | nil => rfl
      | cons u B' =>
        have hne := renderTok_ne_nil_any cfg hcfg u (hBok u (List.mem_cons_self ..))
        obtain ⟨c, tl, hc⟩ := List.exists_cons_of_ne_nil hne
        have hb := h t c rfl (by simp [render, hc])
        simp only [List.cons_append, List.nil_append, glueFree, Bool.and_eq_true, Bool.not_eq_true',
          List.isEmpty_eq_false_iff]
        exact ⟨⟨by rw [hc]; simp [follow, hb], hne⟩, hB⟩
    | cons u A' =>
      simp only [glueFree, Bool.and_eq_true] at hA
      simp only [List.cons_append, glueFree, Bool.and_eq_true]
      refine ⟨hA.1, ?_⟩
      apply ih hA.2
      intro t' c ht' hc
      exact h t' c (by simpa [List.getLast?_cons_cons] using ht') hc

theorem conc_ok (cfg : LexCfg) (I : Interp) (hI : InterpOK cfg I) (t : Tok) :
    ∀ x, x ∈ conc I t → tokOK cfg x = true := by
  intro x hx
  cases t with
  | op o => cases o <;> simp [conc] at hx <;> subst hx <;> rfl
  | lit c a => exact hI.lit_ok c a x hx
  | ident y => simp [conc] at hx; subst hx; exact hI.ident_ok y
  | sep =>
    simp [conc] at hx; subst hx
    rcases hI.sep_ok with ⟨h1, h2⟩ | h1
    · rw [h1]; simp [tokOK, h2]
    · rw [h1]; rfl
  | _ => simp [conc] at hx; subst hx; rfl

theorem conc_glue (cfg : LexCfg) (I : Interp) (hI : InterpOK cfg I) (t : Tok) :
    glueFree cfg (conc I t) = true := by
  cases t with
  | op o => cases o <;> rfl
  | lit c a => exact hI.lit_glue c a
  | _ => rfl

theorem conc_ne (cfg : LexCfg) (I : Interp) (hI : InterpOK cfg I) (t : Tok) : conc I t ≠ [] := by
  cases t with
  | op o => cases o <;> simp [conc]
  | lit c a => exact hI.lit_ne c a
  | _ => simp [conc]

/-- the first character of the text of an opener is neither `=` nor `>` -/
theorem opener_first (cfg : LexCfg) (hcfg : CfgAny cfg) (I : Interp) (hI : InterpOK cfg I) (u : Tok)
    (hu : u.opener = true) (c : Char) (hc : (render cfg (conc I u)).head? = some c) :
    c ≠ '=' ∧ c ≠ '>' := by
  cases u with
  | lit cl a => exact hI.lit_first cl a c hc
  | ident x =>
    rw [conc, render_single] at hc
    exact identlike_first cfg hcfg.base _ (hI.ident_ok x) (hI.ident_kind x) c hc
  | lp => simp [conc, render, renderTok] at hc; subst hc; decide
  | «at» => simp [conc, render, renderTok] at hc; subst hc; decide
  | op o =>
    cases o <;> simp [Tok.opener] at hu
    simp [conc, render, renderTok] at hc; subst hc; decide
  | _ => simp [Tok.opener] at hu

/-- the first character of the text of a follower is a follower character -/
theorem follower_first (cfg : LexCfg) (I : Interp) (hI : InterpOK cfg I) (u : Tok)
    (hu : u.follower = true) (c : Char) (hc : (render cfg (conc I u)).head? = some c) :
    c ∈ followers := by
  cases u with
  | op o =>
    cases o with
    | cmp k =>
      simp only [conc, render_single, renderTok] at hc
      cases hk : I.cmp k <;> rw [hk] at hc <;> simp [cmpText] at hc <;> subst hc <;> decide
    | _ => simp [conc, render, renderTok] at hc; subst hc; decide
  | sep =>
    simp only [conc, render_single] at hc
    rcases hI.sep_ok with ⟨h1, _⟩ | h1 <;> rw [h1] at hc <;> simp [renderTok] at hc <;> subst hc <;> decide
  | rp => simp [conc, render, renderTok] at hc; subst hc; decide
  | pct => simp [conc, render, renderTok] at hc; subst hc; decide
  | hash => simp [conc, render, renderTok] at hc; subst hc; decide
  | rbk => simp [conc, render, renderTok] at hc; subst hc; decide
  | _ => simp [Tok.follower] at hu

/-- the last concrete token of a value token is not glued by a follower character -/
theorem value_close (cfg : LexCfg) (hcfg : CfgAny cfg) (I : Interp) (hI : InterpOK cfg I) (t : Tok)
    (ht : t.value = true) (lt : CTok) (hl : (conc I t).getLast? = some lt) : closeOK cfg lt = true := by
  cases t with
  | lit c a => exact hI.lit_last c a lt hl
  | ident x =>
    simp [conc] at hl; subst hl
    exact (closeOK_identlike cfg hcfg.base _ (hI.ident_kind x)).1
  | hash => simp [conc] at hl; subst hl; exact hI.spill_close
  | _ => simp [Tok.value] at ht

/-- **an allowed adjacent pair does not glue** -/
theorem pair_ok (cfg : LexCfg) (hcfg : CfgAny cfg) (I : Interp) (hI : InterpOK cfg I) (t u : Tok)
    (h : adjOK (csOf cfg I) t u = true) (lt : CTok) (c : Char)
    (hl : (conc I t).getLast? = some lt) (hc : (render cfg (conc I u)).head? = some c) :
    badNext cfg lt c = false := by
  by_cases hin : t.inert = true
  · -- inert tokens: nothing glues
    cases t with
    | op o =>
      cases o <;> simp [Tok.inert] at hin <;> simp [conc] at hl <;> subst hl <;> rfl
    | sep =>
      simp [conc] at hl; subst hl
      rcases hI.sep_ok with ⟨h1, _⟩ | h1 <;> rw [h1] <;> rfl
    | lit _ _ => simp [Tok.inert] at hin
    | ident _ => simp [Tok.inert] at hin
    | hash => simp [Tok.inert] at hin
    | _ => simp [conc] at hl; subst hl; rfl
  · by_cases hv : t.value = true
    · have hclose := value_close cfg hcfg I hI t hv lt hl
      have h' : u.follower = true ∨ (u = Tok.colon ∧ csOf cfg I t = true) ∨
          (t.isIdent = true ∧ u = Tok.lp) := by
        cases t <;> simp [Tok.value] at hv <;>
          simpa [adjOK, Tok.inert, Tok.value, Tok.isIdent, or_assoc] using h
      rcases h' with hf | ⟨hcol, hcs⟩ | ⟨hid, hlp⟩
      · have hmem := follower_first cfg I hI u hf c hc
        have := List.all_eq_true.mp hclose c hmem
        simpa using this
      · subst hcol
        simp [conc, render, renderTok] at hc
        subst hc
        simp only [csOf, hl, Bool.not_eq_true'] at hcs
        exact hcs
      · subst hlp
        simp [conc, render, renderTok] at hc
        subst hc
        cases t with
        | ident x =>
          simp [conc] at hl; subst hl
          exact (closeOK_identlike cfg hcfg.base _ (hI.ident_kind x)).2
        | _ => simp [Tok.isIdent] at hid
    · -- a comparison followed by an opener
      cases t with
      | op o =>
        cases o with
        | cmp k =>
          simp only [adjOK, Tok.inert, Tok.value, Bool.false_or, Bool.false_and, Bool.or_false] at h
          obtain ⟨h1, h2⟩ := opener_first cfg hcfg I hI u h c hc
          simp [conc] at hl; subst hl
          cases I.cmp k <;> simp [badNext, h1, h2]
        | _ => simp [Tok.inert] at hin
      | lit _ _ => simp [Tok.value] at hv
      | ident _ => simp [Tok.value] at hv
      | hash => simp [Tok.value] at hv
      | _ => simp [Tok.inert] at hin

theorem chainOK_tail (R : Tok → Tok → Bool) (t : Tok) (r : List Tok) (h : chainOK R (t :: r) = true) :
    chainOK R r = true := by
  cases r with
  | nil => rfl
  | cons u r' => simp only [chainOK, Bool.and_eq_true] at h; exact h.2

theorem render_concL_head (cfg : LexCfg) (hcfg : CfgAny cfg) (I : Interp) (hI : InterpOK cfg I)
    (u : Tok) (r : List Tok) :
    (render cfg (concL I (u :: r))).head? = (render cfg (conc I u)).head? := by
  obtain ⟨x, xs, hx⟩ := List.exists_cons_of_ne_nil (conc_ne cfg I hI u)
  have hxok := conc_ok cfg I hI u x (by rw [hx]; exact List.mem_cons_self ..)
  obtain ⟨c, tl, hc⟩ := List.exists_cons_of_ne_nil (renderTok_ne_nil_any cfg hcfg x hxok)
  simp [concL, render, hx, hc]

/-- **adjacency-safe abstract tokens concretise to well-formed, glue-free tokens** -/
theorem concL_glueFree (cfg : LexCfg) (hcfg : CfgAny cfg) (I : Interp) (hI : InterpOK cfg I) :
    ∀ ts : List Tok, chainOK (adjOK (csOf cfg I)) ts = true →
      (∀ x, x ∈ concL I ts → tokOK cfg x = true) ∧ glueFree cfg (concL I ts) = true
  | [], _ => ⟨fun x hx => by simp [concL] at hx, rfl⟩
  | t :: r, h => by
    obtain ⟨ihok, ihg⟩ := concL_glueFree cfg hcfg I hI r (chainOK_tail _ t r h)
    have hsplit : concL I (t :: r) = conc I t ++ concL I r := by simp [concL]
    rw [hsplit]
    refine ⟨fun x hx => ?_, ?_⟩
    · rcases List.mem_append.mp hx with hx | hx
      · exact conc_ok cfg I hI t x hx
      · exact ihok x hx
    · apply glueFree_append cfg hcfg _ _ (conc_glue cfg I hI t) ihg ihok
      intro lt c hl hc
      cases r with
      | nil => simp [concL, render] at hc
      | cons u r' =>
        rw [render_concL_head cfg hcfg I hI u r'] at hc
        simp only [chainOK, Bool.and_eq_true] at h
        exact pair_ok cfg hcfg I hI t u h.1 lt c hl hc

end IronCalc.Formula
