import IronCalc.Formula.Lex
/-
  C09, character level — the side conditions of the lexer round trip `lex (render ts) = ts`
  (definitions only; all decidable):
    * `tokOK cfg t`     : the payload of `t` is one the lexer can produce (an identifier that is an
                          identifier, a string whose quotes are doubled, a number text that
                          consume_number produces, a reference on the grid, …);
    * `badNext cfg t c` : the character `c`, written directly after the text of `t`, would make the
                          lexer read something else than `t` (merge, split differently, or reject);
    * `glueFree cfg ts` : no two adjacent tokens of `ts` where the second one's text starts with a
                          character that is bad after the first.
  A1 mode (the display path).
-/
namespace IronCalc.Formula
open IronCalc.Codec

/-- a string payload as consume_string produces it: every `"` is followed by a second one -/
def strOK : List Char → Bool
  | [] => true
  | c :: t =>
    if c = '"' then
      match t with
      | [] => false
      | d :: t' => d = '"' && strOK t'
    else strOK t

/-- after the fraction digits: nothing, or `e`, a sign or digit, digits (at least one digit in all) -/
def expOK (r : List Char) : Bool :=
  match r with
  | [] => true
  | e :: x :: v =>
    e = 'e' && (x = '-' || x = '+' || isDigit x) && v.all isDigit && (isDigit x || !v.isEmpty)
  | _ => false

/-- a number text as consume_number hands it to `parse::<f64>` (and as the printer writes it, up to
    the decimal separator): a digit, digits, optionally `.` and digits, optionally an exponent
    `e[+-]?digits` with a lower-case `e`; accepted by `parse::<f64>` -/
def numOK (d : List Char) : Bool :=
  match d with
  | [] => false
  | c :: t =>
    isDigit c &&
    (match t.dropWhile isDigit with
     | [] => true
     | c1 :: u => if c1 = '.' then expOK (u.dropWhile isDigit) else expOK (c1 :: u)) &&
    f64Parses d

/-- R1C1 mode: consume_reference_r1c1 fails INSIDE the name, whatever follows it: the name does not
    start with `R`, or its second character is not a digit (it cannot be a sign or a bracket).
    Excluded: the name `R` and names like `R1C`, `R2D2` (tied by the differential run; in the pinned
    tree `R1C+1` was read as the reference R1C1: finding F26-r1c-name, repaired). -/
def rcSafe (s : List Char) : Bool :=
  match s with
  | [] => false
  | c :: t =>
    c != 'R' || (match t with
      | [] => false
      | d :: _ => !isDigit d)

/-- an identifier the identifier branch returns as `Ident` when nothing glues to it -/
def identOK (cfg : LexCfg) (s : List Char) : Bool :=
  (match s with
   | [] => false
   | c :: _ => isIdentStart cfg.cc c) &&
  s.all (isIdentChar cfg.cc) &&
  upperStr cfg s != cfg.trueName && upperStr cfg s != cfg.falseName &&
  (if cfg.a1 then (parseReferenceA1 (upperStr cfg s)).isNone else rcSafe s) &&
  isValidA1Identifier cfg s

/-- a cell on the grid (what C22 calls `InGrid 0 0`) -/
def refOK (r : PRef) : Bool :=
  decide (1 ≤ r.row) && decide (r.row ≤ 1048576) && decide (1 ≤ r.column) && decide (r.column ≤ 16384)

/-- R1C1 mode: row and column are `i32`s; an absolute one (written without brackets) is not
    negative (C22 `RcWritable`) -/
def refOKRC (r : PRef) : Bool :=
  decide (-2147483648 ≤ r.row) && decide (r.row ≤ 2147483647) &&
  decide (-2147483648 ≤ r.column) && decide (r.column ≤ 2147483647) &&
  (!r.absRow || decide (0 ≤ r.row)) && (!r.absCol || decide (0 ≤ r.column))

/-- a sheet name the printer can write and the lexer reads back: not empty -/
def sheetOK : Option (List Char) → Bool
  | none => true
  | some n => !n.isEmpty

def tokOK (cfg : LexCfg) : CTok → Bool
  | .illegal => false
  | .ident s => identOK cfg s
  | .str s => strOK s
  | .num d => numOK d
  | .bool _ => true
  | .err e => cfg.errors.any (fun p => p.2 = e)
  | .comma => cfg.decimal != ','
  | .ref sh r => sheetOK sh && (if cfg.a1 then refOK r else refOKRC r)
  | .range sh l r =>
    -- A1: `A1:B2`, and whole columns / rows `A:C`, `3:5`; R1C1: `R1C1:R[2]C[2]`
    sheetOK sh && (if cfg.a1 then refOK l && refOK r else refOKRC l && refOKRC r)
  | .sref _ _ _ => false       -- structured references have no printed form in stringify.rs
  | _ => true

/-- second characters of the error spellings: a `#` followed by one of them may start an error -/
def errSecond (errors : List (List Char × Nat)) (c : Char) : Bool :=
  errors.any (fun p => match p.1 with | _ :: d :: _ => d = c | _ => false)

/-- is the character `c`, written directly after the text of `t`, read as part of something else? -/
def badNext (cfg : LexCfg) (t : CTok) (c : Char) : Bool :=
  match t with
  | .cmp .lt => c = '=' || c = '>'
  | .cmp .gt => c = '='
  | .str _ => c = '"'
  | .num _ =>
    -- (A1 only: a number before `:` starts a row range, and `peek_token` skips white space)
    isDigit c || c = cfg.decimal || c = 'e' || c = 'E' || (cfg.a1 && (c = ':' || cfg.cc.white c))
  | .ident s =>
    isIdentChar cfg.cc c || c = '!' || c = '$' || c = '[' ||
      (cfg.a1 && (c = ':' && isValidColumn (upperStr cfg s)))
  | .bool _ => isIdentChar cfg.cc c || c = '!' || c = '$'
  | .spill => errSecond cfg.errors c
  | .ref sh r =>
    if !cfg.a1 then
      -- R1C1: an unqualified reference is read by the identifier branch; `:` may start a range
      isIdentChar cfg.cc c || c = '!' || c = '$' || c = '(' || c = ':'
    else if sh.isNone && !r.absCol && !r.absRow then
      -- the plain form `A1` is read by the identifier branch
      isIdentChar cfg.cc c || c = '!' || c = '$' || c = '(' || c = ':'
    else isDigit c || c = ':'
  | .range _ l r =>
    if !cfg.a1 then isIdentChar cfg.cc c || c = '!' || c = '$' || c = '('
    else if fullRowOf l r || fullColOf l r then isAlphaOrDigit c else isDigit c
  | _ => false

def follow (cfg : LexCfg) (t : CTok) (rest : List Char) : Bool :=
  match rest with
  | [] => true
  | c :: _ => !badNext cfg t c

/-- no two adjacent tokens whose texts the lexer would merge or split differently -/
def glueFree (cfg : LexCfg) : List CTok → Bool
  | [] => true
  | [_] => true
  | t :: u :: ts => follow cfg t (renderTok cfg u) && !(renderTok cfg u).isEmpty && glueFree cfg (u :: ts)

/-- prefix-incomparable spellings starting with `#`, at least two characters, distinct indices -/
def errTableOK : List (List Char × Nat) → Bool
  | [] => true
  | p :: rest =>
    (match p.1 with | c :: _ :: _ => c = '#' | _ => false) &&
    rest.all (fun q => !p.1.isPrefixOf q.1 && !q.1.isPrefixOf p.1 && p.2 != q.2) &&
    errTableOK rest

/-- the ASCII characters next_token dispatches on by name -/
def specials : List Char :=
  ['+', '-', '*', '/', '(', ')', '{', '}', '[', ']', '=', ':', ';', '@', '\\', '!', '^', '%', '&',
   ',', '.', '$', '<', '>', '#', '"', '\'']

def isAsciiSpecial (c : Char) : Bool := specials.contains c

/-- what the theorems need of a configuration in either lexer mode (all of it decidable on a
    concrete one) -/
structure CfgBase (cfg : LexCfg) : Prop where
  decimal : cfg.decimal = '.' ∨ cfg.decimal = ','
  /-- white space is none of the characters a token starts with -/
  white_special : ∀ c, isAsciiSpecial c = true → cfg.cc.white c = false
  white_alnum : ∀ c, cfg.cc.alnum c = true → cfg.cc.white c = false
  white_us : cfg.cc.white '_' = false
  alpha_alnum : ∀ c, cfg.cc.alpha c = true → cfg.cc.alnum c = true
  upper_alpha : ∀ c, isUpper c = true → cfg.cc.alpha c = true
  upper_ascii : ∀ c, isUpper c = true ∨ isDigit c = true → cfg.upper c = [c]
  digit_alnum : ∀ c, isDigit c = true → cfg.cc.alnum c = true
  digit_not_alpha : ∀ c, isDigit c = true → cfg.cc.alpha c = false
  special_not_alnum : ∀ c, isAsciiSpecial c = true → cfg.cc.alnum c = false
  errors : errTableOK cfg.errors = true
  /-- boolean names: letters only, fixed by upper-casing, different -/
  true_alpha : cfg.trueName ≠ [] ∧ cfg.trueName.all (fun c => cfg.cc.alpha c && !isDigit c) = true
  false_alpha : cfg.falseName ≠ [] ∧ cfg.falseName.all (fun c => cfg.cc.alpha c && !isDigit c) = true
  true_upper : upperStr cfg cfg.trueName = cfg.trueName
  false_upper : upperStr cfg cfg.falseName = cfg.falseName
  true_ne_false : cfg.trueName ≠ cfg.falseName
  /-- a boolean name is not spelled like a column (`TRUE:` is not the start of a column range) -/
  true_not_col : isValidColumn cfg.trueName = false
  false_not_col : isValidColumn cfg.falseName = false

/-- A1 mode (the display path) -/
structure CfgOK (cfg : LexCfg) : Prop extends CfgBase cfg where
  a1 : cfg.a1 = true

/-- R1C1 mode (the stored form) -/
structure CfgRC (cfg : LexCfg) : Prop extends CfgBase cfg where
  rc : cfg.a1 = false

instance (cfg : LexCfg) : Coe (CfgOK cfg) (CfgBase cfg) := ⟨CfgOK.toCfgBase⟩
instance (cfg : LexCfg) : Coe (CfgRC cfg) (CfgBase cfg) := ⟨CfgRC.toCfgBase⟩

end IronCalc.Formula
