import IronCalc.Formula.Partial
/-
  Spelling of tokens in a display language / locale, and reading them back.
  models the language- and locale-dependent part of
    base/src/expressions/parser/stringify.rs (function names via `to_localized_name`, booleans,
    error literals, argument / array separators, decimal separator) and of
    base/src/expressions/lexer/mod.rs + parser/mod.rs (`language.functions.lookup`, booleans,
    `get_argument_separator_token`).
  The character-level lexer is not modelled: a spelled token is the token's TEXT (a word) or a
  punctuation mark; what is proved is that reading a spelled token list back in the SAME
  language/locale yields the abstract token list — given that the name table is injective.
-/
namespace IronCalc.Formula

/-- how identifiers (functions, booleans) and separators are written -/
structure Spelling (W : Type) where
  /-- the word written for identifier `x` (function name, TRUE/FALSE, a name); `W` is the
      representation of words (characters, or the UTF-8 code of the extracted name tables) -/
  word : Nat → W
  /-- the identifiers that are spelled through a language table (functions, booleans) -/
  known : List Nat
  argSep : Char
  decimal : Char

/-- a spelled token: punctuation and literals are language independent at this level -/
inductive SpTok (W : Type) where
  | word (w : W)
  | argSep (c : Char)
  | other (t : Tok)

variable {W : Type} [DecidableEq W]

def spellTok (σ : Spelling W) : Tok → SpTok W
  | .ident x => .word (σ.word x)
  | .sep => .argSep σ.argSep
  | t => .other t

/-- first identifier of the table whose word matches (models `Functions::lookup`: first match) -/
def lookupWord (σ : Spelling W) (w : W) : List Nat → Option Nat
  | [] => none
  | x :: xs => if σ.word x = w then some x else lookupWord σ w xs

def unspellTok (σ : Spelling W) : SpTok W → Option Tok
  | .word w => (lookupWord σ w σ.known).map Tok.ident
  | .argSep c => if c = σ.argSep then some Tok.sep else none
  | .other t => some t

def unspell (σ : Spelling W) : List (SpTok W) → Option (List Tok)
  | [] => some []
  | s :: ss =>
    match unspellTok σ s, unspell σ ss with
    | some t, some ts => some (t :: ts)
    | _, _ => none

/-- no two identifiers of the table are written the same way -/
def Spelling.injective (σ : Spelling W) : Prop :=
  ∀ x ∈ σ.known, ∀ y ∈ σ.known, σ.word x = σ.word y → x = y

theorem lookupWord_self (σ : Spelling W) (xs : List Nat) (x : Nat) (hx : x ∈ xs)
    (hinj : ∀ a ∈ xs, ∀ b ∈ xs, σ.word a = σ.word b → a = b) :
    lookupWord σ (σ.word x) xs = some x := by
  induction xs with
  | nil => cases hx
  | cons y ys ih =>
    unfold lookupWord
    by_cases h : σ.word y = σ.word x
    · have := hinj y (List.mem_cons_self) x hx h
      simp [h, this]
    · simp only [h, if_false]
      have hx' : x ∈ ys := by
        cases hx with
        | head => exact absurd rfl h
        | tail _ h' => exact h'
      exact ih hx' (fun a ha b hb => hinj a (List.mem_cons_of_mem _ ha) b (List.mem_cons_of_mem _ hb))

/-- every identifier occurring in the token list is in the language table -/
def identsKnown (σ : Spelling W) : List Tok → Prop
  | [] => True
  | .ident x :: ts => x ∈ σ.known ∧ identsKnown σ ts
  | _ :: ts => identsKnown σ ts

theorem unspell_spell (σ : Spelling W) (hinj : σ.injective) :
    ∀ ts : List Tok, identsKnown σ ts → unspell σ (ts.map (spellTok σ)) = some ts
  | [], _ => rfl
  | t :: ts, h => by
    have ih : unspell σ (ts.map (spellTok σ)) = some ts := by
      apply unspell_spell σ hinj ts
      cases t <;> first | exact h | exact h.2
    cases t with
    | ident x =>
      have hx : x ∈ σ.known := h.1
      simp [unspell, spellTok, unspellTok, lookupWord_self σ σ.known x hx hinj, ih]
    | _ => simp [unspell, spellTok, unspellTok, ih]

end IronCalc.Formula
