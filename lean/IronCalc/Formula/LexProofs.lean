import IronCalc.Formula.LexGlue
import IronCalc.Codec.RefsProofs3
import IronCalc.Codec.SheetNameProofs
/-
  Helper lemmas for Props/C09Lex.lean: `next_token` reads back the text of one token, class by class.
-/
namespace IronCalc.Formula
open IronCalc.Codec

theorem dropWhile_head {p : Char → Bool} {c : Char} {t : List Char} (h : p c = false) :
    (c :: t).dropWhile p = c :: t := by simp [List.dropWhile, h]

/-- `follow` says what it says -/
theorem follow_cons {cfg : LexCfg} {t : CTok} {c : Char} {r : List Char}
    (h : follow cfg t (c :: r) = true) : badNext cfg t c = false := by
  simpa [follow] using h

/-! ### one-character tokens and comparisons -/

theorem nextToken_punct (cfg : LexCfg) (h : CfgOK cfg) (c : Char) (tk : CTok) (rest : List Char)
    (hp : punctTok c = some tk) (hs : isAsciiSpecial c = true) :
    nextToken cfg (c :: rest) = some (tk, rest) := by
  unfold nextToken
  rw [dropWhile_head (h.white_special c hs)]
  simp only [hp]

theorem nextToken_comma (cfg : LexCfg) (h : CfgOK cfg) (rest : List Char) (hd : cfg.decimal ≠ ',') :
    nextToken cfg (',' :: rest) = some (.comma, rest) := by
  unfold nextToken
  rw [dropWhile_head (h.white_special ',' (by decide))]
  have hp : punctTok ',' = none := by decide
  simp [hp, hd]

theorem nextToken_lt (cfg : LexCfg) (h : CfgOK cfg) (rest : List Char)
    (hf : follow cfg (.cmp .lt) rest = true) :
    nextToken cfg ('<' :: rest) = some (.cmp .lt, rest) := by
  unfold nextToken
  rw [dropWhile_head (h.white_special '<' (by decide))]
  have hp : punctTok '<' = none := by decide
  simp only [hp]
  cases rest with
  | nil => simp [headIs]
  | cons d r =>
    simp [follow, badNext] at hf
    simp [headIs, hf]

theorem nextToken_gt (cfg : LexCfg) (h : CfgOK cfg) (rest : List Char)
    (hf : follow cfg (.cmp .gt) rest = true) :
    nextToken cfg ('>' :: rest) = some (.cmp .gt, rest) := by
  unfold nextToken
  rw [dropWhile_head (h.white_special '>' (by decide))]
  have hp : punctTok '>' = none := by decide
  simp only [hp]
  cases rest with
  | nil => simp [headIs]
  | cons d r =>
    simp [follow, badNext] at hf
    simp [headIs, hf]

theorem nextToken_le (cfg : LexCfg) (h : CfgOK cfg) (rest : List Char) :
    nextToken cfg ('<' :: '=' :: rest) = some (.cmp .le, rest) := by
  unfold nextToken
  rw [dropWhile_head (h.white_special '<' (by decide))]
  have hp : punctTok '<' = none := by decide
  simp [hp, headIs]

theorem nextToken_ne (cfg : LexCfg) (h : CfgOK cfg) (rest : List Char) :
    nextToken cfg ('<' :: '>' :: rest) = some (.cmp .ne, rest) := by
  unfold nextToken
  rw [dropWhile_head (h.white_special '<' (by decide))]
  have hp : punctTok '<' = none := by decide
  simp [hp, headIs]

theorem nextToken_ge (cfg : LexCfg) (h : CfgOK cfg) (rest : List Char) :
    nextToken cfg ('>' :: '=' :: rest) = some (.cmp .ge, rest) := by
  unfold nextToken
  rw [dropWhile_head (h.white_special '>' (by decide))]
  have hp : punctTok '>' = none := by decide
  simp [hp, headIs]

/-! ### strings -/

theorem consumeString_base (rest : List Char) (hr : stops (· == '"') rest = true) :
    consumeString ('"' :: rest) = some ([], rest) := by
  cases rest with
  | nil => simp [consumeString]
  | cons d r =>
    have hd : d ≠ '"' := by simpa [stops] using hr
    simp [consumeString, hd]

theorem consumeString_aux (rest : List Char) (hr : stops (· == '"') rest = true) :
    ∀ (n : Nat) (s : List Char), s.length ≤ n → strOK s = true →
      consumeString (s ++ '"' :: rest) = some (s, rest)
  | _, [], _, _ => consumeString_base rest hr
  | 0, _ :: _, hl, _ => by simp at hl
  | n + 1, c :: t, hl, hs => by
    by_cases hc : c = '"'
    · subst hc
      cases t with
      | nil => rw [strOK.eq_def] at hs; simp at hs
      | cons d t' =>
        rw [strOK.eq_def] at hs
        simp only [if_true, Bool.and_eq_true, decide_eq_true_eq] at hs
        obtain ⟨hd, hs'⟩ := hs
        subst hd
        have ih := consumeString_aux rest hr n t' (by simp at hl; omega) hs'
        simp only [List.cons_append]
        rw [consumeString.eq_def]
        simp [ih]
    · have hs' : strOK t = true := by
        rw [strOK.eq_def] at hs
        simpa [hc] using hs
      have ih := consumeString_aux rest hr n t (by simp at hl; omega) hs'
      simp only [List.cons_append]
      rw [consumeString.eq_def]
      simp [hc, ih]

theorem consumeString_ok (s rest : List Char) (hs : strOK s = true)
    (hr : stops (· == '"') rest = true) :
    consumeString (s ++ '"' :: rest) = some (s, rest) :=
  consumeString_aux rest hr s.length s (Nat.le_refl _) hs

theorem nextToken_str (cfg : LexCfg) (h : CfgOK cfg) (s rest : List Char) (hs : strOK s = true)
    (hf : follow cfg (.str s) rest = true) :
    nextToken cfg ('"' :: (s ++ '"' :: rest)) = some (.str s, rest) := by
  unfold nextToken
  rw [dropWhile_head (h.white_special '"' (by decide))]
  have hp : punctTok '"' = none := by decide
  have hr : stops (· == '"') rest = true := by
    cases rest with
    | nil => rfl
    | cons d r => simpa [follow, badNext, stops] using hf
  simp [hp, consumeString_ok s rest hs hr]

/-! ### error literals and the spill operator -/

theorem isPrefixOf_append_self (a b : List Char) : a.isPrefixOf (a ++ b) = true := by
  rw [List.isPrefixOf_iff_prefix]; exact List.prefix_append a b

theorem prefix_comparable (a b l : List Char) (ha : a.isPrefixOf l = true) (hb : b.isPrefixOf l = true) :
    a.isPrefixOf b = true ∨ b.isPrefixOf a = true := by
  rw [List.isPrefixOf_iff_prefix] at ha hb
  rcases List.prefix_or_prefix_of_prefix ha hb with h | h
  · left; rw [List.isPrefixOf_iff_prefix]; exact h
  · right; rw [List.isPrefixOf_iff_prefix]; exact h

theorem consumeError_hit (errors : List (List Char × Nat)) (hok : errTableOK errors = true)
    (p : List Char × Nat) (hp : p ∈ errors) (rest : List Char) :
    consumeError errors (p.1 ++ rest) = some (p.2, rest) := by
  induction errors with
  | nil => cases hp
  | cons q tl ih =>
    obtain ⟨qn, qe⟩ := q
    rw [errTableOK] at hok
    simp only [Bool.and_eq_true] at hok
    obtain ⟨⟨_, hall⟩, htl⟩ := hok
    rw [consumeError]
    rcases List.mem_cons.mp hp with heq | hmem
    · subst heq
      simp [isPrefixOf_append_self]
    · have hq := List.all_eq_true.mp hall p hmem
      simp only [Bool.and_eq_true, Bool.not_eq_true', bne_iff_ne] at hq
      obtain ⟨⟨h1, h2⟩, _⟩ := hq
      have hnp : qn.isPrefixOf (p.1 ++ rest) = false := by
        cases hx : qn.isPrefixOf (p.1 ++ rest) with
        | false => rfl
        | true =>
          rcases prefix_comparable qn p.1 _ hx (isPrefixOf_append_self p.1 rest) with h | h
          · simp [h] at h1
          · simp [h] at h2
      simp only [hnp]
      exact ih htl hmem

theorem consumeError_miss (errors : List (List Char × Nat)) (hok : errTableOK errors = true)
    (rest : List Char) (hr : stops (errSecond errors) rest = true) :
    consumeError errors ('#' :: rest) = none := by
  induction errors with
  | nil => rfl
  | cons q tl ih =>
    obtain ⟨qn, qe⟩ := q
    rw [errTableOK] at hok
    simp only [Bool.and_eq_true] at hok
    obtain ⟨⟨hshape, _⟩, htl⟩ := hok
    rw [consumeError]
    have htl' : stops (errSecond tl) rest = true := by
      cases rest with
      | nil => rfl
      | cons c r =>
        simp only [stops, errSecond, List.any_cons, Bool.not_eq_true', Bool.or_eq_false_iff] at hr ⊢
        exact hr.2
    have hnp : qn.isPrefixOf ('#' :: rest) = false := by
      match qn, hshape with
      | a :: d :: m, _ =>
        cases rest with
        | nil => simp [List.isPrefixOf]
        | cons c r =>
          simp only [stops, errSecond, List.any_cons, Bool.not_eq_true', Bool.or_eq_false_iff,
            decide_eq_false_iff_not] at hr
          have hdc : d ≠ c := hr.1
          simp [List.isPrefixOf, hdc]
    simp only [hnp]
    exact ih htl htl'

theorem errText_mem (errors : List (List Char × Nat)) (e : Nat)
    (h : errors.any (fun p => p.2 = e) = true) :
    ∃ p, p ∈ errors ∧ p.2 = e ∧ errText errors e = p.1 := by
  unfold errText
  cases hf : errors.find? (fun p => decide (p.2 = e)) with
  | none =>
    rw [List.find?_eq_none] at hf
    rw [List.any_eq_true] at h
    obtain ⟨p, hp, hpe⟩ := h
    exact absurd hpe (hf p hp)
  | some p =>
    refine ⟨p, List.mem_of_find?_eq_some hf, ?_, rfl⟩
    simpa using List.find?_some hf

theorem errName_shape (errors : List (List Char × Nat)) (hok : errTableOK errors = true)
    (p : List Char × Nat) (hp : p ∈ errors) : ∃ d m, p.1 = '#' :: d :: m := by
  induction errors with
  | nil => cases hp
  | cons q tl ih =>
    rw [errTableOK] at hok
    simp only [Bool.and_eq_true] at hok
    obtain ⟨⟨hshape, _⟩, htl⟩ := hok
    rcases List.mem_cons.mp hp with heq | hmem
    · subst heq
      match hq : p.1, hshape with
      | a :: d :: m, hs =>
        simp at hs
        exact ⟨d, m, by rw [hs]⟩
    · exact ih htl hmem

theorem nextToken_err (cfg : LexCfg) (h : CfgOK cfg) (e : Nat) (rest : List Char)
    (hok : cfg.errors.any (fun p => p.2 = e) = true) :
    nextToken cfg (errText cfg.errors e ++ rest) = some (.err e, rest) := by
  obtain ⟨p, hp, hpe, htxt⟩ := errText_mem cfg.errors e hok
  obtain ⟨d, m, hshape⟩ := errName_shape cfg.errors h.errors p hp
  have hhit := consumeError_hit cfg.errors h.errors p hp rest
  rw [htxt]
  rw [hshape] at hhit ⊢
  simp only [List.cons_append] at hhit ⊢
  unfold nextToken
  rw [dropWhile_head (h.white_special '#' (by decide))]
  have hpt : punctTok '#' = none := by decide
  simp [hpt, hhit, hpe]

theorem nextToken_spill (cfg : LexCfg) (h : CfgOK cfg) (rest : List Char)
    (hf : follow cfg .spill rest = true) :
    nextToken cfg ('#' :: rest) = some (.spill, rest) := by
  have hr : stops (errSecond cfg.errors) rest = true := by
    cases rest with
    | nil => rfl
    | cons c r => simpa [follow, badNext, stops] using hf
  unfold nextToken
  rw [dropWhile_head (h.white_special '#' (by decide))]
  have hpt : punctTok '#' = none := by decide
  simp [hpt, consumeError_miss cfg.errors h.errors rest hr]

/-! ### dispatch on a character that is none of the ASCII specials -/

theorem notSpecial_facts (c : Char) (h : isAsciiSpecial c = false) :
    punctTok c = none ∧ c ≠ ',' ∧ c ≠ '.' ∧ c ≠ '$' ∧ c ≠ '<' ∧ c ≠ '>' ∧ c ≠ '#' ∧ c ≠ '"' ∧
      c ≠ '\'' := by
  simp only [isAsciiSpecial, specials, List.contains_eq_mem, List.mem_cons, List.not_mem_nil,
    or_false, decide_eq_false_iff_not, not_or] at h
  obtain ⟨h1, h2, h3, h4, h5, h6, h7, h8, h9, h10, h11, h12, h13, h14, h15, h16, h17, h18, h19, h20,
    h21, h22, h23, h24, h25, h26, h27⟩ := h
  refine ⟨?_, h20, h21, h22, h23, h24, h25, h26, h27⟩
  simp [punctTok, *]

theorem nextToken_other (cfg : LexCfg) (c : Char) (t : List Char) (hw : cfg.cc.white c = false)
    (hs : isAsciiSpecial c = false) :
    nextToken cfg (c :: t) = some (if isDigit c then digitBranch cfg c t
      else if isIdentStart cfg.cc c then identBranch cfg (c :: t) else (.illegal, [])) := by
  obtain ⟨hp, h1, h2, h3, h4, h5, h6, h7, h8⟩ := notSpecial_facts c hs
  unfold nextToken
  rw [dropWhile_head hw]
  simp only [hp, h1, h2, h3, h4, h5, h6, h7, h8, if_false]

theorem alnum_notSpecial (cfg : LexCfg) (h : CfgOK cfg) (c : Char) (ha : cfg.cc.alnum c = true) :
    isAsciiSpecial c = false := by
  cases hs : isAsciiSpecial c with
  | false => rfl
  | true => rw [h.special_not_alnum c hs] at ha; cases ha

/-! ### the identifier branch: booleans and identifiers -/

theorem headIs_false_of_ne (rest : List Char) (c : Char)
    (h : ∀ d r, rest = d :: r → d ≠ c) : headIs rest c = false := by
  cases rest with
  | nil => rfl
  | cons d r => simpa [headIs] using h d r rfl

theorem identStart_dispatch (cfg : LexCfg) (h : CfgOK cfg) (c : Char)
    (hc : isIdentStart cfg.cc c = true) :
    cfg.cc.white c = false ∧ isAsciiSpecial c = false ∧ isDigit c = false := by
  simp only [isIdentStart, Bool.or_eq_true, decide_eq_true_eq] at hc
  rcases hc with ha | hu
  · have hal := h.alpha_alnum c ha
    refine ⟨h.white_alnum c hal, alnum_notSpecial cfg h c hal, ?_⟩
    cases hd : isDigit c with
    | false => rfl
    | true => rw [h.digit_not_alpha c hd] at ha; cases ha
  · subst hu
    exact ⟨h.white_us, by decide, by decide⟩

theorem nextToken_identStart (cfg : LexCfg) (h : CfgOK cfg) (c : Char) (t : List Char)
    (hc : isIdentStart cfg.cc c = true) :
    nextToken cfg (c :: t) = some (identBranch cfg (c :: t)) := by
  obtain ⟨hw, hs, hd⟩ := identStart_dispatch cfg h c hc
  rw [nextToken_other cfg c t hw hs]
  simp [hd, hc]

theorem alpha_identChar (cfg : LexCfg) (h : CfgOK cfg) (c : Char) (ha : cfg.cc.alpha c = true) :
    isIdentChar cfg.cc c = true := by
  simp [isIdentChar, h.alpha_alnum c ha]

theorem boolName_facts (cfg : LexCfg) (h : CfgOK cfg) (n : List Char)
    (hn : n ≠ [] ∧ n.all (fun c => cfg.cc.alpha c && !isDigit c) = true) :
    n.all (isIdentChar cfg.cc) = true ∧ ∃ c tl, n = c :: tl ∧ isIdentStart cfg.cc c = true := by
  obtain ⟨hne, hall⟩ := hn
  constructor
  · rw [List.all_eq_true] at hall ⊢
    intro c hc
    have := hall c hc
    simp only [Bool.and_eq_true] at this
    exact alpha_identChar cfg h c this.1
  · cases n with
    | nil => exact absurd rfl hne
    | cons c tl =>
      refine ⟨c, tl, rfl, ?_⟩
      have := (List.all_eq_true.mp hall) c (List.mem_cons_self ..)
      simp only [Bool.and_eq_true] at this
      simp [isIdentStart, this.1]

theorem follow_bool_facts (cfg : LexCfg) (b : Bool) (rest : List Char)
    (hf : follow cfg (.bool b) rest = true) :
    stops (isIdentChar cfg.cc) rest = true ∧ headIs rest '!' = false ∧ headIs rest '$' = false := by
  cases rest with
  | nil => exact ⟨rfl, rfl, rfl⟩
  | cons d r =>
    have hb := follow_cons hf
    simp only [badNext, Bool.or_eq_false_iff, decide_eq_false_iff_not] at hb
    obtain ⟨⟨h1, h2⟩, h3⟩ := hb
    refine ⟨by simp [stops, h1], by simp [headIs, h2], by simp [headIs, h3]⟩

theorem nextToken_bool (cfg : LexCfg) (h : CfgOK cfg) (b : Bool) (rest : List Char)
    (hf : follow cfg (.bool b) rest = true) :
    nextToken cfg ((if b then cfg.trueName else cfg.falseName) ++ rest) = some (.bool b, rest) := by
  obtain ⟨hstop, hbang, hdollar⟩ := follow_bool_facts cfg b rest hf
  have key : ∀ n, (n ≠ [] ∧ n.all (fun c => cfg.cc.alpha c && !isDigit c) = true) →
      nextToken cfg (n ++ rest) = some (identBranch cfg (n ++ rest)) ∧
      (n ++ rest).takeWhile (isIdentChar cfg.cc) = n ∧
      (n ++ rest).dropWhile (isIdentChar cfg.cc) = rest := by
    intro n hn
    obtain ⟨hall, c, tl, hn', hcs⟩ := boolName_facts cfg h n hn
    refine ⟨?_, takeWhile_app _ n rest hall hstop, dropWhile_app _ n rest hall hstop⟩
    rw [hn']
    exact nextToken_identStart cfg h c (tl ++ rest) hcs
  cases b with
  | true =>
    obtain ⟨k1, k2, k3⟩ := key cfg.trueName h.true_alpha
    simp only [if_true]
    rw [k1]
    unfold identBranch
    simp only [k2, k3, hbang, hdollar, h.true_upper]
    simp
  | false =>
    obtain ⟨k1, k2, k3⟩ := key cfg.falseName h.false_alpha
    simp only [Bool.false_eq_true, if_false]
    rw [k1]
    unfold identBranch
    simp only [k2, k3, hbang, hdollar, h.false_upper]
    have hne : cfg.falseName ≠ cfg.trueName := fun e => h.true_ne_false e.symm
    simp [hne]

theorem nextToken_ident (cfg : LexCfg) (h : CfgOK cfg) (s rest : List Char)
    (hs : identOK cfg s = true) (hf : follow cfg (.ident s) rest = true) :
    nextToken cfg (s ++ rest) = some (.ident s, rest) := by
  simp only [identOK, Bool.and_eq_true, bne_iff_ne, ne_eq, Option.isNone_iff_eq_none] at hs
  obtain ⟨⟨⟨⟨⟨hstart, hall⟩, hnt⟩, hnf⟩, hpr⟩, hvalid⟩ := hs
  have hfacts : stops (isIdentChar cfg.cc) rest = true ∧ headIs rest '!' = false ∧
      headIs rest '$' = false ∧ headIs rest '[' = false ∧
      (isValidColumn (upperStr cfg s) && headIs rest ':') = false := by
    cases rest with
    | nil => simp [stops, headIs]
    | cons d r =>
      have hb := follow_cons hf
      simp only [badNext, Bool.or_eq_false_iff, decide_eq_false_iff_not, Bool.and_eq_false_iff] at hb
      obtain ⟨⟨⟨⟨h1, h2⟩, h3⟩, h4⟩, h5⟩ := hb
      refine ⟨by simp [stops, h1], by simp [headIs, h2], by simp [headIs, h3], by simp [headIs, h4], ?_⟩
      rcases h5 with h5 | h5
      · simp [headIs, h5]
      · simp [h5]
  obtain ⟨hstop, hbang, hdollar, hbk, hcol⟩ := hfacts
  have k2 := takeWhile_app _ s rest hall hstop
  have k3 := dropWhile_app _ s rest hall hstop
  cases s with
  | nil => simp at hstart
  | cons c tl =>
    simp only at hstart
    rw [List.cons_append, nextToken_identStart cfg h c (tl ++ rest) hstart, ← List.cons_append]
    unfold identBranch
    simp only [k2, k3, hbang, hdollar, hnt, hnf, h.a1, hpr, hcol, hvalid, hbk]
    simp

end IronCalc.Formula
