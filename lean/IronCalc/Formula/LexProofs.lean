import IronCalc.Formula.LexGlue
import IronCalc.Codec.RefsProofs3
import IronCalc.Codec.SheetNameProofs
import IronCalc.Props.C22
/-
  Helper lemmas for Props/C09Lex.lean: `next_token` reads back the text of one token, class by class.
-/
namespace IronCalc.Formula
open IronCalc.Codec

theorem dropWhile_head {p : Char → Bool} {c : Char} {t : List Char} (h : p c = false) :
    (c :: t).dropWhile p = c :: t := by simp [List.dropWhile, h]

/-- `follow` says what it says -/
theorem follow_cons {cfg : LexCfg} {t : CTok} {c : Char} {r : List Char}
    (h : follow cfg t (c :: r) = true) : badNext cfg t c = false := by
  simpa [follow] using h

/-! ### one-character tokens and comparisons -/

theorem nextToken_punct (cfg : LexCfg) (h : CfgBase cfg) (c : Char) (tk : CTok) (rest : List Char)
    (hp : punctTok c = some tk) (hs : isAsciiSpecial c = true) :
    nextToken cfg (c :: rest) = some (tk, rest) := by
  unfold nextToken
  rw [dropWhile_head (h.white_special c hs)]
  simp only [hp]

theorem nextToken_comma (cfg : LexCfg) (h : CfgBase cfg) (rest : List Char) (hd : cfg.decimal ≠ ',') :
    nextToken cfg (',' :: rest) = some (.comma, rest) := by
  unfold nextToken
  rw [dropWhile_head (h.white_special ',' (by decide))]
  have hp : punctTok ',' = none := by decide
  simp [hp, hd]

theorem nextToken_lt (cfg : LexCfg) (h : CfgBase cfg) (rest : List Char)
    (hf : follow cfg (.cmp .lt) rest = true) :
    nextToken cfg ('<' :: rest) = some (.cmp .lt, rest) := by
  unfold nextToken
  rw [dropWhile_head (h.white_special '<' (by decide))]
  have hp : punctTok '<' = none := by decide
  simp only [hp]
  cases rest with
  | nil => simp [headIs]
  | cons d r =>
    simp [follow, badNext] at hf
    simp [headIs, hf]

theorem nextToken_gt (cfg : LexCfg) (h : CfgBase cfg) (rest : List Char)
    (hf : follow cfg (.cmp .gt) rest = true) :
    nextToken cfg ('>' :: rest) = some (.cmp .gt, rest) := by
  unfold nextToken
  rw [dropWhile_head (h.white_special '>' (by decide))]
  have hp : punctTok '>' = none := by decide
  simp only [hp]
  cases rest with
  | nil => simp [headIs]
  | cons d r =>
    simp [follow, badNext] at hf
    simp [headIs, hf]

theorem nextToken_le (cfg : LexCfg) (h : CfgBase cfg) (rest : List Char) :
    nextToken cfg ('<' :: '=' :: rest) = some (.cmp .le, rest) := by
  unfold nextToken
  rw [dropWhile_head (h.white_special '<' (by decide))]
  have hp : punctTok '<' = none := by decide
  simp [hp, headIs]

theorem nextToken_ne (cfg : LexCfg) (h : CfgBase cfg) (rest : List Char) :
    nextToken cfg ('<' :: '>' :: rest) = some (.cmp .ne, rest) := by
  unfold nextToken
  rw [dropWhile_head (h.white_special '<' (by decide))]
  have hp : punctTok '<' = none := by decide
  simp [hp, headIs]

theorem nextToken_ge (cfg : LexCfg) (h : CfgBase cfg) (rest : List Char) :
    nextToken cfg ('>' :: '=' :: rest) = some (.cmp .ge, rest) := by
  unfold nextToken
  rw [dropWhile_head (h.white_special '>' (by decide))]
  have hp : punctTok '>' = none := by decide
  simp [hp, headIs]

/-! ### strings -/

theorem consumeString_base (rest : List Char) (hr : stops (· == '"') rest = true) :
    consumeString ('"' :: rest) = some ([], rest) := by
  cases rest with
  | nil => simp [consumeString]
  | cons d r =>
    have hd : d ≠ '"' := by simpa [stops] using hr
    simp [consumeString, hd]

theorem consumeString_aux (rest : List Char) (hr : stops (· == '"') rest = true) :
    ∀ (n : Nat) (s : List Char), s.length ≤ n → strOK s = true →
      consumeString (s ++ '"' :: rest) = some (s, rest)
  | _, [], _, _ => consumeString_base rest hr
  | 0, _ :: _, hl, _ => by simp at hl
  | n + 1, c :: t, hl, hs => by
    by_cases hc : c = '"'
    · subst hc
      cases t with
      | nil => rw [strOK.eq_def] at hs; simp at hs
      | cons d t' =>
        rw [strOK.eq_def] at hs
        simp only [if_true, Bool.and_eq_true, decide_eq_true_eq] at hs
        obtain ⟨hd, hs'⟩ := hs
        subst hd
        have ih := consumeString_aux rest hr n t' (by simp at hl; omega) hs'
        simp only [List.cons_append]
        rw [consumeString.eq_def]
        simp [ih]
    · have hs' : strOK t = true := by
        rw [strOK.eq_def] at hs
        simpa [hc] using hs
      have ih := consumeString_aux rest hr n t (by simp at hl; omega) hs'
      simp only [List.cons_append]
      rw [consumeString.eq_def]
      simp [hc, ih]

theorem consumeString_ok (s rest : List Char) (hs : strOK s = true)
    (hr : stops (· == '"') rest = true) :
    consumeString (s ++ '"' :: rest) = some (s, rest) :=
  consumeString_aux rest hr s.length s (Nat.le_refl _) hs

theorem nextToken_str (cfg : LexCfg) (h : CfgBase cfg) (s rest : List Char) (hs : strOK s = true)
    (hf : follow cfg (.str s) rest = true) :
    nextToken cfg ('"' :: (s ++ '"' :: rest)) = some (.str s, rest) := by
  unfold nextToken
  rw [dropWhile_head (h.white_special '"' (by decide))]
  have hp : punctTok '"' = none := by decide
  have hr : stops (· == '"') rest = true := by
    cases rest with
    | nil => rfl
    | cons d r => simpa [follow, badNext, stops] using hf
  simp [hp, consumeString_ok s rest hs hr]

/-! ### error literals and the spill operator -/

theorem isPrefixOf_append_self (a b : List Char) : a.isPrefixOf (a ++ b) = true := by
  rw [List.isPrefixOf_iff_prefix]; exact List.prefix_append a b

theorem prefix_comparable (a b l : List Char) (ha : a.isPrefixOf l = true) (hb : b.isPrefixOf l = true) :
    a.isPrefixOf b = true ∨ b.isPrefixOf a = true := by
  rw [List.isPrefixOf_iff_prefix] at ha hb
  rcases List.prefix_or_prefix_of_prefix ha hb with h | h
  · left; rw [List.isPrefixOf_iff_prefix]; exact h
  · right; rw [List.isPrefixOf_iff_prefix]; exact h

theorem consumeError_hit (errors : List (List Char × Nat)) (hok : errTableOK errors = true)
    (p : List Char × Nat) (hp : p ∈ errors) (rest : List Char) :
    consumeError errors (p.1 ++ rest) = some (p.2, rest) := by
  induction errors with
  | nil => cases hp
  | cons q tl ih =>
    obtain ⟨qn, qe⟩ := q
    rw [errTableOK] at hok
    simp only [Bool.and_eq_true] at hok
    obtain ⟨⟨_, hall⟩, htl⟩ := hok
    rw [consumeError]
    rcases List.mem_cons.mp hp with heq | hmem
    · subst heq
      simp [isPrefixOf_append_self]
    · have hq := List.all_eq_true.mp hall p hmem
      simp only [Bool.and_eq_true, Bool.not_eq_true', bne_iff_ne] at hq
      obtain ⟨⟨h1, h2⟩, _⟩ := hq
      have hnp : qn.isPrefixOf (p.1 ++ rest) = false := by
        cases hx : qn.isPrefixOf (p.1 ++ rest) with
        | false => rfl
        | true =>
          rcases prefix_comparable qn p.1 _ hx (isPrefixOf_append_self p.1 rest) with h | h
          · simp [h] at h1
          · simp [h] at h2
      simp only [hnp]
      exact ih htl hmem

theorem consumeError_miss (errors : List (List Char × Nat)) (hok : errTableOK errors = true)
    (rest : List Char) (hr : stops (errSecond errors) rest = true) :
    consumeError errors ('#' :: rest) = none := by
  induction errors with
  | nil => rfl
  | cons q tl ih =>
    obtain ⟨qn, qe⟩ := q
    rw [errTableOK] at hok
    simp only [Bool.and_eq_true] at hok
    obtain ⟨⟨hshape, _⟩, htl⟩ := hok
    rw [consumeError]
    have htl' : stops (errSecond tl) rest = true := by
      cases rest with
      | nil => rfl
      | cons c r =>
        simp only [stops, errSecond, List.any_cons, Bool.not_eq_true', Bool.or_eq_false_iff] at hr ⊢
        exact hr.2
    have hnp : qn.isPrefixOf ('#' :: rest) = false := by
      match qn, hshape with
      | a :: d :: m, _ =>
        cases rest with
        | nil => simp [List.isPrefixOf]
        | cons c r =>
          simp only [stops, errSecond, List.any_cons, Bool.not_eq_true', Bool.or_eq_false_iff,
            decide_eq_false_iff_not] at hr
          have hdc : d ≠ c := hr.1
          simp [List.isPrefixOf, hdc]
    simp only [hnp]
    exact ih htl htl'

theorem errText_mem (errors : List (List Char × Nat)) (e : Nat)
    (h : errors.any (fun p => p.2 = e) = true) :
    ∃ p, p ∈ errors ∧ p.2 = e ∧ errText errors e = p.1 := by
  unfold errText
  cases hf : errors.find? (fun p => decide (p.2 = e)) with
  | none =>
    rw [List.find?_eq_none] at hf
    rw [List.any_eq_true] at h
    obtain ⟨p, hp, hpe⟩ := h
    exact absurd hpe (hf p hp)
  | some p =>
    refine ⟨p, List.mem_of_find?_eq_some hf, ?_, rfl⟩
    simpa using List.find?_some hf

theorem errName_shape (errors : List (List Char × Nat)) (hok : errTableOK errors = true)
    (p : List Char × Nat) (hp : p ∈ errors) : ∃ d m, p.1 = '#' :: d :: m := by
  induction errors with
  | nil => cases hp
  | cons q tl ih =>
    rw [errTableOK] at hok
    simp only [Bool.and_eq_true] at hok
    obtain ⟨⟨hshape, _⟩, htl⟩ := hok
    rcases List.mem_cons.mp hp with heq | hmem
    · subst heq
      match hq : p.1, hshape with
      | a :: d :: m, hs =>
        simp at hs
        exact ⟨d, m, by rw [hs]⟩
    · exact ih htl hmem

theorem nextToken_err (cfg : LexCfg) (h : CfgBase cfg) (e : Nat) (rest : List Char)
    (hok : cfg.errors.any (fun p => p.2 = e) = true) :
    nextToken cfg (errText cfg.errors e ++ rest) = some (.err e, rest) := by
  obtain ⟨p, hp, hpe, htxt⟩ := errText_mem cfg.errors e hok
  obtain ⟨d, m, hshape⟩ := errName_shape cfg.errors h.errors p hp
  have hhit := consumeError_hit cfg.errors h.errors p hp rest
  rw [htxt]
  rw [hshape] at hhit ⊢
  simp only [List.cons_append] at hhit ⊢
  unfold nextToken
  rw [dropWhile_head (h.white_special '#' (by decide))]
  have hpt : punctTok '#' = none := by decide
  simp [hpt, hhit, hpe]

theorem nextToken_spill (cfg : LexCfg) (h : CfgBase cfg) (rest : List Char)
    (hf : follow cfg .spill rest = true) :
    nextToken cfg ('#' :: rest) = some (.spill, rest) := by
  have hr : stops (errSecond cfg.errors) rest = true := by
    cases rest with
    | nil => rfl
    | cons c r => simpa [follow, badNext, stops] using hf
  unfold nextToken
  rw [dropWhile_head (h.white_special '#' (by decide))]
  have hpt : punctTok '#' = none := by decide
  simp [hpt, consumeError_miss cfg.errors h.errors rest hr]

/-! ### dispatch on a character that is none of the ASCII specials -/

theorem notSpecial_facts (c : Char) (h : isAsciiSpecial c = false) :
    punctTok c = none ∧ c ≠ ',' ∧ c ≠ '.' ∧ c ≠ '$' ∧ c ≠ '<' ∧ c ≠ '>' ∧ c ≠ '#' ∧ c ≠ '"' ∧
      c ≠ '\'' := by
  simp only [isAsciiSpecial, specials, List.contains_eq_mem, List.mem_cons, List.not_mem_nil,
    or_false, decide_eq_false_iff_not, not_or] at h
  obtain ⟨h1, h2, h3, h4, h5, h6, h7, h8, h9, h10, h11, h12, h13, h14, h15, h16, h17, h18, h19, h20,
    h21, h22, h23, h24, h25, h26, h27⟩ := h
  refine ⟨?_, h20, h21, h22, h23, h24, h25, h26, h27⟩
  simp [punctTok, *]

theorem nextToken_other (cfg : LexCfg) (c : Char) (t : List Char) (hw : cfg.cc.white c = false)
    (hs : isAsciiSpecial c = false) :
    nextToken cfg (c :: t) = some (if isDigit c then digitBranch cfg c t
      else if isIdentStart cfg.cc c then identBranch cfg (c :: t) else (.illegal, [])) := by
  obtain ⟨hp, h1, h2, h3, h4, h5, h6, h7, h8⟩ := notSpecial_facts c hs
  unfold nextToken
  rw [dropWhile_head hw]
  simp only [hp, h1, h2, h3, h4, h5, h6, h7, h8, if_false]

theorem alnum_notSpecial (cfg : LexCfg) (h : CfgBase cfg) (c : Char) (ha : cfg.cc.alnum c = true) :
    isAsciiSpecial c = false := by
  cases hs : isAsciiSpecial c with
  | false => rfl
  | true => rw [h.special_not_alnum c hs] at ha; cases ha

/-! ### the identifier branch: booleans and identifiers -/

theorem headIs_false_of_ne (rest : List Char) (c : Char)
    (h : ∀ d r, rest = d :: r → d ≠ c) : headIs rest c = false := by
  cases rest with
  | nil => rfl
  | cons d r => simpa [headIs] using h d r rfl

theorem identStart_dispatch (cfg : LexCfg) (h : CfgBase cfg) (c : Char)
    (hc : isIdentStart cfg.cc c = true) :
    cfg.cc.white c = false ∧ isAsciiSpecial c = false ∧ isDigit c = false := by
  simp only [isIdentStart, Bool.or_eq_true, decide_eq_true_eq] at hc
  rcases hc with ha | hu
  · have hal := h.alpha_alnum c ha
    refine ⟨h.white_alnum c hal, alnum_notSpecial cfg h c hal, ?_⟩
    cases hd : isDigit c with
    | false => rfl
    | true => rw [h.digit_not_alpha c hd] at ha; cases ha
  · subst hu
    exact ⟨h.white_us, by decide, by decide⟩

theorem nextToken_identStart (cfg : LexCfg) (h : CfgBase cfg) (c : Char) (t : List Char)
    (hc : isIdentStart cfg.cc c = true) :
    nextToken cfg (c :: t) = some (identBranch cfg (c :: t)) := by
  obtain ⟨hw, hs, hd⟩ := identStart_dispatch cfg h c hc
  rw [nextToken_other cfg c t hw hs]
  simp [hd, hc]

theorem alpha_identChar (cfg : LexCfg) (h : CfgBase cfg) (c : Char) (ha : cfg.cc.alpha c = true) :
    isIdentChar cfg.cc c = true := by
  simp [isIdentChar, h.alpha_alnum c ha]

theorem boolName_facts (cfg : LexCfg) (h : CfgBase cfg) (n : List Char)
    (hn : n ≠ [] ∧ n.all (fun c => cfg.cc.alpha c && !isDigit c) = true) :
    n.all (isIdentChar cfg.cc) = true ∧ ∃ c tl, n = c :: tl ∧ isIdentStart cfg.cc c = true := by
  obtain ⟨hne, hall⟩ := hn
  constructor
  · rw [List.all_eq_true] at hall ⊢
    intro c hc
    have := hall c hc
    simp only [Bool.and_eq_true] at this
    exact alpha_identChar cfg h c this.1
  · cases n with
    | nil => exact absurd rfl hne
    | cons c tl =>
      refine ⟨c, tl, rfl, ?_⟩
      have := (List.all_eq_true.mp hall) c (List.mem_cons_self ..)
      simp only [Bool.and_eq_true] at this
      simp [isIdentStart, this.1]

theorem follow_bool_facts (cfg : LexCfg) (b : Bool) (rest : List Char)
    (hf : follow cfg (.bool b) rest = true) :
    stops (isIdentChar cfg.cc) rest = true ∧ headIs rest '!' = false ∧ headIs rest '$' = false := by
  cases rest with
  | nil => exact ⟨rfl, rfl, rfl⟩
  | cons d r =>
    have hb := follow_cons hf
    simp only [badNext, Bool.or_eq_false_iff, decide_eq_false_iff_not] at hb
    obtain ⟨⟨h1, h2⟩, h3⟩ := hb
    refine ⟨by simp [stops, h1], by simp [headIs, h2], by simp [headIs, h3]⟩

theorem nextToken_bool (cfg : LexCfg) (h : CfgBase cfg) (b : Bool) (rest : List Char)
    (hf : follow cfg (.bool b) rest = true) :
    nextToken cfg ((if b then cfg.trueName else cfg.falseName) ++ rest) = some (.bool b, rest) := by
  obtain ⟨hstop, hbang, hdollar⟩ := follow_bool_facts cfg b rest hf
  have key : ∀ n, (n ≠ [] ∧ n.all (fun c => cfg.cc.alpha c && !isDigit c) = true) →
      nextToken cfg (n ++ rest) = some (identBranch cfg (n ++ rest)) ∧
      (n ++ rest).takeWhile (isIdentChar cfg.cc) = n ∧
      (n ++ rest).dropWhile (isIdentChar cfg.cc) = rest := by
    intro n hn
    obtain ⟨hall, c, tl, hn', hcs⟩ := boolName_facts cfg h n hn
    refine ⟨?_, takeWhile_app _ n rest hall hstop, dropWhile_app _ n rest hall hstop⟩
    rw [hn']
    exact nextToken_identStart cfg h c (tl ++ rest) hcs
  cases b with
  | true =>
    obtain ⟨k1, k2, k3⟩ := key cfg.trueName h.true_alpha
    simp only [if_true]
    rw [k1]
    unfold identBranch
    simp only [k2, k3, hbang, hdollar, h.true_upper]
    simp
  | false =>
    obtain ⟨k1, k2, k3⟩ := key cfg.falseName h.false_alpha
    simp only [Bool.false_eq_true, if_false]
    rw [k1]
    unfold identBranch
    simp only [k2, k3, hbang, hdollar, h.false_upper]
    have hne : cfg.falseName ≠ cfg.trueName := fun e => h.true_ne_false e.symm
    simp [hne]

theorem nextToken_ident (cfg : LexCfg) (h : CfgOK cfg) (s rest : List Char)
    (hs : identOK cfg s = true) (hf : follow cfg (.ident s) rest = true) :
    nextToken cfg (s ++ rest) = some (.ident s, rest) := by
  simp only [identOK, h.a1, if_true, Bool.and_eq_true, bne_iff_ne, ne_eq, Option.isNone_iff_eq_none] at hs
  obtain ⟨⟨⟨⟨⟨hstart, hall⟩, hnt⟩, hnf⟩, hpr⟩, hvalid⟩ := hs
  have hfacts : stops (isIdentChar cfg.cc) rest = true ∧ headIs rest '!' = false ∧
      headIs rest '$' = false ∧ headIs rest '[' = false ∧
      (isValidColumn (upperStr cfg s) && headIs rest ':') = false := by
    cases rest with
    | nil => simp [stops, headIs]
    | cons d r =>
      have hb := follow_cons hf
      simp only [badNext, h.a1, Bool.true_and, Bool.or_eq_false_iff, decide_eq_false_iff_not, Bool.and_eq_false_iff] at hb
      obtain ⟨⟨⟨⟨h1, h2⟩, h3⟩, h4⟩, h5⟩ := hb
      refine ⟨by simp [stops, h1], by simp [headIs, h2], by simp [headIs, h3], by simp [headIs, h4], ?_⟩
      rcases h5 with h5 | h5
      · simp [headIs, h5]
      · simp [h5]
  obtain ⟨hstop, hbang, hdollar, hbk, hcol⟩ := hfacts
  have k2 := takeWhile_app _ s rest hall hstop
  have k3 := dropWhile_app _ s rest hall hstop
  cases s with
  | nil => simp at hstart
  | cons c tl =>
    simp only at hstart
    rw [List.cons_append, nextToken_identStart cfg h c (tl ++ rest) hstart, ← List.cons_append]
    unfold identBranch
    simp only [k2, k3, hbang, hdollar, hnt, hnf, h.a1, hpr, hcol, hvalid, hbk]
    simp

/-! ### numbers -/

/-- what may follow a number text -/
def numStop (dec : Char) (rest : List Char) : Bool :=
  stops (fun c => isDigit c || c == dec || c == 'e' || c == 'E') rest

theorem numStop_digit (dec : Char) (rest : List Char) (h : numStop dec rest = true) :
    stops isDigit rest = true := by
  cases rest with
  | nil => rfl
  | cons d r =>
    simp only [numStop, stops, Bool.not_eq_true', Bool.or_eq_false_iff] at h ⊢
    exact h.1.1.1

theorem numExp_nil (dec : Char) (rest : List Char) (h : numStop dec rest = true) :
    numExp rest = ([], rest) := by
  unfold numExp
  split
  · rename_i e x u
    simp only [numStop, stops, Bool.not_eq_true', Bool.or_eq_false_iff, beq_eq_false_iff_ne] at h
    simp [h.1.2, h.2]
  · rfl

theorem numExp_ok (dec : Char) (r2 rest : List Char) (h : expOK r2 = true)
    (hr : numStop dec rest = true) : numExp (r2 ++ rest) = (r2, rest) := by
  match r2, h with
  | [], _ => exact numExp_nil dec rest hr
  | e :: x :: v, h =>
    simp only [expOK, Bool.and_eq_true, decide_eq_true_eq] at h
    obtain ⟨⟨⟨he, hx⟩, hv⟩, _⟩ := h
    subst he
    have hd := numStop_digit dec rest hr
    simp only [List.cons_append, numExp]
    simp only [hx, takeWhile_app isDigit v rest hv hd, dropWhile_app isDigit v rest hv hd]
    simp

theorem expOK_stops_digit (r2 rest : List Char) (h : expOK r2 = true)
    (hd : stops isDigit rest = true) : stops isDigit (r2 ++ rest) = true := by
  match r2, h with
  | [], _ => simpa using hd
  | e :: x :: v, h =>
    simp only [expOK, Bool.and_eq_true, decide_eq_true_eq] at h
    obtain ⟨⟨⟨he, _⟩, _⟩, _⟩ := h
    subst he
    simp [stops]; decide

theorem map_noDot (dec : Char) (l : List Char) (h : ∀ c, c ∈ l → c ≠ '.') :
    l.map (fun c => if c = '.' then dec else c) = l := by
  induction l with
  | nil => rfl
  | cons a t ih =>
    have ha : a ≠ '.' := h a (List.mem_cons_self ..)
    simp only [List.map, ha, if_false]
    rw [ih (fun c hc => h c (List.mem_cons_of_mem _ hc))]

theorem digits_noDot (l : List Char) (h : l.all isDigit = true) : ∀ c, c ∈ l → c ≠ '.' := by
  intro c hc hdot
  have := List.all_eq_true.mp h c hc
  subst hdot
  revert this; decide

theorem expOK_noDot (r : List Char) (h : expOK r = true) : ∀ c, c ∈ r → c ≠ '.' := by
  match r, h with
  | [], _ => intro c hc; cases hc
  | e :: x :: v, h =>
    simp only [expOK, Bool.and_eq_true, decide_eq_true_eq] at h
    obtain ⟨⟨⟨he, hx⟩, hv⟩, _⟩ := h
    subst he
    intro c hc hdot
    subst hdot
    simp only [List.mem_cons] at hc
    rcases hc with hc | hc | hc
    · revert hc; decide
    · subst hc
      revert hx; decide
    · exact digits_noDot v hv '.' hc rfl

theorem takeWhile_all (p : Char → Bool) (l : List Char) : (l.takeWhile p).all p = true := by
  induction l with
  | nil => rfl
  | cons a t ih =>
    simp only [List.takeWhile]
    cases ha : p a with
    | true => simp [ha, ih]
    | false => simp

theorem dropWhile_stops (p : Char → Bool) (l : List Char) : stops p (l.dropWhile p) = true := by
  induction l with
  | nil => rfl
  | cons a t ih =>
    simp only [List.dropWhile]
    cases ha : p a with
    | true => simpa [ha] using ih
    | false => simp [stops, ha]

theorem consumeNumber_ok (dec : Char) (hdec : dec = '.' ∨ dec = ',') (c : Char) (t rest : List Char)
    (hshape : (match t.dropWhile isDigit with
      | [] => true
      | c1 :: u => if c1 = '.' then expOK (u.dropWhile isDigit) else expOK (c1 :: u)) = true)
    (hr : numStop dec rest = true) :
    consumeNumber dec c (t.map (fun c => if c = '.' then dec else c) ++ rest) = (c :: t, rest) := by
  have hdecd : isDigit dec = false := by rcases hdec with h | h <;> subst h <;> decide
  have hdece : dec ≠ 'e' ∧ dec ≠ 'E' := by rcases hdec with h | h <;> subst h <;> decide
  have hd := numStop_digit dec rest hr
  have ht : t = t.takeWhile isDigit ++ t.dropWhile isDigit := (List.takeWhile_append_dropWhile).symm
  have hd1 := takeWhile_all isDigit t
  generalize t.takeWhile isDigit = d1 at ht hd1
  generalize hr1 : t.dropWhile isDigit = r1 at ht hshape
  have hstop1 : stops isDigit r1 = true := by rw [← hr1]; exact dropWhile_stops isDigit t
  subst ht
  match r1, hshape, hstop1 with
  | [], _, _ =>
    simp only [List.append_nil]
    rw [map_noDot dec d1 (digits_noDot d1 hd1)]
    unfold consumeNumber
    rw [takeWhile_app isDigit d1 rest hd1 hd, dropWhile_app isDigit d1 rest hd1 hd]
    have hfr : numFrac dec rest = ([], rest) := by
      unfold numFrac
      split
      · rename_i a u
        have : a ≠ dec := by
          simp only [numStop, stops, Bool.not_eq_true', Bool.or_eq_false_iff, beq_eq_false_iff_ne] at hr
          exact hr.1.1.2
        simp [this]
      · rfl
    simp [hfr, numExp_nil dec rest hr]
  | c1 :: u, hshape, hstop1 =>
    by_cases hc1 : c1 = '.'
    · subst hc1
      simp only [if_true] at hshape
      have hu : u = u.takeWhile isDigit ++ u.dropWhile isDigit := (List.takeWhile_append_dropWhile).symm
      have hf1 := takeWhile_all isDigit u
      generalize u.takeWhile isDigit = f1 at hu hf1
      generalize u.dropWhile isDigit = r2 at hu hshape
      subst hu
      have hmap : (d1 ++ '.' :: (f1 ++ r2)).map (fun c => if c = '.' then dec else c)
          = d1 ++ dec :: (f1 ++ r2) := by
        simp only [List.map_append, List.map_cons, if_true]
        rw [map_noDot dec d1 (digits_noDot d1 hd1), map_noDot dec f1 (digits_noDot f1 hf1),
          map_noDot dec r2 (expOK_noDot r2 hshape)]
      rw [hmap]
      have hs1 : stops isDigit (dec :: (f1 ++ r2) ++ rest) = true := by simp [stops, hdecd]
      have hs2 := expOK_stops_digit r2 rest hshape hd
      unfold consumeNumber
      rw [List.append_assoc, takeWhile_app isDigit d1 _ hd1 hs1, dropWhile_app isDigit d1 _ hd1 hs1]
      simp only [List.cons_append, List.append_assoc, numFrac, if_true]
      rw [takeWhile_app isDigit f1 _ hf1 hs2, dropWhile_app isDigit f1 _ hf1 hs2]
      simp [numExp_ok dec r2 rest hshape hr]
    · simp only [hc1, if_false] at hshape
      have hnd := expOK_noDot _ hshape
      have hmap : (d1 ++ c1 :: u).map (fun c => if c = '.' then dec else c) = d1 ++ c1 :: u := by
        simp only [List.map_append]
        rw [map_noDot dec d1 (digits_noDot d1 hd1), map_noDot dec _ hnd]
      rw [hmap]
      have hs1 : stops isDigit ((c1 :: u) ++ rest) = true := by simpa [stops] using hstop1
      unfold consumeNumber
      rw [List.append_assoc, takeWhile_app isDigit d1 _ hd1 hs1, dropWhile_app isDigit d1 _ hd1 hs1]
      have hc1e : c1 = 'e' := by
        match u, hshape with
        | x :: v, hshape =>
          simp only [expOK, Bool.and_eq_true, decide_eq_true_eq] at hshape
          exact hshape.1.1.1
      have hfr : numFrac dec (c1 :: (u ++ rest)) = ([], c1 :: (u ++ rest)) := by
        subst hc1e
        simp [numFrac, hdece.1.symm]
      have hex := numExp_ok dec (c1 :: u) rest hshape hr
      simp only [List.cons_append] at hex ⊢
      simp [hfr, hex]

theorem nextToken_num (cfg : LexCfg) (h : CfgOK cfg) (d rest : List Char) (hd : numOK d = true)
    (hf : follow cfg (.num d) rest = true) :
    nextToken cfg (d.map (fun c => if c = '.' then cfg.decimal else c) ++ rest)
      = some (.num d, rest) := by
  match d, hd with
  | c :: t, hd =>
    simp only [numOK, Bool.and_eq_true] at hd
    obtain ⟨⟨hc, hshape⟩, hparse⟩ := hd
    have hfacts : numStop cfg.decimal rest = true ∧
        headIs (rest.dropWhile cfg.cc.white) ':' = false := by
      cases rest with
      | nil => exact ⟨rfl, rfl⟩
      | cons a r =>
        have hb := follow_cons hf
        simp only [badNext, h.a1, Bool.true_and, Bool.or_eq_false_iff, decide_eq_false_iff_not] at hb
        obtain ⟨⟨⟨⟨h1, h2⟩, h3⟩, h4⟩, h5, h6⟩ := hb
        refine ⟨by simp [numStop, stops, h1, h2, h3, h4], ?_⟩
        rw [dropWhile_head h6]
        simp [headIs, h5]
    obtain ⟨hstop, hcolon⟩ := hfacts
    have hcdot : c ≠ '.' := by intro e; subst e; revert hc; decide
    have hal := h.digit_alnum c hc
    simp only [List.map_cons, hcdot, if_false, List.cons_append]
    rw [nextToken_other cfg c _ (h.white_alnum c hal) (alnum_notSpecial cfg h c hal)]
    simp only [hc, if_true]
    unfold digitBranch
    rw [consumeNumber_ok cfg.decimal h.decimal c t rest hshape hstop]
    simp [hparse, hcolon]

/-! ### references (through C22's lemmas) -/

theorem refOK_inGrid (r : PRef) (h : refOK r = true) : InGrid 0 0 r := by
  simp only [refOK, Bool.and_eq_true, decide_eq_true_eq] at h
  obtain ⟨⟨⟨h1, h2⟩, h3⟩, h4⟩ := h
  unfold InGrid resolvedRow resolvedCol
  refine ⟨?_, ?_, ?_, ?_⟩ <;> split <;> omega

theorem tokenOf_zero (r : PRef) : tokenOf 0 0 r = r := by
  obtain ⟨c, w, ac, ar⟩ := r
  unfold tokenOf resolvedRow resolvedCol
  cases ac <;> cases ar <;> simp

theorem printA1_pre (pre : List Char) (cr cc : Int) (r : PRef) (hg : InGrid cr cc r) :
    printA1 pre cr cc r false false = pre ++ printA1 [] cr cc r false false := by
  obtain ⟨h1, h2, h3, h4⟩ := hg
  unfold resolvedRow at h1 h2
  unfold resolvedCol at h3 h4
  unfold printA1 numberToColumn isValidColumnNumber LAST_COLUMN LAST_ROW
  simp only [List.nil_append]
  generalize (if r.absRow = true then r.row else r.row + cr) = row at *
  generalize (if r.absCol = true then r.column else r.column + cc) = col at *
  have e1 : ¬ (row < 1 ∨ row > ((1048576 : Nat) : Int)) := by omega
  have e2 : (decide (1 ≤ col) && decide (col ≤ ((16384 : Nat) : Int))) = true := by simp; omega
  simp only [e1, if_false, e2, if_true]

theorem consumeRange_cell (cc : CharClass) (sh : Option (List Char)) (r : PRef) (rest : List Char)
    (hr : refOK r = true) (hrest : stops (fun c => isDigit c || c == ':') rest = true) :
    consumeRange cc true sh (printA1 [] 0 0 r false false ++ rest) = (.ref sh r, rest) := by
  unfold consumeRange
  simp only [if_true]
  rw [consumeRangeA1_cell 0 0 r rest (refOK_inGrid r hr) hrest]
  simp [tokOfRange, tokenOf_zero]

theorem dollar_not_identChar (cfg : LexCfg) (h : CfgBase cfg) : isIdentChar cfg.cc '$' = false := by
  simp [isIdentChar, h.special_not_alnum '$' (by decide)]

theorem bang_not_identChar (cfg : LexCfg) (h : CfgBase cfg) : isIdentChar cfg.cc '!' = false := by
  simp [isIdentChar, h.special_not_alnum '!' (by decide)]

theorem nextToken_dollar (cfg : LexCfg) (h : CfgOK cfg) (t : List Char) :
    nextToken cfg ('$' :: t) = some (ofRefTok (consumeRange cfg.cc true none ('$' :: t))) := by
  unfold nextToken
  rw [dropWhile_head (h.white_special '$' (by decide))]
  have hp : punctTok '$' = none := by decide
  simp [hp, h.a1]

/-- a text starting with `[$]COL[$]ROW` (one of the `$` present), no sheet: next_token is what
    consume_range reads there -/
theorem nextToken_ref_local (cfg : LexCfg) (h : CfgOK cfg) (r : PRef) (X : List Char)
    (hr : refOK r = true) (habs : (r.absCol || r.absRow) = true) :
    nextToken cfg (printA1 [] 0 0 r false false ++ X)
      = some (ofRefTok (consumeRange cfg.cc true none (printA1 [] 0 0 r false false ++ X))) := by
  have hg := refOK_inGrid r hr
  have htxt := printA1_cell 0 0 r hg
  obtain ⟨g1, g2, g3, g4⟩ := hg
  cases hac : r.absCol with
  | true =>
    rw [htxt, hac]
    simp only [cellText, withDollar, if_true, List.cons_append, List.append_assoc]
    rw [nextToken_dollar cfg h]
  | false =>
    have har : r.absRow = true := by simpa [hac] using habs
    rw [htxt, hac, har]
    simp only [cellText, withDollar, if_true, Bool.false_eq_true, if_false, List.cons_append,
      List.append_assoc]
    generalize hcol : numToCol (resolvedCol 0 r).toNat = col
    have hc1 : 1 ≤ (resolvedCol 0 r).toNat := by omega
    have hup : col.all isUpper = true := by rw [← hcol]; exact numToCol_all_upper _
    have hne : col ≠ [] := by rw [← hcol]; exact numToCol_ne_nil _ (by omega)
    have hall : col.all (isIdentChar cfg.cc) = true := by
      rw [List.all_eq_true] at hup ⊢
      intro c hc
      exact alpha_identChar cfg h c (h.upper_alpha c (hup c hc))
    have hstop : stops (isIdentChar cfg.cc) ('$' :: (natToDec (resolvedRow 0 r).toNat ++ X)) = true := by
      simp [stops, dollar_not_identChar cfg h]
    have k2 := takeWhile_app _ col _ hall hstop
    have k3 := dropWhile_app _ col _ hall hstop
    cases col with
    | nil => exact absurd rfl hne
    | cons c tl =>
      have hcs : isIdentStart cfg.cc c = true := by
        have := (List.all_eq_true.mp hup) c (List.mem_cons_self ..)
        simp [isIdentStart, h.upper_alpha c this]
      rw [List.cons_append, nextToken_identStart cfg h c _ hcs, ← List.cons_append]
      unfold identBranch
      simp only [k2, k3, h.a1]
      simp [headIs]

theorem nextToken_quote (cfg : LexCfg) (h : CfgBase cfg) (t : List Char) :
    nextToken cfg ('\'' :: t) = some (ofRefTok (quotedPath cfg.cc cfg.a1 t)) := by
  unfold nextToken
  rw [dropWhile_head (h.white_special '\'' (by decide))]
  have hp : punctTok '\'' = none := by decide
  simp [hp]

/-- a text starting with a sheet prefix, quoted or not as `quote_name` decides: next_token is what
    consume_range reads after the `!` -/
theorem nextToken_sheetPrefix (cfg : LexCfg) (h : CfgBase cfg) (n : List Char) (hn : n ≠ [])
    (X : List Char) :
    nextToken cfg ((quoteName cfg.cc n ++ ['!']) ++ X)
      = some (ofRefTok (consumeRange cfg.cc cfg.a1 (some n) X)) := by
  unfold quoteName quoteWith
  cases hq : nameNeedsQuoting cfg.cc n with
  | true =>
    simp only [if_true, List.cons_append, List.append_assoc, List.nil_append]
    rw [nextToken_quote cfg h]
    unfold quotedPath
    rw [consumeSingleQuoteString_escape n ('!' :: X) (by simp [stops])]
    simp only [dropWhile_head (h.white_special '!' (by decide)), if_true]
  | false =>
    simp only [Bool.false_eq_true, if_false, List.append_assoc, List.cons_append, List.nil_append]
    have hlook : looksLikeIdent cfg.cc n = true := by
      simp only [nameNeedsQuoting, Bool.or_eq_false_iff, Bool.not_eq_false'] at hq
      exact hq.1.1
    cases n with
    | nil => exact absurd rfl hn
    | cons c tl =>
      simp only [looksLikeIdent, Bool.and_eq_true] at hlook
      obtain ⟨hcs, htl⟩ := hlook
      have hcic : isIdentChar cfg.cc c = true := by
        simp only [isIdentStart, Bool.or_eq_true, decide_eq_true_eq] at hcs
        rcases hcs with ha | hu
        · exact alpha_identChar cfg h c ha
        · simp [isIdentChar, hu]
      have hall : (c :: tl).all (isIdentChar cfg.cc) = true := by
        simp only [List.all_cons, Bool.and_eq_true]; exact ⟨hcic, htl⟩
      have hstop : stops (isIdentChar cfg.cc) ('!' :: X) = true := by
        simp [stops, bang_not_identChar cfg h]
      have k2 := takeWhile_app _ (c :: tl) _ hall hstop
      have k3 := dropWhile_app _ (c :: tl) _ hall hstop
      rw [List.cons_append, nextToken_identStart cfg h c _ hcs, ← List.cons_append]
      unfold identBranch
      simp only [k2, k3]
      simp [headIs]

theorem nextToken_ref_sheet (cfg : LexCfg) (h : CfgOK cfg) (n : List Char) (hn : n ≠ [])
    (X : List Char) :
    nextToken cfg ((quoteName cfg.cc n ++ ['!']) ++ X)
      = some (ofRefTok (consumeRange cfg.cc true (some n) X)) := by
  rw [nextToken_sheetPrefix cfg h n hn X, h.a1]

/-! ### the plain form `A1` (identifier branch, parse_reference_a1) -/

theorem a1Loop_upper (u tail : List Char) (hu : u.all isUpper = true) (a : A1Acc)
    (ha : a.inRow = false) :
    a1Loop (u ++ tail) a = a1Loop tail { a with col := a.col ++ u } := by
  induction u generalizing a with
  | nil => simp
  | cons c t ih =>
    simp only [List.all_cons, Bool.and_eq_true] at hu
    simp only [List.cons_append, a1Loop, a1Step, hu.1, ha, Bool.not_false, Bool.and_self, if_true]
    rw [ih hu.2 _ rfl]
    simp

theorem a1Loop_digits (d : List Char) (hd : d.all isDigit = true) (a : A1Acc) (hne : d ≠ []) :
    a1Loop d a = some { a with row := a.row ++ d, inRow := true } := by
  induction d generalizing a with
  | nil => exact absurd rfl hne
  | cons c t ih =>
    simp only [List.all_cons, Bool.and_eq_true] at hd
    have hnu : isUpper c = false := by
      cases hx : isUpper c with
      | false => rfl
      | true => rw [isUpper_not_digit c hx] at hd; cases hd.1
    simp only [a1Loop, a1Step, hnu, Bool.false_and, Bool.false_eq_true, if_false, hd.1, if_true]
    cases t with
    | nil => simp [a1Loop]
    | cons c2 t2 =>
      rw [ih hd.2 _ (by simp)]
      simp

theorem parseReferenceA1_cell (c r : Nat) (hc1 : 1 ≤ c) (hc2 : c ≤ 16384) (hr1 : 1 ≤ r)
    (hr2 : r ≤ 1048576) :
    (parseReferenceA1 (numToCol c ++ natToDec r)).isSome = true := by
  unfold parseReferenceA1
  rw [a1Loop_upper _ _ (numToCol_all_upper c) _ rfl, a1Loop_digits _ (natToDec_all_digit r) _ (natToDec_ne_nil r)]
  have hcn := columnToNumber_numToCol c hc1 hc2
  have hlen := numToCol_length_le3 c (by omega)
  have hvc : isValidColumn (numToCol c) = true := by
    unfold isValidColumn
    have hl : ¬ (numToCol c).length > 3 := by omega
    simp only [hl, if_false, hcn, isValidColumnNumber, LAST_COLUMN]
    simp
    exact ⟨by omega, by apply decide_eq_true; omega⟩
  have hvr : isValidRow (r : Int) = true := by
    simp only [isValidRow, LAST_ROW]
    simp
    exact ⟨by omega, by apply decide_eq_true; omega⟩
  simp only [List.nil_append, hvc, Bool.not_true, Bool.false_eq_true, if_false,
    parseI32_natToDec r (by omega), hcn, hvr]
  simp

theorem upperStr_fixed (cfg : LexCfg) (h : CfgBase cfg) (s : List Char)
    (hs : ∀ c, c ∈ s → isUpper c = true ∨ isDigit c = true) : upperStr cfg s = s := by
  unfold upperStr
  induction s with
  | nil => rfl
  | cons a t ih =>
    simp only [List.flatMap_cons, h.upper_ascii a (hs a (List.mem_cons_self ..))]
    rw [ih (fun c hc => hs c (List.mem_cons_of_mem _ hc))]
    rfl

/-- what may follow the first cell of a plain `A1…` text without changing the branch taken -/
def plainStop (cfg : LexCfg) (rest : List Char) : Bool :=
  stops (fun c => isIdentChar cfg.cc c || c == '!' || c == '$' || c == '(') rest

/-- a text starting with a plain cell `A1`: next_token is what consume_range_a1 reads there -/
theorem nextToken_ref_plain (cfg : LexCfg) (h : CfgOK cfg) (r : PRef) (X : List Char)
    (hr : refOK r = true) (hac : r.absCol = false) (har : r.absRow = false)
    (hstop : plainStop cfg X = true) (rg : PRange) (rest' : List Char)
    (hcell : consumeRangeA1 (printA1 [] 0 0 r false false ++ X) = some (rg, rest')) :
    nextToken cfg (printA1 [] 0 0 r false false ++ X) = some (ofRefTok (tokOfRange none rg, rest')) := by
  have hfacts : stops (isIdentChar cfg.cc) X = true ∧ headIs X '!' = false ∧
      headIs X '$' = false ∧ headIs X '(' = false := by
    cases X with
    | nil => simp [stops, headIs]
    | cons d t =>
      simp only [plainStop, stops, Bool.not_eq_true', Bool.or_eq_false_iff, beq_eq_false_iff_ne] at hstop
      obtain ⟨⟨⟨h1, h2⟩, h3⟩, h4⟩ := hstop
      refine ⟨by simp [stops, h1], by simp [headIs, h2], by simp [headIs, h3], by simp [headIs, h4]⟩
  obtain ⟨hs1, hbang, hdollar, hparen⟩ := hfacts
  have hg := refOK_inGrid r hr
  have htxt := printA1_cell 0 0 r hg
  obtain ⟨g1, g2, g3, g4⟩ := hg
  rw [htxt, hac, har] at hcell ⊢
  simp only [cellText, withDollar, Bool.false_eq_true, if_false] at hcell ⊢
  generalize hcn : (resolvedCol 0 r).toNat = cn at hcell ⊢
  generalize hrn : (resolvedRow 0 r).toNat = rn at hcell ⊢
  have hc1 : 1 ≤ cn ∧ cn ≤ 16384 := by omega
  have hr1 : 1 ≤ rn ∧ rn ≤ 1048576 := by omega
  have hpr := parseReferenceA1_cell cn rn hc1.1 hc1.2 hr1.1 hr1.2
  have hchars : ∀ c, c ∈ numToCol cn ++ natToDec rn → isUpper c = true ∨ isDigit c = true := by
    intro c hc
    rcases List.mem_append.mp hc with hc | hc
    · exact Or.inl (List.all_eq_true.mp (numToCol_all_upper cn) c hc)
    · exact Or.inr (List.all_eq_true.mp (natToDec_all_digit rn) c hc)
  have hall : (numToCol cn ++ natToDec rn).all (isIdentChar cfg.cc) = true := by
    rw [List.all_eq_true]
    intro c hc
    rcases hchars c hc with hu | hd
    · exact alpha_identChar cfg h c (h.upper_alpha c hu)
    · simp [isIdentChar, h.digit_alnum c hd]
  have hup := upperStr_fixed cfg h _ hchars
  -- the text ends in a digit, a boolean name has none
  have hnotbool : ∀ n, n.all (fun c => cfg.cc.alpha c && !isDigit c) = true →
      numToCol cn ++ natToDec rn ≠ n := by
    intro n hn heq
    obtain ⟨x, xs, hx⟩ := List.exists_cons_of_ne_nil (natToDec_ne_nil rn)
    have hxd : isDigit x = true := by
      have := natToDec_all_digit rn
      rw [hx] at this
      simp only [List.all_cons, Bool.and_eq_true] at this
      exact this.1
    have hmem : x ∈ n := by rw [← heq, hx]; simp
    have := List.all_eq_true.mp hn x hmem
    simp [hxd] at this
  have k2 := takeWhile_app _ _ X hall hs1
  have k3 := dropWhile_app _ _ X hall hs1
  have hne := numToCol_ne_nil cn (by omega)
  have hhead : ∃ c tl, numToCol cn ++ natToDec rn ++ X = c :: tl ∧ isIdentStart cfg.cc c = true := by
    obtain ⟨c, tl, hctl⟩ := List.exists_cons_of_ne_nil hne
    refine ⟨c, tl ++ natToDec rn ++ X, by rw [hctl]; simp, ?_⟩
    have := numToCol_all_upper cn
    rw [hctl] at this
    simp only [List.all_cons, Bool.and_eq_true] at this
    simp [isIdentStart, h.upper_alpha c this.1]
  obtain ⟨c, tl, hctl, hcs⟩ := hhead
  rw [hctl, nextToken_identStart cfg h c tl hcs, ← hctl]
  unfold identBranch
  simp only [k2, k3, hbang, hdollar, hup, hparen, h.a1,
    hnotbool cfg.trueName h.true_alpha.2, hnotbool cfg.falseName h.false_alpha.2, hpr, hcell]
  simp

/-- what consume_range reads on `CELL ++ X`, whichever way next_token gets there -/
theorem nextToken_cellStart (cfg : LexCfg) (h : CfgOK cfg) (sh : Option (List Char)) (r : PRef)
    (X : List Char) (hsh : sheetOK sh = true) (hr : refOK r = true)
    (hplain : (sh.isNone && !r.absCol && !r.absRow) = true → plainStop cfg X = true)
    (rg : PRange) (rest' : List Char)
    (hcell : consumeRangeA1 (printA1 [] 0 0 r false false ++ X) = some (rg, rest')) :
    nextToken cfg (sheetPrefix cfg.cc sh ++ (printA1 [] 0 0 r false false ++ X))
      = some (ofRefTok (tokOfRange sh rg, rest')) := by
  have hcr : ∀ s, consumeRange cfg.cc true s (printA1 [] 0 0 r false false ++ X)
      = (tokOfRange s rg, rest') := by
    intro s; unfold consumeRange; simp [hcell]
  by_cases hp : (sh.isNone && !r.absCol && !r.absRow) = true
  · have hstop := hplain hp
    simp only [Bool.and_eq_true, Option.isNone_iff_eq_none, Bool.not_eq_true'] at hp
    obtain ⟨⟨hnone, hac⟩, har⟩ := hp
    subst hnone
    simp only [sheetPrefix, List.nil_append]
    exact nextToken_ref_plain cfg h r X hr hac har hstop rg rest' hcell
  · cases sh with
    | some n =>
      have hn : n ≠ [] := by intro e; subst e; simp [sheetOK] at hsh
      simp only [sheetPrefix]
      rw [nextToken_ref_sheet cfg h n hn, hcr]
    | none =>
      simp only [sheetPrefix, List.nil_append]
      rw [nextToken_ref_local cfg h r X hr (by
        simp only [Option.isNone_none, Bool.true_and] at hp
        cases hac : r.absCol <;> cases har : r.absRow <;> simp_all), hcr]

/-! ### whole-column and whole-row ranges -/

theorem printA1_pre' (pre : List Char) (cr cc : Int) (r : PRef) (fr fc : Bool) (hg : InGrid cr cc r) :
    printA1 pre cr cc r fr fc = pre ++ printA1 [] cr cc r fr fc := by
  obtain ⟨h1, h2, h3, h4⟩ := hg
  unfold resolvedRow at h1 h2
  unfold resolvedCol at h3 h4
  unfold printA1 numberToColumn isValidColumnNumber LAST_COLUMN LAST_ROW
  simp only [List.nil_append]
  generalize (if r.absRow = true then r.row else r.row + cr) = row at *
  generalize (if r.absCol = true then r.column else r.column + cc) = col at *
  have e1 : ¬ (row < 1 ∨ row > ((1048576 : Nat) : Int)) := by omega
  have e2 : (decide (1 ≤ col) && decide (col ≤ ((16384 : Nat) : Int))) = true := by simp; omega
  simp only [e1, if_false, e2, if_true]

theorem isValidColumn_numToCol (c : Nat) (hc1 : 1 ≤ c) (hc2 : c ≤ 16384) :
    isValidColumn (numToCol c) = true := by
  have hcn := columnToNumber_numToCol c hc1 hc2
  have hlen := numToCol_length_le3 c (by omega)
  unfold isValidColumn
  have hl : ¬ (numToCol c).length > 3 := by omega
  simp only [hl, if_false, hcn, isValidColumnNumber, LAST_COLUMN]
  simp
  exact ⟨by omega, by apply decide_eq_true; omega⟩

/-- a text starting with column letters and `:` (no sheet, no `$`) -/
theorem nextToken_colStart (cfg : LexCfg) (h : CfgOK cfg) (c : Nat) (hc1 : 1 ≤ c) (hc2 : c ≤ 16384)
    (Y : List Char) (rg : PRange) (rest' : List Char)
    (hcell : consumeRangeA1 (numToCol c ++ ':' :: Y) = some (rg, rest')) :
    nextToken cfg (numToCol c ++ ':' :: Y) = some (ofRefTok (tokOfRange none rg, rest')) := by
  have hvc := isValidColumn_numToCol c hc1 hc2
  have hup : (numToCol c).all isUpper = true := numToCol_all_upper c
  have hne := numToCol_ne_nil c (by omega)
  have hall : (numToCol c).all (isIdentChar cfg.cc) = true := by
    rw [List.all_eq_true] at hup ⊢
    intro x hx
    exact alpha_identChar cfg h x (h.upper_alpha x (hup x hx))
  have hstop : stops (isIdentChar cfg.cc) (':' :: Y) = true := by
    simp [stops, isIdentChar, h.special_not_alnum ':' (by decide)]
  have k2 := takeWhile_app _ (numToCol c) _ hall hstop
  have k3 := dropWhile_app _ (numToCol c) _ hall hstop
  have hupper := upperStr_fixed cfg h (numToCol c) (fun x hx => Or.inl (List.all_eq_true.mp hup x hx))
  have hnt : numToCol c ≠ cfg.trueName := by intro e; rw [e, h.true_not_col] at hvc; cases hvc
  have hnf : numToCol c ≠ cfg.falseName := by intro e; rw [e, h.false_not_col] at hvc; cases hvc
  obtain ⟨x, tl, hx⟩ := List.exists_cons_of_ne_nil hne
  have hcs : isIdentStart cfg.cc x = true := by
    have := numToCol_all_upper c
    rw [hx] at this
    simp only [List.all_cons, Bool.and_eq_true] at this
    simp [isIdentStart, h.upper_alpha x this.1]
  have hstart : nextToken cfg (numToCol c ++ ':' :: Y) = some (identBranch cfg (numToCol c ++ ':' :: Y)) := by
    rw [hx, List.cons_append]
    exact nextToken_identStart cfg h x _ hcs
  rw [hstart]
  unfold identBranch
  simp only [k2, k3, hupper, hnt, hnf, h.a1, hvc, hcell]
  simp [headIs]

theorem f64Parses_digits (c : Char) (ds : List Char) (hc : isDigit c = true) (hd : ds.all isDigit = true) :
    f64Parses (c :: ds) = true := by
  have hns : ¬ (c = '-' ∨ c = '+') := by
    intro e; rcases e with e | e <;> subst e <;> revert hc <;> decide
  have hall : (c :: ds).all isDigit = true := by simp [hc, hd]
  have h1 : (c :: ds).takeWhile isDigit = c :: ds := by
    have := takeWhile_app isDigit (c :: ds) [] hall rfl
    simpa using this
  have h2 : (c :: ds).dropWhile isDigit = [] := by
    have := dropWhile_app isDigit (c :: ds) [] hall rfl
    simpa using this
  unfold f64Parses stripSign
  simp only [Bool.or_eq_true, decide_eq_true_eq, hns, if_false, h1, h2]
  simp

/-- a text starting with row digits and `:` (no sheet, no `$`): the digit branch takes the row-range path -/
theorem nextToken_rowStart (cfg : LexCfg) (h : CfgOK cfg) (r : Nat) (Y : List Char)
    (L R : PRef) (rest' : List Char)
    (hcell : consumeRangeA1 (natToDec r ++ ':' :: Y) = some ({ left := L, right := some R }, rest')) :
    nextToken cfg (natToDec r ++ ':' :: Y) = some (.range none L R, rest') := by
  obtain ⟨c, ds, hx⟩ := List.exists_cons_of_ne_nil (natToDec_ne_nil r)
  have hall := natToDec_all_digit r
  rw [hx] at hall hcell ⊢
  simp only [List.all_cons, Bool.and_eq_true] at hall
  obtain ⟨hc, hd⟩ := hall
  have hal := h.digit_alnum c hc
  have hdecd : cfg.decimal ≠ ':' := by rcases h.decimal with e | e <;> rw [e] <;> decide
  simp only [List.cons_append] at hcell ⊢
  rw [nextToken_other cfg c _ (h.white_alnum c hal) (alnum_notSpecial cfg h c hal)]
  simp only [hc, if_true]
  have hs : stops isDigit (':' :: Y) = true := by simp [stops]; decide
  have hnum : consumeNumber cfg.decimal c (ds ++ ':' :: Y) = (c :: ds, ':' :: Y) := by
    unfold consumeNumber
    rw [takeWhile_app isDigit ds _ hd hs, dropWhile_app isDigit ds _ hd hs]
    have hfr : numFrac cfg.decimal (':' :: Y) = ([], ':' :: Y) := by
      simp [numFrac, Ne.symm hdecd]
    have hex : numExp (':' :: Y) = ([], ':' :: Y) := by
      unfold numExp
      split
      · rename_i e x u heq
        simp only [List.cons.injEq] at heq
        obtain ⟨he, _⟩ := heq
        subst he
        simp
      · rfl
    simp [hfr, hex]
  unfold digitBranch
  rw [hnum]
  simp only [f64Parses_digits c ds hc hd, Bool.not_true, Bool.false_eq_true, if_false, h.a1,
    dropWhile_head (h.white_special ':' (by decide)), headIs, Bool.true_and]
  simp [hcell]


/-- a whole-column / whole-row range text `body`, after any sheet prefix -/
theorem nextToken_openStart (cfg : LexCfg) (h : CfgOK cfg) (sh : Option (List Char)) (hsh : sheetOK sh = true)
    (body rest' : List Char) (L R : PRef)
    (hcell : consumeRangeA1 body = some ({ left := L, right := some R }, rest'))
    (hshape : (∃ t, body = '$' :: t) ∨
      (∃ c Y, 1 ≤ c ∧ c ≤ 16384 ∧ body = numToCol c ++ ':' :: Y) ∨
      (∃ r Y, body = natToDec r ++ ':' :: Y)) :
    nextToken cfg (sheetPrefix cfg.cc sh ++ body) = some (.range sh L R, rest') := by
  have hcr : ∀ s, consumeRange cfg.cc true s body = (.range s L R, rest') := by
    intro s; unfold consumeRange; simp [hcell, tokOfRange]
  cases sh with
  | some n =>
    have hn : n ≠ [] := by intro e; subst e; simp [sheetOK] at hsh
    simp only [sheetPrefix]
    rw [nextToken_ref_sheet cfg h n hn, hcr]
    rfl
  | none =>
    simp only [sheetPrefix, List.nil_append]
    rcases hshape with ⟨t, ht⟩ | ⟨c, Y, hc1, hc2, hb⟩ | ⟨r, Y, hb⟩
    · rw [ht] at hcr ⊢
      rw [nextToken_dollar cfg h, hcr]
      rfl
    · rw [hb] at hcell ⊢
      rw [nextToken_colStart cfg h c hc1 hc2 Y _ rest' hcell]
      rfl
    · rw [hb] at hcell ⊢
      exact nextToken_rowStart cfg h r Y L R rest' hcell

theorem printRangeA1_pre (pre : List Char) (l r : PRef) (hl : InGrid 0 0 l) :
    printRangeA1 pre 0 0 l r = pre ++ printRangeA1 [] 0 0 l r := by
  unfold printRangeA1
  rw [printA1_pre' pre 0 0 l _ _ hl]
  simp

/-- whole-column and whole-row ranges (`A:C`, `$3:5`, any sheet prefix) -/
theorem nextToken_range_open (cfg : LexCfg) (h : CfgOK cfg) (sh : Option (List Char)) (l r : PRef)
    (rest : List Char) (hsh : sheetOK sh = true) (hl : refOK l = true) (hr : refOK r = true)
    (hopen : (fullRowOf l r || fullColOf l r) = true)
    (hrest : stops isAlphaOrDigit rest = true) :
    nextToken cfg (printRangeA1 (sheetPrefix cfg.cc sh) 0 0 l r ++ rest) = some (.range sh l r, rest) := by
  have hgl := refOK_inGrid l hl
  have hgr := refOK_inGrid r hr
  rw [printRangeA1_pre _ l r hgl, List.append_assoc]
  have hres : ∀ x : PRef, InGrid 0 0 x → 1 ≤ (resolvedCol 0 x).toNat ∧ (resolvedCol 0 x).toNat ≤ 16384 := by
    intro x hx; obtain ⟨_, _, h3, h4⟩ := hx; omega
  by_cases hfr : fullRowOf l r = true
  · have hcell := a1_column_range_roundtrip 0 0 l r rest hgl hgr hfr hrest
    simp only [tokenOf_zero] at hcell
    apply nextToken_openStart cfg h sh hsh _ rest l r hcell
    have hfc := fullColOf_false_of_fullRow l r hfr
    unfold printRangeA1
    rw [hfr, hfc, printA1_colonly 0 0 l hgl, printA1_colonly 0 0 r hgr]
    cases hac : l.absCol with
    | true =>
      simp only [colText, withDollar, if_true, List.cons_append]
      exact Or.inl ⟨_, rfl⟩
    | false =>
      simp only [colText, withDollar, Bool.false_eq_true, if_false, List.append_assoc, List.cons_append]
      exact Or.inr (Or.inl ⟨(resolvedCol 0 l).toNat, _, (hres l hgl).1, (hres l hgl).2, rfl⟩)
  · have hfc : fullColOf l r = true := by simpa [hfr] using hopen
    have hcell := a1_row_range_roundtrip 0 0 l r rest hgl hgr hfc hrest
    simp only [tokenOf_zero] at hcell
    apply nextToken_openStart cfg h sh hsh _ rest l r hcell
    have hfr' : fullRowOf l r = false := by simpa using hfr
    unfold printRangeA1
    rw [hfr', hfc, printA1_rowonly 0 0 l hgl, printA1_rowonly 0 0 r hgr]
    cases har : l.absRow with
    | true =>
      simp only [rowText, withDollar, if_true, List.cons_append]
      exact Or.inl ⟨_, rfl⟩
    | false =>
      simp only [rowText, withDollar, Bool.false_eq_true, if_false, List.append_assoc, List.cons_append]
      exact Or.inr (Or.inr ⟨(resolvedRow 0 l).toNat, _, rfl⟩)


/-! ### every token class together -/

theorem nextToken_ref (cfg : LexCfg) (h : CfgOK cfg) (sh : Option (List Char)) (r : PRef)
    (rest : List Char) (hok : tokOK cfg (.ref sh r) = true)
    (hf : follow cfg (.ref sh r) rest = true) :
    nextToken cfg (renderTok cfg (.ref sh r) ++ rest) = some (.ref sh r, rest) := by
  simp only [tokOK, h.a1, if_true, Bool.and_eq_true] at hok
  obtain ⟨hsh, hr⟩ := hok
  simp only [renderTok, h.a1, if_true]
  rw [printA1_pre _ 0 0 r (refOK_inGrid r hr), List.append_assoc]
  have hrest : stops (fun c => isDigit c || c == ':') rest = true ∧
      ((sh.isNone && !r.absCol && !r.absRow) = true → plainStop cfg rest = true) := by
    cases rest with
    | nil => exact ⟨rfl, fun _ => rfl⟩
    | cons d t =>
      have hb := follow_cons hf
      by_cases hp : (sh.isNone && !r.absCol && !r.absRow) = true
      · simp only [badNext, h.a1, Bool.not_true, Bool.false_eq_true, if_false, hp, if_true, Bool.or_eq_false_iff, decide_eq_false_iff_not] at hb
        obtain ⟨⟨⟨⟨h1, h2⟩, h3⟩, h4⟩, h5⟩ := hb
        have hdd : isDigit d = false := by
          cases hx : isDigit d with
          | false => rfl
          | true => simp [isIdentChar, h.digit_alnum d hx] at h1
        exact ⟨by simp [stops, hdd, h5], fun _ => by simp [plainStop, stops, h1, h2, h3, h4]⟩
      · simp only [badNext, h.a1, Bool.not_true, hp, Bool.false_eq_true, if_false, Bool.or_eq_false_iff,
          decide_eq_false_iff_not] at hb
        exact ⟨by simp [stops, hb.1, hb.2], fun hc => absurd hc hp⟩
  have hcell := consumeRangeA1_cell 0 0 r rest (refOK_inGrid r hr) hrest.1
  rw [nextToken_cellStart cfg h sh r rest hsh hr hrest.2 _ _ hcell]
  simp [tokOfRange, ofRefTok, tokenOf_zero]

/-- a range: two cells, whole columns or whole rows; any sheet prefix, any `$` -/
theorem nextToken_range (cfg : LexCfg) (h : CfgOK cfg) (sh : Option (List Char)) (l r : PRef)
    (rest : List Char) (hok : tokOK cfg (.range sh l r) = true)
    (hf : follow cfg (.range sh l r) rest = true) :
    nextToken cfg (renderTok cfg (.range sh l r) ++ rest) = some (.range sh l r, rest) := by
  simp only [tokOK, h.a1, if_true, Bool.and_eq_true] at hok
  obtain ⟨hsh, hl, hr⟩ := hok
  simp only [renderTok, h.a1, if_true]
  by_cases hopen : (fullRowOf l r || fullColOf l r) = true
  · have hrest : stops isAlphaOrDigit rest = true := by
      cases rest with
      | nil => rfl
      | cons d t =>
        have hb := follow_cons hf
        simp only [badNext, h.a1, Bool.not_true, Bool.false_eq_true, if_false, hopen, if_true] at hb
        simp [stops, hb]
    exact nextToken_range_open cfg h sh l r rest hsh hl hr hopen hrest
  · have hfr : fullRowOf l r = false := by
      cases hx : fullRowOf l r <;> simp [hx] at hopen ⊢
    have hfc : fullColOf l r = false := by
      cases hx : fullColOf l r <;> simp [hx] at hopen ⊢
    simp only [printRangeA1, hfr, hfc]
    rw [printA1_pre _ 0 0 l (refOK_inGrid l hl)]
    simp only [List.append_assoc, List.cons_append]
    have hrest : stops isDigit rest = true := by
      cases rest with
      | nil => rfl
      | cons d t =>
        have hb := follow_cons hf
        simp only [badNext, h.a1, Bool.not_true, hopen, Bool.false_eq_true, if_false] at hb
        simp [stops, hb]
    have hcell := consumeRangeA1_cells 0 0 l r rest (refOK_inGrid l hl) (refOK_inGrid r hr) hrest
    have hX : plainStop cfg (':' :: (printA1 [] 0 0 r false false ++ rest)) = true := by
      simp [plainStop, stops, isIdentChar, h.special_not_alnum ':' (by decide)]
    rw [nextToken_cellStart cfg h sh l _ hsh hl (fun _ => hX) _ _ hcell]
    simp [tokOfRange, ofRefTok, tokenOf_zero]

/-- **one token**: `next_token` on the text of a well-formed token, followed by anything that does
    not start with a character that glues to it, returns that token and leaves what follows -/
theorem nextToken_renderTok (cfg : LexCfg) (h : CfgOK cfg) (t : CTok) (rest : List Char)
    (hok : tokOK cfg t = true) (hf : follow cfg t rest = true) :
    nextToken cfg (renderTok cfg t ++ rest) = some (t, rest) := by
  cases t with
  | illegal => simp [tokOK] at hok
  | ident s => exact nextToken_ident cfg h s rest hok hf
  | str s =>
    simp only [renderTok, List.cons_append, List.append_assoc]
    exact nextToken_str cfg h s rest hok hf
  | num d => exact nextToken_num cfg h d rest hok hf
  | bool b => exact nextToken_bool cfg h b rest hf
  | err e => exact nextToken_err cfg h e rest hok
  | cmp k =>
    cases k with
    | lt => exact nextToken_lt cfg h rest hf
    | gt => exact nextToken_gt cfg h rest hf
    | eq => exact nextToken_punct cfg h '=' _ rest (by decide) (by decide)
    | le => exact nextToken_le cfg h rest
    | ge => exact nextToken_ge cfg h rest
    | ne => exact nextToken_ne cfg h rest
  | add => exact nextToken_punct cfg h '+' _ rest (by decide) (by decide)
  | sub => exact nextToken_punct cfg h '-' _ rest (by decide) (by decide)
  | mul => exact nextToken_punct cfg h '*' _ rest (by decide) (by decide)
  | div => exact nextToken_punct cfg h '/' _ rest (by decide) (by decide)
  | pow => exact nextToken_punct cfg h '^' _ rest (by decide) (by decide)
  | lp => exact nextToken_punct cfg h '(' _ rest (by decide) (by decide)
  | rp => exact nextToken_punct cfg h ')' _ rest (by decide) (by decide)
  | colon => exact nextToken_punct cfg h ':' _ rest (by decide) (by decide)
  | semi => exact nextToken_punct cfg h ';' _ rest (by decide) (by decide)
  | lbk => exact nextToken_punct cfg h '[' _ rest (by decide) (by decide)
  | rbk => exact nextToken_punct cfg h ']' _ rest (by decide) (by decide)
  | lbrace => exact nextToken_punct cfg h '{' _ rest (by decide) (by decide)
  | rbrace => exact nextToken_punct cfg h '}' _ rest (by decide) (by decide)
  | comma =>
    have hd : cfg.decimal ≠ ',' := by simpa [tokOK] using hok
    exact nextToken_comma cfg h rest hd
  | bang => exact nextToken_punct cfg h '!' _ rest (by decide) (by decide)
  | pct => exact nextToken_punct cfg h '%' _ rest (by decide) (by decide)
  | amp => exact nextToken_punct cfg h '&' _ rest (by decide) (by decide)
  | «at» => exact nextToken_punct cfg h '@' _ rest (by decide) (by decide)
  | spill => exact nextToken_spill cfg h rest hf
  | backslash => exact nextToken_punct cfg h '\\' _ rest (by decide) (by decide)
  | ref sh r => exact nextToken_ref cfg h sh r rest hok hf
  | range sh l r => exact nextToken_range cfg h sh l r rest hok hf
  | sref a b c => simp [tokOK] at hok

theorem nextToken_nil (cfg : LexCfg) : nextToken cfg [] = none := by
  simp [nextToken]

/-- a well-formed token has a non-empty text -/
theorem renderTok_ne_nil (cfg : LexCfg) (h : CfgOK cfg) (t : CTok) (hok : tokOK cfg t = true) :
    renderTok cfg t ≠ [] := by
  intro he
  have h1 := nextToken_renderTok cfg h t [] hok rfl
  rw [he, List.append_nil, nextToken_nil] at h1
  cases h1

end IronCalc.Formula
