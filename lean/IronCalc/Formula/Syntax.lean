/-
  M-Formula, part 1: tokens, syntax trees, the paren-table-parametrised printer.

  models base/src/expressions/parser/mod.rs::Node (operator skeleton; literal payloads opaque),
         base/src/expressions/token.rs::TokenType (at the level the parser sees),
         base/src/expressions/parser/stringify.rs::stringify (display / internal R1C1 modes):
  the *structure* of the printer is hand-written once; every "wrap this child in
  parentheses?" decision is a lookup in a table `T : Slot → Kind → Bool` that is re-extracted
  from the running code on every check (Generated/ParenStringify.lean).
-/
namespace IronCalc.Formula

/-- classes of literal tokens / nodes (payloads are opaque naturals) -/
inductive LitClass where
  | number | string | error | ref | range | wrongRef | wrongRange | array
  deriving DecidableEq, Repr

/-- binary operators; `cmp k` carries the comparison kind (=, <, >, <=, >=, <>) opaquely -/
inductive BinOp where
  | cmp (k : Nat) | cat | add | sub | mul | div | pow
  deriving DecidableEq, Repr

inductive OpClass where
  | cmp | cat | add | sub | mul | div | pow
  deriving DecidableEq, Repr

def BinOp.cls : BinOp → OpClass
  | .cmp _ => .cmp | .cat => .cat | .add => .add | .sub => .sub
  | .mul => .mul | .div => .div | .pow => .pow

/-- grammar level of the loop that consumes the operator (parse_expr … parse_prod) -/
def OpClass.level : OpClass → Nat
  | .cmp => 0 | .cat => 1 | .add => 2 | .sub => 2 | .mul => 3 | .div => 3 | .pow => 4

def BinOp.level (o : BinOp) : Nat := o.cls.level

inductive Tok where
  | op (o : BinOp)
  | pct | colon | at | hash | lp | rp | lbk | rbk | sep
  | lit (c : LitClass) (a : Nat)
  | ident (x : Nat)            -- identifier or boolean token; `0` is LAMBDA
  deriving DecidableEq, Repr

mutual
inductive Node where
  | lit (c : LitClass) (a : Nat)
  | name (x : Nat)                      -- NamedVariable / DefinedName / TableName / Boolean
  | bin (o : BinOp) (a b : Node)        -- Compare / OpConcatenate / OpSum / OpProduct / OpPower
  | neg (a : Node)                      -- UnaryKind Minus
  | pct (a : Node)                      -- UnaryKind Percentage
  | rng (a b : Node)                    -- OpRangeKind
  | at (a : Node)                       -- ImplicitIntersection
  | spill (a : Node)                    -- SpillRangeOperator
  | call (x : Nat) (args : Args)        -- FunctionKind / NamedFunctionKind
  | lam (ps : List (Nat × Bool)) (body : Node)                 -- LambdaDefKind (name, optional)
  | lamcall (ps : List (Nat × Bool)) (body : Node) (args : Args) -- LambdaCallKind on a LambdaDef
inductive Args where
  | nil
  | consE (rest : Args)                 -- EmptyArgKind
  | consN (n : Node) (rest : Args)
end

inductive Kind where
  | lit (c : LitClass) | name | bin (c : OpClass) | neg | pct | rng | at | spill
  | call | lam | lamcall
  deriving DecidableEq, Repr

inductive Slot where
  | binL (c : OpClass) | binR (c : OpClass) | neg | pct | rngL | rngR | at | spill
  deriving DecidableEq, Repr

def Node.kind : Node → Kind
  | .lit c _ => .lit c | .name _ => .name | .bin o _ _ => .bin o.cls | .neg _ => .neg
  | .pct _ => .pct | .rng _ _ => .rng | .at _ => .at | .spill _ => .spill
  | .call _ _ => .call | .lam _ _ => .lam | .lamcall _ _ _ => .lamcall

/-- the loosest grammar level at which a node of this kind is produced by the parser
    (0 compare … 4 power, 5 sign/percent, 6 range, 7 implicit/spill, 8 primary) -/
def Kind.level : Kind → Nat
  | .bin c => c.level
  | .neg => 5 | .pct => 5 | .rng => 6 | .at => 7 | .spill => 7
  | .lit _ => 8 | .name => 8 | .call => 8 | .lam => 8 | .lamcall => 8

/-- the level at which the parser parses the child in this slot (derived from the PARSER) -/
def Slot.level : Slot → Nat
  | .binL c => c.level          -- left-associative loop: the accumulated left operand
  | .binR c => c.level + 1
  | .neg => 6                    -- parse_power: sign* parse_range
  | .pct => 5                    -- parse_power: … %*
  | .rngL => 7                   -- parse_range: parse_implicit ':' parse_primary
  | .rngR => 8
  | .at => 8                     -- parse_implicit: '@' parse_primary
  | .spill => 8                  -- parse_implicit: parse_primary '#'

/-- "this child, printed bare in this slot, would be re-parsed into a different tree" -/
def needs (s : Slot) (k : Kind) : Bool := k.level < s.level

abbrev Table := Slot → Kind → Bool

def TableOK (T : Table) : Prop := ∀ s k, needs s k = true → T s k = true

def wrap (b : Bool) (ts : List Tok) : List Tok := if b then Tok.lp :: ts ++ [Tok.rp] else ts

def prParams : List (Nat × Bool) → List Tok
  | [] => []
  | (x, false) :: ps => Tok.ident x :: Tok.sep :: prParams ps
  | (x, true) :: ps => Tok.lbk :: Tok.ident x :: Tok.rbk :: Tok.sep :: prParams ps

mutual
/-- models stringify.rs::stringify (display and internal modes) -/
def pr (T : Table) : Node → List Tok
  | .lit c a => [Tok.lit c a]
  | .name x => [Tok.ident x]
  | .bin o a b =>
      wrap (T (.binL o.cls) a.kind) (pr T a) ++ Tok.op o :: wrap (T (.binR o.cls) b.kind) (pr T b)
  | .neg a => Tok.op .sub :: wrap (T .neg a.kind) (pr T a)
  | .pct a => wrap (T .pct a.kind) (pr T a) ++ [Tok.pct]
  | .rng a b => wrap (T .rngL a.kind) (pr T a) ++ Tok.colon :: wrap (T .rngR b.kind) (pr T b)
  | .at a => Tok.at :: wrap (T .at a.kind) (pr T a)
  | .spill a => wrap (T .spill a.kind) (pr T a) ++ [Tok.hash]
  | .call x args => Tok.ident x :: Tok.lp :: (prArgs T args ++ [Tok.rp])
  | .lam ps body => Tok.ident 0 :: Tok.lp :: (prParams ps ++ (pr T body ++ [Tok.rp]))
  | .lamcall ps body args =>
      Tok.ident 0 :: Tok.lp :: (prParams ps ++ (pr T body ++ Tok.rp :: Tok.lp :: (prArgs T args ++ [Tok.rp])))
/-- models stringify.rs::format_function's argument loop: elements joined by the separator,
    an empty argument prints nothing -/
def prArgs (T : Table) : Args → List Tok
  | .nil => []
  | .consE rest => prTail T rest
  | .consN n rest => pr T n ++ prTail T rest
def prTail (T : Table) : Args → List Tok
  | .nil => []
  | .consE rest => Tok.sep :: prTail T rest
  | .consN n rest => Tok.sep :: (pr T n ++ prTail T rest)
end

end IronCalc.Formula
