import IronCalc.Formula.Syntax
/-
  Deciding `TableOK` for a concrete (extracted) table: the slots and kinds are finite, so the
  universally quantified statement reduces to a Boolean check over two complete lists.
-/
namespace IronCalc.Formula

def allOpClasses : List OpClass := [.cmp, .cat, .add, .sub, .mul, .div, .pow]
def allLitClasses : List LitClass :=
  [.number, .string, .error, .ref, .range, .wrongRef, .wrongRange, .array]

def allSlots : List Slot :=
  allOpClasses.map Slot.binL ++ allOpClasses.map Slot.binR ++ [.neg, .pct, .rngL, .rngR, .at, .spill]

def allKinds : List Kind :=
  allLitClasses.map Kind.lit ++ allOpClasses.map Kind.bin ++
    [.name, .neg, .pct, .rng, .at, .spill, .call, .lam, .lamcall]

theorem mem_allSlots (s : Slot) : s ∈ allSlots := by
  cases s with
  | binL c => cases c <;> decide
  | binR c => cases c <;> decide
  | _ => decide

theorem mem_allKinds (k : Kind) : k ∈ allKinds := by
  cases k with
  | lit c => cases c <;> decide
  | bin c => cases c <;> decide
  | _ => decide

/-- the Boolean form of `TableOK` -/
def tableCheck (T : Table) : Bool :=
  allSlots.all fun s => allKinds.all fun k => !needs s k || T s k

theorem tableOK_of_check (T : Table) (h : tableCheck T = true) : TableOK T := by
  intro s k hn
  unfold tableCheck at h
  rw [List.all_eq_true] at h
  have h1 := h s (mem_allSlots s)
  rw [List.all_eq_true] at h1
  have h2 := h1 k (mem_allKinds k)
  simp [hn] at h2
  exact h2

/-- the entries at which a table fails the grammar's requirement -/
def tableFailures (T : Table) : List (Slot × Kind) :=
  allSlots.flatMap fun s => (allKinds.filter fun k => needs s k && !T s k).map fun k => (s, k)

end IronCalc.Formula
