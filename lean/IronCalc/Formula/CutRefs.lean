/-
  Reference arithmetic of cut/paste and copy/paste.
  models base/src/expressions/parser/move_formula.rs::{ref_is_in_area, to_string_moved}
         (ReferenceKind / RangeKind arms) and stringify.rs::stringify_reference (resolution of
         relative references against the context cell, `#REF!` outside the grid).
-/
namespace IronCalc.Formula.Cut

def lastRow : Int := 1048576
def lastCol : Int := 16384

structure Area where
  sheet : Nat
  row : Int
  col : Int
  width : Int
  height : Int

/-- a resolved (absolute) cell position -/
structure Pos where
  sheet : Nat
  row : Int
  col : Int
deriving DecidableEq

/-- a stored reference: flags + (absolute value | offset from the host cell) -/
structure Ref where
  sheet : Nat
  absRow : Bool
  absCol : Bool
  row : Int
  col : Int
deriving DecidableEq

/-- models the `if absolute { row } else { row + context.row }` resolution -/
def resolve (hostRow hostCol : Int) (r : Ref) : Pos :=
  ⟨r.sheet, if r.absRow then r.row else r.row + hostRow, if r.absCol then r.col else r.col + hostCol⟩

/-- models `ref_is_in_area` -/
def inArea (A : Area) (p : Pos) : Bool :=
  p.sheet == A.sheet && A.row ≤ p.row && p.row ≤ A.row + A.height - 1 &&
    A.col ≤ p.col && p.col ≤ A.col + A.width - 1

/-- models the ReferenceKind arm of `to_string_moved`: a reference into the cut area gets
    `row + row_delta` (whatever its flags), any other reference keeps its stored fields; the text
    is printed relative to the SOURCE cell and re-parsed at the TARGET cell -/
def cutRef (A : Area) (dr dc : Int) (hostRow hostCol : Int) (r : Ref) : Ref :=
  if inArea A (resolve hostRow hostCol r) then { r with row := r.row + dr, col := r.col + dc } else r

/-- the position the moved text denotes once it sits in the target cell: the printer prints
    `resolve host (cutRef …)`, the parser at the target re-derives the offsets from that text -/
def cutDenotes (A : Area) (dr dc : Int) (hostRow hostCol : Int) (r : Ref) : Pos :=
  resolve hostRow hostCol (cutRef A dr dc hostRow hostCol r)

/-- models the RangeKind arm: the range moves iff BOTH corners are in the area -/
def cutRange (A : Area) (dr dc : Int) (hostRow hostCol : Int) (r1 r2 : Ref) : Ref × Ref :=
  if inArea A (resolve hostRow hostCol r1) && inArea A (resolve hostRow hostCol r2) then
    ({ r1 with row := r1.row + dr, col := r1.col + dc }, { r2 with row := r2.row + dr, col := r2.col + dc })
  else (r1, r2)

/-- copy/paste: the formula text is produced at the source and re-read at the target with the
    SAME stored reference (relative parts are offsets), so the denoted position is -/
def copyDenotes (hostRow hostCol dr dc : Int) (r : Ref) : Pos :=
  resolve (hostRow + dr) (hostCol + dc) r

/-- models the bounds tests of `stringify_reference` -/
def inGrid (p : Pos) : Bool := 1 ≤ p.row && p.row ≤ lastRow && 1 ≤ p.col && p.col ≤ lastCol

end IronCalc.Formula.Cut
