import IronCalc.Formula.LexProofs
/-
  Helper lemmas for the R1C1 (stored form) versions of the lexer theorems: `next_token` in
  `LexerMode::R1C1` reads back the text of one token.  Mode-independent classes come from
  Formula/LexProofs.lean (`CfgBase`); references through C22's R1C1 codec lemmas.
-/
namespace IronCalc.Formula
open IronCalc.Codec

theorem charClassOK_of_base (cfg : LexCfg) (h : CfgBase cfg) : CharClassOK cfg.cc where
  bang_not_white := h.white_special '!' (by decide)
  bang_not_alnum := h.special_not_alnum '!' (by decide)
  bracket_not_white := h.white_special ']' (by decide)
  alpha_alnum := h.alpha_alnum
  quote_not_alpha := by
    cases ha : cfg.cc.alpha '\'' with
    | false => rfl
    | true =>
      have := h.alpha_alnum _ ha
      rw [h.special_not_alnum '\'' (by decide)] at this
      cases this
  colon_not_alnum := h.special_not_alnum ':' (by decide)

/-! ### numbers (no row-range path in R1C1 mode) -/

theorem nextToken_num_rc (cfg : LexCfg) (h : CfgRC cfg) (d rest : List Char) (hd : numOK d = true)
    (hf : follow cfg (.num d) rest = true) :
    nextToken cfg (d.map (fun c => if c = '.' then cfg.decimal else c) ++ rest)
      = some (.num d, rest) := by
  match d, hd with
  | c :: t, hd =>
    simp only [numOK, Bool.and_eq_true] at hd
    obtain ⟨⟨hc, hshape⟩, hparse⟩ := hd
    have hstop : numStop cfg.decimal rest = true := by
      cases rest with
      | nil => rfl
      | cons a r =>
        have hb := follow_cons hf
        simp only [badNext, h.rc, Bool.false_and, Bool.or_false, Bool.or_eq_false_iff,
          decide_eq_false_iff_not] at hb
        obtain ⟨⟨⟨h1, h2⟩, h3⟩, h4⟩ := hb
        simp [numStop, stops, h1, h2, h3, h4]
    have hcdot : c ≠ '.' := by intro e; subst e; revert hc; decide
    have hal := h.digit_alnum c hc
    simp only [List.map_cons, hcdot, if_false, List.cons_append]
    rw [nextToken_other cfg c _ (h.white_alnum c hal) (alnum_notSpecial cfg h c hal)]
    simp only [hc, if_true]
    unfold digitBranch
    rw [consumeNumber_ok cfg.decimal h.decimal c t rest hshape hstop]
    simp [hparse, h.rc]

/-! ### identifiers -/

theorem identChar_not_special (cfg : LexCfg) (h : CfgBase cfg) (c : Char)
    (hc : isIdentChar cfg.cc c = true) (hs : isAsciiSpecial c = true) : c = '.' := by
  simp only [isIdentChar, Bool.or_eq_true, decide_eq_true_eq] at hc
  rcases hc with (ha | hu) | hd
  · rw [h.special_not_alnum c hs] at ha; cases ha
  · subst hu; revert hs; decide
  · exact hd

/-- consume_reference_r1c1 fails inside an `rcSafe` name, whatever follows -/
theorem rcSafe_dead (cfg : LexCfg) (h : CfgBase cfg) (s rest : List Char) (hs : rcSafe s = true)
    (hall : s.all (isIdentChar cfg.cc) = true) :
    consumeReferenceR1C1 cfg.cc (s ++ rest) = none := by
  match s, hs, hall with
  | c :: t, hs, hall =>
    simp only [rcSafe, Bool.or_eq_true, bne_iff_ne, ne_eq] at hs
    simp only [List.cons_append]
    unfold consumeReferenceR1C1
    by_cases hc : c = 'R'
    · subst hc
      simp only [ne_eq, not_true_eq_false, if_false]
      rcases hs with hs | hs
      · exact absurd rfl hs
      · match t, hs, hall with
        | d :: u, hs, hall =>
          simp only [Bool.not_eq_true'] at hs
          simp only [List.all_cons, Bool.and_eq_true] at hall
          have hdi := hall.2.1
          have hnb : d ≠ '[' := by
            intro e; subst e
            have := identChar_not_special cfg h '[' hdi (by decide)
            revert this; decide
          have hnm : d ≠ '-' := by
            intro e; subst e
            have := identChar_not_special cfg h '-' hdi (by decide)
            revert this; decide
          have hnp : d ≠ '+' := by
            intro e; subst e
            have := identChar_not_special cfg h '+' hdi (by decide)
            revert this; decide
          have hpart : consumeR1C1Part cfg.cc (d :: u ++ rest) = none := by
            simp only [List.cons_append]
            unfold consumeR1C1Part
            simp [hnb, hs]
          simp only [List.cons_append] at hpart
          simp [hpart]
    · simp [hc]

theorem nextToken_ident_rc (cfg : LexCfg) (h : CfgRC cfg) (s rest : List Char)
    (hs : identOK cfg s = true) (hf : follow cfg (.ident s) rest = true) :
    nextToken cfg (s ++ rest) = some (.ident s, rest) := by
  simp only [identOK, h.rc, Bool.false_eq_true, if_false, Bool.and_eq_true, bne_iff_ne, ne_eq] at hs
  obtain ⟨⟨⟨⟨⟨hstart, hall⟩, hnt⟩, hnf⟩, hsafe⟩, hvalid⟩ := hs
  have hfacts : stops (isIdentChar cfg.cc) rest = true ∧ headIs rest '!' = false ∧
      headIs rest '$' = false ∧ rest.head? ≠ some '[' := by
    cases rest with
    | nil => simp [stops, headIs]
    | cons d r =>
      have hb := follow_cons hf
      simp only [badNext, h.rc, Bool.false_and, Bool.or_false, Bool.or_eq_false_iff,
        decide_eq_false_iff_not] at hb
      obtain ⟨⟨⟨h1, h2⟩, h3⟩, h4⟩ := hb
      refine ⟨by simp [stops, h1], by simp [headIs, h2], by simp [headIs, h3], by simp [h4]⟩
  obtain ⟨hstop, hbang, hdollar, hbk⟩ := hfacts
  have k2 := takeWhile_app _ s rest hall hstop
  have k3 := dropWhile_app _ s rest hall hstop
  have hdead := rcSafe_dead cfg h s rest hsafe hall
  have hdeadR : consumeRangeR1C1 cfg.cc (s ++ rest) = none := by
    unfold consumeRangeR1C1; rw [hdead]
  cases s with
  | nil => simp at hstart
  | cons c tl =>
    simp only at hstart
    rw [List.cons_append, nextToken_identStart cfg h c (tl ++ rest) hstart, ← List.cons_append]
    unfold identBranch
    simp only [k2, k3, hbang, hdollar, hnt, hnf, h.rc, hdeadR, hdead]
    have hv : isValidR1C1Identifier cfg (c :: tl) rest.head? = true := by
      simp [isValidR1C1Identifier, hvalid, hbk]
    simp [hv]

/-! ### references: the text of a printed R1C1 reference -/

theorem takeWhile_app_len (p : Char → Bool) (a b : List Char) (hb : stops p b = true) :
    ((a ++ b).takeWhile p).length ≤ a.length := by
  induction a with
  | nil =>
    cases b with
    | nil => simp
    | cons c t =>
      have : p c = false := by simpa [stops] using hb
      simp [List.takeWhile, this]
  | cons x a ih =>
    simp only [List.cons_append, List.takeWhile]
    cases p x <;> simp <;> omega

theorem takeWhile_app_mem (p : Char → Bool) (a b : List Char) (hb : stops p b = true) :
    ∀ x, x ∈ (a ++ b).takeWhile p → x ∈ a := by
  induction a with
  | nil =>
    cases b with
    | nil => simp
    | cons c t =>
      have : p c = false := by simpa [stops] using hb
      simp [List.takeWhile, this]
  | cons y a ih =>
    intro x hx
    simp only [List.cons_append, List.takeWhile] at hx
    cases hp : p y with
    | false => simp [hp] at hx
    | true =>
      simp only [hp, List.mem_cons] at hx
      rcases hx with hx | hx
      · exact hx ▸ List.mem_cons_self ..
      · exact List.mem_cons_of_mem _ (ih x hx)

/-- the first character left by `dropWhile` on `a ++ b` is a character of `a` or the first of `b` -/
theorem dropWhile_app_head (p : Char → Bool) (a b : List Char) (hb : stops p b = true) (c : Char)
    (h : headIs ((a ++ b).dropWhile p) c = true) : c ∈ a ∨ headIs b c = true := by
  induction a with
  | nil =>
    simp only [List.nil_append] at h
    right
    cases b with
    | nil => simp [headIs] at h
    | cons d t =>
      have hp : p d = false := by simpa [stops] using hb
      simpa [List.dropWhile, hp] using h
  | cons y a ih =>
    simp only [List.cons_append, List.dropWhile] at h
    cases hp : p y with
    | false =>
      simp only [hp] at h
      left
      have : y = c := by simpa [headIs] using h
      exact this ▸ List.mem_cons_self ..
    | true =>
      simp only [hp] at h
      rcases ih h with h1 | h1
      · exact Or.inl (List.mem_cons_of_mem _ h1)
      · exact Or.inr h1

def rcChar (c : Char) : Bool := c = 'R' || c = 'C' || c = '[' || c = ']' || c = '-' || isDigit c

theorem intToDec_chars (i : Int) : ∀ x, x ∈ intToDec i → x = '-' ∨ isDigit x = true := by
  intro x hx
  unfold intToDec at hx
  split at hx
  · simp only [List.mem_cons] at hx
    rcases hx with hx | hx
    · exact Or.inl hx
    · exact Or.inr (List.all_eq_true.mp (natToDec_all_digit _) x hx)
  · exact Or.inr (List.all_eq_true.mp (natToDec_all_digit _) x hx)

theorem intToDec_head (i : Int) : ∃ d ds, intToDec i = d :: ds ∧ (d = '-' ∨ isDigit d = true) := by
  obtain ⟨d, ds, hd, _, _⟩ := intToDec_shape i
  exact ⟨d, ds, hd, intToDec_chars i d (by rw [hd]; exact List.mem_cons_self ..)⟩

theorem rcPart_chars (L : Char) (hL : rcChar L = true) (abs : Bool) (v : Int) :
    ∀ x, x ∈ rcPart L abs v → rcChar x = true := by
  intro x hx
  have key : x ∈ intToDec v → rcChar x = true := by
    intro hv
    rcases intToDec_chars v x hv with h | h
    · subst h; decide
    · simp [rcChar, h]
  unfold rcPart at hx
  cases abs with
  | true =>
    simp only [if_true, List.mem_cons] at hx
    rcases hx with hx | hx
    · subst hx; exact hL
    · exact key hx
  | false =>
    simp only [Bool.false_eq_true, if_false, List.mem_cons, List.mem_append, List.not_mem_nil, or_false] at hx
    rcases hx with hx | hx | hx | hx
    · subst hx; exact hL
    · subst hx; decide
    · exact key hx
    · subst hx; decide

theorem printR1C1_chars (r : PRef) : ∀ x, x ∈ printR1C1 [] r → rcChar x = true := by
  intro x hx
  rw [printR1C1_eq] at hx
  rcases List.mem_append.mp hx with h | h
  · exact rcPart_chars 'R' (by decide) _ _ x h
  · exact rcPart_chars 'C' (by decide) _ _ x h

theorem mem_takeWhile_p (p : Char → Bool) (l : List Char) : ∀ x, x ∈ l.takeWhile p → p x = true := by
  induction l with
  | nil => intro x hx; simp at hx
  | cons a t ih =>
    intro x hx
    simp only [List.takeWhile] at hx
    cases hp : p a with
    | false => simp [hp] at hx
    | true =>
      simp only [hp, List.mem_cons] at hx
      rcases hx with hx | hx
      · rw [hx]; exact hp
      · exact ih x hx

theorem printR1C1_head (r : PRef) :
    ∃ d T', printR1C1 [] r = 'R' :: d :: T' ∧ (isDigit d = true ∨ d = '-' ∨ d = '[') := by
  obtain ⟨d, ds, hd, hdd⟩ := intToDec_head r.row
  unfold printR1C1
  cases r.absRow with
  | true =>
    refine ⟨d, ds ++ _, by simp [hd]; rfl, ?_⟩
    rcases hdd with h | h
    · exact Or.inr (Or.inl h)
    · exact Or.inl h
  | false => exact ⟨'[', _, by simp; rfl, Or.inr (Or.inr rfl)⟩

theorem rcChar_identChar (cfg : LexCfg) (h : CfgBase cfg) (x : Char) (hr : rcChar x = true)
    (hi : isIdentChar cfg.cc x = true) : isUpper x = true ∨ isDigit x = true := by
  simp only [rcChar, Bool.or_eq_true, decide_eq_true_eq] at hr
  rcases hr with ((((hr | hr) | hr) | hr) | hr) | hr
  · subst hr; exact Or.inl (by decide)
  · subst hr; exact Or.inl (by decide)
  · subst hr; have := identChar_not_special cfg h _ hi (by decide); revert this; decide
  · subst hr; have := identChar_not_special cfg h _ hi (by decide); revert this; decide
  · subst hr; have := identChar_not_special cfg h _ hi (by decide); revert this; decide
  · exact Or.inr hr

/-- a text starting with a printed R1C1 reference (no sheet prefix): next_token is what
    consume_range_r1c1 reads there, provided it consumes at least the reference -/
theorem nextToken_rcStart (cfg : LexCfg) (h : CfgRC cfg) (r : PRef) (X : List Char)
    (hstop : stops (isIdentChar cfg.cc) X = true)
    (hX : headIs X '!' = false ∧ headIs X '$' = false ∧ headIs X '(' = false)
    (rg : PRange) (rest' : List Char)
    (hcell : consumeRangeR1C1 cfg.cc (printR1C1 [] r ++ X) = some (rg, rest'))
    (hlen : (printR1C1 [] r).length ≤ (printR1C1 [] r ++ X).length - rest'.length) :
    nextToken cfg (printR1C1 [] r ++ X) = some (ofRefTok (tokOfRange none rg, rest')) := by
  have hb : CfgBase cfg := h.toCfgBase
  obtain ⟨d, T', hT, hd⟩ := printR1C1_head r
  have hchars := printR1C1_chars r
  generalize hTdef : printR1C1 [] r = T at *
  have hRs : isIdentStart cfg.cc 'R' = true := by
    simp [isIdentStart, h.upper_alpha 'R' (by decide)]
  have hstart : nextToken cfg (T ++ X) = some (identBranch cfg (T ++ X)) := by
    rw [hT, List.cons_append]
    exact nextToken_identStart cfg hb 'R' _ hRs
  have hnoSpecial : ∀ c, isAsciiSpecial c = true → c ≠ '.' → rcChar c = false →
      headIs X c = false → headIs ((T ++ X).dropWhile (isIdentChar cfg.cc)) c = false := by
    intro c _ _ hrc hx
    cases hh : headIs ((T ++ X).dropWhile (isIdentChar cfg.cc)) c with
    | false => rfl
    | true =>
      rcases dropWhile_app_head _ T X hstop c hh with h1 | h1
      · rw [hchars c h1] at hrc; cases hrc
      · rw [hx] at h1; cases h1
  have hbang := hnoSpecial '!' (by decide) (by decide) (by decide) hX.1
  have hdollar := hnoSpecial '$' (by decide) (by decide) (by decide) hX.2.1
  have hparen := hnoSpecial '(' (by decide) (by decide) (by decide) hX.2.2
  have hnamechars : ∀ x, x ∈ (T ++ X).takeWhile (isIdentChar cfg.cc) →
      isUpper x = true ∨ isDigit x = true := by
    intro x hx
    have hxT := takeWhile_app_mem _ T X hstop x hx
    have hxi : isIdentChar cfg.cc x = true := mem_takeWhile_p _ _ x hx
    exact rcChar_identChar cfg hb x (hchars x hxT) hxi
  have hup := upperStr_fixed cfg hb _ hnamechars
  have hRi : isIdentChar cfg.cc 'R' = true := alpha_identChar cfg hb 'R' (h.upper_alpha 'R' (by decide))
  have hnotbool : ∀ n, n.all (fun c => cfg.cc.alpha c && !isDigit c) = true →
      isValidColumn n = false → (T ++ X).takeWhile (isIdentChar cfg.cc) ≠ n := by
    intro n hn hcol heq
    rw [hT] at heq
    simp only [List.cons_append, List.takeWhile, hRi] at heq
    rcases hd with hdig | hd2
    · have hdi : isIdentChar cfg.cc d = true := by simp [isIdentChar, h.digit_alnum d hdig]
      simp only [hdi] at heq
      have hmem : d ∈ n := by rw [← heq]; simp
      have := List.all_eq_true.mp hn d hmem
      simp [hdig] at this
    · have hdi : isIdentChar cfg.cc d = false := by
        cases hx : isIdentChar cfg.cc d with
        | false => rfl
        | true =>
          rcases hd2 with e | e <;> subst e <;>
            (have := identChar_not_special cfg hb _ hx (by decide); revert this; decide)
      simp only [hdi] at heq
      rw [← heq] at hcol
      revert hcol; decide
  have hlen' := takeWhile_app_len (isIdentChar cfg.cc) T X hstop
  rw [hstart]
  unfold identBranch
  simp only [hbang, hdollar, hparen, hup, h.rc, hcell, Bool.false_eq_true, if_false,
    hnotbool cfg.trueName h.true_alpha.2 h.true_not_col,
    hnotbool cfg.falseName h.false_alpha.2 h.false_not_col]
  have hng : ¬ ((T ++ X).takeWhile (isIdentChar cfg.cc)).length > (T ++ X).length - rest'.length := by
    omega
  rw [if_neg hng]

theorem refOKRC_writable (r : PRef) (h : refOKRC r = true) : RcWritable r := by
  simp only [refOKRC, Bool.and_eq_true, Bool.or_eq_true, Bool.not_eq_true', decide_eq_true_eq] at h
  obtain ⟨⟨⟨⟨⟨h1, h2⟩, h3⟩, h4⟩, h5⟩, h6⟩ := h
  refine ⟨⟨h1, h2⟩, ⟨h3, h4⟩, fun ha => ?_, fun ha => ?_⟩
  · rcases h5 with h5 | h5
    · rw [ha] at h5; cases h5
    · exact h5
  · rcases h6 with h6 | h6
    · rw [ha] at h6; cases h6
    · exact h6

theorem printR1C1_pre (pre : List Char) (r : PRef) : printR1C1 pre r = pre ++ printR1C1 [] r := by
  unfold printR1C1; simp

theorem stops_of_identChar (cfg : LexCfg) (h : CfgBase cfg) (rest : List Char)
    (hs : stops (isIdentChar cfg.cc) rest = true) :
    stops isDigit rest = true ∧ stops cfg.cc.alnum rest = true := by
  cases rest with
  | nil => exact ⟨rfl, rfl⟩
  | cons c t =>
    have hc : isIdentChar cfg.cc c = false := by simpa [stops] using hs
    simp only [isIdentChar, Bool.or_eq_false_iff] at hc
    have ha := hc.1.1
    refine ⟨?_, by simp [stops, ha]⟩
    cases hd : isDigit c with
    | false => simp [stops, hd]
    | true => rw [h.digit_alnum c hd] at ha; cases ha

theorem nextToken_ref_rc (cfg : LexCfg) (h : CfgRC cfg) (sh : Option (List Char)) (r : PRef)
    (rest : List Char) (hok : tokOK cfg (.ref sh r) = true)
    (hf : follow cfg (.ref sh r) rest = true) :
    nextToken cfg (renderTok cfg (.ref sh r) ++ rest) = some (.ref sh r, rest) := by
  have hb : CfgBase cfg := h.toCfgBase
  simp only [tokOK, h.rc, Bool.false_eq_true, if_false, Bool.and_eq_true] at hok
  obtain ⟨hsh, hr⟩ := hok
  have hw := refOKRC_writable r hr
  have hfacts : stops (isIdentChar cfg.cc) rest = true ∧ headIs rest '!' = false ∧
      headIs rest '$' = false ∧ headIs rest '(' = false ∧ headIs rest ':' = false := by
    cases rest with
    | nil => simp [stops, headIs]
    | cons d t =>
      have hbd := follow_cons hf
      simp only [badNext, h.rc, Bool.not_false, if_true, Bool.or_eq_false_iff,
        decide_eq_false_iff_not] at hbd
      obtain ⟨⟨⟨⟨h1, h2⟩, h3⟩, h4⟩, h5⟩ := hbd
      exact ⟨by simp [stops, h1], by simp [headIs, h2], by simp [headIs, h3], by simp [headIs, h4],
        by simp [headIs, h5]⟩
  obtain ⟨hstop, hbang, hdollar, hparen, hcolon⟩ := hfacts
  obtain ⟨hd, ha⟩ := stops_of_identChar cfg hb rest hstop
  have hcellRef := r1c1_roundtrip cfg.cc (charClassOK_of_base cfg hb) r rest hw hd ha
  have hcell : consumeRangeR1C1 cfg.cc (printR1C1 [] r ++ rest)
      = some ({ left := r, right := none }, rest) := by
    unfold consumeRangeR1C1
    rw [hcellRef]
    cases rest with
    | nil => rfl
    | cons c t =>
      have : c ≠ ':' := by simpa [headIs] using hcolon
      simp [this]
  simp only [renderTok, h.rc, Bool.false_eq_true, if_false]
  rw [printR1C1_pre, List.append_assoc]
  cases sh with
  | none =>
    simp only [sheetPrefix, List.nil_append]
    rw [nextToken_rcStart cfg h r rest hstop ⟨hbang, hdollar, hparen⟩ _ _ hcell (by simp)]
    rfl
  | some n =>
    have hn : n ≠ [] := by intro e; subst e; simp [sheetOK] at hsh
    simp only [sheetPrefix]
    rw [nextToken_sheetPrefix cfg hb n hn, h.rc]
    unfold consumeRange
    simp [hcell, tokOfRange, ofRefTok]

theorem nextToken_range_rc (cfg : LexCfg) (h : CfgRC cfg) (sh : Option (List Char)) (l r : PRef)
    (rest : List Char) (hok : tokOK cfg (.range sh l r) = true)
    (hf : follow cfg (.range sh l r) rest = true) :
    nextToken cfg (renderTok cfg (.range sh l r) ++ rest) = some (.range sh l r, rest) := by
  have hb : CfgBase cfg := h.toCfgBase
  simp only [tokOK, h.rc, Bool.false_eq_true, if_false, Bool.and_eq_true] at hok
  obtain ⟨hsh, hl, hr⟩ := hok
  have hstop : stops (isIdentChar cfg.cc) rest = true := by
    cases rest with
    | nil => rfl
    | cons d t =>
      have hbd := follow_cons hf
      simp only [badNext, h.rc, Bool.not_false, if_true, Bool.or_eq_false_iff] at hbd
      simp [stops, hbd.1.1.1]
  obtain ⟨hd, ha⟩ := stops_of_identChar cfg hb rest hstop
  have hcell := r1c1_range_roundtrip cfg.cc (charClassOK_of_base cfg hb) l r rest (refOKRC_writable l hl) (refOKRC_writable r hr) hd ha
  have htxt : printRangeR1C1 [] l r ++ rest = printR1C1 [] l ++ (':' :: (printR1C1 [] r ++ rest)) := by
    simp [printRangeR1C1]
  rw [htxt] at hcell
  have hXstop : stops (isIdentChar cfg.cc) (':' :: (printR1C1 [] r ++ rest)) = true := by
    simp [stops, isIdentChar, h.special_not_alnum ':' (by decide)]
  simp only [renderTok, h.rc, Bool.false_eq_true, if_false, printRangeR1C1]
  rw [printR1C1_pre, List.append_assoc, List.append_assoc, List.cons_append]
  cases sh with
  | none =>
    simp only [sheetPrefix, List.nil_append]
    rw [nextToken_rcStart cfg h l _ hXstop ⟨by simp [headIs], by simp [headIs], by simp [headIs]⟩ _ _
      hcell (by simp; omega)]
    rfl
  | some n =>
    have hn : n ≠ [] := by intro e; subst e; simp [sheetOK] at hsh
    simp only [sheetPrefix]
    rw [nextToken_sheetPrefix cfg hb n hn, h.rc]
    unfold consumeRange
    simp [hcell, tokOfRange, ofRefTok]

/-- **one token, R1C1 mode** -/
theorem nextToken_renderTok_rc (cfg : LexCfg) (h : CfgRC cfg) (t : CTok) (rest : List Char)
    (hok : tokOK cfg t = true) (hf : follow cfg t rest = true) :
    nextToken cfg (renderTok cfg t ++ rest) = some (t, rest) := by
  have hb : CfgBase cfg := h.toCfgBase
  cases t with
  | illegal => simp [tokOK] at hok
  | ident s => exact nextToken_ident_rc cfg h s rest hok hf
  | str s =>
    simp only [renderTok, List.cons_append, List.append_assoc]
    exact nextToken_str cfg hb s rest hok hf
  | num d => exact nextToken_num_rc cfg h d rest hok hf
  | bool b => exact nextToken_bool cfg hb b rest hf
  | err e => exact nextToken_err cfg hb e rest hok
  | cmp k =>
    cases k with
    | lt => exact nextToken_lt cfg hb rest hf
    | gt => exact nextToken_gt cfg hb rest hf
    | eq => exact nextToken_punct cfg hb '=' _ rest (by decide) (by decide)
    | le => exact nextToken_le cfg hb rest
    | ge => exact nextToken_ge cfg hb rest
    | ne => exact nextToken_ne cfg hb rest
  | add => exact nextToken_punct cfg hb '+' _ rest (by decide) (by decide)
  | sub => exact nextToken_punct cfg hb '-' _ rest (by decide) (by decide)
  | mul => exact nextToken_punct cfg hb '*' _ rest (by decide) (by decide)
  | div => exact nextToken_punct cfg hb '/' _ rest (by decide) (by decide)
  | pow => exact nextToken_punct cfg hb '^' _ rest (by decide) (by decide)
  | lp => exact nextToken_punct cfg hb '(' _ rest (by decide) (by decide)
  | rp => exact nextToken_punct cfg hb ')' _ rest (by decide) (by decide)
  | colon => exact nextToken_punct cfg hb ':' _ rest (by decide) (by decide)
  | semi => exact nextToken_punct cfg hb ';' _ rest (by decide) (by decide)
  | lbk => exact nextToken_punct cfg hb '[' _ rest (by decide) (by decide)
  | rbk => exact nextToken_punct cfg hb ']' _ rest (by decide) (by decide)
  | lbrace => exact nextToken_punct cfg hb '{' _ rest (by decide) (by decide)
  | rbrace => exact nextToken_punct cfg hb '}' _ rest (by decide) (by decide)
  | comma =>
    have hd : cfg.decimal ≠ ',' := by simpa [tokOK] using hok
    exact nextToken_comma cfg hb rest hd
  | bang => exact nextToken_punct cfg hb '!' _ rest (by decide) (by decide)
  | pct => exact nextToken_punct cfg hb '%' _ rest (by decide) (by decide)
  | amp => exact nextToken_punct cfg hb '&' _ rest (by decide) (by decide)
  | «at» => exact nextToken_punct cfg hb '@' _ rest (by decide) (by decide)
  | spill => exact nextToken_spill cfg hb rest hf
  | backslash => exact nextToken_punct cfg hb '\\' _ rest (by decide) (by decide)
  | ref sh r => exact nextToken_ref_rc cfg h sh r rest hok hf
  | range sh l r => exact nextToken_range_rc cfg h sh l r rest hok hf
  | sref a b c => simp [tokOK] at hok

theorem renderTok_ne_nil_rc (cfg : LexCfg) (h : CfgRC cfg) (t : CTok) (hok : tokOK cfg t = true) :
    renderTok cfg t ≠ [] := by
  intro he
  have h1 := nextToken_renderTok_rc cfg h t [] hok rfl
  rw [he, List.append_nil, nextToken_nil] at h1
  cases h1

/-! ### either mode -/

/-- a configuration of either lexer mode -/
def CfgAny (cfg : LexCfg) : Prop := CfgOK cfg ∨ CfgRC cfg

instance (cfg : LexCfg) : Coe (CfgOK cfg) (CfgAny cfg) := ⟨Or.inl⟩
instance (cfg : LexCfg) : Coe (CfgRC cfg) (CfgAny cfg) := ⟨Or.inr⟩

theorem CfgAny.base {cfg : LexCfg} (h : CfgAny cfg) : CfgBase cfg := by
  rcases h with h | h
  · exact h.toCfgBase
  · exact h.toCfgBase

theorem nextToken_renderTok_any (cfg : LexCfg) (h : CfgAny cfg) (t : CTok) (rest : List Char)
    (hok : tokOK cfg t = true) (hf : follow cfg t rest = true) :
    nextToken cfg (renderTok cfg t ++ rest) = some (t, rest) := by
  rcases h with h | h
  · exact nextToken_renderTok cfg h t rest hok hf
  · exact nextToken_renderTok_rc cfg h t rest hok hf

theorem renderTok_ne_nil_any (cfg : LexCfg) (h : CfgAny cfg) (t : CTok) (hok : tokOK cfg t = true) :
    renderTok cfg t ≠ [] := by
  rcases h with h | h
  · exact renderTok_ne_nil cfg h t hok
  · exact renderTok_ne_nil_rc cfg h t hok

/-- the token loop gives a well-formed glue-free token list back (either mode, any fuel above
    the number of tokens) -/
theorem lexN_render_any (cfg : LexCfg) (h : CfgAny cfg) :
    ∀ (ts : List CTok) (n : Nat), ts.length < n → (∀ t, t ∈ ts → tokOK cfg t = true) →
      glueFree cfg ts = true → lexN cfg n (render cfg ts) = ts
  | [], n, hn, _, _ => by
    cases n with
    | zero => rfl
    | succ m => simp [lexN, render, nextToken_nil]
  | [t], n, hn, hok, _ => by
    cases n with
    | zero => simp at hn
    | succ m =>
      have ht := hok t (List.mem_cons_self ..)
      have h1 := nextToken_renderTok_any cfg h t [] ht rfl
      simp only [List.append_nil] at h1
      simp only [render, List.flatMap_cons, List.flatMap_nil, List.append_nil, lexN, h1]
      cases m with
      | zero => rfl
      | succ k => simp [lexN, nextToken_nil]
  | t :: u :: ts, n, hn, hok, hg => by
    cases n with
    | zero => simp at hn
    | succ m =>
      simp only [glueFree, Bool.and_eq_true, Bool.not_eq_true', List.isEmpty_eq_false_iff] at hg
      obtain ⟨⟨hfu, hne⟩, hg'⟩ := hg
      have ht := hok t (List.mem_cons_self ..)
      have hfol : follow cfg t (render cfg (u :: ts)) = true := by
        obtain ⟨c, tl, hc⟩ := List.exists_cons_of_ne_nil hne
        simp only [render, List.flatMap_cons] at hc ⊢
        rw [hc] at hfu ⊢
        simpa [follow] using hfu
      have h1 := nextToken_renderTok_any cfg h t (render cfg (u :: ts)) ht hfol
      have ih := lexN_render_any cfg h (u :: ts) m (by simp at hn ⊢; omega)
        (fun x hx => hok x (List.mem_cons_of_mem _ hx)) hg'
      have hr : render cfg (t :: u :: ts) = renderTok cfg t ++ render cfg (u :: ts) := by
        simp [render]
      rw [hr, lexN, h1]
      simp only [ih]

theorem lex_render_any (cfg : LexCfg) (h : CfgAny cfg) (ts : List CTok)
    (hok : ∀ t, t ∈ ts → tokOK cfg t = true) (hg : glueFree cfg ts = true) :
    lex cfg (render cfg ts) = ts := by
  unfold lex
  apply lexN_render_any cfg h ts _ _ hok hg
  have : ts.length ≤ (render cfg ts).length := by
    clear hg
    induction ts with
    | nil => simp
    | cons t tl ih =>
      have hne := renderTok_ne_nil_any cfg h t (hok t (List.mem_cons_self ..))
      have ih' := ih (fun x hx => hok x (List.mem_cons_of_mem _ hx))
      have hpos : 0 < (renderTok cfg t).length := List.length_pos_iff.mpr hne
      simp only [render, List.flatMap_cons, List.length_append, List.length_cons] at ih' ⊢
      omega
  omega

end IronCalc.Formula
