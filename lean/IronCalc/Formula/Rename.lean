/-
  Formula trees at the level the sheet/name rewrites see them (C17, C32).

  `Tree ρ ν` mirrors `base/src/expressions/parser/mod.rs::Node` with
    * the four reference-carrying kinds (`ReferenceKind`, `RangeKind`, `WrongReferenceKind`,
      `WrongRangeKind`) as `ref k r payload` — `k` says cell/range, `r : ρ` is the sheet
      annotation, `payload` the coordinates (opaque: no rewrite here looks at them),
    * identifiers that are not function calls (`DefinedNameKind`, `TableNameKind`,
      `NamedVariableKind`) as `ident v n` — `v : ν` is the name annotation,
    * every kind the rewrites do not descend into and do not touch (`BooleanKind`, `NumberKind`,
      `StringKind`, `ErrorKind`, `ParseErrorKind`, `ArrayKind`, `EmptyArgKind`) as `leaf tag`,
    * every kind the rewrites descend into without touching the node itself (`OpRangeKind`,
      `OpConcatenateKind`, `OpSumKind`, `OpProductKind`, `OpPowerKind`, `FunctionKind`,
      `NamedFunctionKind`, `CompareKind`, `UnaryKind`, `ImplicitIntersection`,
      `SpillRangeOperator`, `LambdaDefKind` (body), `LambdaCallKind` (lambda :: args)) as
      `op tag args`.

  Instances:
    * `SNode = Tree (Option String) Unit` — the *stored text* (`shared_formulas`, R1C1; a
      `DefinedName.formula`): a reference carries only its optional sheet prefix, an identifier only
      its spelling.  (Printing/lexing of the text itself is C09/C22's subject.)
    * `Node  = Tree SheetRes NameRes` — what `Parser::parse` returns: the prefix plus the sheet
      index it resolved to (`none` = the `Wrong*Kind`s), the identifier plus the defined name it
      resolved to.
    * `ENode = Tree (Option Nat) NameRes`-like erasures used by the evaluator-facing theorems.
-/
namespace IronCalc.RefTree

inductive RefKind where
  | cell | range
  deriving DecidableEq, Repr

inductive Tree (ρ ν : Type) where
  | ref (k : RefKind) (r : ρ) (payload : String)
  | ident (v : ν) (n : String)
  | leaf (tag : String)
  | op (tag : String) (args : List (Tree ρ ν))
  deriving Repr

namespace Tree
variable {ρ ν ρ' ν' ρ'' ν'' : Type}

/-- relabel every reference and identifier; the shape (tags, payloads, argument lists) is kept.
    Every rewrite and every (re-)resolution of this file is an instance. -/
def map (f : RefKind → ρ → ρ') (g : ν → String → ν' × String) : Tree ρ ν → Tree ρ' ν'
  | ref k r p => ref k (f k r) p
  | ident v n => ident (g v n).1 (g v n).2
  | leaf t => leaf t
  | op t args => op t (mapList f g args)
where
  mapList (f : RefKind → ρ → ρ') (g : ν → String → ν' × String) : List (Tree ρ ν) → List (Tree ρ' ν')
    | [] => []
    | a :: as => map f g a :: mapList f g as

/-- every reference annotation of the tree, left to right -/
def refs : Tree ρ ν → List (RefKind × ρ)
  | ref k r _ => [(k, r)]
  | ident _ _ => []
  | leaf _ => []
  | op _ args => refsList args
where
  refsList : List (Tree ρ ν) → List (RefKind × ρ)
    | [] => []
    | a :: as => refs a ++ refsList as

/-- every identifier of the tree, left to right -/
def idents : Tree ρ ν → List (ν × String)
  | ref _ _ _ => []
  | ident v n => [(v, n)]
  | leaf _ => []
  | op _ args => identsList args
where
  identsList : List (Tree ρ ν) → List (ν × String)
    | [] => []
    | a :: as => idents a ++ identsList as

/-- function/operator tags of the tree (used by the "does not read sheet names" predicate) -/
def tags : Tree ρ ν → List String
  | ref _ _ _ => []
  | ident _ _ => []
  | leaf _ => []
  | op t args => t :: tagsList args
where
  tagsList : List (Tree ρ ν) → List String
    | [] => []
    | a :: as => tags a ++ tagsList as

end Tree

/-- sheet annotation of a parsed reference: `sheet_name` and `sheet_index`
    (`idx = none` ⇔ the node is a `WrongReferenceKind` / `WrongRangeKind`) -/
structure SheetRes where
  name : Option String
  idx : Option Nat
  deriving DecidableEq, Repr

/-- name annotation of a parsed identifier: `some scope` ⇔ `DefinedNameKind((n, scope, _))`
    (`scope = none`: global, `some i`: local to the sheet with *index* `i`);
    `none` ⇔ `TableNameKind` / `NamedVariableKind` -/
abbrev NameRes := Option (Option Nat)

abbrev SNode := Tree (Option String) Unit
abbrev Node := Tree SheetRes NameRes

/-- models base/src/expressions/parser/stringify.rs::to_rc_format (and `to_english_string`), as far
    as sheets and names go: a reference prints its `sheet_name` (also for the `Wrong*Kind`s, whose
    index is a dummy), an identifier prints its spelling. -/
def strip : Node → SNode := Tree.map (fun _ r => r.name) (fun _ n => ((), n))

/-- models base/src/expressions/parser/stringify.rs::rename_sheet_in_node, the four `// Rename`
    arms (all other arms are `Tree.map`'s descent / no-op).
    `fixed = false` is the pinned tree: the `WrongRangeKind` arm overwrites *any* sheet prefix with
    the new name (defect F17a).  `fixed = true` is the repaired arm (left alone, like
    `WrongReferenceKind`, whose arm re-assigns the name it already has). -/
def renameSheetRef (fixed : Bool) (i : Nat) (new : String) (k : RefKind) (r : SheetRes) : SheetRes :=
  match r.idx, k with
  | some j, _ =>                       -- ReferenceKind / RangeKind
    if j = i ∧ r.name.isSome then { r with name := some new } else r
  | none, .cell => r                   -- WrongReferenceKind: `*sheet_name = Some(name.to_owned())`
  | none, .range =>                    -- WrongRangeKind
    if fixed then r else if r.name.isSome then { r with name := some new } else r

def renameSheetInNode (fixed : Bool) (i : Nat) (new : String) : Node → Node :=
  Tree.map (renameSheetRef fixed i new) (fun v n => (v, n))

/-- models base/src/expressions/parser/stringify.rs::rename_defined_name_in_node, the
    `DefinedNameKind` arm: `name.to_lowercase() == n.to_lowercase() && *s == scope` -/
def renameNameIdent (lower : String → String) (name : String) (scope : Option Nat) (new : String)
    (v : NameRes) (n : String) : NameRes × String :=
  match v with
  | some s => if lower name = lower n ∧ s = scope then (v, new) else (v, n)
  | none => (v, n)

def renameDefinedNameInNode (lower : String → String) (name : String) (scope : Option Nat)
    (new : String) : Node → Node :=
  Tree.map (fun _ r => r) (renameNameIdent lower name scope new)

end IronCalc.RefTree
