import IronCalc.Formula.Lex
import IronCalc.Codec.CharClassTable
import IronCalc.Generated.UpperCase
import IronCalc.Text.Names
/-
  The concrete lexer configurations of the running code: character classes (C22's extracted table),
  `char::to_uppercase` (`Generated/UpperCase.lean`, extracted on every run), boolean and error
  spellings per language (`Generated/Names.lean`, C23's extracted table), in `consume_error`'s order.
-/
namespace IronCalc.Formula
open IronCalc.Codec

/-- binary search in the sorted `upperTable` (fuel 13 ≥ log2 of its size) -/
def upperLookup (tbl : Array (Nat × List Nat)) (n : Nat) : Nat → Nat → Nat → Option (List Nat)
  | 0, _, _ => none
  | fuel + 1, lo, hi =>
    if lo ≥ hi then none
    else
      let mid := (lo + hi) / 2
      match tbl[mid]? with
      | none => none
      | some (k, v) =>
        if k = n then some v
        else if k < n then upperLookup tbl n fuel (mid + 1) hi
        else upperLookup tbl n fuel lo mid

/-- `char::to_uppercase` of the running code -/
def unicodeUpper (c : Char) : List Char :=
  if c.toNat < 128 then [asciiUpper c]
  else match upperLookup IronCalc.Generated.upperTable c.toNat 24 0 IronCalc.Generated.upperTable.size with
    | some v => v.map Char.ofNat
    | none => [c]

/-- index of a language id in `Generated.Names.langIds` -/
def langIndex (id : String) : Option Nat :=
  let i := IronCalc.Generated.Names.langIds.idxOf id
  if i < IronCalc.Generated.Names.langIds.length then some i else none

def boolNameOf (tbl : List Nat) (L : Nat) : List Char :=
  (IronCalc.Names.bytesOf (tbl.getD L 0)).map Char.ofNat

/-- the error spellings of language `L` in the order consume_error tries them -/
def errorsOf (L : Nat) : List (List Char × Nat) :=
  IronCalc.Names.lexOrder.map fun e => ((IronCalc.Names.errName L e).map Char.ofNat, e)

/-- the configuration of `Lexer::new(_, mode, locale, language)` -/
def cfgOf (a1 : Bool) (decimal : Char) (L : Nat) : LexCfg where
  cc := unicodeCC
  upper := unicodeUpper
  a1 := a1
  decimal := decimal
  trueName := boolNameOf IronCalc.Generated.Names.boolTrue L
  falseName := boolNameOf IronCalc.Generated.Names.boolFalse L
  errors := errorsOf L

/-- English, `.` decimal separator, A1 mode: `Lexer::new(_, LexerMode::A1, en, en)` -/
def cfgEn : LexCfg := cfgOf true '.' IronCalc.Generated.Names.enIdx

end IronCalc.Formula
