import IronCalc.Formula.Rename
/-
  Helper lemmas about `Tree.map` (functor laws, congruence on the annotations that occur) and the
  per-reference facts about `renameSheetRef` / `renameNameIdent`.
-/
namespace IronCalc.RefTree
theorem flatMap_congr' {α β : Type} {f g : α → List β} {l : List α} (h : ∀ a ∈ l, f a = g a) :
    l.flatMap f = l.flatMap g := by
  induction l with
  | nil => rfl
  | cons a as ih =>
    simp only [List.flatMap_cons]
    rw [h a (by simp), ih (fun x hx => h x (by simp [hx]))]

namespace Tree
variable {ρ ν ρ' ν' ρ'' ν'' : Type}

/-- structural induction for the nested type: the hypothesis for `op` is about every argument -/
theorem induct {P : Tree ρ ν → Prop}
    (hr : ∀ k r p, P (.ref k r p)) (hi : ∀ v n, P (.ident v n)) (hl : ∀ t, P (.leaf t))
    (ho : ∀ t args, (∀ a ∈ args, P a) → P (.op t args)) : ∀ t, P t := by
  intro t
  exact Tree.rec (motive_1 := P) (motive_2 := fun l => ∀ a ∈ l, P a)
    hr hi hl (fun t args ih => ho t args ih)
    (by intro a h; cases h)
    (fun a as iha ihas x hx => by
      cases hx with
      | head => exact iha
      | tail _ h => exact ihas x h) t

theorem mapList_eq (f : RefKind → ρ → ρ') (g : ν → String → ν' × String) (l : List (Tree ρ ν)) :
    map.mapList f g l = l.map (map f g) := by
  induction l with
  | nil => rfl
  | cons a as ih => simp [map.mapList, ih]

theorem refsList_eq (l : List (Tree ρ ν)) : refs.refsList l = l.flatMap refs := by
  induction l with
  | nil => rfl
  | cons a as ih => simp [refs.refsList, ih]

theorem identsList_eq (l : List (Tree ρ ν)) : idents.identsList l = l.flatMap idents := by
  induction l with
  | nil => rfl
  | cons a as ih => simp [idents.identsList, ih]

@[simp] theorem map_ref (f : RefKind → ρ → ρ') (g : ν → String → ν' × String) (k r p) :
    map f g (.ref k r p) = .ref k (f k r) p := rfl
@[simp] theorem map_ident (f : RefKind → ρ → ρ') (g : ν → String → ν' × String) (v n) :
    map f g (.ident v n) = .ident (g v n).1 (g v n).2 := rfl
@[simp] theorem map_leaf (f : RefKind → ρ → ρ') (g : ν → String → ν' × String) (t) :
    map f g (.leaf t : Tree ρ ν) = .leaf t := rfl
@[simp] theorem map_op (f : RefKind → ρ → ρ') (g : ν → String → ν' × String) (t args) :
    map f g (.op t args) = .op t (args.map (map f g)) := by
  simp [map, mapList_eq]

@[simp] theorem refs_ref (k) (r : ρ) (p) : refs (.ref k r p : Tree ρ ν) = [(k, r)] := rfl
@[simp] theorem refs_ident (v : ν) (n) : refs (.ident v n : Tree ρ ν) = [] := rfl
@[simp] theorem refs_leaf (t) : refs (.leaf t : Tree ρ ν) = [] := rfl
@[simp] theorem refs_op (t) (args : List (Tree ρ ν)) : refs (.op t args) = args.flatMap refs := by
  simp [refs, refsList_eq]
@[simp] theorem idents_ref (k) (r : ρ) (p) : idents (.ref k r p : Tree ρ ν) = [] := rfl
@[simp] theorem idents_ident (v : ν) (n) : idents (.ident v n : Tree ρ ν) = [(v, n)] := rfl
@[simp] theorem idents_leaf (t) : idents (.leaf t : Tree ρ ν) = [] := rfl
@[simp] theorem idents_op (t) (args : List (Tree ρ ν)) : idents (.op t args) = args.flatMap idents := by
  simp [idents, identsList_eq]

/-- functor law: two relabelings compose -/
theorem map_map (f : RefKind → ρ → ρ') (g : ν → String → ν' × String)
    (f' : RefKind → ρ' → ρ'') (g' : ν' → String → ν'' × String) (t : Tree ρ ν) :
    map f' g' (map f g t) = map (fun k r => f' k (f k r)) (fun v n => g' (g v n).1 (g v n).2) t := by
  induction t using induct with
  | hr k r p => simp
  | hi v n => simp
  | hl t => simp
  | ho t args ih =>
    simp only [map_op, List.map_map, Tree.op.injEq, true_and]
    apply List.map_congr_left
    intro a ha
    exact ih a ha

/-- two relabelings that agree on every annotation occurring in the tree give the same tree -/
theorem map_congr (f f' : RefKind → ρ → ρ') (g g' : ν → String → ν' × String) (t : Tree ρ ν)
    (hf : ∀ kr ∈ refs t, f kr.1 kr.2 = f' kr.1 kr.2)
    (hg : ∀ vn ∈ idents t, g vn.1 vn.2 = g' vn.1 vn.2) : map f g t = map f' g' t := by
  induction t using induct with
  | hr k r p => simp [hf (k, r) (by simp)]
  | hi v n => simp [hg (v, n) (by simp)]
  | hl t => simp
  | ho t args ih =>
    simp only [map_op, Tree.op.injEq, true_and]
    apply List.map_congr_left
    intro a ha
    apply ih a ha
    · intro kr hkr; apply hf; simp only [refs_op, List.mem_flatMap]; exact ⟨a, ha, hkr⟩
    · intro vn hvn; apply hg; simp only [idents_op, List.mem_flatMap]; exact ⟨a, ha, hvn⟩

theorem map_id' (t : Tree ρ ν) : map (fun _ r => r) (fun v n => (v, n)) t = t := by
  induction t using induct with
  | hr k r p => simp
  | hi v n => simp
  | hl t => simp
  | ho t args ih =>
    simp only [map_op, Tree.op.injEq, true_and]
    conv => rhs; rw [← List.map_id args]
    apply List.map_congr_left
    intro a ha; simpa using ih a ha

/-- the references of a relabeled tree are the relabeled references -/
theorem refs_map (f : RefKind → ρ → ρ') (g : ν → String → ν' × String) (t : Tree ρ ν) :
    refs (map f g t) = (refs t).map (fun kr => (kr.1, f kr.1 kr.2)) := by
  induction t using induct with
  | hr k r p => simp
  | hi v n => simp
  | hl t => simp
  | ho t args ih =>
    simp only [map_op, refs_op, List.flatMap_map, List.map_flatMap]
    exact flatMap_congr' (fun a ha => ih a ha)

end Tree

/-- a rename never changes what a reference resolves to -/
theorem renameSheetRef_idx (fixed : Bool) (i : Nat) (new : String) (k : RefKind) (r : SheetRes) :
    (renameSheetRef fixed i new k r).idx = r.idx := by
  unfold renameSheetRef
  split
  · split <;> simp_all
  · rfl
  · split
    · rfl
    · split <;> simp_all

/-- the displayed prefix after a rename (repaired code): the new name exactly on the explicit
    references that resolved to the renamed sheet, unchanged everywhere else -/
theorem renameSheetRef_name (i : Nat) (new : String) (k : RefKind) (r : SheetRes) :
    (renameSheetRef true i new k r).name
      = if r.idx = some i ∧ r.name.isSome then some new else r.name := by
  unfold renameSheetRef
  split
  · rename_i j h; split <;> simp_all
  · rename_i h; simp [h]
  · rename_i h; simp [h]

end IronCalc.RefTree
