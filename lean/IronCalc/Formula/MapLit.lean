import IronCalc.Formula.Partial
/-
  Rewriting the literal payloads of a tree (reference shifting on cut/paste, displacement on
  structural edits) changes neither the kind of any node nor well-formedness nor the set of
  (slot, kind) occurrences — so the round trip holds for the rewritten tree as it does for the
  original one.
-/
namespace IronCalc.Formula

mutual
/-- apply `g` to the payload of every literal (the class is kept) -/
def Node.mapLit (g : LitClass → Nat → Nat) : Node → Node
  | .lit c a => .lit c (g c a)
  | .name x => .name x
  | .bin o a b => .bin o (a.mapLit g) (b.mapLit g)
  | .neg a => .neg (a.mapLit g)
  | .pct a => .pct (a.mapLit g)
  | .rng a b => .rng (a.mapLit g) (b.mapLit g)
  | .at a => .at (a.mapLit g)
  | .spill a => .spill (a.mapLit g)
  | .call x as => .call x (as.mapLit g)
  | .lam ps body => .lam ps (body.mapLit g)
  | .lamcall ps body as => .lamcall ps (body.mapLit g) (as.mapLit g)
def Args.mapLit (g : LitClass → Nat → Nat) : Args → Args
  | .nil => .nil
  | .consE r => .consE (r.mapLit g)
  | .consN n r => .consN (n.mapLit g) (r.mapLit g)
end

theorem kind_mapLit (g : LitClass → Nat → Nat) : ∀ e : Node, (e.mapLit g).kind = e.kind
  | .lit _ _ => rfl | .name _ => rfl | .bin _ _ _ => rfl | .neg _ => rfl | .pct _ => rfl
  | .rng _ _ => rfl | .at _ => rfl | .spill _ => rfl | .call _ _ => rfl | .lam _ _ => rfl
  | .lamcall _ _ _ => rfl

theorem notSingleEmpty_mapLit (g : LitClass → Nat → Nat) :
    ∀ as : Args, (as.mapLit g).notSingleEmpty = as.notSingleEmpty
  | .nil => rfl
  | .consE .nil => rfl
  | .consE (.consE _) => rfl
  | .consE (.consN _ _) => rfl
  | .consN _ _ => rfl

mutual
theorem wf_mapLit (iv : Nat → Bool) (g : LitClass → Nat → Nat) :
    ∀ e : Node, (e.mapLit g).wf iv = e.wf iv
  | .lit _ _ => rfl
  | .name _ => rfl
  | .bin _ a b => by simp only [Node.mapLit, Node.wf, wf_mapLit iv g a, wf_mapLit iv g b]
  | .neg a => by simp only [Node.mapLit, Node.wf, wf_mapLit iv g a]
  | .pct a => by simp only [Node.mapLit, Node.wf, wf_mapLit iv g a]
  | .rng a b => by simp only [Node.mapLit, Node.wf, wf_mapLit iv g a, wf_mapLit iv g b]
  | .at a => by simp only [Node.mapLit, Node.wf, wf_mapLit iv g a]
  | .spill a => by simp only [Node.mapLit, Node.wf, wf_mapLit iv g a]
  | .call _ as => by
      simp only [Node.mapLit, Node.wf, wfA_mapLit iv g as, notSingleEmpty_mapLit g as]
  | .lam _ body => by simp only [Node.mapLit, Node.wf, wf_mapLit iv g body]
  | .lamcall _ body as => by
      simp only [Node.mapLit, Node.wf, wf_mapLit iv g body, wfA_mapLit iv g as,
        notSingleEmpty_mapLit g as]
theorem wfA_mapLit (iv : Nat → Bool) (g : LitClass → Nat → Nat) :
    ∀ as : Args, (as.mapLit g).wf iv = as.wf iv
  | .nil => rfl
  | .consE r => by simp only [Args.mapLit, Args.wf, wfA_mapLit iv g r]
  | .consN n r => by simp only [Args.mapLit, Args.wf, wf_mapLit iv g n, wfA_mapLit iv g r]
end

mutual
theorem noBad_mapLit (T : Table) (g : LitClass → Nat → Nat) :
    ∀ e : Node, (e.mapLit g).noBad T = e.noBad T
  | .lit _ _ => rfl
  | .name _ => rfl
  | .bin _ a b => by
      simp only [Node.mapLit, Node.noBad, kind_mapLit, noBad_mapLit T g a, noBad_mapLit T g b]
  | .neg a => by simp only [Node.mapLit, Node.noBad, kind_mapLit, noBad_mapLit T g a]
  | .pct a => by simp only [Node.mapLit, Node.noBad, kind_mapLit, noBad_mapLit T g a]
  | .rng a b => by
      simp only [Node.mapLit, Node.noBad, kind_mapLit, noBad_mapLit T g a, noBad_mapLit T g b]
  | .at a => by simp only [Node.mapLit, Node.noBad, kind_mapLit, noBad_mapLit T g a]
  | .spill a => by simp only [Node.mapLit, Node.noBad, kind_mapLit, noBad_mapLit T g a]
  | .call _ as => by simp only [Node.mapLit, Node.noBad, noBadA_mapLit T g as]
  | .lam _ body => by simp only [Node.mapLit, Node.noBad, noBad_mapLit T g body]
  | .lamcall _ body as => by
      simp only [Node.mapLit, Node.noBad, noBad_mapLit T g body, noBadA_mapLit T g as]
theorem noBadA_mapLit (T : Table) (g : LitClass → Nat → Nat) :
    ∀ as : Args, (as.mapLit g).noBad T = as.noBad T
  | .nil => rfl
  | .consE r => by simp only [Args.mapLit, Args.noBad, noBadA_mapLit T g r]
  | .consN n r => by simp only [Args.mapLit, Args.noBad, noBad_mapLit T g n, noBadA_mapLit T g r]
end

end IronCalc.Formula
