import IronCalc.Formula.LexGlue
import IronCalc.Formula.LexCfgs
/-
  The configurations of the running code satisfy `CfgOK` (non-vacuity of the lexer theorems):
  for each of the five shipped languages and both decimal separators, on the tables extracted from
  the running code (character classes, upper-casing, boolean and error names).
-/
namespace IronCalc.Formula
open IronCalc.Codec

theorem forall_range (P : Nat → Bool) (lo hi : Nat)
    (h : (List.range' lo (hi + 1 - lo)).all P = true) : ∀ n, lo ≤ n → n ≤ hi → P n = true := by
  intro n h1 h2
  exact List.all_eq_true.mp h n (by rw [List.mem_range'_1]; omega)

theorem char_range (Q : Char → Bool) (lo hi : Nat)
    (h : (List.range' lo (hi + 1 - lo)).all (fun n => Q (Char.ofNat n)) = true) (c : Char)
    (h1 : lo ≤ c.toNat) (h2 : c.toNat ≤ hi) : Q c = true := by
  have := forall_range (fun n => Q (Char.ofNat n)) lo hi h c.toNat h1 h2
  simpa [Char.ofNat_toNat] using this

theorem special_all (Q : Char → Bool) (h : specials.all Q = true) (c : Char)
    (hc : isAsciiSpecial c = true) : Q c = true := by
  apply List.all_eq_true.mp h c
  simpa [isAsciiSpecial] using hc

theorem inRanges_mem : ∀ (rs : List (Nat × Nat)) (n : Nat), inRanges rs n = true →
    ∃ p, p ∈ rs ∧ p.1 ≤ n ∧ n ≤ p.2
  | [], _, h => by simp [inRanges] at h
  | (a, b) :: t, n, h => by
    rw [inRanges] at h
    split at h
    · cases h
    · split at h
      · exact ⟨(a, b), List.mem_cons_self .., by simp; omega, by simpa using ‹n ≤ b›⟩
      · obtain ⟨p, hp, h1, h2⟩ := inRanges_mem t n h
        exact ⟨p, List.mem_cons_of_mem _ hp, h1, h2⟩

/-- no white-space character is alphanumeric (checked on every white-space code point) -/
theorem white_not_alnum_table :
    IronCalc.Generated.whitespaceRanges.all (fun p =>
      (List.range' p.1 (p.2 + 1 - p.1)).all (fun n =>
        !(inRanges IronCalc.Generated.alphabeticRanges n || inRanges IronCalc.Generated.numericRanges n))) = true := by
  decide +kernel

theorem isDigit_iff (c : Char) : isDigit c = true ↔ 48 ≤ c.toNat ∧ c.toNat ≤ 57 := by
  simp [isDigit]

theorem isUpper_iff' (c : Char) : isUpper c = true ↔ 65 ≤ c.toNat ∧ c.toNat ≤ 90 := by
  simp [isUpper]

theorem errTables_ok : [0, 1, 2, 3, 4].all (fun L => errTableOK (errorsOf L)) = true := by
  decide +kernel

def boolOK (L : Nat) (dec : Char) : Bool :=
  let cfg := cfgOf true dec L
  !cfg.trueName.isEmpty && cfg.trueName.all (fun c => cfg.cc.alpha c && !isDigit c) &&
  !cfg.falseName.isEmpty && cfg.falseName.all (fun c => cfg.cc.alpha c && !isDigit c) &&
  upperStr cfg cfg.trueName == cfg.trueName && upperStr cfg cfg.falseName == cfg.falseName &&
  cfg.trueName != cfg.falseName && !isValidColumn cfg.trueName && !isValidColumn cfg.falseName

theorem boolTables_ok : [0, 1, 2, 3, 4].all (fun L => boolOK L '.' && boolOK L ',') = true := by
  decide +kernel

/-- **the running code's configurations are covered**: every shipped language (index in
    `Generated.Names.langIds`), either decimal separator, A1 mode -/
theorem cfgOf_ok (L : Nat) (hL : L < 5) (dec : Char) (hdec : dec = '.' ∨ dec = ',') :
    CfgOK (cfgOf true dec L) := by
  have hLmem : L ∈ [0, 1, 2, 3, 4] := by simp; omega
  have herr := List.all_eq_true.mp errTables_ok L hLmem
  have hbool := List.all_eq_true.mp boolTables_ok L hLmem
  have hb : boolOK L dec = true := by
    simp only [Bool.and_eq_true] at hbool
    rcases hdec with h | h <;> subst h
    · exact hbool.1
    · exact hbool.2
  simp only [boolOK, Bool.and_eq_true, Bool.not_eq_true', List.isEmpty_eq_false_iff, beq_iff_eq,
    bne_iff_ne, ne_eq] at hb
  obtain ⟨⟨⟨⟨⟨⟨⟨⟨b1, b2⟩, b3⟩, b4⟩, b5⟩, b6⟩, b7⟩, b8⟩, b9⟩ := hb
  exact {
    a1 := rfl
    decimal := hdec
    white_special := fun c hc => by
      have := special_all (fun c => !unicodeCC.white c) (by decide +kernel) c hc
      show unicodeCC.white c = false
      simpa using this
    white_alnum := fun c hc => by
      cases hw : (cfgOf true dec L).cc.white c with
      | false => rfl
      | true =>
        obtain ⟨p, hp, h1, h2⟩ := inRanges_mem _ _ hw
        have h3 := List.all_eq_true.mp white_not_alnum_table p hp
        have h4 := List.all_eq_true.mp h3 c.toNat (by rw [List.mem_range'_1]; omega)
        have hc' : (inRanges IronCalc.Generated.alphabeticRanges c.toNat ||
            inRanges IronCalc.Generated.numericRanges c.toNat) = true := hc
        rw [hc'] at h4
        cases h4
    white_us := by show unicodeCC.white '_' = false; decide +kernel
    alpha_alnum := fun c hc => by
      have hc' : inRanges IronCalc.Generated.alphabeticRanges c.toNat = true := hc
      show (inRanges IronCalc.Generated.alphabeticRanges c.toNat ||
        inRanges IronCalc.Generated.numericRanges c.toNat) = true
      rw [hc']; rfl
    upper_alpha := fun c hc => by
      obtain ⟨h1, h2⟩ := (isUpper_iff' c).mp hc
      exact char_range (fun c => unicodeCC.alpha c) 65 90 (by decide +kernel) c h1 h2
    upper_ascii := fun c hc => by
      have hlt : c.toNat < 128 ∧ isLower c = false := by
        rcases hc with hc | hc
        · obtain ⟨h1, h2⟩ := (isUpper_iff' c).mp hc
          exact ⟨by omega, by simp [isLower]; omega⟩
        · obtain ⟨h1, h2⟩ := (isDigit_iff c).mp hc
          exact ⟨by omega, by simp [isLower]; omega⟩
      show unicodeUpper c = [c]
      simp [unicodeUpper, hlt.1, asciiUpper, hlt.2]
    digit_alnum := fun c hc => by
      obtain ⟨h1, h2⟩ := (isDigit_iff c).mp hc
      exact char_range (fun c => unicodeCC.alnum c) 48 57 (by decide +kernel) c h1 h2
    digit_not_alpha := fun c hc => by
      obtain ⟨h1, h2⟩ := (isDigit_iff c).mp hc
      have := char_range (fun c => !unicodeCC.alpha c) 48 57 (by decide +kernel) c h1 h2
      show unicodeCC.alpha c = false
      simpa using this
    special_not_alnum := fun c hc => by
      have := special_all (fun c => !unicodeCC.alnum c) (by decide +kernel) c hc
      show unicodeCC.alnum c = false
      simpa using this
    errors := herr
    true_alpha := ⟨b1, b2⟩
    false_alpha := ⟨b3, b4⟩
    true_upper := b5
    false_upper := b6
    true_ne_false := b7
    true_not_col := b8
    false_not_col := b9 }

/-- the stored form: `Lexer::new(_, LexerMode::R1C1, locale, language)` with the same tables -/
theorem cfgOf_rc_ok (L : Nat) (hL : L < 5) (dec : Char) (hdec : dec = '.' ∨ dec = ',') :
    CfgRC (cfgOf false dec L) := by
  have h := cfgOf_ok L hL dec hdec
  exact {
    rc := rfl
    decimal := h.decimal
    white_special := h.white_special
    white_alnum := h.white_alnum
    white_us := h.white_us
    alpha_alnum := h.alpha_alnum
    upper_alpha := h.upper_alpha
    upper_ascii := h.upper_ascii
    digit_alnum := h.digit_alnum
    digit_not_alpha := h.digit_not_alpha
    special_not_alnum := h.special_not_alnum
    errors := h.errors
    true_alpha := h.true_alpha
    false_alpha := h.false_alpha
    true_upper := h.true_upper
    false_upper := h.false_upper
    true_ne_false := h.true_ne_false
    true_not_col := h.true_not_col
    false_not_col := h.false_not_col }

end IronCalc.Formula
