import IronCalc.Formula.RoundTripMain
import IronCalc.Formula.TableCheck
/-
  The round trip for an ARBITRARY table (as extracted from whatever the code currently is):
  it holds for every tree that contains no (slot, child kind) occurrence at which the table
  fails the grammar's requirement.
-/
namespace IronCalc.Formula

/-- the table fails here: the grammar needs parentheses and the printer does not add them -/
def badPair (T : Table) (s : Slot) (k : Kind) : Bool := needs s k && !T s k

/-- the table repaired at exactly its failing entries -/
def fixT (T : Table) : Table := fun s k => T s k || badPair T s k

theorem fixT_ok (T : Table) : TableOK (fixT T) := by
  intro s k h
  unfold fixT badPair
  cases hT : T s k <;> simp [h]

mutual
/-- no occurrence, anywhere in the tree, of a (slot, child kind) pair at which `T` fails -/
def Node.noBad (T : Table) : Node → Bool
  | .lit _ _ => true
  | .name _ => true
  | .bin o a b =>
      !badPair T (.binL o.cls) a.kind && !badPair T (.binR o.cls) b.kind && a.noBad T && b.noBad T
  | .neg a => !badPair T .neg a.kind && a.noBad T
  | .pct a => !badPair T .pct a.kind && a.noBad T
  | .rng a b => !badPair T .rngL a.kind && !badPair T .rngR b.kind && a.noBad T && b.noBad T
  | .at a => !badPair T .at a.kind && a.noBad T
  | .spill a => !badPair T .spill a.kind && a.noBad T
  | .call _ as => as.noBad T
  | .lam _ body => body.noBad T
  | .lamcall _ body as => body.noBad T && as.noBad T
def Args.noBad (T : Table) : Args → Bool
  | .nil => true
  | .consE r => r.noBad T
  | .consN n r => n.noBad T && r.noBad T
end

theorem fixT_eq {T : Table} {s : Slot} {k : Kind} (h : badPair T s k = false) : fixT T s k = T s k := by
  unfold fixT; simp [h]

mutual
theorem pr_fix (T : Table) : ∀ e : Node, e.noBad T = true → pr (fixT T) e = pr T e
  | .lit _ _, _ => by simp [pr]
  | .name _, _ => by simp [pr]
  | .bin o a b, h => by
      simp only [Node.noBad, Bool.and_eq_true, Bool.not_eq_true'] at h
      obtain ⟨⟨⟨h1, h2⟩, h3⟩, h4⟩ := h
      simp only [pr, fixT_eq h1, fixT_eq h2, pr_fix T a h3, pr_fix T b h4]
  | .neg a, h => by
      simp only [Node.noBad, Bool.and_eq_true, Bool.not_eq_true'] at h
      simp only [pr, fixT_eq h.1, pr_fix T a h.2]
  | .pct a, h => by
      simp only [Node.noBad, Bool.and_eq_true, Bool.not_eq_true'] at h
      simp only [pr, fixT_eq h.1, pr_fix T a h.2]
  | .rng a b, h => by
      simp only [Node.noBad, Bool.and_eq_true, Bool.not_eq_true'] at h
      obtain ⟨⟨⟨h1, h2⟩, h3⟩, h4⟩ := h
      simp only [pr, fixT_eq h1, fixT_eq h2, pr_fix T a h3, pr_fix T b h4]
  | .at a, h => by
      simp only [Node.noBad, Bool.and_eq_true, Bool.not_eq_true'] at h
      simp only [pr, fixT_eq h.1, pr_fix T a h.2]
  | .spill a, h => by
      simp only [Node.noBad, Bool.and_eq_true, Bool.not_eq_true'] at h
      simp only [pr, fixT_eq h.1, pr_fix T a h.2]
  | .call x as, h => by
      simp only [Node.noBad] at h
      simp only [pr, prArgs_fix T as h]
  | .lam ps body, h => by
      simp only [Node.noBad] at h
      simp only [pr, pr_fix T body h]
  | .lamcall ps body as, h => by
      simp only [Node.noBad, Bool.and_eq_true] at h
      simp only [pr, pr_fix T body h.1, prArgs_fix T as h.2]
theorem prArgs_fix (T : Table) : ∀ as : Args, as.noBad T = true → prArgs (fixT T) as = prArgs T as
  | .nil, _ => by simp [prArgs]
  | .consE r, h => by
      simp only [Args.noBad] at h
      simp only [prArgs, prTail_fix T r h]
  | .consN n r, h => by
      simp only [Args.noBad, Bool.and_eq_true] at h
      simp only [prArgs, pr_fix T n h.1, prTail_fix T r h.2]
theorem prTail_fix (T : Table) : ∀ as : Args, as.noBad T = true → prTail (fixT T) as = prTail T as
  | .nil, _ => by simp [prTail]
  | .consE r, h => by
      simp only [Args.noBad] at h
      simp only [prTail, prTail_fix T r h]
  | .consN n r, h => by
      simp only [Args.noBad, Bool.and_eq_true] at h
      simp only [prTail, pr_fix T n h.1, prTail_fix T r h.2]
end

/-- round trip for an arbitrary table, on the trees that avoid its failing entries -/
theorem roundtrip_partial (iv : Nat → Bool) (T : Table) (e : Node) (hwf : e.wf iv = true)
    (hnb : e.noBad T = true) : ∃ f0, ∀ f, f0 ≤ f → P iv f 0 (pr T e) = some (e, []) := by
  have := roundtrip_main iv (fixT_ok T) e hwf
  rwa [pr_fix T e hnb] at this

end IronCalc.Formula
