import IronCalc.Formula.Parse
/-
  Helper lemmas for the printer/parser round trip (the property theorems are in Props/C09.lean).
  Architecture (see design_probes/ParserRoundTripMini.lean for the 4-level miniature):
   1. one-step forward lemmas per parser clause;
   2. a fuel-free relational layer  R L ts res := ∃ f0, ∀ f ≥ f0, P f L ts = some res
      (no monotonicity lemma is needed: two facts are combined at fuel `max`);
   3. `Post j` = what level `j` does after its operand was parsed; `Chain hi lo` = the posts of
      levels hi-1, …, lo in turn;  `descend`: R hi ts (a,r) → Chain hi lo a r res → R lo ts res;
   4. `NoTighter q rest`: no token follows that a level ≥ q would absorb;
   5. `item`: a child printed in a slot, wrapped or bare;
   6. structural (mutual) induction over Node / Args.
-/
namespace IronCalc.Formula

variable (iv : Nat → Bool)

/-! ### 1. one-step forward lemmas -/

theorem P_bin {f L ts a r} (h : L ≤ 4) (h1 : P iv f (L+1) ts = some (a, r)) :
    P iv (f+1) L ts = LB iv f L a r := by
  rw [P.eq_def]; simp [h, h1]

theorem P_5 (f ts) : P iv (f+1) 5 ts = PS iv f false ts := by
  rw [P.eq_def]; simp

theorem P_6_colon {f ts a r b r'} (h1 : P iv f 7 ts = some (a, Tok.colon :: r))
    (h2 : P iv f 8 r = some (b, r')) : P iv (f+1) 6 ts = some (Node.rng a b, r') := by
  rw [P.eq_def]; simp [h1, h2]

theorem P_6_other {f ts a r} (h1 : P iv f 7 ts = some (a, r)) (h2 : ∀ r', r ≠ Tok.colon :: r') :
    P iv (f+1) 6 ts = some (a, r) := by
  rw [P.eq_def]; simp [h1]

theorem P_7at {f r a r'} (h1 : P iv f 8 r = some (a, r')) :
    P iv (f+1) 7 (Tok.at :: r) = some (Node.at a, r') := by
  rw [P.eq_def]; simp [h1]

theorem P_7o_hash {f ts a r} (h : ∀ r, ts ≠ Tok.at :: r)
    (h1 : P iv f 8 ts = some (a, Tok.hash :: r)) : P iv (f+1) 7 ts = some (Node.spill a, r) := by
  rw [P.eq_def]; simp [h1]

theorem P_7o_other {f ts a r} (h : ∀ r, ts ≠ Tok.at :: r) (h1 : P iv f 8 ts = some (a, r))
    (h2 : ∀ r', r ≠ Tok.hash :: r') : P iv (f+1) 7 ts = some (a, r) := by
  rw [P.eq_def]; simp [h1]

theorem not_low {L : Nat} (h : 8 ≤ L) : ¬ L ≤ 4 ∧ ¬ L = 5 ∧ ¬ L = 6 ∧ ¬ L = 7 := by omega

theorem P_8lp {f L r a r'} (h : 8 ≤ L) (h1 : P iv f 0 r = some (a, Tok.rp :: r')) :
    P iv (f+1) L (Tok.lp :: r) = some (a, r') := by
  obtain ⟨a1, a2, a3, a4⟩ := not_low h
  rw [P.eq_def]; simp [a1, a2, a3, a4, h1]

theorem P_8lit (f L c a r) (h : 8 ≤ L) :
    P iv (f+1) L (Tok.lit c a :: r) = some (Node.lit c a, r) := by
  obtain ⟨a1, a2, a3, a4⟩ := not_low h
  rw [P.eq_def]; simp [a1, a2, a3, a4]

theorem P_8name (f L x r) (h : 8 ≤ L) (hr : ∀ r', r ≠ Tok.lp :: r') :
    P iv (f+1) L (Tok.ident x :: r) = some (Node.name x, r) := by
  obtain ⟨a1, a2, a3, a4⟩ := not_low h
  rw [P.eq_def]; simp [a1, a2, a3, a4]

theorem P_8call {f L x r args r'} (h : 8 ≤ L) (hx : x ≠ 0)
    (h1 : PA iv f r = some (args, Tok.rp :: r')) :
    P iv (f+1) L (Tok.ident x :: Tok.lp :: r) = some (Node.call x args, r') := by
  obtain ⟨a1, a2, a3, a4⟩ := not_low h
  rw [P.eq_def]; simp [a1, a2, a3, a4, hx, h1]

theorem P_8lam (f L r) (h : 8 ≤ L) :
    P iv (f+1) L (Tok.ident 0 :: Tok.lp :: r) = PLam iv f [] r := by
  obtain ⟨a1, a2, a3, a4⟩ := not_low h
  rw [P.eq_def]; simp [a1, a2, a3, a4]

theorem LB_step {f l acc o r b r'} (ho : o.level = l) (h1 : P iv f (l+1) r = some (b, r')) :
    LB iv (f+1) l acc (Tok.op o :: r) = LB iv f l (Node.bin o acc b) r' := by
  rw [LB.eq_def]; simp [ho, h1]

theorem LB_stop (f l acc r) (h : ∀ o r', r = Tok.op o :: r' → o.level ≠ l) :
    LB iv (f+1) l acc r = some (acc, r) := by
  rw [LB.eq_def]
  split <;> simp_all

theorem PS_sub (f ng r) : PS iv (f+1) ng (Tok.op .sub :: r) = PS iv f (!ng) r := by
  rw [PS.eq_def]

theorem PS_other {f ng ts a r} (h1 : ∀ r', ts ≠ Tok.op .add :: r') (h2 : ∀ r', ts ≠ Tok.op .sub :: r')
    (h3 : P iv f 6 ts = some (a, r)) :
    PS iv (f+1) ng ts = LP iv f (if ng then Node.neg a else a) r := by
  rw [PS.eq_def]
  split <;> simp_all

theorem LP_step (f acc r) : LP iv (f+1) acc (Tok.pct :: r) = LP iv f (Node.pct acc) r := by
  rw [LP.eq_def]

theorem LP_stop (f acc r) (h : ∀ r', r ≠ Tok.pct :: r') : LP iv (f+1) acc r = some (acc, r) := by
  rw [LP.eq_def]
  split <;> simp_all

theorem PA_rp (f r) : PA iv (f+1) (Tok.rp :: r) = some (Args.nil, Tok.rp :: r) := by
  rw [PA.eq_def]

theorem PA_sep {f r rest r'} (h : PT iv f (Tok.sep :: r) = some (rest, r')) :
    PA iv (f+1) (Tok.sep :: r) = some (Args.consE rest, r') := by
  rw [PA.eq_def]; simp [h]

theorem PA_expr {f ts a r rest r'} (h1 : ∀ r0, ts ≠ Tok.rp :: r0) (h2 : ∀ r0, ts ≠ Tok.sep :: r0)
    (h3 : P iv f 0 ts = some (a, r)) (h4 : PT iv f r = some (rest, r')) :
    PA iv (f+1) ts = some (Args.consN a rest, r') := by
  rw [PA.eq_def]
  split <;> simp_all

theorem PT_sepsep {f r rest r'} (h : PT iv f (Tok.sep :: r) = some (rest, r')) :
    PT iv (f+1) (Tok.sep :: Tok.sep :: r) = some (Args.consE rest, r') := by
  rw [PT.eq_def]; simp [h]

theorem PT_seprp (f r) :
    PT iv (f+1) (Tok.sep :: Tok.rp :: r) = some (Args.consE Args.nil, Tok.rp :: r) := by
  rw [PT.eq_def]

theorem PT_expr {f ts a r rest r'} (h1 : ∀ r0, ts ≠ Tok.rp :: r0) (h2 : ∀ r0, ts ≠ Tok.sep :: r0)
    (h3 : P iv f 0 ts = some (a, r)) (h4 : PT iv f r = some (rest, r')) :
    PT iv (f+1) (Tok.sep :: ts) = some (Args.consN a rest, r') := by
  rw [PT.eq_def]
  split <;> simp_all

theorem PT_stop (f ts) (h : ∀ r0, ts ≠ Tok.sep :: r0) : PT iv (f+1) ts = some (Args.nil, ts) := by
  rw [PT.eq_def]
  split <;> simp_all

theorem PLam_plain {f ps ts e r2} (h1 : ∀ r0, ts ≠ Tok.lbk :: r0) (h2 : P iv f 0 ts = some (e, r2)) :
    PLam iv (f+1) ps ts = PLamItem iv f ps false e r2 := by
  rw [PLam.eq_def]
  split <;> simp_all

theorem PLam_opt {f ps ts e r2} (h2 : P iv f 0 ts = some (e, Tok.rbk :: r2)) :
    PLam iv (f+1) ps (Tok.lbk :: ts) = PLamItem iv f ps true e r2 := by
  rw [PLam.eq_def]; simp [h2]

theorem PLamItem_param {f ps br x r3} (h : iv x = true) :
    PLamItem iv (f+1) ps br (Node.name x) (Tok.sep :: r3) = PLam iv f (ps ++ [(x, br)]) r3 := by
  rw [PLamItem.eq_def]; simp [h]

theorem PLamItem_body (f ps br e r3) (h : ∀ r0, r3 ≠ Tok.lp :: r0) :
    PLamItem iv (f+1) ps br e (Tok.rp :: r3) = some (Node.lam ps e, r3) := by
  rw [PLamItem.eq_def]
  split <;> simp_all

theorem PLamItem_call {f ps br e r4 args r5} (h : PA iv f r4 = some (args, Tok.rp :: r5)) :
    PLamItem iv (f+1) ps br e (Tok.rp :: Tok.lp :: r4) = some (Node.lamcall ps e args, r5) := by
  rw [PLamItem.eq_def]; simp [h]

/-! ### 2. the fuel-free relational layer -/

/-- "for all sufficiently large fuel" -/
def Ev {α : Type} (g : Nat → Option α) (res : α) : Prop := ∃ f0, ∀ f, f0 ≤ f → g f = some res

def R (L : Nat) (ts : List Tok) (res : Node × List Tok) : Prop := Ev (fun f => P iv f L ts) res
def RLB (l : Nat) (acc : Node) (ts : List Tok) (res : Node × List Tok) : Prop :=
  Ev (fun f => LB iv f l acc ts) res
def RLP (acc : Node) (ts : List Tok) (res : Node × List Tok) : Prop := Ev (fun f => LP iv f acc ts) res
def RPS (ng : Bool) (ts : List Tok) (res : Node × List Tok) : Prop := Ev (fun f => PS iv f ng ts) res
def RPA (ts : List Tok) (res : Args × List Tok) : Prop := Ev (fun f => PA iv f ts) res
def RPT (ts : List Tok) (res : Args × List Tok) : Prop := Ev (fun f => PT iv f ts) res
def RPLam (ps : List (Nat × Bool)) (ts : List Tok) (res : Node × List Tok) : Prop :=
  Ev (fun f => PLam iv f ps ts) res

/-- combine one fact: `g (f+1) = h f` for all f -/
theorem Ev_step1 {α : Type} {g h : Nat → Option α} {res : α}
    (hstep : ∀ f, g (f+1) = h f) (h1 : Ev h res) : Ev g res := by
  obtain ⟨f0, h1⟩ := h1
  refine ⟨f0 + 1, fun f hf => ?_⟩
  obtain ⟨f', rfl⟩ : ∃ f', f = f' + 1 := ⟨f - 1, by omega⟩
  rw [hstep]; exact h1 f' (by omega)

/-- combine two facts at the larger fuel -/
theorem Ev_step2 {α β : Type} {g : Nat → Option α} {h1 : Nat → Option β} {h2 : Nat → Option α}
    {mid : β} {res : α}
    (hstep : ∀ f, h1 f = some mid → g (f+1) = h2 f) (e1 : Ev h1 mid) (e2 : Ev h2 res) : Ev g res := by
  obtain ⟨f1, e1⟩ := e1
  obtain ⟨f2, e2⟩ := e2
  refine ⟨max f1 f2 + 1, fun f hf => ?_⟩
  obtain ⟨f', rfl⟩ : ∃ f', f = f' + 1 := ⟨f - 1, by omega⟩
  rw [hstep f' (e1 f' (by omega))]; exact e2 f' (by omega)

theorem Ev_const {α : Type} {g : Nat → Option α} {res : α} (h : ∀ f, g (f+1) = some res) : Ev g res :=
  ⟨1, fun f hf => by obtain ⟨f', rfl⟩ : ∃ f', f = f' + 1 := ⟨f - 1, by omega⟩; exact h f'⟩

theorem Ev_map1 {α β : Type} {g : Nat → Option α} {h1 : Nat → Option β} {m : β} {res : α}
    (hstep : ∀ f, h1 f = some m → g (f+1) = some res) (e1 : Ev h1 m) : Ev g res := by
  obtain ⟨f1, e1⟩ := e1
  refine ⟨f1 + 1, fun f hf => ?_⟩
  obtain ⟨f', rfl⟩ : ∃ f', f = f' + 1 := ⟨f - 1, by omega⟩
  exact hstep f' (e1 f' (by omega))

theorem Ev_map2 {α β γ : Type} {g : Nat → Option α} {h1 : Nat → Option β} {h2 : Nat → Option γ}
    {m1 : β} {m2 : γ} {res : α}
    (hstep : ∀ f, h1 f = some m1 → h2 f = some m2 → g (f+1) = some res)
    (e1 : Ev h1 m1) (e2 : Ev h2 m2) : Ev g res := by
  obtain ⟨f1, e1⟩ := e1
  obtain ⟨f2, e2⟩ := e2
  refine ⟨max f1 f2 + 1, fun f hf => ?_⟩
  obtain ⟨f', rfl⟩ : ∃ f', f = f' + 1 := ⟨f - 1, by omega⟩
  exact hstep f' (e1 f' (by omega)) (e2 f' (by omega))

/-! ### 3. posts, chains, descending -/

def NoSign (ts : List Tok) : Prop := (∀ r, ts ≠ Tok.op .add :: r) ∧ (∀ r, ts ≠ Tok.op .sub :: r)
def NoAt (ts : List Tok) : Prop := ∀ r, ts ≠ Tok.at :: r

/-- what level `j` does once its operand `acc` has been parsed and `r` remains -/
def Post (j : Nat) (acc : Node) (r : List Tok) (res : Node × List Tok) : Prop :=
  if j ≤ 4 then RLB iv j acc r res
  else if j = 5 then RLP iv acc r res
  else if j = 6 then
    (∃ r1 b r2, r = Tok.colon :: r1 ∧ R iv 8 r1 (b, r2) ∧ res = (Node.rng acc b, r2)) ∨
      ((∀ r1, r ≠ Tok.colon :: r1) ∧ res = (acc, r))
  else if j = 7 then
    (∃ r1, r = Tok.hash :: r1 ∧ res = (Node.spill acc, r1)) ∨
      ((∀ r1, r ≠ Tok.hash :: r1) ∧ res = (acc, r))
  else res = (acc, r)

theorem RPS_of {ts a r res} (hs : NoSign ts) (h1 : R iv 6 ts (a, r)) (h2 : RLP iv a r res) :
    RPS iv false ts res := by
  refine Ev_step2 (g := fun f => PS iv f false ts) (h1 := fun f => P iv f 6 ts)
    (h2 := fun f => LP iv f a r) (fun f hf => ?_) h1 h2
  have := PS_other iv (ng := false) hs.1 hs.2 hf
  simpa using this

/-- one level up: from level `j+1` to level `j` -/
theorem Rstep {j ts a r res} (hj : j ≤ 7) (h5 : j = 5 → NoSign ts) (h7 : j = 7 → NoAt ts)
    (h1 : R iv (j+1) ts (a, r)) (h2 : Post iv j a r res) : R iv j ts res := by
  unfold Post at h2
  by_cases c4 : j ≤ 4
  · simp only [c4, if_true] at h2
    exact Ev_step2 (g := fun f => P iv f j ts) (h1 := fun f => P iv f (j+1) ts)
      (h2 := fun f => LB iv f j a r) (fun f hf => P_bin iv c4 hf) h1 h2
  · simp only [c4, if_false] at h2
    by_cases c5 : j = 5
    · subst c5
      simp only [if_true] at h2
      have := RPS_of iv (h5 rfl) h1 h2
      exact Ev_step1 (g := fun f => P iv f 5 ts) (h := fun f => PS iv f false ts) (fun f => P_5 iv f ts) this
    · simp only [c5, if_false] at h2
      by_cases c6 : j = 6
      · subst c6
        simp only [if_true] at h2
        rcases h2 with ⟨r1, b, r2, rfl, hb, rfl⟩ | ⟨hn, rfl⟩
        · exact Ev_map2 (g := fun f => P iv f 6 ts) (h1 := fun f => P iv f 7 ts)
            (h2 := fun f => P iv f 8 r1) (fun f e1 e2 => P_6_colon iv e1 e2) h1 hb
        · exact Ev_map1 (g := fun f => P iv f 6 ts) (h1 := fun f => P iv f 7 ts)
            (fun f e1 => P_6_other iv e1 hn) h1
      · simp only [c6, if_false] at h2
        have c7 : j = 7 := by omega
        subst c7
        simp only [if_true] at h2
        rcases h2 with ⟨r1, rfl, rfl⟩ | ⟨hn, rfl⟩
        · exact Ev_map1 (g := fun f => P iv f 7 ts) (h1 := fun f => P iv f 8 ts)
            (fun f e1 => P_7o_hash iv (h7 rfl) e1) h1
        · exact Ev_map1 (g := fun f => P iv f 7 ts) (h1 := fun f => P iv f 8 ts)
            (fun f e1 => P_7o_other iv (h7 rfl) e1 hn) h1

/-- the posts of levels `hi-1, hi-2, …, lo`, in that order -/
inductive Chain : Nat → Nat → Node → List Tok → Node × List Tok → Prop
  | nil {lo acc r} : Chain lo lo acc r (acc, r)
  | cons {j lo acc r a' r' res} : lo ≤ j → Post iv j acc r (a', r') → Chain j lo a' r' res →
      Chain (j+1) lo acc r res

theorem Chain_le {hi lo a r res} (h : Chain iv hi lo a r res) : lo ≤ hi := by
  induction h with
  | nil => exact Nat.le_refl _
  | cons hle _ _ _ => omega

theorem descend {hi lo ts a r res} (hhi : hi ≤ 8) (h1 : R iv hi ts (a, r)) (hk : Chain iv hi lo a r res)
    (h5 : lo ≤ 5 → 5 < hi → NoSign ts) (h7 : lo ≤ 7 → 7 < hi → NoAt ts) : R iv lo ts res := by
  induction hk with
  | nil => exact h1
  | @cons j lo acc r a' r' res hle hp hk' ih =>
    have hr : R iv j ts (a', r') :=
      Rstep iv (by omega) (fun e => h5 (by omega) (by omega)) (fun e => h7 (by omega) (by omega)) h1 hp
    exact ih (by omega) hr (fun a b => h5 a (by omega)) (fun a b => h7 a (by omega))

/-- the level whose post would absorb this token -/
def postLevel : Tok → Option Nat
  | .op o => some o.level | .pct => some 5 | .colon => some 6 | .hash => some 7 | .lp => some 8
  | _ => none

/-- no token follows that a post of level ≥ q (or a call at the primary level) would absorb -/
def NoTighter (q : Nat) (rest : List Tok) : Prop :=
  ∀ t r', rest = t :: r' → ∀ j, postLevel t = some j → j < q

theorem NoTighter_mono {q q' rest} (h : NoTighter q rest) (hq : q ≤ q') : NoTighter q' rest :=
  fun t r' hr j hj => by have := h t r' hr j hj; omega

theorem Post_stop {j acc rest} (h : ∀ t r', rest = t :: r' → postLevel t ≠ some j) :
    Post iv j acc rest (acc, rest) := by
  unfold Post
  by_cases c4 : j ≤ 4
  · simp only [c4, if_true]
    exact Ev_const (fun f => LB_stop iv f j acc rest (fun o r' hr => by
      have := h _ _ hr; simp [postLevel] at this; exact this))
  · simp only [c4, if_false]
    by_cases c5 : j = 5
    · subst c5; simp only [if_true]
      exact Ev_const (fun f => LP_stop iv f acc rest (fun r' hr => by
        have := h _ _ hr; simp [postLevel] at this))
    · simp only [c5, if_false]
      by_cases c6 : j = 6
      · subst c6; simp only [if_true]
        exact Or.inr ⟨fun r1 hr => by have := h _ _ hr; simp [postLevel] at this, trivial⟩
      · simp only [c6, if_false]
        by_cases c7 : j = 7
        · subst c7; simp only [if_true]
          exact Or.inr ⟨fun r1 hr => by have := h _ _ hr; simp [postLevel] at this, trivial⟩
        · simp only [c7, if_false]

theorem NoTighter_stop {q j rest acc} (h : NoTighter q rest) (hj : q ≤ j) :
    Post iv j acc rest (acc, rest) :=
  Post_stop iv (fun t r' hr hlev => by have := h t r' hr j hlev; omega)

/-- posts at levels in [l, m) stop on `ts`, so a chain from `l` extends to a chain from `m` -/
theorem Chain_lift {l m lo acc ts res} (hlm : l ≤ m)
    (hs : ∀ j, l ≤ j → j < m → Post iv j acc ts (acc, ts)) (hk : Chain iv l lo acc ts res) :
    Chain iv m lo acc ts res := by
  obtain ⟨d, rfl⟩ := Nat.exists_eq_add_of_le hlm
  clear hlm
  induction d with
  | zero => exact hk
  | succ d ih =>
    have hk' := ih (fun j h1 h2 => hs j h1 (by omega))
    have hL := Chain_le iv hk
    exact Chain.cons (j := l + d) (by omega) (hs (l+d) (by omega) (by omega)) hk'

/-- replace the first post of a chain -/
theorem Chain_push {l lo acc' rest acc ts res} (hl : lo < l)
    (h : ∀ res', Post iv (l-1) acc' rest res' → Post iv (l-1) acc ts res')
    (hk : Chain iv l lo acc' rest res) : Chain iv l lo acc ts res := by
  cases hk with
  | nil => omega
  | cons hle hp hk' => exact Chain.cons hle (h _ (by simpa using hp)) hk'

theorem Chain_stop_all {hi lo acc ts} (hL : lo ≤ hi) (hs : ∀ j, lo ≤ j → j < hi → Post iv j acc ts (acc, ts)) :
    Chain iv hi lo acc ts (acc, ts) :=
  Chain_lift iv hL hs Chain.nil

/-! ### 4. levels, well-formedness, heads of printed token lists -/

/-- the level from which the posts continue once a node of this kind is complete -/
def Kind.cl : Kind → Nat
  | .bin c => c.level + 1
  | .neg => 6 | .pct => 6 | .rng => 6 | .at => 7 | .spill => 7
  | .lit _ => 8 | .name => 8 | .call => 8 | .lam => 8 | .lamcall => 8

theorem OpClass.level_le4 (c : OpClass) : c.level ≤ 4 := by cases c <;> simp [OpClass.level]
theorem Kind.level_le_cl (k : Kind) : k.level ≤ k.cl := by
  cases k <;> simp [Kind.level, Kind.cl]
theorem Kind.cl_le8 (k : Kind) : k.cl ≤ 8 := by
  cases k <;> simp [Kind.cl]
  next c => have := c.level_le4; omega
theorem Kind.level_le8 (k : Kind) : k.level ≤ 8 := Nat.le_trans k.level_le_cl k.cl_le8
theorem Kind.succ_le_cl {k : Kind} {l : Nat} (hl : l ≤ 4) (h : l ≤ k.level) : l + 1 ≤ k.cl := by
  cases k <;> simp [Kind.level, Kind.cl] at * <;> omega
theorem Kind.six_le_cl {k : Kind} (h : 5 ≤ k.level) : 6 ≤ k.cl := by
  cases k <;> simp [Kind.level, Kind.cl] at * <;> omega

def Args.notSingleEmpty : Args → Bool
  | .consE .nil => false
  | _ => true

mutual
/-- the parser's image, as far as the operator skeleton is concerned: no call has the single
    argument list `[EmptyArg]` (`f()` parses to no arguments), `LAMBDA` is not an ordinary function
    name, lambda parameters are plain variables -/
def Node.wf (iv : Nat → Bool) : Node → Bool
  | .lit _ _ => true
  | .name _ => true
  | .bin _ a b => a.wf iv && b.wf iv
  | .neg a => a.wf iv
  | .pct a => a.wf iv
  | .rng a b => a.wf iv && b.wf iv
  | .at a => a.wf iv
  | .spill a => a.wf iv
  | .call x as => (x != 0) && as.wf iv && as.notSingleEmpty
  | .lam ps body => ps.all (fun p => iv p.1) && body.wf iv
  | .lamcall ps body as => ps.all (fun p => iv p.1) && body.wf iv && as.wf iv && as.notSingleEmpty
def Args.wf (iv : Nat → Bool) : Args → Bool
  | .nil => true
  | .consE r => r.wf iv
  | .consN n r => n.wf iv && r.wf iv
end

def startTok : Tok → Bool
  | .lit _ _ => true | .ident _ => true | .lp => true | .at => true | .op .sub => true
  | _ => false

def startTok6 : Tok → Bool
  | .lit _ _ => true | .ident _ => true | .lp => true | .at => true
  | _ => false

def headIs (p : Tok → Bool) (ts : List Tok) : Prop := ∃ t r, ts = t :: r ∧ p t = true

theorem headIs_cons {p : Tok → Bool} {t : Tok} (h : p t = true) (r : List Tok) : headIs p (t :: r) :=
  ⟨t, r, rfl, h⟩

theorem headIs_append {p : Tok → Bool} {ts : List Tok} (h : headIs p ts) (rest : List Tok) :
    headIs p (ts ++ rest) := by
  obtain ⟨t, r, rfl, ht⟩ := h
  exact ⟨t, r ++ rest, by simp, ht⟩

theorem headIs_wrap {p : Tok → Bool} (hlp : p Tok.lp = true) {ts : List Tok} (b : Bool)
    (h : b = false → headIs p ts) : headIs p (wrap b ts) := by
  cases b with
  | true => exact ⟨Tok.lp, ts ++ [Tok.rp], by simp [wrap], hlp⟩
  | false => simpa [wrap] using h rfl

theorem pr_head (T : Table) : ∀ e : Node, headIs startTok (pr T e)
  | .lit c a => by simp only [pr]; exact headIs_cons rfl _
  | .name x => by simp only [pr]; exact headIs_cons rfl _
  | .bin o a b => by
      simp only [pr]; exact headIs_append (headIs_wrap rfl _ (fun _ => pr_head T a)) _
  | .neg a => by simp only [pr]; exact headIs_cons rfl _
  | .pct a => by
      simp only [pr]; exact headIs_append (headIs_wrap rfl _ (fun _ => pr_head T a)) _
  | .rng a b => by
      simp only [pr]; exact headIs_append (headIs_wrap rfl _ (fun _ => pr_head T a)) _
  | .at a => by simp only [pr]; exact headIs_cons rfl _
  | .spill a => by
      simp only [pr]; exact headIs_append (headIs_wrap rfl _ (fun _ => pr_head T a)) _
  | .call x as => by simp only [pr]; exact headIs_cons rfl _
  | .lam ps body => by simp only [pr]; exact headIs_cons rfl _
  | .lamcall ps body as => by simp only [pr]; exact headIs_cons rfl _

theorem bare_level {T : Table} (hT : TableOK T) {s : Slot} {k : Kind} (hb : T s k = false) :
    s.level ≤ k.level := by
  by_cases h : needs s k = true
  · have := hT s k h; rw [hb] at this; cases this
  · simp [needs] at h; exact h

theorem pr_head6 {T : Table} (hT : TableOK T) :
    ∀ e : Node, 6 ≤ e.kind.level → headIs startTok6 (pr T e)
  | .lit c a, _ => by simp only [pr]; exact headIs_cons rfl _
  | .name x, _ => by simp only [pr]; exact headIs_cons rfl _
  | .bin o a b, h => by
      have := o.cls.level_le4; simp [Node.kind, Kind.level] at h; omega
  | .neg a, h => by simp [Node.kind, Kind.level] at h
  | .pct a, h => by simp [Node.kind, Kind.level] at h
  | .rng a b, _ => by
      simp only [pr]
      refine headIs_append (headIs_wrap rfl _ (fun hb => ?_)) _
      have hl := bare_level hT hb
      simp only [Slot.level] at hl
      exact pr_head6 hT a (by omega)
  | .at a, _ => by simp only [pr]; exact headIs_cons rfl _
  | .spill a, _ => by
      simp only [pr]
      refine headIs_append (headIs_wrap rfl _ (fun hb => ?_)) _
      have hl := bare_level hT hb
      simp only [Slot.level] at hl
      exact pr_head6 hT a (by omega)
  | .call x as, _ => by simp only [pr]; exact headIs_cons rfl _
  | .lam ps body, _ => by simp only [pr]; exact headIs_cons rfl _
  | .lamcall ps body as, _ => by simp only [pr]; exact headIs_cons rfl _

def startTok8 : Tok → Bool
  | .lit _ _ => true | .ident _ => true | .lp => true
  | _ => false

theorem pr_head8 (T : Table) :
    ∀ e : Node, e.kind.level = 8 → headIs startTok8 (pr T e)
  | .lit c a, _ => by simp only [pr]; exact headIs_cons rfl _
  | .name x, _ => by simp only [pr]; exact headIs_cons rfl _
  | .bin o a b, h => by
      have := o.cls.level_le4; simp [Node.kind, Kind.level] at h; omega
  | .neg a, h => by simp [Node.kind, Kind.level] at h
  | .pct a, h => by simp [Node.kind, Kind.level] at h
  | .rng a b, h => by simp [Node.kind, Kind.level] at h
  | .at a, h => by simp [Node.kind, Kind.level] at h
  | .spill a, h => by simp [Node.kind, Kind.level] at h
  | .call x as, _ => by simp only [pr]; exact headIs_cons rfl _
  | .lam ps body, _ => by simp only [pr]; exact headIs_cons rfl _
  | .lamcall ps body as, _ => by simp only [pr]; exact headIs_cons rfl _

theorem noSign_of_head {ts : List Tok} (h : headIs startTok6 ts) : NoSign ts := by
  obtain ⟨t, r, rfl, ht⟩ := h
  constructor <;> intro r' hr <;> simp at hr <;> obtain ⟨rfl, _⟩ := hr <;> simp [startTok6] at ht

theorem noAt_of_head {ts : List Tok} (h : headIs startTok8 ts) : NoAt ts := by
  obtain ⟨t, r, rfl, ht⟩ := h
  intro r' hr; simp at hr; obtain ⟨rfl, _⟩ := hr; simp [startTok8] at ht

theorem head8_to6 {ts : List Tok} (h : headIs startTok8 ts) : headIs startTok6 ts := by
  obtain ⟨t, r, rfl, ht⟩ := h
  refine ⟨t, r, rfl, ?_⟩
  cases t <;> simp [startTok8] at ht <;> simp [startTok6]

/-! ### 5. the induction statement and the `item` lemma -/

def RPLamItem (ps : List (Nat × Bool)) (br : Bool) (e : Node) (ts : List Tok)
    (res : Node × List Tok) : Prop := Ev (fun f => PLamItem iv f ps br e ts) res

def Claim (T : Table) (e : Node) : Prop :=
  ∀ L, L ≤ e.kind.level → ∀ rest res, NoTighter e.kind.cl rest →
    Chain iv e.kind.cl L e rest res → R iv L (pr T e ++ rest) res

theorem NoTighter_closing {q : Nat} {t : Tok} {r : List Tok} (h : postLevel t = none) :
    NoTighter q (t :: r) := by
  intro t' r' hr j hj
  simp at hr; obtain ⟨rfl, _⟩ := hr; rw [h] at hj; cases hj

theorem NoTighter_nil {q : Nat} : NoTighter q [] := by
  intro t' r' hr; cases hr

/-- a complete expression followed by a closing token (or nothing) parses at level 0 -/
theorem parse0 {T : Table} {c : Node} (ih : Claim iv T c) (rest : List Tok)
    (h : NoTighter 0 rest) : R iv 0 (pr T c ++ rest) (c, rest) :=
  ih 0 (Nat.zero_le _) rest _ (NoTighter_mono h (Nat.zero_le _))
    (Chain_stop_all iv (Nat.zero_le _) (fun j _ _ => NoTighter_stop iv h (Nat.zero_le _)))

/-- a child printed in a slot: the parser continues from level `q` down to `L` -/
theorem item {T : Table} (c : Node) (ih : Claim iv T c) (b : Bool) (q L : Nat) (hq : q ≤ 8) (hLq : L ≤ q)
    (hb : b = false → q ≤ c.kind.cl ∧ L ≤ c.kind.level)
    (rest : List Tok) (res : Node × List Tok) (hnt : NoTighter q rest)
    (hk : Chain iv q L c rest res) : R iv L (wrap b (pr T c) ++ rest) res := by
  cases b with
  | false =>
    simp only [wrap, Bool.false_eq_true, if_false]
    obtain ⟨h1, h2⟩ := hb rfl
    exact ih L h2 rest res (NoTighter_mono hnt h1)
      (Chain_lift iv h1 (fun j hj _ => NoTighter_stop iv hnt hj) hk)
  | true =>
    simp only [wrap, if_true]
    have h0 : R iv 0 (pr T c ++ Tok.rp :: rest) (c, Tok.rp :: rest) :=
      parse0 iv ih _ (NoTighter_closing rfl)
    have h8 : R iv 8 (Tok.lp :: (pr T c ++ [Tok.rp]) ++ rest) (c, rest) := by
      have e : (Tok.lp :: (pr T c ++ [Tok.rp]) ++ rest) = Tok.lp :: (pr T c ++ Tok.rp :: rest) := by simp
      rw [e]
      exact Ev_map1 (g := fun f => P iv f 8 (Tok.lp :: (pr T c ++ Tok.rp :: rest)))
        (h1 := fun f => P iv f 0 (pr T c ++ Tok.rp :: rest))
        (fun f e1 => P_8lp iv (Nat.le_refl 8) e1) h0
    have hk8 : Chain iv 8 L c rest res := Chain_lift iv hq (fun j hj _ => NoTighter_stop iv hnt hj) hk
    refine descend iv (Nat.le_refl 8) h8 hk8 (fun _ _ => ?_) (fun _ _ => ?_)
    · constructor <;> intro r hr <;> simp at hr
    · intro r hr; simp at hr

/-! ### 6. the main induction -/

theorem claim_lit (T : Table) (c : LitClass) (a : Nat) : Claim iv T (Node.lit c a) := by
  intro L _ rest res _ hk
  simp only [Node.kind, Kind.cl] at hk
  have h8 : R iv 8 (pr T (Node.lit c a) ++ rest) (Node.lit c a, rest) := by
    simp only [pr, List.cons_append, List.nil_append]
    exact Ev_const (fun f => P_8lit iv f 8 c a rest (Nat.le_refl 8))
  refine descend iv (Nat.le_refl 8) h8 hk (fun _ _ => ?_) (fun _ _ => ?_)
  · simp only [pr, List.cons_append, List.nil_append]
    constructor <;> intro r hr <;> simp at hr
  · simp only [pr, List.cons_append, List.nil_append]
    intro r hr; simp at hr

theorem claim_name (T : Table) (x : Nat) : Claim iv T (Node.name x) := by
  intro L _ rest res hnt hk
  simp only [Node.kind, Kind.cl] at hk hnt
  have hlp : ∀ r', rest ≠ Tok.lp :: r' := by
    intro r' hr
    have := hnt _ _ hr 8 rfl
    omega
  have h8 : R iv 8 (pr T (Node.name x) ++ rest) (Node.name x, rest) := by
    simp only [pr, List.cons_append, List.nil_append]
    exact Ev_const (fun f => P_8name iv f 8 x rest (Nat.le_refl 8) hlp)
  refine descend iv (Nat.le_refl 8) h8 hk (fun _ _ => ?_) (fun _ _ => ?_)
  · simp only [pr, List.cons_append, List.nil_append]
    constructor <;> intro r hr <;> simp at hr
  · simp only [pr, List.cons_append, List.nil_append]
    intro r hr; simp at hr

theorem postLevel_op (o : BinOp) : postLevel (Tok.op o) = some o.level := rfl

theorem claim_bin {T : Table} (hT : TableOK T) (o : BinOp) (a b : Node)
    (iha : Claim iv T a) (ihb : Claim iv T b) : Claim iv T (Node.bin o a b) := by
  intro L hL rest res hnt hk
  have hl4 : o.level ≤ 4 := o.cls.level_le4
  simp only [Node.kind, Kind.level, Kind.cl] at hL hnt hk
  have hlev : o.cls.level = o.level := rfl
  rw [hlev] at hL hnt hk
  -- the right operand, parsed at level l+1
  have hr : R iv (o.level + 1) (wrap (T (.binR o.cls) b.kind) (pr T b) ++ rest) (b, rest) := by
    refine item iv b ihb _ (o.level + 1) (o.level + 1) (by omega) (Nat.le_refl _) (fun hb => ?_) rest _ hnt
      Chain.nil
    have := bare_level hT hb
    simp only [Slot.level, hlev] at this
    exact ⟨Nat.le_trans this b.kind.level_le_cl, this⟩
  have e : pr T (Node.bin o a b) ++ rest =
      wrap (T (.binL o.cls) a.kind) (pr T a) ++
        (Tok.op o :: (wrap (T (.binR o.cls) b.kind) (pr T b) ++ rest)) := by
    simp [pr]
  rw [e]
  refine item iv a iha _ (o.level + 1) L (by omega) (by omega) (fun hb => ?_) _ res ?_ ?_
  · have := bare_level hT hb
    simp only [Slot.level, hlev] at this
    exact ⟨Kind.succ_le_cl hl4 this, by omega⟩
  · intro t r' hr' j hj
    simp at hr'; obtain ⟨rfl, _⟩ := hr'
    rw [postLevel_op] at hj; cases hj; omega
  · refine Chain_push iv (by omega) (fun res' h => ?_) hk
    simp only [Nat.add_sub_cancel] at h ⊢
    unfold Post at h ⊢
    simp only [hl4, if_true] at h ⊢
    exact Ev_step2 (g := fun f => LB iv f o.level a (Tok.op o :: (wrap (T (.binR o.cls) b.kind) (pr T b) ++ rest)))
      (h1 := fun f => P iv f (o.level + 1) (wrap (T (.binR o.cls) b.kind) (pr T b) ++ rest))
      (h2 := fun f => LB iv f o.level (Node.bin o a b) rest)
      (fun f hf => LB_step iv rfl hf) hr h

theorem claim_neg {T : Table} (hT : TableOK T) (a : Node) (iha : Claim iv T a) :
    Claim iv T (Node.neg a) := by
  intro L hL rest res hnt hk
  simp only [Node.kind, Kind.level, Kind.cl] at hL hnt hk
  have h6 : R iv 6 (wrap (T .neg a.kind) (pr T a) ++ rest) (a, rest) := by
    refine item iv a iha _ 6 6 (by omega) (Nat.le_refl _) (fun hb => ?_) rest _ hnt Chain.nil
    have := bare_level hT hb
    simp only [Slot.level] at this
    exact ⟨Nat.le_trans this a.kind.level_le_cl, this⟩
  have hns : NoSign (wrap (T .neg a.kind) (pr T a) ++ rest) := by
    refine noSign_of_head (headIs_append (headIs_wrap rfl _ (fun hb => ?_)) _)
    have := bare_level hT hb
    simp only [Slot.level] at this
    exact pr_head6 hT a this
  have e : pr T (Node.neg a) ++ rest = Tok.op .sub :: (wrap (T .neg a.kind) (pr T a) ++ rest) := by
    simp [pr]
  rw [e]
  cases hk with
  | nil => omega
  | cons hle hp hk' =>
    unfold Post at hp
    simp only [show ¬ (5 ≤ 4) by omega, if_false, if_true] at hp
    -- PS true on the operand, then the percent loop
    have hps : RPS iv true (wrap (T .neg a.kind) (pr T a) ++ rest) _ :=
      Ev_step2 (g := fun f => PS iv f true (wrap (T .neg a.kind) (pr T a) ++ rest))
        (h1 := fun f => P iv f 6 (wrap (T .neg a.kind) (pr T a) ++ rest))
        (h2 := fun f => LP iv f (Node.neg a) rest)
        (fun f hf => by have := PS_other iv (ng := true) hns.1 hns.2 hf; simpa using this) h6 hp
    have hps' : RPS iv false (Tok.op .sub :: (wrap (T .neg a.kind) (pr T a) ++ rest)) _ :=
      Ev_step1 (g := fun f => PS iv f false (Tok.op .sub :: (wrap (T .neg a.kind) (pr T a) ++ rest)))
        (h := fun f => PS iv f true (wrap (T .neg a.kind) (pr T a) ++ rest))
        (fun f => by rw [PS_sub]; rfl) hps
    have h5 : R iv 5 (Tok.op .sub :: (wrap (T .neg a.kind) (pr T a) ++ rest)) _ :=
      Ev_step1 (g := fun f => P iv f 5 (Tok.op .sub :: (wrap (T .neg a.kind) (pr T a) ++ rest)))
        (h := fun f => PS iv f false (Tok.op .sub :: (wrap (T .neg a.kind) (pr T a) ++ rest)))
        (fun f => P_5 iv f _) hps'
    exact descend iv (by omega) h5 hk' (fun _ h => by omega) (fun _ h => by omega)

theorem claim_pct {T : Table} (hT : TableOK T) (a : Node) (iha : Claim iv T a) :
    Claim iv T (Node.pct a) := by
  intro L hL rest res hnt hk
  simp only [Node.kind, Kind.level, Kind.cl] at hL hnt hk
  have e : pr T (Node.pct a) ++ rest = wrap (T .pct a.kind) (pr T a) ++ (Tok.pct :: rest) := by
    simp [pr]
  rw [e]
  refine item iv a iha _ 6 L (by omega) (by omega) (fun hb => ?_) _ res ?_ ?_
  · have := bare_level hT hb
    simp only [Slot.level] at this
    exact ⟨Kind.six_le_cl this, by omega⟩
  · intro t r' hr' j hj
    simp at hr'; obtain ⟨rfl, _⟩ := hr'
    simp [postLevel] at hj; omega
  · refine Chain_push iv (by omega) (fun res' h => ?_) hk
    simp only [Nat.add_one_sub_one] at h ⊢
    unfold Post at h ⊢
    simp only [show ¬ (5 ≤ 4) by omega, if_false, if_true] at h ⊢
    exact Ev_step1 (g := fun f => LP iv f a (Tok.pct :: rest)) (h := fun f => LP iv f (Node.pct a) rest)
      (fun f => LP_step iv f a rest) h

theorem claim_rng {T : Table} (hT : TableOK T) (a b : Node)
    (iha : Claim iv T a) (ihb : Claim iv T b) : Claim iv T (Node.rng a b) := by
  intro L hL rest res hnt hk
  simp only [Node.kind, Kind.level, Kind.cl] at hL hnt hk
  have hb8 : R iv 8 (wrap (T .rngR b.kind) (pr T b) ++ rest) (b, rest) := by
    refine item iv b ihb _ 8 8 (by omega) (Nat.le_refl _) (fun hb => ?_) rest _
      (NoTighter_mono hnt (by omega)) Chain.nil
    have := bare_level hT hb
    simp only [Slot.level] at this
    exact ⟨Nat.le_trans this b.kind.level_le_cl, this⟩
  have e : pr T (Node.rng a b) ++ rest =
      wrap (T .rngL a.kind) (pr T a) ++ (Tok.colon :: (wrap (T .rngR b.kind) (pr T b) ++ rest)) := by
    simp [pr]
  rw [e]
  refine item iv a iha _ 7 L (by omega) (by omega) (fun hb => ?_) _ res ?_ ?_
  · have := bare_level hT hb
    simp only [Slot.level] at this
    exact ⟨Nat.le_trans this a.kind.level_le_cl, by omega⟩
  · intro t r' hr' j hj
    simp at hr'; obtain ⟨rfl, _⟩ := hr'
    simp [postLevel] at hj; omega
  · refine Chain.cons (j := 6) hL ?_ hk
    unfold Post
    simp only [show ¬ (6 ≤ 4) by omega, show ¬ (6 = 5) by omega, if_false, if_true]
    exact Or.inl ⟨_, b, rest, rfl, hb8, rfl⟩

theorem claim_at {T : Table} (hT : TableOK T) (a : Node) (iha : Claim iv T a) :
    Claim iv T (Node.at a) := by
  intro L hL rest res hnt hk
  simp only [Node.kind, Kind.level, Kind.cl] at hL hnt hk
  have h8 : R iv 8 (wrap (T .at a.kind) (pr T a) ++ rest) (a, rest) := by
    refine item iv a iha _ 8 8 (by omega) (Nat.le_refl _) (fun hb => ?_) rest _
      (NoTighter_mono hnt (by omega)) Chain.nil
    have := bare_level hT hb
    simp only [Slot.level] at this
    exact ⟨Nat.le_trans this a.kind.level_le_cl, this⟩
  have e : pr T (Node.at a) ++ rest = Tok.at :: (wrap (T .at a.kind) (pr T a) ++ rest) := by
    simp [pr]
  rw [e]
  have h7 : R iv 7 (Tok.at :: (wrap (T .at a.kind) (pr T a) ++ rest)) (Node.at a, rest) :=
    Ev_map1 (g := fun f => P iv f 7 (Tok.at :: (wrap (T .at a.kind) (pr T a) ++ rest)))
      (h1 := fun f => P iv f 8 (wrap (T .at a.kind) (pr T a) ++ rest))
      (fun f e1 => P_7at iv e1) h8
  refine descend iv (by omega) h7 hk (fun _ _ => ?_) (fun _ h => by omega)
  constructor <;> intro r hr <;> simp at hr

theorem claim_spill {T : Table} (hT : TableOK T) (a : Node) (iha : Claim iv T a) :
    Claim iv T (Node.spill a) := by
  intro L hL rest res hnt hk
  simp only [Node.kind, Kind.level, Kind.cl] at hL hnt hk
  have e : pr T (Node.spill a) ++ rest = wrap (T .spill a.kind) (pr T a) ++ (Tok.hash :: rest) := by
    simp [pr]
  rw [e]
  refine item iv a iha _ 8 L (by omega) (by omega) (fun hb => ?_) _ res ?_ ?_
  · have := bare_level hT hb
    simp only [Slot.level] at this
    exact ⟨Nat.le_trans this a.kind.level_le_cl, by omega⟩
  · intro t r' hr' j hj
    simp at hr'; obtain ⟨rfl, _⟩ := hr'
    simp [postLevel] at hj; omega
  · refine Chain.cons (j := 7) hL ?_ hk
    unfold Post
    simp only [show ¬ (7 ≤ 4) by omega, show ¬ (7 = 5) by omega, show ¬ (7 = 6) by omega, if_false, if_true]
    exact Or.inl ⟨rest, rfl, rfl⟩

end IronCalc.Formula
