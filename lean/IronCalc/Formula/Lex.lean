import IronCalc.Codec.Lex
/-
  M-Formula, character level: an executable model of the LEXER of
  base/src/expressions/lexer/mod.rs (`Lexer::next_token` and the token loop every caller runs:
  `next_token` until `EOF`), in both lexer modes (A1 = the display path, R1C1 = the stored form),
  parametrised by what the real lexer takes from its `Locale` and `Language`
  (decimal separator, boolean names, error names) and by the Unicode tables it consults
  (`char::is_alphabetic/is_alphanumeric/is_whitespace`, `char::to_uppercase`).

  Strings are `List Char`; a lexer position is the remaining suffix of the input.
  Every `TokenType::Illegal(_)` leaves the real lexer at the end of the input (`set_error` sets
  `position = len`, the two explicit `Illegal` returns set it too), so `Illegal` is `(.illegal, [])`
  and the error message/position are not modelled.

  References are NOT re-modelled: the `$`, `'`, digit and identifier branches call the C22 codec
  models (`Codec/Refs.lean`: consumeRangeA1, consumeRangeR1C1, consumeReferenceR1C1,
  parseReferenceA1, parseReferenceR1C1; `Codec/Lex.lean`: consumeRange, quotedPath;
  `Codec/SheetName.lean`: isIdentChar, isIdentStart, quoteName).

  Not modelled: `LexerError` payloads (message, position); `peek_token/advance_token/expect` as an
  API (their uses inside the lexer are modelled in place); `get_tokens`' start/end marks.
-/
namespace IronCalc.Formula
open IronCalc.Codec

/-- what the lexer reads from `Locale`, `Language` and the Unicode tables -/
structure LexCfg where
  cc : CharClass
  /-- `char::to_uppercase` (one char may give several) -/
  upper : Char → List Char
  /-- `LexerMode::A1` -/
  a1 : Bool
  /-- `locale.numbers.symbols.decimal` (a one-character string in every shipped locale) -/
  decimal : Char
  /-- `language.booleans.true / false` -/
  trueName : List Char
  falseName : List Char
  /-- `language.errors`, in the order `consume_error` tries them, with the index in `enum Error` -/
  errors : List (List Char × Nat)

-- models token.rs::OpCompare
inductive OpCmp where
  | lt | gt | eq | le | ge | ne
  deriving DecidableEq, Repr

-- models token.rs::TableSpecifier
inductive TableSpec where
  | all | data | headers | thisRow | totals
  deriving DecidableEq, Repr

-- models token.rs::TableReference
inductive TableRef where
  | col (c : List Char)
  | range (a b : List Char)
  deriving DecidableEq, Repr

/-- models token.rs::TokenType (without `EOF`, which ends the list).  `num` carries the text
    handed to `str::parse::<f64>` (digits, `.`, `e`, sign), not a float. -/
inductive CTok where
  | illegal
  | ident (s : List Char)
  | str (s : List Char)
  | num (digits : List Char)
  | bool (b : Bool)
  | err (e : Nat)
  | cmp (k : OpCmp)
  | add | sub | mul | div | pow
  | lp | rp | colon | semi | lbk | rbk | lbrace | rbrace | comma | bang | pct | amp | at | spill
  | backslash
  | ref (sheet : Option (List Char)) (r : PRef)
  | range (sheet : Option (List Char)) (l r : PRef)
  | sref (table : List Char) (spec : Option TableSpec) (tr : Option TableRef)
  deriving DecidableEq, Repr

def ofRefTok : RefTok × List Char → CTok × List Char
  | (.ref sh r, rest) => (.ref sh r, rest)
  | (.range sh l r, rest) => (.range sh l r, rest)
  | (.other, _) => (.illegal, [])

/-- `str::to_uppercase` -/
def upperStr (cfg : LexCfg) (s : List Char) : List Char := s.flatMap cfg.upper

/-! ### numbers -/

/-- the "numbers after the decimal point" step of consume_number: (text pushed, input after) -/
def numFrac (dec : Char) (r : List Char) : List Char × List Char :=
  match r with
  | c :: u => if c = dec then ('.' :: u.takeWhile isDigit, u.dropWhile isDigit) else ([], r)
  | [] => ([], r)

/-- the "exponential side" step of consume_number: (text pushed, input after) -/
def numExp (r : List Char) : List Char × List Char :=
  match r with
  | e :: x :: u =>
    if (e = 'e' || e = 'E') && (x = '-' || x = '+' || isDigit x)
    then ('e' :: x :: u.takeWhile isDigit, u.dropWhile isDigit) else ([], r)
  | _ => ([], r)

-- models lexer/mod.rs::consume_number: (the text handed to `parse::<f64>`, the input after it).
-- `t` is the input after the character `first` that next_token has already read.
def consumeNumber (dec : Char) (first : Char) (t : List Char) : List Char × List Char :=
  let fr := numFrac dec (t.dropWhile isDigit)
  let ex := numExp fr.2
  (first :: (t.takeWhile isDigit ++ (fr.1 ++ ex.1)), ex.2)

def stripSign (s : List Char) : List Char :=
  match s with
  | c :: t => if c = '-' || c = '+' then t else s
  | [] => s

/-- does `str::parse::<f64>` accept the text (core::num::dec2flt grammar: sign? digits* ('.' digits*)?
    with at least one digit, then ([eE] sign? digits+)?).  `inf`/`nan` spellings cannot be produced by
    consume_number (its text starts with a digit or with the separator it was called on). -/
def f64Parses (s : List Char) : Bool :=
  let s := stripSign s
  let ip := s.takeWhile isDigit
  let r1 := s.dropWhile isDigit
  let fr : List Char × List Char := match r1 with
    | c :: t => if c = '.' then (t.takeWhile isDigit, t.dropWhile isDigit) else ([], r1)
    | [] => ([], r1)
  if ip.isEmpty && fr.1.isEmpty then false
  else match fr.2 with
    | [] => true
    | c :: t =>
      if c = 'e' || c = 'E' then
        let t' := stripSign t
        !(t'.takeWhile isDigit).isEmpty && (t'.dropWhile isDigit).isEmpty
      else false

/-! ### strings, errors -/

-- models lexer/mod.rs::consume_string (started after the opening quote): the payload keeps the
-- doubled quotes, `none` = "Expected closing '\"' but found end of input"
def consumeString : List Char → Option (List Char × List Char)
  | [] => none
  | c :: t =>
    if c = '"' then
      match t with
      | [] => some ([], [])
      | d :: t' =>
        if d = '"' then
          match consumeString t' with
          | some (s, r) => some ('"' :: '"' :: s, r)
          | none => none
        else some ([], t)
    else
      match consumeString t with
      | some (s, r) => some (c :: s, r)
      | none => none

-- models lexer/mod.rs::consume_error's chain of `starts_with` tests; `s` starts at the `#`
def consumeError (errors : List (List Char × Nat)) (s : List Char) : Option (Nat × List Char) :=
  match errors with
  | [] => none
  | (name, e) :: rest =>
    if name.isPrefixOf s then some (e, s.drop name.length) else consumeError rest s

/-! ### identifiers -/

def trueEn : List Char := ['T', 'R', 'U', 'E']
def falseEn : List Char := ['F', 'A', 'L', 'S', 'E']

-- models utils/mod.rs::is_valid_a1_identifier
def isValidA1Identifier (cfg : LexCfg) (name : List Char) : Bool :=
  let upper := upperStr cfg name
  if upper.length > 255 || upper.length = 0 then false else
  match upper with
  | [] => false
  | first :: rest =>
    if !(isAsciiAlpha first || first = '_' || first = '\\') then false
    else if upper = trueEn || upper = falseEn then false
    else if (parseReferenceA1 name).isSome then false
    else if (parseReferenceR1C1 name).isSome then false
    else rest.all (fun ch => cfg.cc.alnum ch || ch = '_' || ch = '.')

-- models utils/mod.rs::is_valid_identifier
def isValidIdentifier (cfg : LexCfg) (name : List Char) : Bool :=
  let upper := upperStr cfg name
  if upper = ['R'] || upper = ['C'] then false else isValidA1Identifier cfg name

-- models lexer/mod.rs::is_valid_r1c1_identifier
def isValidR1C1Identifier (cfg : LexCfg) (name : List Char) (next : Option Char) : Bool :=
  if !isValidA1Identifier cfg name then false
  else isValidIdentifier cfg name || next != some '['

/-! ### structured references (lexer/structured_references.rs) -/

def specTable : List (List Char × TableSpec) :=
  [("#This Row]".toList, .thisRow), ("#All]".toList, .all), ("#Data]".toList, .data),
   ("#Headers]".toList, .headers), ("#Totals]".toList, .totals)]

-- models consume_table_specifier: `none` = Err, `some (none, s)` = no specifier here
def consumeTableSpecifier (s : List Char) : Option (Option TableSpec × List Char) :=
  if headIs s '#' then
    match specTable.find? (fun p => p.1.isPrefixOf s) with
    | some (txt, sp) => some (some sp, s.drop txt.length)
    | none => none
  else some (none, s)

/-- the scanning loop of consume_column_reference: (raw slice, input from the end character on);
    a `'` skips the next character, `none` = a `'` as the very last character -/
def scanColumn (endc : Char) : List Char → Option (List Char × List Char)
  | [] => some ([], [])
  | c :: t =>
    if c = endc then some ([], c :: t)
    else if c = '\'' then
      match t with
      | [] => none
      | d :: t' =>
        match scanColumn endc t' with
        | some (r, rest) => some (c :: d :: r, rest)
        | none => none
    else
      match scanColumn endc t with
      | some (r, rest) => some (c :: r, rest)
      | none => none

/-- `str::replace` of a two-character pattern by one character (leftmost, non-overlapping) -/
def replacePair (a b r : Char) : List Char → List Char
  | [] => []
  | [c] => [c]
  | c :: d :: t =>
    if c = a ∧ d = b then r :: replacePair a b r t else c :: replacePair a b r (d :: t)

def unescapeColumn (s : List Char) : List Char :=
  replacePair '\'' '\'' '\'' (replacePair '\'' '@' '@' (replacePair '\'' '#' '#'
    (replacePair '\'' ']' ']' (replacePair '\'' '[' '[' s))))

-- models consume_column_reference
def consumeColumnReference (cc : CharClass) (s0 : List Char) : Option (List Char × List Char) :=
  let s := s0.dropWhile cc.white
  let eb : Char × List Char := if headIs s '[' then (']', s.tail) else (')', s)
  match scanColumn eb.1 eb.2 with
  | none => none
  | some (raw, rest) => some (unescapeColumn raw, if eb.1 = ']' then rest.tail else rest)

/-- `self.expect(tk)` for a one-character token: next_token skips white space first -/
def expectChar (cc : CharClass) (c : Char) (s : List Char) : Option (List Char) :=
  match s.dropWhile cc.white with
  | d :: t => if d = c then some t else none
  | [] => none

/-- the tail of consume_structured_reference: `[col]` or `[col]:[col]`, then `]` -/
def srefColumns (cfg : LexCfg) (name : List Char) (spec : Option TableSpec) (s : List Char) :
    CTok × List Char :=
  match consumeColumnReference cfg.cc s with
  | none => (.illegal, [])
  | some (c1, r1) =>
    if headIs r1 ':' then
      match consumeColumnReference cfg.cc r1.tail with
      | none => (.illegal, [])
      | some (c2, r2) =>
        match expectChar cfg.cc ']' r2 with
        | some r3 => (.sref name spec (some (.range c1 c2)), r3)
        | none => (.illegal, [])
    else
      match expectChar cfg.cc ']' r1 with
      | some r3 => (.sref name spec (some (.col c1)), r3)
      | none => (.illegal, [])

-- models consume_structured_reference; `s` is the input at the `[` that follows the table name
def structuredRef (cfg : LexCfg) (name : List Char) (s : List Char) : CTok × List Char :=
  match s with
  | [] => (.illegal, [])
  | _ :: u =>                       -- expect(LeftBracket): the caller has seen `[`
    if headIs u ']' then (.ident name, u.tail)
    else if headIs u '#' then
      match consumeTableSpecifier u with
      | some (some sp, rest) => (.sref name (some sp) none, rest)
      | _ => (.illegal, [])
    else if !headIs u '[' then
      -- MyTable[MyColumn]: back on the `[`
      match consumeColumnReference cfg.cc s with
      | some (c, rest) => (.sref name none (some (.col c)), rest)
      | none => (.illegal, [])
    else
      let v := u.tail                -- expect(LeftBracket)
      match consumeTableSpecifier v with
      | none => (.illegal, [])
      | some (none, _) => srefColumns cfg name none u          -- position -= 1: back on the second `[`
      | some (some sp, w) =>
        let w' := w.dropWhile cfg.cc.white
        if headIs w' ',' && cfg.decimal != ',' then
          -- peek_token == Comma; advance_token; expect(LeftBracket); position -= 1
          match expectChar cfg.cc '[' w'.tail with
          | some x => srefColumns cfg name (some sp) ('[' :: x)
          | none => (.illegal, [])
        else if headIs w' ']' then
          -- peek_token == RightBracket: returned WITHOUT consuming it (peek only)
          (.sref name (some sp) none, w)
        else
          -- position -= 1: back on the `]` that closed the specifier
          srefColumns cfg name (some sp) (']' :: w)

/-! ### next_token -/

/-- the one-character tokens -/
def punctTok (c : Char) : Option CTok :=
  if c = '+' then some .add else if c = '-' then some .sub else if c = '*' then some .mul
  else if c = '/' then some .div else if c = '(' then some .lp else if c = ')' then some .rp
  else if c = '=' then some (.cmp .eq) else if c = '{' then some .lbrace
  else if c = '}' then some .rbrace else if c = '[' then some .lbk else if c = ']' then some .rbk
  else if c = ':' then some .colon else if c = ';' then some .semi else if c = '@' then some .at
  else if c = '\\' then some .backslash else if c = '!' then some .bang
  else if c = '^' then some .pow else if c = '%' then some .pct else if c = '&' then some .amp
  else none

/-- the `'0'..='9'` branch: a number, or (A1 mode, next token is `:`) a row range `3:5` -/
def digitBranch (cfg : LexCfg) (c : Char) (t : List Char) : CTok × List Char :=
  let nr := consumeNumber cfg.decimal c t
  if !f64Parses nr.1 then (.illegal, [])
  else if cfg.a1 && headIs (nr.2.dropWhile cfg.cc.white) ':' then
    match consumeRangeA1 (c :: t) with
    | some (rg, rest) =>
      match rg.right with
      | some r => (.range none rg.left r, rest)
      | none => (.illegal, [])
    | none => (.illegal, [])
  else (.num nr.1, nr.2)

/-- the identifier branch (`char.is_alphabetic() || char == '_'`) -/
def identBranch (cfg : LexCfg) (s : List Char) : CTok × List Char :=
  let name := s.takeWhile (isIdentChar cfg.cc)
  let after := s.dropWhile (isIdentChar cfg.cc)
  if headIs after '!' then ofRefTok (consumeRange cfg.cc cfg.a1 (some name) after.tail)
  else if headIs after '$' then ofRefTok (consumeRange cfg.cc cfg.a1 none s)
  else
    let upper := upperStr cfg name
    if upper = cfg.trueName then (.bool true, after)
    else if upper = cfg.falseName then (.bool false, after)
    else if headIs after '(' then (.ident name, after)
    else if cfg.a1 then
      let pr := parseReferenceA1 upper
      let colon := headIs after ':'
      -- (`name_upper.trim_start_matches('$')` is the identity: an identifier has no `$`)
      if pr.isSome || (isValidColumn upper && colon) then
        match consumeRangeA1 s with
        | some (rg, rest) => ofRefTok (tokOfRange none rg, rest)
        | none =>
          match pr with
          | some r => if colon then (.ref none r, after) else (.illegal, [])
          | none => (.illegal, [])
      else if isValidA1Identifier cfg name then
        if headIs after '[' then structuredRef cfg name after
        else (.ident name, after)
      else (.illegal, [])
    else
      let fallback : CTok × List Char :=
        if isValidR1C1Identifier cfg name after.head? then (.ident name, after) else (.illegal, [])
      match consumeRangeR1C1 cfg.cc s with
      | some (rg, rest) =>
        -- "We need to check it's not something like R1C1P": the identifier is longer than the range
        if name.length > s.length - rest.length then fallback
        else ofRefTok (tokOfRange none rg, rest)
      | none =>
        match consumeReferenceR1C1 cfg.cc s with
        | some (r, rest) => if headIs rest ':' then (.ref none r, rest) else fallback
        | none => fallback

-- models lexer/mod.rs::Lexer::next_token; `none` = `TokenType::EOF`
def nextToken (cfg : LexCfg) (s0 : List Char) : Option (CTok × List Char) :=
  match s0.dropWhile cfg.cc.white with
  | [] => none
  | c :: t =>
    some (
      match punctTok c with
      | some tk => (tk, t)
      | none =>
        if c = ',' then
          if cfg.decimal = ',' then
            (let nr := consumeNumber cfg.decimal c t
             if f64Parses nr.1 then (.num nr.1, nr.2) else (.illegal, []))
          else (.comma, t)
        else if c = '.' then
          if cfg.decimal = '.' then
            (let nr := consumeNumber cfg.decimal c t
             if f64Parses nr.1 then (.num nr.1, nr.2) else (.illegal, []))
          else (.illegal, [])
        else if c = '$' then
          (if cfg.a1 then ofRefTok (consumeRange cfg.cc true none (c :: t)) else (.illegal, []))
        else if c = '<' then
          (if headIs t '=' then (.cmp .le, t.tail) else if headIs t '>' then (.cmp .ne, t.tail)
           else (.cmp .lt, t))
        else if c = '>' then
          (if headIs t '=' then (.cmp .ge, t.tail) else (.cmp .gt, t))
        else if c = '#' then
          (match consumeError cfg.errors (c :: t) with
           | some (e, rest) => (.err e, rest)
           | none => (.spill, t))
        else if c = '"' then
          (match consumeString t with
           | some (s, rest) => (.str s, rest)
           | none => (.illegal, []))
        else if c = '\'' then ofRefTok (quotedPath cfg.cc cfg.a1 t)
        else if isDigit c then digitBranch cfg c t
        else if isIdentStart cfg.cc c then identBranch cfg (c :: t)
        else (.illegal, []))

/-- the token loop every caller of the lexer runs: `next_token` until `EOF` -/
def lexN (cfg : LexCfg) : Nat → List Char → List CTok
  | 0, _ => []
  | n + 1, s =>
    match nextToken cfg s with
    | none => []
    | some (t, rest) => t :: lexN cfg n rest

/-- every token consumes at least one character, so `length + 1` steps reach `EOF` -/
def lex (cfg : LexCfg) (s : List Char) : List CTok := lexN cfg (s.length + 1) s

/-! ### the renderer: what stringify.rs writes for each token -/

def cmpText : OpCmp → List Char
  | .lt => ['<'] | .gt => ['>'] | .eq => ['='] | .le => ['<', '='] | .ge => ['>', '=']
  | .ne => ['<', '>']

def errText (errors : List (List Char × Nat)) (e : Nat) : List Char :=
  match errors.find? (fun p => p.2 = e) with
  | some p => p.1
  | none => []

def sheetPrefix (cc : CharClass) : Option (List Char) → List Char
  | none => []
  | some n => quoteName cc n ++ ['!']

/-- the text of one token as stringify.rs writes it: no spaces; a number is its digit string with
    the locale's decimal separator (NumberKind arm: `s.replace(".", decimal)`); a string keeps its
    doubled quotes between `"`(StringKind arm: `format!("\"{value}\"")`); booleans and errors in
    the language; references through C22's `printA1` / `printR1C1` (context cell (0,0): token
    coordinates are the displayed ones) with `quote_name`d sheet prefix.
    `illegal` and structured references have no printed form in stringify.rs. -/
def renderTok (cfg : LexCfg) : CTok → List Char
  | .illegal => []
  | .ident s => s
  | .str s => '"' :: (s ++ ['"'])
  | .num d => d.map (fun c => if c = '.' then cfg.decimal else c)
  | .bool b => if b then cfg.trueName else cfg.falseName
  | .err e => errText cfg.errors e
  | .cmp k => cmpText k
  | .add => ['+'] | .sub => ['-'] | .mul => ['*'] | .div => ['/'] | .pow => ['^']
  | .lp => ['('] | .rp => [')'] | .colon => [':'] | .semi => [';'] | .lbk => ['['] | .rbk => [']']
  | .lbrace => ['{'] | .rbrace => ['}'] | .comma => [','] | .bang => ['!'] | .pct => ['%']
  | .amp => ['&'] | .at => ['@'] | .spill => ['#'] | .backslash => ['\\']
  | .ref sh r =>
    if cfg.a1 then printA1 (sheetPrefix cfg.cc sh) 0 0 r false false
    else printR1C1 (sheetPrefix cfg.cc sh) r
  | .range sh l r =>
    if cfg.a1 then printRangeA1 (sheetPrefix cfg.cc sh) 0 0 l r
    else printRangeR1C1 (sheetPrefix cfg.cc sh) l r
  | .sref _ _ _ => []

def render (cfg : LexCfg) (ts : List CTok) : List Char := ts.flatMap (renderTok cfg)

end IronCalc.Formula
